(* C18/Proofs_op.v — the operator module: which stores survive export + (repaired) import for EVERY state, and
   exact round trip on the states whose reverse lookups are the derivable ones. *)
From Coq Require Import List String Ascii Bool ZArith Lia Sorting.Sorted.
From Exo Require Import Base.Store Base.Util C18.Model C18.Proofs C18.Proofs_mod C18.Proofs_dg.
Import ListNotations.
Local Open Scope list_scope.

(* ---------- importers as sequences of writes ---------- *)
Definition wr := (string * val)%type.
Definition apply_writes (acc : mstore) (ws : list wr) : mstore := fold_left (fun s kv => sset s (fst kv) (snd kv)) ws acc.

Definition subP (P : string -> bool) (a b : mstore) : Prop :=
  forall k v, P k = true -> sget a k = Some v -> sget b k = Some v.

Lemma subP_nil P b : subP P [] b.
Proof. intros k v _ H; discriminate. Qed.

Lemma sset_subP P (a b : mstore) k v : sorted a -> subP P a b -> (P k = false \/ sget b k = Some v) ->
  subP P (sset a k v) b.
Proof.
  intros Ha Hs Hk k' v' HP H. destruct (string_dec k k') as [->|Hne].
  - rewrite sget_sset_same in H. inversion H; subst. destruct Hk as [Hk|Hk]; [congruence | exact Hk].
  - rewrite (sget_sset_other _ _ _ _ Ha Hne) in H. apply Hs; assumption.
Qed.

Definition writes_ok (P : string -> bool) (b : mstore) (ws : list wr) : Prop :=
  forall kv, In kv ws -> P (fst kv) = false \/ sget b (fst kv) = Some (snd kv).

Lemma apply_writes_inv P ws : forall (acc b : mstore), sorted acc -> subP P acc b -> writes_ok P b ws ->
  let res := apply_writes acc ws in
  sorted res /\ subP P res b /\ (forall k, sget acc k <> None -> sget res k <> None) /\
  (forall kv, In kv ws -> sget res (fst kv) <> None) /\
  (forall k, sget res k <> None -> sget acc k <> None \/ exists kv, In kv ws /\ k = fst kv).
Proof.
  unfold apply_writes. induction ws as [|[k v] ws IH]; simpl; intros acc b Ha Hs Hw.
  - repeat split; auto; try (intros ? []).
  - assert (sorted (sset acc k v)) as Ha' by (apply sset_sorted; exact Ha).
    assert (subP P (sset acc k v) b) as Hs' by (apply sset_subP; auto; apply (Hw (k, v)); left; reflexivity).
    destruct (IH _ b Ha' Hs' (fun kv H => Hw kv (or_intror H))) as [I1 [I2 [I3 [I4 I5]]]].
    repeat split; auto.
    + intros k' Hk. apply I3. apply sset_keeps; auto.
    + intros kv [<-|Hin]; [apply I3; simpl; rewrite sget_sset_same; discriminate | apply I4; exact Hin].
    + intros k' Hk. destruct (I5 k' Hk) as [H|[kv [Hin E]]].
      * destruct (string_dec k k') as [<-|Hne]; [right; exists (k, v); split; [left; reflexivity | reflexivity]|].
        left. rewrite (sget_sset_other _ _ _ _ Ha Hne) in H. exact H.
      * right. exists kv. split; [right; exact Hin | exact E].
Qed.

(* a fold whose step is a sequence of writes *)
Lemma fold_writes_inv {A} P (f : mstore -> A -> mstore) (writes : A -> list wr) :
  (forall acc a, f acc a = apply_writes acc (writes a)) ->
  forall (l : list A) (acc b : mstore), sorted acc -> subP P acc b ->
  (forall a, In a l -> writes_ok P b (writes a)) ->
  let res := fold_left f l acc in
  sorted res /\ subP P res b /\ (forall k, sget acc k <> None -> sget res k <> None) /\
  (forall a kv, In a l -> In kv (writes a) -> sget res (fst kv) <> None) /\
  (forall k, sget res k <> None -> sget acc k <> None \/ exists a kv, In a l /\ In kv (writes a) /\ k = fst kv).
Proof.
  intros Hf. induction l as [|a l IH]; simpl; intros acc b Ha Hs Hw.
  - repeat split; auto; try (intros ? ? []).
  - rewrite Hf.
    destruct (apply_writes_inv P (writes a) acc b Ha Hs (Hw a (or_introl eq_refl))) as [J1 [J2 [J3 [J4 J5]]]].
    destruct (IH _ b J1 J2 (fun a' H => Hw a' (or_intror H))) as [I1 [I2 [I3 [I4 I5]]]].
    repeat split; auto.
    + intros a' kv [<-|Hin] Hkv; [apply I3, J4; exact Hkv | apply (I4 a' kv Hin Hkv)].
    + intros k Hk. destruct (I5 k Hk) as [H|[a' [kv [Hin [Hkv E]]]]].
      * destruct (J5 k H) as [H'|[kv [Hkv E]]]; [left; exact H'|].
        right. exists a, kv. split; [left; reflexivity | split; assumption].
      * right. exists a', kv. split; [right; exact Hin | split; assumption].
Qed.

(* ---------- the four stages of op_init as writes ---------- *)
Definition info_writes (t : Z) (r : row) : list wr :=
  [(("01" ++ fst r)%string, match snd r with VInfo d t0 => VInfo d (if true && negb (t0 =? -1)%Z then t0 else t) | v => v end)].
Definition key_writes (consaddr : list (string * string)) (r : row) : list wr :=
  (("07" ++ fst r)%string, snd r) :: op_rev09 r ::
  match op_lookup07 consaddr r with Some kv => [kv] | None => [] end.
Definition prev_writes (consaddr : list (string * string)) (r : row) : list wr :=
  match op_lookup08 consaddr r with Some kv => [kv] | None => [] end.
Definition sec_writes (sec : string * list row) : list wr := map (fun r => ((fst sec ++ fst r)%string, snd r)) (snd sec).

Lemma info_step_eq t acc r :
  sset acc ("01" ++ fst r) (match snd r with VInfo d t0 => VInfo d (if true && negb (t0 =? -1)%Z then t0 else t) | v => v end)
  = apply_writes acc (info_writes t r).
Proof. reflexivity. Qed.

Lemma key_step_eq consaddr acc r : op_key_step consaddr acc r = apply_writes acc (key_writes consaddr r).
Proof.
  unfold op_key_step, key_writes, op_lookup07, op_rev09, apply_writes.
  destruct (consaddr_of consaddr (snd r)); reflexivity.
Qed.

Lemma prev_step_eq consaddr acc r : op_prev_step consaddr acc r = apply_writes acc (prev_writes consaddr r).
Proof.
  unfold op_prev_step, prev_writes, op_lookup08, apply_writes.
  destruct (consaddr_of consaddr (snd r)); reflexivity.
Qed.

Lemma put_rows_eq p rows (acc : mstore) : put_rows p rows acc = apply_writes acc (sec_writes (p, rows)).
Proof.
  unfold put_rows, apply_writes, sec_writes. simpl. revert acc.
  induction rows as [|r rows IH]; intro acc; simpl; [reflexivity | apply IH].
Qed.

Lemma op_plain_sections (s : mstore) :
  filter (fun sec : string * list row => existsb (String.eqb (fst sec)) op_plain) (op_export s) = export_plain op_plain s.
Proof. reflexivity. Qed.

(* ---------- what survives, for every state ---------- *)
Definition surv (k : string) : bool := covered_key op_survivors k.

Lemma surv_09 x : surv ("09" ++ x)%string = false. Proof. reflexivity. Qed.
Lemma surv_0a x : surv ("0a" ++ x)%string = false. Proof. reflexivity. Qed.

Lemma info_ok_row (s : mstore) r v t : op_info_ok s = true -> In (r, v) (rows_of "01" s) ->
  match v with VInfo d t0 => VInfo d (if true && negb (t0 =? -1)%Z then t0 else t) | v => v end = v.
Proof.
  unfold op_info_ok. rewrite forallb_forall. intros H Hin. specialize (H _ Hin). simpl in H.
  destruct v as [| | | |d t0]; try discriminate. simpl. rewrite H. reflexivity.
Qed.

(* generic statement for both theorems: [P] = keys on which the result is compared with the state *)
Lemma op_init_inv P c consaddr (s : mstore) : sorted s -> op_info_ok s = true ->
  (forall r, In r (rows_of "07" s) -> writes_ok P s (key_writes consaddr r)) ->
  (forall r, In r (rows_of "08" s) -> writes_ok P s (prev_writes consaddr r)) ->
  exists s', op_init c consaddr (op_export s) = Ok s' /\ sorted s' /\ subP P s' s /\
    (forall p r v, In p op_survivors -> In (r, v) (rows_of p s) -> sget s' (p ++ r)%string <> None) /\
    (forall r kv, In r (rows_of "07" s) -> In kv (key_writes consaddr r) -> sget s' (fst kv) <> None) /\
    (forall r kv, In r (rows_of "08" s) -> In kv (prev_writes consaddr r) -> sget s' (fst kv) <> None) /\
    (forall k, sget s' k <> None -> surv k = true \/ has_prefix "09" k = true \/ has_prefix "0a" k = true).
Proof.
  intros Hs Hinfo H07 H08.
  assert (forall p r v, In (r, v) (rows_of p s) -> sget s (p ++ r)%string = Some v) as Hget
    by (intros p r v Hin; apply sget_in; [exact Hs | apply rows_of_in; exact Hin]).
  unfold op_init, op_init_with.
  change (gsec (op_export s) "01") with (rows_of "01" s).
  change (gsec (op_export s) "07") with (rows_of "07" s).
  change (gsec (op_export s) "08") with (rows_of "08" s).
  rewrite op_plain_sections.
  (* infos *)
  destruct (fold_writes_inv P (fun acc r => sset acc ("01" ++ fst r) (match snd r with VInfo d t0 => VInfo d (if true && negb (t0 =? -1)%Z then t0 else cx_time c) | v => v end))
              (info_writes (cx_time c)) (info_step_eq (cx_time c)) (rows_of "01" s) [] s sorted_nil (subP_nil P s))
    as [A1 [A2 [_ [A4 A5]]]].
  { intros [r v] Hin kv [<-|[]]. right.
    pose proof Hinfo as Hi. unfold op_info_ok in Hi. rewrite forallb_forall in Hi. specialize (Hi _ Hin). cbn [snd] in Hi.
    destruct v as [| | | |d t0]; try discriminate. cbn [fst snd]. rewrite Hi. cbn [andb]. apply Hget; exact Hin. }
  change (fold_left (fun acc r => sset acc ("01" ++ fst r) (match snd r with VInfo d t0 => VInfo d (if true && negb (t0 =? -1)%Z then t0 else cx_time c) | v => v end)) (rows_of "01" s) [])
    with (op_init_info (cx_time c) (rows_of "01" s) []) in *.
  set (s1 := op_init_info (cx_time c) (rows_of "01" s) []) in *.
  (* keys *)
  destruct (fold_writes_inv P (op_key_step consaddr) (key_writes consaddr) (key_step_eq consaddr) (rows_of "07" s) s1 s A1 A2 H07)
    as [B1 [B2 [B3 [B4 B5]]]].
  change (fold_left (op_key_step consaddr) (rows_of "07" s) s1) with (op_init_keys consaddr (rows_of "07" s) s1) in *.
  set (s2 := op_init_keys consaddr (rows_of "07" s) s1) in *.
  (* plain collections *)
  destruct (fold_writes_inv P (fun acc (sec : string * list row) => put_rows (fst sec) (snd sec) acc) sec_writes
              (fun acc sec => put_rows_eq (fst sec) (snd sec) acc) (export_plain op_plain s) s2 s B1 B2)
    as [C1 [C2 [C3 [C4 C5]]]].
  { intros sec Hsec kv Hkv. right. unfold export_plain in Hsec. apply in_map_iff in Hsec. destruct Hsec as [p [<- Hp]].
    unfold sec_writes in Hkv. simpl in Hkv. apply in_map_iff in Hkv. destruct Hkv as [[r v] [<- Hin]]. simpl. apply Hget; exact Hin. }
  change (fold_left (fun acc (sec : string * list row) => put_rows (fst sec) (snd sec) acc) (export_plain op_plain s) s2)
    with (init_plain (export_plain op_plain s) s2) in *.
  set (s3 := init_plain (export_plain op_plain s) s2) in *.
  (* previous keys *)
  destruct (fold_writes_inv P (op_prev_step consaddr) (prev_writes consaddr) (prev_step_eq consaddr) (rows_of "08" s) s3 s C1 C2 H08)
    as [D1 [D2 [D3 [D4 D5]]]].
  change (fold_left (op_prev_step consaddr) (rows_of "08" s) s3) with (op_init_prev true consaddr (rows_of "08" s) s3) in *.
  set (s4 := op_init_prev true consaddr (rows_of "08" s) s3) in *.
  exists s4. split; [reflexivity|]. split; [exact D1|]. split; [exact D2|].
  split; [|split; [|split]].
  - intros p r v Hp Hin. simpl in Hp.
    destruct Hp as [<-|[<-|[<-|[<-|[<-|[<-|[<-|[<-|[]]]]]]]]].
    + apply D3, C3, B3.
      refine (A4 (r, v) (List.hd (EmptyString, VRaw EmptyString) (info_writes (cx_time c) (r, v))) Hin _). left; reflexivity.
    + apply D3. apply (C4 ("02"%string, rows_of "02" s) ("02" ++ r, v)%string).
      * unfold export_plain. apply in_map_iff. exists "02"%string. split; [reflexivity | simpl; tauto].
      * unfold sec_writes. simpl. apply in_map_iff. exists (r, v). split; [reflexivity | exact Hin].
    + apply D3. apply (C4 ("03"%string, rows_of "03" s) ("03" ++ r, v)%string).
      * unfold export_plain. apply in_map_iff. exists "03"%string. split; [reflexivity | simpl; tauto].
      * unfold sec_writes. simpl. apply in_map_iff. exists (r, v). split; [reflexivity | exact Hin].
    + apply D3. apply (C4 ("04"%string, rows_of "04" s) ("04" ++ r, v)%string).
      * unfold export_plain. apply in_map_iff. exists "04"%string. split; [reflexivity | simpl; tauto].
      * unfold sec_writes. simpl. apply in_map_iff. exists (r, v). split; [reflexivity | exact Hin].
    + apply D3. apply (C4 ("05"%string, rows_of "05" s) ("05" ++ r, v)%string).
      * unfold export_plain. apply in_map_iff. exists "05"%string. split; [reflexivity | simpl; tauto].
      * unfold sec_writes. simpl. apply in_map_iff. exists (r, v). split; [reflexivity | exact Hin].
    + apply D3, C3. apply (B4 (r, v) ("07" ++ r, v)%string Hin). left; reflexivity.
    + apply D3. apply (C4 ("08"%string, rows_of "08" s) ("08" ++ r, v)%string).
      * unfold export_plain. apply in_map_iff. exists "08"%string. split; [reflexivity | simpl; tauto].
      * unfold sec_writes. simpl. apply in_map_iff. exists (r, v). split; [reflexivity | exact Hin].
    + apply D3. apply (C4 ("0b"%string, rows_of "0b" s) ("0b" ++ r, v)%string).
      * unfold export_plain. apply in_map_iff. exists "0b"%string. split; [reflexivity | simpl; tauto].
      * unfold sec_writes. simpl. apply in_map_iff. exists (r, v). split; [reflexivity | exact Hin].
  - intros r kv Hin Hkv. apply D3, C3. apply (B4 r kv Hin Hkv).
  - intros r kv Hin Hkv. apply (D4 r kv Hin Hkv).
  - intros k Hk.
    destruct (D5 k Hk) as [H3|[r [kv [Hin [Hkv ->]]]]].
    2:{ right; right. unfold prev_writes, op_lookup08 in Hkv. destruct (consaddr_of consaddr (snd r)); [|contradiction].
        destruct Hkv as [<-|[]]. reflexivity. }
    destruct (C5 k H3) as [H2|[sec [kv [Hsec [Hkv ->]]]]].
    2:{ left. unfold export_plain in Hsec. apply in_map_iff in Hsec. destruct Hsec as [p [<- Hp]].
        unfold sec_writes in Hkv. simpl in Hkv. apply in_map_iff in Hkv. destruct Hkv as [[r v] [<- _]]. simpl.
        unfold surv, covered_key. apply existsb_exists. exists p. split; [|apply has_prefix_app].
        simpl in Hp. simpl. tauto. }
    destruct (B5 k H2) as [H1|[r [kv [Hin [Hkv ->]]]]].
    2:{ unfold key_writes in Hkv. destruct Hkv as [<-|[<-|Hkv]].
        - left. simpl. unfold surv, covered_key. apply existsb_exists. exists "07"%string. split; [simpl; tauto | reflexivity].
        - right; left. unfold op_rev09. reflexivity.
        - right; right. unfold op_lookup07 in Hkv. destruct (consaddr_of consaddr (snd r)); [|contradiction].
          destruct Hkv as [<-|[]]. reflexivity. }
    destruct (A5 k H1) as [H0|[r [kv [Hin [Hkv ->]]]]]; [elim H0; reflexivity|].
    destruct Hkv as [<-|[]]. left. simpl. unfold surv, covered_key. apply existsb_exists. exists "01"%string.
    split; [simpl; tauto | reflexivity].
Qed.

(* THEOREM A — for EVERY sorted operator store whose infos carry a commission time: the (repaired) import of
   the exported document does not panic; every entry under 01 02 03 04 05 07 08 0b is reproduced exactly and
   nothing is added there; nothing exists under any other prefix than 09 / 0a (so 06 is lost); whatever is
   under 09 / 0a has been recomputed from the keys. *)
Theorem operator_survivors c consaddr (s : mstore) : sorted s -> op_info_ok s = true ->
  exists s', op_init c consaddr (op_export s) = Ok s' /\ sorted s' /\
    (forall k, surv k = true -> sget s' k = sget s k) /\
    (forall k, sget s' k <> None -> surv k = true \/ has_prefix "09" k = true \/ has_prefix "0a" k = true).
Proof.
  intros Hs Hinfo.
  assert (forall p r v, In (r, v) (rows_of p s) -> sget s (p ++ r)%string = Some v) as Hget
    by (intros p r v Hin; apply sget_in; [exact Hs | apply rows_of_in; exact Hin]).
  destruct (op_init_inv surv c consaddr s Hs Hinfo) as [s' [E [S1 [S2 [S3 [_ [_ S6]]]]]]].
  - intros [r v] Hin kv Hkv. unfold key_writes in Hkv. destruct Hkv as [<-|[<-|Hkv]].
    + right. exact (Hget "07"%string r v Hin).
    + left. unfold op_rev09. simpl. apply surv_09.
    + left. unfold op_lookup07 in Hkv. destruct (consaddr_of consaddr (snd (r, v))); [|contradiction].
      destruct Hkv as [<-|[]]. simpl. apply surv_0a.
  - intros r Hin kv Hkv. left. unfold prev_writes, op_lookup08 in Hkv. destruct (consaddr_of consaddr (snd r)); [|contradiction].
    destruct Hkv as [<-|[]]. simpl. apply surv_0a.
  - exists s'. split; [exact E|]. split; [exact S1|]. split; [|exact S6].
    intros k Hk. destruct (sget s' k) as [v|] eqn:E1.
    + symmetry. apply (S2 k v Hk E1).
    + destruct (sget s k) as [v|] eqn:E2; [|reflexivity]. exfalso.
      apply (sget_in s k v Hs) in E2.
      unfold surv, covered_key in Hk. apply existsb_exists in Hk. destruct Hk as [p [Hp Hpre]].
      destruct (has_prefix_split p k Hpre) as [r [-> Hstrip]].
      apply (S3 p r v Hp (rows_of_complete p s _ v r E2 Hstrip)). exact E1.
Qed.

(* ---------- exact round trip ---------- *)
Lemma kv_in_sound (s : mstore) kv : kv_in s kv = true -> sget s (fst kv) = Some (snd kv).
Proof.
  unfold kv_in. destruct (sget s (fst kv)) as [v|]; [|discriminate]. intro H. f_equal.
  destruct v, (snd kv); simpl in H; try discriminate.
  - apply String.eqb_eq in H. subst; reflexivity.
  - f_equal. apply (list_eqb_eq String.eqb); [intros x y E; apply String.eqb_eq; exact E | exact H].
  - apply Z.eqb_eq in H. subst; reflexivity.
  - repeat (apply andb_prop in H; destruct H as [H ?]).
    repeat match goal with
           | E : String.eqb _ _ = true |- _ => apply String.eqb_eq in E
           | E : Z.eqb _ _ = true |- _ => apply Z.eqb_eq in E
           end. subst. reflexivity.
  - apply andb_prop in H. destruct H as [H1 H2]. apply String.eqb_eq in H1. apply Z.eqb_eq in H2. subst; reflexivity.
Qed.

(* THEOREM B — exact round trip on the states whose reverse lookups are the derivable ones *)
Theorem operator_roundtrip c consaddr (s : mstore) : sorted s -> op_wf consaddr s = true ->
  op_init c consaddr (op_export s) = Ok s.
Proof.
  intros Hs Hwf. unfold op_wf in Hwf.
  apply andb_prop in Hwf. destruct Hwf as [Hwf W0a]. apply andb_prop in Hwf. destruct Hwf as [Hwf W09].
  apply andb_prop in Hwf. destruct Hwf as [Hwf W08]. apply andb_prop in Hwf. destruct Hwf as [Hwf W07].
  apply andb_prop in Hwf. destruct Hwf as [Wk Winfo].
  rewrite forallb_forall in W07, W08, W09, W0a.
  assert (forall p r v, In (r, v) (rows_of p s) -> sget s (p ++ r)%string = Some v) as Hget
    by (intros p r v Hin; apply sget_in; [exact Hs | apply rows_of_in; exact Hin]).
  destruct (op_init_inv (fun _ => true) c consaddr s Hs Winfo) as [s' [E [S1 [S2 [S3 [S4 [S5 _]]]]]]].
  - intros [r v] Hin kv Hkv. right. specialize (W07 _ Hin). apply andb_prop in W07. destruct W07 as [Wa Wb].
    unfold key_writes in Hkv. destruct Hkv as [<-|[<-|Hkv]].
    + exact (Hget "07"%string r v Hin).
    + apply kv_in_sound; exact Wa.
    + destruct (op_lookup07 consaddr (r, v)) as [kv'|]; [|contradiction]. destruct Hkv as [<-|[]].
      apply kv_in_sound; exact Wb.
  - intros r Hin kv Hkv. right. specialize (W08 _ Hin). unfold prev_writes in Hkv.
    destruct (op_lookup08 consaddr r) as [kv'|]; [|contradiction]. destruct Hkv as [<-|[]]. apply kv_in_sound; exact W08.
  - rewrite E. f_equal. apply sub_full_eq; auto.
    + intros k v H. apply (S2 k v eq_refl H).
    + intros k Hk. destruct (sget s k) as [v|] eqn:Eg; [|congruence].
      apply (sget_in s k v Hs) in Eg.
      assert (covered_key ["01"; "02"; "03"; "04"; "05"; "07"; "08"; "09"; "0a"; "0b"]%string k = true) as Hck.
      { unfold keys_under, covered in Wk. rewrite forallb_forall in Wk. apply Wk. unfold skeys. apply in_map_iff. exists (k, v). auto. }
      unfold covered_key in Hck. apply existsb_exists in Hck. destruct Hck as [p [Hp Hpre]].
      destruct (has_prefix_split p k Hpre) as [r [-> Hstrip]].
      pose proof (rows_of_complete p s _ v r Eg Hstrip) as Hrow.
      simpl in Hp.
      destruct Hp as [<-|[<-|[<-|[<-|[<-|[<-|[<-|[<-|[<-|[<-|[]]]]]]]]]]];
        try (match goal with |- sget s' (?q ++ r)%string <> None => apply (S3 q r v ltac:(simpl; tauto) Hrow) end).
      * specialize (W09 _ Hrow). apply existsb_exists in W09. destruct W09 as [r7 [Hin7 E9]].
        apply String.eqb_eq in E9. cbn [fst] in E9. rewrite <- E9.
        apply (S4 r7 (op_rev09 r7) Hin7). unfold key_writes. right; left; reflexivity.
      * specialize (W0a _ Hrow). apply orb_prop in W0a. destruct W0a as [W|W].
        -- apply existsb_exists in W. destruct W as [r7 [Hin7 Ea]].
           destruct (op_lookup07 consaddr r7) as [kv|] eqn:El; [|discriminate].
           apply String.eqb_eq in Ea. cbn [fst] in Ea. rewrite <- Ea.
           apply (S4 r7 kv Hin7). unfold key_writes. rewrite El. right; right; left; reflexivity.
        -- apply existsb_exists in W. destruct W as [r8 [Hin8 Ea]].
           destruct (op_lookup08 consaddr r8) as [kv|] eqn:El; [|discriminate].
           apply String.eqb_eq in Ea. cbn [fst] in Ea. rewrite <- Ea.
           apply (S5 r8 kv Hin8). unfold prev_writes. rewrite El. left; reflexivity.
Qed.

Theorem operator_idempotent c consaddr (s s' : mstore) : sorted s -> op_wf consaddr s = true ->
  op_init c consaddr (op_export s) = Ok s' -> op_export s' = op_export s.
Proof. intros Hs Hwf H. rewrite (operator_roundtrip c consaddr s Hs Hwf) in H. inversion H. reflexivity. Qed.
