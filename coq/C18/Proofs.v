(* C18/Proofs.v — lemmas about the genesis model (all tactics live here). *)
From Coq Require Import List String Ascii Bool ZArith Lia Sorting.Sorted.
From Exo Require Import Base.Store Base.Util C18.Model.
Import ListNotations.
Local Open Scope list_scope.

(* ---------- strings ---------- *)
Lemma strip_sound p : forall k r, strip p k = Some r -> k = (p ++ r)%string.
Proof.
  induction p as [|c p IH]; simpl; intros k r H.
  - inversion H; reflexivity.
  - destruct k as [|d k']; [discriminate|].
    destruct (Ascii.eqb c d) eqn:E; [|discriminate].
    apply Ascii.eqb_eq in E; subst d. f_equal. apply IH; exact H.
Qed.

Lemma strip_app p r : strip p (p ++ r)%string = Some r.
Proof. induction p as [|c p IH]; simpl; [reflexivity|]. rewrite Ascii.eqb_refl. exact IH. Qed.

(* ---------- stores: extensionality, filters ---------- *)
Section StoreFacts.
  Context {V : Type}.
  Implicit Types s a b : store V.

  Lemma scmp_cases k1 k2 : (scmp k1 k2 = Eq /\ k1 = k2) \/ (scmp k1 k2 = Lt /\ slt k1 k2) \/ (scmp k1 k2 = Gt /\ slt k2 k1).
  Proof.
    destruct (scmp k1 k2) eqn:E.
    - left; split; [reflexivity | apply scmp_eq; exact E].
    - right; left; split; [reflexivity | apply scmp_lt; exact E].
    - right; right; split; [reflexivity | apply scmp_gt; exact E].
  Qed.

  Lemma sget_below s k : sorted s -> (forall x, In x (skeys s) -> slt k x) -> sget s k = None.
  Proof. apply sget_notin. Qed.

  Lemma sget_head_lt k0 (v0 : V) r k : sorted ((k0, v0) :: r) -> slt k k0 -> sget ((k0, v0) :: r) k = None.
  Proof. intros _ L. simpl. apply scmp_lt in L. rewrite L. reflexivity. Qed.

  Lemma sget_tail_none k0 (v0 : V) r : sorted ((k0, v0) :: r) -> sget r k0 = None.
  Proof.
    intro Hs. apply sget_notin; [eapply sorted_tail; eauto|].
    pose proof (sorted_head _ _ _ Hs) as Hf. rewrite Forall_forall in Hf. exact Hf.
  Qed.

  Lemma sget_tail_lt k0 (v0 : V) r k : sorted ((k0, v0) :: r) -> slt k k0 -> sget r k = None.
  Proof.
    intros Hs L. apply sget_notin; [eapply sorted_tail; eauto|].
    pose proof (sorted_head _ _ _ Hs) as Hf. rewrite Forall_forall in Hf.
    intros x Hx. eapply slt_trans; [exact L | apply Hf; exact Hx].
  Qed.

  Lemma sorted_ext a : forall b, sorted a -> sorted b -> (forall k, sget a k = sget b k) -> a = b.
  Proof.
    induction a as [|[k1 v1] ra IH]; intros [|[k2 v2] rb] Ha Hb E.
    - reflexivity.
    - specialize (E k2). simpl in E. rewrite scmp_refl in E. discriminate.
    - specialize (E k1). simpl in E. rewrite scmp_refl in E. discriminate.
    - destruct (scmp_cases k1 k2) as [[_ ->]|[[_ L]|[_ L]]].
      + pose proof (E k2) as E2. simpl in E2. rewrite scmp_refl in E2. inversion E2; subst v2.
        f_equal. apply IH; [eapply sorted_tail; eauto | eapply sorted_tail; eauto |].
        intro k. destruct (scmp_cases k k2) as [[_ ->]|[[_ L]|[C L]]].
        * rewrite (sget_tail_none _ _ _ Ha), (sget_tail_none _ _ _ Hb). reflexivity.
        * rewrite (sget_tail_lt _ _ _ _ Ha L), (sget_tail_lt _ _ _ _ Hb L). reflexivity.
        * specialize (E k). simpl in E. rewrite C in E. exact E.
      + exfalso. specialize (E k1). simpl in E. rewrite scmp_refl in E.
        apply scmp_lt in L. rewrite L in E. discriminate.
      + exfalso. specialize (E k2). simpl in E. rewrite scmp_refl in E.
        apply scmp_lt in L. rewrite L in E. discriminate.
  Qed.

  Lemma filter_keys_incl (P : string * V -> bool) s x : In x (skeys (filter P s)) -> In x (skeys s).
  Proof.
    unfold skeys. rewrite !in_map_iff. intros [kv [E Hin]]. apply filter_In in Hin.
    exists kv; tauto.
  Qed.

  Lemma filter_sorted (P : string * V -> bool) s : sorted s -> sorted (filter P s).
  Proof.
    induction s as [|[k v] r IH]; simpl; intro Hs; [exact Hs|].
    pose proof (sorted_tail _ _ _ Hs) as Hr. pose proof (sorted_head _ _ _ Hs) as Hf.
    destruct (P (k, v)); [|apply IH; exact Hr].
    unfold sorted in *; simpl. constructor; [apply IH; exact Hr|].
    rewrite Forall_forall in *. intros x Hx. apply Hf. eapply filter_keys_incl; exact Hx.
  Qed.

  (* a filter that looks at keys only *)
  Lemma sget_filter_key (Q : string -> bool) s k : sorted s ->
    sget (filter (fun kv => Q (fst kv)) s) k = if Q k then sget s k else None.
  Proof.
    induction s as [|[k0 v0] r IH]; simpl; intro Hs.
    - destruct (Q k); reflexivity.
    - pose proof (sorted_tail _ _ _ Hs) as Hr.
      destruct (scmp_cases k k0) as [[C ->]|[[C L]|[C L]]].
      + rewrite scmp_refl. destruct (Q k0) eqn:EQ; simpl.
        * rewrite scmp_refl. reflexivity.
        * rewrite (IH Hr); try rewrite EQ; reflexivity.
      + rewrite C. destruct (Q k0) eqn:EQ; simpl.
        * rewrite C. destruct (Q k); reflexivity.
        * rewrite (IH Hr). rewrite (sget_tail_lt _ _ _ _ Hs L). destruct (Q k); reflexivity.
      + rewrite C. destruct (Q k0) eqn:EQ; simpl.
        * rewrite C. apply IH; exact Hr.
        * apply IH; exact Hr.
  Qed.

  (* ---------- "writes only pairs of the target and writes all of them" ---------- *)
  Definition sub a b : Prop := forall k v, sget a k = Some v -> sget b k = Some v.

  Lemma sub_nil b : sub [] b.
  Proof. intros k v H; discriminate. Qed.

  Lemma sset_sub a b k v : sorted a -> sub a b -> sget b k = Some v -> sub (sset a k v) b.
  Proof.
    intros Ha Hs Hb k' v' H.
    destruct (string_dec k k') as [->|Hne].
    - rewrite sget_sset_same in H. inversion H; subst; exact Hb.
    - rewrite (sget_sset_other _ _ _ _ Ha Hne) in H. apply Hs; exact H.
  Qed.

  Lemma sset_keeps a k v k' : sorted a -> sget a k' <> None -> sget (sset a k v) k' <> None.
  Proof.
    intros Ha H. destruct (string_dec k k') as [->|Hne].
    - rewrite sget_sset_same. discriminate.
    - rewrite (sget_sset_other _ _ _ _ Ha Hne). exact H.
  Qed.

  Lemma sub_full_eq a b : sorted a -> sorted b -> sub a b ->
    (forall k, sget b k <> None -> sget a k <> None) -> a = b.
  Proof.
    intros Ha Hb Hs Hf. apply sorted_ext; auto. intro k.
    destruct (sget a k) as [v|] eqn:Ea.
    - symmetry. apply Hs; exact Ea.
    - destruct (sget b k) as [v|] eqn:Eb; [|reflexivity].
      exfalso. apply (Hf k); [rewrite Eb; discriminate | exact Ea].
  Qed.
End StoreFacts.

(* ---------- the generic exporter / importer pair ---------- *)
Lemma rows_of_in p (s : mstore) r v : In (r, v) (rows_of p s) -> In ((p ++ r)%string, v) s.
Proof.
  unfold rows_of. rewrite in_flat_map. intros [[k v0] [Hin Hr]]. simpl in Hr.
  destruct (strip p k) as [r0|] eqn:E; [|contradiction].
  destruct Hr as [Hr|[]]. inversion Hr; subst. apply strip_sound in E. subst k. exact Hin.
Qed.

Lemma rows_of_complete p (s : mstore) k v r : In (k, v) s -> strip p k = Some r -> In (r, v) (rows_of p s).
Proof.
  intros Hin E. unfold rows_of. apply in_flat_map. exists (k, v). split; [exact Hin|].
  simpl. rewrite E. left; reflexivity.
Qed.

(* put_rows with rows that all belong to the target [b] *)
Lemma put_rows_inv p rows : forall (acc b : mstore),
  sorted acc -> sub acc b ->
  (forall r v, In (r, v) rows -> sget b (p ++ r)%string = Some v) ->
  let res := put_rows p rows acc in
  sorted res /\ sub res b /\
  (forall k, sget acc k <> None -> sget res k <> None) /\
  (forall r v, In (r, v) rows -> sget res (p ++ r)%string <> None).
Proof.
  unfold put_rows. induction rows as [|[r0 v0] rows IH]; simpl; intros acc b Ha Hs Hrows.
  - repeat split; auto; try (intros ? ? []).
  - assert (sorted (sset acc (p ++ r0)%string v0)) as Ha' by (apply sset_sorted; exact Ha).
    assert (sub (sset acc (p ++ r0)%string v0) b) as Hs'
      by (apply sset_sub; auto).
    destruct (IH _ b Ha' Hs' (fun r v H => Hrows r v (or_intror H))) as [I1 [I2 [I3 I4]]].
    repeat split; auto.
    + intros k Hk. apply I3. apply sset_keeps; auto.
    + intros r v [E|Hin].
      * inversion E; subst. apply I3. rewrite sget_sset_same. discriminate.
      * apply (I4 r v Hin).
Qed.

Definition covered_key (ps : list string) (k : string) : bool := existsb (fun p => has_prefix p k) ps.
Definition covered_part (ps : list string) (s : mstore) : mstore := filter (fun kv => covered_key ps (fst kv)) s.

Lemma init_plain_inv ps0 (s b : mstore) : sorted s ->
  (forall k v, In (k, v) s -> covered_key ps0 k = true -> sget b k = Some v) ->
  forall ps (acc : mstore), (forall p, In p ps -> In p ps0) ->
  sorted acc -> sub acc b ->
  let res := init_plain (export_plain ps s) acc in
  sorted res /\ sub res b /\
  (forall k, sget acc k <> None -> sget res k <> None) /\
  (forall p r v, In p ps -> In (r, v) (rows_of p s) -> sget res (p ++ r)%string <> None).
Proof.
  intros Hsorted Hb. unfold init_plain, export_plain.
  induction ps as [|p ps IH]; simpl; intros acc Hincl Ha Hs.
  - repeat split; auto; try (intros ? ? ? []).
  - assert (forall r v, In (r, v) (rows_of p s) -> sget b (p ++ r)%string = Some v) as Hrows.
    { intros r v Hin. apply rows_of_in in Hin. apply Hb; [exact Hin|].
      unfold covered_key. apply existsb_exists. exists p. split; [apply Hincl; left; reflexivity|].
      unfold has_prefix. rewrite strip_app. reflexivity. }
    destruct (put_rows_inv p (rows_of p s) acc b Ha Hs Hrows) as [J1 [J2 [J3 J4]]].
    destruct (IH _ (fun q Hq => Hincl q (or_intror Hq)) J1 J2) as [I1 [I2 [I3 I4]]].
    repeat split; auto.
    intros q r v [->|Hq] Hin.
    + apply I3. apply (J4 r v Hin).
    + apply (I4 q r v Hq Hin).
Qed.

(* Generic theorem: an exporter that iterates the prefixes [ps] and an importer that writes every
   exported row back under its prefix reproduce EXACTLY the entries lying under one of the prefixes;
   every other entry is lost. *)
Lemma plain_roundtrip_part ps (s : mstore) : sorted s ->
  init_plain (export_plain ps s) [] = covered_part ps s.
Proof.
  intro Hs.
  assert (sorted (covered_part ps s)) as Hc by (apply filter_sorted; exact Hs).
  assert (forall k v, In (k, v) s -> covered_key ps k = true -> sget (covered_part ps s) k = Some v) as Hb.
  { intros k v Hin Hcov. unfold covered_part. rewrite (sget_filter_key (covered_key ps) s k Hs), Hcov.
    apply sget_in; auto. }
  destruct (init_plain_inv ps s (covered_part ps s) Hs Hb ps [] (fun p H => H) sorted_nil (sub_nil _))
    as [I1 [I2 [_ I4]]].
  apply sub_full_eq; auto.
  intros k Hk. unfold covered_part in Hk. rewrite (sget_filter_key (covered_key ps) s k Hs) in Hk.
  destruct (covered_key ps k) eqn:Hcov; [|congruence].
  destruct (sget s k) as [v|] eqn:Eg; [|congruence].
  apply sget_in in Eg; auto.
  unfold covered_key in Hcov. apply existsb_exists in Hcov. destruct Hcov as [p [Hp Hpre]].
  unfold has_prefix in Hpre. destruct (strip p k) as [r|] eqn:Es; [|discriminate].
  pose proof (strip_sound _ _ _ Es) as ->.
  apply (I4 p r v Hp). eapply rows_of_complete; eauto.
Qed.

Lemma covered_part_all ps (s : mstore) : covered ps s = true -> covered_part ps s = s.
Proof.
  unfold covered, covered_part, skeys. intro H. rewrite forallb_forall in H.
  induction s as [|[k v] r IH]; simpl; [reflexivity|].
  assert (covered_key ps k = true) as -> by (apply (H k); simpl; left; reflexivity).
  f_equal. apply IH. intros x Hx. apply H. simpl; right; exact Hx.
Qed.

Lemma plain_roundtrip ps (s : mstore) : sorted s -> covered ps s = true ->
  init_plain (export_plain ps s) [] = s.
Proof. intros Hs Hc. rewrite plain_roundtrip_part; auto. apply covered_part_all; exact Hc. Qed.

(* an entry outside the exported prefixes does not survive *)
Lemma plain_lost ps (s : mstore) k : sorted s -> covered_key ps k = false ->
  sget (init_plain (export_plain ps s) []) k = None.
Proof.
  intros Hs Hc. rewrite plain_roundtrip_part; auto. unfold covered_part.
  rewrite (sget_filter_key (covered_key ps) s k Hs), Hc. reflexivity.
Qed.

Lemma export_plain_covered_part ps (s : mstore) : sorted s ->
  export_plain ps (covered_part ps s) = export_plain ps s.
Proof.
  intro Hs. unfold export_plain. apply map_ext_in. intros p Hp. f_equal.
  unfold rows_of, covered_part. induction s as [|[k v] r IH]; simpl; [reflexivity|].
  pose proof (sorted_tail _ _ _ Hs) as Hr.
  destruct (covered_key ps k) eqn:Hc; simpl.
  - rewrite (IH Hr). reflexivity.
  - rewrite (IH Hr). destruct (strip p k) as [r0|] eqn:Es; [|reflexivity].
    exfalso. unfold covered_key in Hc. rewrite <- not_true_iff_false in Hc. apply Hc.
    apply existsb_exists. exists p. split; [exact Hp|]. unfold has_prefix. rewrite Es. reflexivity.
Qed.

(* exporting the re-imported state yields the same document *)
Lemma plain_idempotent ps (s : mstore) : sorted s ->
  export_plain ps (init_plain (export_plain ps s) []) = export_plain ps s.
Proof. intro Hs. rewrite plain_roundtrip_part; auto. apply export_plain_covered_part; exact Hs. Qed.
