(* C18/Proofs_dg.v — the dogfood module as a whole: InitGenesis (ExportGenesis s) reproduces every
   non-volatile entry of a well-formed block-boundary state. *)
From Coq Require Import List String Ascii Bool ZArith Lia Sorting.Sorted.
From Exo Require Import Base.Store Base.Util C18.Model C18.Proofs C18.Proofs_mod.
Import ListNotations.
Local Open Scope list_scope.

(* ---------- small facts ---------- *)
Lemma forallb_weaken {A} (f g : A -> bool) l : (forall x, f x = true -> g x = true) ->
  forallb f l = true -> forallb g l = true.
Proof. intros H. rewrite !forallb_forall. intros Hf x Hx. apply H. apply Hf; exact Hx. Qed.

Lemma has_prefix_app p r : has_prefix p (p ++ r)%string = true.
Proof. unfold has_prefix. rewrite strip_app. reflexivity. Qed.

Lemma has_prefix_split p k : has_prefix p k = true -> exists r, k = (p ++ r)%string /\ strip p k = Some r.
Proof.
  unfold has_prefix. destruct (strip p k) as [r|] eqn:E; [|discriminate]. intros _.
  exists r. split; [apply strip_sound; exact E | reflexivity].
Qed.

(* two prefixes of the same length that both fit a key are equal *)
Lemma same_length_prefix p : forall q k, String.length p = String.length q ->
  has_prefix p k = true -> has_prefix q k = true -> p = q.
Proof.
  unfold has_prefix. induction p as [|c p IH]; intros [|d q] k Hl Hp Hq; simpl in *; try discriminate; auto.
  destruct k as [|e k']; [discriminate|].
  destruct (Ascii.eqb c e) eqn:E1; [|discriminate]. destruct (Ascii.eqb d e) eqn:E2; [|discriminate].
  apply Ascii.eqb_eq in E1, E2. subst. f_equal. apply (IH q k'); auto.
Qed.

Lemma skeys_in_sget (s : mstore) k : sorted s -> In k (skeys s) -> sget s k <> None.
Proof.
  intros Hs Hin. unfold skeys in Hin. apply in_map_iff in Hin. destruct Hin as [[k' v] [E Hin]].
  simpl in E; subst k'. apply (sget_in s k v Hs) in Hin. rewrite Hin. discriminate.
Qed.

Lemma rows_of_keys_nodup p (s : mstore) : sorted s -> NoDup (map fst (rows_of p s)).
Proof.
  induction s as [|[k v] r IH]; intro Hs; [constructor|].
  pose proof (sorted_tail _ _ _ Hs) as Hr. pose proof (sorted_head _ _ _ Hs) as Hf.
  change (rows_of p ((k, v) :: r)) with ((match strip p k with Some x => [(x, v)] | None => [] end) ++ rows_of p r).
  destruct (strip p k) as [x|] eqn:E; simpl; [|apply IH; exact Hr].
  constructor; [|apply IH; exact Hr].
  intro Hin. apply in_map_iff in Hin. destruct Hin as [[x' v'] [Ex Hin]]. simpl in Ex; subst x'.
  apply rows_of_in in Hin. apply strip_sound in E. subst k.
  rewrite Forall_forall in Hf. apply (slt_irrefl (p ++ x)%string). apply Hf.
  unfold skeys. apply in_map_iff. exists ((p ++ x)%string, v'). split; [reflexivity | exact Hin].
Qed.

Lemma row_is_list cur rows e v : forallb (queue_row_ok cur) rows = true -> In (e, v) rows ->
  exists a l, v = VList (a :: l).
Proof.
  rewrite forallb_forall. intros H Hin. specialize (H _ Hin). unfold queue_row_ok in H. simpl in H.
  destruct v as [|l| | |]; try discriminate. destruct l as [|a l]; [discriminate|]. exists a, l. reflexivity.
Qed.

Lemma put_rows_keys p rows : forall (acc : mstore) k, sorted acc -> sget (put_rows p rows acc) k <> None ->
  sget acc k <> None \/ has_prefix p k = true.
Proof.
  unfold put_rows. induction rows as [|[r v] rows IH]; simpl; intros acc k Hs H; [left; exact H|].
  destruct (IH _ k (sset_sorted _ _ _ Hs) H) as [H1|H1]; [|right; exact H1].
  destruct (string_dec (p ++ r)%string k) as [<-|Hne]; [right; apply has_prefix_app|].
  left. rewrite (sget_sset_other _ _ _ _ Hs Hne) in H1. exact H1.
Qed.

(* ---------- one queue step in invariant form ---------- *)
Definition noprefix (acc : mstore) (q : string) : Prop := forall k, has_prefix q k = true -> sget acc k = None.

Lemma queue_step cur p idx rows (acc b : mstore) :
  sorted acc -> sub acc b -> noprefix acc p ->
  NoDup (map fst rows) -> forallb (queue_row_ok cur) rows = true -> idx_disjoint p idx ->
  (forall e l, In (e, VList l) rows -> sget b (p ++ e)%string = Some (VList l)) ->
  (forall ip e l a, idx = Some ip -> In (e, VList l) rows -> In a l -> sget b (ip ++ a)%string = Some (VRaw e)) ->
  exists res, dg_init_queue cur p idx rows acc = Ok res /\ sorted res /\ sub res b /\
    (forall k, sget res k <> None ->
       has_prefix p k = true \/ (exists ip, idx = Some ip /\ has_prefix ip k = true) \/ sget acc k <> None) /\
    (forall k, sget acc k <> None -> sget res k <> None) /\
    (forall e l, In (e, VList l) rows -> sget res (p ++ e)%string <> None) /\
    (forall ip e l a, idx = Some ip -> In (e, VList l) rows -> In a l -> sget res (ip ++ a)%string <> None).
Proof.
  intros Hs Hsub Hno Hnd Hok Hdis Hq Hi.
  assert (forall e, In e (map fst rows) -> sget acc (p ++ e)%string = None) as Habs
    by (intros e _; apply Hno; apply has_prefix_app).
  destruct (queue_import cur p idx rows acc Hs (conj Hnd Hok) Hdis Habs) as [res [R0 [R1 [R2 [R3 R4]]]]].
  exists res. split; [exact R0|]. split; [exact R1|].
  set (qkeys := map (fun e => (p ++ e)%string) (map fst rows)).
  set (ikeys := match idx with
                | Some ip => flat_map (fun r => map (fun a => (ip ++ a)%string) (atoms (snd r))) rows
                | None => [] end).
  assert (forall k, In k qkeys -> exists e l, k = (p ++ e)%string /\ In (e, VList l) rows) as Hqk.
  { intros k Hin. unfold qkeys in Hin. apply in_map_iff in Hin. destruct Hin as [e [<- Hin]].
    apply in_map_iff in Hin. destruct Hin as [[e' v] [Ee Hin]]. simpl in Ee; subst e'.
    destruct (row_is_list cur rows e v Hok Hin) as [a [l ->]]. exists e, (a :: l). split; [reflexivity | exact Hin]. }
  assert (forall k, In k ikeys -> exists ip e l a, idx = Some ip /\ k = (ip ++ a)%string /\ In (e, VList l) rows /\ In a l) as Hik.
  { intros k Hin. unfold ikeys in Hin. destruct idx as [ip|]; [|contradiction].
    apply in_flat_map in Hin. destruct Hin as [[e v] [Hin Hk]]. simpl in Hk.
    apply in_map_iff in Hk. destruct Hk as [a [<- Ha]].
    destruct (row_is_list cur rows e v Hok Hin) as [a0 [l ->]]. simpl in Ha.
    exists ip, e, (a0 :: l), a. repeat split; auto. }
  assert (forall k, ~ In k qkeys -> ~ In k ikeys -> sget res k = sget acc k) as Hframe.
  { intros k Hnq Hni. apply R4.
    - intros e Hin E. apply Hnq. unfold qkeys. rewrite E. apply in_map. exact Hin.
    - intros ip e l a Hidx Hin Ha E. apply Hni. unfold ikeys. rewrite Hidx.
      apply in_flat_map. exists (e, VList l). split; [exact Hin|]. simpl. rewrite E. apply in_map. exact Ha. }
  split; [|split; [|split; [|split]]].
  - (* sub res b *)
    intros k v Hg.
    destruct (in_dec string_dec k qkeys) as [Hin|Hnq].
    + destruct (Hqk k Hin) as [e [l [-> Hrow]]]. rewrite (R2 e l Hrow) in Hg. inversion Hg; subst v.
      apply Hq; exact Hrow.
    + destruct (in_dec string_dec k ikeys) as [Hin|Hni].
      * destruct (Hik k Hin) as [ip [e [l [a [Hidx [-> [Hrow Ha]]]]]]].
        destruct (R3 ip e l a Hidx Hrow Ha) as [e' [Hg' [l' [Hrow' Ha']]]].
        rewrite Hg' in Hg. inversion Hg; subst v. apply (Hi ip e' l' a Hidx Hrow' Ha').
      * rewrite (Hframe k Hnq Hni) in Hg. apply Hsub; exact Hg.
  - intros k Hk.
    destruct (in_dec string_dec k qkeys) as [Hin|Hnq].
    + destruct (Hqk k Hin) as [e [l [-> _]]]. left. apply has_prefix_app.
    + destruct (in_dec string_dec k ikeys) as [Hin|Hni].
      * destruct (Hik k Hin) as [ip [e [l [a [Hidx [-> _]]]]]]. right; left. exists ip. split; [exact Hidx | apply has_prefix_app].
      * right; right. rewrite <- (Hframe k Hnq Hni). exact Hk.
  - intros k Hk.
    destruct (in_dec string_dec k qkeys) as [Hin|Hnq].
    + destruct (Hqk k Hin) as [e [l [-> Hrow]]]. rewrite (R2 e l Hrow). discriminate.
    + destruct (in_dec string_dec k ikeys) as [Hin|Hni].
      * destruct (Hik k Hin) as [ip [e [l [a [Hidx [-> [Hrow Ha]]]]]]].
        destruct (R3 ip e l a Hidx Hrow Ha) as [e' [Hg' _]]. rewrite Hg'. discriminate.
      * rewrite (Hframe k Hnq Hni). exact Hk.
  - intros e l Hrow. rewrite (R2 e l Hrow). discriminate.
  - intros ip e l a Hidx Hrow Ha. destruct (R3 ip e l a Hidx Hrow Ha) as [e' [Hg' _]]. rewrite Hg'. discriminate.
Qed.

(* ---------- unpacking dg_wf ---------- *)
Lemma nonvolatile_get (s : mstore) k : sorted s ->
  sget (nonvolatile "dogfood" s) k = if volatile "dogfood" k then None else sget s k.
Proof.
  intro Hs. unfold nonvolatile.
  rewrite (sget_filter_key (fun k => negb (volatile "dogfood" k)) s k Hs).
  destruct (volatile "dogfood" k); reflexivity.
Qed.

Lemma volatile_dogfood k : volatile "dogfood" k = has_prefix "0f" k || has_prefix "0c" k.
Proof. reflexivity. Qed.

Lemma not_volatile p r : In p ["01"; "03"; "04"; "05"; "06"; "0d"; "0e"; "10"]%string ->
  volatile "dogfood" (p ++ r)%string = false.
Proof.
  intro H. rewrite volatile_dogfood. simpl in H.
  destruct H as [<-|[<-|[<-|[<-|[<-|[<-|[<-|[<-|[]]]]]]]]]; reflexivity.
Qed.

Lemma rows_in_b p (s : mstore) r v : sorted s ->
  In p ["01"; "03"; "04"; "05"; "06"; "0d"; "0e"; "10"]%string ->
  In (r, v) (rows_of p s) -> sget (nonvolatile "dogfood" s) (p ++ r)%string = Some v.
Proof.
  intros Hs Hp Hin. rewrite (nonvolatile_get s _ Hs), (not_volatile p r Hp).
  apply sget_in; [exact Hs | apply rows_of_in; exact Hin].
Qed.

Lemma idx_from_wf p ip (s : mstore) : sorted s -> idx_consistent p ip s = true ->
  (forall e l a, In (e, VList l) (rows_of p s) -> In a l -> sget s (ip ++ a)%string = Some (VRaw e)) /\
  (forall a v, In (a, v) (rows_of ip s) -> exists e l, v = VRaw e /\ In (e, VList l) (rows_of p s) /\ In a l).
Proof.
  intros Hs H. unfold idx_consistent in H. apply andb_prop in H. destruct H as [H1 H2].
  rewrite forallb_forall in H1, H2. split.
  - intros e l a Hrow Ha. specialize (H1 _ Hrow). simpl in H1. rewrite forallb_forall in H1.
    specialize (H1 a Ha). destruct (sget s (ip ++ a)%string) as [[e'| | | |]|]; try discriminate.
    apply String.eqb_eq in H1. subst e'. reflexivity.
  - intros a v Hrow. specialize (H2 _ Hrow). simpl in H2.
    destruct v as [e| | | |]; try discriminate.
    destruct (sget s (p ++ e)%string) as [[|l| | |]|] eqn:Eg; try discriminate.
    exists e, l. split; [reflexivity|]. split.
    + apply (sget_in s _ _ Hs) in Eg. eapply rows_of_complete; [exact Eg | apply strip_app].
    + apply existsb_exists in H2. destruct H2 as [x [Hx Ex]]. apply String.eqb_eq in Ex. subst x. exact Hx.
Qed.

Lemma stake_sdrop_app : forall n (a t : string), String.length a = n -> stake n (a ++ t) = a /\ sdrop n (a ++ t) = t.
Proof.
  induction n as [|n IHn]; intros [|c a'] t Hn; simpl in *; try discriminate; auto.
  injection Hn as Hn. destruct (IHn a' t Hn) as [E1 E2]. rewrite E1, E2. auto.
Qed.

Definition val_row_ok (valmap : list (string * string)) (r : row) : bool :=
  match snd r with
  | VList [_; pk] => match find (fun x => String.eqb (fst x) (fst r)) valmap with
                     | Some x => String.eqb (snd x) (fst r ++ pk) | None => false end
  | _ => false end.

Definition vrow (valmap : list (string * string)) (r : row) : list row :=
  match find (fun x => String.eqb (fst x) (fst r)) valmap with
  | Some x => match atoms (snd r) with
              | power :: _ => [(stake 40 (snd x), VList [power; sdrop 40 (snd x)])]
              | [] => []
              end
  | None => []
  end.

Lemma vrow_id valmap a v : val_row_ok valmap (a, v) = true -> String.length a = 40%nat -> vrow valmap (a, v) = [(a, v)].
Proof.
  unfold val_row_ok, vrow. cbn [snd fst]. intros H1 Hl.
  destruct v as [|l| | |]; try discriminate.
  destruct l as [|power [|pk [|? ?]]]; try discriminate.
  destruct (find (fun x => String.eqb (fst x) a) valmap) as [x|]; [|discriminate].
  apply String.eqb_eq in H1. rewrite H1. cbn [atoms snd fst].
  destruct (stake_sdrop_app 40%nat a pk Hl) as [E1 E2]. rewrite E1, E2. reflexivity.
Qed.

Lemma valset_rows_id valmap : forall rows : list row,
  forallb (val_row_ok valmap) rows = true ->
  forallb (fun r => Nat.eqb (String.length (fst r)) 40) rows = true ->
  flat_map (vrow valmap) rows = rows.
Proof.
  induction rows as [|[a v] rows IH]; intros H Hl; [reflexivity|].
  cbn [forallb] in H, Hl. apply andb_prop in H. destruct H as [H1 H2]. apply andb_prop in Hl. destruct Hl as [Hl1 Hl2].
  cbn [flat_map]. rewrite (IH H2 Hl2). apply Nat.eqb_eq in Hl1. simpl in Hl1.
  rewrite (vrow_id valmap a v H1 Hl1). reflexivity.
Qed.

Lemma dg_valset_rows_eq valmap (s : mstore) : dg_valset_rows valmap s = flat_map (vrow valmap) (rows_of "01" s).
Proof. reflexivity. Qed.

(* ---------- the whole module ---------- *)
Lemma dg_wf_parts c valmap (s : mstore) : dg_wf c valmap s = true ->
  covered ["01"; "03"; "04"; "05"; "06"; "0c"; "0d"; "0e"; "0f"; "10"]%string s = true /\
  forallb (queue_row_ok (cx_epoch c)) (rows_of "03" s) = true /\
  forallb (queue_row_ok (cx_epoch c)) (rows_of "05" s) = true /\
  forallb (queue_row_ok (cx_epoch c)) (rows_of "06" s) = true /\
  idx_consistent "03" "04" s = true /\ idx_consistent "06" "0d" s = true /\
  forallb (val_row_ok valmap) (rows_of "01" s) = true /\
  forallb (fun r => Nat.eqb (String.length (fst r)) 40) (rows_of "01" s) = true.
Proof.
  unfold dg_wf. intro H.
  apply andb_prop in H. destruct H as [H H8]. apply andb_prop in H. destruct H as [H H7].
  apply andb_prop in H. destruct H as [H H6]. apply andb_prop in H. destruct H as [H H5].
  apply andb_prop in H. destruct H as [H H4]. apply andb_prop in H. destruct H as [H H3].
  apply andb_prop in H. destruct H as [H1 H2].
  cbn [forallb] in H2.
  apply andb_prop in H2. destruct H2 as [Q3 H2]. apply andb_prop in H2. destruct H2 as [Q5 H2].
  apply andb_prop in H2. destruct H2 as [Q6 _].
  assert (forall rows, forallb (fun r => queue_row_ok (cx_epoch c) r && (1 <? hexval (fst r))%Z) rows = true ->
                       forallb (queue_row_ok (cx_epoch c)) rows = true) as W.
  { intros rows. apply forallb_weaken. intros x Hx. apply andb_prop in Hx. tauto. }
  repeat split; auto.
Qed.

Lemma noprefix_nil q : noprefix [] q.
Proof. intros k _. reflexivity. Qed.

Theorem dogfood_roundtrip c valmap (s : mstore) : sorted s -> dg_wf c valmap s = true ->
  dg_init c (dg_export valmap s) = Ok (nonvolatile "dogfood" s).
Proof.
  intros Hs Hwf.
  destruct (dg_wf_parts c valmap s Hwf) as [Hcov [Q3 [Q5 [Q6 [I34 [I6d [V1 V2]]]]]]].
  destruct (idx_from_wf "03" "04" s Hs I34) as [I34a I34b].
  destruct (idx_from_wf "06" "0d" s Hs I6d) as [I6da I6db].
  set (b := nonvolatile "dogfood" s).
  assert (sorted b) as Hb by (apply filter_sorted; exact Hs).
  assert (forall p r v, In p ["01"; "03"; "04"; "05"; "06"; "0d"; "0e"; "10"]%string ->
            In (r, v) (rows_of p s) -> sget b (p ++ r)%string = Some v) as Hrows
    by (intros p r v Hp Hin; apply rows_in_b; auto).
  unfold dg_init.
  change (gsec (dg_export valmap s) "params") with (rows_of "10" s).
  change (gsec (dg_export valmap s) "optouts") with (rows_of "03" s).
  change (gsec (dg_export valmap s) "prune") with (rows_of "05" s).
  change (gsec (dg_export valmap s) "mature") with (rows_of "06" s).
  change (gsec (dg_export valmap s) "power") with (rows_of "0e" s).
  change (gsec (dg_export valmap s) "valset") with (dg_valset_rows valmap s).
  rewrite dg_valset_rows_eq, (valset_rows_id valmap _ V1 V2).
  change dg_params with "10"%string. change dg_optouts with "03"%string. change dg_optout_idx with "04"%string.
  change dg_prune with "05"%string. change dg_mature with "06"%string. change dg_mature_idx with "0d"%string.
  change dg_power with "0e"%string. change dg_valset with "01"%string.
  (* params *)
  destruct (put_rows_inv "10" (rows_of "10" s) [] b sorted_nil (sub_nil _)
              (fun r v H => Hrows "10"%string r v ltac:(simpl; tauto) H)) as [A1 [A2 [_ A4]]].
  set (s0 := put_rows "10" (rows_of "10" s) []) in *.
  assert (forall k, sget s0 k <> None -> has_prefix "10" k = true) as K0.
  { intros k Hk. destruct (put_rows_keys "10" (rows_of "10" s) [] k sorted_nil Hk) as [H|H]; [elim H; reflexivity | exact H]. }
  assert (forall p q k, String.length p = String.length q -> p <> q -> has_prefix p k = true -> has_prefix q k = true -> False) as Disj.
  { intros p q k Hl Hne Hp Hq. apply Hne. eapply same_length_prefix; eauto. }
  (* opt-outs *)
  assert (noprefix s0 "03") as N0.
  { intros k Hk. destruct (sget s0 k) eqn:E; [|reflexivity]. exfalso.
    apply (Disj "10"%string "03"%string k); auto; try discriminate. apply K0. rewrite E. discriminate. }
  destruct (queue_step (cx_epoch c) "03" (Some "04"%string) (rows_of "03" s) s0 b A1 A2 N0
              (rows_of_keys_nodup "03" s Hs) Q3 ltac:(simpl; intros x y H; discriminate)
              (fun e l H => Hrows "03"%string e (VList l) ltac:(simpl; tauto) H))
    as [s1 [B0 [B1 [B2 [B3 [B4 [B5 B6]]]]]]].
  { intros ip e l a Hip Hrow Ha. inversion Hip; subst ip.
    unfold b. rewrite (nonvolatile_get s _ Hs), (not_volatile "04" a ltac:(simpl; tauto)). apply (I34a e l a Hrow Ha). }
  rewrite B0.
  assert (forall k, sget s1 k <> None -> has_prefix "03" k = true \/ has_prefix "04" k = true \/ has_prefix "10" k = true) as K1.
  { intros k Hk. destruct (B3 k Hk) as [H|[[ip [Hip H]]|H]].
    - left; exact H.
    - inversion Hip; subst ip. right; left; exact H.
    - right; right. apply K0; exact H. }
  (* cons addrs to prune *)
  assert (noprefix s1 "05") as N1.
  { intros k Hk. destruct (sget s1 k) eqn:E; [|reflexivity]. exfalso.
    destruct (K1 k ltac:(rewrite E; discriminate)) as [H|[H|H]];
      [apply (Disj "03"%string "05"%string k) | apply (Disj "04"%string "05"%string k) | apply (Disj "10"%string "05"%string k)];
      auto; discriminate. }
  destruct (queue_step (cx_epoch c) "05" None (rows_of "05" s) s1 b B1 B2 N1
              (rows_of_keys_nodup "05" s Hs) Q5 I
              (fun e l H => Hrows "05"%string e (VList l) ltac:(simpl; tauto) H)
              ltac:(intros ip e l a Hip; discriminate))
    as [s2 [C0 [C1 [C2 [C3 [C4 [C5 _]]]]]]].
  rewrite C0.
  assert (forall k, sget s2 k <> None -> has_prefix "05" k = true \/ has_prefix "03" k = true \/ has_prefix "04" k = true \/ has_prefix "10" k = true) as K2.
  { intros k Hk. destruct (C3 k Hk) as [H|[[ip [Hip _]]|H]].
    - left; exact H.
    - discriminate.
    - destruct (K1 k H) as [H'|[H'|H']]; auto. }
  (* undelegation maturities *)
  assert (noprefix s2 "06") as N2.
  { intros k Hk. destruct (sget s2 k) eqn:E; [|reflexivity]. exfalso.
    destruct (K2 k ltac:(rewrite E; discriminate)) as [H|[H|[H|H]]];
      [apply (Disj "05"%string "06"%string k) | apply (Disj "03"%string "06"%string k)
       | apply (Disj "04"%string "06"%string k) | apply (Disj "10"%string "06"%string k)];
      auto; discriminate. }
  destruct (queue_step (cx_epoch c) "06" (Some "0d"%string) (rows_of "06" s) s2 b C1 C2 N2
              (rows_of_keys_nodup "06" s Hs) Q6 ltac:(simpl; intros x y H; discriminate)
              (fun e l H => Hrows "06"%string e (VList l) ltac:(simpl; tauto) H))
    as [s3 [D0 [D1 [D2 [_ [D4 [D5 D6]]]]]]].
  { intros ip e l a Hip Hrow Ha. inversion Hip; subst ip.
    unfold b. rewrite (nonvolatile_get s _ Hs), (not_volatile "0d" a ltac:(simpl; tauto)). apply (I6da e l a Hrow Ha). }
  rewrite D0.
  (* total power, validators *)
  destruct (put_rows_inv "0e" (rows_of "0e" s) s3 b D1 D2
              (fun r v H => Hrows "0e"%string r v ltac:(simpl; tauto) H)) as [E1 [E2 [E3 E4]]].
  set (s4 := put_rows "0e" (rows_of "0e" s) s3) in *.
  destruct (put_rows_inv "01" (rows_of "01" s) s4 b E1 E2
              (fun r v H => Hrows "01"%string r v ltac:(simpl; tauto) H)) as [F1 [F2 [F3 F4]]].
  set (s5 := put_rows "01" (rows_of "01" s) s4) in *.
  f_equal. apply sub_full_eq; auto.
  (* every non-volatile entry of s has been written *)
  intros k Hk. unfold b in Hk. rewrite (nonvolatile_get s k Hs) in Hk.
  destruct (volatile "dogfood" k) eqn:Hv; [congruence|].
  destruct (sget s k) as [v|] eqn:Eg; [|congruence].
  apply (sget_in s k v Hs) in Eg.
  assert (covered_key ["01"; "03"; "04"; "05"; "06"; "0c"; "0d"; "0e"; "0f"; "10"]%string k = true) as Hck.
  { unfold covered in Hcov. rewrite forallb_forall in Hcov. apply Hcov. unfold skeys. apply in_map_iff. exists (k, v). auto. }
  unfold covered_key in Hck. apply existsb_exists in Hck. destruct Hck as [p [Hp Hpre]].
  destruct (has_prefix_split p k Hpre) as [r [-> Hstrip]].
  pose proof (rows_of_complete p s _ v r Eg Hstrip) as Hrow.
  assert (forall x, sget s0 x <> None -> sget s5 x <> None) as P0 by (intros x H; apply F3, E3, D4, C4, B4; exact H).
  assert (forall x, sget s1 x <> None -> sget s5 x <> None) as P1 by (intros x H; apply F3, E3, D4, C4; exact H).
  assert (forall x, sget s2 x <> None -> sget s5 x <> None) as P2 by (intros x H; apply F3, E3, D4; exact H).
  assert (forall x, sget s3 x <> None -> sget s5 x <> None) as P3 by (intros x H; apply F3, E3; exact H).
  simpl in Hp.
  destruct Hp as [<-|[<-|[<-|[<-|[<-|[<-|[<-|[<-|[<-|[<-|[]]]]]]]]]]].
  - apply (F4 r v Hrow).
  - destruct (row_is_list _ _ r v Q3 Hrow) as [a [l ->]]. apply P1. apply (B5 r (a :: l) Hrow).
  - destruct (I34b r v Hrow) as [e [l [-> [Hrow' Ha]]]]. apply P1. apply (B6 "04"%string e l r eq_refl Hrow' Ha).
  - destruct (row_is_list _ _ r v Q5 Hrow) as [a [l ->]]. apply P2. apply (C5 r (a :: l) Hrow).
  - destruct (row_is_list _ _ r v Q6 Hrow) as [a [l ->]]. apply P3. apply (D5 r (a :: l) Hrow).
  - rewrite volatile_dogfood, (has_prefix_app "0c" r), orb_true_r in Hv. discriminate.
  - destruct (I6db r v Hrow) as [e [l [-> [Hrow' Ha]]]]. apply P3. apply (D6 "0d"%string e l r eq_refl Hrow' Ha).
  - apply F3. apply (E4 r v Hrow).
  - rewrite volatile_dogfood, (has_prefix_app "0f" r) in Hv. discriminate.
  - apply P0. apply (A4 r v Hrow).
Qed.

(* ---------- second export, validation ---------- *)
Lemma rows_of_nonvolatile p (s : mstore) : In p ["01"; "03"; "05"; "06"; "0e"; "10"]%string ->
  rows_of p (nonvolatile "dogfood" s) = rows_of p s.
Proof.
  intro Hp. unfold rows_of, nonvolatile. induction s as [|[k v] r IH]; [reflexivity|].
  cbn [filter flat_map fst snd]. destruct (volatile "dogfood" k) eqn:Hv; cbn [negb flat_map fst snd].
  - rewrite IH. destruct (strip p k) as [x|] eqn:E; [|reflexivity]. exfalso.
    assert (has_prefix p k = true) as Hpk by (unfold has_prefix; rewrite E; reflexivity).
    rewrite volatile_dogfood in Hv. apply orb_prop in Hv.
    simpl in Hp.
    destruct Hv as [Hv|Hv]; destruct Hp as [<-|[<-|[<-|[<-|[<-|[<-|[]]]]]]];
      match goal with
      | H1 : has_prefix ?a k = true, H2 : has_prefix ?b k = true |- _ =>
          assert (a = b) as X by (apply (same_length_prefix a b k); auto); discriminate X
      end.
  - rewrite IH. reflexivity.
Qed.

Lemma dg_export_nonvolatile valmap (s : mstore) : dg_export valmap (nonvolatile "dogfood" s) = dg_export valmap s.
Proof.
  unfold dg_export, dg_export_with, dg_valset_rows.
  change dg_params with "10"%string. change dg_optouts with "03"%string. change dg_prune with "05"%string.
  change dg_mature with "06"%string. change dg_power with "0e"%string. change dg_valset with "01"%string.
  rewrite !rows_of_nonvolatile by (simpl; tauto). reflexivity.
Qed.

Theorem dogfood_idempotent c valmap (s s' : mstore) : sorted s -> dg_wf c valmap s = true ->
  dg_init c (dg_export valmap s) = Ok s' -> dg_export valmap s' = dg_export valmap s.
Proof.
  intros Hs Hwf H. rewrite (dogfood_roundtrip c valmap s Hs Hwf) in H. inversion H; subst s'.
  apply dg_export_nonvolatile.
Qed.

Lemma nodupb_of_NoDup l : NoDup l -> nodupb l = true.
Proof.
  induction 1 as [|x l Hn Hd IH]; [reflexivity|]. simpl. rewrite IH, andb_true_r.
  apply negb_true_iff. rewrite <- not_true_iff_false. intro H. apply Hn.
  apply existsb_exists in H. destruct H as [y [Hy E]]. apply String.eqb_eq in E. subst y. exact Hy.
Qed.

Theorem dogfood_validates c valmap (s : mstore) : sorted s -> dg_wf c valmap s = true ->
  dg_validate (dg_export valmap s) = true.
Proof.
  intros Hs H. unfold dg_wf in H.
  apply andb_prop in H. destruct H as [H _]. apply andb_prop in H. destruct H as [H _].
  apply andb_prop in H. destruct H as [H _]. apply andb_prop in H. destruct H as [H _].
  apply andb_prop in H. destruct H as [H H4]. apply andb_prop in H. destruct H as [H H3].
  apply andb_prop in H. destruct H as [_ H2].
  cbn [forallb] in H2, H3.
  apply andb_prop in H2. destruct H2 as [Q3 H2]. apply andb_prop in H2. destruct H2 as [Q5 H2].
  apply andb_prop in H2. destruct H2 as [Q6 _].
  apply andb_prop in H3. destruct H3 as [N3 H3]. apply andb_prop in H3. destruct H3 as [N5 H3].
  apply andb_prop in H3. destruct H3 as [N6 _].
  unfold dg_validate.
  change (gsec (dg_export valmap s) "optouts") with (rows_of "03" s).
  change (gsec (dg_export valmap s) "prune") with (rows_of "05" s).
  change (gsec (dg_export valmap s) "mature") with (rows_of "06" s).
  assert (forall p chk, forallb (fun r => queue_row_ok (cx_epoch c) r && (1 <? hexval (fst r))%Z) (rows_of p s) = true ->
            nodupb (flat_map (fun r => atoms (snd r)) (rows_of p s)) = true ->
            forallb (fun r => forallb chk (atoms (snd r))) (rows_of p s) = true ->
            dg_validate_queue chk (rows_of p s) = true) as W.
  { intros p chk Hq Hn Hc. unfold dg_validate_queue.
    rewrite (nodupb_of_NoDup _ (rows_of_keys_nodup p s Hs)), Hn, andb_true_r. simpl.
    rewrite forallb_forall in *. intros r Hr. specialize (Hq r Hr). specialize (Hc r Hr).
    apply andb_prop in Hq. destruct Hq as [Hq1 Hq2]. rewrite Hq2, Hc. simpl.
    unfold queue_row_ok in Hq1. destruct (snd r) as [|l| | |]; try discriminate.
    destruct l; [discriminate | reflexivity]. }
  assert (forall rows : list row, forallb (fun r => forallb (fun _ : string => true) (atoms (snd r))) rows = true) as T.
  { intro rows. apply forallb_forall. intros r _. apply forallb_forall. reflexivity. }
  rewrite (W "03"%string _ Q3 N3 (T _)), (W "05"%string _ Q5 N5 (T _)), (W "06"%string _ Q6 N6 H4). reflexivity.
Qed.
