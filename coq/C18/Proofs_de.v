(* C18/Proofs_de.v — the delegation module: InitGenesis (ExportGenesis s), followed by the holds the repaired
   dogfood import takes again, reproduces a well-formed block-boundary state (up to hold counts of 0). *)
From Coq Require Import List String Ascii Bool ZArith Lia Sorting.Sorted.
From Exo Require Import Base.Store Base.Util C18.Model C18.Proofs C18.Proofs_mod C18.Proofs_dg.
Import ListNotations.
Local Open Scope list_scope.

(* ---------- the three writes per record ---------- *)
Definition undel_row_ok (h : Z) (b : mstore) (r : row) : Prop :=
  exists rk sk pk, undel_keys (snd r) = Some (rk, sk, pk) /\ (undel_complete (snd r) <? h)%Z = false /\
    sget b ("03" ++ rk)%string = Some (snd r) /\ sget b ("04" ++ sk)%string = Some (VRaw rk) /\
    sget b ("05" ++ pk)%string = Some (VRaw rk).

Lemma undel_inv h rows : forall (acc b : mstore),
  sorted acc -> sub acc b -> (forall r, In r rows -> undel_row_ok h b r) ->
  exists res, de_init_undel h rows acc = Ok res /\ sorted res /\ sub res b /\
    (forall k, sget acc k <> None -> sget res k <> None) /\
    (forall k, sget res k <> None -> sget acc k <> None \/ has_prefix "03" k = true \/ has_prefix "04" k = true \/ has_prefix "05" k = true) /\
    (forall r rk sk pk, In r rows -> undel_keys (snd r) = Some (rk, sk, pk) ->
        sget res ("03" ++ rk)%string <> None /\ sget res ("04" ++ sk)%string <> None /\ sget res ("05" ++ pk)%string <> None).
Proof.
  unfold de_init_undel. induction rows as [|r rows IH]; intros acc b Hs Hsub Hrows.
  - exists acc. simpl. repeat split; auto; try (intros ? ? ? ? []). all: intros ? ? ? ? [].
  - destruct (Hrows r (or_introl eq_refl)) as [rk [sk [pk [Hk [Hc [H3 [H4 H5]]]]]]].
    simpl. rewrite Hk, Hc.
    set (a1 := sset acc ("03" ++ rk)%string (snd r)).
    set (a2 := sset a1 ("04" ++ sk)%string (VRaw rk)).
    set (a3 := sset a2 ("05" ++ pk)%string (VRaw rk)).
    assert (sorted a1) as S1 by (apply sset_sorted; exact Hs).
    assert (sorted a2) as S2 by (apply sset_sorted; exact S1).
    assert (sorted a3) as S3 by (apply sset_sorted; exact S2).
    assert (sub a3 b) as Hsub3.
    { apply sset_sub; auto. apply sset_sub; auto. apply sset_sub; auto. }
    destruct (IH a3 b S3 Hsub3 (fun r' H => Hrows r' (or_intror H))) as [res [R0 [R1 [R2 [R3 [R4 R5]]]]]].
    exists res. split; [exact R0|]. split; [exact R1|]. split; [exact R2|].
    assert (forall k, sget acc k <> None -> sget a3 k <> None) as Hkeep.
    { intros k H. unfold a3. apply sset_keeps; [exact S2|]. unfold a2. apply sset_keeps; [exact S1|].
      unfold a1. apply sset_keeps; [exact Hs | exact H]. }
    split; [|split].
    + intros k H. apply R3, Hkeep; exact H.
    + intros k H. destruct (R4 k H) as [H'|H']; [|right; exact H'].
      unfold a3 in H'.
      destruct (string_dec ("05" ++ pk)%string k) as [<-|N5]; [right; right; right; apply has_prefix_app|].
      rewrite (sget_sset_other _ _ _ _ S2 N5) in H'. unfold a2 in H'.
      destruct (string_dec ("04" ++ sk)%string k) as [<-|N4]; [right; right; left; apply has_prefix_app|].
      rewrite (sget_sset_other _ _ _ _ S1 N4) in H'. unfold a1 in H'.
      destruct (string_dec ("03" ++ rk)%string k) as [<-|N3]; [right; left; apply has_prefix_app|].
      rewrite (sget_sset_other _ _ _ _ Hs N3) in H'. left; exact H'.
    + intros r' rk' sk' pk' [<-|Hin] Hk'.
      * rewrite Hk in Hk'. inversion Hk'; subst rk' sk' pk'.
        repeat split; apply R3.
        -- unfold a3. apply sset_keeps; [exact S2|]. unfold a2. apply sset_keeps; [exact S1|].
           unfold a1. rewrite sget_sset_same. discriminate.
        -- unfold a3. apply sset_keeps; [exact S2|]. unfold a2. rewrite sget_sset_same. discriminate.
        -- unfold a3. rewrite sget_sset_same. discriminate.
      * apply (R5 r' rk' sk' pk' Hin Hk').
Qed.

(* ---------- hold counts ---------- *)
Definition hcur (acc : mstore) (rk : string) : Z := match sget acc ("06" ++ rk)%string with Some (VNum n) => n | _ => 0%Z end.

Lemma count_pos l x : In x l -> (1 <= count_occ_s l x)%Z.
Proof.
  induction l as [|y l IH]; simpl; intros H; [contradiction|].
  assert (0 <= count_occ_s l x)%Z as Hnn.
  { clear. induction l as [|z l IH]; simpl; [lia|]. destruct (String.eqb x z); lia. }
  destruct H as [->|H]; [rewrite String.eqb_refl; lia|].
  specialize (IH H). destruct (String.eqb x y); lia.
Qed.

Lemma count_zero_notin l x : ~ In x l -> count_occ_s l x = 0%Z.
Proof.
  induction l as [|y l IH]; simpl; intro H; [reflexivity|].
  destruct (String.eqb x y) eqn:E; [apply String.eqb_eq in E; subst; exfalso; apply H; left; reflexivity|].
  rewrite IH; [reflexivity | intro Hin; apply H; right; exact Hin].
Qed.

Lemma hold_fold holds : forall (acc : mstore), sorted acc ->
  let res := fold_left hold_inc holds acc in
  sorted res /\
  (forall rk, In rk holds -> sget res ("06" ++ rk)%string = Some (VNum (hcur acc rk + count_occ_s holds rk))) /\
  (forall k, (forall rk, In rk holds -> k <> ("06" ++ rk)%string) -> sget res k = sget acc k).
Proof.
  induction holds as [|x holds IH]; intros acc Hs; cbn [fold_left].
  - repeat split; auto; try (intros ? []).
  - assert (sorted (hold_inc acc x)) as Hs1 by (unfold hold_inc; apply sset_sorted; exact Hs).
    destruct (IH _ Hs1) as [I1 [I2 I3]].
    assert (forall rk, hcur (hold_inc acc x) rk = (hcur acc rk + if String.eqb rk x then 1 else 0)%Z) as Hc.
    { intro rk. unfold hcur at 1, hold_inc. destruct (String.eqb rk x) eqn:E.
      - apply String.eqb_eq in E. subst rk. rewrite sget_sset_same. unfold hcur. reflexivity.
      - rewrite sget_sset_other; [unfold hcur; lia | exact Hs |].
        intro E'. apply append_inv_head in E'. subst rk. rewrite String.eqb_refl in E. discriminate. }
    repeat split; [exact I1 | |].
    + intros rk Hin. destruct (in_dec string_dec rk holds) as [Hin'|Hnin].
      * rewrite (I2 rk Hin'), Hc. cbn [count_occ_s].
        match goal with |- Some (VNum ?a) = Some (VNum ?b) => replace b with a by (destruct (String.eqb rk x); lia) end. reflexivity.
      * destruct Hin as [->|Hin]; [|contradiction].
        rewrite I3.
        -- unfold hold_inc. rewrite sget_sset_same. cbn [count_occ_s].
           rewrite String.eqb_refl, (count_zero_notin _ _ Hnin).
           unfold hcur.
           match goal with |- Some (VNum ?a) = Some (VNum ?b) => replace b with a by lia end. reflexivity.
        -- intros rk' Hin' E. apply append_inv_head in E. subst rk'. contradiction.
    + intros k Hk. rewrite I3.
      * unfold hold_inc. apply sget_sset_other; [exact Hs|]. intro E. apply (Hk x (or_introl eq_refl)). symmetry; exact E.
      * intros rk Hin. apply Hk. right; exact Hin.
Qed.

(* ---------- unpacking de_wf ---------- *)
Definition de_holds (aux : mstore) : list string := dg_holds (dg_export [] aux).

Lemma sget_filter {V} (P : string * V -> bool) (s : store V) k : sorted s ->
  sget (filter P s) k = match sget s k with Some v => if P (k, v) then Some v else None | None => None end.
Proof.
  induction s as [|[k0 v0] r IH]; intro Hs; [reflexivity|].
  pose proof (sorted_tail _ _ _ Hs) as Hr.
  cbn [filter].
  destruct (scmp_cases k k0) as [[C ->]|[[C L]|[C L]]].
  - cbn [sget]. rewrite scmp_refl. destruct (P (k0, v0)) eqn:EP.
    + cbn [sget]. rewrite scmp_refl. reflexivity.
    + rewrite (IH Hr), (sget_tail_none _ _ _ Hs). reflexivity.
  - cbn [sget]. rewrite C. destruct (P (k0, v0)) eqn:EP.
    + cbn [sget]. rewrite C. reflexivity.
    + rewrite (IH Hr), (sget_tail_lt _ _ _ _ Hs L). reflexivity.
  - cbn [sget]. rewrite C. destruct (P (k0, v0)) eqn:EP.
    + cbn [sget]. rewrite C. apply IH; exact Hr.
    + apply IH; exact Hr.
Qed.

Lemma nonvolatile_delegation (l : mstore) : nonvolatile "delegation" l = l.
Proof.
  unfold nonvolatile. induction l as [|kv l IHl]; [reflexivity|].
  cbn [filter]. change (volatile "delegation" (fst kv)) with false. cbn [negb]. f_equal. exact IHl.
Qed.

Lemma norm_delegation_get (s : mstore) k : sorted s ->
  sget (norm "delegation" s) k = match sget s k with Some (VNum 0) => None | x => x end.
Proof.
  intro Hs. unfold norm. rewrite nonvolatile_delegation, (sget_filter _ s k Hs).
  destruct (sget s k) as [v|]; [|reflexivity].
  unfold is_default. cbn [snd].
  destruct v as [d|l|n|? ? ? ? ? ? ? ?|d t]; try reflexivity.
  - destruct d; reflexivity.
  - destruct n; reflexivity.
Qed.

Lemma norm_sorted (s : mstore) : sorted s -> sorted (norm "delegation" s).
Proof. intro Hs. unfold norm. apply filter_sorted. rewrite nonvolatile_delegation. exact Hs. Qed.

(* ---------- the whole module ---------- *)
Lemma norm_keep (s : mstore) k v : sorted s -> sget s k = Some v ->
  (match v with VNum 0 => False | _ => True end) -> sget (norm "delegation" s) k = Some v.
Proof.
  intros Hs Hg Hv. rewrite (norm_delegation_get s k Hs), Hg.
  destruct v as [d|l|n|? ? ? ? ? ? ? ?|d t]; try reflexivity. destruct n; [contradiction | reflexivity | reflexivity].
Qed.

Theorem delegation_roundtrip c (aux s : mstore) : sorted s -> de_wf c aux s = true ->
  de_init c (de_export s) (dg_holds (dg_export [] aux)) = Ok (norm "delegation" s).
Proof.
  intros Hs Hwf. unfold de_wf in Hwf.
  set (holds := dg_holds (dg_export [] aux)) in *.
  apply andb_prop in Hwf. destruct Hwf as [Hwf W6]. apply andb_prop in Hwf. destruct Hwf as [Hwf W5].
  apply andb_prop in Hwf. destruct Hwf as [Hwf W4]. apply andb_prop in Hwf. destruct Hwf as [Hwf W3].
  apply andb_prop in Hwf. destruct Hwf as [Hwf W2]. apply andb_prop in Hwf. destruct Hwf as [W1 W0].
  cbn [forallb] in W0.
  apply andb_prop in W0. destruct W0 as [V01 W0]. apply andb_prop in W0. destruct W0 as [V02 W0].
  apply andb_prop in W0. destruct W0 as [V07 _].
  rewrite forallb_forall in W2, W3, W4, W5, W6, V01, V02, V07.
  set (b := norm "delegation" s).
  assert (sorted b) as Hb by (apply norm_sorted; exact Hs).
  assert (forall p r v, In (r, v) (rows_of p s) -> sget s (p ++ r)%string = Some v) as Hget.
  { intros p r v Hin. apply sget_in; [exact Hs | apply rows_of_in; exact Hin]. }
  assert (forall p (Vp : forall x, In x (rows_of p s) -> match snd x with VNum _ => false | _ => true end = true) r v,
            In (r, v) (rows_of p s) -> sget b (p ++ r)%string = Some v) as Hplain.
  { intros p Vp r v Hin. apply norm_keep; [exact Hs | apply Hget; exact Hin |].
    specialize (Vp _ Hin). simpl in Vp. destruct v; try exact I. discriminate. }
  unfold de_init.
  change (gsec (de_export s) "assoc") with (rows_of "07" s).
  change (gsec (de_export s) "states") with (rows_of "01" s).
  change (gsec (de_export s) "stakers") with (rows_of "02" s).
  change (gsec (de_export s) "undel") with (rows_of "03" s).
  destruct (put_rows_inv "07" (rows_of "07" s) [] b sorted_nil (sub_nil _) (Hplain "07"%string V07)) as [A1 [A2 [_ A4]]].
  set (t0 := put_rows "07" (rows_of "07" s) []) in *.
  destruct (put_rows_inv "01" (rows_of "01" s) t0 b A1 A2 (Hplain "01"%string V01)) as [B1 [B2 [B3 B4]]].
  set (t1 := put_rows "01" (rows_of "01" s) t0) in *.
  destruct (put_rows_inv "02" (rows_of "02" s) t1 b B1 B2 (Hplain "02"%string V02)) as [C1 [C2 [C3 C4]]].
  set (s0 := put_rows "02" (rows_of "02" s) t1) in *.
  assert (forall k, sget s0 k <> None -> has_prefix "07" k = true \/ has_prefix "01" k = true \/ has_prefix "02" k = true) as K0.
  { intros k Hk. destruct (put_rows_keys "02" _ t1 k B1 Hk) as [H|H]; [|auto].
    destruct (put_rows_keys "01" _ t0 k A1 H) as [H'|H']; [|auto].
    destruct (put_rows_keys "07" _ [] k sorted_nil H') as [H''|H'']; [elim H''; reflexivity | auto]. }
  (* records *)
  assert (forall r, In r (rows_of "03" s) -> undel_row_ok (cx_height c) b r) as Hrec.
  { intros [rk' v] Hin. specialize (W2 _ Hin). cbn [snd fst] in W2.
    destruct (undel_keys v) as [[[rk sk] pk]|] eqn:Ek; [|discriminate].
    apply andb_prop in W2. destruct W2 as [W2 Widx]. apply andb_prop in W2. destruct W2 as [Erk Hc].
    apply String.eqb_eq in Erk. subst rk'. apply negb_true_iff in Hc.
    destruct (sget s ("04" ++ sk)%string) as [[a| | | |]|] eqn:E4; try discriminate.
    destruct (sget s ("05" ++ pk)%string) as [[a'| | | |]|] eqn:E5; try discriminate.
    apply andb_prop in Widx. destruct Widx as [Ea Ea']. apply String.eqb_eq in Ea, Ea'. subst a a'.
    exists rk, sk, pk. cbn [snd]. repeat split; auto.
    - apply norm_keep; [exact Hs | apply (Hget "03"%string rk v Hin) |].
      destruct v; try exact I. simpl in Ek. discriminate.
    - apply norm_keep; [exact Hs | exact E4 | exact I].
    - apply norm_keep; [exact Hs | exact E5 | exact I]. }
  destruct (undel_inv (cx_height c) (rows_of "03" s) s0 b C1 C2 Hrec) as [s1 [R0 [R1 [R2 [R3 [R4 R5]]]]]].
  rewrite R0. f_equal.
  (* holds *)
  destruct (hold_fold holds s1 R1) as [H1 [H2 H3]].
  set (s2 := fold_left hold_inc holds s1) in *.
  assert (forall p q k, String.length p = String.length q -> p <> q -> has_prefix p k = true -> has_prefix q k = true -> False) as Disj.
  { intros p q k Hl Hne Hp Hq. apply Hne. eapply same_length_prefix; eauto. }
  assert (forall rk, hcur s1 rk = 0%Z) as Hc0.
  { intro rk. unfold hcur. destruct (sget s1 ("06" ++ rk)%string) eqn:E; [|reflexivity]. exfalso.
    pose proof (has_prefix_app "06" rk) as P6.
    destruct (R4 ("06" ++ rk)%string ltac:(rewrite E; discriminate)) as [H|[H|[H|H]]].
    - destruct (K0 _ H) as [H'|[H'|H']];
        [apply (Disj "07"%string "06"%string ("06" ++ rk)%string) | apply (Disj "01"%string "06"%string ("06" ++ rk)%string)
         | apply (Disj "02"%string "06"%string ("06" ++ rk)%string)]; auto; discriminate.
    - apply (Disj "03"%string "06"%string ("06" ++ rk)%string); auto; discriminate.
    - apply (Disj "04"%string "06"%string ("06" ++ rk)%string); auto; discriminate.
    - apply (Disj "05"%string "06"%string ("06" ++ rk)%string); auto; discriminate. }
  set (hkeys := map (fun rk => ("06" ++ rk)%string) holds).
  assert (forall k, ~ In k hkeys -> sget s2 k = sget s1 k) as Hframe.
  { intros k Hn. apply H3. intros rk Hin E. apply Hn. unfold hkeys. rewrite E. apply in_map. exact Hin. }
  assert (forall rk, In rk holds -> sget b ("06" ++ rk)%string = Some (VNum (count_occ_s holds rk))) as Hb6.
  { intros rk Hin. specialize (W6 _ Hin). cbn beta in W6.
    destruct (sget s ("06" ++ rk)%string) as [[| |n| |]|] eqn:E6; try discriminate.
    apply Z.eqb_eq in W6. subst n.
    apply norm_keep; [exact Hs | exact E6 |].
    pose proof (count_pos holds rk Hin). destruct (count_occ_s holds rk); try exact I. lia. }
  apply sub_full_eq; auto.
  - (* sub *)
    intros k v Hg. destruct (in_dec string_dec k hkeys) as [Hin|Hn].
    + unfold hkeys in Hin. apply in_map_iff in Hin. destruct Hin as [rk [<- Hin]].
      rewrite (H2 rk Hin), Hc0 in Hg. inversion Hg. exact (Hb6 rk Hin).
    + rewrite (Hframe k Hn) in Hg. apply R2; exact Hg.
  - (* every entry of the target has been written *)
    assert (forall k, sget s1 k <> None -> sget s2 k <> None) as P1.
    { intros k H. destruct (in_dec string_dec k hkeys) as [Hin|Hn].
      - unfold hkeys in Hin. apply in_map_iff in Hin. destruct Hin as [rk [<- Hin]]. rewrite (H2 rk Hin). discriminate.
      - rewrite (Hframe k Hn). exact H. }
    intros k Hk. unfold b in Hk. rewrite (norm_delegation_get s k Hs) in Hk.
    destruct (sget s k) as [v|] eqn:Eg; [|congruence].
    pose proof Eg as Ein. apply (sget_in s k v Hs) in Ein.
    assert (covered_key ["01"; "02"; "03"; "04"; "05"; "06"; "07"]%string k = true) as Hck.
    { unfold keys_under, covered in W1. rewrite forallb_forall in W1. apply W1. unfold skeys. apply in_map_iff. exists (k, v). auto. }
    unfold covered_key in Hck. apply existsb_exists in Hck. destruct Hck as [p [Hp Hpre]].
    destruct (has_prefix_split p k Hpre) as [r [-> Hstrip]].
    pose proof (rows_of_complete p s _ v r Ein Hstrip) as Hrow.
    simpl in Hp. destruct Hp as [<-|[<-|[<-|[<-|[<-|[<-|[<-|[]]]]]]]].
    + apply P1, R3, C3. apply (B4 r v Hrow).
    + apply P1, R3. apply (C4 r v Hrow).
    + specialize (W2 _ Hrow). cbn [snd fst] in W2.
      destruct (undel_keys v) as [[[rk sk] pk]|] eqn:Ek; [|discriminate].
      apply andb_prop in W2. destruct W2 as [W2 _]. apply andb_prop in W2. destruct W2 as [Erk _].
      apply String.eqb_eq in Erk. subst r.
      apply P1. apply (R5 (rk, v) rk sk pk Hrow Ek).
    + specialize (W3 _ Hrow). cbn [snd fst] in W3.
      destruct v as [rk| | | |]; try discriminate.
      destruct (sget s ("03" ++ rk)%string) as [v0|] eqn:E3; [|discriminate].
      destruct (undel_keys v0) as [[[rk0 sk] pk]|] eqn:Ek; [|discriminate].
      apply String.eqb_eq in W3. subst r.
      apply (sget_in s _ _ Hs) in E3.
      pose proof (rows_of_complete "03" s _ v0 rk E3 (strip_app "03" rk)) as Hrow3.
      apply P1. apply (R5 (rk, v0) rk0 sk pk Hrow3 Ek).
    + specialize (W4 _ Hrow). cbn [snd fst] in W4.
      destruct v as [rk| | | |]; try discriminate.
      destruct (sget s ("03" ++ rk)%string) as [v0|] eqn:E3; [|discriminate].
      destruct (undel_keys v0) as [[[rk0 sk] pk]|] eqn:Ek; [|discriminate].
      apply String.eqb_eq in W4. subst r.
      apply (sget_in s _ _ Hs) in E3.
      pose proof (rows_of_complete "03" s _ v0 rk E3 (strip_app "03" rk)) as Hrow3.
      apply P1. apply (R5 (rk, v0) rk0 sk pk Hrow3 Ek).
    + specialize (W5 _ Hrow). cbn [snd fst] in W5.
      destruct v as [| |n| |]; try discriminate. apply Z.eqb_eq in W5.
      destruct (in_dec string_dec r holds) as [Hin|Hn]; [rewrite (H2 r Hin); discriminate|].
      exfalso. rewrite (count_zero_notin _ _ Hn) in W5. subst n. apply Hk. reflexivity.
    + apply P1, R3, C3, B3. apply (A4 r v Hrow).
Qed.

Lemma norm_idem (s : mstore) : norm "delegation" (norm "delegation" s) = norm "delegation" s.
Proof.
  unfold norm. rewrite !nonvolatile_delegation.
  induction s as [|kv r IH]; [reflexivity|]. cbn [filter].
  destruct (negb (is_default "delegation" kv)) eqn:E; cbn [filter]; [rewrite E, IH; reflexivity | exact IH].
Qed.

Lemma delegation_roundtrip_norm c (aux s s' : mstore) : sorted s -> de_wf c aux s = true ->
  de_init c (de_export s) (dg_holds (dg_export [] aux)) = Ok s' -> norm "delegation" s' = norm "delegation" s.
Proof.
  intros Hs Hwf H. rewrite (delegation_roundtrip c aux s Hs Hwf) in H. inversion H. apply norm_idem.
Qed.

(* ---------- second export ---------- *)
Lemma rows_of_norm p (s : mstore) : (forall r, In (r, VNum 0) (rows_of p s) -> False) ->
  rows_of p (norm "delegation" s) = rows_of p s.
Proof.
  unfold norm. rewrite nonvolatile_delegation. unfold rows_of.
  induction s as [|[k v] r IH]; intro H; [reflexivity|].
  assert (forall x, In (x, VNum 0) (flat_map (fun kv : string * val => match strip p (fst kv) with Some r0 => [(r0, snd kv)] | None => [] end) r) -> False) as H'.
  { intros x Hx. apply (H x). cbn [flat_map]. apply in_or_app. right. exact Hx. }
  cbn [filter]. destruct (is_default "delegation" (k, v)) eqn:Ed; cbn [negb flat_map fst snd].
  - rewrite (IH H'). destruct (strip p k) as [x|] eqn:Es; [|reflexivity]. exfalso.
    unfold is_default in Ed. cbn [snd] in Ed.
    destruct v as [d|l|n|? ? ? ? ? ? ? ?|d t]; try discriminate.
    + destruct d; discriminate.
    + destruct n; try discriminate. apply (H x). cbn [flat_map fst snd]. rewrite Es. left. reflexivity.
  - rewrite (IH H'). reflexivity.
Qed.

Theorem delegation_idempotent c (aux s s' : mstore) : sorted s -> de_wf c aux s = true ->
  de_init c (de_export s) (dg_holds (dg_export [] aux)) = Ok s' -> de_export s' = de_export s.
Proof.
  intros Hs Hwf H. rewrite (delegation_roundtrip c aux s Hs Hwf) in H. inversion H; subst s'. clear H.
  unfold de_wf in Hwf.
  apply andb_prop in Hwf. destruct Hwf as [Hwf _]. apply andb_prop in Hwf. destruct Hwf as [Hwf _].
  apply andb_prop in Hwf. destruct Hwf as [Hwf _]. apply andb_prop in Hwf. destruct Hwf as [Hwf _].
  apply andb_prop in Hwf. destruct Hwf as [Hwf W2]. apply andb_prop in Hwf. destruct Hwf as [_ W0].
  cbn [forallb] in W0.
  apply andb_prop in W0. destruct W0 as [V01 W0]. apply andb_prop in W0. destruct W0 as [V02 W0].
  apply andb_prop in W0. destruct W0 as [V07 _].
  rewrite forallb_forall in W2, V01, V02, V07.
  unfold de_export.
  rewrite (rows_of_norm "07" s), (rows_of_norm "01" s), (rows_of_norm "02" s), (rows_of_norm "03" s); [reflexivity | | | |].
  - intros r Hin. specialize (W2 _ Hin). cbn [snd] in W2. simpl in W2. discriminate.
  - intros r Hin. specialize (V02 _ Hin). discriminate.
  - intros r Hin. specialize (V01 _ Hin). discriminate.
  - intros r Hin. specialize (V07 _ Hin). discriminate.
Qed.
