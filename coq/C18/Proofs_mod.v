(* C18/Proofs_mod.v — per-module lemmas: instances of the generic theorem, the dogfood queue import,
   refutation witnesses. *)
From Coq Require Import List String Ascii Bool ZArith Lia Sorting.Sorted.
From Exo Require Import Base.Store Base.Util C18.Model C18.Proofs.
Import ListNotations.
Local Open Scope list_scope.

(* ---------- boolean sortedness ---------- *)
Lemma sortedb_sound (s : mstore) : sortedb s = true -> sorted s.
Proof.
  unfold sortedb, sorted. generalize (skeys s) as l. intros l H.
  apply Sorted_StronglySorted; [intros x y z; apply slt_trans|].
  induction l as [|a l IH]; [constructor|].
  destruct l as [|b r]; [constructor; constructor|].
  simpl in H. destruct (scmp a b) eqn:E; try discriminate.
  constructor; [apply IH; exact H | constructor; apply scmp_lt; exact E].
Qed.

Lemma append_inv_head (p x y : string) : (p ++ x)%string = (p ++ y)%string -> x = y.
Proof. induction p as [|c p IH]; simpl; intro H; [exact H|]. inversion H. apply IH; assumption. Qed.

(* ---------- plain modules ---------- *)
Lemma roundtrip_assets c aux ext (s : mstore) : sorted s -> covered as_prefixes s = true ->
  m_init "assets" c aux ext (m_export "assets" ext s) = Ok s.
Proof.
  intros Hs Hc. change (m_export "assets" ext s) with (export_plain as_prefixes s).
  change (Ok (init_plain (export_plain as_prefixes s) []) = Ok s). f_equal. apply plain_roundtrip; auto.
Qed.

Lemma roundtrip_epochs c aux ext (s : mstore) : sorted s -> covered ep_prefixes s = true ->
  m_init "epochs" c aux ext (m_export "epochs" ext s) = Ok s.
Proof.
  intros Hs Hc. change (m_export "epochs" ext s) with (export_plain ep_prefixes s).
  change (Ok (init_plain (export_plain ep_prefixes s) []) = Ok s). f_equal. apply plain_roundtrip; auto.
Qed.

Lemma roundtrip_exomint c aux ext (s : mstore) : sorted s -> covered mi_prefixes s = true ->
  m_init "exomint" c aux ext (m_export "exomint" ext s) = Ok s.
Proof.
  intros Hs Hc. change (m_export "exomint" ext s) with (export_plain mi_prefixes s).
  change (Ok (init_plain (export_plain mi_prefixes s) []) = Ok s). f_equal. apply plain_roundtrip; auto.
Qed.

Lemma roundtrip_oracle_part c aux ext (s : mstore) : sorted s ->
  m_init "oracle" c aux ext (m_export "oracle" ext s) = Ok (covered_part or_prefixes s).
Proof.
  intros Hs. change (m_export "oracle" ext s) with (export_plain or_prefixes s).
  change (Ok (init_plain (export_plain or_prefixes s) []) = Ok (covered_part or_prefixes s)).
  f_equal. apply plain_roundtrip_part; auto.
Qed.

Lemma roundtrip_feedist_part c aux ext (s : mstore) : sorted s ->
  m_init "feedistribution" c aux ext (m_export "feedistribution" ext s) = Ok (covered_part fd_prefixes s).
Proof.
  intros Hs. change (m_export "feedistribution" ext s) with (export_plain fd_prefixes s).
  change (Ok (init_plain (export_plain fd_prefixes s) []) = Ok (covered_part fd_prefixes s)).
  f_equal. apply plain_roundtrip_part; auto.
Qed.

Lemma idempotent_plain m c aux ext ext' (s s' : mstore) : sorted s ->
  In m ["assets"; "epochs"; "exomint"; "oracle"; "feedistribution"]%string ->
  m_init m c aux ext (m_export m ext s) = Ok s' -> m_export m ext' s' = m_export m ext s.
Proof.
  intros Hs Hm H. simpl in Hm.
  destruct Hm as [<-|[<-|[<-|[<-|[<-|[]]]]]].
  - change (m_export "assets" ext s) with (export_plain as_prefixes s) in *.
    change (Ok (init_plain (export_plain as_prefixes s) []) = Ok s') in H. inversion H; subst s'.
    change (export_plain as_prefixes (init_plain (export_plain as_prefixes s) []) = export_plain as_prefixes s).
    apply plain_idempotent; auto.
  - change (m_export "epochs" ext s) with (export_plain ep_prefixes s) in *.
    change (Ok (init_plain (export_plain ep_prefixes s) []) = Ok s') in H. inversion H; subst s'.
    change (export_plain ep_prefixes (init_plain (export_plain ep_prefixes s) []) = export_plain ep_prefixes s).
    apply plain_idempotent; auto.
  - change (m_export "exomint" ext s) with (export_plain mi_prefixes s) in *.
    change (Ok (init_plain (export_plain mi_prefixes s) []) = Ok s') in H. inversion H; subst s'.
    change (export_plain mi_prefixes (init_plain (export_plain mi_prefixes s) []) = export_plain mi_prefixes s).
    apply plain_idempotent; auto.
  - change (m_export "oracle" ext s) with (export_plain or_prefixes s) in *.
    change (Ok (init_plain (export_plain or_prefixes s) []) = Ok s') in H. inversion H; subst s'.
    change (export_plain or_prefixes (init_plain (export_plain or_prefixes s) []) = export_plain or_prefixes s).
    apply plain_idempotent; auto.
  - change (m_export "feedistribution" ext s) with (export_plain fd_prefixes s) in *.
    change (Ok (init_plain (export_plain fd_prefixes s) []) = Ok s') in H. inversion H; subst s'.
    change (export_plain fd_prefixes (init_plain (export_plain fd_prefixes s) []) = export_plain fd_prefixes s).
    apply plain_idempotent; auto.
Qed.

Lemma nonce_not_covered r : covered_key or_prefixes (or_nonce ++ r)%string = false.
Proof. vm_compute. reflexivity. Qed.

Lemma oracle_nonce_lost c aux ext (s s' : mstore) k : sorted s ->
  m_init "oracle" c aux ext (m_export "oracle" ext s) = Ok s' -> has_prefix or_nonce k = true -> sget s' k = None.
Proof.
  intros Hs H Hk. rewrite roundtrip_oracle_part in H by exact Hs. inversion H; subst s'.
  unfold has_prefix in Hk. destruct (strip or_nonce k) as [r|] eqn:E; [|discriminate].
  apply strip_sound in E. subst k. unfold covered_part.
  rewrite (sget_filter_key (covered_key or_prefixes) s _ Hs), nonce_not_covered. reflexivity.
Qed.

Definition res_get (r : res) (k : string) : option val := match r with Ok s => sget s k | Panic => None end.

Lemma roundtrip_oracle_refuted :
  ~ (forall c aux ext (s : mstore), sorted s -> m_init "oracle" c aux ext (m_export "oracle" ext s) = Ok s).
Proof.
  intro H. specialize (H ex_ctx [] [] ex_oracle (sortedb_sound ex_oracle eq_refl)).
  apply (f_equal (fun r => res_get r (or_nonce ++ hexs "exovalcons1abc/")%string)) in H.
  vm_compute in H. discriminate.
Qed.

Lemma roundtrip_feedist_refuted :
  ~ (forall c aux ext (s : mstore), sorted s -> m_init "feedistribution" c aux ext (m_export "feedistribution" ext s) = Ok s).
Proof.
  intro H. specialize (H ex_ctx [] [] ex_feedist (sortedb_sound ex_feedist eq_refl)).
  apply (f_equal (fun r => res_get r (hexs "feePoolKey"))) in H.
  vm_compute in H. discriminate.
Qed.

Definition ex_oracle_nst : mstore := [ ("11"%string, VRaw "#params"); ((or_stakerlist ++ hexs "0xeeee_0x65")%string, VRaw "#list") ].

Lemma oracle_stakerlist_unrepaired_refuted : exists s : mstore, sorted s /\ covered or_prefixes s = true /\
  init_plain (or_export_unrepaired s) [] <> s /\ init_plain (export_plain or_prefixes s) [] = s.
Proof.
  exists ex_oracle_nst. split; [apply sortedb_sound; vm_compute; reflexivity|].
  split; [vm_compute; reflexivity|]. split.
  - intro H. apply (f_equal (fun s => sget s (or_stakerlist ++ hexs "0xeeee_0x65")%string)) in H.
    vm_compute in H. discriminate.
  - vm_compute. reflexivity.
Qed.

(* ---------- dogfood: one queue with its reverse index ---------- *)
Definition qstep (qk e : string) (idx : option string) (st : mstore) (a : string) : mstore :=
  let st1 := qappend st qk a in
  match idx with Some ip => sset st1 (ip ++ a) (VRaw e) | None => st1 end.
Definition cur_list (st : mstore) (qk : string) : list string :=
  match sget st qk with Some (VList l) => l | _ => [] end.

Lemma qstep_sorted qk e idx st a : sorted st -> sorted (qstep qk e idx st a).
Proof. intro H. unfold qstep, qappend. destruct idx; repeat apply sset_sorted; exact H. Qed.

Lemma qstep_qk qk e idx st a : sorted st ->
  match idx with Some ip => forall x, (ip ++ x)%string <> qk | None => True end ->
  sget (qstep qk e idx st a) qk = Some (VList (cur_list st qk ++ [a])).
Proof.
  intros Hs Hd. unfold qstep, qappend, cur_list. destruct idx as [ip|].
  - rewrite sget_sset_other; [apply sget_sset_same | apply sset_sorted; exact Hs | apply Hd].
  - apply sget_sset_same.
Qed.

Lemma qstep_other qk e idx st a k : sorted st -> k <> qk ->
  (forall ip, idx = Some ip -> k <> (ip ++ a)%string) -> sget (qstep qk e idx st a) k = sget st k.
Proof.
  intros Hs H1 H2. unfold qstep, qappend. destruct idx as [ip|].
  - rewrite sget_sset_other; [| apply sset_sorted; exact Hs | intro E; apply (H2 ip eq_refl); symmetry; exact E].
    apply sget_sset_other; [exact Hs | intro E; apply H1; symmetry; exact E].
  - apply sget_sset_other; [exact Hs | intro E; apply H1; symmetry; exact E].
Qed.

Lemma inner_fold qk e idx : forall atoms (st : mstore), sorted st ->
  match idx with Some ip => forall x, (ip ++ x)%string <> qk | None => True end ->
  let st' := fold_left (qstep qk e idx) atoms st in
  sorted st' /\
  (atoms <> [] -> sget st' qk = Some (VList (cur_list st qk ++ atoms))) /\
  (forall ip a, idx = Some ip -> In a atoms -> sget st' (ip ++ a)%string = Some (VRaw e)) /\
  (forall k, k <> qk -> (forall ip a, idx = Some ip -> In a atoms -> k <> (ip ++ a)%string) -> sget st' k = sget st k).
Proof.
  induction atoms as [|a rest IH]; simpl; intros st Hs Hd.
  - repeat split; auto; try congruence; try (intros ? ? ? []).
  - pose proof (qstep_sorted qk e idx st a Hs) as Hs1.
    destruct (IH _ Hs1 Hd) as [I1 [I2 [I3 I4]]].
    assert (cur_list (qstep qk e idx st a) qk = cur_list st qk ++ [a]) as Hcur.
    { unfold cur_list at 1. rewrite (qstep_qk qk e idx st a Hs Hd). reflexivity. }
    repeat split.
    + exact I1.
    + intros _. destruct rest as [|b rest'].
      * simpl. apply qstep_qk; auto.
      * rewrite I2 by discriminate. rewrite Hcur, <- app_assoc. reflexivity.
    + intros ip a' Hi [<-|Hin].
      * destruct (in_dec string_dec a rest) as [Hr|Hr]; [apply (I3 ip a Hi Hr)|].
        rewrite I4.
        -- subst idx. unfold qstep. apply sget_sset_same.
        -- subst idx. apply Hd.
        -- intros ip' a'' Hi' Hin' E. rewrite Hi in Hi'. inversion Hi'; subst ip'.
           apply append_inv_head in E. subst a''. contradiction.
      * apply (I3 ip a' Hi Hin).
    + intros k Hk Hn. rewrite I4;
        [ apply qstep_other; auto; intros ip Hi; apply (Hn ip a Hi); left; reflexivity
        | exact Hk
        | intros ip a' Hi Hin; apply (Hn ip a' Hi); right; exact Hin ].
Qed.

Lemma dg_init_queue_cons cur p idx e v rows (acc : mstore) :
  (hexval e <? cur)%Z = false ->
  dg_init_queue cur p idx ((e, v) :: rows) acc =
  dg_init_queue cur p idx rows (fold_left (qstep (p ++ e) e idx) (atoms v) acc).
Proof. intro H. unfold dg_init_queue. simpl. rewrite H. reflexivity. Qed.

Definition occurs (a : string) (rows : list row) : bool :=
  existsb (fun r => existsb (String.eqb a) (atoms (snd r))) rows.

Lemma occurs_true a rows : occurs a rows = true -> exists e l, In (e, VList l) rows /\ In a l.
Proof.
  unfold occurs. rewrite existsb_exists. intros [[e v] [Hin Hex]]. simpl in Hex.
  apply existsb_exists in Hex. destruct Hex as [x [Hx Ex]]. apply String.eqb_eq in Ex. subst x.
  destruct v; simpl in Hx; try contradiction. exists e, l. split; assumption.
Qed.

Lemma occurs_false a rows e l : occurs a rows = false -> In (e, VList l) rows -> ~ In a l.
Proof.
  unfold occurs. intros H Hin Ha. rewrite <- not_true_iff_false in H. apply H.
  apply existsb_exists. exists (e, VList l). split; [exact Hin|]. simpl.
  apply existsb_exists. exists a. split; [exact Ha | apply String.eqb_refl].
Qed.

Lemma queue_import cur p idx : forall rows (acc : mstore),
  sorted acc -> queue_rows_ok cur rows -> idx_disjoint p idx ->
  (forall e, In e (map fst rows) -> sget acc (p ++ e)%string = None) ->
  exists res, dg_init_queue cur p idx rows acc = Ok res /\ sorted res /\
    (forall e l, In (e, VList l) rows -> sget res (p ++ e)%string = Some (VList l)) /\
    (forall ip e l a, idx = Some ip -> In (e, VList l) rows -> In a l ->
        exists e', sget res (ip ++ a)%string = Some (VRaw e') /\ exists l', In (e', VList l') rows /\ In a l') /\
    (forall k, (forall e, In e (map fst rows) -> k <> (p ++ e)%string) ->
               (forall ip e l a, idx = Some ip -> In (e, VList l) rows -> In a l -> k <> (ip ++ a)%string) ->
               sget res k = sget acc k).
Proof.
  induction rows as [|[e v] rows IH]; intros acc Hs [Hnd Hok] Hdis Habs.
  - exists acc. unfold dg_init_queue; simpl. repeat split; auto; try (intros; contradiction); try (intros ? ? ? ? ? []).
  - simpl in Hnd, Hok. inversion Hnd as [|? ? Hnotin Hnd']; subst.
    apply andb_prop in Hok. destruct Hok as [Hrow Hok'].
    unfold queue_row_ok in Hrow. simpl in Hrow.
    destruct v as [|l| | |]; try discriminate. destruct l as [|a0 l0]; [discriminate|].
    apply negb_true_iff in Hrow.
    pose proof (dg_init_queue_cons cur p idx e (VList (a0 :: l0)) rows acc Hrow) as Hcons. simpl atoms in Hcons.
    set (l := a0 :: l0) in *.
    assert (match idx with Some ip => forall x, (ip ++ x)%string <> (p ++ e)%string | None => True end) as Hd.
    { unfold idx_disjoint in Hdis. destruct idx; auto. }
    destruct (inner_fold (p ++ e)%string e idx l acc Hs Hd) as [J1 [J2 [J3 J4]]].
    set (acc1 := fold_left (qstep (p ++ e) e idx) l acc) in *.
    assert (sget acc1 (p ++ e)%string = Some (VList l)) as Hqk.
    { rewrite J2 by (unfold l; discriminate). unfold cur_list. rewrite (Habs e) by (simpl; left; reflexivity). reflexivity. }
    assert (forall e', In e' (map fst rows) -> sget acc1 (p ++ e')%string = None) as Habs1.
    { intros e' Hin. rewrite J4.
      - apply Habs. simpl; right; exact Hin.
      - intro E. apply append_inv_head in E. subst e'. contradiction.
      - intros ip a Hi _. unfold idx_disjoint in Hdis. rewrite Hi in Hdis. intro E. apply (Hdis a e'). symmetry; exact E. }
    destruct (IH acc1 J1 (conj Hnd' Hok') Hdis Habs1) as [res [R0 [R1 [R2 [R3 R4]]]]].
    exists res. split; [exact (eq_trans Hcons R0)|]. split; [exact R1|].
    assert (forall ip a, idx = Some ip -> forall e', (p ++ e')%string <> (ip ++ a)%string) as Hdis'.
    { intros ip a Hi e' E. unfold idx_disjoint in Hdis. rewrite Hi in Hdis. apply (Hdis a e'). symmetry; exact E. }
    split; [|split].
    + intros e2 l2 [E|Hin].
      * inversion E; subst e2 l2. rewrite R4; [exact Hqk | |].
        -- intros e' Hin E'. apply append_inv_head in E'. subst e'. contradiction.
        -- intros ip e' l' a Hi _ _. apply (Hdis' ip a Hi).
      * apply R2; exact Hin.
    + intros ip e2 l2 a Hi Hin2 Ha.
      destruct (occurs a rows) eqn:Hocc.
      * apply occurs_true in Hocc. destruct Hocc as [e3 [l3 [Hin3 Ha3]]].
        destruct (R3 ip e3 l3 a Hi Hin3 Ha3) as [e' [Hg [l' [Hin' Ha']]]].
        exists e'. split; [exact Hg|]. exists l'. split; [right; exact Hin' | exact Ha'].
      * destruct Hin2 as [E|Hin2]; [|exfalso; eapply occurs_false; eauto].
        inversion E; subst e2 l2.
        exists e. split.
        -- rewrite R4; [apply (J3 ip a Hi Ha) | |].
           ++ intros e' _ E'. apply (Hdis' ip a Hi e'). symmetry; exact E'.
           ++ intros ip' e' l' a' Hi' Hin' Ha' E'. rewrite Hi in Hi'. inversion Hi'; subst ip'.
              apply append_inv_head in E'. subst a'. eapply occurs_false; eauto.
        -- exists l. split; [left; reflexivity | exact Ha].
    + intros k Hk1 Hk2. rewrite R4.
      * apply J4; [apply Hk1; simpl; left; reflexivity|].
        intros ip a Hi Ha. apply (Hk2 ip e l a Hi); [left; reflexivity | exact Ha].
      * intros e' Hin. apply Hk1. simpl; right; exact Hin.
      * intros ip e' l' a Hi Hin Ha. apply (Hk2 ip e' l' a Hi); [right; exact Hin | exact Ha].
Qed.

(* ---------- dogfood witnesses ---------- *)
Lemma dogfood_unrepaired_refuted :
  dg_wf ex_ctx ex_valmap ex_dogfood = true /\
  dg_validate (dg_export_unrepaired ex_valmap ex_dogfood) = false /\
  (exists s', dg_init ex_ctx (dg_export_unrepaired ex_valmap ex_dogfood) = Ok s' /\
      sget s' "050000000000000004"%string = None /\ sget s' "060000000000000004"%string = None /\
      sget s' "050000000000000005"%string = Some (VList ["cbf74a940611bd1dd4ad9c9165cff1f114c73776"%string]) /\
      sget s' "060000000000000005"%string = Some (VList ["cbf74a940611bd1dd4ad9c9165cff1f114c73776"%string])).
Proof.
  split; [vm_compute; reflexivity|]. split; [vm_compute; reflexivity|].
  eexists. split; [vm_compute; reflexivity|]. vm_compute. repeat split; reflexivity.
Qed.

Lemma dogfood_valset_refuted : exists c valmap (s s' : mstore), sorted s /\
  dg_init c (dg_export valmap s) = Ok s' /\ nonvolatile "dogfood" s' <> nonvolatile "dogfood" s.
Proof.
  exists ex_ctx, ex_valmap_replaced, ex_dogfood. eexists.
  split; [apply sortedb_sound; vm_compute; reflexivity|].
  split; [vm_compute; reflexivity|].
  intro H. apply (f_equal (fun s => sget s "019a010f35bd7270626f934fb382364232a4f0c5e1"%string)) in H.
  vm_compute in H. discriminate.
Qed.

(* ---------- delegation ---------- *)
Lemma delegation_example_roundtrip :
  de_wf ex_ctx ex_dogfood ex_delegation = true /\
  exists s', de_init ex_ctx (de_export ex_delegation) (dg_holds (dg_export [] ex_dogfood)) = Ok s' /\
             norm "delegation" s' = norm "delegation" ex_delegation.
Proof.
  split; [vm_compute; reflexivity|]. eexists. split; [vm_compute; reflexivity|]. vm_compute. reflexivity.
Qed.

Lemma delegation_holds_unrepaired_refuted :
  exists s', de_init ex_ctx (de_export ex_delegation) [] = Ok s' /\ norm "delegation" s' <> norm "delegation" ex_delegation /\
             sget s' ("06" ++ hexs "exo1e0m549/0x2/0x3/0x3ba9")%string = None.
Proof.
  eexists. split; [vm_compute; reflexivity|]. split.
  - intro H. apply (f_equal (fun s => sget s ("06" ++ hexs "exo1e0m549/0x2/0x3/0x3ba9")%string)) in H.
    vm_compute in H. discriminate.
  - vm_compute. reflexivity.
Qed.

Lemma delegation_panics_past c g holds r :
  gsec g "undel" = [r] -> undel_keys (snd r) <> None -> (undel_complete (snd r) <? cx_height c)%Z = true ->
  de_init c g holds = Panic.
Proof.
  intros Hg Hk Hc. unfold de_init. rewrite Hg. unfold de_init_undel. simpl.
  destruct (undel_keys (snd r)) as [[[rk sk] pk]|]; [|congruence]. rewrite Hc. reflexivity.
Qed.

(* ---------- operator ---------- *)
Lemma roundtrip_operator_refuted :
  ~ (forall c consaddr (s : mstore), sorted s -> op_init c consaddr (op_export s) = Ok s).
Proof.
  intro H. specialize (H ex_ctx ex_consaddr ex_operator (sortedb_sound ex_operator eq_refl)).
  apply (f_equal (fun r => res_get r ("0a" ++ ex_chain ++ "9a010f35bd7270626f934fb382364232a4f0c5e1")%string)) in H.
  vm_compute in H. discriminate.
Qed.

(* the importer as found: the commission time of every operator is reset, so the second export differs *)
Lemma operator_commission_unrepaired_refuted : exists c consaddr (s s' : mstore), sorted s /\
  op_init_unrepaired c consaddr (op_export s) = Ok s' /\ op_export s' <> op_export s /\
  sget s' ("01" ++ ex_opaddr)%string = Some (VInfo "#info" (cx_time c)).
Proof.
  exists ex_ctx, ex_consaddr, ex_operator. eexists.
  split; [apply sortedb_sound; vm_compute; reflexivity|]. split; [vm_compute; reflexivity|]. split.
  - intro H. apply (f_equal (fun g => gsec g "01")) in H. vm_compute in H. discriminate.
  - vm_compute. reflexivity.
Qed.

(* ... and the previous key's lookup is not rebuilt although the key is recorded under 08 *)
Lemma operator_prevkey_unrepaired_refuted : exists s', op_init_unrepaired ex_ctx ex_consaddr (op_export ex_operator_wf) = Ok s' /\
  sget s' ("0a" ++ ex_chain ++ "9a010f35bd7270626f934fb382364232a4f0c5e1")%string = None /\
  op_init ex_ctx ex_consaddr (op_export ex_operator_wf) = Ok ex_operator_wf.
Proof. eexists. split; [vm_compute; reflexivity|]. split; vm_compute; reflexivity. Qed.
