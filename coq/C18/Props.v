(* C18/Props.v — statements only (proofs are in Proofs.v / Proofs_queue.v). *)
From Coq Require Import List String ZArith.
From Exo Require Import Base.Store Base.Util C18.Model C18.Proofs C18.Proofs_mod C18.Proofs_dg C18.Proofs_de C18.Proofs_op.
Import ListNotations.
Local Open Scope string_scope.

(* ===== the generic exporter / importer pair ===== *)

(* An exporter that iterates the prefixes [ps] and an importer that writes each exported row back under
   its prefix reproduce exactly the entries lying under one of the prefixes - all of them, with their
   values, in order - and nothing else: every other entry of the store is lost. *)
Theorem C18_generic_roundtrip : forall ps (s : mstore), sorted s ->
  init_plain (export_plain ps s) [] = covered_part ps s.
Proof. exact plain_roundtrip_part. Qed.
Print Assumptions C18_generic_roundtrip.

Theorem C18_generic_idempotent : forall ps (s : mstore), sorted s ->
  export_plain ps (init_plain (export_plain ps s) []) = export_plain ps s.
Proof. exact plain_idempotent. Qed.
Print Assumptions C18_generic_idempotent.

(* ===== assets, epochs, exomint: full round trip ===== *)
Theorem C18_roundtrip_assets : forall c aux ext (s : mstore), sorted s -> covered as_prefixes s = true ->
  m_init "assets" c aux ext (m_export "assets" ext s) = Ok s.
Proof. exact roundtrip_assets. Qed.
Print Assumptions C18_roundtrip_assets.

Theorem C18_roundtrip_epochs : forall c aux ext (s : mstore), sorted s -> covered ep_prefixes s = true ->
  m_init "epochs" c aux ext (m_export "epochs" ext s) = Ok s.
Proof. exact roundtrip_epochs. Qed.
Print Assumptions C18_roundtrip_epochs.

Theorem C18_roundtrip_exomint : forall c aux ext (s : mstore), sorted s -> covered mi_prefixes s = true ->
  m_init "exomint" c aux ext (m_export "exomint" ext s) = Ok s.
Proof. exact roundtrip_exomint. Qed.
Print Assumptions C18_roundtrip_exomint.

(* exporting again yields the same document (all five modules whose exporters are plain) *)
Theorem C18_idempotent_plain : forall m c aux ext ext' (s s' : mstore), sorted s ->
  In m ["assets"; "epochs"; "exomint"; "oracle"; "feedistribution"] ->
  m_init m c aux ext (m_export m ext s) = Ok s' -> m_export m ext' s' = m_export m ext s.
Proof. exact idempotent_plain. Qed.
Print Assumptions C18_idempotent_plain.

(* ===== oracle, feedistribution: what survives, what is lost ===== *)
Theorem C18_roundtrip_oracle_partial : forall c aux ext (s : mstore), sorted s ->
  m_init "oracle" c aux ext (m_export "oracle" ext s) = Ok (covered_part or_prefixes s).
Proof. exact roundtrip_oracle_part. Qed.
Print Assumptions C18_roundtrip_oracle_partial.

(* every validator nonce row is gone after the re-import, whatever the state *)
Theorem C18_oracle_nonce_lost : forall c aux ext (s s' : mstore) k, sorted s ->
  m_init "oracle" c aux ext (m_export "oracle" ext s) = Ok s' -> has_prefix or_nonce k = true -> sget s' k = None.
Proof. exact oracle_nonce_lost. Qed.
Print Assumptions C18_oracle_nonce_lost.

Definition C18_roundtrip_oracle_full : Prop := forall c aux ext (s : mstore), sorted s ->
  m_init "oracle" c aux ext (m_export "oracle" ext s) = Ok s.
Theorem C18_roundtrip_oracle_refuted : ~ C18_roundtrip_oracle_full.
Proof. exact roundtrip_oracle_refuted. Qed.
Print Assumptions C18_roundtrip_oracle_refuted.

Theorem C18_roundtrip_feedistribution_partial : forall c aux ext (s : mstore), sorted s ->
  m_init "feedistribution" c aux ext (m_export "feedistribution" ext s) = Ok (covered_part fd_prefixes s).
Proof. exact roundtrip_feedist_part. Qed.
Print Assumptions C18_roundtrip_feedistribution_partial.

Definition C18_roundtrip_feedistribution_full : Prop := forall c aux ext (s : mstore), sorted s ->
  m_init "feedistribution" c aux ext (m_export "feedistribution" ext s) = Ok s.
Theorem C18_roundtrip_feedistribution_refuted : ~ C18_roundtrip_feedistribution_full.
Proof. exact roundtrip_feedist_refuted. Qed.
Print Assumptions C18_roundtrip_feedistribution_refuted.

(* the oracle exporter as found (staker-list asset id exported with the store prefix attached) *)
Theorem C18_oracle_stakerlist_unrepaired_refuted : exists s : mstore, sorted s /\ covered or_prefixes s = true /\
  init_plain (or_export_unrepaired s) [] <> s /\ init_plain (export_plain or_prefixes s) [] = s.
Proof. exact oracle_stakerlist_unrepaired_refuted. Qed.
Print Assumptions C18_oracle_stakerlist_unrepaired_refuted.

(* ===== dogfood ===== *)
(* one epoch-indexed queue with its reverse index, imported into a store [acc] that does not contain the
   queue's keys: the import does not panic, writes exactly the list of every epoch and the index entry of
   every element, and changes nothing else *)
Theorem C18_dogfood_queue_import : forall cur p idx rows (acc : mstore),
  sorted acc -> queue_rows_ok cur rows -> idx_disjoint p idx ->
  (forall e, In e (map fst rows) -> sget acc (p ++ e) = None) ->
  exists res, dg_init_queue cur p idx rows acc = Ok res /\ sorted res /\
    (forall e l, In (e, VList l) rows -> sget res (p ++ e) = Some (VList l)) /\
    (forall ip e l a, idx = Some ip -> In (e, VList l) rows -> In a l ->
        exists e', sget res (ip ++ a) = Some (VRaw e') /\ exists l', In (e', VList l') rows /\ In a l') /\
    (forall k, (forall e, In e (map fst rows) -> k <> p ++ e) ->
               (forall ip e l a, idx = Some ip -> In (e, VList l) rows -> In a l -> k <> ip ++ a) ->
               sget res k = sget acc k).
Proof. exact queue_import. Qed.
Print Assumptions C18_dogfood_queue_import.

(* THE WHOLE MODULE (repaired exporters and importer): for every sorted store satisfying the block-boundary
   invariant [dg_wf] (only known prefixes, no pending lists / epoch-end marker; queue lists non-empty, epochs
   >= current epoch and > 1, no element twice; queues and reverse indexes describe each other; the operator
   module answers every stored validator with its own key) InitGenesis (ExportGenesis s) does not panic and
   reproduces every entry of s except the volatile ones (validator updates 0f, historical info 0c). *)
Theorem C18_roundtrip_dogfood : forall c valmap (s : mstore), sorted s -> dg_wf c valmap s = true ->
  dg_init c (dg_export valmap s) = Ok (nonvolatile "dogfood" s).
Proof. exact dogfood_roundtrip. Qed.
Print Assumptions C18_roundtrip_dogfood.

Theorem C18_idempotent_dogfood : forall c valmap (s s' : mstore), sorted s -> dg_wf c valmap s = true ->
  dg_init c (dg_export valmap s) = Ok s' -> dg_export valmap s' = dg_export valmap s.
Proof. exact dogfood_idempotent. Qed.
Print Assumptions C18_idempotent_dogfood.

(* the exported document passes the three queue checks of GenesisState.Validate *)
Theorem C18_validates_dogfood : forall c valmap (s : mstore), sorted s -> dg_wf c valmap s = true ->
  dg_validate (dg_export valmap s) = true.
Proof. exact dogfood_validates. Qed.
Print Assumptions C18_validates_dogfood.

Example C18_dogfood_example_wf : dg_wf ex_ctx ex_valmap ex_dogfood = true.
Proof. vm_compute. reflexivity. Qed.
Example C18_dogfood_example_roundtrip :
  dg_init ex_ctx (dg_export ex_valmap ex_dogfood) = Ok (nonvolatile "dogfood" ex_dogfood) /\
  dg_validate_full (dg_export ex_valmap ex_dogfood) = true.
Proof. vm_compute. split; reflexivity. Qed.

(* the exporters as found (both iterated the opt-out prefix): on the same state the document is rejected by
   validation, the consensus addresses to prune and the undelegation maturities are lost, and the opt-out
   is imported a second and a third time under their prefixes *)
Theorem C18_dogfood_unrepaired_refuted :
  dg_wf ex_ctx ex_valmap ex_dogfood = true /\
  dg_validate (dg_export_unrepaired ex_valmap ex_dogfood) = false /\
  (exists s', dg_init ex_ctx (dg_export_unrepaired ex_valmap ex_dogfood) = Ok s' /\
      sget s' "050000000000000004" = None /\ sget s' "060000000000000004" = None /\
      sget s' "050000000000000005" = Some (VList ["cbf74a940611bd1dd4ad9c9165cff1f114c73776"]) /\
      sget s' "060000000000000005" = Some (VList ["cbf74a940611bd1dd4ad9c9165cff1f114c73776"])).
Proof. exact dogfood_unrepaired_refuted. Qed.
Print Assumptions C18_dogfood_unrepaired_refuted.

(* The exporter as found asked the operator module for each stored validator and exported the operator's
   CURRENT key ([valmap] not the identity): exported between a key replacement and the epoch end, the validator
   set was re-imported under the new key.  The repaired exporter exports the validators as stored ([valmap] =
   identity, which is what [dg_wf] requires and what the harness now observes at every height). *)
Theorem C18_dogfood_valset_unrepaired_refuted : exists c valmap (s s' : mstore), sorted s /\
  dg_init c (dg_export valmap s) = Ok s' /\ nonvolatile "dogfood" s' <> nonvolatile "dogfood" s.
Proof. exact dogfood_valset_refuted. Qed.
Print Assumptions C18_dogfood_valset_unrepaired_refuted.

(* ===== delegation ===== *)
(* the three keys under which an imported record is stored are those the keeper uses when the record is
   created: operator/height/nonce/hash, staker/asset/nonce, completeHeight/nonce (x/delegation/types/keys.go) *)
Example C18_undel_keys_example :
  undel_keys ex_record = Some (hexs "exo1e0m549/0x2/0x3/0x3ba9", hexs "0x31f0_0x65/0xdac1_0x65/0x3", hexs "0xc/0x3").
Proof. vm_compute. reflexivity. Qed.

(* THE WHOLE MODULE: for every sorted store satisfying [de_wf] (only known prefixes; every record stored under
   the key its own fields give, not completing before the import height, with exactly its two index entries;
   no index entry without its record; every hold count = number of dogfood maturities naming the record)
   delegation InitGenesis (ExportGenesis s) followed by the holds the repaired dogfood import takes again
   ([aux] = dogfood store) does not panic and reproduces s up to hold counts of 0. *)
Theorem C18_roundtrip_delegation : forall c (aux s : mstore), sorted s -> de_wf c aux s = true ->
  de_init c (de_export s) (dg_holds (dg_export [] aux)) = Ok (norm "delegation" s).
Proof. exact delegation_roundtrip. Qed.
Print Assumptions C18_roundtrip_delegation.

Theorem C18_roundtrip_delegation_norm : forall c (aux s s' : mstore), sorted s -> de_wf c aux s = true ->
  de_init c (de_export s) (dg_holds (dg_export [] aux)) = Ok s' -> norm "delegation" s' = norm "delegation" s.
Proof. exact delegation_roundtrip_norm. Qed.
Print Assumptions C18_roundtrip_delegation_norm.

Theorem C18_idempotent_delegation : forall c (aux s s' : mstore), sorted s -> de_wf c aux s = true ->
  de_init c (de_export s) (dg_holds (dg_export [] aux)) = Ok s' -> de_export s' = de_export s.
Proof. exact delegation_idempotent. Qed.
Print Assumptions C18_idempotent_delegation.

Example C18_delegation_example_roundtrip :
  de_wf ex_ctx ex_dogfood ex_delegation = true /\
  exists s', de_init ex_ctx (de_export ex_delegation) (dg_holds (dg_export [] ex_dogfood)) = Ok s' /\
             norm "delegation" s' = norm "delegation" ex_delegation.
Proof. exact delegation_example_roundtrip. Qed.

(* without the repair (no hold is taken again) the held undelegation of the example loses its hold *)
Theorem C18_delegation_holds_unrepaired_refuted :
  exists s', de_init ex_ctx (de_export ex_delegation) [] = Ok s' /\ norm "delegation" s' <> norm "delegation" ex_delegation /\
             sget s' ("06" ++ hexs "exo1e0m549/0x2/0x3/0x3ba9") = None.
Proof. exact delegation_holds_unrepaired_refuted. Qed.
Print Assumptions C18_delegation_holds_unrepaired_refuted.

(* a record that completes before the import height makes InitGenesis panic *)
Theorem C18_delegation_import_panics_on_past_record : forall c g holds r,
  gsec g "undel" = [r] -> undel_keys (snd r) <> None -> (undel_complete (snd r) <? cx_height c)%Z = true ->
  de_init c g holds = Panic.
Proof. exact delegation_panics_past. Qed.
Print Assumptions C18_delegation_import_panics_on_past_record.

(* ===== operator ===== *)
(* WHAT SURVIVES, for EVERY sorted operator store whose infos carry a commission time: the (repaired) import of the
   exported document does not panic; every entry under 01 (infos) 02 (opted) 03 04 (USD values) 05 (slash info)
   07 (keys) 08 (previous keys) 0b (key removals) is reproduced exactly and nothing is added there; nothing exists
   under any other prefix than 09 / 0a - so 06 (slash-assets state) is lost - and 09 / 0a hold what was recomputed
   from the keys. *)
Theorem C18_operator_survivors : forall c consaddr (s : mstore), sorted s -> op_info_ok s = true ->
  exists s', op_init c consaddr (op_export s) = Ok s' /\ sorted s' /\
    (forall k, covered_key op_survivors k = true -> sget s' k = sget s k) /\
    (forall k, sget s' k <> None -> covered_key op_survivors k = true \/ has_prefix "09" k = true \/ has_prefix "0a" k = true).
Proof. exact operator_survivors. Qed.
Print Assumptions C18_operator_survivors.

(* EXACT ROUND TRIP on the states [op_wf]: only known prefixes and no 06; the reverse lookups 09 / 0a are exactly
   those of the current keys (07) and of the previous keys still recorded (08) *)
Theorem C18_roundtrip_operator : forall c consaddr (s : mstore), sorted s -> op_wf consaddr s = true ->
  op_init c consaddr (op_export s) = Ok s.
Proof. exact operator_roundtrip. Qed.
Print Assumptions C18_roundtrip_operator.

Theorem C18_idempotent_operator : forall c consaddr (s s' : mstore), sorted s -> op_wf consaddr s = true ->
  op_init c consaddr (op_export s) = Ok s' -> op_export s' = op_export s.
Proof. exact operator_idempotent. Qed.
Print Assumptions C18_idempotent_operator.

Example C18_operator_example_wf : sortedb ex_operator_wf = true /\ op_wf ex_consaddr ex_operator_wf = true.
Proof. vm_compute. split; reflexivity. Qed.

(* not every reachable state is [op_wf]: the lookup of a replaced key outlives its 08 record (it stays, slashable,
   until dogfood prunes it epochs later) and the document has no place for it *)
Definition C18_roundtrip_operator_full : Prop := forall c consaddr (s : mstore), sorted s ->
  op_init c consaddr (op_export s) = Ok s.
Theorem C18_roundtrip_operator_refuted : ~ C18_roundtrip_operator_full.
Proof. exact roundtrip_operator_refuted. Qed.
Print Assumptions C18_roundtrip_operator_refuted.

(* the importer as found (regressions of the two repairs) *)
Theorem C18_operator_commission_unrepaired_refuted : exists c consaddr (s s' : mstore), sorted s /\
  op_init_unrepaired c consaddr (op_export s) = Ok s' /\ op_export s' <> op_export s /\
  sget s' ("01" ++ ex_opaddr) = Some (VInfo "#info" (cx_time c)).
Proof. exact operator_commission_unrepaired_refuted. Qed.
Print Assumptions C18_operator_commission_unrepaired_refuted.

Theorem C18_operator_prevkey_unrepaired_refuted :
  exists s', op_init_unrepaired ex_ctx ex_consaddr (op_export ex_operator_wf) = Ok s' /\
  sget s' ("0a" ++ ex_chain ++ "9a010f35bd7270626f934fb382364232a4f0c5e1") = None /\
  op_init ex_ctx ex_consaddr (op_export ex_operator_wf) = Ok ex_operator_wf.
Proof. exact operator_prevkey_unrepaired_refuted. Qed.
Print Assumptions C18_operator_prevkey_unrepaired_refuted.
