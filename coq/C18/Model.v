(* C18/Model.v — executable model of genesis export / validation / re-import for the modules
   assets, delegation, operator, dogfood, epochs, oracle, exomint, feedistribution.

   A module state is ONE key-sorted store (Base/Store.v) whose keys are the lower-case hex of the
   real store keys (hex order = byte order, hex prefix = byte prefix), prefix byte(s) included.
   Values are opaque digests ([VRaw]) wherever the importer only copies them, and structured where the
   importer recomputes something from them: the element lists of the dogfood queues ([VList]),
   undelegation records ([VUndel]: the fields the three delegation index keys are built from),
   operator infos ([VInfo]: the commission update time is overwritten on import), hold counts ([VNum]).

   Transcribed from x/*/keeper/genesis.go, x/oracle/genesis.go, x/*/types/genesis.go and the getters
   / setters they call; for each exporter: WHICH PREFIX it iterates, how the row key is formed, under
   which prefix the importer writes the row back and which secondary entries it rebuilds.  Stores that
   no exporter covers are simply not produced by [init_*].  No proofs here. *)
From Coq Require Import List String Ascii Bool ZArith Lia.
From Exo Require Import Base.Store Base.Util.
Import ListNotations.
Local Open Scope string_scope.
Local Open Scope Z_scope.
Local Open Scope list_scope.

(* ---------- values ---------- *)
Inductive val :=
| VRaw (d : string)                        (* opaque: digest / short hex of the stored bytes *)
| VList (l : list string)                  (* dogfood queue: hex of every element, in stored order *)
| VNum (n : Z)                             (* delegation hold count *)
| VUndel (staker asset operator txhash : string) (blk nonce complete : Z) (d : string)
                                           (* UndelegationRecord: key material + digest of the rest *)
| VInfo (d : string) (t : Z).              (* OperatorInfo: digest with the time zeroed + Commission.UpdateTime *)

Definition mstore := store val.

Definition val_eqb (a b : val) : bool :=
  match a, b with
  | VRaw x, VRaw y => String.eqb x y
  | VList x, VList y => list_eqb String.eqb x y
  | VNum x, VNum y => x =? y
  | VUndel s1 a1 o1 t1 b1 n1 c1 d1, VUndel s2 a2 o2 t2 b2 n2 c2 d2 =>
      String.eqb s1 s2 && String.eqb a1 a2 && String.eqb o1 o2 && String.eqb t1 t2 &&
      (b1 =? b2) && (n1 =? n2) && (c1 =? c2) && String.eqb d1 d2
  | VInfo d1 t1, VInfo d2 t2 => String.eqb d1 d2 && (t1 =? t2)
  | _, _ => false
  end.

Definition kv_eqb (a b : string * val) : bool := String.eqb (fst a) (fst b) && val_eqb (snd a) (snd b).
Definition store_eqb (a b : mstore) : bool := list_eqb kv_eqb a b.

(* ---------- strings / hex ---------- *)
(* [strip p k] = Some r  iff  k = p ++ r *)
Fixpoint strip (p k : string) : option string :=
  match p with
  | EmptyString => Some k
  | String c p' => match k with
                   | EmptyString => None
                   | String d k' => if Ascii.eqb c d then strip p' k' else None
                   end
  end.
Definition has_prefix (p k : string) : bool := match strip p k with Some _ => true | None => false end.

Definition hexdigit (n : Z) : ascii :=
  match n with
  | 0 => "0" | 1 => "1" | 2 => "2" | 3 => "3" | 4 => "4" | 5 => "5" | 6 => "6" | 7 => "7"
  | 8 => "8" | 9 => "9" | 10 => "a" | 11 => "b" | 12 => "c" | 13 => "d" | 14 => "e" | _ => "f"
  end%char.
Definition hex_of_ascii (c : ascii) : string :=
  let n := Z.of_nat (nat_of_ascii c) in
  String (hexdigit (n / 16)) (String (hexdigit (n mod 16)) EmptyString).
(* hex of the bytes of an ASCII string *)
Fixpoint hexs (s : string) : string :=
  match s with EmptyString => EmptyString | String c r => hex_of_ascii c ++ hexs r end.

(* hexutil.EncodeUint64: "0x" + hex digits without leading zeros, "0x0" for 0 *)
Fixpoint hexdigits (fuel : nat) (z : Z) (acc : string) : string :=
  match fuel with
  | O => acc
  | S f => if z <? 16 then String (hexdigit z) acc
           else hexdigits f (z / 16) (String (hexdigit (z mod 16)) acc)
  end.
Definition hexu64 (z : Z) : string := "0x" ++ hexdigits 16 z EmptyString.

Definition digit_val (c : ascii) : Z :=
  let n := Z.of_nat (nat_of_ascii c) in
  if (48 <=? n) && (n <=? 57) then n - 48 else if (97 <=? n) && (n <=? 102) then n - 87 else 0.
(* big-endian value of a hex string (sdk.BigEndianToUint64 of the 8 bytes after the prefix) *)
Fixpoint hexval_acc (s : string) (acc : Z) : Z :=
  match s with EmptyString => acc | String c r => hexval_acc r (acc * 16 + digit_val c) end.
Definition hexval (s : string) : Z := hexval_acc s 0.

Fixpoint sjoin (sep : string) (l : list string) : string :=
  match l with [] => EmptyString | [x] => x | x :: r => x ++ sep ++ sjoin sep r end.

(* first n characters / the rest *)
Fixpoint stake (n : nat) (s : string) : string :=
  match n, s with S m, String c r => String c (stake m r) | _, _ => EmptyString end.
Fixpoint sdrop (n : nat) (s : string) : string :=
  match n, s with S m, String c r => sdrop m r | _, _ => s end.

(* number of "/" (0x2f) bytes of a hex-encoded byte string *)
Fixpoint count_slash (s : string) : nat :=
  match s with
  | String a (String b r) => ((if Ascii.eqb a "2" && Ascii.eqb b "f" then 1 else 0) + count_slash r)%nat
  | _ => O
  end.

(* ---------- generic export / import of one prefix ---------- *)
Definition row := (string * val)%type.

(* the rows an exporter that iterates prefix [p] produces: key with [p] removed, value *)
Definition rows_of (p : string) (s : mstore) : list row :=
  flat_map (fun kv => match strip p (fst kv) with Some r => [(r, snd kv)] | None => [] end) s.

(* an importer that writes every row back under prefix [p] *)
Definition put_rows (p : string) (rows : list row) (s : mstore) : mstore :=
  fold_left (fun acc r => sset acc (p ++ fst r) (snd r)) rows s.

(* a genesis document: named collections of rows *)
Definition genesis := list (string * list row).
Definition gsec (g : genesis) (n : string) : list row :=
  match find (fun x => String.eqb (fst x) n) g with Some x => snd x | None => [] end.

Definition row_eqb (a b : row) : bool := kv_eqb a b.
Definition genesis_eqb (a b : genesis) : bool :=
  list_eqb (fun x y => String.eqb (fst x) (fst y) && list_eqb row_eqb (snd x) (snd y)) a b.

(* "plain" module: every collection is exported by iterating one prefix and written back under it *)
Definition export_plain (ps : list string) (s : mstore) : genesis := map (fun p => (p, rows_of p s)) ps.
Definition init_plain (g : genesis) (s0 : mstore) : mstore :=
  fold_left (fun acc sec => put_rows (fst sec) (snd sec) acc) g s0.
Definition covered (ps : list string) (s : mstore) : bool :=
  forallb (fun k => existsb (fun p => has_prefix p k) ps) (skeys s).

(* ---------- outcome ---------- *)
Inductive outcome := ROk | RPanic | RSkipped.
Definition outcome_eqb (a b : outcome) : bool :=
  match a, b with ROk, ROk | RPanic, RPanic | RSkipped, RSkipped => true | _, _ => false end.
Inductive res := Ok (s : mstore) | Panic.

Record ictx := mkCtx { cx_height : Z; cx_epoch : Z; cx_time : Z }.

(* =====================================================================================
   dogfood   (x/dogfood/keeper/genesis.go, opt_out.go, unbonding.go, pending.go, types/genesis.go)
   prefixes: 01 validators, 03 opt-outs to finish (epoch -> [operator]), 04 operator -> finish epoch,
   05 consensus addresses to prune (epoch -> [cons addr]), 06 undelegations to mature (epoch ->
   [record key]), 08/09/0a pending lists, 0b epoch-end marker, 0c historical info, 0d record key ->
   maturity epoch, 0e last total power, 0f validator updates, 10 params.
   ===================================================================================== *)
Definition dg_valset := "01". Definition dg_optouts := "03". Definition dg_optout_idx := "04".
Definition dg_prune := "05". Definition dg_mature := "06". Definition dg_mature_idx := "0d".
Definition dg_power := "0e". Definition dg_params := "10".

Definition atoms (v : val) : list string := match v with VList l => l | _ => [] end.

(* the exporter, parameterised by the prefixes GetAllConsAddrsToPrune / GetAllUndelegationsToMature
   iterate: the repaired code iterates 05 / 06, the code as found iterated 03 for both *)
(* IterateBondedValidatorsByPower: for every stored validator the operator module is asked
   (ValidatorByConsAddrForChainID) for the validator of that consensus address; it answers with the
   owning operator's CURRENT key ([valmap]: stored address -> current address ++ public key, an
   external call supplied with the case); validators it does not know are skipped.  The exported
   entry carries the stored power and the answered key. *)
Definition dg_valset_rows (valmap : list (string * string)) (s : mstore) : list row :=
  flat_map (fun r => match find (fun x => String.eqb (fst x) (fst r)) valmap with
                     | Some x => match atoms (snd r) with
                                 | power :: _ => [(stake 40 (snd x), VList [power; sdrop 40 (snd x)])]
                                 | [] => []
                                 end
                     | None => []
                     end) (rows_of dg_valset s).

Definition dg_export_with (pp pm : string) (valmap : list (string * string)) (s : mstore) : genesis :=
  [ ("params", rows_of dg_params s); ("valset", dg_valset_rows valmap s);
    ("optouts", rows_of dg_optouts s); ("prune", rows_of pp s); ("mature", rows_of pm s);
    ("power", rows_of dg_power s) ].
Definition dg_export : list (string * string) -> mstore -> genesis := dg_export_with dg_prune dg_mature.
Definition dg_export_unrepaired : list (string * string) -> mstore -> genesis := dg_export_with dg_optouts dg_optouts.

Fixpoint nodupb (l : list string) : bool :=
  match l with [] => true | x :: r => negb (existsb (String.eqb x) r) && nodupb r end.

(* ParseUndelegationRecordKey succeeds only on operator/height/nonce/hash with a bech32 operator:
   modelled as: exactly four "/"-separated parts, the first starting with "exo1" *)
Definition rk_ok (a : string) : bool :=
  Nat.eqb (count_slash a) 3 && has_prefix (hexs "exo1") a.

(* GenesisState.Validate, the three epoch-indexed collections *)
Definition dg_validate_queue (chk : string -> bool) (rows : list row) : bool :=
  nodupb (map fst rows) &&
  forallb (fun r => (1 <? hexval (fst r)) && negb (match atoms (snd r) with [] => true | _ => false end)
                    && forallb chk (atoms (snd r))) rows &&
  nodupb (flat_map (fun r => atoms (snd r)) rows).
Definition dg_validate (g : genesis) : bool :=
  dg_validate_queue (fun _ => true) (gsec g "optouts") &&
  dg_validate_queue (fun _ => true) (gsec g "prune") &&
  dg_validate_queue rk_ok (gsec g "mature").

(* ... and LastTotalPower must be positive *)
Definition dg_power_ok (g : genesis) : bool :=
  match gsec g "power" with [(_, VNum n)] => 0 <? n | [] => false | _ => false end.
Definition dg_validate_full (g : genesis) : bool := dg_validate g && dg_power_ok g.

(* AppendOptOutToFinish / AppendConsensusAddrToPrune / AppendUndelegationToMature *)
Definition qappend (s : mstore) (k a : string) : mstore :=
  sset s k (VList (match sget s k with Some (VList l) => l | _ => [] end ++ [a])).

(* one epoch-indexed collection: panic on an epoch before the current one, then for every element
   append to the list of the epoch and (if the collection has one) set the reverse index *)
Definition dg_init_queue (cur : Z) (p : string) (idx : option string) (rows : list row) (s : mstore) : res :=
  fold_left (fun acc r =>
    match acc with
    | Panic => Panic
    | Ok st =>
        if hexval (fst r) <? cur then Panic
        else Ok (fold_left (fun st' a =>
                   let st1 := qappend st' (p ++ fst r) a in
                   match idx with Some ip => sset st1 (ip ++ a) (VRaw (fst r)) | None => st1 end)
                 (atoms (snd r)) st)
    end) rows (Ok s).

(* InitGenesis.  Written: params, the three collections with their reverse indexes, last total power,
   the validators (ApplyValidatorChanges re-creates each exported validator under its own key).
   NOT written: pending lists 08/09/0a, epoch-end marker 0b (all empty at a block boundary),
   historical info 0c and validator updates 0f (volatile, see [volatile]). *)
Definition dg_init (c : ictx) (g : genesis) : res :=
  let s0 := put_rows dg_params (gsec g "params") [] in
  match dg_init_queue (cx_epoch c) dg_optouts (Some dg_optout_idx) (gsec g "optouts") s0 with
  | Panic => Panic
  | Ok s1 =>
    match dg_init_queue (cx_epoch c) dg_prune None (gsec g "prune") s1 with
    | Panic => Panic
    | Ok s2 =>
      match dg_init_queue (cx_epoch c) dg_mature (Some dg_mature_idx) (gsec g "mature") s2 with
      | Panic => Panic
      | Ok s3 => Ok (put_rows dg_valset (gsec g "valset") (put_rows dg_power (gsec g "power") s3))
      end
    end
  end.

(* the record keys for which the (repaired) dogfood InitGenesis re-takes a hold *)
Definition dg_holds (g : genesis) : list string := flat_map (fun r => atoms (snd r)) (gsec g "mature").

(* =====================================================================================
   delegation   (x/delegation/keeper/genesis.go, delegation_state.go, un_delegation_state.go)
   01 staker/asset/operator -> amounts, 02 operator/asset -> stakers, 03 record key -> record,
   04 staker/asset/nonce -> record key, 05 completeHeight/nonce -> record key, 06 record key -> hold
   count, 07 staker -> associated operator.
   ===================================================================================== *)
Definition de_export (s : mstore) : genesis :=
  [ ("assoc", rows_of "07" s); ("states", rows_of "01" s); ("stakers", rows_of "02" s); ("undel", rows_of "03" s) ].

Definition undel_keys (v : val) : option (string * string * string) :=
  match v with
  | VUndel st asset op tx blk nonce complete _ =>
      Some (hexs (sjoin "/" [op; hexu64 blk; hexu64 nonce; tx]),
            hexs (sjoin "/" [st; asset; hexu64 nonce]),
            hexs (sjoin "/" [hexu64 complete; hexu64 nonce]))
  | _ => None
  end.
Definition undel_complete (v : val) : Z := match v with VUndel _ _ _ _ _ _ c _ => c | _ => 0 end.

(* SetUndelegationRecords: error (InitGenesis panics) when a record completes before the current
   height; otherwise the record and its two index entries, all keyed from the record's own fields *)
Definition de_init_undel (h : Z) (rows : list row) (s : mstore) : res :=
  fold_left (fun acc r =>
    match acc with
    | Panic => Panic
    | Ok st =>
        match undel_keys (snd r) with
        | None => Panic
        | Some (rk, sk, pk) =>
            if undel_complete (snd r) <? h then Panic
            else Ok (sset (sset (sset st ("03" ++ rk) (snd r)) ("04" ++ sk) (VRaw rk)) ("05" ++ pk) (VRaw rk))
        end
    end) rows (Ok s).

(* IncrementUndelegationHoldCount *)
Definition hold_inc (s : mstore) (rk : string) : mstore :=
  sset s ("06" ++ rk) (VNum (match sget s ("06" ++ rk) with Some (VNum n) => n | _ => 0 end + 1)).

(* delegation InitGenesis followed by the hold counts the dogfood InitGenesis re-takes
   ([holds] = record keys of the dogfood document; [] models the code before the repair) *)
Definition de_init (c : ictx) (g : genesis) (holds : list string) : res :=
  let s0 := put_rows "02" (gsec g "stakers") (put_rows "01" (gsec g "states") (put_rows "07" (gsec g "assoc") [])) in
  match de_init_undel (cx_height c) (gsec g "undel") s0 with
  | Panic => Panic
  | Ok s1 => Ok (fold_left hold_inc holds s1)
  end.

(* =====================================================================================
   operator   (x/operator/keeper/genesis.go, operator.go, consensus_keys.go, ...)
   01 operator -> info, 02 opted info, 03 AVS usd value, 04 operator usd value, 05 slash info,
   06 slash-assets state, 07 operator+chain -> consensus key, 08 operator+chain -> previous key,
   09 chain+operator -> key (reverse of 07), 0a chain+consensus address -> operator, 0b key removal.
   ===================================================================================== *)
Definition op_plain : list string := ["02"; "03"; "04"; "05"; "08"; "0b"].
Definition op_export (s : mstore) : genesis :=
  ("01", rows_of "01" s) :: ("07", rows_of "07" s) :: export_plain op_plain s.

(* SetOperatorInfo overwrites Commission.UpdateTime with the block time of the import; the repaired InitGenesis
   puts the exported time back when there is one ([-1] encodes Go's zero time).  [keep = false] is the importer
   as found. *)
Definition op_init_info_with (keep : bool) (t : Z) (rows : list row) (s : mstore) : mstore :=
  fold_left (fun acc r => sset acc ("01" ++ fst r)
               (match snd r with
                | VInfo d t0 => VInfo d (if keep && negb (t0 =? -1) then t0 else t)
                | v => v end)) rows s.
Definition op_init_info : Z -> list row -> mstore -> mstore := op_init_info_with true.

Definition consaddr_of (consaddr : list (string * string)) (v : val) : option string :=
  match v with
  | VRaw d => match find (fun x => String.eqb (fst x) d) consaddr with Some x => Some (snd x) | None => None end
  | _ => None
  end.

(* setOperatorConsKeyForChainIDUnchecked: 07 key = operator(20 bytes) ++ chain part; rebuilds 09 and,
   through the consensus address of the key ([consaddr]: external, supplied with the case), 0a *)
Definition op_key_step (consaddr : list (string * string)) (acc : mstore) (r : row) : mstore :=
  let addr := stake 40 (fst r) in
  let chain := sdrop 40 (fst r) in
  let acc1 := sset (sset acc ("07" ++ fst r) (snd r)) ("09" ++ chain ++ addr) (snd r) in
  match consaddr_of consaddr (snd r) with
  | Some ca => sset acc1 ("0a" ++ chain ++ ca) (VRaw addr)
  | None => acc1
  end.
Definition op_init_keys (consaddr : list (string * string)) (rows : list row) (s : mstore) : mstore :=
  fold_left (op_key_step consaddr) rows s.

(* SetAllPrevConsKeys (08 key = chain part ++ operator): the repaired importer also rebuilds the lookup from
   the previous key's consensus address to the operator; [lookup = false] is the importer as found *)
Definition op_prev_step (consaddr : list (string * string)) (acc : mstore) (r : row) : mstore :=
  let n := (String.length (fst r) - 40)%nat in
  match consaddr_of consaddr (snd r) with
  | Some ca => sset acc ("0a" ++ stake n (fst r) ++ ca) (VRaw (sdrop n (fst r)))
  | None => acc
  end.
Definition op_init_prev (lookup : bool) (consaddr : list (string * string)) (rows : list row) (s : mstore) : mstore :=
  if lookup then fold_left (op_prev_step consaddr) rows s else s.

Definition op_init_with (keep lookup : bool) (c : ictx) (consaddr : list (string * string)) (g : genesis) : res :=
  let s1 := op_init_keys consaddr (gsec g "07") (op_init_info_with keep (cx_time c) (gsec g "01") []) in
  let s2 := init_plain (filter (fun sec => existsb (String.eqb (fst sec)) op_plain) g) s1 in
  Ok (op_init_prev lookup consaddr (gsec g "08") s2).
Definition op_init : ictx -> list (string * string) -> genesis -> res := op_init_with true true.
Definition op_init_unrepaired : ictx -> list (string * string) -> genesis -> res := op_init_with false false.

(* =====================================================================================
   plain modules
   ===================================================================================== *)
Definition as_prefixes : list string := ["01"; "02"; "03"; "04"; "08"].
Definition ep_prefixes : list string := ["01"].
Definition mi_prefixes : list string := ["01"].
Definition fd_params : string := hexs "feedistributionPrefixParams".
Definition fd_prefixes : list string := [fd_params].
Definition or_nonce : string := hexs "KeyNonce/value/".
Definition or_stakerlist : string := hexs "NativeToken/stakerList/value/".
Definition or_prefixes : list string :=
  ["11"; hexs "Prices/value/"; hexs "ValidatorUpdateBlock/value/"; hexs "IndexRecentParams/value/";
   hexs "IndexRecentMsg/value/"; hexs "RecentMsg/value/"; hexs "RecentParams/value/";
   hexs "NativeToken/stakerInfo/value/"; or_stakerlist].

(* the oracle exporter as found: GetAllStakerListAssets keeps the store prefix in the exported asset
   id, so the importer writes prefix ++ prefix ++ assetID *)
Definition or_export_unrepaired (s : mstore) : genesis :=
  map (fun p => if String.eqb p or_stakerlist
                then (p, map (fun r => ((p ++ fst r)%string, snd r)) (rows_of p s))
                else (p, rows_of p s)) or_prefixes.

(* ---------- one interface for all modules ---------- *)
Definition m_export (m : string) (ext : list (string * string)) (s : mstore) : genesis :=
  if String.eqb m "dogfood" then dg_export ext s
  else if String.eqb m "delegation" then de_export s
  else if String.eqb m "operator" then op_export s
  else if String.eqb m "assets" then export_plain as_prefixes s
  else if String.eqb m "epochs" then export_plain ep_prefixes s
  else if String.eqb m "exomint" then export_plain mi_prefixes s
  else if String.eqb m "oracle" then export_plain or_prefixes s
  else if String.eqb m "feedistribution" then export_plain fd_prefixes s
  else [].

Definition m_validate (m : string) (g : genesis) : bool :=
  if String.eqb m "dogfood" then dg_validate_full g else true.

(* [aux] = the dogfood store before (delegation only); [consaddr] = consensus address of every
   stored consensus key (operator only) *)
Definition m_init (m : string) (c : ictx) (aux : mstore) (consaddr : list (string * string)) (g : genesis) : res :=
  if String.eqb m "dogfood" then dg_init c g
  else if String.eqb m "delegation" then de_init c g (dg_holds (dg_export [] aux))
  else if String.eqb m "operator" then op_init c consaddr g
  else Ok (init_plain g []).

(* entries that are rewritten before they are read in every block and therefore are not part of the
   state a genesis document has to carry: dogfood validator updates (0f: written by every EndBlock,
   read by the oracle EndBlock of the same block) and historical info (0c: IBC light-client history,
   like the SDK staking module never exported) *)
Definition volatile (m k : string) : bool :=
  String.eqb m "dogfood" && (has_prefix "0f" k || has_prefix "0c" k).
Definition nonvolatile (m : string) (s : mstore) : mstore := filter (fun kv => negb (volatile m (fst kv))) s.

(* ---------- correspondence case ---------- *)
Record case := mkCase {
  c_module : string; c_height : Z; c_epoch : Z; c_time : Z;
  c_before : mstore; c_aux : mstore; c_consaddr : list (string * string);
  c_after : mstore;
  c_export : outcome; c_valid : bool; c_init : outcome; c_jsoneq : bool;
  c_cont : Z  (* both chains continued block by block: -2 not run, -1 identical, k >= 1 first diverging block *) }.

Definition case_ctx (c : case) : ictx := mkCtx (c_height c + 1) (c_epoch c) (c_time c).

(* The real validator list is exported in the order of IterateBondedValidatorsByPower: stable sort by power,
   descending, of the key-ordered store.  The importer does not depend on the order, so [dg_export] keeps the
   key order; for comparing two DOCUMENTS the order is put back. *)
Fixpoint decval_acc (s : string) (acc : Z) : Z :=
  match s with EmptyString => acc | String c r => decval_acc r (acc * 10 + digit_val c) end.
Definition row_power (r : row) : Z := match atoms (snd r) with p :: _ => decval_acc p 0 | [] => 0 end.
Fixpoint ins_by_power (x : row) (l : list row) : list row :=
  match l with
  | [] => [x]
  | y :: r => if row_power x <? row_power y then y :: ins_by_power x r else x :: y :: r
  end.
Definition sort_by_power (l : list row) : list row := fold_right ins_by_power [] l.
Definition canon_doc (m : string) (g : genesis) : genesis :=
  if String.eqb m "dogfood"
  then map (fun sec => if String.eqb (fst sec) "valset" then (fst sec, sort_by_power (snd sec)) else sec) g
  else g.

(* model vs implementation: 0 export outcome, 1 validation verdict, 2 import outcome, 3 store after
   the import (non-volatile part), 4 equality of the second export *)
Definition check_case (c : case) : option nat :=
  let m := c_module c in
  if negb (outcome_eqb (c_export c) ROk) then Some 0%nat
  else
    let g := m_export m (c_consaddr c) (c_before c) in
    if negb (Bool.eqb (m_validate m g) (c_valid c)) then Some 1%nat
    else match m_init m (case_ctx c) (c_aux c) (c_consaddr c) g with
         | Panic => if outcome_eqb (c_init c) RPanic then None else Some 2%nat
         | Ok s' =>
             if negb (outcome_eqb (c_init c) ROk) then Some 2%nat
             else if negb (store_eqb (nonvolatile m s') (nonvolatile m (c_after c))) then Some 3%nat
             else if negb (Bool.eqb (genesis_eqb (canon_doc m (m_export m (map (fun x => (stake 40 (snd x), snd x)) (c_consaddr c)) s'))
                                                 (canon_doc m g))
                                    (c_jsoneq c)) then Some 4%nat
             else None
         end.

(* ---------- property monitors: only the implementation's observations are used ---------- *)
(* semantic normalisation: a hold count of 0 and an empty fee-distribution record read exactly like
   an absent entry (GetUndelegationHoldCount / GetFeePool / Get*Rewards on a missing key) *)
Definition is_default (m : string) (kv : string * val) : bool :=
  match snd kv with
  | VNum 0 => String.eqb m "delegation"
  | VRaw EmptyString => String.eqb m "feedistribution"
  | _ => false
  end.
Definition norm (m : string) (s : mstore) : mstore :=
  filter (fun kv => negb (is_default m kv)) (nonvolatile m s).

(* a class = a module and the key prefixes it consists of; [neg] = all keys of the module EXCEPT those *)
Record kclass := mkClass { k_module : string; k_neg : bool; k_prefixes : list string }.
Definition classes : list (string * kclass) :=
  [ ("epochs", mkClass "epochs" true []);
    ("exomint", mkClass "exomint" true []);
    ("assets", mkClass "assets" true []);
    ("delegation_core", mkClass "delegation" true ["06"]);
    ("delegation_hold", mkClass "delegation" false ["06"]);
    ("operator_info", mkClass "operator" false ["01"]);
    ("operator_lookup", mkClass "operator" false ["0a"]);
    ("operator_slash_assets", mkClass "operator" false ["06"]);
    ("operator_core", mkClass "operator" true ["01"; "0a"; "06"]);
    ("dogfood_queues", mkClass "dogfood" false ["03"; "04"; "05"; "06"; "0d"]);
    ("dogfood_core", mkClass "dogfood" true ["03"; "04"; "05"; "06"; "0d"]);
    ("oracle_nonce", mkClass "oracle" false [or_nonce]);
    ("oracle_core", mkClass "oracle" true [or_nonce]);
    ("feedist_params", mkClass "feedistribution" false [fd_params]);
    ("feedist_rewards", mkClass "feedistribution" true [fd_params]) ].

Definition in_class (k : kclass) (key : string) : bool :=
  xorb (k_neg k) (existsb (fun p => has_prefix p key) (k_prefixes k)).
Definition restrict (k : kclass) (s : mstore) : mstore := filter (fun kv => in_class k (fst kv)) s.

(* the round-trip statement of C18 for one class of one module: the re-imported store equals the
   exported one on that class *)
Definition monitor_class (name : string) (c : case) : option nat :=
  match find (fun x => String.eqb (fst x) name) classes with
  | None => Some 9%nat
  | Some (_, k) =>
      if negb (String.eqb (k_module k) (c_module c)) then None
      else if store_eqb (restrict k (norm (c_module c) (c_before c))) (restrict k (norm (c_module c) (c_after c)))
      then None else Some 1%nat
  end.

(* the exported document passes validation and can be imported *)
Definition monitor_valid (c : case) : option nat :=
  if negb (outcome_eqb (c_export c) ROk) then Some 0%nat
  else if negb (c_valid c) then Some 1%nat
  else if negb (outcome_eqb (c_init c) ROk) then Some 2%nat else None.

(* the re-started chain behaves like the original: same pending undelegations completing at the same
   height with the same holds, same opt-outs and prunings maturing, same balances, block by block *)
Definition monitor_behaviour (c : case) : option nat :=
  if c_cont c <? 0 then None else Some (Z.to_nat (c_cont c)).

(* exporting again yields the same document *)
Definition monitor_idem (c : case) : option nat := if c_jsoneq c then None else Some 1%nat.

(* =====================================================================================
   well-formedness of reachable block-boundary states (boolean, used as theorem hypotheses)
   ===================================================================================== *)
Definition keys_under (ps : list string) (s : mstore) : bool := covered ps s.

(* the rows of one queue as the importer needs them: distinct epochs, non-empty lists, no epoch before
   the current one *)
Definition queue_row_ok (cur : Z) (r : row) : bool :=
  match snd r with VList (_ :: _) => negb (hexval (fst r) <? cur) | _ => false end.
Definition queue_rows_ok (cur : Z) (rows : list row) : Prop :=
  NoDup (map fst rows) /\ forallb (queue_row_ok cur) rows = true.
(* keys of the reverse index never collide with keys of the queue *)
Definition idx_disjoint (p : string) (idx : option string) : Prop :=
  match idx with Some ip => forall x y, (ip ++ x)%string <> (p ++ y)%string | None => True end.

(* queue [p] and its reverse index [ip] describe each other *)
Definition idx_consistent (p ip : string) (s : mstore) : bool :=
  forallb (fun r => forallb (fun a => match sget s (ip ++ a) with Some (VRaw e) => String.eqb e (fst r) | _ => false end)
                            (atoms (snd r))) (rows_of p s) &&
  forallb (fun r => match snd r with
                    | VRaw e => match sget s (p ++ e) with Some (VList l) => existsb (String.eqb (fst r)) l | _ => false end
                    | _ => false end) (rows_of ip s).

Definition dg_wf (c : ictx) (valmap : list (string * string)) (s : mstore) : bool :=
  keys_under ["01"; "03"; "04"; "05"; "06"; "0c"; "0d"; "0e"; "0f"; "10"] s &&
  forallb (fun p => forallb (fun r => queue_row_ok (cx_epoch c) r && (1 <? hexval (fst r))) (rows_of p s)) ["03"; "05"; "06"] &&
  forallb (fun p => nodupb (flat_map (fun r => atoms (snd r)) (rows_of p s))) ["03"; "05"; "06"] &&
  forallb (fun r => forallb rk_ok (atoms (snd r))) (rows_of "06" s) &&
  idx_consistent "03" "04" s && idx_consistent "06" "0d" s &&
  forallb (fun r => match snd r with
                    | VList [_; pk] => match find (fun x => String.eqb (fst x) (fst r)) valmap with
                                       | Some x => String.eqb (snd x) (fst r ++ pk) | None => false end
                    | _ => false end) (rows_of "01" s) &&
  forallb (fun r => Nat.eqb (String.length (fst r)) 40) (rows_of "01" s).

Fixpoint count_occ_s (l : list string) (x : string) : Z :=
  match l with [] => 0 | y :: r => (if String.eqb x y then 1 else 0) + count_occ_s r x end.

Definition de_wf (c : ictx) (aux s : mstore) : bool :=
  let holds := dg_holds (dg_export [] aux) in
  keys_under ["01"; "02"; "03"; "04"; "05"; "06"; "07"] s &&
  forallb (fun p => forallb (fun r => match snd r with VNum _ => false | _ => true end) (rows_of p s)) ["01"; "02"; "07"] &&
  forallb (fun r => match undel_keys (snd r) with
                    | Some (rk, sk, pk) =>
                        String.eqb rk (fst r) && negb (undel_complete (snd r) <? cx_height c) &&
                        match sget s ("04" ++ sk), sget s ("05" ++ pk) with
                        | Some (VRaw a), Some (VRaw b) => String.eqb a rk && String.eqb b rk
                        | _, _ => false end
                    | None => false end) (rows_of "03" s) &&
  forallb (fun r => match snd r with
                    | VRaw rk => match sget s ("03" ++ rk) with
                                 | Some v => match undel_keys v with Some (_, sk, _) => String.eqb sk (fst r) | None => false end
                                 | None => false end
                    | _ => false end) (rows_of "04" s) &&
  forallb (fun r => match snd r with
                    | VRaw rk => match sget s ("03" ++ rk) with
                                 | Some v => match undel_keys v with Some (_, _, pk) => String.eqb pk (fst r) | None => false end
                                 | None => false end
                    | _ => false end) (rows_of "05" s) &&
  forallb (fun r => match snd r with VNum n => n =? count_occ_s holds (fst r) | _ => false end) (rows_of "06" s) &&
  forallb (fun rk => match sget s ("06" ++ rk) with Some (VNum n) => n =? count_occ_s holds rk | _ => false end) holds.

(* boolean sortedness (consecutive keys strictly increasing) *)
Fixpoint sortedb_keys (l : list string) : bool :=
  match l with
  | a :: ((b :: _) as r) => match scmp a b with Lt => sortedb_keys r | _ => false end
  | _ => true
  end.
Definition sortedb (s : mstore) : bool := sortedb_keys (skeys s).

(* ---------- example states (taken from a harness run, values shortened) ---------- *)
Definition ex_ctx : ictx := mkCtx 5 2 1704067300.
Definition ex_record : val := VUndel "0x31f0_0x65" "0xdac1_0x65" "exo1e0m549" "0x3ba9" 2 3 12 "#a7".
Definition ex_rk : string := hexs "exo1e0m549/0x2/0x3/0x3ba9".
Definition ex_valmap : list (string * string) :=
  [("2d92dc77e365c67cdf9070f8c7ec42ff3ba35089", ("2d92dc77e365c67cdf9070f8c7ec42ff3ba35089" ++ "aa01")%string);
   ("9a010f35bd7270626f934fb382364232a4f0c5e1", ("9a010f35bd7270626f934fb382364232a4f0c5e1" ++ "bb02")%string)].
(* two validators; an opt-out finishing at epoch 5; a replaced key to prune and a held undelegation
   maturing at epoch 4; volatile entries 0c / 0f *)
Definition ex_dogfood : mstore :=
  [ (("01" ++ "2d92dc77e365c67cdf9070f8c7ec42ff3ba35089")%string, VList ["900"; "aa01"]);
    (("01" ++ "9a010f35bd7270626f934fb382364232a4f0c5e1")%string, VList ["1000"; "bb02"]);
    ("030000000000000005", VList ["cbf74a940611bd1dd4ad9c9165cff1f114c73776"]);
    (("04" ++ "cbf74a940611bd1dd4ad9c9165cff1f114c73776")%string, VRaw "0000000000000005");
    ("050000000000000004", VList ["30eda29d93a85daf26759096e74f939e8903cb66"]);
    ("060000000000000004", VList [ex_rk]);
    ("0c0000000000000004", VRaw "#hist");
    (("0d" ++ ex_rk)%string, VRaw "0000000000000004");
    ("0e", VNum 1900);
    ("0f", VRaw "");
    ("10", VRaw "#params") ].
Definition ex_delegation : mstore :=
  [ (("01" ++ hexs "0x31f0_0x65/0xdac1_0x65/exo1e0m549")%string, VRaw "#st");
    (("02" ++ hexs "exo1e0m549/0xdac1_0x65")%string, VRaw "#sl");
    (("03" ++ ex_rk)%string, ex_record);
    (("04" ++ hexs "0x31f0_0x65/0xdac1_0x65/0x3")%string, VRaw ex_rk);
    (("05" ++ hexs "0xc/0x3")%string, VRaw ex_rk);
    (("06" ++ hexs "exo1e0m549/0x1/0x1/0x11")%string, VNum 0);
    (("06" ++ ex_rk)%string, VNum 1);
    (("07" ++ hexs "0x780c_0x65")%string, VRaw "#op") ].

(* operator: one operator registered at time 100 whose key was replaced (old key 9a01.. awaits pruning) *)
Definition ex_chain : string := "000000000000000b" ++ hexs "exocore_233".
Definition ex_opaddr : string := "780c1c66fccff9b7c58f686505be3c345cc5561d".
Definition ex_consaddr : list (string * string) :=
  [("#newkey", "30eda29d93a85daf26759096e74f939e8903cb66"); ("#oldkey", "9a010f35bd7270626f934fb382364232a4f0c5e1")].
Definition ex_operator : mstore :=
  [ (("01" ++ ex_opaddr)%string, VInfo "#info" 100);
    (("07" ++ ex_opaddr ++ ex_chain)%string, VRaw "#newkey");
    (("09" ++ ex_chain ++ ex_opaddr)%string, VRaw "#newkey");
    (("0a" ++ ex_chain ++ "30eda29d93a85daf26759096e74f939e8903cb66")%string, VRaw ex_opaddr);
    (("0a" ++ ex_chain ++ "9a010f35bd7270626f934fb382364232a4f0c5e1")%string, VRaw ex_opaddr) ].
(* dogfood right after a key replacement: the stored validator 9a01.. belongs to an operator whose current key is 30ed.. *)
Definition ex_valmap_replaced : list (string * string) :=
  [("2d92dc77e365c67cdf9070f8c7ec42ff3ba35089", ("2d92dc77e365c67cdf9070f8c7ec42ff3ba35089" ++ "aa01")%string);
   ("9a010f35bd7270626f934fb382364232a4f0c5e1", ("30eda29d93a85daf26759096e74f939e8903cb66" ++ "cc03")%string)].
Definition ex_oracle : mstore :=
  [ ("11", VRaw "#params");
    ((or_nonce ++ hexs "exovalcons1abc/")%string, VRaw "#nonce");
    ((or_stakerlist ++ hexs "0xeeee_0x65")%string, VRaw "#list");
    ((hexs "Prices/value/" ++ "00000000000000012f6e657874526f756e6449442f")%string, VRaw "0000000000000004") ].
Definition ex_feedist : mstore :=
  [ (hexs "feePoolKey", VRaw "#pool"); (fd_params, VRaw "#params") ].

(* ---------- validation cases: generated dogfood documents (queues only) and the verdict of the real
   GenesisState.Validate ---------- *)
Record vcase := mkV { v_optouts : list row; v_prune : list row; v_mature : list row; v_valid : bool }.
Definition check_vcase (c : vcase) : option nat :=
  let g : genesis := [("optouts", v_optouts c); ("prune", v_prune c); ("mature", v_mature c)] in
  if Bool.eqb (dg_validate g) (v_valid c) then None else Some 1%nat.

(* the hypotheses of the round-trip theorems, evaluated on the states the implementation actually reaches:
   every dump is key-sorted; dogfood states satisfy [dg_wf], delegation states [de_wf] *)


(* ---------- operator: the states on which the (repaired) round trip is exact ---------- *)
Definition op_survivors : list string := ["01"; "02"; "03"; "04"; "05"; "07"; "08"; "0b"].
Definition op_info_ok (s : mstore) : bool :=
  forallb (fun r => match snd r with VInfo _ t => negb (t =? -1) | _ => false end) (rows_of "01" s).
(* the key written for the reverse lookup of a 07 row / an 08 row *)
Definition op_lookup07 (consaddr : list (string * string)) (r : row) : option (string * val) :=
  match consaddr_of consaddr (snd r) with
  | Some ca => Some (("0a" ++ sdrop 40 (fst r) ++ ca)%string, VRaw (stake 40 (fst r)))
  | None => None end.
Definition op_lookup08 (consaddr : list (string * string)) (r : row) : option (string * val) :=
  let n := (String.length (fst r) - 40)%nat in
  match consaddr_of consaddr (snd r) with
  | Some ca => Some (("0a" ++ stake n (fst r) ++ ca)%string, VRaw (sdrop n (fst r)))
  | None => None end.
Definition op_rev09 (r : row) : string * val := (("09" ++ sdrop 40 (fst r) ++ stake 40 (fst r))%string, snd r).
Definition kv_in (s : mstore) (kv : string * val) : bool :=
  match sget s (fst kv) with Some v => val_eqb v (snd kv) | None => false end.
Definition okv_in (s : mstore) (o : option (string * val)) : bool :=
  match o with Some kv => kv_in s kv | None => false end.
(* only known prefixes, no slash-assets state; infos carry a commission time; the reverse lookups 09 / 0a are
   exactly those of the current keys (07) and of the previous keys still recorded (08) *)
Definition op_wf (consaddr : list (string * string)) (s : mstore) : bool :=
  keys_under ["01"; "02"; "03"; "04"; "05"; "07"; "08"; "09"; "0a"; "0b"] s && op_info_ok s &&
  forallb (fun r => kv_in s (op_rev09 r) && okv_in s (op_lookup07 consaddr r)) (rows_of "07" s) &&
  forallb (fun r => okv_in s (op_lookup08 consaddr r)) (rows_of "08" s) &&
  forallb (fun r => existsb (fun r7 => String.eqb (fst (op_rev09 r7)) ("09" ++ fst r)%string) (rows_of "07" s)) (rows_of "09" s) &&
  forallb (fun r => existsb (fun r7 => match op_lookup07 consaddr r7 with Some kv => String.eqb (fst kv) ("0a" ++ fst r)%string | None => false end) (rows_of "07" s)
                 || existsb (fun r8 => match op_lookup08 consaddr r8 with Some kv => String.eqb (fst kv) ("0a" ++ fst r)%string | None => false end) (rows_of "08" s))
          (rows_of "0a" s).

(* an operator registered at time 100 that replaced its key in the current epoch (previous key recorded under 08) *)
Definition ex_operator_wf : mstore :=
  [ (("01" ++ ex_opaddr)%string, VInfo "#info" 100);
    (("05" ++ hexs "exo1/0xavs/slash1")%string, VRaw "#slash");
    (("07" ++ ex_opaddr ++ ex_chain)%string, VRaw "#newkey");
    (("08" ++ ex_chain ++ ex_opaddr)%string, VRaw "#oldkey");
    (("09" ++ ex_chain ++ ex_opaddr)%string, VRaw "#newkey");
    (("0a" ++ ex_chain ++ "30eda29d93a85daf26759096e74f939e8903cb66")%string, VRaw ex_opaddr);
    (("0a" ++ ex_chain ++ "9a010f35bd7270626f934fb382364232a4f0c5e1")%string, VRaw ex_opaddr) ].

(* the hypotheses of the round-trip theorems, evaluated on the states the implementation actually reaches:
   every dump is key-sorted; dogfood states satisfy [dg_wf], delegation states [de_wf], operator states
   [op_info_ok] and - except while a replaced key outlives its 08 record - [op_wf] *)
Definition check_wf (c : case) : option nat :=
  if negb (sortedb (c_before c)) then Some 0%nat
  else if String.eqb (c_module c) "dogfood" then
    (if dg_wf (case_ctx c) (c_consaddr c) (c_before c) then None else Some 1%nat)
  else if String.eqb (c_module c) "delegation" then
    (if de_wf (case_ctx c) (c_aux c) (c_before c) then None else Some 1%nat)
  else if String.eqb (c_module c) "operator" then
    (if op_info_ok (c_before c) then (if op_wf (c_consaddr c) (c_before c) then None else Some 2%nat) else Some 1%nat)
  else None.
