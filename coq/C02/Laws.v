(* C02/Laws.v — pure laws about the GENERATED share kernels (Gen/Kernels.v: TokensFromShares,
   SharesFromTokens), over the whole numeric domain. If share.go changes (Quo -> QuoRoundUp, > -> >=, a
   dropped TruncateInt ...) the regenerated Kernels.v differs and the tie lemmas SFT_ok / TFS_ok /
   TFS_total below stop checking.
   P = 10^18; S = total shares as the scaled integer of the LegacyDec; T = pool amount. *)
From Coq Require Import ZArith Lia Bool String.
From Exo Require Import Base.IntDec Base.IntDec2 Gen.Kernels.
Local Open Scope Z_scope.

(* value N/D rounded the way LegacyDec.Quo (banker's rounding at 10^-18) followed by TruncateInt does *)
Definition g (N D : Z) : Z := chop_round_nn (N * PP / D) / P.

Lemma P_even : Z.even P = true.
Proof. reflexivity. Qed.

Lemma chop_round_nn_shift d : 0 <= d -> chop_round_nn (d + PP) = chop_round_nn d + P.
Proof.
  intros Hd. pose proof P_pos as HP. unfold chop_round_nn, PP. cbv zeta.
  rewrite Z.div_add by lia. rewrite Z.mod_add by lia.
  rewrite Z.even_add, P_even.
  replace (Bool.eqb (Z.even (d / P)) true) with (Z.even (d / P)) by (destruct (Z.even (d / P)); reflexivity).
  repeat match goal with |- context [if ?c then _ else _] => destruct c end; lia.
Qed.

Lemma chop_round_nn_ge_div d : 0 <= d -> d / P <= chop_round_nn d.
Proof.
  intros Hd. unfold chop_round_nn.
  repeat match goal with |- context [if ?c then _ else _] => destruct c end; lia.
Qed.

Lemma g_nonneg N D : 0 <= N -> 0 < D -> 0 <= g N D.
Proof.
  intros HN HD. unfold g. pose proof P_pos. pose proof PP_pos.
  assert (0 <= N * PP / D) by (apply Z.div_pos; nia).
  apply Z.div_pos; [apply chop_round_nn_nonneg; assumption | lia].
Qed.

Lemma g_lower N D : 0 <= N -> 0 < D -> N / D <= g N D.
Proof.
  intros HN HD. unfold g. pose proof P_pos as HP. pose proof PP_pos as HPP.
  assert (Hd : 0 <= N * PP / D) by (apply Z.div_pos; nia).
  apply Z.div_le_lower_bound; [lia|].
  eapply Z.le_trans; [|apply chop_round_nn_ge_div; assumption].
  apply Z.div_le_lower_bound; [lia|].
  apply Z.div_le_lower_bound; [lia|].
  pose proof (Z.mul_div_le N D HD) as H1. unfold PP.
  set (q := N / D) in *. nia.
Qed.

Lemma div_cross_mono N D N' D' : 0 <= N -> 0 < D -> 0 <= N' -> 0 < D' -> N * D' <= N' * D ->
  N * PP / D <= N' * PP / D'.
Proof.
  intros HN HD HN' HD' Hc. pose proof PP_pos as HPP.
  apply Z.div_le_lower_bound; [lia|].
  pose proof (Z.mul_div_le (N * PP) D HD) as H1.
  set (a := N * PP / D) in *.
  assert (Ha : 0 <= a) by (unfold a; apply Z.div_pos; nia).
  (* a*D <= N*PP, so a*D*D' <= N*PP*D' <= N'*PP*D, cancel D *)
  assert (H2 : D * (D' * a) <= D * (N' * PP)) by nia.
  apply Z.mul_le_mono_pos_l in H2; lia.
Qed.

Lemma g_mono N D N' D' : 0 <= N -> 0 < D -> 0 <= N' -> 0 < D' -> N * D' <= N' * D -> g N D <= g N' D'.
Proof.
  intros HN HD HN' HD' Hc. unfold g. pose proof P_pos. pose proof PP_pos.
  apply Z.div_le_mono; [lia|].
  apply chop_round_nn_mono; [apply Z.div_pos; nia|].
  apply div_cross_mono; assumption.
Qed.

Lemma g_shift N D : 0 <= N -> 0 < D -> g (N + D) D = g N D + 1.
Proof.
  intros HN HD. unfold g. pose proof P_pos as HP. pose proof PP_pos as HPP.
  replace ((N + D) * PP) with (N * PP + PP * D) by ring.
  rewrite Z.div_add by lia.
  rewrite chop_round_nn_shift by (apply Z.div_pos; nia).
  replace (chop_round_nn (N * PP / D) + P) with (chop_round_nn (N * PP / D) + 1 * P) by ring.
  rewrite Z.div_add by lia. reflexivity.
Qed.

Lemma g_exact k D : 0 <= k -> 0 < D -> g (k * D) D = k.
Proof.
  intros Hk HD. unfold g. pose proof P_pos as HP.
  replace (k * D * PP) with (k * PP * D) by ring. rewrite Z.div_mul by lia.
  unfold PP. replace (k * (P * P)) with (k * P * P) by ring.
  rewrite chop_round_nn_exact by nia. apply Z.div_mul. lia.
Qed.

Lemma g_upper N D k : 0 <= N -> 0 < D -> 0 <= k -> N <= k * D -> g N D <= k.
Proof.
  intros HN HD Hk H. rewrite <- (g_exact k D) by assumption.
  apply g_mono; try lia; nia.
Qed.

(* v' <= v + 1 (as rationals) gives at most one more unit; v <= v' gives no fewer *)
Lemma g_plus_one N D N' D' : 0 <= N -> 0 < D -> 0 <= N' -> 0 < D' -> N' * D <= (N + D) * D' ->
  g N' D' <= g N D + 1.
Proof.
  intros. rewrite <- g_shift by assumption. apply g_mono; try lia.
Qed.

(* ---------------- tie to the generated kernels ---------------- *)

Lemma SFT_ok S x T sh : SharesFromTokens S x T = KOk sh -> 0 <= S -> 0 <= x -> 0 < T -> sh = S * x / T.
Proof.
  intros H HS Hx HT. unfold SharesFromTokens in H.
  destruct (T =? 0) eqn:E0; [apply Z.eqb_eq in E0; lia|].
  cbv zeta in H.
  destruct (negb (dec_ok (dec_mul_int S x))); [cbv iota in H; discriminate|].
  cbv iota in H. injection H as H; subst. unfold dec_quo_int, dec_mul_int. apply quot_nonneg_div; nia.
Qed.

Lemma SFT_empty S x sh : SharesFromTokens S x 0 = KOk sh -> sh = 0 /\ S = 0.
Proof.
  unfold SharesFromTokens. simpl. destruct (S =? 0) eqn:E; [|discriminate].
  intros H. injection H as H; subst. apply Z.eqb_eq in E. auto.
Qed.

Lemma SFT_total S x T : 0 <= S -> 0 <= x -> 0 < T -> S * x < 2 ^ 315 ->
  SharesFromTokens S x T = KOk (S * x / T).
Proof.
  intros HS Hx HT Hr. unfold SharesFromTokens.
  destruct (T =? 0) eqn:E0; [apply Z.eqb_eq in E0; lia|].
  cbv zeta. unfold dec_ok, dec_mul_int.
  assert (E : Z.abs (S * x) <? 2 ^ 315 = true) by (apply Z.ltb_lt; rewrite Z.abs_eq by nia; assumption).
  rewrite E. simpl negb. cbv iota.
  unfold dec_quo_int. rewrite quot_nonneg_div by nia. reflexivity.
Qed.

Lemma TFS_ok sh S T t : TokensFromShares sh S T = KOk t -> 0 <= sh -> 0 < S -> 0 <= T ->
  t = g (sh * T) S /\ sh <= S.
Proof.
  intros H Hsh HS HT. unfold TokensFromShares in H.
  destruct (sh >? S) eqn:E1; [cbv iota in H; discriminate|].
  destruct (S =? 0) eqn:E2; [apply Z.eqb_eq in E2; lia|].
  cbv zeta in H.
  destruct (negb (dec_ok (dec_mul_int sh T))); [cbv iota in H; discriminate|].
  cbv iota in H.
  destruct (negb (dec_ok (dec_quo (dec_mul_int sh T) S))); [cbv iota in H; discriminate|].
  destruct (negb (int_ok (dec_trunc_int (dec_quo (dec_mul_int sh T) S)))); [cbv iota in H; discriminate|].
  injection H as H; subst. split.
  - unfold g, dec_trunc_int, dec_quo, dec_mul_int. pose proof PP_pos. pose proof P_pos.
    rewrite (quot_nonneg_div (sh * T * PP) S) by nia.
    assert (0 <= sh * T * PP / S) by (apply Z.div_pos; nia).
    rewrite chop_round_nonneg_eq by assumption.
    apply quot_nonneg_div; [apply chop_round_nn_nonneg; assumption | lia].
  - rewrite Z.gtb_ltb in E1. apply Z.ltb_ge in E1. assumption.
Qed.

Lemma TFS_empty sh t : TokensFromShares sh 0 0 = KOk t -> sh <= 0 -> t = 0.
Proof.
  unfold TokensFromShares. intros H _. destruct (sh >? 0); [cbv iota in H; discriminate|].
  simpl in H. injection H as H. subst. reflexivity.
Qed.

Lemma pow2_315_250 : 2 ^ 250 * P + 1 < 2 ^ 315.
Proof. unfold P. lia. Qed.

(* inside the guards the conversion is total: no error, no panic (breaks if > becomes >=) *)
Lemma TFS_total sh S T : 0 <= sh <= S -> 0 < S -> 0 <= T -> sh * T < 2 ^ 315 -> T < 2 ^ 250 ->
  TokensFromShares sh S T = KOk (g (sh * T) S).
Proof.
  intros [Hsh HshS] HS HT Hr HT2. pose proof P_pos as HP. pose proof PP_pos as HPP.
  assert (Hg : g (sh * T) S <= T) by (apply g_upper; nia).
  assert (Hg0 : 0 <= g (sh * T) S) by (apply g_nonneg; nia).
  unfold TokensFromShares.
  destruct (sh >? S) eqn:E1; [rewrite Z.gtb_ltb in E1; apply Z.ltb_lt in E1; lia|].
  destruct (S =? 0) eqn:E2; [apply Z.eqb_eq in E2; lia|].
  cbv zeta.
  assert (Ed : dec_quo (dec_mul_int sh T) S = chop_round_nn (sh * T * PP / S)).
  { unfold dec_quo, dec_mul_int. rewrite (quot_nonneg_div (sh * T * PP) S) by nia.
    apply chop_round_nonneg_eq. apply Z.div_pos; nia. }
  assert (Hd0 : 0 <= sh * T * PP / S) by (apply Z.div_pos; nia).
  assert (Hc0 : 0 <= chop_round_nn (sh * T * PP / S)) by (apply chop_round_nn_nonneg; assumption).
  assert (Et : dec_trunc_int (chop_round_nn (sh * T * PP / S)) = g (sh * T) S).
  { unfold dec_trunc_int, g. apply quot_nonneg_div; lia. }
  (* bound of the chopped quotient: d <= T*PP, chop d <= T*P *)
  assert (Hdle : sh * T * PP / S <= T * P * P).
  { apply Z.div_le_upper_bound; [lia|]. unfold PP. nia. }
  assert (Hcle : chop_round_nn (sh * T * PP / S) <= T * P).
  { rewrite <- (chop_round_nn_exact (T * P)) by nia. apply chop_round_nn_mono; lia. }
  pose proof pow2_315_250 as Hp.
  assert (G1 : dec_ok (dec_mul_int sh T) = true).
  { unfold dec_ok, dec_mul_int. apply Z.ltb_lt. rewrite Z.abs_eq by nia. assumption. }
  assert (G2 : dec_ok (chop_round_nn (sh * T * PP / S)) = true).
  { unfold dec_ok. apply Z.ltb_lt. rewrite Z.abs_eq by lia.
    assert (T * P <= 2 ^ 250 * P) by nia. lia. }
  assert (G3 : int_ok (g (sh * T) S) = true).
  { unfold int_ok. apply Z.ltb_lt. rewrite Z.abs_eq by lia.
    assert (2 ^ 250 < 2 ^ 256) by lia. lia. }
  rewrite G1. simpl negb. cbv iota. rewrite Ed, G2. simpl negb. cbv iota. rewrite Et, G3. reflexivity.
Qed.

(* ---------------- the laws ---------------- *)

(* mint never over-issues, and under-issues by less than one "token's worth" of shares *)
Lemma mint_never_over_issues S x T sh : SharesFromTokens S x T = KOk sh -> 0 <= S -> 0 <= x -> 0 < T ->
  sh * T <= S * x /\ S * x - T < sh * T /\ 0 <= sh.
Proof.
  intros H HS Hx HT. apply SFT_ok in H; try assumption. subst sh.
  pose proof (Z.mul_div_le (S * x) T HT). pose proof (Z.mul_succ_div_gt (S * x) T HT).
  assert (0 <= S * x / T) by (apply Z.div_pos; nia). nia.
Qed.

(* redeemed tokens lie between floor and ceiling of the exact value and never exceed the pool *)
Lemma tokens_bounds sh S T t : TokensFromShares sh S T = KOk t -> 0 <= sh -> 0 < S -> 0 <= T ->
  sh * T / S <= t /\ (forall k, 0 <= k -> sh * T <= k * S -> t <= k) /\ t <= T /\ 0 <= t.
Proof.
  intros H Hsh HS HT. apply TFS_ok in H; try assumption. destruct H as [-> Hle].
  repeat split.
  - apply g_lower; nia.
  - intros k Hk Hb. apply g_upper; nia.
  - apply g_upper; nia.
  - apply g_nonneg; nia.
Qed.

(* first delegation: CalculateShare issues dec_of_int x shares into the empty pool; redeeming them returns x *)
Lemma first_delegation_redeem x t : 0 < x -> TokensFromShares (dec_of_int x) (dec_of_int x) x = KOk t -> t = x.
Proof.
  intros Hx H. pose proof P_pos. unfold dec_of_int in H.
  apply TFS_ok in H; try nia. destruct H as [-> _].
  replace (x * P * x) with (x * (x * P)) by ring. apply g_exact; nia.
Qed.

(* delegate x into (S,T), then redeem exactly the minted shares from (S+sh, T+x) *)
Lemma round_trip_upper S T x sh t : 0 < S -> 0 < T -> 0 < x ->
  SharesFromTokens S x T = KOk sh -> TokensFromShares sh (S + sh) (T + x) = KOk t -> t <= x.
Proof.
  intros HS HT Hx H1 H2.
  apply mint_never_over_issues in H1; try lia. destruct H1 as (Hle & Hgt & Hsh).
  apply TFS_ok in H2; try lia. destruct H2 as [-> _].
  apply g_upper; nia.
Qed.

Definition rate_ok (S T : Z) : bool := T <=? S.   (* pool amount <= 10^18 * share total *)

Lemma round_trip_lower S T x sh t : 0 < S -> 0 < T -> 0 < x -> rate_ok S T = true ->
  SharesFromTokens S x T = KOk sh -> TokensFromShares sh (S + sh) (T + x) = KOk t -> x - 1 <= t.
Proof.
  intros HS HT Hx Hr H1 H2. unfold rate_ok in Hr. apply Z.leb_le in Hr.
  apply mint_never_over_issues in H1; try lia. destruct H1 as (Hle & Hgt & Hsh).
  apply TFS_ok in H2; try lia. destruct H2 as [-> _].
  eapply Z.le_trans; [|apply g_lower; nia].
  apply Z.div_le_lower_bound; [lia|]. nia.
Qed.

(* B holds shB; A delegates x: B's redeemable value never decreases and grows by at most one unit *)
Lemma bystander_delegate S T x sh shB b b' : 0 < S -> 0 < T -> rate_ok S T = true -> 0 < x -> 0 <= shB <= S ->
  SharesFromTokens S x T = KOk sh -> TokensFromShares shB S T = KOk b ->
  TokensFromShares shB (S + sh) (T + x) = KOk b' -> b <= b' <= b + 1.
Proof.
  intros HS HT Hr Hx [HB0 HB] H1 H2 H3. unfold rate_ok in Hr. apply Z.leb_le in Hr.
  apply mint_never_over_issues in H1; try lia. destruct H1 as (Hle & Hgt & Hsh).
  apply TFS_ok in H2; try lia. destruct H2 as [-> _].
  apply TFS_ok in H3; try lia. destruct H3 as [-> _].
  split.
  - apply g_mono; try nia.
  - (* shB*(T+x)*S <= (shB*T + S)*(S+sh)  from  x*S <= T*sh + T - 1, shB <= S, T - 1 <= S *)
    assert (A1 : shB * (x * S) <= shB * (sh * T + T - 1)) by (apply Z.mul_le_mono_nonneg_l; lia).
    assert (A2 : shB * (T - 1) <= S * S) by nia.
    apply g_plus_one; [nia | lia | nia | lia | nia].
Qed.

(* B holds shB; A removes r shares (not the last ones) and receives out: B's value moves by at most one unit *)
Lemma bystander_undelegate S T r out shB b b' : 0 < S -> 0 <= T -> 0 < r -> 0 < shB -> shB + r <= S ->
  TokensFromShares r S T = KOk out -> TokensFromShares shB S T = KOk b ->
  TokensFromShares shB (S - r) (T - out) = KOk b' -> b - 1 <= b' <= b + 1 /\ 0 <= out <= T.
Proof.
  intros HS HT Hr HB0 HB H1 H2 H3.
  pose proof (tokens_bounds _ _ _ _ H1 ltac:(lia) HS HT) as (Hlo & Hup & HoT & Ho0).
  (* out*S > r*T - S  and  out*S <= r*T + S *)
  assert (L1 : r * T - S < out * S).
  { pose proof (Z.mul_succ_div_gt (r * T) S HS). nia. }
  assert (L2 : out * S <= r * T + S).
  { assert (Hk : out <= r * T / S + 1).
    { apply Hup; [assert (0 <= r * T / S) by (apply Z.div_pos; nia); lia|].
      pose proof (Z.mul_succ_div_gt (r * T) S HS). nia. }
    pose proof (Z.mul_div_le (r * T) S HS). nia. }
  apply TFS_ok in H2; try lia. destruct H2 as [-> _].
  apply TFS_ok in H3; try lia. destruct H3 as [-> _].
  split; [|lia]. split.
  - (* b <= b' + 1 *)
    assert (g (shB * T) S <= g (shB * (T - out)) (S - r) + 1); [|lia].
    assert (A : shB * (out * S - r * T) <= (S - r) * S) by nia.
    apply g_plus_one; [nia | lia | nia | lia | nia].
  - assert (A : shB * (r * T - out * S) <= (S - r) * S) by nia.
    apply g_plus_one; [nia | lia | nia | lia | nia].
Qed.

(* ---------------- witnesses ---------------- *)

(* the guard of round_trip_lower is needed: with fewer share units than tokens a delegator loses more than one unit *)
Lemma round_trip_lower_needs_guard :
  exists S T x sh t, 0 < S /\ 0 < T /\ 0 < x /\ rate_ok S T = false /\
    SharesFromTokens S x T = KOk sh /\ TokensFromShares sh (S + sh) (T + x) = KOk t /\ t < x - 1.
Proof.
  exists 1, 1000, 1500, 1, 1250. vm_compute. repeat split; reflexivity.
Qed.

(* banker's rounding: removing all but one unit (10^-18) of the shares takes the WHOLE pool *)
Lemma rounding_takes_whole_pool : TokensFromShares (4 * P - 1) (4 * P) 2 = KOk 2.
Proof. vm_compute. reflexivity. Qed.

Example SFT_example : SharesFromTokens (3 * P) 7 2 = KOk 10500000000000000000.
Proof. vm_compute. reflexivity. Qed.

Example TFS_example : TokensFromShares (3 * P) (7 * P) 1000003 = KOk 428572.
Proof. vm_compute. reflexivity. Qed.

