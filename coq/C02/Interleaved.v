(* C02/Interleaved.v — fairness over histories: the round-trip bound across INTERLEAVED operations of other stakers.
   A holds shA shares of a pool (S, T); other stakers delegate (FDel y) and undelegate (FUnd r, only their own shares:
   shA + r <= S) any number of times, no slash. Every such foreign operation moves the redeemable value of A's shares by
   at most one base unit (delegations never lower it), so after the list fs the value lies in
   [b - #undelegations, b + #operations]; combined with the immediate round trip: a staker who delegated x gets back
   between x - 1 - #foreign undelegations and x + #foreign operations. (An upper bound of exactly x does NOT hold across
   interleaving: the rounding losses of the others accrue to the pool, i.e. also to A.)
   All statements are about the GENERATED kernels (pstep calls SharesFromTokens / TokensFromShares). *)
From Coq Require Import List ZArith Lia Bool String.
From Exo Require Import Base.IntDec Base.IntDec2 Gen.Kernels C02.Laws.
Import ListNotations.
Local Open Scope Z_scope.

Lemma gb_delegate S T x shB : 0 < S -> 0 < T -> T <= S -> 0 < x -> 0 <= shB <= S ->
  g (shB * T) S <= g (shB * (T + x)) (S + S * x / T) <= g (shB * T) S + 1.
Proof.
  intros HS HT Hr Hx [HB0 HB].
  pose proof (Z.mul_div_le (S * x) T HT) as Hle. pose proof (Z.mul_succ_div_gt (S * x) T HT) as Hgt.
  assert (Hsh : 0 <= S * x / T) by (apply Z.div_pos; nia).
  set (sh := S * x / T) in *.
  split.
  - apply g_mono; try nia.
  - assert (A1 : shB * (x * S) <= shB * (sh * T + T - 1)) by (apply Z.mul_le_mono_nonneg_l; nia).
    assert (A2 : shB * (T - 1) <= S * S) by nia.
    apply g_plus_one; [nia | lia | nia | lia | nia].
Qed.

Lemma gb_undelegate S T r shB : 0 < S -> 0 <= T -> 0 < r -> 0 < shB -> shB + r <= S ->
  g (shB * T) S - 1 <= g (shB * (T - g (r * T) S)) (S - r) <= g (shB * T) S + 1 /\ 0 <= g (r * T) S <= T.
Proof.
  intros HS HT Hr HB0 HB.
  assert (Hlo : r * T / S <= g (r * T) S) by (apply g_lower; nia).
  assert (HoT : g (r * T) S <= T) by (apply g_upper; nia).
  assert (Ho0 : 0 <= g (r * T) S) by (apply g_nonneg; nia).
  set (out := g (r * T) S) in *.
  assert (L1 : r * T - S < out * S) by (pose proof (Z.mul_succ_div_gt (r * T) S HS); nia).
  assert (L2 : out * S <= r * T + S).
  { assert (Hk : out <= r * T / S + 1).
    { apply g_upper; try nia. assert (0 <= r * T / S) by (apply Z.div_pos; nia). lia.
      pose proof (Z.mul_succ_div_gt (r * T) S HS). nia. }
    pose proof (Z.mul_div_le (r * T) S HS). nia. }
  split; [|lia]. split.
  - assert (g (shB * T) S <= g (shB * (T - out)) (S - r) + 1); [|lia].
    assert (A : shB * (out * S - r * T) <= (S - r) * S) by nia.
    apply g_plus_one; [nia | lia | nia | lia | nia].
  - assert (A : shB * (r * T - out * S) <= (S - r) * S) by nia.
    apply g_plus_one; [nia | lia | nia | lia | nia].
Qed.

(* pool-level foreign operations *)
Inductive fop := FDel (y : Z) | FUnd (r : Z).

Definition pstep (shA : Z) (p : Z * Z) (f : fop) : option (Z * Z) :=
  let tS := fst p in let tT := snd p in
  match f with
  | FDel y => if 0 <? y then match SharesFromTokens tS y tT with KOk sh => Some (tS + sh, tT + y) | _ => None end else None
  | FUnd r => if (0 <? r) && (shA + r <=? tS)
              then match TokensFromShares r tS tT with KOk out => Some (tS - r, tT - out) | _ => None end else None
  end.

Fixpoint prun (shA : Z) (p : Z * Z) (fs : list fop) : option (Z * Z) :=
  match fs with
  | [] => Some p
  | f :: r => match pstep shA p f with Some p' => prun shA p' r | None => None end
  end.

Definition count_und (fs : list fop) : Z :=
  fold_right (fun f n => match f with FUnd _ => n + 1 | FDel _ => n end) 0 fs.

Lemma count_und_nonneg fs : 0 <= count_und fs.
Proof. induction fs as [|[y|r] t IH]; simpl; lia. Qed.

Lemma pstep_bound shA S T f S' T' : 0 < shA <= S -> 0 <= T <= S -> pstep shA (S, T) f = Some (S', T') ->
  (0 < shA <= S' /\ 0 <= T' <= S') /\
  g (shA * T) S - (match f with FUnd _ => 1 | FDel _ => 0 end) <= g (shA * T') S' <= g (shA * T) S + 1.
Proof.
  intros [HA0 HA] [HT0 HTS] H. unfold pstep in H. simpl fst in H. simpl snd in H. destruct f as [y|r].
  - destruct (0 <? y) eqn:Ey; [|discriminate]. apply Z.ltb_lt in Ey.
    destruct (SharesFromTokens S y T) as [sh| |] eqn:E; try discriminate. injection H as <- <-.
    destruct (Z.eq_dec T 0) as [Z0|NZ].
    { subst T. apply SFT_empty in E. lia. }
    apply SFT_ok in E; try lia. subst sh.
    pose proof (gb_delegate S T y shA ltac:(lia) ltac:(lia) HTS Ey ltac:(lia)) as B.
    assert (y <= S * y / T) by (apply Z.div_le_lower_bound; nia).
    replace (shA * (T + y)) with (shA * (T + y)) by ring. split; [lia|lia].
  - destruct ((0 <? r) && (shA + r <=? S)) eqn:Ec; [|discriminate].
    apply andb_true_iff in Ec. destruct Ec as [Er Es]. apply Z.ltb_lt in Er. apply Z.leb_le in Es.
    destruct (TokensFromShares r S T) as [out| |] eqn:E; try discriminate. injection H as <- <-.
    apply TFS_ok in E; try lia. destruct E as [-> _].
    pose proof (gb_undelegate S T r shA ltac:(lia) HT0 Er HA0 Es) as [B [Bo0 BoT]].
    assert (Lq : r * T / S <= g (r * T) S) by (apply g_lower; nia).
    assert (L2 : r - (S - T) <= r * T / S) by (apply Z.div_le_lower_bound; nia).
    split; [lia|lia].
Qed.

Theorem interleaved_value_drift shA : forall fs S T S' T', 0 < shA <= S -> 0 <= T <= S ->
  prun shA (S, T) fs = Some (S', T') ->
  g (shA * T) S - count_und fs <= g (shA * T') S' <= g (shA * T) S + Z.of_nat (List.length fs).
Proof.
  induction fs as [|f r IH]; intros S T S' T' HA HT H.
  - simpl in H. injection H as <- <-. simpl. lia.
  - simpl in H. destruct (pstep shA (S, T) f) as [[S1 T1]|] eqn:E; [|discriminate].
    destruct (pstep_bound shA S T f S1 T1 HA HT E) as [[HA1 HT1] B].
    specialize (IH S1 T1 S' T' HA1 HT1 H).
    change (count_und (f :: r)) with (match f with FUnd _ => count_und r + 1 | FDel _ => count_und r end).
    simpl List.length. rewrite Nat2Z.inj_succ.
    destruct f; lia.
Qed.

(* in terms of the generated kernel at both ends *)
Theorem interleaved_bystander shA fs S T S' T' b b' : 0 < shA <= S -> 0 <= T <= S ->
  prun shA (S, T) fs = Some (S', T') ->
  TokensFromShares shA S T = KOk b -> TokensFromShares shA S' T' = KOk b' ->
  b - count_und fs <= b' <= b + Z.of_nat (List.length fs).
Proof.
  intros HA HT H Hb Hb'.
  pose proof (interleaved_value_drift shA fs S T S' T' HA HT H) as D.
  assert (I : (0 < shA <= S' /\ 0 <= T' <= S')).
  { clear Hb Hb' D. revert S T HA HT H. induction fs as [|f r IH]; intros S T HA HT H.
    - simpl in H. injection H as <- <-. auto.
    - simpl in H. destruct (pstep shA (S, T) f) as [[S1 T1]|] eqn:E; [|discriminate].
      destruct (pstep_bound shA S T f S1 T1 HA HT E) as [[HA1 HT1] _]. eapply IH; eauto. }
  pose proof (TFS_ok _ _ _ _ Hb ltac:(lia) ltac:(lia) ltac:(lia)) as [Eb _].
  pose proof (TFS_ok _ _ _ _ Hb' ltac:(lia) ltac:(lia) ltac:(lia)) as [Eb' _].
  subst b b'. exact D.
Qed.

(* the round trip across interleaved foreign operations *)
Theorem round_trip_interleaved S T x sh fs S' T' t : 0 < S -> 0 < T -> T <= S -> 0 < x ->
  SharesFromTokens S x T = KOk sh ->
  prun sh (S + sh, T + x) fs = Some (S', T') ->
  TokensFromShares sh S' T' = KOk t ->
  x - 1 - count_und fs <= t <= x + Z.of_nat (List.length fs).
Proof.
  intros HS HT Hr Hx Hm Hrun Ht.
  pose proof (mint_never_over_issues _ _ _ _ Hm ltac:(lia) ltac:(lia) HT) as (Hle & Hgt & Hsh0).
  pose proof Hm as Hm'. apply SFT_ok in Hm'; try lia.
  assert (Hshx : x <= sh) by (subst sh; apply Z.div_le_lower_bound; nia).
  assert (HA : 0 < sh <= S + sh) by lia.
  assert (HT' : 0 <= T + x <= S + sh) by lia.
  pose proof (interleaved_value_drift sh fs (S + sh) (T + x) S' T' HA HT' Hrun) as D.
  assert (I : (0 < sh <= S' /\ 0 <= T' <= S')).
  { clear Ht D. revert HA HT' Hrun. generalize (S + sh) (T + x). induction fs as [|f r IH]; intros S1 T1 HA HT1 H.
    - simpl in H. injection H as <- <-. auto.
    - simpl in H. destruct (pstep sh (S1, T1) f) as [[S2 T2]|] eqn:E; [|discriminate].
      destruct (pstep_bound sh S1 T1 f S2 T2 HA HT1 E) as [[HA2 HT2] _]. eapply IH; eauto. }
  pose proof (TFS_ok _ _ _ _ Ht ltac:(lia) ltac:(lia) ltac:(lia)) as [Et _]. subst t.
  (* the immediate round trip, in g form *)
  assert (U : g (sh * (T + x)) (S + sh) <= x) by (apply g_upper; nia).
  assert (L : x - 1 <= g (sh * (T + x)) (S + sh)).
  { eapply Z.le_trans; [|apply g_lower; nia]. apply Z.div_le_lower_bound; [lia|]. nia. }
  lia.
Qed.

(* non-vacuity: a concrete interleaving on a skewed pool (2 shares per token after a 50 % slash); all the original
   holders leave in between and A still redeems its 97 units *)
Definition interleaved_example_run : kres Z :=
  let S := 2000006 * P in let T := 1000003 in let x := 97 in
  match SharesFromTokens S x T with
  | KOk sh =>
      match prun sh (S + sh, T + x) [FDel 7; FUnd (3 * P); FDel 1000003; FUnd (2000006 * P)] with
      | Some p' => TokensFromShares sh (fst p') (snd p')
      | None => KErr "prun"
      end
  | r => r
  end.

Example interleaved_example : interleaved_example_run = KOk 97.
Proof. vm_compute. reflexivity. Qed.
