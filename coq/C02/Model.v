(* C02/Model.v — executable model of the share ledger of x/delegation + x/assets (operator pools).
   Transcribed from x/delegation/keeper/{share.go,delegation.go,delegation_state.go},
   x/assets/keeper/{operator_asset.go,bank.go}, x/assets/types/general.go (UpdateAssetValue/UpdateAssetDecValue),
   x/operator/keeper/slash.go (SlashAssets, pool part). The share<->token conversions are NOT restated here:
   the model calls the GENERATED kernels of Gen/Kernels.v.
   Every operation is atomic (the harness runs each keeper call in a cache context that is committed only when
   the call returns nil — what baseapp does for a message); an operation that fails leaves the state unchanged.
   Amounts are Z; LegacyDec shares are the scaled integers (10^-18 units). No proofs here. *)
From Coq Require Import List String Ascii Bool ZArith Lia.
From Exo Require Import Base.IntDec Base.IntDec2 Base.Util Gen.Kernels.
Import ListNotations.
Local Open Scope Z_scope.
Local Open Scope list_scope.

(* ---------- finite maps as association lists (update in place or append) ---------- *)
Section Assoc.
  Context {K V : Type} (keq : K -> K -> bool).
  Fixpoint aget (l : list (K * V)) (k : K) : option V :=
    match l with
    | [] => None
    | (k', v) :: r => if keq k k' then Some v else aget r k
    end.
  Fixpoint aset (l : list (K * V)) (k : K) (v : V) : list (K * V) :=
    match l with
    | [] => [(k, v)]
    | (k', v') :: r => if keq k k' then (k, v) :: r else (k', v') :: aset r k v
    end.
  Fixpoint adel (l : list (K * V)) (k : K) : list (K * V) :=
    match l with
    | [] => []
    | (k', v') :: r => if keq k k' then adel r k else (k', v') :: adel r k
    end.
End Assoc.

Definition k2 := (string * string)%type.
Definition k3 := (string * string * string)%type.
Definition k2_eqb (a b : k2) : bool := String.eqb (fst a) (fst b) && String.eqb (snd a) (snd b).
Definition k3_eqb (a b : k3) : bool :=
  String.eqb (fst (fst a)) (fst (fst b)) && String.eqb (snd (fst a)) (snd (fst b)) && String.eqb (snd a) (snd b).

(* ---------- state ---------- *)
Record pool := mkPool { p_amt : Z; p_tot : Z; p_op : Z }.   (* TotalAmount, TotalShare, OperatorShare *)
Definition pool0 := mkPool 0 0 0.

Record state := mkSt {
  st_pools : list (k2 * pool);          (* (operator, asset) -> OperatorAssetInfo *)
  st_rows  : list (k3 * Z);             (* (staker, asset, operator) -> UndelegatableShare *)
  st_lists : list (k2 * list string);   (* (operator, asset) -> StakerList *)
  st_assoc : list (string * string);    (* staker -> associated operator *)
  st_free  : list (k2 * Z)              (* (staker, asset) -> WithdrawableAmount *)
}.

Definition pool_of (s : state) (o a : string) : pool :=
  match aget k2_eqb (st_pools s) (o, a) with Some p => p | None => pool0 end.
Definition share_of (s : state) (st a o : string) : Z :=
  match aget k3_eqb (st_rows s) (st, a, o) with Some x => x | None => 0 end.
Definition list_of (s : state) (o a : string) : list string :=
  match aget k2_eqb (st_lists s) (o, a) with Some l => l | None => [] end.
Definition assoc_of (s : state) (st : string) : option string := aget String.eqb (st_assoc s) st.
Definition free_of (s : state) (st a : string) : Z :=
  match aget k2_eqb (st_free s) (st, a) with Some x => x | None => 0 end.

Definition is_assoc (s : state) (st o : string) : bool :=
  match assoc_of s st with Some o' => String.eqb o' o | None => false end.

(* ---------- operations ---------- *)
Inductive op :=
| Deposit (st a : string) (amt : Z)
| Delegate (st a o : string) (amt : Z)
| Undelegate (st a o : string) (amt : Z)
| Associate (chain_ok : bool) (st o : string)     (* chain_ok: ClientChainExists, decided outside the ledger *)
| Dissociate (st : string)
| Slash (o : string) (prop : Z)                   (* prop: the proportion SlashAssets applied (LegacyDec, scaled) *)
| NstBalance (st a : string) (x pend dep : Z).    (* UpdateNSTBalance(staker, asset, x); pend, dep: see do_nst_balance *)

Inductive result := ROk | RErr | RPanic.   (* RPanic: the keeper call panicked (a 315/256-bit guard of cosmossdk.io/math inside a
                                              share conversion, see op_panics); the state is unchanged: the cache context is dropped *)
Definition result_eqb (a b : result) : bool :=
  match a, b with ROk, ROk | RErr, RErr | RPanic, RPanic => true | _, _ => false end.

Fixpoint mem (x : string) (l : list string) : bool :=
  match l with [] => false | y :: r => String.eqb x y || mem x r end.

(* DeleteStakerForOperator: remove the first occurrence *)
Fixpoint remove_first (x : string) (l : list string) : list string :=
  match l with [] => [] | y :: r => if String.eqb x y then r else y :: remove_first x r end.

(* IterateDelegationsForStaker(stakerID): KVStorePrefixIterator over keys staker/asset/operator with the
   prefix stakerID — WITHOUT the trailing "/" (delegation_state.go) *)
Definition row_key (k : k3) : string :=
  (fst (fst k) ++ "/" ++ snd (fst k) ++ "/" ++ snd k)%string.
(* IterateDelegationsForStaker: prefix scan with stakerID ++ "/" (the delimiter was added by the
   "fix: delimit the staker ID" repair; before it the scan used the bare stakerID) *)
Definition scan_hit (stakerID : string) (k : k3) : bool := String.prefix (stakerID ++ "/") (row_key k).

(* CalculateShare *)
Definition calc_share (p : pool) (amt : Z) : kres Z :=
  if p_tot p =? 0 then KOk (dec_of_int amt) else SharesFromTokens (p_tot p) amt (p_amt p).

Definition do_delegate (ops : list string) (s : state) (st a o : string) (amt : Z) : option state :=
  if negb (amt >? 0) then None
  else if negb (mem o ops) then None
  else if free_of s st a <? amt then None
  else
    let p := pool_of s o a in
    match calc_share p amt with
    | KOk sh =>
        let p' := mkPool (p_amt p + amt) (p_tot p + sh) (if is_assoc s st o then p_op p + sh else p_op p) in
        let l := list_of s o a in
        Some (mkSt (aset k2_eqb (st_pools s) (o, a) p')
                   (aset k3_eqb (st_rows s) (st, a, o) (share_of s st a o + sh))
                   (aset k2_eqb (st_lists s) (o, a) (if mem st l then l else l ++ [st]))
                   (st_assoc s)
                   (aset k2_eqb (st_free s) (st, a) (free_of s st a - amt)))
    | _ => None
    end.

(* ValidateUndelegationAmount *)
Definition validate_undelegation (s : state) (st a o : string) (amt : Z) : option Z :=
  match aget k3_eqb (st_rows s) (st, a, o), aget k2_eqb (st_pools s) (o, a) with
  | Some mine, Some p =>
      match SharesFromTokens (p_tot p) amt (p_amt p), SharesFromTokens (p_tot p) 1 (p_amt p) with
      | KOk sh, KOk tol =>
          if sh >? mine then
            (* repair 56b99a6: a request within the reported position whose converted share exceeds the staker's share
               (rounding dust) is an undelegation of the whole position *)
            match TokensFromShares mine (p_tot p) (p_amt p) with
            | KOk position => if amt >? position then None else Some mine
            | _ => None
            end
          else Some (if mine - sh <? tol then mine else sh)
      | _, _ => None
      end
  | _, _ => None
  end.

(* RemoveShareFromOperator: token amount removed for [sh] shares *)
Definition removed_tokens (p : pool) (sh : Z) : kres Z :=
  if p_tot p =? sh then KOk (p_amt p) else TokensFromShares sh (p_tot p) (p_amt p).

(* RemoveShare (the isUndelegation flag only steers fields outside this model: pending-undelegation amounts) *)
Definition do_remove_share (s : state) (st a o : string) (sh : Z) : option state :=
  if negb (sh >? 0) then None
  else
    let p := pool_of s o a in
    if sh >? p_tot p then None
    else match removed_tokens p sh with
         | KOk tok =>
             if p_amt p <? tok then None                                  (* UpdateAssetValue *)
             else if is_assoc s st o && (p_op p <? sh) then None          (* UpdateAssetDecValue *)
             else
               let p' := mkPool (p_amt p - tok) (p_tot p - sh) (if is_assoc s st o then p_op p - sh else p_op p) in
               let mine' := share_of s st a o - sh in
               if mine' <? 0 then None
               else
                 let rows' := aset k3_eqb (st_rows s) (st, a, o) mine' in
                 let pools' := aset k2_eqb (st_pools s) (o, a) p' in
                 if mine' =? 0 then
                   match aget k2_eqb (st_lists s) (o, a) with
                   | None => None                                          (* ErrNoKeyInTheStore *)
                   | Some l => Some (mkSt pools' rows' (aset k2_eqb (st_lists s) (o, a) (remove_first st l))
                                          (st_assoc s) (st_free s))
                   end
                 else Some (mkSt pools' rows' (st_lists s) (st_assoc s) (st_free s))
         | _ => None
         end.

Definition do_undelegate (ops : list string) (s : state) (st a o : string) (amt : Z) : option state :=
  if negb (amt >? 0) then None
  else if negb (mem o ops) then None
  else
    match validate_undelegation s st a o amt with
    | None => None
    | Some sh => do_remove_share s st a o sh
    end.

(* ---- UpdateNSTBalance (update_native_restaking_balance.go) ---- *)
(* the delegation rows of (staker, asset): (operator, share) *)
Definition staker_rows (s : state) (st a : string) : list (string * Z) :=
  flat_map (fun kv : k3 * Z => if String.eqb (fst (fst (fst kv))) st && String.eqb (snd (fst (fst kv))) a
                               then [(snd (fst kv), snd kv)] else []) (st_rows s).

(* TotalDelegatedAmountForStakerAsset *)
Fixpoint total_delegated (s : state) (a : string) (rs : list (string * Z)) : option Z :=
  match rs with
  | [] => Some 0
  | (o, sh) :: r =>
      if sh =? 0 then total_delegated s a r
      else match aget k2_eqb (st_pools s) (o, a) with
           | None => None
           | Some p => match TokensFromShares sh (p_tot p) (p_amt p), total_delegated s a r with
                       | KOk v, Some t => Some (v + t)
                       | _, _ => None
                       end
           end
  end.

(* the closure over the delegations: RemoveShare(isUndelegation = false) of share.Mul(proportion) for every row, then
   TotalDepositAmount -= the removed tokens (an underflow is an error); [dep] = the running TotalDepositAmount *)
Fixpoint nst_fold (prop : Z) (st a : string) (rs : list (string * Z)) (dep : Z) (s : state) : option state :=
  match rs with
  | [] => Some s
  | (o, sh) :: r =>
      match removed_tokens (pool_of s o a) (dec_mul sh prop), do_remove_share s st a o (dec_mul sh prop) with
      | KOk tok, Some s' => if dep <? tok then None else nst_fold prop st a r (dep - tok) s'
      | _, _ => None
      end
  end.

Definition set_free (s : state) (st a : string) (v : Z) : state :=
  mkSt (st_pools s) (st_rows s) (st_lists s) (st_assoc s) (aset k2_eqb (st_free s) (st, a) v).

(* [pend] = sum of ActualCompletedAmount of the staker's pending undelegations of the asset, [dep] = the staker's
   TotalDepositAmount of the asset before the call (undelegation records and the staker-asset ledger are outside this
   model — they are C03's / C01's; both are observed by the harness before the call) *)
Definition do_nst_balance (s : state) (st a : string) (x pend dep : Z) : option state :=
  if x >? 0 then Some (set_free s st a (free_of s st a + x))
  else if x =? 0 then Some s
  else match aget k2_eqb (st_free s) (st, a) with
       | None => None                                   (* GetStakerSpecifiedAssetInfo *)
       | Some free =>
           let need := - x in
           let fromW := Z.min need free in
           if dep <? fromW then None                    (* TotalDepositAmount underflow *)
           else
           let s1 := set_free s st a (free - fromW) in
           let fromP := Z.min (need - free) pend in     (* taken from the pending undelegations *)
           let rem := need - free - pend in             (* left for the delegated shares *)
           if need - free <=? 0 then Some s1
           else if dep - fromW <? fromP then None
           else if rem <=? 0 then Some s1
           else
             let rs := staker_rows s1 st a in
             match total_delegated s1 a rs with
             | None => None
             | Some tot =>
                 if tot =? 0 then Some s1
                 else
                   let q := dec_quo (dec_of_int rem) (dec_of_int tot) in
                   nst_fold (if q >? P then P else q) st a rs (dep - fromW - fromP) s1     (* MaxSlashProportion = 1 *)
             end
       end.

(* the body of the closures of Associate / Dissociate, folded over the scanned rows; sign = +1 / -1 *)
Fixpoint move_op_share (sign : Z) (stakerID o : string) (rows : list (k3 * Z)) (pools : list (k2 * pool))
  : option (list (k2 * pool)) :=
  match rows with
  | [] => Some pools
  | (k, sh) :: r =>
      if scan_hit stakerID k && String.eqb (snd k) o then
        let a := snd (fst k) in
        let p := match aget k2_eqb pools (o, a) with Some p => p | None => pool0 end in
        let v := p_op p + sign * sh in
        if v <? 0 then None
        else move_op_share sign stakerID o r (aset k2_eqb pools (o, a) (mkPool (p_amt p) (p_tot p) v))
      else move_op_share sign stakerID o r pools
  end.

Definition do_associate (ops : list string) (s : state) (chain_ok : bool) (st o : string) : option state :=
  if negb chain_ok then None
  else if negb (mem o ops) then None
  else match assoc_of s st with
       | Some _ => None
       | None =>
           match move_op_share 1 st o (st_rows s) (st_pools s) with
           | Some pools' => Some (mkSt pools' (st_rows s) (st_lists s) (aset String.eqb (st_assoc s) st o) (st_free s))
           | None => None
           end
       end.

Definition do_dissociate (s : state) (st : string) : option state :=
  match assoc_of s st with
  | None => None
  | Some o =>
      match move_op_share (-1) st o (st_rows s) (st_pools s) with
      | Some pools' => Some (mkSt pools' (st_rows s) (st_lists s) (adel String.eqb (st_assoc s) st) (st_free s))
      | None => None
      end
  end.

(* SetStakerShareToZero for the listed stakers of (o, a): rows that exist are set to 0 *)
Fixpoint zero_rows (rows : list (k3 * Z)) (o a : string) (l : list string) : list (k3 * Z) :=
  match rows with
  | [] => []
  | (k, sh) :: r =>
      (k, if String.eqb (snd k) o && String.eqb (snd (fst k)) a && mem (fst (fst k)) l then 0 else sh)
        :: zero_rows r o a l
  end.

(* the closure of SlashAssets for one pool (o, a) of the slashed operator *)
Definition slash_one (prop : Z) (s : state) (k : k2) : state :=
  let o := fst k in let a := snd k in
  let p := pool_of s o a in
  let slashAmt := dec_trunc_int (dec_mul_int prop (p_amt p)) in
  let remaining := p_amt p - slashAmt in
  match (if remaining =? 0 then aget k2_eqb (st_lists s) (o, a) else None) with
  | Some l =>   (* HasStakerList: clear the shares of the listed stakers, delete the list *)
      mkSt (aset k2_eqb (st_pools s) (o, a) (mkPool remaining 0 0)) (zero_rows (st_rows s) o a l)
           (adel k2_eqb (st_lists s) (o, a)) (st_assoc s) (st_free s)
  | None =>
      mkSt (aset k2_eqb (st_pools s) (o, a) (mkPool remaining (p_tot p) (p_op p))) (st_rows s)
           (st_lists s) (st_assoc s) (st_free s)
  end.

(* IterateAssetsForOperator: every pool key of operator [o] *)
Definition do_slash (s : state) (o : string) (prop : Z) : option state :=
  if (prop <? 0) || (prop >? P) then None
  else Some (fold_left (slash_one prop) (filter (fun k => String.eqb (fst k) o) (map fst (st_pools s))) s).

Definition do_deposit (s : state) (st a : string) (amt : Z) : option state :=
  if amt <? 0 then None
  else Some (mkSt (st_pools s) (st_rows s) (st_lists s) (st_assoc s)
                  (aset k2_eqb (st_free s) (st, a) (free_of s st a + amt))).

Definition step_opt (ops : list string) (s : state) (x : op) : option state :=
  match x with
  | Deposit st a amt => do_deposit s st a amt
  | Delegate st a o amt => do_delegate ops s st a o amt
  | Undelegate st a o amt => do_undelegate ops s st a o amt
  | Associate c st o => do_associate ops s c st o
  | Dissociate st => do_dissociate s st
  | Slash o prop => do_slash s o prop
  | NstBalance st a x pend dep => do_nst_balance s st a x pend dep
  end.

(* ---- rejected vs panicked ----
   An operation that does not go through is either rejected (error) or panics; both leave the state unchanged. It panics
   exactly when the FIRST share conversion that does not return normally hits an overflow guard of cosmossdk.io/math
   (KPanic of the generated kernel) before any check rejects the call. The functions below walk the same path as the
   do_* functions above. (Overflows outside the kernels — sums of amounts beyond 2^256 — are not modelled.) *)
Definition is_panic {A} (r : kres A) : bool := match r with KPanic _ => true | _ => false end.

Definition remove_share_panics (s : state) (a o : string) (sh : Z) : bool :=
  (sh >? 0) && negb (sh >? p_tot (pool_of s o a)) && is_panic (removed_tokens (pool_of s o a) sh).

Definition undelegate_panics (ops : list string) (s : state) (st a o : string) (amt : Z) : bool :=
  (amt >? 0) && mem o ops &&
  match aget k3_eqb (st_rows s) (st, a, o), aget k2_eqb (st_pools s) (o, a) with
  | Some mine, Some p =>
      match SharesFromTokens (p_tot p) amt (p_amt p) with
      | KPanic _ => true
      | KErr _ => false
      | KOk sh =>
          if sh >? mine then is_panic (TokensFromShares mine (p_tot p) (p_amt p))
          else match SharesFromTokens (p_tot p) 1 (p_amt p) with
               | KPanic _ => true
               | KErr _ => false
               | KOk tol => remove_share_panics s a o (if mine - sh <? tol then mine else sh)
               end
      end
  | _, _ => false
  end.

Fixpoint total_delegated_panics (s : state) (a : string) (rs : list (string * Z)) : bool :=
  match rs with
  | [] => false
  | (o, sh) :: r =>
      if sh =? 0 then total_delegated_panics s a r
      else match aget k2_eqb (st_pools s) (o, a) with
           | None => false
           | Some p => match TokensFromShares sh (p_tot p) (p_amt p) with
                       | KPanic _ => true
                       | KErr _ => false
                       | KOk _ => total_delegated_panics s a r
                       end
           end
  end.

Fixpoint nst_fold_panics (prop : Z) (st a : string) (rs : list (string * Z)) (dep : Z) (s : state) : bool :=
  match rs with
  | [] => false
  | (o, sh) :: r =>
      match removed_tokens (pool_of s o a) (dec_mul sh prop), do_remove_share s st a o (dec_mul sh prop) with
      | KOk tok, Some s' => if dep <? tok then false else nst_fold_panics prop st a r (dep - tok) s'
      | _, _ => remove_share_panics s a o (dec_mul sh prop)
      end
  end.

Definition nst_balance_panics (s : state) (st a : string) (x pend dep : Z) : bool :=
  (x <? 0) &&
  match aget k2_eqb (st_free s) (st, a) with
  | None => false
  | Some free =>
      let need := - x in
      let fromW := Z.min need free in
      let s1 := set_free s st a (free - fromW) in
      let rem := need - free - pend in
      if (dep <? fromW) || (need - free <=? 0) || (dep - fromW <? Z.min (need - free) pend) || (rem <=? 0) then false
      else
        let rs := staker_rows s1 st a in
        match total_delegated s1 a rs with
        | None => total_delegated_panics s1 a rs
        | Some tot =>
            if tot =? 0 then false
            else let q := dec_quo (dec_of_int rem) (dec_of_int tot) in
                 nst_fold_panics (if q >? P then P else q) st a rs (dep - fromW - Z.min (need - free) pend) s1
        end
  end.

Definition op_panics (ops : list string) (s : state) (x : op) : bool :=
  match x with
  | Delegate st a o amt =>
      (amt >? 0) && mem o ops && negb (free_of s st a <? amt) && is_panic (calc_share (pool_of s o a) amt)
  | Undelegate st a o amt => undelegate_panics ops s st a o amt
  | NstBalance st a x pend dep => nst_balance_panics s st a x pend dep
  | _ => false
  end.

Definition step (ops : list string) (s : state) (x : op) : state * result :=
  match step_opt ops s x with
  | Some s' => (s', ROk)
  | None => (s, if op_panics ops s x then RPanic else RErr)
  end.

Definition run (ops : list string) (s : state) (l : list op) : state :=
  fold_left (fun s x => fst (step ops s x)) l s.

Definition st0 : state := mkSt [] [] [] [] [].

(* ---------- invariants as booleans (one definition: theorems, and the monitor on implementation dumps) ---------- *)
Definition rows_sum (rows : list (k3 * Z)) (o a : string) : Z :=
  zsum (map snd (filter (fun kv => String.eqb (snd (fst kv)) o && String.eqb (snd (fst (fst kv))) a) rows)).

Definition rows_sum_assoc (assoc : list (string * string)) (rows : list (k3 * Z)) (o a : string) : Z :=
  zsum (map snd (filter (fun kv => String.eqb (snd (fst kv)) o && String.eqb (snd (fst (fst kv))) a &&
                                   match aget String.eqb assoc (fst (fst (fst kv))) with
                                   | Some o' => String.eqb o' o | None => false end) rows)).

Fixpoint nodup_b (l : list string) : bool :=
  match l with [] => true | x :: r => negb (mem x r) && nodup_b r end.

(* the pools that matter: every (operator, asset) that has a pool entry, a row or a list *)
Definition pool_keys (s : state) : list k2 :=
  map fst (st_pools s) ++ map (fun kv => (snd (fst kv), snd (fst (fst kv)))) (st_rows s) ++ map fst (st_lists s).

Definition inv_total_b (s : state) : bool :=
  forallb (fun k => p_tot (pool_of s (fst k) (snd k)) =? rows_sum (st_rows s) (fst k) (snd k)) (pool_keys s).

Definition inv_opshare_b (s : state) : bool :=
  forallb (fun k => p_op (pool_of s (fst k) (snd k)) =? rows_sum_assoc (st_assoc s) (st_rows s) (fst k) (snd k)) (pool_keys s).

Definition inv_list_b (s : state) : bool :=
  forallb (fun k => nodup_b (list_of s (fst k) (snd k)) &&
                    forallb (fun stk => negb (share_of s stk (snd k) (fst k) =? 0)) (list_of s (fst k) (snd k))) (pool_keys s)
  && forallb (fun kv => (snd kv =? 0) || mem (fst (fst (fst kv))) (list_of s (snd (fst kv)) (snd (fst (fst kv))))) (st_rows s).

Definition inv_zero_pool_b (s : state) : bool :=
  forallb (fun kp => negb (p_amt (snd kp) =? 0) || (p_tot (snd kp) =? 0)) (st_pools s).

Definition inv_rate_b (s : state) : bool :=
  forallb (fun kp => (0 <=? p_amt (snd kp)) && (p_amt (snd kp) <=? p_tot (snd kp)) && (0 <=? p_op (snd kp))) (st_pools s)
  && forallb (fun kv => 0 <=? snd kv) (st_rows s).

(* ---------- correspondence cases (written by the harness) ---------- *)
(* dump of the implementation after an operation; [d_vals] = TokensFromShares(row share, pool) as computed by
   the real keeper code for every row (-1 when it returned an error) *)
Record dump := mkDump {
  d_pools : list (k2 * pool);
  d_rows  : list (k3 * Z);
  d_vals  : list Z;                  (* aligned with d_rows *)
  d_lists : list (k2 * list string);
  d_assoc : list (string * string);
  d_free  : list (k2 * Z)
}.
Record obs := mkObs { o_op : op; o_res : result; o_dump : dump }.
Record case := mkCase { c_ops : list string; c_init : dump; c_steps : list obs }.

Definition abs (d : dump) : state := mkSt (d_pools d) (d_rows d) (d_lists d) (d_assoc d) (d_free d).

Definition pool_eqb (a b : pool) : bool := (p_amt a =? p_amt b) && (p_tot a =? p_tot b) && (p_op a =? p_op b).

(* model state vs dump, compared by lookup in both directions (absent = zero / empty) *)
Definition state_matches (s : state) (d : dump) : bool :=
  forallb (fun kp => pool_eqb (pool_of s (fst (fst kp)) (snd (fst kp))) (snd kp)) (d_pools d) &&
  forallb (fun kp => pool_eqb (pool_of (abs d) (fst (fst kp)) (snd (fst kp))) (snd kp)) (st_pools s) &&
  forallb (fun kv => share_of s (fst (fst (fst kv))) (snd (fst (fst kv))) (snd (fst kv)) =? snd kv) (d_rows d) &&
  forallb (fun kv => share_of (abs d) (fst (fst (fst kv))) (snd (fst (fst kv))) (snd (fst kv)) =? snd kv) (st_rows s) &&
  forallb (fun kl => list_eqb String.eqb (list_of s (fst (fst kl)) (snd (fst kl))) (snd kl)) (d_lists d) &&
  forallb (fun kl => list_eqb String.eqb (list_of (abs d) (fst (fst kl)) (snd (fst kl))) (snd kl)) (st_lists s) &&
  forallb (fun kv => option_eqb String.eqb (assoc_of s (fst kv)) (Some (snd kv))) (d_assoc d) &&
  forallb (fun kv => option_eqb String.eqb (assoc_of (abs d) (fst kv)) (Some (snd kv))) (st_assoc s) &&
  forallb (fun kv => free_of s (fst (fst kv)) (snd (fst kv)) =? snd kv) (d_free d) &&
  forallb (fun kv => free_of (abs d) (fst (fst kv)) (snd (fst kv)) =? snd kv) (st_free s).

Fixpoint check_steps (ops : list string) (s : state) (l : list obs) (i : nat) : option nat :=
  match l with
  | [] => None
  | x :: r =>
      let '(s', res) := step ops s (o_op x) in
      if result_eqb res (o_res x) && state_matches s' (o_dump x) then check_steps ops s' r (S i) else Some i
  end.

Definition check_case (c : case) : option nat := check_steps (c_ops c) (abs (c_init c)) (c_steps c) 1%nat.

(* ---------- monitor: the property, evaluated on the implementation's dumps only ---------- *)
Definition vals_of (d : dump) : list (k3 * Z) := combine (map fst (d_rows d)) (d_vals d).
Definition val_of (d : dump) (k : k3) : option Z := aget k3_eqb (vals_of d) k.

Definition invs_b (d : dump) : bool :=
  let s := abs d in inv_total_b s && inv_list_b s.

(* bystander bound: an accepted Delegate/Undelegate of staker [st] on pool (o,a) changes the redeemable value of
   every OTHER row of that pool by at most one unit (exchange-rate guard T <= S on the pool before, for Delegate) *)
Definition bystander_b (before after : dump) (st a o : string) (guard : bool) : bool :=
  let p := pool_of (abs before) o a in
  if guard && negb (p_amt p <=? p_tot p) then true
  else forallb (fun kv =>
         let k := fst kv in
         if String.eqb (snd k) o && String.eqb (snd (fst k)) a && negb (String.eqb (fst (fst k)) st) then
           match val_of after k with
           | Some v' => if (snd kv <? 0) || (v' <? 0) then true
                        else if (p_amt (pool_of (abs after) o a) =? 0) && (p_tot (pool_of (abs after) o a) =? 0) then true
                        else (snd kv - 1 <=? v') && (v' <=? snd kv + 1)
           | None => false
           end
         else true) (vals_of before).

(* round trip: a Delegate of x by a staker without shares in the pool, directly followed by an Undelegate of the
   same staker that removes all of its shares, returns between x-1 and x tokens (guard T <= S before the Delegate) *)
Definition round_trip_b (d0 d1 d2 : dump) (x1 x2 : op) (r1 r2 : result) : bool :=
  match x1, x2, r1, r2 with
  | Delegate st a o amt, Undelegate st' a' o' _, ROk, ROk =>
      if String.eqb st st' && String.eqb a a' && String.eqb o o' &&
         (share_of (abs d0) st a o =? 0) && (share_of (abs d2) st a o =? 0) &&
         (((0 <? p_tot (pool_of (abs d0) o a)) && (p_amt (pool_of (abs d0) o a) <=? p_tot (pool_of (abs d0) o a)) &&
           (0 <? p_amt (pool_of (abs d0) o a)))
          || ((p_tot (pool_of (abs d0) o a) =? 0) && (p_amt (pool_of (abs d0) o a) =? 0)))   (* or the first delegation *)
      then let got := p_amt (pool_of (abs d1) o a) - p_amt (pool_of (abs d2) o a) in
           (amt - 1 <=? got) && (got <=? amt)
      else true
  | _, _, _, _ => true
  end.

Definition step_monitor_b (before : dump) (x : obs) : bool :=
  invs_b (o_dump x) &&
  match o_op x, o_res x with
  | Delegate st a o _, ROk => bystander_b before (o_dump x) st a o true
  | Undelegate st a o _, ROk => bystander_b before (o_dump x) st a o false
  | _, _ => true
  end.

Fixpoint monitor_steps (prev2 : option (dump * obs)) (before : dump) (l : list obs) (i : nat) : option nat :=
  match l with
  | [] => None
  | x :: r =>
      if step_monitor_b before x &&
         match prev2 with
         | Some (d0, x1) => round_trip_b d0 before (o_dump x) (o_op x1) (o_op x) (o_res x1) (o_res x)
         | None => true
         end
      then monitor_steps (Some (before, x)) (o_dump x) r (S i) else Some i
  end.

Definition monitor_case (c : case) : option nat :=
  if invs_b (c_init c) then monitor_steps None (c_init c) (c_steps c) 1%nat else Some 0%nat.

(* the two invariants that the unchanged code is known to violate are separate checks, so that a known finding
   never hides a violation of one of the other clauses *)
Fixpoint monitor_dumps (f : state -> bool) (l : list obs) (i : nat) : option nat :=
  match l with
  | [] => None
  | x :: r => if f (abs (o_dump x)) then monitor_dumps f r (S i) else Some i
  end.
Definition monitor_opshare_case (c : case) : option nat :=
  if inv_opshare_b (abs (c_init c)) then monitor_dumps inv_opshare_b (c_steps c) 1%nat else Some 0%nat.
Definition monitor_zero_pool_case (c : case) : option nat :=
  if inv_zero_pool_b (abs (c_init c)) then monitor_dumps inv_zero_pool_b (c_steps c) 1%nat else Some 0%nat.
