(* C02/Proofs.v — the share-ledger invariants of C02/Model.v over ALL histories.
   The arithmetic facts come from C02/Laws.v, i.e. from the GENERATED kernels. *)
From Coq Require Import List String Ascii Bool ZArith Lia.
From Exo Require Import Base.IntDec Base.IntDec2 Base.Util Gen.Kernels C02.Model C02.Laws.
Import ListNotations.
Local Open Scope Z_scope.
Local Open Scope list_scope.

(* ---------------- key equalities ---------------- *)
Lemma seqb_spec a b : String.eqb a b = true <-> a = b.
Proof. apply String.eqb_eq. Qed.

Lemma k2_eqb_spec a b : k2_eqb a b = true <-> a = b.
Proof.
  destruct a as [a1 a2], b as [b1 b2]. unfold k2_eqb. simpl.
  rewrite andb_true_iff, !String.eqb_eq. split; [intros [-> ->]; reflexivity | intros H; inversion H; auto].
Qed.

Lemma k3_eqb_spec a b : k3_eqb a b = true <-> a = b.
Proof.
  destruct a as [[a1 a2] a3], b as [[b1 b2] b3]. unfold k3_eqb. simpl.
  rewrite !andb_true_iff, !String.eqb_eq.
  split; [intros [[-> ->] ->]; reflexivity | intros H; inversion H; auto].
Qed.

Lemma mem_In x l : mem x l = true <-> In x l.
Proof.
  induction l as [|y r IH]; simpl; [split; [discriminate|tauto]|].
  rewrite orb_true_iff, String.eqb_eq, IH. split; intros [H|H]; auto.
Qed.

Lemma mem_false x l : mem x l = false <-> ~ In x l.
Proof. rewrite <- mem_In. destruct (mem x l); split; congruence. Qed.

(* ---------------- association lists ---------------- *)
Section AssocLemmas.
  Context {K V : Type} (keq : K -> K -> bool) (Hkeq : forall a b, keq a b = true <-> a = b).

  Lemma keq_refl k : keq k k = true.
  Proof. apply Hkeq. reflexivity. Qed.

  Lemma keq_sym_false a b : keq a b = false -> keq b a = false.
  Proof.
    intros H. destruct (keq b a) eqn:E; [|reflexivity].
    apply Hkeq in E. subst. rewrite keq_refl in H. discriminate.
  Qed.

  Lemma aget_aset (l : list (K * V)) k v k' : aget keq (aset keq l k v) k' = if keq k' k then Some v else aget keq l k'.
  Proof.
    induction l as [|[k0 v0] r IH]; simpl; [reflexivity|].
    destruct (keq k k0) eqn:E; simpl.
    - apply Hkeq in E. subst k0. destruct (keq k' k); reflexivity.
    - rewrite IH. destruct (keq k' k0) eqn:E2.
      + apply Hkeq in E2. subst k0. rewrite (keq_sym_false _ _ E). reflexivity.
      + reflexivity.
  Qed.

  Lemma aget_adel (l : list (K * V)) k k' : aget keq (adel keq l k) k' = if keq k' k then None else aget keq l k'.
  Proof.
    induction l as [|[k0 v0] r IH]; simpl; [destruct (keq k' k); reflexivity|].
    destruct (keq k k0) eqn:E; simpl.
    - apply Hkeq in E. subst k0. rewrite IH. destruct (keq k' k); reflexivity.
    - rewrite IH. destruct (keq k' k0) eqn:E2.
      + apply Hkeq in E2. subst k0. rewrite (keq_sym_false _ _ E). reflexivity.
      + reflexivity.
  Qed.

  Lemma aset_keys_in (l : list (K * V)) k v x : In x (map fst (aset keq l k v)) -> x = k \/ In x (map fst l).
  Proof.
    induction l as [|[k0 v0] r IH]; simpl; [intros [H|[]]; auto|].
    destruct (keq k k0) eqn:E; simpl.
    - apply Hkeq in E. subst. intros [H|H]; auto.
    - intros [H|H]; auto. destruct (IH H); auto.
  Qed.

  Lemma aset_keys_nodup (l : list (K * V)) k v : NoDup (map fst l) -> NoDup (map fst (aset keq l k v)).
  Proof.
    induction l as [|[k0 v0] r IH]; simpl; intro H.
    - constructor; [intros []|constructor].
    - inversion H as [|? ? Hn Hr]; subst. destruct (keq k k0) eqn:E; simpl.
      + apply Hkeq in E. subst. constructor; assumption.
      + constructor; [|apply IH; assumption].
        intro Hin. apply aset_keys_in in Hin. destruct Hin as [->|Hin]; [|contradiction].
        rewrite keq_refl in E. discriminate.
  Qed.

  Lemma aget_in (l : list (K * V)) k v : NoDup (map fst l) -> In (k, v) l -> aget keq l k = Some v.
  Proof.
    induction l as [|[k0 v0] r IH]; simpl; intros Hn Hin; [contradiction|]. destruct Hin as [H|H].
    - inversion H; subst. rewrite keq_refl. reflexivity.
    - inversion Hn as [|? ? Hnot Hr]; subst.
      destruct (keq k k0) eqn:E.
      + apply Hkeq in E. subst. exfalso. apply Hnot. apply in_map_iff. exists (k0, v). auto.
      + apply IH; assumption.
  Qed.
End AssocLemmas.

Definition aget_aset2 := @aget_aset k2 pool k2_eqb k2_eqb_spec.
Definition aget_aset2l := @aget_aset k2 (list string) k2_eqb k2_eqb_spec.
Definition aget_adel2l := @aget_adel k2 (list string) k2_eqb k2_eqb_spec.
Definition aget_aset3 := @aget_aset k3 Z k3_eqb k3_eqb_spec.

(* ---------------- sums over rows ---------------- *)
Definition matches (k : k3) (o a : string) : bool := String.eqb (snd k) o && String.eqb (snd (fst k)) a.

Lemma rows_sum_cons k v r o a : rows_sum ((k, v) :: r) o a = (if matches k o a then v else 0) + rows_sum r o a.
Proof. unfold rows_sum, matches. simpl. destruct (_ && _); simpl; lia. Qed.

Lemma rows_sum_nil o a : rows_sum [] o a = 0.
Proof. reflexivity. Qed.

Definition shget (rows : list (k3 * Z)) (k : k3) : Z := match aget k3_eqb rows k with Some x => x | None => 0 end.

Lemma rows_sum_aset rows k v o a :
  rows_sum (aset k3_eqb rows k v) o a = rows_sum rows o a + (if matches k o a then v - shget rows k else 0).
Proof.
  unfold shget. induction rows as [|[k0 v0] r IH]; simpl.
  - rewrite rows_sum_cons, rows_sum_nil. destruct (matches k o a); lia.
  - destruct (k3_eqb k k0) eqn:E.
    + apply k3_eqb_spec in E. subst k0. rewrite !rows_sum_cons. destruct (matches k o a); lia.
    + rewrite !rows_sum_cons, IH. destruct (matches k o a), (matches k0 o a); lia.
Qed.

Definition zr_cond (k : k3) (o a : string) (l : list string) : bool :=
  String.eqb (snd k) o && String.eqb (snd (fst k)) a && mem (fst (fst k)) l.

Lemma zr_keys rows o a l : map fst (zero_rows rows o a l) = map fst rows.
Proof. induction rows as [|[k v] r IH]; simpl; [reflexivity|]. rewrite IH. reflexivity. Qed.

Lemma zr_aget rows o a l k :
  aget k3_eqb (zero_rows rows o a l) k =
  match aget k3_eqb rows k with Some sh => Some (if zr_cond k o a l then 0 else sh) | None => None end.
Proof.
  induction rows as [|[k0 v0] r IH]; simpl; [reflexivity|].
  destruct (k3_eqb k k0) eqn:E; [|exact IH].
  apply k3_eqb_spec in E. subst k0. reflexivity.
Qed.

Lemma zr_sum_other rows o a l o' a' : (o', a') <> (o, a) -> rows_sum (zero_rows rows o a l) o' a' = rows_sum rows o' a'.
Proof.
  intros Hne. induction rows as [|[k v] r IH]; simpl; [reflexivity|].
  rewrite !rows_sum_cons, IH. unfold matches.
  destruct (String.eqb (snd k) o') eqn:E1; simpl; [|reflexivity].
  destruct (String.eqb (snd (fst k)) a') eqn:E2; simpl; [|reflexivity].
  apply String.eqb_eq in E1. apply String.eqb_eq in E2.
  destruct (String.eqb (snd k) o) eqn:E3; simpl; [|reflexivity].
  destruct (String.eqb (snd (fst k)) a) eqn:E4; simpl; [|reflexivity].
  apply String.eqb_eq in E3. apply String.eqb_eq in E4. exfalso. apply Hne. congruence.
Qed.

Lemma zr_sum_same rows o a l :
  (forall k v, In (k, v) rows -> matches k o a = true -> mem (fst (fst k)) l = false -> v = 0) ->
  rows_sum (zero_rows rows o a l) o a = 0.
Proof.
  induction rows as [|[k v] r IH]; simpl; intros H; [reflexivity|].
  rewrite rows_sum_cons, IH by (intros; eapply H; eauto).
  destruct (matches k o a) eqn:M; [|reflexivity].
  unfold matches in M. apply andb_true_iff in M. destruct M as [M1 M2]. rewrite M1, M2. simpl.
  destruct (mem (fst (fst k)) l) eqn:Mm; [reflexivity|].
  rewrite (H k v); [reflexivity|left; reflexivity| unfold matches; rewrite M1, M2; reflexivity | assumption].
Qed.

(* ---------------- lists ---------------- *)
Lemma remove_first_in x y l : In y (remove_first x l) -> In y l.
Proof.
  induction l as [|z r IH]; simpl; [tauto|]. destruct (String.eqb x z); simpl; [auto|]. intros [H|H]; auto.
Qed.

Lemma remove_first_in_other x y l : y <> x -> In y l -> In y (remove_first x l).
Proof.
  intros Hne. induction l as [|z r IH]; simpl; [tauto|].
  destruct (String.eqb x z) eqn:E.
  - apply String.eqb_eq in E. subst z. intros [H|H]; [congruence|assumption].
  - intros [H|H]; [left; assumption|right; auto].
Qed.

Lemma remove_first_nodup x l : NoDup l -> NoDup (remove_first x l) /\ ~ In x (remove_first x l).
Proof.
  induction l as [|z r IH]; simpl; intro H; [split; [constructor|tauto]|].
  inversion H as [|? ? Hn Hr]; subst. destruct (String.eqb x z) eqn:E.
  - apply String.eqb_eq in E. subst z. split; assumption.
  - destruct (IH Hr) as [I1 I2]. split.
    + constructor; [|assumption]. intro Hin. apply Hn. eapply remove_first_in; eauto.
    + simpl. intros [Hz|Hin]; [subst; rewrite String.eqb_refl in E; discriminate | contradiction].
Qed.

Lemma nodup_app_one (x : string) l : NoDup l -> ~ In x l -> NoDup (l ++ [x]).
Proof.
  induction l as [|y r IH]; simpl; intros Hn Hx; [constructor; [tauto|constructor]|].
  inversion Hn; subst. constructor.
  - rewrite in_app_iff. simpl. intros [H|[H|[]]]; [contradiction|]. subst. apply Hx. left. reflexivity.
  - apply IH; [assumption|]. intro. apply Hx. right. assumption.
Qed.

(* ---------------- the invariant ---------------- *)
Record Inv (s : state) : Prop := {
  inv_T  : forall o a, p_tot (pool_of s o a) = rows_sum (st_rows s) o a;
  inv_L1 : forall o a, NoDup (list_of s o a);
  inv_L2 : forall st a o, share_of s st a o <> 0 -> In st (list_of s o a);
  inv_L3 : forall st a o, In st (list_of s o a) -> share_of s st a o <> 0;
  inv_R  : forall o a, 0 <= p_amt (pool_of s o a) <= p_tot (pool_of s o a);
  inv_N  : forall st a o, 0 <= share_of s st a o;
  inv_U  : NoDup (map fst (st_rows s))
}.

Lemma Inv_st0 : Inv st0.
Proof.
  constructor; intros; unfold pool_of, share_of, list_of, st0; simpl; try lia; try constructor; try tauto.
Qed.

(* ---------------- arithmetic facts (from the generated kernels) ---------------- *)
Lemma mint_rate p amt sh : calc_share p amt = KOk sh -> 0 < amt -> 0 <= p_amt p <= p_tot p ->
  0 < sh /\ p_amt p + amt <= p_tot p + sh.
Proof.
  intros H Ha [HT HS]. unfold calc_share in H. pose proof P_pos as HP.
  destruct (p_tot p =? 0) eqn:E.
  - apply Z.eqb_eq in E. injection H as H. subst sh. unfold dec_of_int. nia.
  - apply Z.eqb_neq in E.
    destruct (Z.eq_dec (p_amt p) 0) as [Z0|NZ].
    + rewrite Z0 in H. apply SFT_empty in H. lia.
    + apply SFT_ok in H; try lia. subst sh.
      assert (amt <= p_tot p * amt / p_amt p) by (apply Z.div_le_lower_bound; nia). lia.
Qed.

Lemma burn_rate p sh tok : removed_tokens p sh = KOk tok -> 0 < sh <= p_tot p -> 0 <= p_amt p <= p_tot p ->
  tok <= p_amt p -> p_amt p - tok <= p_tot p - sh.
Proof.
  intros H [Hs HsS] [HT HTS] Htok. unfold removed_tokens in H.
  destruct (p_tot p =? sh) eqn:E.
  - apply Z.eqb_eq in E. injection H as H. subst tok. lia.
  - apply Z.eqb_neq in E. apply TFS_ok in H; try lia. destruct H as [-> _].
    set (S := p_tot p) in *. set (T := p_amt p) in *.
    assert (L : sh * T / S <= g (sh * T) S) by (apply g_lower; nia).
    assert (L2 : sh - (S - T) <= sh * T / S) by (apply Z.div_le_lower_bound; nia).
    lia.
Qed.

Lemma slash_amount prop T : 0 <= prop <= P -> 0 <= T -> 0 <= dec_trunc_int (dec_mul_int prop T) <= T.
Proof.
  intros [Hp HpP] HT. pose proof P_pos as HP. unfold dec_trunc_int, dec_mul_int.
  rewrite quot_nonneg_div by nia. split.
  - apply Z.div_pos; nia.
  - apply Z.div_le_upper_bound; nia.
Qed.

(* ---------------- move_op_share touches only OperatorShare ---------------- *)
Definition pget (pools : list (k2 * pool)) (k : k2) : pool :=
  match aget k2_eqb pools k with Some p => p | None => pool0 end.

Lemma move_op_share_frame sign stk o rows : forall pools pools',
  move_op_share sign stk o rows pools = Some pools' ->
  forall k, p_amt (pget pools' k) = p_amt (pget pools k) /\ p_tot (pget pools' k) = p_tot (pget pools k).
Proof.
  induction rows as [|[k0 sh] r IH]; simpl; intros pools pools' H k.
  - injection H as <-. auto.
  - destruct (scan_hit stk k0 && String.eqb (snd k0) o).
    + destruct (_ <? 0); [discriminate|].
      specialize (IH _ _ H k). destruct IH as [I1 I2]. rewrite I1, I2. unfold pget.
      rewrite aget_aset2. destruct (k2_eqb k (o, snd (fst k0))) eqn:E; [|auto].
      apply k2_eqb_spec in E. subst k. simpl. auto.
    + eapply IH; eauto.
Qed.

Lemma Inv_frame s s' :
  (forall o a, p_amt (pool_of s' o a) = p_amt (pool_of s o a) /\ p_tot (pool_of s' o a) = p_tot (pool_of s o a)) ->
  st_rows s' = st_rows s -> st_lists s' = st_lists s -> Inv s -> Inv s'.
Proof.
  intros Hp Hr Hl I. destruct I as [T L1 L2 L3 R N U].
  assert (Hsh : forall st a o, share_of s' st a o = share_of s st a o) by (intros; unfold share_of; rewrite Hr; reflexivity).
  assert (Hli : forall o a, list_of s' o a = list_of s o a) by (intros; unfold list_of; rewrite Hl; reflexivity).
  constructor; intros.
  - destruct (Hp o a) as [_ ->]. rewrite Hr. apply T.
  - rewrite Hli. apply L1.
  - rewrite Hli. apply L2. rewrite <- Hsh. assumption.
  - rewrite Hsh. apply L3. rewrite <- Hli. assumption.
  - destruct (Hp o a) as [-> ->]. apply R.
  - rewrite Hsh. apply N.
  - rewrite Hr. exact U.
Qed.

(* ---------------- per-operation preservation ---------------- *)
Lemma Inv_deposit s st a amt s' : do_deposit s st a amt = Some s' -> Inv s -> Inv s'.
Proof.
  unfold do_deposit. destruct (amt <? 0); [discriminate|]. intros H. injection H as <-.
  apply Inv_frame; simpl; auto.
Qed.

Lemma Inv_associate ops s c st o s' : do_associate ops s c st o = Some s' -> Inv s -> Inv s'.
Proof.
  unfold do_associate. destruct (negb c); [discriminate|]. destruct (negb (mem o ops)); [discriminate|].
  destruct (assoc_of s st); [discriminate|].
  destruct (move_op_share 1 st o (st_rows s) (st_pools s)) as [pools'|] eqn:M; [|discriminate].
  intros H. injection H as <-. apply Inv_frame; simpl; auto.
  intros o' a'. apply (move_op_share_frame _ _ _ _ _ _ M (o', a')).
Qed.

Lemma Inv_dissociate s st s' : do_dissociate s st = Some s' -> Inv s -> Inv s'.
Proof.
  unfold do_dissociate. destruct (assoc_of s st) as [o|]; [|discriminate].
  destruct (move_op_share (-1) st o (st_rows s) (st_pools s)) as [pools'|] eqn:M; [|discriminate].
  intros H. injection H as <-. apply Inv_frame; simpl; auto.
  intros o' a'. apply (move_op_share_frame _ _ _ _ _ _ M (o', a')).
Qed.

Lemma matches_k2 st a o o' a' : matches (st, a, o) o' a' = k2_eqb (o', a') (o, a).
Proof.
  unfold matches, k2_eqb. simpl. rewrite (String.eqb_sym o o'), (String.eqb_sym a a'). reflexivity.
Qed.

Lemma k3_k2 st a o st' a' o' : k3_eqb (st', a', o') (st, a, o) = String.eqb st' st && k2_eqb (o', a') (o, a).
Proof. unfold k3_eqb, k2_eqb. simpl. destruct (String.eqb st' st), (String.eqb a' a), (String.eqb o' o); reflexivity. Qed.

Lemma Inv_delegate ops s st a o amt s' : do_delegate ops s st a o amt = Some s' -> Inv s -> Inv s'.
Proof.
  unfold do_delegate. intros H I. destruct I as [T L1 L2 L3 R N U].
  destruct (negb (amt >? 0)) eqn:Ea; [discriminate|]. apply negb_false_iff in Ea. rewrite Z.gtb_ltb in Ea. apply Z.ltb_lt in Ea.
  destruct (negb (mem o ops)); [discriminate|]. destruct (free_of s st a <? amt); [discriminate|].
  destruct (calc_share (pool_of s o a) amt) as [sh| |] eqn:C; try discriminate.
  injection H as <-.
  destruct (mint_rate _ _ _ C Ea (R o a)) as [Hsh Hrate].
  assert (Hshare : forall st' a' o', share_of (mkSt (aset k2_eqb (st_pools s) (o, a)
              (mkPool (p_amt (pool_of s o a) + amt) (p_tot (pool_of s o a) + sh)
                 (if is_assoc s st o then p_op (pool_of s o a) + sh else p_op (pool_of s o a))))
              (aset k3_eqb (st_rows s) (st, a, o) (share_of s st a o + sh))
              (aset k2_eqb (st_lists s) (o, a) (if mem st (list_of s o a) then list_of s o a else list_of s o a ++ [st]))
              (st_assoc s) (aset k2_eqb (st_free s) (st, a) (free_of s st a - amt))) st' a' o'
            = if k3_eqb (st', a', o') (st, a, o) then share_of s st a o + sh else share_of s st' a' o').
  { intros. unfold share_of at 1. simpl. rewrite aget_aset3. destruct (k3_eqb _ _); reflexivity. }
  assert (Hlist : forall o' a', list_of (mkSt (aset k2_eqb (st_pools s) (o, a)
              (mkPool (p_amt (pool_of s o a) + amt) (p_tot (pool_of s o a) + sh)
                 (if is_assoc s st o then p_op (pool_of s o a) + sh else p_op (pool_of s o a))))
              (aset k3_eqb (st_rows s) (st, a, o) (share_of s st a o + sh))
              (aset k2_eqb (st_lists s) (o, a) (if mem st (list_of s o a) then list_of s o a else list_of s o a ++ [st]))
              (st_assoc s) (aset k2_eqb (st_free s) (st, a) (free_of s st a - amt))) o' a'
            = if k2_eqb (o', a') (o, a) then (if mem st (list_of s o a) then list_of s o a else list_of s o a ++ [st]) else list_of s o' a').
  { intros. unfold list_of at 1. simpl. rewrite aget_aset2l. destruct (k2_eqb _ _); reflexivity. }
  assert (Hpool : forall o' a', pool_of (mkSt (aset k2_eqb (st_pools s) (o, a)
              (mkPool (p_amt (pool_of s o a) + amt) (p_tot (pool_of s o a) + sh)
                 (if is_assoc s st o then p_op (pool_of s o a) + sh else p_op (pool_of s o a))))
              (aset k3_eqb (st_rows s) (st, a, o) (share_of s st a o + sh))
              (aset k2_eqb (st_lists s) (o, a) (if mem st (list_of s o a) then list_of s o a else list_of s o a ++ [st]))
              (st_assoc s) (aset k2_eqb (st_free s) (st, a) (free_of s st a - amt))) o' a'
            = if k2_eqb (o', a') (o, a) then mkPool (p_amt (pool_of s o a) + amt) (p_tot (pool_of s o a) + sh)
                 (if is_assoc s st o then p_op (pool_of s o a) + sh else p_op (pool_of s o a)) else pool_of s o' a').
  { intros. unfold pool_of at 1. simpl. rewrite aget_aset2. destruct (k2_eqb _ _); reflexivity. }
  constructor.
  - intros o' a'. rewrite Hpool. simpl. rewrite rows_sum_aset, matches_k2.
    fold (share_of s st a o). unfold shget. fold (share_of s st a o).
    destruct (k2_eqb (o', a') (o, a)) eqn:E.
    + apply k2_eqb_spec in E. inversion E; subst. simpl. rewrite T. lia.
    + rewrite T. lia.
  - intros o' a'. rewrite Hlist. destruct (k2_eqb (o', a') (o, a)); [|apply L1].
    destruct (mem st (list_of s o a)) eqn:M; [apply L1|].
    apply nodup_app_one; [apply L1 | apply mem_false; assumption].
  - intros st' a' o'. rewrite Hshare, Hlist, k3_k2.
    destruct (k2_eqb (o', a') (o, a)) eqn:E.
    + apply k2_eqb_spec in E. inversion E; subst. rewrite andb_true_r.
      destruct (String.eqb st' st) eqn:Es.
      * apply String.eqb_eq in Es. subst st'. intros _.
        destruct (mem st (list_of s o a)) eqn:M; [apply mem_In; assumption|].
        apply in_or_app. right. left. reflexivity.
      * intros Hne. apply L2 in Hne. destruct (mem st (list_of s o a)); [assumption|apply in_or_app; left; assumption].
    + rewrite andb_false_r. apply L2.
  - intros st' a' o'. rewrite Hshare, Hlist, k3_k2.
    destruct (k2_eqb (o', a') (o, a)) eqn:E.
    + apply k2_eqb_spec in E. inversion E; subst. rewrite andb_true_r.
      destruct (String.eqb st' st) eqn:Es.
      * intros _. pose proof (N st a o). lia.
      * intros Hin. apply L3.
        destruct (mem st (list_of s o a)); [assumption|].
        apply in_app_or in Hin. destruct Hin as [Hin|[Hin|[]]]; [assumption|].
        subst. rewrite String.eqb_refl in Es. discriminate.
    + rewrite andb_false_r. apply L3.
  - intros o' a'. rewrite Hpool. destruct (k2_eqb (o', a') (o, a)); [simpl; pose proof (R o a); lia | apply R].
  - intros st' a' o'. rewrite Hshare. destruct (k3_eqb _ _); [pose proof (N st a o); lia | apply N].
  - simpl. apply (aset_keys_nodup k3_eqb k3_eqb_spec). exact U.
Qed.

Lemma Inv_remove_share s st a o sh s' : do_remove_share s st a o sh = Some s' -> Inv s -> Inv s'.
Proof.
  unfold do_remove_share. intros H I. destruct I as [T L1 L2 L3 R N U].
  destruct (negb (sh >? 0)) eqn:Es; [discriminate|]. apply negb_false_iff in Es. rewrite Z.gtb_ltb in Es. apply Z.ltb_lt in Es.
  destruct (sh >? p_tot (pool_of s o a)) eqn:Et; [discriminate|]. rewrite Z.gtb_ltb in Et. apply Z.ltb_ge in Et.
  destruct (removed_tokens (pool_of s o a) sh) as [tok| |] eqn:RT; try discriminate.
  destruct (p_amt (pool_of s o a) <? tok) eqn:Ek; [discriminate|]. apply Z.ltb_ge in Ek.
  destruct (is_assoc s st o && (p_op (pool_of s o a) <? sh)); [discriminate|].
  destruct (share_of s st a o - sh <? 0) eqn:Em; [discriminate|]. apply Z.ltb_ge in Em.
  pose proof (burn_rate _ _ _ RT (conj Es Et) (R o a) Ek) as Hrate.
  set (p' := mkPool (p_amt (pool_of s o a) - tok) (p_tot (pool_of s o a) - sh)
                    (if is_assoc s st o then p_op (pool_of s o a) - sh else p_op (pool_of s o a))) in *.
  set (mine' := share_of s st a o - sh) in *.
  (* common facts about the new pools and rows *)
  assert (Hpool : forall lists' o' a', pool_of (mkSt (aset k2_eqb (st_pools s) (o, a) p')
              (aset k3_eqb (st_rows s) (st, a, o) mine') lists' (st_assoc s) (st_free s)) o' a'
            = if k2_eqb (o', a') (o, a) then p' else pool_of s o' a').
  { intros. unfold pool_of at 1. simpl. rewrite aget_aset2. destruct (k2_eqb _ _); reflexivity. }
  assert (Hshare : forall lists' st' a' o', share_of (mkSt (aset k2_eqb (st_pools s) (o, a) p')
              (aset k3_eqb (st_rows s) (st, a, o) mine') lists' (st_assoc s) (st_free s)) st' a' o'
            = if k3_eqb (st', a', o') (st, a, o) then mine' else share_of s st' a' o').
  { intros. unfold share_of at 1. simpl. rewrite aget_aset3. destruct (k3_eqb _ _); reflexivity. }
  assert (HT : forall lists' o' a', p_tot (pool_of (mkSt (aset k2_eqb (st_pools s) (o, a) p')
              (aset k3_eqb (st_rows s) (st, a, o) mine') lists' (st_assoc s) (st_free s)) o' a')
            = rows_sum (aset k3_eqb (st_rows s) (st, a, o) mine') o' a').
  { intros. rewrite Hpool, rows_sum_aset, matches_k2. unfold shget. fold (share_of s st a o).
    destruct (k2_eqb (o', a') (o, a)) eqn:E.
    - apply k2_eqb_spec in E. inversion E; subst. simpl. rewrite T. unfold mine'. lia.
    - rewrite T. lia. }
  assert (HR : forall lists' o' a', 0 <= p_amt (pool_of (mkSt (aset k2_eqb (st_pools s) (o, a) p')
              (aset k3_eqb (st_rows s) (st, a, o) mine') lists' (st_assoc s) (st_free s)) o' a')
            <= p_tot (pool_of (mkSt (aset k2_eqb (st_pools s) (o, a) p')
              (aset k3_eqb (st_rows s) (st, a, o) mine') lists' (st_assoc s) (st_free s)) o' a')).
  { intros. rewrite Hpool. destruct (k2_eqb (o', a') (o, a)); [simpl; lia | apply R]. }
  assert (HN : forall lists' st' a' o', 0 <= share_of (mkSt (aset k2_eqb (st_pools s) (o, a) p')
              (aset k3_eqb (st_rows s) (st, a, o) mine') lists' (st_assoc s) (st_free s)) st' a' o').
  { intros. rewrite Hshare. destruct (k3_eqb _ _); [lia | apply N]. }
  assert (HU : NoDup (map fst (aset k3_eqb (st_rows s) (st, a, o) mine')))
    by (apply (aset_keys_nodup k3_eqb k3_eqb_spec); exact U).
  destruct (mine' =? 0) eqn:E0.
  - apply Z.eqb_eq in E0.
    destruct (aget k2_eqb (st_lists s) (o, a)) as [l|] eqn:EL; [|discriminate].
    injection H as <-.
    assert (El : list_of s o a = l) by (unfold list_of; rewrite EL; reflexivity).
    assert (Hlist : forall o' a', list_of (mkSt (aset k2_eqb (st_pools s) (o, a) p')
              (aset k3_eqb (st_rows s) (st, a, o) mine') (aset k2_eqb (st_lists s) (o, a) (remove_first st l))
              (st_assoc s) (st_free s)) o' a'
            = if k2_eqb (o', a') (o, a) then remove_first st l else list_of s o' a').
    { intros. unfold list_of at 1. simpl. rewrite aget_aset2l. destruct (k2_eqb _ _); reflexivity. }
    pose proof (remove_first_nodup st l ltac:(rewrite <- El; apply L1)) as [RN1 RN2].
    constructor; auto.
    + intros o' a'. rewrite Hlist. destruct (k2_eqb _ _); [assumption | apply L1].
    + intros st' a' o'. rewrite Hshare, Hlist, k3_k2.
      destruct (k2_eqb (o', a') (o, a)) eqn:E.
      * apply k2_eqb_spec in E. inversion E; subst o' a'. rewrite andb_true_r.
        destruct (String.eqb st' st) eqn:Es'; [intros; congruence|].
        intros Hne. apply remove_first_in_other.
        -- intro; subst. rewrite String.eqb_refl in Es'. discriminate.
        -- rewrite <- El. apply L2. assumption.
      * rewrite andb_false_r. apply L2.
    + intros st' a' o'. rewrite Hshare, Hlist, k3_k2.
      destruct (k2_eqb (o', a') (o, a)) eqn:E.
      * apply k2_eqb_spec in E. inversion E; subst o' a'. rewrite andb_true_r.
        destruct (String.eqb st' st) eqn:Es'.
        -- apply String.eqb_eq in Es'. subst st'. intros Hin. contradiction.
        -- intros Hin. apply L3. rewrite El. eapply remove_first_in; eauto.
      * rewrite andb_false_r. apply L3.
  - apply Z.eqb_neq in E0. injection H as <-.
    assert (Hlist : forall o' a', list_of (mkSt (aset k2_eqb (st_pools s) (o, a) p')
              (aset k3_eqb (st_rows s) (st, a, o) mine') (st_lists s) (st_assoc s) (st_free s)) o' a' = list_of s o' a')
      by reflexivity.
    constructor; auto.
    + intros st' a' o'. rewrite Hshare, Hlist.
      destruct (k3_eqb (st', a', o') (st, a, o)) eqn:E; [|apply L2].
      apply k3_eqb_spec in E. inversion E; subst. intros _. apply L2. unfold mine' in *. lia.
    + intros st' a' o'. rewrite Hshare, Hlist.
      destruct (k3_eqb (st', a', o') (st, a, o)) eqn:E; [intros; assumption|apply L3].
Qed.

Lemma Inv_undelegate ops s st a o amt s' : do_undelegate ops s st a o amt = Some s' -> Inv s -> Inv s'.
Proof.
  unfold do_undelegate. destruct (negb (amt >? 0)); [discriminate|]. destruct (negb (mem o ops)); [discriminate|].
  destruct (validate_undelegation s st a o amt) as [sh|]; [|discriminate]. apply Inv_remove_share.
Qed.

Lemma Inv_set_free s st a v : Inv s -> Inv (set_free s st a v).
Proof. apply Inv_frame; simpl; auto. Qed.

Lemma Inv_nst_fold prop st a rs : forall dep s s', nst_fold prop st a rs dep s = Some s' -> Inv s -> Inv s'.
Proof.
  induction rs as [|[o sh] r IH]; simpl; intros dep s s' H I; [injection H as <-; assumption|].
  destruct (removed_tokens (pool_of s o a) (dec_mul sh prop)) as [tok| |]; try discriminate.
  destruct (do_remove_share s st a o (dec_mul sh prop)) as [s1|] eqn:E; [|discriminate].
  destruct (dep <? tok); [discriminate|].
  eapply IH; [exact H|]. eapply Inv_remove_share; eauto.
Qed.

Lemma Inv_nst_balance s st a x pend dep s' : do_nst_balance s st a x pend dep = Some s' -> Inv s -> Inv s'.
Proof.
  unfold do_nst_balance. intros H I.
  destruct (x >? 0); [injection H as <-; apply Inv_set_free; assumption|].
  destruct (x =? 0); [injection H as <-; assumption|].
  destruct (aget k2_eqb (st_free s) (st, a)) as [free|]; [|discriminate].
  cbv zeta in H.
  destruct (dep <? Z.min (- x) free); [discriminate|].
  destruct (- x - free <=? 0); [injection H as <-; apply Inv_set_free; assumption|].
  destruct (dep - Z.min (- x) free <? Z.min (- x - free) pend); [discriminate|].
  destruct (- x - free - pend <=? 0); [injection H as <-; apply Inv_set_free; assumption|].
  destruct (total_delegated _ a _) as [tot|]; [|discriminate].
  destruct (tot =? 0); [injection H as <-; apply Inv_set_free; assumption|].
  eapply Inv_nst_fold; [exact H|]. apply Inv_set_free. assumption.
Qed.

Lemma Inv_slash_one prop s k : 0 <= prop <= P -> Inv s -> Inv (slash_one prop s k).
Proof.
  intros Hp I. destruct I as [T L1 L2 L3 R N U]. destruct k as [o a]. unfold slash_one. simpl fst. simpl snd.
  pose proof (slash_amount prop (p_amt (pool_of s o a)) Hp ltac:(apply R)) as Hs.
  set (rem := p_amt (pool_of s o a) - dec_trunc_int (dec_mul_int prop (p_amt (pool_of s o a)))) in *.
  destruct (if rem =? 0 then aget k2_eqb (st_lists s) (o, a) else None) as [l|] eqn:EL.
  - destruct (rem =? 0) eqn:E0; [|discriminate]. apply Z.eqb_eq in E0.
    assert (El : list_of s o a = l) by (unfold list_of; rewrite EL; reflexivity).
    assert (Hpool : forall o' a', pool_of (mkSt (aset k2_eqb (st_pools s) (o, a) (mkPool rem 0 0))
               (zero_rows (st_rows s) o a l) (adel k2_eqb (st_lists s) (o, a)) (st_assoc s) (st_free s)) o' a'
             = if k2_eqb (o', a') (o, a) then mkPool rem 0 0 else pool_of s o' a').
    { intros. unfold pool_of at 1. simpl. rewrite aget_aset2. destruct (k2_eqb _ _); reflexivity. }
    assert (Hlist : forall o' a', list_of (mkSt (aset k2_eqb (st_pools s) (o, a) (mkPool rem 0 0))
               (zero_rows (st_rows s) o a l) (adel k2_eqb (st_lists s) (o, a)) (st_assoc s) (st_free s)) o' a'
             = if k2_eqb (o', a') (o, a) then [] else list_of s o' a').
    { intros. unfold list_of at 1. simpl. rewrite aget_adel2l. destruct (k2_eqb _ _); reflexivity. }
    assert (Hshare : forall st' a' o', share_of (mkSt (aset k2_eqb (st_pools s) (o, a) (mkPool rem 0 0))
               (zero_rows (st_rows s) o a l) (adel k2_eqb (st_lists s) (o, a)) (st_assoc s) (st_free s)) st' a' o'
             = if zr_cond (st', a', o') o a l then 0 else share_of s st' a' o').
    { intros. unfold share_of. simpl. rewrite zr_aget.
      destruct (aget k3_eqb (st_rows s) (st', a', o')); [reflexivity|]. destruct (zr_cond _ _ _ _); reflexivity. }
    constructor.
    + intros o' a'. rewrite Hpool. simpl.
      destruct (k2_eqb (o', a') (o, a)) eqn:E.
      * apply k2_eqb_spec in E. inversion E; subst o' a'. simpl. symmetry. apply zr_sum_same.
        intros [[st' a'] o'] v Hin Hm Hmem. unfold matches in Hm. simpl in *.
        apply andb_true_iff in Hm. destruct Hm as [Ho Ha]. apply String.eqb_eq in Ho. apply String.eqb_eq in Ha. subst o' a'.
        destruct (Z.eq_dec v 0) as [|Hv]; [assumption|exfalso].
        assert (share_of s st' a o = v).
        { unfold share_of. rewrite (aget_in k3_eqb k3_eqb_spec _ _ _ U Hin). reflexivity. }
        apply mem_false in Hmem. apply Hmem. rewrite <- El. apply L2. lia.
      * rewrite zr_sum_other; [apply T|]. intro Heq. inversion Heq; subst.
        rewrite (proj2 (k2_eqb_spec (o, a) (o, a)) eq_refl) in E. discriminate.
    + intros o' a'. rewrite Hlist. destruct (k2_eqb _ _); [constructor|apply L1].
    + intros st' a' o'. rewrite Hshare, Hlist. unfold zr_cond. simpl.
      destruct (k2_eqb (o', a') (o, a)) eqn:E.
      * apply k2_eqb_spec in E. inversion E; subst o' a'. rewrite !String.eqb_refl. simpl.
        destruct (mem st' l) eqn:M; [intros; congruence|].
        intros Hne. apply L2 in Hne. rewrite El in Hne. apply mem_In in Hne. congruence.
      * intros Hne. apply L2.
        destruct (String.eqb o' o && String.eqb a' a && mem st' l); [congruence|assumption].
    + intros st' a' o'. rewrite Hshare, Hlist. unfold zr_cond. simpl.
      destruct (k2_eqb (o', a') (o, a)) eqn:E; [intros []|].
      intros Hin.
      assert (Hf : String.eqb o' o && String.eqb a' a = false).
      { destruct (String.eqb o' o) eqn:E1; [|reflexivity]. destruct (String.eqb a' a) eqn:E2; [|reflexivity].
        apply String.eqb_eq in E1. apply String.eqb_eq in E2. subst.
        rewrite (proj2 (k2_eqb_spec (o, a) (o, a)) eq_refl) in E. discriminate. }
      rewrite Hf. simpl. apply L3. assumption.
    + intros o' a'. rewrite Hpool. destruct (k2_eqb _ _); [simpl; lia|apply R].
    + intros st' a' o'. rewrite Hshare. destruct (zr_cond _ _ _ _); [lia|apply N].
    + simpl. rewrite zr_keys. exact U.
  - assert (Hpool : forall o' a', pool_of (mkSt (aset k2_eqb (st_pools s) (o, a) (mkPool rem (p_tot (pool_of s o a)) (p_op (pool_of s o a))))
               (st_rows s) (st_lists s) (st_assoc s) (st_free s)) o' a'
             = if k2_eqb (o', a') (o, a) then mkPool rem (p_tot (pool_of s o a)) (p_op (pool_of s o a)) else pool_of s o' a').
    { intros. unfold pool_of at 1. simpl. rewrite aget_aset2. destruct (k2_eqb _ _); reflexivity. }
    constructor; try assumption.
    + intros o' a'. rewrite Hpool. destruct (k2_eqb (o', a') (o, a)) eqn:E; [|apply T].
      apply k2_eqb_spec in E. inversion E; subst. simpl. apply T.
    + intros o' a'. rewrite Hpool. destruct (k2_eqb (o', a') (o, a)) eqn:E; [|apply R].
      simpl. pose proof (R o a). lia.
Qed.

Lemma Inv_slash_fold prop keys : 0 <= prop <= P -> forall s, Inv s -> Inv (fold_left (slash_one prop) keys s).
Proof.
  intros Hp. induction keys as [|k r IH]; simpl; intros s HI; [assumption|].
  apply IH. apply Inv_slash_one; assumption.
Qed.

Lemma Inv_slash s o prop s' : do_slash s o prop = Some s' -> Inv s -> Inv s'.
Proof.
  unfold do_slash. destruct ((prop <? 0) || (prop >? P)) eqn:E; [discriminate|].
  apply orb_false_iff in E. destruct E as [E1 E2]. apply Z.ltb_ge in E1. rewrite Z.gtb_ltb in E2. apply Z.ltb_ge in E2.
  intros H. injection H as <-. apply Inv_slash_fold. lia.
Qed.

Lemma Inv_step ops s x : Inv s -> Inv (fst (step ops s x)).
Proof.
  intros I. unfold step. destruct (step_opt ops s x) as [s'|] eqn:E; simpl; [|assumption].
  destruct x; simpl in E.
  - eapply Inv_deposit; eauto.
  - eapply Inv_delegate; eauto.
  - eapply Inv_undelegate; eauto.
  - eapply Inv_associate; eauto.
  - eapply Inv_dissociate; eauto.
  - eapply Inv_slash; eauto.
  - eapply Inv_nst_balance; eauto.
Qed.

Theorem Inv_run ops l : forall s, Inv s -> Inv (run ops s l).
Proof.
  unfold run. induction l as [|x r IH]; simpl; intros s I; [assumption|].
  apply IH. apply Inv_step. assumption.
Qed.

(* ---------------- the monitored booleans hold of every state that satisfies Inv ---------------- *)
Lemma nodup_b_of l : NoDup l -> nodup_b l = true.
Proof.
  induction 1 as [|x l Hn Hd IH]; simpl; [reflexivity|].
  rewrite IH, andb_true_r. apply negb_true_iff. apply mem_false. assumption.
Qed.

Lemma inv_total_b_of s : Inv s -> inv_total_b s = true.
Proof.
  intros I. unfold inv_total_b. apply forallb_forall. intros [o a] _. simpl. apply Z.eqb_eq. apply (inv_T s I).
Qed.

Lemma inv_list_b_of s : Inv s -> inv_list_b s = true.
Proof.
  intros I. unfold inv_list_b. apply andb_true_iff. split.
  - apply forallb_forall. intros [o a] _. simpl. apply andb_true_iff. split.
    + apply nodup_b_of. apply (inv_L1 s I).
    + apply forallb_forall. intros st Hin. apply negb_true_iff. apply Z.eqb_neq. apply (inv_L3 s I). assumption.
  - apply forallb_forall. intros [[[st a] o] v] Hin. simpl.
    destruct (v =? 0) eqn:E; [reflexivity|]. simpl. apply Z.eqb_neq in E.
    apply mem_In. apply (inv_L2 s I). unfold share_of.
    rewrite (aget_in k3_eqb k3_eqb_spec _ _ _ (inv_U s I) Hin). assumption.
Qed.
