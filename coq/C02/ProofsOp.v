(* C02/ProofsOp.v — OperatorShare = sum of the shares of the associated stakers, over all histories in which the
   prefix scan of Associate/Dissociate is exact (no staker id is a proper scan-prefix of another row key).
   Without that hypothesis the statement is false (C02_operator_share_refuted). *)
From Coq Require Import List String Ascii Bool ZArith Lia.
From Exo Require Import Base.IntDec Base.IntDec2 Base.Util Gen.Kernels C02.Model C02.Laws C02.Proofs.
Import ListNotations.
Local Open Scope Z_scope.
Local Open Scope list_scope.

Definition is_as (assoc : list (string * string)) (st o : string) : bool :=
  match aget String.eqb assoc st with Some o' => String.eqb o' o | None => false end.

Definition contrib (assoc : list (string * string)) (o a : string) (kv : k3 * Z) : Z :=
  if matches (fst kv) o a && is_as assoc (fst (fst (fst kv))) o then snd kv else 0.

Lemma rows_sum_assoc_cons assoc k v r o a :
  rows_sum_assoc assoc ((k, v) :: r) o a = contrib assoc o a (k, v) + rows_sum_assoc assoc r o a.
Proof.
  unfold rows_sum_assoc, contrib, matches, is_as. simpl.
  destruct (String.eqb (snd k) o && String.eqb (snd (fst k)) a); simpl; [|lia].
  destruct (aget String.eqb assoc (fst (fst k))) as [o'|]; [|simpl; lia].
  destruct (String.eqb o' o); simpl; lia.
Qed.

Lemma rows_sum_assoc_nil assoc o a : rows_sum_assoc assoc [] o a = 0.
Proof. reflexivity. Qed.

Lemma rows_sum_assoc_aset assoc rows k v o a :
  rows_sum_assoc assoc (aset k3_eqb rows k v) o a =
  rows_sum_assoc assoc rows o a + (if matches k o a && is_as assoc (fst (fst k)) o then v - shget rows k else 0).
Proof.
  unfold shget. induction rows as [|[k0 v0] r IH]; simpl.
  - rewrite rows_sum_assoc_cons, rows_sum_assoc_nil. unfold contrib. simpl. destruct (_ && _); lia.
  - destruct (k3_eqb k k0) eqn:E.
    + apply k3_eqb_spec in E. subst k0. rewrite !rows_sum_assoc_cons. unfold contrib. simpl. destruct (_ && _); lia.
    + rewrite !rows_sum_assoc_cons, IH. unfold contrib. simpl.
      destruct (matches k o a && is_as assoc (fst (fst k)) o); lia.
Qed.

Lemma zr_sum_assoc_other assoc rows o a l o' a' : (o', a') <> (o, a) ->
  rows_sum_assoc assoc (zero_rows rows o a l) o' a' = rows_sum_assoc assoc rows o' a'.
Proof.
  intros Hne. induction rows as [|[k v] r IH]; simpl; [reflexivity|].
  rewrite !rows_sum_assoc_cons, IH. f_equal. unfold contrib, matches. simpl.
  destruct (String.eqb (snd k) o') eqn:E1; simpl; [|reflexivity].
  destruct (String.eqb (snd (fst k)) a') eqn:E2; simpl; [|reflexivity].
  apply String.eqb_eq in E1. apply String.eqb_eq in E2.
  destruct (String.eqb (snd k) o) eqn:E3; simpl; [|reflexivity].
  destruct (String.eqb (snd (fst k)) a) eqn:E4; simpl; [|reflexivity].
  apply String.eqb_eq in E3. apply String.eqb_eq in E4. exfalso. apply Hne. congruence.
Qed.

Lemma zr_sum_assoc_same assoc rows o a l :
  (forall k v, In (k, v) rows -> matches k o a = true -> mem (fst (fst k)) l = false -> v = 0) ->
  rows_sum_assoc assoc (zero_rows rows o a l) o a = 0.
Proof.
  induction rows as [|[k v] r IH]; simpl; intros H; [reflexivity|].
  rewrite rows_sum_assoc_cons, IH by (intros; eapply H; eauto).
  unfold contrib. simpl.
  destruct (matches k o a) eqn:M; [|reflexivity]. simpl.
  destruct (is_as assoc (fst (fst k)) o); [|reflexivity].
  unfold matches in M. apply andb_true_iff in M. destruct M as [M1 M2]. rewrite M1, M2. simpl.
  destruct (mem (fst (fst k)) l) eqn:Mm; [reflexivity|].
  rewrite (H k v); [reflexivity|left; reflexivity| unfold matches; rewrite M1, M2; reflexivity | assumption].
Qed.

(* shares of staker [st] in pool (o, a), summed over the rows *)
Definition ssum (rows : list (k3 * Z)) (st o a : string) : Z :=
  zsum (map (fun kv : k3 * Z => if String.eqb (fst (fst (fst kv))) st && matches (fst kv) o a then snd kv else 0) rows).

Lemma ssum_cons k v r st o a :
  ssum ((k, v) :: r) st o a = (if String.eqb (fst (fst k)) st && matches k o a then v else 0) + ssum r st o a.
Proof. reflexivity. Qed.

Lemma aget_seq_aset (l : list (string * string)) k v k' :
  aget String.eqb (aset String.eqb l k v) k' = if String.eqb k' k then Some v else aget String.eqb l k'.
Proof. apply (aget_aset String.eqb seqb_spec). Qed.

Lemma aget_seq_adel (l : list (string * string)) k k' :
  aget String.eqb (adel String.eqb l k) k' = if String.eqb k' k then None else aget String.eqb l k'.
Proof. apply (aget_adel String.eqb seqb_spec). Qed.

Lemma rows_sum_assoc_set assoc rows st o o' a' : aget String.eqb assoc st = None ->
  rows_sum_assoc (aset String.eqb assoc st o) rows o' a' =
  rows_sum_assoc assoc rows o' a' + (if String.eqb o' o then ssum rows st o a' else 0).
Proof.
  intros Hn. induction rows as [|[k v] r IH]; simpl.
  - rewrite !rows_sum_assoc_nil. destruct (String.eqb o' o); reflexivity.
  - rewrite !rows_sum_assoc_cons, IH, ssum_cons. unfold contrib, is_as. simpl. rewrite aget_seq_aset.
    destruct (String.eqb (fst (fst k)) st) eqn:Es.
    + apply String.eqb_eq in Es. rewrite Es, Hn. simpl. rewrite andb_false_r.
      destruct (String.eqb o' o) eqn:Eo.
      * apply String.eqb_eq in Eo. subst o'. rewrite String.eqb_refl, andb_true_r. destruct (matches k o a'); lia.
      * rewrite (String.eqb_sym o o'), Eo, andb_false_r. lia.
    + simpl. destruct (String.eqb o' o); lia.
Qed.

Lemma rows_sum_assoc_del assoc rows st o o' a' : aget String.eqb assoc st = Some o ->
  rows_sum_assoc (adel String.eqb assoc st) rows o' a' =
  rows_sum_assoc assoc rows o' a' - (if String.eqb o' o then ssum rows st o a' else 0).
Proof.
  intros Hn. induction rows as [|[k v] r IH]; simpl.
  - rewrite !rows_sum_assoc_nil. destruct (String.eqb o' o); reflexivity.
  - rewrite !rows_sum_assoc_cons, IH, ssum_cons. unfold contrib, is_as. simpl. rewrite aget_seq_adel.
    destruct (String.eqb (fst (fst k)) st) eqn:Es.
    + apply String.eqb_eq in Es. rewrite Es, Hn. simpl. rewrite andb_false_r.
      destruct (String.eqb o' o) eqn:Eo.
      * apply String.eqb_eq in Eo. subst o'. rewrite String.eqb_refl, andb_true_r. destruct (matches k o a'); lia.
      * rewrite (String.eqb_sym o o'), Eo, andb_false_r. lia.
    + simpl. destruct (String.eqb o' o); lia.
Qed.

Lemma pget_aset pools k v k' : pget (aset k2_eqb pools k v) k' = if k2_eqb k' k then v else pget pools k'.
Proof. unfold pget. rewrite aget_aset2. destruct (k2_eqb k' k); reflexivity. Qed.

(* what move_op_share does to OperatorShare when the scan is exact on the rows *)
Lemma move_op_share_effect sign stk o rows : forall pools pools',
  (forall k, In k (map fst rows) -> scan_hit stk k = String.eqb (fst (fst k)) stk) ->
  move_op_share sign stk o rows pools = Some pools' ->
  forall o' a', p_op (pget pools' (o', a')) =
                p_op (pget pools (o', a')) + (if String.eqb o' o then sign * ssum rows stk o a' else 0).
Proof.
  induction rows as [|[k0 sh] r IH]; simpl; intros pools pools' Hex H o' a'.
  - injection H as <-. unfold ssum. simpl. destruct (String.eqb o' o); first [lia | ring].
  - rewrite ssum_cons. rewrite (Hex k0 (or_introl eq_refl)) in H.
    assert (Hex' : forall k, In k (map fst r) -> scan_hit stk k = String.eqb (fst (fst k)) stk) by (intros; apply Hex; right; assumption).
    destruct (String.eqb (fst (fst k0)) stk && String.eqb (snd k0) o) eqn:Ec.
    + destruct (_ <? 0); [discriminate|].
      rewrite (IH _ _ Hex' H o' a'). rewrite pget_aset.
      apply andb_true_iff in Ec. destruct Ec as [Ec1 Ec2]. unfold matches. rewrite Ec1, Ec2. simpl.
      destruct (k2_eqb (o', a') (o, snd (fst k0))) eqn:E.
      * apply k2_eqb_spec in E. inversion E; subst o' a'. simpl. rewrite !String.eqb_refl. simpl.
        fold (pget pools (o, snd (fst k0))). first [lia | ring].
      * destruct (String.eqb o' o) eqn:Eo; [|first [lia | ring]].
        apply String.eqb_eq in Eo. subst o'.
        destruct (String.eqb (snd (fst k0)) a') eqn:Ea.
        -- apply String.eqb_eq in Ea. subst a'. rewrite (proj2 (k2_eqb_spec _ _) eq_refl) in E. discriminate.
        -- first [lia | ring].
    + rewrite (IH _ _ Hex' H o' a').
      replace (String.eqb (fst (fst k0)) stk && matches k0 o a') with false; [destruct (String.eqb o' o); first [lia | ring]|].
      unfold matches. symmetry. apply andb_false_iff in Ec. destruct Ec as [Ec|Ec]; rewrite Ec; simpl; [reflexivity|].
      apply andb_false_r.
Qed.

(* ---------------- the invariant ---------------- *)
Definition OpInv (s : state) : Prop :=
  forall o a, p_op (pool_of s o a) = rows_sum_assoc (st_assoc s) (st_rows s) o a.

(* the operation is harmless w.r.t. the key universe [ks]: delegations create rows only inside ks, and the scan
   of an Associate/Dissociate is exact on ks *)
Definition op_exact (ks : list k3) (x : op) : Prop :=
  match x with
  | Delegate st a o _ => In (st, a, o) ks
  | Associate _ st _ | Dissociate st => forall k, In k ks -> scan_hit st k = String.eqb (fst (fst k)) st
  | _ => True
  end.

Definition keys_in (ks : list k3) (s : state) : Prop := forall k, In k (map fst (st_rows s)) -> In k ks.

Lemma is_as_assoc s st o : is_as (st_assoc s) st o = is_assoc s st o.
Proof. reflexivity. Qed.

Lemma OpInv_slash_one prop s k : Inv s -> OpInv s -> OpInv (slash_one prop s k).
Proof.
  intros I HO. destruct k as [o a]. unfold slash_one. simpl fst. simpl snd.
  set (rem := p_amt (pool_of s o a) - dec_trunc_int (dec_mul_int prop (p_amt (pool_of s o a)))) in *.
  destruct (if rem =? 0 then aget k2_eqb (st_lists s) (o, a) else None) as [l|] eqn:EL.
  - destruct (rem =? 0) eqn:E0; [|discriminate].
    assert (El : list_of s o a = l) by (unfold list_of; rewrite EL; reflexivity).
    intros o' a'. unfold pool_of. simpl. rewrite aget_aset2.
    destruct (k2_eqb (o', a') (o, a)) eqn:E.
    + apply k2_eqb_spec in E. inversion E; subst o' a'. simpl. symmetry. apply zr_sum_assoc_same.
      intros [[st' a'] o'] v Hin Hm Hmem. unfold matches in Hm. simpl in *.
      apply andb_true_iff in Hm. destruct Hm as [Ho Ha]. apply String.eqb_eq in Ho. apply String.eqb_eq in Ha. subst o' a'.
      destruct (Z.eq_dec v 0) as [|Hv]; [assumption|exfalso].
      assert (share_of s st' a o = v).
      { unfold share_of. rewrite (aget_in k3_eqb k3_eqb_spec _ _ _ (inv_U s I) Hin). reflexivity. }
      apply mem_false in Hmem. apply Hmem. rewrite <- El. apply (inv_L2 s I). lia.
    + rewrite zr_sum_assoc_other; [apply HO|]. intro Heq. inversion Heq; subst.
      rewrite (proj2 (k2_eqb_spec (o, a) (o, a)) eq_refl) in E. discriminate.
  - intros o' a'. unfold pool_of. simpl. rewrite aget_aset2.
    destruct (k2_eqb (o', a') (o, a)) eqn:E; [|apply HO].
    apply k2_eqb_spec in E. inversion E; subst. simpl. apply HO.
Qed.

Lemma keys_slash_one prop s k : map fst (st_rows (slash_one prop s k)) = map fst (st_rows s).
Proof.
  destruct k as [o a]. unfold slash_one. simpl fst. simpl snd.
  destruct (if _ =? 0 then _ else None); simpl; [apply zr_keys|reflexivity].
Qed.

Lemma OpInv_slash_fold prop keys ks : 0 <= prop <= P -> forall s, Inv s -> OpInv s -> keys_in ks s ->
  OpInv (fold_left (slash_one prop) keys s) /\ keys_in ks (fold_left (slash_one prop) keys s).
Proof.
  intros Hp. induction keys as [|k r IH]; simpl; intros s I HO HK; [auto|].
  apply IH.
  - apply Inv_slash_one; assumption.
  - apply OpInv_slash_one; assumption.
  - unfold keys_in. rewrite keys_slash_one. exact HK.
Qed.

Lemma aget_some_in {V} (l : list (k3 * V)) k v : aget k3_eqb l k = Some v -> In k (map fst l).
Proof.
  induction l as [|[k0 v0] r IH]; simpl; [discriminate|].
  destruct (k3_eqb k k0) eqn:E; [apply k3_eqb_spec in E; subst; auto|]. intros H. right. auto.
Qed.

Lemma validate_key s st a o amt sh : validate_undelegation s st a o amt = Some sh -> In (st, a, o) (map fst (st_rows s)).
Proof.
  unfold validate_undelegation. destruct (aget k3_eqb (st_rows s) (st, a, o)) as [mine|] eqn:E; [|discriminate].
  intros _. eapply aget_some_in; eauto.
Qed.

Lemma keys_in_aset ks s (rows' : list (k3 * Z)) k v :
  keys_in ks s -> In k ks -> forall x, In x (map fst (aset k3_eqb (st_rows s) k v)) -> In x ks.
Proof.
  intros HK Hk x Hx. apply (aset_keys_in k3_eqb k3_eqb_spec) in Hx. destruct Hx as [->|Hx]; [assumption|apply HK; assumption].
Qed.

Lemma OpInv_remove_share ks s st a o sh s' : do_remove_share s st a o sh = Some s' ->
  OpInv s -> keys_in ks s -> In (st, a, o) ks -> OpInv s' /\ keys_in ks s'.
Proof.
  intros E HO HK Hk. unfold do_remove_share in E.
  destruct (negb (sh >? 0)); [discriminate|].
  destruct (sh >? p_tot (pool_of s o a)); [discriminate|].
  destruct (removed_tokens (pool_of s o a) sh) as [tok| |]; try discriminate.
  destruct (p_amt (pool_of s o a) <? tok); [discriminate|].
  destruct (is_assoc s st o && (p_op (pool_of s o a) <? sh)); [discriminate|].
  destruct (share_of s st a o - sh <? 0); [discriminate|].
  assert (G : forall lists', OpInv (mkSt (aset k2_eqb (st_pools s) (o, a)
               (mkPool (p_amt (pool_of s o a) - tok) (p_tot (pool_of s o a) - sh)
                  (if is_assoc s st o then p_op (pool_of s o a) - sh else p_op (pool_of s o a))))
               (aset k3_eqb (st_rows s) (st, a, o) (share_of s st a o - sh)) lists' (st_assoc s) (st_free s))).
  { intros lists' o' a'. unfold pool_of at 1. simpl. rewrite aget_aset2, rows_sum_assoc_aset, matches_k2. simpl fst.
    unfold shget. fold (share_of s st a o). rewrite is_as_assoc.
    destruct (k2_eqb (o', a') (o, a)) eqn:Ek.
    - apply k2_eqb_spec in Ek. inversion Ek; subst o' a'. simpl. rewrite (HO o a).
      destruct (is_assoc s st o); simpl; lia.
    - simpl. fold (pool_of s o' a'). rewrite (HO o' a'). lia. }
  destruct (share_of s st a o - sh =? 0).
  - destruct (aget k2_eqb (st_lists s) (o, a)); [|discriminate]. injection E as <-.
    split; [apply G|]. unfold keys_in. simpl. apply (keys_in_aset ks s (st_rows s)); assumption.
  - injection E as <-. split; [apply G|]. unfold keys_in. simpl. apply (keys_in_aset ks s (st_rows s)); assumption.
Qed.

Lemma staker_rows_in s st a o sh : In (o, sh) (staker_rows s st a) -> In (st, a, o) (map fst (st_rows s)).
Proof.
  unfold staker_rows. intros H. apply in_flat_map in H. destruct H as [[[[st' a'] o'] v] [Hin H]]. simpl in H.
  destruct (String.eqb st' st) eqn:E1; simpl in H; [|contradiction].
  destruct (String.eqb a' a) eqn:E2; simpl in H; [|contradiction].
  destruct H as [H|[]]. inversion H; subst. apply String.eqb_eq in E1. apply String.eqb_eq in E2. subst.
  apply in_map_iff. exists (st, a, o, sh). auto.
Qed.

Lemma OpInv_nst_fold ks prop st a rs : forall dep s s', nst_fold prop st a rs dep s = Some s' ->
  Inv s -> OpInv s -> keys_in ks s -> (forall o sh, In (o, sh) rs -> In (st, a, o) ks) -> OpInv s' /\ keys_in ks s'.
Proof.
  induction rs as [|[o sh] r IH]; simpl; intros dep s s' H I HO HK Hrs; [injection H as <-; auto|].
  destruct (removed_tokens (pool_of s o a) (dec_mul sh prop)) as [tok| |]; try discriminate.
  destruct (do_remove_share s st a o (dec_mul sh prop)) as [s1|] eqn:E; [|discriminate].
  destruct (dep <? tok); [discriminate|].
  destruct (OpInv_remove_share ks s st a o _ s1 E HO HK (Hrs o sh (or_introl eq_refl))) as [A B].
  eapply IH; eauto. eapply Inv_remove_share; eauto.
Qed.

Lemma OpInv_step ks ops s x : Inv s -> OpInv s -> keys_in ks s -> op_exact ks x ->
  OpInv (fst (step ops s x)) /\ keys_in ks (fst (step ops s x)).
Proof.
  intros I HO HK HX. unfold step. destruct (step_opt ops s x) as [s'|] eqn:E; simpl; [|auto].
  destruct x as [st a amt|st a o amt|st a o amt|c st o|st|o prop|st a amt pend dep]; simpl in E, HX.
  - (* Deposit *)
    unfold do_deposit in E. destruct (amt <? 0); [discriminate|]. injection E as <-. split; [exact HO|exact HK].
  - (* Delegate *)
    unfold do_delegate in E.
    destruct (negb (amt >? 0)); [discriminate|]. destruct (negb (mem o ops)); [discriminate|].
    destruct (free_of s st a <? amt); [discriminate|].
    destruct (calc_share (pool_of s o a) amt) as [sh| |]; try discriminate. injection E as <-.
    split.
    + intros o' a'. unfold pool_of at 1. simpl. rewrite aget_aset2, rows_sum_assoc_aset, matches_k2. simpl fst.
      unfold shget. fold (share_of s st a o). rewrite is_as_assoc.
      destruct (k2_eqb (o', a') (o, a)) eqn:Ek.
      * apply k2_eqb_spec in Ek. inversion Ek; subst o' a'. simpl. rewrite (HO o a).
        destruct (is_assoc s st o); simpl; lia.
      * simpl. fold (pool_of s o' a'). rewrite (HO o' a'). lia.
    + unfold keys_in. simpl. apply (keys_in_aset ks s (st_rows s)); assumption.
  - (* Undelegate *)
    unfold do_undelegate in E.
    destruct (negb (amt >? 0)); [discriminate|]. destruct (negb (mem o ops)); [discriminate|].
    destruct (validate_undelegation s st a o amt) as [sh|] eqn:V; [|discriminate].
    pose proof (HK _ (validate_key _ _ _ _ _ _ V)) as Hk.
    eapply OpInv_remove_share; eauto.
  - (* Associate *)
    unfold do_associate in E. destruct (negb c); [discriminate|]. destruct (negb (mem o ops)); [discriminate|].
    destruct (assoc_of s st) eqn:EA; [discriminate|].
    destruct (move_op_share 1 st o (st_rows s) (st_pools s)) as [pools'|] eqn:M; [|discriminate].
    injection E as <-. split; [|exact HK].
    intros o' a'. unfold pool_of. simpl.
    pose proof (move_op_share_effect 1 st o (st_rows s) (st_pools s) pools'
                  (fun k Hk => HX k (HK k Hk)) M o' a') as Eff.
    unfold pget in Eff. rewrite Eff. rewrite rows_sum_assoc_set by exact EA.
    pose proof (HO o' a') as H0. unfold pool_of in H0. rewrite H0. destruct (String.eqb o' o); lia.
  - (* Dissociate *)
    unfold do_dissociate in E. destruct (assoc_of s st) as [o|] eqn:EA; [|discriminate].
    destruct (move_op_share (-1) st o (st_rows s) (st_pools s)) as [pools'|] eqn:M; [|discriminate].
    injection E as <-. split; [|exact HK].
    intros o' a'. unfold pool_of. simpl.
    pose proof (move_op_share_effect (-1) st o (st_rows s) (st_pools s) pools'
                  (fun k Hk => HX k (HK k Hk)) M o' a') as Eff.
    unfold pget in Eff. rewrite Eff. rewrite (rows_sum_assoc_del _ _ _ o) by exact EA.
    pose proof (HO o' a') as H0. unfold pool_of in H0. rewrite H0. destruct (String.eqb o' o); lia.
  - (* Slash *)
    unfold do_slash in E. destruct ((prop <? 0) || (prop >? P)) eqn:Ep; [discriminate|].
    apply orb_false_iff in Ep. destruct Ep as [E1 E2]. apply Z.ltb_ge in E1. rewrite Z.gtb_ltb in E2. apply Z.ltb_ge in E2.
    injection E as <-. apply OpInv_slash_fold; auto.
  - (* NstBalance *)
    unfold do_nst_balance in E.
    assert (SF : forall v, OpInv (set_free s st a v) /\ keys_in ks (set_free s st a v)) by (intros v; split; [exact HO|exact HK]).
    destruct (amt >? 0); [injection E as <-; apply SF|].
    destruct (amt =? 0); [injection E as <-; auto|].
    destruct (aget k2_eqb (st_free s) (st, a)) as [free|]; [|discriminate].
    cbv zeta in E.
    destruct (dep <? Z.min (- amt) free); [discriminate|].
    destruct (- amt - free <=? 0); [injection E as <-; apply SF|].
    destruct (dep - Z.min (- amt) free <? Z.min (- amt - free) pend); [discriminate|].
    destruct (- amt - free - pend <=? 0); [injection E as <-; apply SF|].
    destruct (total_delegated _ a _) as [tot|]; [|discriminate].
    destruct (tot =? 0); [injection E as <-; apply SF|].
    eapply OpInv_nst_fold; [exact E | apply Inv_set_free; exact I | apply SF | apply SF |].
    intros o sh Hin. apply HK. apply (staker_rows_in _ _ _ _ _ Hin).
Qed.

Theorem OpInv_run ks ops l : Forall (op_exact ks) l -> forall s, Inv s -> OpInv s -> keys_in ks s -> OpInv (run ops s l).
Proof.
  unfold run. induction 1 as [|x r Hx Hr IH]; simpl; intros s I HO HK; [assumption|].
  destruct (OpInv_step ks ops s x I HO HK Hx) as [A B].
  apply IH; [apply Inv_step; assumption | assumption | assumption].
Qed.

(* ---------------- the hypothesis as a boolean over the history ---------------- *)
Definition delegate_keys (l : list op) : list k3 :=
  flat_map (fun x => match x with Delegate st a o _ => [(st, a, o)] | _ => [] end) l.

Definition scan_exact_on (ks : list k3) (st : string) : bool :=
  forallb (fun k => Bool.eqb (scan_hit st k) (String.eqb (fst (fst k)) st)) ks.

Definition scan_exact_b (l : list op) : bool :=
  forallb (fun x => match x with
                    | Associate _ st _ | Dissociate st => scan_exact_on (delegate_keys l) st
                    | _ => true end) l.

Lemma scan_exact_ops l : scan_exact_b l = true -> Forall (op_exact (delegate_keys l)) l.
Proof.
  intros H. unfold scan_exact_b in H. rewrite forallb_forall in H. apply Forall_forall. intros x Hx.
  specialize (H x Hx). destruct x; simpl; auto.
  - unfold delegate_keys. apply in_flat_map. eexists. split; [exact Hx|]. simpl. auto.
  - intros k Hk. unfold scan_exact_on in H. rewrite forallb_forall in H. apply eqb_prop. apply H. assumption.
  - intros k Hk. unfold scan_exact_on in H. rewrite forallb_forall in H. apply eqb_prop. apply H. assumption.
Qed.

Theorem operator_share_exact ops l : scan_exact_b l = true ->
  forall o a, p_op (pool_of (run ops st0 l) o a) = rows_sum_assoc (st_assoc (run ops st0 l)) (st_rows (run ops st0 l)) o a.
Proof.
  intros H. apply (OpInv_run (delegate_keys l)).
  - apply scan_exact_ops. assumption.
  - apply Inv_st0.
  - intros o a. reflexivity.
  - intros k Hk. simpl in Hk. contradiction.
Qed.

Lemma inv_opshare_b_of s : OpInv s -> inv_opshare_b s = true.
Proof. intros HO. unfold inv_opshare_b. apply forallb_forall. intros [o a] _. simpl. apply Z.eqb_eq. apply HO. Qed.

(* ---------------- well-formed ids discharge the scan hypothesis ---------------- *)
(* with the "/" delimiter in the scan prefix, ids that contain no "/" are scanned exactly *)
Fixpoint noslash (s : string) : bool :=
  match s with
  | EmptyString => true
  | String c r => negb (Ascii.eqb c "/"%char) && noslash r
  end.

Lemma prefix_nil s : String.prefix "" s = true.
Proof. destruct s; reflexivity. Qed.

Lemma prefix_cons a s1 b s2 :
  String.prefix (String a s1) (String b s2) = if ascii_dec a b then String.prefix s1 s2 else false.
Proof. reflexivity. Qed.

Lemma app_cons c s t : (String c s ++ t)%string = String c (s ++ t)%string.
Proof. reflexivity. Qed.

Lemma app_nil_l t : ("" ++ t)%string = t.
Proof. reflexivity. Qed.

Lemma noslash_cons c s : noslash (String c s) = true -> c <> "/"%char /\ noslash s = true.
Proof.
  simpl. intros H. apply andb_true_iff in H. destruct H as [Hc Hs]. split; [|assumption].
  intro E. subst c. rewrite Ascii.eqb_refl in Hc. discriminate.
Qed.

Lemma prefix_delim_exact st : forall st' rest, noslash st = true -> noslash st' = true ->
  String.prefix (st ++ "/") (st' ++ "/" ++ rest) = String.eqb st' st.
Proof.
  induction st as [|c s IH]; intros st' rest H H'.
  - destruct st' as [|c' s'].
    + rewrite !app_nil_l, app_cons, prefix_cons, prefix_nil. destruct (ascii_dec "/" "/"); [reflexivity|congruence].
    + apply noslash_cons in H'. destruct H' as [Hc _].
      rewrite app_nil_l, app_cons, prefix_cons. destruct (ascii_dec "/" c') as [E|E]; [congruence|reflexivity].
  - apply noslash_cons in H. destruct H as [Hc Hs].
    destruct st' as [|c' s'].
    + rewrite app_nil_l, !app_cons, prefix_cons. destruct (ascii_dec c "/") as [E|E]; [congruence|reflexivity].
    + apply noslash_cons in H'. destruct H' as [_ Hs'].
      rewrite !app_cons, prefix_cons. simpl String.eqb.
      destruct (ascii_dec c c') as [E|E].
      * subst c'. rewrite Ascii.eqb_refl. apply IH; assumption.
      * destruct (Ascii.eqb c' c) eqn:E2; [apply Ascii.eqb_eq in E2; congruence|reflexivity].
Qed.

Lemma scan_hit_exact st k : noslash st = true -> noslash (fst (fst k)) = true ->
  scan_hit st k = String.eqb (fst (fst k)) st.
Proof.
  intros H H'. destruct k as [[st' a] o]. unfold scan_hit, row_key. simpl fst. simpl snd.
  apply prefix_delim_exact; assumption.
Qed.

(* every staker id that the history uses (in Delegate, Associate, Dissociate) is free of "/" *)
Definition wf_ids_b (l : list op) : bool :=
  forallb (fun x => match x with
                    | Delegate st _ _ _ | Associate _ st _ | Dissociate st => noslash st
                    | _ => true end) l.

Lemma wf_ids_scan_exact l : wf_ids_b l = true -> scan_exact_b l = true.
Proof.
  intros H. unfold wf_ids_b in H. rewrite forallb_forall in H.
  assert (K : forall k, In k (delegate_keys l) -> noslash (fst (fst k)) = true).
  { intros k Hk. unfold delegate_keys in Hk. apply in_flat_map in Hk. destruct Hk as [x [Hx Hk]].
    specialize (H x Hx). destruct x; simpl in Hk; try contradiction.
    destruct Hk as [<-|[]]. exact H. }
  unfold scan_exact_b. apply forallb_forall. intros x Hx. specialize (H x Hx).
  destruct x; try reflexivity.
  - unfold scan_exact_on. apply forallb_forall. intros k Hk. rewrite scan_hit_exact; auto. apply eqb_reflx.
  - unfold scan_exact_on. apply forallb_forall. intros k Hk. rewrite scan_hit_exact; auto. apply eqb_reflx.
Qed.

Theorem operator_share_wf ops l : wf_ids_b l = true ->
  forall o a, p_op (pool_of (run ops st0 l) o a) = rows_sum_assoc (st_assoc (run ops st0 l)) (st_rows (run ops st0 l)) o a.
Proof. intros H. apply operator_share_exact. apply wf_ids_scan_exact. assumption. Qed.
