(* C02/Props.v — property C02: share accounting is consistent and fair between co-delegators.
   Only statements + `exact`; the proofs are in C02/Laws.v (pure laws about the GENERATED kernels of
   Gen/Kernels.v) and C02/Proofs.v (ledger invariants of C02/Model.v over all histories).
   S = total shares of a pool as the scaled integer of the LegacyDec (10^-18 units), T = pool amount. *)
From Coq Require Import List String Bool ZArith Lia.
From Exo Require Import Base.IntDec Base.IntDec2 Base.Util Gen.Kernels C02.Model C02.Laws C02.Proofs C02.ProofsOp C02.Interleaved.
Import ListNotations.
Local Open Scope Z_scope.

(* ================= pure laws over the whole numeric domain (generated kernels) ================= *)

(* minting never over-issues shares and under-issues by less than one token's worth *)
Theorem C02_mint_never_over_issues : forall S x T sh,
  SharesFromTokens S x T = KOk sh -> 0 <= S -> 0 <= x -> 0 < T ->
  sh * T <= S * x /\ S * x - T < sh * T /\ 0 <= sh.
Proof. exact mint_never_over_issues. Qed.

(* redeemed tokens lie between floor and ceiling of the exact value sh*T/S and never exceed the pool *)
Theorem C02_tokens_from_shares_bounds : forall sh S T t,
  TokensFromShares sh S T = KOk t -> 0 <= sh -> 0 < S -> 0 <= T ->
  sh * T / S <= t /\ (forall k, 0 <= k -> sh * T <= k * S -> t <= k) /\ t <= T /\ 0 <= t.
Proof. exact tokens_bounds. Qed.

(* inside the overflow guards the conversions neither fail nor panic *)
Theorem C02_kernels_total : forall sh S T x,
  0 <= sh <= S -> 0 < S -> 0 < T -> 0 <= x -> sh * T < 2 ^ 315 -> T < 2 ^ 250 -> S * x < 2 ^ 315 ->
  (exists t, TokensFromShares sh S T = KOk t) /\ (exists s', SharesFromTokens S x T = KOk s').
Proof.
  intros sh S T x H1 H2 H3 H4 H5 H6 H7. split.
  - eexists. apply TFS_total; lia.
  - eexists. apply SFT_total; lia.
Qed.

(* first delegation: x tokens into the empty pool give dec_of_int x shares, worth exactly x *)
Theorem C02_first_delegation : forall x t,
  0 < x -> calc_share pool0 x = KOk (dec_of_int x) /\
  (TokensFromShares (dec_of_int x) (dec_of_int x) x = KOk t -> t = x).
Proof. intros x t Hx. split; [reflexivity | apply first_delegation_redeem; assumption]. Qed.

(* round trip: delegate x into (S,T), redeem exactly the minted shares: at most x, and at least x-1 under the
   explicit exchange-rate guard rate_ok S T (pool amount <= 10^18 * share total) *)
Theorem C02_round_trip : forall S T x sh t,
  0 < S -> 0 < T -> 0 < x ->
  SharesFromTokens S x T = KOk sh -> TokensFromShares sh (S + sh) (T + x) = KOk t ->
  t <= x /\ (rate_ok S T = true -> x - 1 <= t).
Proof.
  intros S T x sh t HS HT Hx H1 H2. split.
  - exact (round_trip_upper S T x sh t HS HT Hx H1 H2).
  - intros Hr. exact (round_trip_lower S T x sh t HS HT Hx Hr H1 H2).
Qed.

(* the guard is needed: a concrete pool outside it where the delegator loses 250 units *)
Theorem C02_round_trip_guard_needed :
  exists S T x sh t, 0 < S /\ 0 < T /\ 0 < x /\ rate_ok S T = false /\
    SharesFromTokens S x T = KOk sh /\ TokensFromShares sh (S + sh) (T + x) = KOk t /\ t < x - 1.
Proof. exact round_trip_lower_needs_guard. Qed.

(* a delegation by A changes the redeemable value of B's shares by 0 or +1 *)
Theorem C02_bystander_delegate : forall S T x sh shB b b',
  0 < S -> 0 < T -> rate_ok S T = true -> 0 < x -> 0 <= shB <= S ->
  SharesFromTokens S x T = KOk sh -> TokensFromShares shB S T = KOk b ->
  TokensFromShares shB (S + sh) (T + x) = KOk b' -> b <= b' <= b + 1.
Proof. exact bystander_delegate. Qed.

(* an undelegation of r shares by A (B keeps shB > 0) changes the value of B's shares by at most one unit *)
Theorem C02_bystander_undelegate : forall S T r out shB b b',
  0 < S -> 0 <= T -> 0 < r -> 0 < shB -> shB + r <= S ->
  TokensFromShares r S T = KOk out -> TokensFromShares shB S T = KOk b ->
  TokensFromShares shB (S - r) (T - out) = KOk b' -> b - 1 <= b' <= b + 1 /\ 0 <= out <= T.
Proof. exact bystander_undelegate. Qed.

(* fairness across INTERLEAVED operations of other stakers (no slash): every foreign delegation (FDel) / undelegation
   (FUnd, of the others' own shares) moves the redeemable value of A's shares by at most one unit, for any list fs *)
Theorem C02_interleaved_bystander : forall shA fs S T S' T' b b',
  0 < shA <= S -> 0 <= T <= S -> prun shA (S, T) fs = Some (S', T') ->
  TokensFromShares shA S T = KOk b -> TokensFromShares shA S' T' = KOk b' ->
  b - count_und fs <= b' <= b + Z.of_nat (List.length fs).
Proof. exact interleaved_bystander. Qed.

(* ... hence a staker who delegated x and redeems its minted shares after the foreign operations fs gets back at
   least x - 1 - #foreign undelegations and at most x + #foreign operations (the others' rounding losses accrue to
   the pool, so "at most x" holds only for the immediate round trip C02_round_trip, i.e. fs = []) *)
Theorem C02_round_trip_interleaved : forall S T x sh fs S' T' t,
  0 < S -> 0 < T -> rate_ok S T = true -> 0 < x ->
  SharesFromTokens S x T = KOk sh -> prun sh (S + sh, T + x) fs = Some (S', T') ->
  TokensFromShares sh S' T' = KOk t ->
  x - 1 - count_und fs <= t <= x + Z.of_nat (List.length fs).
Proof.
  intros S T x sh fs S' T' t HS HT Hr. unfold rate_ok in Hr. apply Z.leb_le in Hr.
  intros Hx. apply round_trip_interleaved; assumption.
Qed.

(* ================= ledger invariants over ALL histories ================= *)
(* reachable = run ops st0 l for an arbitrary operation list l (Deposit, Delegate, Undelegate incl. the
   dust-sweep and last-share branches, Associate, Dissociate, Slash with any proportion in [0,1]) and an
   arbitrary set [ops] of registered operators *)

Theorem C02_total_share : forall ops l o a,
  p_tot (pool_of (run ops st0 l) o a) = rows_sum (st_rows (run ops st0 l)) o a.
Proof. intros. apply inv_T. apply Inv_run. apply Inv_st0. Qed.

Theorem C02_staker_list : forall ops l o a,
  NoDup (list_of (run ops st0 l) o a) /\
  forall st, In st (list_of (run ops st0 l) o a) <-> share_of (run ops st0 l) st a o <> 0.
Proof.
  intros. pose proof (Inv_run ops l st0 Inv_st0) as I. split; [apply (inv_L1 _ I)|].
  intros st. split; [apply (inv_L3 _ I) | apply (inv_L2 _ I)].
Qed.

(* the exchange-rate guard of the round-trip / bystander laws holds in every reachable pool, shares and amounts
   are never negative, and an empty share total implies an empty pool *)
Theorem C02_rate_ok_reachable : forall ops l o a,
  let p := pool_of (run ops st0 l) o a in
  0 <= p_amt p <= p_tot p /\ rate_ok (p_tot p) (p_amt p) = true /\ (p_tot p = 0 -> p_amt p = 0) /\
  forall st, 0 <= share_of (run ops st0 l) st a o.
Proof.
  intros. pose proof (Inv_run ops l st0 Inv_st0) as I. pose proof (inv_R _ I o a) as R.
  repeat split; try (apply R).
  - unfold rate_ok. apply Z.leb_le. apply R.
  - intros H0. unfold p in *. lia.
  - intros st. apply (inv_N _ I).
Qed.

(* the booleans that the monitor evaluates on the implementation's dumps are true of every reachable model state *)
Theorem C02_monitored_invariants : forall ops l,
  inv_total_b (run ops st0 l) = true /\ inv_list_b (run ops st0 l) = true.
Proof.
  intros. pose proof (Inv_run ops l st0 Inv_st0) as I. split; [apply inv_total_b_of | apply inv_list_b_of]; assumption.
Qed.

(* "amount = 0 -> totalShare = 0" is FALSE of the faithful model (and of the code: known finding
   C02-rounding-empties-pool): banker's rounding in TokensFromShares hands the whole pool to an undelegation that
   leaves another staker's shares behind *)
Definition C02_zero_pool_full : Prop :=
  forall ops l o a, p_amt (pool_of (run ops st0 l) o a) = 0 -> p_tot (pool_of (run ops st0 l) o a) = 0.

Definition zero_pool_witness : list op :=
  [Deposit "A" "usdt" 4000000000000000001; Delegate "A" "usdt" "O" 4000000000000000001;
   Deposit "B" "usdt" 1; Delegate "B" "usdt" "O" 1;
   Slash "O" 999999999999999999; Slash "O" 700000000000000000;
   Undelegate "A" "usdt" "O" 1]%string.

Theorem C02_zero_pool_refuted :
  exists ops l, inv_zero_pool_b (run ops st0 l) = false /\
                pool_of (run ops st0 l) "O" "usdt" = mkPool 0 1000000000000000000 0.
Proof. exists ["O"%string], zero_pool_witness. vm_compute. split; reflexivity. Qed.

Theorem C02_zero_pool_refuted_full : ~ C02_zero_pool_full.
Proof.
  intros H. specialize (H ["O"%string] zero_pool_witness "O"%string "usdt"%string).
  vm_compute in H. specialize (H eq_refl). discriminate.
Qed.

(* what does hold: the converse direction (C02_rate_ok_reachable) and, after the witness, the pool is stuck:
   the next delegation and the next undelegation are rejected (ErrDivisorIsZero in the code) *)
Theorem C02_zero_pool_bricks_pool :
  let s := run ["O"%string] st0 zero_pool_witness in
  snd (step ["O"%string] s (Deposit "B" "usdt" 5)) = ROk /\
  snd (step ["O"%string] (fst (step ["O"%string] s (Deposit "B" "usdt" 5))) (Delegate "B" "usdt" "O" 5)) = RErr /\
  snd (step ["O"%string] s (Undelegate "B" "usdt" "O" 1)) = RErr.
Proof. vm_compute. repeat split; reflexivity. Qed.

(* "operatorShare = sum of the associated stakers' shares": the unrestricted statement (any strings as ids); it was FALSE
   of the code before the repair of the prefix scan (0x6 is a prefix of 0x65); C02_operator_share below proves it for all
   histories over well-formed ids *)
Definition C02_operator_share_full : Prop :=
  forall ops l o a, p_op (pool_of (run ops st0 l) o a) = rows_sum_assoc (st_assoc (run ops st0 l)) (st_rows (run ops st0 l)) o a.

Definition operator_share_witness : list op :=
  [Deposit "0xaa_0x65" "usdt" 1000; Delegate "0xaa_0x65" "usdt" "O" 1000; Associate true "0xaa_0x6" "O"]%string.

(* Regression witness of the repaired prefix scan: before the "/" delimiter was added to the scan prefix this very
   history ended with OperatorShare = 1000 shares although no associated staker held any (C02_operator_share_refuted
   at that time); with the delimiter the invariant holds on it. *)
Example C02_operator_share_prefix_witness_now_holds :
  inv_opshare_b (run ["O"%string] st0 operator_share_witness) = true /\
  p_op (pool_of (run ["O"%string] st0 operator_share_witness) "O" "usdt") = 0.
Proof. vm_compute. split; reflexivity. Qed.

(* FULL theorem (since the scan prefix ends with "/"): for every history whose staker ids are well-formed, i.e. contain
   no "/" (real ids are 0x<hex>_0x<hex>), OperatorShare is the sum of the associated stakers' shares, in every pool,
   after every operation. [wf_ids_b] is a boolean over the history; C02_wf_ids_example shows it is satisfiable and that it
   rejects an id with a "/". The scan-exactness form (C02_operator_share_scan_exact) is kept: it is the weaker
   hypothesis that also covered the pre-repair scan. *)
Theorem C02_operator_share : forall ops l, wf_ids_b l = true ->
  forall o a, p_op (pool_of (run ops st0 l) o a) =
              rows_sum_assoc (st_assoc (run ops st0 l)) (st_rows (run ops st0 l)) o a.
Proof. exact operator_share_wf. Qed.

Theorem C02_operator_share_monitored : forall ops l, wf_ids_b l = true -> inv_opshare_b (run ops st0 l) = true.
Proof. intros ops l H. apply inv_opshare_b_of. intros o a. apply operator_share_wf. assumption. Qed.

Theorem C02_operator_share_scan_exact : forall ops l, scan_exact_b l = true ->
  forall o a, p_op (pool_of (run ops st0 l) o a) =
              rows_sum_assoc (st_assoc (run ops st0 l)) (st_rows (run ops st0 l)) o a.
Proof. exact operator_share_exact. Qed.

Example C02_wf_ids_example :
  wf_ids_b operator_share_witness = true /\
  wf_ids_b [Deposit "0xaa_0x65" "usdt" 1000; Delegate "0xaa_0x65" "usdt" "O" 1000; Delegate "0xaa_0x65" "usdc" "O" 7;
            Associate true "0xaa_0x65" "O"; Delegate "0xab_0x65" "usdt" "O" 5; Dissociate "0xaa_0x65"]%string = true /\
  wf_ids_b [Associate true "0xaa/usdt" "O"]%string = false.
Proof. vm_compute. repeat split; reflexivity. Qed.

(* non-vacuity: a history that exercises every operation kind and ends in a non-trivial state satisfying everything above *)
Example C02_nonvacuous :
  let l := [Deposit "A" "usdt" 1000003; Delegate "A" "usdt" "O" 1000003; Associate true "A" "O";
            Deposit "B" "usdt" 97; Delegate "B" "usdt" "O" 97; Slash "O" 500000000000000000;
            Deposit "B" "usdt" 7; Delegate "B" "usdt" "O" 7; Undelegate "A" "usdt" "O" 1000; Dissociate "A"]%string in
  let s := run ["O"%string] st0 l in
  pool_of s "O" "usdt" = mkPool 499057 998114000000000000000000 0 /\
  list_of s "O" "usdt" = ["A"; "B"]%string /\
  inv_total_b s && inv_opshare_b s && inv_list_b s && inv_zero_pool_b s && inv_rate_b s = true.
Proof. vm_compute. repeat split; reflexivity. Qed.

(* NstBalance (UpdateNSTBalance) is covered by all ledger theorems above (it is an [op]); a concrete history in which a
   client-chain balance decrease removes a staker's whole delegation in two pools (proportion capped at 1): the staker
   leaves both staker lists, the share totals follow *)
Example C02_nst_balance_example :
  let l := [Deposit "A" "usdt" 1000; Delegate "A" "usdt" "O" 600; Delegate "A" "usdt" "Q" 300; Associate true "A" "O";
            Deposit "B" "usdt" 50; Delegate "B" "usdt" "O" 50; NstBalance "A" "usdt" (-5000) 0 1000]%string in
  let s := run ["O"; "Q"]%string st0 l in
  wf_ids_b l = true /\
  pool_of s "O" "usdt" = mkPool 50 (50 * P) 0 /\ pool_of s "Q" "usdt" = mkPool 0 0 0 /\
  list_of s "O" "usdt" = ["B"]%string /\ list_of s "Q" "usdt" = [] /\ free_of s "A" "usdt" = 0 /\
  inv_total_b s && inv_opshare_b s && inv_list_b s && inv_zero_pool_b s && inv_rate_b s = true.
Proof. vm_compute. repeat split; reflexivity. Qed.
