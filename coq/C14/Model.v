(* C14/Model.v — executable model of the oracle's process-local state (aggregator context + cache), of what
   EndBlock persists, and of recacheAggregatorContext (x/oracle/keeper/single.go). Definitions only.

   Granularity: validators, feeders, tokens, det-IDs and prices are integers; messages carry ONE deterministic
   source (id 1, "Chainlink", the only source of the default params) with 1..MaxDetID (detID, price) pairs.
   Params are fixed per history (feeder table, MaxNonce); histories with a params update are run by the harness
   for the twin monitor but are not replayed through this model (design/C14.md). *)
From Coq Require Import List Bool ZArith Lia.
From Exo Require Import Base.Util.
Import ListNotations.
Local Open Scope Z_scope.

(* ---- association lists keyed by Z, kept sorted by key (canonical) ----------------------------------- *)
Fixpoint aget {A} (k : Z) (l : list (Z * A)) : option A :=
  match l with
  | [] => None
  | (k', v) :: r => if k =? k' then Some v else aget k r
  end.

Fixpoint aset {A} (k : Z) (v : A) (l : list (Z * A)) : list (Z * A) :=
  match l with
  | [] => [(k, v)]
  | (k', v') :: r => if k =? k' then (k, v) :: r else if k <? k' then (k, v) :: l else (k', v') :: aset k v r
  end.

Definition adel {A} (k : Z) (l : list (Z * A)) : list (Z * A) :=
  filter (fun e => negb (k =? fst e)) l.

Fixpoint zmem (x : Z) (l : list Z) : bool :=
  match l with [] => false | y :: r => (x =? y) || zmem x r end.

Definition zlen {A} (l : list A) : Z := Z.of_nat (length l).

(* ---- oracle params ---------------------------------------------------------------------------------- *)
Record feeder := mkFeeder { f_id : Z; f_token : Z; f_start : Z; f_interval : Z; f_startround : Z; f_end : Z }.
Record params := mkParams { p_feeders : list feeder; p_maxnonce : Z }.
Definition max_det_id : Z := 5.
Definition thr_a : Z := 2.
Definition thr_b : Z := 3.

Fixpoint get_feeder (fs : list feeder) (id : Z) : option feeder :=
  match fs with [] => None | f :: r => if f_id f =? id then Some f else get_feeder r id end.

(* common.ExceedsThreshold *)
Definition exceeds (power total : Z) : bool := total * thr_a <? power * thr_b.

(* ---- worker = filter + calculator + aggregator for one feeder round ------------------------------ *)
Record calc_round := mkCR { cr_det : Z; cr_prices : list (Z * Z); cr_conf : option Z }.
Record report := mkRep { rp_val : Z; rp_power : Z; rp_price : option Z }.
(* everything of a worker except the filter's nonce sets *)
Record core := mkC {
  c_sealed : bool;
  c_seen : list (Z * list Z);       (* filter.validatorSource for source 1 *)
  c_calc : list calc_round;         (* calculator.deterministicSource[1] *)
  c_reports : list report;          (* aggregator.reports, arrival order *)
  c_rpower : Z;
  c_ds : option Z;                  (* aggregator.dsPrices[1] *)
  c_total : Z; c_nval : Z }.
Record worker := mkW {
  w_nonces : list (Z * list Z);     (* filter.validatorNonce *)
  w_core : core }.
Definition w_sealed (w : worker) : bool := c_sealed (w_core w).

Definition new_worker (vals : list (Z * Z)) : worker :=
  mkW [] (mkC false [] [] [] 0 None (zsum (map snd vals)) (zlen vals)).
Definition sealed_worker : worker := mkW [] (mkC true [] [] [] 0 None 0 0).

(* common.Set.Add with capacity *)
Definition set_add (cap : Z) (x : Z) (s : list Z) : list Z * bool :=
  if (zlen s =? cap) || zmem x s then (s, false) else (s ++ [x], true).

(* filter.addPSource for one deterministic source: keeps the pairs whose detID is new and fits *)
Fixpoint add_psource (seen : list Z) (ps : list (Z * Z)) : list Z * list (Z * Z) :=
  match ps with
  | [] => (seen, [])
  | (d, p) :: r =>
      let '(seen1, ok) := set_add max_det_id d seen in
      let '(seen2, kept) := add_psource seen1 r in
      (seen2, if ok then (d, p) :: kept else kept)
  end.

(* aggregator.fillPrice (one DS source): slot of a new report copies an already confirmed price *)
Fixpoint last_price (rs : list report) (acc : option Z) : option Z :=
  match rs with [] => acc | r :: t => last_price t (match rp_price r with Some p => Some p | None => acc end) end.
Fixpoint has_report (v : Z) (rs : list report) : bool :=
  match rs with [] => false | r :: t => (rp_val r =? v) || has_report v t end.
Definition agg_fill (c : core) (v power : Z) : core :=
  if has_report v (c_reports c) then c
  else
    let pr := match c_ds c with Some _ => last_price (c_reports c) None | None => None end in
    mkC (c_sealed c) (c_seen c) (c_calc c) (c_reports c ++ [mkRep v power pr]) (c_rpower c + power) (c_ds c) (c_total c) (c_nval c).

(* roundPrices.updatePriceAndPower *)
Fixpoint upd_prices (cap : Z) (total : Z) (ps : list (Z * Z)) (price power : Z) (n : Z)
  : list (Z * Z) * bool * option Z :=
  match ps with
  | [] => if n <? cap then ([(price, power)], true, if exceeds power total then Some price else None)
          else ([], false, None)
  | (p, pw) :: r =>
      if p =? price then ((p, pw + power) :: r, true, if exceeds (pw + power) total then Some p else None)
      else let '(r', u, c) := upd_prices cap total r price power (n + 1) in ((p, pw) :: r', u, c)
  end.

Fixpoint calc_has_conf (cs : list calc_round) : bool :=
  match cs with [] => false | c :: r => (match cr_conf c with Some _ => true | None => false end) || calc_has_conf r end.

(* getOrNewRound + updatePriceAndPower on the round list; result: new list, Some (det, price) when confirmed now *)
Fixpoint calc_upd (cs : list calc_round) (det price power total nval : Z) : option (list calc_round * option (Z * Z)) :=
  match cs with
  | [] => None
  | c :: r =>
      if cr_det c =? det then
        match cr_conf c with
        | Some _ => Some (cs, None)
        | None => let '(ps, u, conf) := upd_prices nval total (cr_prices c) price power 0 in
                  Some (mkCR det ps conf :: r, match conf with Some p => if u then Some (det, p) else None | None => None end)
        end
      else match calc_upd r det price power total nval with
           | Some (r', x) => Some (c :: r', x)
           | None => None
           end
  end.

Definition calc_one (cs : list calc_round) (det price power total nval : Z) : list calc_round * option (Z * Z) :=
  match calc_upd cs det price power total nval with
  | Some x => x
  | None =>
      if zlen cs <? max_det_id * nval then
        let '(ps, u, conf) := upd_prices nval total [] price power 0 in
        (cs ++ [mkCR det ps conf], match conf with Some p => if u then Some (det, p) else None | None => None end)
      else (cs, None)
  end.

Fixpoint calc_fill (cs : list calc_round) (kept : list (Z * Z)) (power total nval : Z) : list calc_round * option (Z * Z) :=
  match kept with
  | [] => (cs, None)
  | (d, p) :: r => let '(cs1, c) := calc_one cs d p power total nval in
                   match c with Some x => (cs1, Some x) | None => calc_fill cs1 r power total nval end
  end.

Definition confirm_ds (c : core) (det price : Z) : core :=
  match c_ds c with
  | Some _ => c   (* v1: the calculator confirms once per round *)
  | None => mkC (c_sealed c) (c_seen c) (c_calc c)
              (map (fun r => mkRep (rp_val r) (rp_power r) (Some price)) (c_reports c)) (c_rpower c) (Some det) (c_total c) (c_nval c)
  end.

(* the part of worker.do after the nonce set accepted the message: addPSource, aggregator.fillPrice,
   calculator.fillPrice, confirmDSPrice, aggregate *)
Definition core_do (c : core) (v power : Z) (ps : list (Z * Z)) : core * option (list (Z * Z)) * option Z :=
  let sn := match aget v (c_seen c) with Some l => l | None => [] end in
  let '(sn1, kept) := add_psource sn ps in
  let c1 := mkC (c_sealed c) (aset v sn1 (c_seen c)) (c_calc c) (c_reports c) (c_rpower c) (c_ds c) (c_total c) (c_nval c) in
  match kept with
  | [] => (c1, None, None)
  | _ =>
      let c2 := agg_fill c1 v power in
      let '(cs, conf) := if calc_has_conf (c_calc c2) then (c_calc c2, None) else calc_fill (c_calc c2) kept power (c_total c2) (c_nval c2) in
      let c3 := mkC (c_sealed c2) (c_seen c2) cs (c_reports c2) (c_rpower c2) (c_ds c2) (c_total c2) (c_nval c2) in
      let c4 := match conf with Some (d, p) => confirm_ds c3 d p | None => c3 end in
      let fin := if exceeds (c_rpower c4) (c_total c4)
                 then match c_ds c4 with Some _ => last_price (c_reports c4) None | None => None end else None in
      (c4, Some kept, fin)
  end.

(* worker.do + aggregate: filter.filtrate's nonce set first. Some kept when the message contributed; final price
   when the round is decided *)
Definition worker_do (maxnonce : Z) (w : worker) (v nonce power : Z) (ps : list (Z * Z))
  : worker * option (list (Z * Z)) * option Z :=
  let ns := match aget v (w_nonces w) with Some l => l | None => [] end in
  let '(ns1, ok) := set_add maxnonce nonce ns in
  if ok then
    let '(c1, kept, fin) := core_do (w_core w) v power ps in
    (mkW (aset v ns1 (w_nonces w)) c1, kept, fin)
  else (mkW (aset v ns1 (w_nonces w)) (w_core w), None, None).

(* ---- memory, store ------------------------------------------------------------------------------- *)
Record round := mkRound { r_based : Z; r_next : Z; r_open : bool }.
Record item := mkItem { i_feeder : Z; i_val : Z; i_prices : list (Z * Z) }.
Record mem := mkMem {
  m_vals : list (Z * Z);             (* agc.validatorsPower *)
  m_rounds : list (Z * round);       (* agc.rounds *)
  m_workers : list (Z * worker);     (* agc.aggregators *)
  m_msgs : list item;                (* cs.msg *)
  m_cvals : list (Z * Z);            (* cs.validators.validators *)
  m_vupd : bool;                     (* cs.validators.update *)
  m_panic : bool }.

Record store := mkStore {
  s_next : list (Z * (Z * option Z));     (* token -> (NextRoundID, latest price) *)
  s_nonce : list (Z * list (Z * Z));      (* validator -> [(feeder, value)] *)
  s_msgs : list (Z * list item);          (* RecentMsg, by block ascending *)
  s_vub : option Z;                       (* ValidatorUpdateBlock *)
  s_vals : list (Z * Z) }.                (* dogfood validator set (read by recache) *)

Definition set_rounds (m : mem) x := mkMem (m_vals m) x (m_workers m) (m_msgs m) (m_cvals m) (m_vupd m) (m_panic m).
Definition set_workers (m : mem) x := mkMem (m_vals m) (m_rounds m) x (m_msgs m) (m_cvals m) (m_vupd m) (m_panic m).
Definition set_msgs (m : mem) x := mkMem (m_vals m) (m_rounds m) (m_workers m) x (m_cvals m) (m_vupd m) (m_panic m).
Definition set_panic (m : mem) := mkMem (m_vals m) (m_rounds m) (m_workers m) (m_msgs m) (m_cvals m) (m_vupd m) true.

(* ---- FillPrice ----------------------------------------------------------------------------------- *)
Inductive fill_res := FIgnored | FAdded (it : item) | FFinal (price roundid : Z) (it : item).

Definition fill_price (p : params) (m : mem) (fid v nonce : Z) (ps : list (Z * Z)) : mem * fill_res :=
  let w := match aget fid (m_workers m) with Some w => w | None => new_worker (m_vals m) end in
  if w_sealed w then (set_workers m (aset fid w (m_workers m)), FIgnored)
  else
    let power := match aget v (m_vals m) with Some x => x | None => 0 end in
    let '(w1, kept, fin) := worker_do (p_maxnonce p) w v nonce power ps in
    let m1 := set_workers m (aset fid w1 (m_workers m)) in
    match kept with
    | None => (m1, FIgnored)
    | Some kl =>
        match fin with
        | Some price =>
            match aget fid (m_rounds m1) with
            | Some r =>
                let m2 := set_rounds m1 (aset fid (mkRound (r_based r) (r_next r) false) (m_rounds m1)) in
                (set_workers m2 (aset fid sealed_worker (m_workers m2)), FFinal price (r_next r) (mkItem fid v kl))
            | None => (set_panic m1, FIgnored)      (* nil dereference of agc.rounds[feederID] *)
            end
        | None => (m1, FAdded (mkItem fid v kl))
        end
    end.

(* checkMsg (the parts generated histories can violate) *)
Definition check_msg (m : mem) (fid v based : Z) (ps : list (Z * Z)) : bool :=
  match aget v (m_vals m) with
  | None => false
  | Some _ =>
      (1 <=? zlen ps) && (zlen ps <=? max_det_id) &&
      match aget fid (m_rounds m) with
      | Some r => r_open r && (r_based r =? based)
      | None => false
      end
  end.

(* ---- SealRound / PrepareRoundEndBlock ------------------------------------------------------------ *)
(* one pass over the rounds; returns (memory, failed tokens, sealed feeders) *)
Fixpoint seal_rounds (p : params) (h : Z) (force : bool) (rs : list (Z * round)) (ws : list (Z * worker))
  : list (Z * round) * list (Z * worker) * list Z * list Z :=
  match rs with
  | [] => ([], ws, [], [])
  | (fid, r) :: rest =>
      let '(rs', ws1, failed, sealed) := seal_rounds p h force rest ws in
      match get_feeder (p_feeders p) fid with
      | None => ((fid, r) :: rs', ws1, failed, sealed)
      | Some f =>
          let expired := (0 <? f_end f) && (f_end f <=? h) in
          let out := p_maxnonce p <=? h - r_based r in
          if r_open r && (expired || out || force) then
            ((if expired then rs' else (fid, mkRound (r_based r) (r_next r) false) :: rs'),
             adel fid ws1, f_token f :: failed, fid :: sealed)
          else
            match aget fid ws1 with
            | Some w => if w_sealed w then ((fid, r) :: rs', adel fid ws1, failed, fid :: sealed)
                        else ((fid, r) :: rs', ws1, failed, sealed)
            | None => ((fid, r) :: rs', ws1, failed, sealed)
            end
      end
  end.

Fixpoint prepare_rounds (maxnonce : Z) (block : Z) (fs : list feeder) (rs : list (Z * round)) (ws : list (Z * worker))
  : list (Z * round) * list (Z * worker) * list Z :=
  match fs with
  | [] => (rs, ws, [])
  | f :: rest =>
      if ((0 <? f_end f) && (f_end f <=? block)) || (block <? f_start f) || (f_interval f <=? 0) then
        prepare_rounds maxnonce block rest rs ws
      else
        let delta := block - f_start f in
        let left := delta mod f_interval f in
        let cnt := delta / f_interval f in
        let based := block - left in
        let nextid := f_startround f + cnt in
        let '(rs1, ws1, nw) :=
          match aget (f_id f) rs with
          | None =>
              if maxnonce <=? left then (aset (f_id f) (mkRound based nextid false) rs, ws, [])
              else (aset (f_id f) (mkRound based nextid true) rs, ws, if left =? 0 then [f_id f] else [])
          | Some r =>
              if left =? 0 then (aset (f_id f) (mkRound based nextid true) rs, adel (f_id f) ws, [f_id f])
              else if r_open r && (maxnonce <=? left) then (aset (f_id f) (mkRound (r_based r) (r_next r) false) rs, ws, [])
              else (rs, ws, [])
          end in
        let '(rs2, ws2, nw2) := prepare_rounds maxnonce block rest rs1 ws1 in
        (rs2, ws2, nw ++ nw2)
  end.

Definition prepare (p : params) (block : Z) (m : mem) : mem * list Z :=
  if block <? 1 then (m, [])
  else let '(rs, ws, nw) := prepare_rounds (p_maxnonce p) block (p_feeders p) (m_rounds m) (m_workers m) in
       (set_workers (set_rounds m rs) ws, nw).

Definition seal (p : params) (h : Z) (force : bool) (m : mem) : mem * list Z * list Z :=
  let '(rs, ws, failed, sealed) := seal_rounds p h force (m_rounds m) (m_workers m) in
  (set_workers (set_rounds m rs) ws, failed, sealed).

(* ---- store helpers ------------------------------------------------------------------------------- *)
Definition grow_round (tok : Z) (nx : list (Z * (Z * option Z))) :=
  match aget tok nx with
  | Some (n, pr) => aset tok (n + 1, pr) nx
  | None => aset tok (2, None) nx
  end.

Definition append_price (tok price roundid : Z) (nx : list (Z * (Z * option Z))) :=
  let n := match aget tok nx with Some (n, _) => n | None => 1 end in
  if n =? roundid then aset tok (n + 1, Some price) nx else grow_round tok nx.

Definition row_del (fid : Z) (row : list (Z * Z)) : list (Z * Z) :=
  filter (fun e => negb (fst e =? fid)) row.

Definition nonce_remove (fid : Z) (vals : list (Z * Z)) (ns : list (Z * list (Z * Z))) :=
  fold_left (fun acc v => match aget (fst v) acc with
                          | Some row => match row_del fid row with
                                        | [] => adel (fst v) acc
                                        | row' => aset (fst v) row' acc
                                        end
                          | None => acc end) vals ns.

Fixpoint row_has (fid : Z) (row : list (Z * Z)) : bool :=
  match row with [] => false | (f, _) :: r => (f =? fid) || row_has fid r end.

Definition nonce_add_zero (fid : Z) (vals : list (Z * Z)) (ns : list (Z * list (Z * Z))) :=
  fold_left (fun acc v => match aget (fst v) acc with
                          | Some row => if row_has fid row then acc else aset (fst v) (row ++ [(fid, 0)]) acc
                          | None => aset (fst v) [(fid, 0)] acc end) vals ns.

Fixpoint row_check (fid nonce : Z) (row : list (Z * Z)) : option (list (Z * Z)) :=
  match row with
  | [] => None
  | (f, x) :: r => if f =? fid then (if x + 1 =? nonce then Some ((f, x + 1) :: r) else None)
                   else match row_check fid nonce r with Some r' => Some ((f, x) :: r') | None => None end
  end.

(* CheckAndIncreaseNonce *)
Definition nonce_check (maxnonce v fid nonce : Z) (ns : list (Z * list (Z * Z))) : option (list (Z * list (Z * Z))) :=
  if maxnonce <? nonce then None
  else match aget v ns with
       | Some row => match row_check fid nonce row with Some row' => Some (aset v row' ns) | None => None end
       | None => None
       end.

Definition set_next (s : store) x := mkStore x (s_nonce s) (s_msgs s) (s_vub s) (s_vals s).
Definition set_nonce (s : store) x := mkStore (s_next s) x (s_msgs s) (s_vub s) (s_vals s).

(* ---- transactions, blocks ------------------------------------------------------------------------ *)
Record tx := mkTx { t_val : Z; t_feeder : Z; t_nonce : Z; t_based : Z; t_prices : list (Z * Z) }.

Record state := mkState { st_h : Z; st_store : store; st_mem : mem }.

Definition token_of (p : params) (fid : Z) : Z :=
  match get_feeder (p_feeders p) fid with Some f => f_token f | None => 0 end.

(* DeliverTx of one create-price tx: result code 0 ok, 1 nonce (ante), 2 invalid msg, 3 ignored *)
Definition deliver (p : params) (st : state) (t : tx) : state * Z :=
  let s := st_store st in
  let m := st_mem st in
  match nonce_check (p_maxnonce p) (t_val t) (t_feeder t) (t_nonce t) (s_nonce s) with
  | None => (st, 1)
  | Some ns =>
      let s1 := set_nonce s ns in
      if negb (check_msg m (t_feeder t) (t_val t) (t_based t) (t_prices t)) then (mkState (st_h st) s1 m, 2)
      else
        let '(m1, res) := fill_price p m (t_feeder t) (t_val t) (t_nonce t) (t_prices t) in
        match res with
        | FIgnored => (mkState (st_h st) s1 m1, 3)
        | FAdded it => (mkState (st_h st) s1 (set_msgs m1 (m_msgs m1 ++ [it])), 0)
        | FFinal price rid it =>
            let s2 := set_next s1 (append_price (token_of p (t_feeder t)) price rid (s_next s1)) in
            let s3 := set_nonce s2 (nonce_remove (t_feeder t) (m_vals m1) (s_nonce s2)) in
            (* cs.RemoveCache: every cached message of this feeder is dropped, the finalizing one is never cached *)
            let m2 := set_msgs m1 (filter (fun x => negb (i_feeder x =? t_feeder t)) (m_msgs m1)) in
            (mkState (st_h st) s3 m2, 0)
        end
  end.

(* cacheMsgs.commit: prune the index/window (blocks <= h - MaxNonce go; nothing goes while h < MaxNonce), append this block *)
Definition commit_msgs (maxnonce h : Z) (items : list item) (w : list (Z * list item)) : list (Z * list item) :=
  match items with
  | [] => w
  | _ => filter (fun e => h - maxnonce <? fst e) w ++ [(h, items)]
  end.

(* oracle EndBlock of block h; vu = Some new validator set when dogfood emitted validator updates *)
Definition end_block (p : params) (st : state) (vu : option (list (Z * Z))) : state :=
  let h := st_h st in
  let s := st_store st in
  let m := st_mem st in
  let '(m1, force, s0) :=
    match vu with
    | Some vs => (mkMem vs (m_rounds m) (m_workers m) (m_msgs m) vs (m_vupd m || negb (list_eqb (fun a b => (fst a =? fst b) && (snd a =? snd b)) vs (m_cvals m))) (m_panic m),
                  true, mkStore (s_next s) (s_nonce s) (s_msgs s) (s_vub s) vs)
    | None => (m, false, s)
    end in
  let '(m2, failed, sealed) := seal p h force m1 in
  (* RemoveNonceWithFeederIDForAll: the feeder's entry goes from EVERY stored nonce row, also of validators that left the set *)
  let ns1 := fold_left (fun acc fid => nonce_remove fid (map (fun e => (fst e, 0)) acc) acc) sealed (s_nonce s0) in
  let nx1 := fold_left (fun acc tok => grow_round tok acc) failed (s_next s0) in
  let msgs1 := commit_msgs (p_maxnonce p) h (m_msgs m2) (s_msgs s0) in
  let vub1 := if m_vupd m2 then Some h else s_vub s0 in
  let m3 := mkMem (m_vals m2) (m_rounds m2) (m_workers m2) [] (m_cvals m2) false (m_panic m2) in
  let '(m4, nw) := prepare p h m3 in
  let ns2 := fold_left (fun acc fid => nonce_add_zero fid (m_vals m4) acc) nw ns1 in
  mkState (h + 1) (mkStore nx1 ns2 msgs1 vub1 (s_vals s0)) m4.

(* ---- recacheAggregatorContext -------------------------------------------------------------------- *)
Definition empty_mem (vals : list (Z * Z)) : mem := mkMem vals [] [] [] vals false false.

(* one replayed block. [forced] = the block of the last validator-set change when it lies in the window: it is replayed
   without its messages but with the forced seal. Replayed messages get distinct negative nonces (MsgItem keeps none). *)
Definition replay_block (p : params) (msgs : list (Z * list item)) (forced : option Z) (acc : mem * Z) (b : Z) : mem * Z :=
  let '(m, n) := acc in
  let isf := match forced with Some v => b =? v | None => false end in
  let '(m1, _) := prepare p (b - 1) m in
  let items := if isf then [] else match aget b msgs with Some l => l | None => [] end in
  let '(m2, n2) := fold_left (fun (a : mem * Z) it => (fst (fill_price p (fst a) (i_feeder it) (i_val it) (snd a - 1) (i_prices it)), snd a - 1))
                             items (m1, n) in
  let '(m3, _, _) := seal p b isf m2 in
  (m3, n2).

Fixpoint zrange (from : Z) (n : nat) : list Z :=
  match n with O => [] | S k => from :: zrange (from + 1) k end.

(* hh = height of the block whose BeginBlock triggers the rebuild; the window is MaxNonce blocks of the STORED params *)
Definition recache (p : params) (s : store) (hh : Z) : mem :=
  let from0 := hh - p_maxnonce p + 1 in
  let '(from, forced) := match s_vub s with
                         | Some v => if from0 <=? v then (v, Some v) else (from0, None)
                         | None => (from0, None) end in
  let m0 := empty_mem (s_vals s) in
  if hh <=? from then m0
  else
    let m1 := fst (fold_left (replay_block p (s_msgs s) forced) (zrange from (Z.to_nat (hh - from))) (m0, 0)) in
    fst (prepare p (hh - 1) m1).

Definition restart (p : params) (st : state) : state :=
  mkState (st_h st) (st_store st) (recache p (st_store st) (st_h st)).

(* ---- histories ----------------------------------------------------------------------------------- *)
Inductive op := OTx (t : tx) | OEnd (vu : option (list (Z * Z))) | ORestart.

Definition step (p : params) (acc : state * list Z) (o : op) : state * list Z :=
  let '(st, codes) := acc in
  match o with
  | OTx t => let '(st', c) := deliver p st t in (st', codes ++ [c])
  | OEnd vu => (end_block p st vu, codes)
  | ORestart => (restart p st, codes)
  end.

Definition run (p : params) (init : state) (ops : list op) : state * list Z := fold_left (step p) ops (init, []).

(* what the outside world sees: result codes and the committed store *)
Definition observe (r : state * list Z) : list Z * store := (snd r, st_store (fst r)).

(* state right after the first BeginBlock of a fresh chain (initAggregatorContext at height 1) *)
Definition init_state (vals : list (Z * Z)) (next0 : list (Z * (Z * option Z))) : state :=
  mkState 1 (mkStore next0 [] [] None vals) (mkMem vals [] [] [] vals true false).

(* ---- projections compared with the implementation's dump ----------------------------------------- *)
Record wproj := mkWP { wp_sealed : bool; wp_seen : list (Z * list Z); wp_calc : list (Z * (option Z * list (Z * Z)));
                       wp_reports : list (Z * (Z * option Z)); wp_rpower : Z; wp_ds : option Z; wp_total : Z; wp_nval : Z }.
Record mproj := mkMP { mp_vals : list (Z * Z); mp_rounds : list (Z * (Z * (Z * bool))); mp_workers : list (Z * wproj);
                       mp_nmsgs : Z; mp_vupd : bool }.

Definition proj_worker (w : worker) : wproj :=
  let c := w_core w in
  mkWP (c_sealed c) (filter (fun e => negb (match snd e with [] => true | _ => false end)) (c_seen c))
       (map (fun c => (cr_det c, (cr_conf c, cr_prices c))) (c_calc c))
       (map (fun r => (rp_val r, (rp_power r, rp_price r))) (c_reports c))
       (c_rpower c) (c_ds c) (c_total c) (c_nval c).

Definition proj_mem (m : mem) : mproj :=
  mkMP (m_vals m) (map (fun e => (fst e, (r_based (snd e), (r_next (snd e), r_open (snd e))))) (m_rounds m))
       (map (fun e => (fst e, proj_worker (snd e))) (m_workers m)) (zlen (m_msgs m)) (m_vupd m).

Definition zz_eqb (a b : Z * Z) : bool := (fst a =? fst b) && (snd a =? snd b).
Definition oz_eqb := option_eqb Z.eqb.
Definition zl_eqb := list_eqb Z.eqb.
Definition wproj_eqb (a b : wproj) : bool :=
  Bool.eqb (wp_sealed a) (wp_sealed b) &&
  list_eqb (fun x y => (fst x =? fst y) && zl_eqb (snd x) (snd y)) (wp_seen a) (wp_seen b) &&
  list_eqb (fun x y => (fst x =? fst y) && oz_eqb (fst (snd x)) (fst (snd y)) && list_eqb zz_eqb (snd (snd x)) (snd (snd y))) (wp_calc a) (wp_calc b) &&
  list_eqb (fun x y => (fst x =? fst y) && (fst (snd x) =? fst (snd y)) && oz_eqb (snd (snd x)) (snd (snd y))) (wp_reports a) (wp_reports b) &&
  (wp_rpower a =? wp_rpower b) && oz_eqb (wp_ds a) (wp_ds b) && (wp_total a =? wp_total b) && (wp_nval a =? wp_nval b).
Definition mproj_eqb (a b : mproj) : bool :=
  list_eqb zz_eqb (mp_vals a) (mp_vals b) &&
  list_eqb (fun x y => (fst x =? fst y) && (fst (snd x) =? fst (snd y)) && (fst (snd (snd x)) =? fst (snd (snd y))) && Bool.eqb (snd (snd (snd x))) (snd (snd (snd y))))
           (mp_rounds a) (mp_rounds b) &&
  list_eqb (fun x y => (fst x =? fst y) && wproj_eqb (snd x) (snd y)) (mp_workers a) (mp_workers b) &&
  (mp_nmsgs a =? mp_nmsgs b) && Bool.eqb (mp_vupd a) (mp_vupd b).

(* store projection: next round ids + latest prices, nonce rows, recent-msg index, validator update block *)
Record sproj := mkSP { sp_next : list (Z * (Z * option Z)); sp_nonce : list (Z * list (Z * Z)); sp_idx : list Z; sp_vub : option Z }.
Definition proj_store (s : store) : sproj := mkSP (s_next s) (s_nonce s) (map fst (s_msgs s)) (s_vub s).
Definition sproj_eqb (a b : sproj) : bool :=
  list_eqb (fun x y => (fst x =? fst y) && (fst (snd x) =? fst (snd y)) && oz_eqb (snd (snd x)) (snd (snd y))) (sp_next a) (sp_next b) &&
  list_eqb (fun x y => (fst x =? fst y) && list_eqb zz_eqb (snd x) (snd y)) (sp_nonce a) (sp_nonce b) &&
  zl_eqb (sp_idx a) (sp_idx b) && oz_eqb (sp_vub a) (sp_vub b).

(* ---- the case record written by the harness ------------------------------------------------------- *)
(* one block of the never-stopped run: inputs + what the implementation did *)
Record blk := mkBlk { b_txs : list tx; b_vu : option (list (Z * Z)); b_codes : list Z;
                      b_store : sproj; b_mem : mproj }.   (* store after Commit, memory after the next BeginBlock *)

(* one observation of a twin: (height, result codes, [(token, next, latest)], store digest, app hash, memory digest) *)
Record obs := mkObs { o_h : Z; o_codes : list Z; o_rounds : list (Z * (Z * option Z)); o_store : Z; o_app : Z; o_mem : Z;
                      o_px : Z;   (* digest of GetSpecifiedAssetsPrice for every registered asset id *)
                      o_panic : bool }.

Record case := mkCase {
  c_params : params; c_vals : list (Z * Z); c_next0 : list (Z * (Z * option Z));
  c_modelled : bool;                (* false: history contains a params update (not replayed through the model) *)
  c_tagged : bool;                  (* some known-finding predicate (K1..K7, on the inputs) holds for this restart point *)
  c_blocks : list blk;              (* blocks 1..r of the never-stopped run *)
  c_recached : mproj;               (* memory of the restarted twin right after its first BeginBlock *)
  c_cont : list obs;                (* never-stopped run: heights r, r+1, ... *)
  c_twin : list obs }.              (* restarted twin: same heights *)

Definition obs_eqb (a b : obs) : bool :=
  (o_h a =? o_h b) && zl_eqb (o_codes a) (o_codes b) &&
  list_eqb (fun x y => (fst x =? fst y) && (fst (snd x) =? fst (snd y)) && oz_eqb (snd (snd x)) (snd (snd y))) (o_rounds a) (o_rounds b) &&
  (o_store a =? o_store b) && (o_app a =? o_app b) && (o_px a =? o_px b) && Bool.eqb (o_panic a) (o_panic b).

(* THE PROPERTY on the implementation's observed behaviour: the restarted twin produces the same results
   (codes, prices / round ids, whole oracle store, app hash) at every following height and did not crash. *)
Fixpoint twin_eq (f : obs -> obs -> bool) (cs ts : list obs) (i : nat) : option nat :=
  match cs, ts with
  | [], [] => None
  | c :: cr, t :: tr => if f c t then twin_eq f cr tr (S i) else Some i
  | _, _ => Some i
  end.
Definition monitor_case (c : case) : option nat := twin_eq obs_eqb (c_cont c) (c_twin c) 0.

(* the simulation invariant on the implementation: rebuilt memory is equivalent to the live one at every height *)
Definition monitor_mem (c : case) : option nat :=
  twin_eq (fun a b => (o_mem a =? o_mem b) && Bool.eqb (o_panic a) (o_panic b)) (c_cont c) (c_twin c) 0.

(* model vs implementation: run the model over blocks 1..r, compare codes / store / live memory after every
   block, then compare [recache] of the model's store with the memory the restarted implementation rebuilt *)
Fixpoint check_blocks (p : params) (st : state) (bs : list blk) (i : nat) : option nat * state :=
  match bs with
  | [] => (None, st)
  | b :: r =>
      let '(st1, codes) := fold_left (fun acc t => let '(s, cs) := acc in let '(s', c) := deliver p s t in (s', cs ++ [c])) (b_txs b) (st, []) in
      let st2 := end_block p st1 (b_vu b) in
      if zl_eqb codes (b_codes b) && sproj_eqb (proj_store (st_store st2)) (b_store b) && mproj_eqb (proj_mem (st_mem st2)) (b_mem b)
      then check_blocks p st2 r (S i) else (Some i, st2)
  end.

Definition check_case (c : case) : option nat :=
  if negb (c_modelled c) then None else
  let '(r, st) := check_blocks (c_params c) (init_state (c_vals c) (c_next0 c)) (c_blocks c) 0 in
  match r with
  | Some i => Some i
  | None => if mproj_eqb (proj_mem (recache (c_params c) (st_store st) (st_h st))) (c_recached c) then None
            else Some (length (c_blocks c))
  end.

(* ---- erasure of the filter's nonce sets; the restart-point relation ------------------------------- *)
Definition erase_w (w : worker) : worker := mkW [] (w_core w).
Definition erase_ws (ws : list (Z * worker)) : list (Z * worker) := map (fun e => (fst e, erase_w (snd e))) ws.
Definition erase (m : mem) : mem := set_workers m (erase_ws (m_workers m)).

Fixpoint row_get (fid : Z) (row : list (Z * Z)) : option Z :=
  match row with [] => None | (f, x) :: r => if f =? fid then Some x else row_get fid r end.
Definition nonce_row (ns : list (Z * list (Z * Z))) (v fid : Z) : option Z :=
  match aget v ns with Some row => row_get fid row | None => None end.

(* every nonce a worker's filter remembers is covered by the stored nonce row that the ante handler checks *)
Definition nonce_safe_b (s : store) (m : mem) : bool :=
  forallb (fun e => let fid := fst e in
    (match aget fid (m_rounds m) with Some _ => true | None => false end) &&
    forallb (fun vn => match nonce_row (s_nonce s) (fst vn) fid with
                       | Some x => forallb (fun n => n <=? x) (snd vn) && (zlen (snd vn) <=? x)
                       | None => true end) (w_nonces (snd e))) (m_workers m).

(* ---- decidable version of the restart-point relation ---------------------------------------------- *)
Definition zzl_eqb := list_eqb zz_eqb.
Definition cr_eqb (a b : calc_round) : bool :=
  (cr_det a =? cr_det b) && zzl_eqb (cr_prices a) (cr_prices b) && oz_eqb (cr_conf a) (cr_conf b).
Definition rep_eqb (a b : report) : bool :=
  (rp_val a =? rp_val b) && (rp_power a =? rp_power b) && oz_eqb (rp_price a) (rp_price b).
Definition zl_assoc_eqb (a b : list (Z * list Z)) : bool := list_eqb (fun x y => (fst x =? fst y) && zl_eqb (snd x) (snd y)) a b.
Definition core_eqb (a b : core) : bool :=
  Bool.eqb (c_sealed a) (c_sealed b) && zl_assoc_eqb (c_seen a) (c_seen b) && list_eqb cr_eqb (c_calc a) (c_calc b) &&
  list_eqb rep_eqb (c_reports a) (c_reports b) && (c_rpower a =? c_rpower b) && oz_eqb (c_ds a) (c_ds b) &&
  (c_total a =? c_total b) && (c_nval a =? c_nval b).
Definition worker_eqb (a b : worker) : bool := zl_assoc_eqb (w_nonces a) (w_nonces b) && core_eqb (w_core a) (w_core b).
Definition round_eqb (a b : round) : bool := (r_based a =? r_based b) && (r_next a =? r_next b) && Bool.eqb (r_open a) (r_open b).
Definition item_eqb (a b : item) : bool := (i_feeder a =? i_feeder b) && (i_val a =? i_val b) && zzl_eqb (i_prices a) (i_prices b).
Definition mem_eqb (a b : mem) : bool :=
  zzl_eqb (m_vals a) (m_vals b) && list_eqb (fun x y => (fst x =? fst y) && round_eqb (snd x) (snd y)) (m_rounds a) (m_rounds b) &&
  list_eqb (fun x y => (fst x =? fst y) && worker_eqb (snd x) (snd y)) (m_workers a) (m_workers b) &&
  list_eqb item_eqb (m_msgs a) (m_msgs b) && zzl_eqb (m_cvals a) (m_cvals b) && Bool.eqb (m_vupd a) (m_vupd b) &&
  Bool.eqb (m_panic a) (m_panic b).

Definition rows_nonneg_b (ns : list (Z * list (Z * Z))) : bool :=
  forallb (fun vr => forallb (fun fx => 0 <=? snd fx) (snd vr)) ns.

Definition safe_b (s : store) (m : mem) : bool := nonce_safe_b s m && rows_nonneg_b (s_nonce s).

(* the state is restart-safe: the memory rebuilt from its store equals the live one up to nonce sets *)
Definition synced_b (p : params) (st : state) : bool :=
  mem_eqb (erase (st_mem st)) (erase (recache p (st_store st) (st_h st))) &&
  safe_b (st_store st) (st_mem st) && safe_b (st_store st) (recache p (st_store st) (st_h st)).

(* the model's verdict for a case: is the restart point restart-safe?  (used by the [pred] check: whenever the model,
   for which equality of all future observations is then a theorem, says yes, the implementation's twins must agree) *)
Definition state_at (c : case) : state :=
  snd (check_blocks (c_params c) (init_state (c_vals c) (c_next0 c)) (c_blocks c) 0).

Definition pred_case (c : case) : option nat :=
  if negb (c_modelled c) then None else
  if synced_b (c_params c) (state_at c) then
    match monitor_case c with Some i => Some i | None => monitor_mem c end
  else None.

(* Tested, not proved: the known-finding predicates cover every restart point that is not restart-safe, i.e. a modelled
   case without any tag must be [synced_b] in the model (the in-window characterisation that design/C14.md leaves open). *)
Definition conj_case (c : case) : option nat :=
  if c_modelled c && negb (c_tagged c) && negb (synced_b (c_params c) (state_at c)) then Some (length (c_blocks c)) else None.

(* ---- decidable hypotheses / right-hand side of C14_restart_safe_iff, evaluated on the model by the [thm] check ---------- *)
Definition m_left (f : feeder) (b : Z) : Z := (b - f_start f) mod f_interval f.
Definition m_isf (f : Z) (it : item) : bool := i_feeder it =? f.
Definition thm_hyps_b (p : params) (st : state) : bool :=
  forallb (fun f => (st_h st - 1 <? f_start f) || (m_left f (st_h st - 1) <? p_maxnonce p) ||
                    forallb (fun e => (fst e <? st_h st - p_maxnonce p + 1) ||
                                      match filter (m_isf (f_id f)) (snd e) with [] => true | _ => false end)
                            (s_msgs (st_store st))) (p_feeders p).
Definition thm_open_b (p : params) (st : state) : bool :=
  forallb (fun f => (st_h st - 1 <? f_start f) || (p_maxnonce p <=? m_left f (st_h st - 1)) ||
                    match aget (f_id f) (m_rounds (st_mem st)) with
                    | Some r => r_open r || match s_vub (st_store st) with Some v => r_based r <? v | None => false end
                    | None => true end) (p_feeders p).

(* Under the hypotheses of C14_restart_safe_iff (valid params are generated) the model's [synced_b] must equal "every
   in-window round is open" (a theorem - evaluated here as a sanity check of its statement on real restart points), and
   when it holds the implementation's twins must agree. *)
Definition thm_case (c : case) : option nat :=
  if negb (c_modelled c) then None else
  let st := state_at c in
  if negb (thm_hyps_b (c_params c) st) then None else
  if negb (Bool.eqb (synced_b (c_params c) st) (thm_open_b (c_params c) st)) then Some (length (c_blocks c)) else
  if thm_open_b (c_params c) st then match monitor_case c with Some i => Some i | None => monitor_mem c end else None.
