(* C14/Proofs_window.v — which block boundaries are restart-safe: the live invariant linking workers to persisted items, the
   per-feeder projection of the replay, and the characterisation synced <-> every in-window round is open. *)
From Coq Require Import List Bool ZArith Lia Sorting.Sorted.
From Exo Require Import Base.Util C14.Model C14.Proofs C14.Proofs_idle.
Import ListNotations.
Local Open Scope Z_scope.

(* ---- per-feeder view of the memory --------------------------------------------------------------------- *)
Definition rd (m : mem) (f : Z) : option round := aget f (m_rounds m).
Definition wk (m : mem) (f : Z) : option worker := aget f (m_workers m).

(* FillPrice of feeder fid leaves every other feeder alone *)
Lemma fill_price_frame p m fid v nonce ps :
  let m1 := fst (fill_price p m fid v nonce ps) in
  m_vals m1 = m_vals m /\ m_cvals m1 = m_cvals m /\ m_vupd m1 = m_vupd m /\ m_msgs m1 = m_msgs m /\
  (forall g, g <> fid -> rd m1 g = rd m g /\ wk m1 g = wk m g) /\
  (rd m fid <> None -> m_panic m1 = m_panic m).
Proof.
  unfold fill_price, rd, wk.
  set (w0 := match aget fid (m_workers m) with Some w => w | None => new_worker (m_vals m) end).
  destruct (w_sealed w0).
  - destruct m; simpl. repeat split; try reflexivity. rewrite aget_aset_neq by assumption. reflexivity.
  - destruct (worker_do (p_maxnonce p) w0 v nonce _ ps) as [[w1 kept] fin].
    destruct kept as [kl|]; [destruct fin as [price|]|].
    + replace (m_rounds (set_workers m (aset fid w1 (m_workers m)))) with (m_rounds m) by (destruct m; reflexivity).
      destruct (aget fid (m_rounds m)) as [r|] eqn:Er.
      * destruct m; simpl in *. repeat split; try reflexivity; rewrite ?aget_aset_neq by assumption; try reflexivity.
      * destruct m; simpl in *. repeat split; try reflexivity; rewrite ?aget_aset_neq by assumption; try reflexivity.
        intro H. congruence.
    + destruct m; simpl. repeat split; try reflexivity. rewrite aget_aset_neq by assumption. reflexivity.
    + destruct m; simpl. repeat split; try reflexivity. rewrite aget_aset_neq by assumption. reflexivity.
Qed.

(* ... and at fid it is this function of (round, worker, validator powers) *)
Definition pf_fill (mn : Z) (vals : list (Z * Z)) (r : round) (w : option worker) (v nonce : Z) (ps : list (Z * Z))
  : round * worker * bool :=       (* new round, new worker, finalized? *)
  let w0 := match w with Some x => x | None => new_worker vals end in
  if w_sealed w0 then (r, w0, false)
  else
    let '(w1, kept, fin) := worker_do mn w0 v nonce (match aget v vals with Some x => x | None => 0 end) ps in
    match kept, fin with
    | Some _, Some _ => (mkRound (r_based r) (r_next r) false, sealed_worker, true)
    | _, _ => (r, w1, false)
    end.

Lemma fill_price_at p m fid v nonce ps r :
  rd m fid = Some r ->
  let m1 := fst (fill_price p m fid v nonce ps) in
  let '(r1, w1, fin) := pf_fill (p_maxnonce p) (m_vals m) r (wk m fid) v nonce ps in
  rd m1 fid = Some r1 /\ wk m1 fid = Some w1.
Proof.
  unfold rd, wk, fill_price, pf_fill. intro Hr.
  set (w0 := match aget fid (m_workers m) with Some w => w | None => new_worker (m_vals m) end).
  destruct (w_sealed w0).
  - destruct m; simpl in *. rewrite aget_aset_eq. split; [assumption | reflexivity].
  - destruct (worker_do (p_maxnonce p) w0 v nonce _ ps) as [[w1 kept] fin].
    destruct kept as [kl|]; [destruct fin as [price|]|].
    + replace (m_rounds (set_workers m (aset fid w1 (m_workers m)))) with (m_rounds m) by (destruct m; reflexivity).
      rewrite Hr. destruct m; simpl in *. rewrite !aget_aset_eq. split; reflexivity.
    + destruct m; simpl in *. rewrite aget_aset_eq. split; [assumption | reflexivity].
    + destruct m; simpl in *. rewrite aget_aset_eq. split; [assumption | reflexivity].
Qed.

(* ---- SealRound / Prepare at one feeder ------------------------------------------------------------------ *)
Definition closing (p : params) (h : Z) (force : bool) (r : round) : bool :=
  r_open r && ((p_maxnonce p <=? h - r_based r) || force).

Lemma seal_rounds_wk p h force : no_expiry p -> forall rs ws rs' ws' fl sl,
  ksorted rs -> seal_rounds p h force rs ws = (rs', ws', fl, sl) ->
  forall fid, aget fid ws' =
    match aget fid rs with
    | Some r => match get_feeder (p_feeders p) fid with
                | Some _ => if closing p h force r then None
                            else match aget fid ws with Some w => if w_sealed w then None else Some w | None => None end
                | None => aget fid ws
                end
    | None => aget fid ws
    end.
Proof.
  intros NE. induction rs as [|[f0 r0] rest IH]; intros ws rs' ws' fl sl S H fid; simpl in H.
  - inversion H; subst. reflexivity.
  - inversion S as [|? ? S' F]; subst.
    destruct (seal_rounds p h force rest ws) as [[[rs1 ws1] f1] s1] eqn:E.
    pose proof (IH _ _ _ _ _ S' E) as IH1.
    assert (Hf0 : aget f0 ws1 = aget f0 ws).
    { rewrite IH1. rewrite (ksorted_lt_none f0 rest F). reflexivity. }
    simpl. destruct (fid =? f0) eqn:Ef.
    + apply Z.eqb_eq in Ef. subst fid.
      destruct (get_feeder (p_feeders p) f0) as [f|] eqn:Eg.
      * destruct (get_feeder_some _ _ _ Eg) as [Hin _]. rewrite (NE _ Hin) in H. simpl in H. unfold closing.
        destruct (r_open r0 && ((p_maxnonce p <=? h - r_based r0) || force)).
        -- inversion H; subst. apply aget_adel_eq.
        -- rewrite <- Hf0. destruct (aget f0 ws1) as [w|] eqn:Ew.
           ++ destruct (w_sealed w); inversion H; subst; [apply aget_adel_eq | exact Ew].
           ++ inversion H; subst. exact Ew.
      * inversion H; subst. exact Hf0.
    + apply Z.eqb_neq in Ef.
      assert (Hother : aget fid ws' = aget fid ws1).
      { destruct (get_feeder (p_feeders p) f0) as [f|].
        - destruct (r_open r0 && _); [inversion H; subst; apply aget_adel_neq; exact Ef|].
          destruct (aget f0 ws1) as [w|]; [destruct (w_sealed w)|]; inversion H; subst; try reflexivity. apply aget_adel_neq; exact Ef.
        - inversion H; subst. reflexivity. }
      rewrite Hother. apply IH1.
Qed.

Lemma prepare_rounds_wk mn b : forall fs rs ws rs' ws' nw,
  NoDup (map f_id fs) -> prepare_rounds mn b fs rs ws = (rs', ws', nw) ->
  forall fid, aget fid ws' =
    match get_feeder fs fid with
    | Some f => if inactive f b then aget fid ws
                else match aget fid rs with
                     | Some _ => if leftb f b =? 0 then None else aget fid ws
                     | None => aget fid ws end
    | None => aget fid ws
    end.
Proof.
  induction fs as [|f0 rest IH]; intros rs ws rs' ws' nw ND H fid; simpl in H.
  - inversion H; subst. reflexivity.
  - inversion ND as [|? ? Hn ND']; subst. fold (inactive f0 b) in H. simpl.
    destruct (inactive f0 b) eqn:Ei.
    + rewrite (IH _ _ _ _ _ ND' H fid). destruct (f_id f0 =? fid) eqn:E; [|reflexivity].
      apply Z.eqb_eq in E. subst fid. rewrite get_feeder_none by assumption. rewrite Ei. reflexivity.
    + fold (leftb f0 b) in H. fold (basedb f0 b) in H. fold (nextb f0 b) in H.
      assert (Hstep : exists rs1 ws1 nw1,
         (match aget (f_id f0) rs with
          | None => if mn <=? leftb f0 b then (aset (f_id f0) (mkRound (basedb f0 b) (nextb f0 b) false) rs, ws, [])
                    else (aset (f_id f0) (mkRound (basedb f0 b) (nextb f0 b) true) rs, ws, if leftb f0 b =? 0 then [f_id f0] else [])
          | Some r => if leftb f0 b =? 0 then (aset (f_id f0) (mkRound (basedb f0 b) (nextb f0 b) true) rs, adel (f_id f0) ws, [f_id f0])
                      else if r_open r && (mn <=? leftb f0 b) then (aset (f_id f0) (mkRound (r_based r) (r_next r) false) rs, ws, [])
                      else (rs, ws, [])
          end) = (rs1, ws1, nw1) /\
         (forall g, g <> f_id f0 -> aget g rs1 = aget g rs /\ aget g ws1 = aget g ws) /\
         aget (f_id f0) ws1 = match aget (f_id f0) rs with Some _ => if leftb f0 b =? 0 then None else aget (f_id f0) ws | None => aget (f_id f0) ws end).
      { destruct (aget (f_id f0) rs) as [r|].
        - destruct (leftb f0 b =? 0).
          + do 3 eexists. split; [reflexivity|]. split; [|apply aget_adel_eq].
            intros g N. rewrite aget_aset_neq, aget_adel_neq by exact N. split; reflexivity.
          + destruct (r_open r && (mn <=? leftb f0 b)); do 3 eexists; (split; [reflexivity|]); (split; [|reflexivity]);
              intros g N; rewrite ?aget_aset_neq by exact N; split; reflexivity.
        - destruct (mn <=? leftb f0 b); do 3 eexists; (split; [reflexivity|]); (split; [|reflexivity]);
            intros g N; rewrite ?aget_aset_neq by exact N; split; reflexivity. }
      destruct Hstep as [rs1 [ws1 [nw1 [E1 [Hoth Hat]]]]]. rewrite E1 in H.
      destruct (prepare_rounds mn b rest rs1 ws1) as [[rs2 ws2] nw2] eqn:E2. inversion H; subst.
      rewrite (IH _ _ _ _ _ ND' E2 fid). destruct (f_id f0 =? fid) eqn:E.
      * apply Z.eqb_eq in E. subst fid. rewrite get_feeder_none by assumption. rewrite Ei. exact Hat.
      * apply Z.eqb_neq in E. destruct (Hoth fid ltac:(congruence)) as [A B]. rewrite A, B. reflexivity.
Qed.

(* ---- the items persisted for one feeder round, and their replay at core level --------------------------- *)
Definition isf (f : Z) (it : item) : bool := i_feeder it =? f.
Definition itemsF (f B : Z) (l : list (Z * list item)) : list item :=
  flat_map (fun e => if B <? fst e then filter (isf f) (snd e) else []) l.

Definition pw (vals : list (Z * Z)) (v : Z) : Z := match aget v vals with Some x => x | None => 0 end.
Definition core0 (vals : list (Z * Z)) : core := w_core (new_worker vals).

(* replay of persisted items on a core: Some c when every item is counted again and none finalizes *)
Fixpoint run_items (vals : list (Z * Z)) (c : core) (its : list item) : option core :=
  match its with
  | [] => Some c
  | it :: r => match core_do c (i_val it) (pw vals (i_val it)) (i_prices it) with
               | (c1, Some _, None) => run_items vals c1 r
               | _ => None
               end
  end.

Lemma run_items_app vals : forall l1 l2 c,
  run_items vals c (l1 ++ l2) = match run_items vals c l1 with Some c1 => run_items vals c1 l2 | None => None end.
Proof.
  induction l1 as [|it r IH]; intros l2 c; simpl; [reflexivity|].
  destruct (core_do c (i_val it) (pw vals (i_val it)) (i_prices it)) as [[c1 k] f].
  destruct k; [destruct f|]; try reflexivity. apply IH.
Qed.

Lemma run_items_prefix vals l1 l2 c c2 : run_items vals c (l1 ++ l2) = Some c2 -> exists c1, run_items vals c l1 = Some c1.
Proof. rewrite run_items_app. destruct (run_items vals c l1) as [c1|]; [eauto | discriminate]. Qed.

Lemma itemsF_app f B l1 l2 : itemsF f B (l1 ++ l2) = itemsF f B l1 ++ itemsF f B l2.
Proof. unfold itemsF. apply flat_map_app. Qed.

Lemma itemsF_filter_keep f B k l :
  k <= B -> itemsF f B (filter (fun e : Z * list item => k <? fst e) l) = itemsF f B l.
Proof.
  intro Hk. induction l as [|[x its] r IH]; simpl; [reflexivity|].
  destruct (k <? x) eqn:E; simpl.
  - rewrite IH. reflexivity.
  - rewrite IH. apply Z.ltb_ge in E. destruct (B <? x) eqn:E2; [apply Z.ltb_lt in E2; lia | reflexivity].
Qed.

Lemma itemsF_above f B l : (forall e, In e l -> fst e <= B) -> itemsF f B l = [].
Proof.
  induction l as [|[x its] r IH]; intro H; simpl; [reflexivity|].
  rewrite IH by (intros e He; apply H; right; exact He).
  specialize (H (x, its) (or_introl eq_refl)). simpl in H.
  destruct (B <? x) eqn:E; [apply Z.ltb_lt in E; lia | reflexivity].
Qed.

Lemma filter_isf_other f g l : g <> f -> filter (isf f) (filter (fun x => negb (i_feeder x =? g)) l) = filter (isf f) l.
Proof.
  intro N. induction l as [|it r IH]; simpl; [reflexivity|]. unfold isf in *.
  destruct (i_feeder it =? g) eqn:E; simpl.
  - apply Z.eqb_eq in E. destruct (i_feeder it =? f) eqn:E2; [apply Z.eqb_eq in E2; congruence | exact IH].
  - destruct (i_feeder it =? f); [f_equal|]; exact IH.
Qed.

Lemma filter_isf_self f l : filter (isf f) (filter (fun x => negb (i_feeder x =? f)) l) = [].
Proof.
  induction l as [|it r IH]; simpl; [reflexivity|]. unfold isf in *.
  destruct (i_feeder it =? f) eqn:E; simpl; [exact IH | rewrite E; exact IH].
Qed.

Lemma filter_app_one {A} (g : A -> bool) l x : filter g (l ++ [x]) = filter g l ++ (if g x then [x] else []).
Proof. rewrite filter_app. reflexivity. Qed.

Fixpoint cnt (v : Z) (its : list item) : Z :=
  match its with [] => 0 | it :: r => (if i_val it =? v then 1 else 0) + cnt v r end.
Lemma cnt_app v l1 l2 : cnt v (l1 ++ l2) = cnt v l1 + cnt v l2.
Proof. induction l1 as [|it r IH]; simpl; [reflexivity | rewrite IH; lia]. Qed.
Lemma cnt_nonneg v l : 0 <= cnt v l.
Proof. induction l as [|it r IH]; simpl; [lia | destruct (i_val it =? v); lia]. Qed.

(* a non-empty price list always contributes to a validator that has nothing recorded yet; an ignored one changes nothing *)
Lemma add_psource_nil_kept : forall ps s s', add_psource s ps = (s', []) -> s' = s.
Proof.
  induction ps as [|[d pr] r IH]; intros s s' H; simpl in H; [inversion H; reflexivity|].
  destruct (set_add max_det_id d s) as [s1 ok] eqn:Ea. destruct (add_psource s1 r) as [s2 k2] eqn:Er.
  destruct ok; [inversion H|]. inversion H; subst.
  assert (s1 = s) by (unfold set_add in Ea; destruct ((zlen s =? max_det_id) || zmem d s); inversion Ea; reflexivity).
  subst s1. eapply IH. exact Er.
Qed.

Lemma aset_same {A} k (v : A) l : ksorted l -> aget k l = Some v -> aset k v l = l.
Proof.
  induction l as [|[k' v'] r IH]; simpl; intros S H; [discriminate|].
  inversion S as [|? ? S' F]; subst.
  destruct (k =? k') eqn:E.
  - inversion H; subst. apply Z.eqb_eq in E. subst. reflexivity.
  - destruct (k <? k') eqn:L.
    + apply Z.ltb_lt in L. rewrite ksorted_lt_none in H; [discriminate|].
      eapply Forall_impl; [|exact F]. intros a Ha. lia.
    + rewrite IH by assumption. reflexivity.
Qed.

Lemma core_do_seen_sorted c v power ps : ksorted (c_seen c) -> ksorted (c_seen (fst (fst (core_do c v power ps)))).
Proof.
  intro S. unfold core_do. destruct (add_psource _ ps) as [sn1 kept]. destruct kept as [|k0 kr]; simpl; [apply ksorted_aset; exact S|].
  match goal with |- context [agg_fill ?c1 v power] => set (c2 := agg_fill c1 v power) end.
  assert (H2 : c_seen c2 = aset v sn1 (c_seen c)).
  { unfold c2, agg_fill. simpl. destruct (has_report _ _); reflexivity. }
  match goal with |- context [let '(cs, conf) := ?X in _] => destruct X as [cs conf] end.
  destruct conf as [[d pr]|]; simpl; [unfold confirm_ds; simpl; destruct (c_ds c2); simpl|]; rewrite H2; apply ksorted_aset; exact S.
Qed.

(* an ignored message (nothing kept) leaves the core unchanged *)
Lemma core_do_ignored c v power ps c1 fin :
  ksorted (c_seen c) -> aget v (c_seen c) <> None -> core_do c v power ps = (c1, None, fin) -> c1 = c.
Proof.
  intros S Hs. unfold core_do. destruct (aget v (c_seen c)) as [sn|] eqn:E; [|congruence].
  destruct (add_psource sn ps) as [sn1 kept] eqn:Ea. destruct kept as [|k0 kr].
  - intro H. inversion H; subst. apply add_psource_nil_kept in Ea. subst sn1.
    rewrite (aset_same v sn (c_seen c) S E). destruct c; reflexivity.
  - match goal with |- context [let '(cs, conf) := ?X in _] => destruct X as [cs conf] end. intro H. inversion H.
Qed.

(* a first message of a validator with a non-empty price list is always counted *)
Lemma core_do_first_counted c v power ps c1 kept fin :
  aget v (c_seen c) = None -> ps <> [] -> core_do c v power ps = (c1, kept, fin) -> kept <> None.
Proof.
  intros Hs Hps. unfold core_do. rewrite Hs. destruct ps as [|[d pr] r]; [congruence|]. simpl.
  change (set_add max_det_id d []) with ([d], true). destruct (add_psource [d] r) as [s2 k2]. simpl.
  match goal with |- context [let '(cs, conf) := ?X in _] => destruct X as [cs conf] end.
  intro H. inversion H. discriminate.
Qed.

Lemma run_items_sorted vals : forall l c c', ksorted (c_seen c) -> run_items vals c l = Some c' -> ksorted (c_seen c').
Proof.
  induction l as [|it r IH]; intros c c' S H; simpl in H; [inversion H; subst; exact S|].
  pose proof (core_do_seen_sorted c (i_val it) (pw vals (i_val it)) (i_prices it) S) as S1.
  destruct (core_do c (i_val it) (pw vals (i_val it)) (i_prices it)) as [[c1 k] f]. simpl in S1.
  destruct k; [destruct f|]; try discriminate. eapply IH; eassumption.
Qed.

Lemma core0_sorted vals : ksorted (c_seen (core0 vals)).
Proof. apply ksorted_nil. Qed.

(* joint description of FillPrice at its own feeder *)
Lemma fill_price_cases p m fid v nonce ps r :
  rd m fid = Some r ->
  let w0 := match wk m fid with Some w => w | None => new_worker (m_vals m) end in
  let m1 := fst (fill_price p m fid v nonce ps) in
  let res := snd (fill_price p m fid v nonce ps) in
  (w_sealed w0 = true /\ res = FIgnored /\ rd m1 fid = Some r /\ wk m1 fid = Some w0) \/
  (w_sealed w0 = false /\
   exists w1 kept fin, worker_do (p_maxnonce p) w0 v nonce (pw (m_vals m) v) ps = (w1, kept, fin) /\
     match kept, fin with
     | None, _ => res = FIgnored /\ rd m1 fid = Some r /\ wk m1 fid = Some w1
     | Some kl, None => res = FAdded (mkItem fid v kl) /\ rd m1 fid = Some r /\ wk m1 fid = Some w1
     | Some kl, Some price => res = FFinal price (r_next r) (mkItem fid v kl) /\
                              rd m1 fid = Some (mkRound (r_based r) (r_next r) false) /\ wk m1 fid = Some sealed_worker
     end).
Proof.
  unfold rd, wk, fill_price, pw. intro Hr.
  set (w0 := match aget fid (m_workers m) with Some w => w | None => new_worker (m_vals m) end).
  destruct (w_sealed w0) eqn:Es.
  - left. destruct m; simpl in *. rewrite aget_aset_eq. repeat split; try reflexivity. exact Hr.
  - right. split; [reflexivity|].
    destruct (worker_do (p_maxnonce p) w0 v nonce _ ps) as [[w1 kept] fin]. exists w1, kept, fin. split; [reflexivity|].
    destruct kept as [kl|]; [destruct fin as [price|]|].
    + replace (m_rounds (set_workers m (aset fid w1 (m_workers m)))) with (m_rounds m) by (destruct m; reflexivity).
      rewrite Hr. destruct m; simpl in *. rewrite !aget_aset_eq. repeat split; reflexivity.
    + destruct m; simpl in *. rewrite aget_aset_eq. repeat split; try reflexivity. exact Hr.
    + destruct m; simpl in *. rewrite aget_aset_eq. repeat split; try reflexivity. exact Hr.
Qed.

(* worker_do and the core: a refused nonce leaves the core alone *)
Lemma worker_do_core mn w v n power ps :
  (set_add mn n (nl w v) = (nl w v, false) /\ worker_do mn w v n power ps = (mkW (aset v (nl w v) (w_nonces w)) (w_core w), None, None)) \/
  (set_add mn n (nl w v) = (nl w v ++ [n], true) /\
   worker_do mn w v n power ps =
     (mkW (aset v (nl w v ++ [n]) (w_nonces w)) (fst (fst (core_do (w_core w) v power ps))),
      snd (fst (core_do (w_core w) v power ps)), snd (core_do (w_core w) v power ps))).
Proof.
  unfold worker_do, nl. unfold set_add.
  destruct ((zlen (match aget v (w_nonces w) with Some l => l | None => [] end) =? mn) || zmem n _).
  - left. split; reflexivity.
  - right. split; [reflexivity|]. destruct (core_do (w_core w) v power ps) as [[c1 k] f]. reflexivity.
Qed.

(* ---- (a) the invariant linking each live worker to the items persisted / cached for its round ------------ *)
Definition vub_le (s : store) (B : Z) : Prop := match s_vub s with Some v => v <= B | None => True end.
Definition ITf (s : store) (m : mem) (fid B : Z) : list item := itemsF fid B (s_msgs s) ++ filter (isf fid) (m_msgs m).

Definition link (p : params) (H : Z) (s : store) (m : mem) : Prop :=
  forall fid r, rd m fid = Some r -> H - 1 - r_based r < p_maxnonce p -> vub_le s (r_based r) ->
    exists c, run_items (m_vals m) (core0 (m_vals m)) (ITf s m fid (r_based r)) = Some c /\
      (forall v, cnt v (ITf s m fid (r_based r)) <= p_maxnonce p) /\
      (r_open r = true ->
         match wk m fid with
         | None => ITf s m fid (r_based r) = []
         | Some w => w_sealed w = false /\ w_core w = c /\ (forall v, cnt v (ITf s m fid (r_based r)) <= zlen (nl w v)) /\
                     ITf s m fid (r_based r) <> []
         end).
Definition open_vub (s : store) (m : mem) : Prop := forall fid r, rd m fid = Some r -> r_open r = true -> vub_le s (r_based r).
Definition caps (p : params) (m : mem) : Prop := forall fid w v, wk m fid = Some w -> zlen (nl w v) <= p_maxnonce p.
Definition msgs_ok (p : params) (x : Z) (its : list item) : Prop :=
  forall it, In it its -> exists f, get_feeder (p_feeders p) (i_feeder it) = Some f /\ f_start f <= x - 1 /\ leftb f (x - 1) < p_maxnonce p.
Definition store_ok (p : params) (H : Z) (s : store) : Prop :=
  ksorted (s_msgs s) /\ (forall x its, In (x, its) (s_msgs s) -> x < H /\ msgs_ok p x its) /\
  match s_vub s with Some v => v < H | None => True end.

Definition LIVE (p : params) (st : state) : Prop :=
  Jmid p st /\ store_ok p (st_h st) (st_store st) /\ msgs_ok p (st_h st) (m_msgs (st_mem st)) /\
  link p (st_h st) (st_store st) (st_mem st) /\ open_vub (st_store st) (st_mem st) /\ caps p (st_mem st).

Lemma zlen_nonneg {A} (l : list A) : 0 <= zlen l.
Proof. unfold zlen. lia. Qed.

Lemma set_add_zlen mn n l : zlen l <= mn -> zlen (fst (set_add mn n l)) <= mn /\ zlen l <= zlen (fst (set_add mn n l)).
Proof.
  intro H. unfold set_add. destruct (zlen l =? mn) eqn:E; simpl; [lia|]. apply Z.eqb_neq in E.
  destruct (zmem n l); simpl; [lia|]. rewrite zlen_app. lia.
Qed.

Lemma nl_worker_do mn w v n power ps u :
  nl (fst (fst (worker_do mn w v n power ps))) u = if u =? v then fst (set_add mn n (nl w v)) else nl w u.
Proof.
  unfold nl at 1. rewrite worker_do_nonces. fold (nl w v). destruct (u =? v) eqn:E.
  - apply Z.eqb_eq in E. subst. rewrite aget_aset_eq. reflexivity.
  - apply Z.eqb_neq in E. rewrite aget_aset_neq by exact E. reflexivity.
Qed.

Lemma own_step mn vals w0 c IT fid v nonce ps w1 kept fin :
  ps <> [] -> w_core w0 = c -> ksorted (c_seen c) -> (forall u, cnt u IT <= zlen (nl w0 u)) ->
  worker_do mn w0 v nonce (pw vals v) ps = (w1, kept, fin) ->
  match kept with
  | None => w_core w1 = c /\ (forall u, cnt u IT <= zlen (nl w1 u))
  | Some kl => core_do c v (pw vals v) kl = (w_core w1, Some kl, fin) /\
               (forall u, cnt u (IT ++ [mkItem fid v kl]) <= zlen (nl w1 u))
  end.
Proof.
  intros Hps Hc S Hcnt H.
  destruct (worker_do_core mn w0 v nonce (pw vals v) ps) as [[Ha Hw]|[Ha Hw]]; rewrite Hw in H.
  - inversion H; subst. simpl. split; [reflexivity|]. intro u. specialize (Hcnt u).
    destruct (Z.eq_dec u v) as [->|N].
    + rewrite nl_aset_eq. exact Hcnt.
    + rewrite nl_aset_neq by exact N. exact Hcnt.
  - destruct (core_do (w_core w0) v (pw vals v) ps) as [[c1 k] f] eqn:Ec. simpl in H. inversion H; subst. simpl.
    assert (Hnl : forall u, zlen (nl w0 u) + (if u =? v then 1 else 0) =
                            zlen (nl (mkW (aset v (nl w0 v ++ [nonce]) (w_nonces w0)) c1) u)).
    { intro u. destruct (u =? v) eqn:E.
      - apply Z.eqb_eq in E. subst. rewrite nl_aset_eq, zlen_app. reflexivity.
      - apply Z.eqb_neq in E. rewrite nl_aset_neq by exact E. lia. }
    destruct kept as [kl|].
    + split; [eapply core_do_replay; exact Ec|]. intro u. rewrite cnt_app. simpl. rewrite <- Hnl. specialize (Hcnt u).
      rewrite (Z.eqb_sym v u). destruct (u =? v); lia.
    + split.
      * destruct (aget v (c_seen (w_core w0))) eqn:Es.
        -- eapply core_do_ignored; [exact S | rewrite Es; discriminate | exact Ec].
        -- exfalso. eapply core_do_first_counted; [exact Es | exact Hps | exact Ec | reflexivity].
      * intro u. rewrite <- Hnl. specialize (Hcnt u). destruct (u =? v); lia.
Qed.

Lemma store_ext p H s s' m : s_msgs s' = s_msgs s -> s_vub s' = s_vub s ->
  (store_ok p H s -> store_ok p H s') /\ (link p H s m -> link p H s' m) /\ (open_vub s m -> open_vub s' m).
Proof.
  intros E1 E2. unfold store_ok, link, open_vub, vub_le, ITf. rewrite E1, E2. tauto.
Qed.

Lemma link_update p H s m mX fid :
  link p H s m -> m_vals mX = m_vals m ->
  (forall g, g <> fid -> rd mX g = rd m g /\ wk mX g = wk m g /\ filter (isf g) (m_msgs mX) = filter (isf g) (m_msgs m)) ->
  (forall r, rd mX fid = Some r -> H - 1 - r_based r < p_maxnonce p -> vub_le s (r_based r) ->
     exists c, run_items (m_vals mX) (core0 (m_vals mX)) (ITf s mX fid (r_based r)) = Some c /\
       (forall v, cnt v (ITf s mX fid (r_based r)) <= p_maxnonce p) /\
       (r_open r = true ->
          match wk mX fid with
          | None => ITf s mX fid (r_based r) = []
          | Some w => w_sealed w = false /\ w_core w = c /\ (forall v, cnt v (ITf s mX fid (r_based r)) <= zlen (nl w v)) /\
                      ITf s mX fid (r_based r) <> []
          end)) ->
  link p H s mX.
Proof.
  intros HL Hv Hoth Hown g r Hr Hw Hvub. destruct (Z.eq_dec g fid) as [->|N]; [apply Hown; assumption|].
  destruct (Hoth g N) as [A [B C]]. unfold ITf in *. rewrite Hv, B, C. rewrite A in Hr. apply HL; assumption.
Qed.

Lemma check_msg_nonempty m fid v based ps : check_msg m fid v based ps = true -> ps <> [].
Proof.
  unfold check_msg. destruct (aget v (m_vals m)); [|discriminate]. intro H.
  apply andb_prop in H. destruct H as [H _]. apply andb_prop in H. destruct H as [H _].
  destruct ps; [unfold zlen in H; simpl in H; discriminate | discriminate].
Qed.

Lemma deliver_LIVE p st t : params_ok p -> LIVE p st -> LIVE p (fst (deliver p st t)).
Proof.
  intros Hok [HJ [HS [HM [HL [HO HC]]]]]. pose proof Hok as [_ [Hmn _]].
  pose proof (deliver_J p st t HJ) as HJ'. split; [exact HJ'|]. clear HJ'.
  unfold deliver.
  destruct (nonce_check _ _ _ _ _) as [ns'|]; [|simpl; exact (conj HS (conj HM (conj HL (conj HO HC))))].
  set (s := st_store st) in *. set (m := st_mem st) in *. set (H := st_h st) in *.
  assert (Hext : forall sX mX, s_msgs sX = s_msgs s -> s_vub sX = s_vub s ->
            msgs_ok p H (m_msgs mX) -> link p H s mX -> open_vub s mX -> caps p mX ->
            store_ok p H sX /\ msgs_ok p H (m_msgs mX) /\ link p H sX mX /\ open_vub sX mX /\ caps p mX).
  { intros sX mX E1 E2 A B C D. destruct (store_ext p H s sX mX E1 E2) as [X1 [X2 X3]].
    split; [apply X1; exact HS|]. split; [exact A|]. split; [apply X2; exact B|]. split; [apply X3; exact C | exact D]. }
  destruct (check_msg m (t_feeder t) (t_val t) (t_based t) (t_prices t)) eqn:Ek.
  2:{ simpl. apply Hext; try assumption; destruct s; reflexivity. }
  destruct (check_msg_open _ _ _ _ _ Ek) as [r0 [Hr0 Ho0]]. pose proof (check_msg_nonempty _ _ _ _ _ Ek) as Hps.
  set (fid := t_feeder t) in *. set (v := t_val t) in *.
  pose proof (fill_price_frame p m fid v (t_nonce t) (t_prices t)) as [F1 [F2 [F3 [F4 [F5 F6]]]]].
  pose proof (fill_price_cases p m fid v (t_nonce t) (t_prices t) r0 Hr0) as Hcases.
  (* facts about the round of fid *)
  destruct HJ as [Hh [[Srs [Hsound Hcompl]] _]]. fold m in Hsound, Srs.
  destruct (Hsound _ _ Hr0) as [f [Hf [Hst [Hb [Hn Hol]]]]]. specialize (Hol Ho0).
  assert (Hwin : H - 1 - r_based r0 < p_maxnonce p) by (rewrite Hb; unfold basedb; lia).
  pose proof (HO _ _ Hr0 Ho0) as Hvub0.
  destruct (HL _ _ Hr0 Hwin Hvub0) as [c [Hrun [Hbnd Hcl]]]. specialize (Hcl Ho0).
  pose proof (run_items_sorted _ _ _ _ (core0_sorted (m_vals m)) Hrun) as Sc.
  set (IT := ITf s m fid (r_based r0)) in *.
  set (w0 := match wk m fid with Some w => w | None => new_worker (m_vals m) end) in *.
  assert (Hw0 : w_sealed w0 = false /\ w_core w0 = c /\ (forall u, cnt u IT <= zlen (nl w0 u))).
  { unfold w0. destruct (wk m fid) as [w|]; [destruct Hcl as [X1 [X2 [X3 _]]]; auto|]. rewrite Hcl in Hrun. simpl in Hrun. inversion Hrun; subst c.
    split; [reflexivity|]. split; [reflexivity|]. intro u. rewrite Hcl. simpl. apply zlen_nonneg. }
  destruct Hw0 as [Hs0 [Hc0 Hcnt0]].
  assert (Hcap0 : forall u, zlen (nl w0 u) <= p_maxnonce p).
  { intro u. unfold w0. destruct (wk m fid) as [w|] eqn:Ew; [eapply HC; exact Ew|]. unfold nl. simpl. unfold zlen. simpl. lia. }
  destruct Hcases as [[Hsl _]|[_ [w1 [kept [fin [Hwd Hres]]]]]]; [congruence|].
  destruct (fill_price p m fid v (t_nonce t) (t_prices t)) as [m1 res] eqn:Efp. simpl in F1, F2, F3, F4, F5, F6, Hres.
  pose proof (own_step (p_maxnonce p) (m_vals m) w0 c IT fid v (t_nonce t) (t_prices t) w1 kept fin Hps Hc0 Sc Hcnt0 Hwd) as Hown.
  assert (Hcap1 : forall u, zlen (nl w1 u) <= p_maxnonce p).
  { intro u. replace w1 with (fst (fst (worker_do (p_maxnonce p) w0 v (t_nonce t) (pw (m_vals m) v) (t_prices t)))) by (rewrite Hwd; reflexivity).
    rewrite nl_worker_do. destruct (u =? v); [apply set_add_zlen; apply Hcap0 | apply Hcap0]. }
  assert (Hitok : forall kl, msgs_ok p H [mkItem fid v kl]).
  { intros kl it [<-|[]]. simpl. exists f. repeat split; assumption. }
  assert (Hcaps : forall mX, (forall g, g <> fid -> wk mX g = wk m g) -> (wk mX fid = Some w1 \/ wk mX fid = Some sealed_worker) -> caps p mX).
  { intros mX Hg Hfid g w u Hw. destruct (Z.eq_dec g fid) as [->|N].
    - destruct Hfid as [E|E]; rewrite E in Hw; inversion Hw; subst; [apply Hcap1|]. unfold nl. simpl. unfold zlen. simpl. lia.
    - rewrite Hg in Hw by exact N. eapply HC; exact Hw. }
  assert (Hopen : forall mX, (forall g, g <> fid -> rd mX g = rd m g) ->
                  (rd mX fid = Some r0 \/ rd mX fid = Some (mkRound (r_based r0) (r_next r0) false)) -> open_vub s mX).
  { intros mX Hg Hfid g r Hr Hop. destruct (Z.eq_dec g fid) as [->|N].
    - destruct Hfid as [E|E]; rewrite E in Hr; inversion Hr; subst; [exact Hvub0 | discriminate].
    - rewrite Hg in Hr by exact N. eapply HO; eassumption. }
  destruct kept as [kl|]; [destruct fin as [price|]|]; destruct Hres as [Hres [Hrd1 Hwk1]]; subst res; simpl.
  - (* final *)
    set (mX := set_msgs m1 (filter (fun x => negb (i_feeder x =? fid)) (m_msgs m1))).
    assert (Xr : forall g, rd mX g = rd m1 g) by (intro g; destruct m1; reflexivity).
    assert (Xw : forall g, wk mX g = wk m1 g) by (intro g; destruct m1; reflexivity).
    apply (Hext _ mX); try (destruct s; reflexivity).
    + intros it Hin. apply HM. unfold mX in Hin. destruct m1; simpl in *. apply filter_In in Hin. rewrite <- F4. tauto.
    + apply (link_update p H s m mX fid HL); [exact F1| |].
      * intros g N. rewrite Xr, Xw. destruct (F5 g N) as [A B]. split; [exact A|]. split; [exact B|].
        unfold mX. destruct m1; simpl in *. rewrite F4. apply filter_isf_other. congruence.
      * intros r Hr _ _. rewrite Xr, Hrd1 in Hr. inversion Hr; subst r. simpl.
        assert (EIT : ITf s mX fid (r_based r0) = itemsF fid (r_based r0) (s_msgs s)).
        { unfold ITf, mX. destruct m1; simpl in *. rewrite filter_isf_self, app_nil_r. reflexivity. }
        rewrite EIT. change (m_vals mX) with (m_vals m1). rewrite F1.
        unfold IT, ITf in Hrun, Hbnd. destruct (run_items_prefix _ _ _ _ _ Hrun) as [c1 Hc1]. exists c1. split; [exact Hc1|]. split; [|discriminate].
        intro u. specialize (Hbnd u). rewrite cnt_app in Hbnd. pose proof (cnt_nonneg u (filter (isf fid) (m_msgs m))). lia.
    + apply Hopen; [intros g N; rewrite Xr; apply F5; exact N | right; rewrite Xr; exact Hrd1].
    + apply Hcaps; [intros g N; rewrite Xw; apply F5; exact N | right; rewrite Xw; exact Hwk1].
  - (* counted *)
    destruct Hown as [Hcd Hcnt1].
    set (mX := set_msgs m1 (m_msgs m1 ++ [mkItem fid v kl])).
    assert (Xr : forall g, rd mX g = rd m1 g) by (intro g; destruct m1; reflexivity).
    assert (Xw : forall g, wk mX g = wk m1 g) by (intro g; destruct m1; reflexivity).
    assert (EIT : ITf s mX fid (r_based r0) = IT ++ [mkItem fid v kl]).
    { unfold IT, ITf, mX. destruct m1; simpl in *. rewrite F4, filter_app_one. unfold isf at 2. simpl. rewrite Z.eqb_refl, app_assoc. reflexivity. }
    apply (Hext _ mX); try (destruct s; reflexivity).
    + intros it Hin. unfold mX in Hin. destruct m1; simpl in *. rewrite F4 in Hin. apply in_app_or in Hin.
      destruct Hin as [Hin|Hin]; [apply HM; exact Hin | eapply Hitok; exact Hin].
    + apply (link_update p H s m mX fid HL); [exact F1| |].
      * intros g N. rewrite Xr, Xw. destruct (F5 g N) as [A B]. split; [exact A|]. split; [exact B|].
        unfold mX. destruct m1; simpl in *. rewrite F4, filter_app_one. unfold isf at 2. simpl.
        destruct (fid =? g) eqn:E; [apply Z.eqb_eq in E; congruence | apply app_nil_r].
      * intros r Hr _ _. rewrite Xr, Hrd1 in Hr. inversion Hr; subst r.
        rewrite EIT. change (m_vals mX) with (m_vals m1). rewrite F1.
        exists (w_core w1). split; [|split].
        -- rewrite run_items_app, Hrun. simpl. rewrite Hcd. reflexivity.
        -- intro u. specialize (Hcnt1 u). specialize (Hcap1 u). lia.
        -- intros _. rewrite Xw, Hwk1. split; [|split; [reflexivity | split; [exact Hcnt1 | intro Hx; destruct IT; discriminate]]].
           replace w1 with (fst (fst (worker_do (p_maxnonce p) w0 v (t_nonce t) (pw (m_vals m) v) (t_prices t)))) by (rewrite Hwd; reflexivity).
           rewrite worker_do_sealed. exact Hs0.
    + apply Hopen; [intros g N; rewrite Xr; apply F5; exact N | left; rewrite Xr; exact Hrd1].
    + apply Hcaps; [intros g N; rewrite Xw; apply F5; exact N | left; rewrite Xw; exact Hwk1].
  - (* ignored *)
    destruct Hown as [Hcd Hcnt1].
    assert (HITne : IT <> []).
    { unfold w0 in Hwd. destruct (wk m fid) as [w|] eqn:Ew; [destruct Hcl as [_ [_ [_ X]]]; exact X|]. exfalso.
      destruct (worker_do_core (p_maxnonce p) (new_worker (m_vals m)) v (t_nonce t) (pw (m_vals m) v) (t_prices t)) as [[Ha _]|[_ Hw]].
      - unfold nl, set_add, zlen in Ha. simpl in Ha. destruct (p_maxnonce p) eqn:E0; simpl in Ha; [lia | discriminate Ha | discriminate Ha].
      - rewrite Hw in Hwd.
        destruct (core_do (w_core (new_worker (m_vals m))) v (pw (m_vals m) v) (t_prices t)) as [[c1 k1] f1] eqn:Ecd. simpl in Hwd.
        inversion Hwd; subst.
        eapply core_do_first_counted; [|exact Hps|exact Ecd|reflexivity]. reflexivity. }
    apply (Hext _ m1); try (destruct s; reflexivity).
    + rewrite F4. exact HM.
    + apply (link_update p H s m m1 fid HL); [exact F1| |].
      * intros g N. destruct (F5 g N) as [A B]. rewrite F4. repeat split; assumption.
      * intros r Hr _ _. rewrite Hrd1 in Hr. inversion Hr; subst r.
        assert (EIT : ITf s m1 fid (r_based r0) = IT) by (unfold IT, ITf; rewrite F4; reflexivity).
        rewrite EIT, F1. exists c. split; [exact Hrun|]. split; [exact Hbnd|]. intros _. rewrite Hwk1. split; [|split; [exact Hcd | split; [exact Hcnt1 | exact HITne]]].
        replace w1 with (fst (fst (worker_do (p_maxnonce p) w0 v (t_nonce t) (pw (m_vals m) v) (t_prices t)))) by (rewrite Hwd; reflexivity).
        rewrite worker_do_sealed. exact Hs0.
    + apply Hopen; [intros g N; apply F5; exact N | left; exact Hrd1].
    + apply Hcaps; [intros g N; apply F5; exact N | left; exact Hwk1].
Qed.

(* ---- SealRound / Prepare on the whole memory, seen from one feeder ---------------------------------------- *)
Lemma seal_mem_at p h force m : no_expiry p -> ksorted (m_rounds m) ->
  let m2 := fst (fst (seal p h force m)) in
  m_vals m2 = m_vals m /\ m_cvals m2 = m_cvals m /\ m_msgs m2 = m_msgs m /\ m_vupd m2 = m_vupd m /\ m_panic m2 = m_panic m /\
  m_rounds m2 = map (fun e => (fst e, seal_one p h force (fst e) (snd e))) (m_rounds m) /\
  (forall fid, rd m2 fid = option_map (seal_one p h force fid) (rd m fid)) /\
  (forall fid, wk m2 fid =
     match rd m fid with
     | Some r => match get_feeder (p_feeders p) fid with
                 | Some _ => if closing p h force r then None
                             else match wk m fid with Some w => if w_sealed w then None else Some w | None => None end
                 | None => wk m fid
                 end
     | None => wk m fid
     end).
Proof.
  intros NE S. unfold seal, rd, wk.
  destruct (seal_rounds p h force (m_rounds m) (m_workers m)) as [[[rs' ws'] fl] sl] eqn:E. simpl.
  pose proof (seal_rounds_map p h force NE _ _ _ _ _ _ E) as Er.
  pose proof (seal_rounds_wk p h force NE _ _ _ _ _ _ S E) as Ew.
  destruct m; simpl in *. repeat split; try reflexivity; try assumption.
  - intro fid. rewrite Er. apply aget_map_keyed.
Qed.

Lemma prepare_mem_at p b m : NoDup (map f_id (p_feeders p)) -> 1 <= b ->
  let m4 := fst (prepare p b m) in
  m_vals m4 = m_vals m /\ m_cvals m4 = m_cvals m /\ m_msgs m4 = m_msgs m /\ m_vupd m4 = m_vupd m /\ m_panic m4 = m_panic m /\
  (ksorted (m_rounds m) -> ksorted (m_rounds m4)) /\
  (forall fid, rd m4 fid = match get_feeder (p_feeders p) fid with
                           | Some f => if inactive f b then rd m fid else Some (prep_one (p_maxnonce p) b f (rd m fid))
                           | None => rd m fid end) /\
  (forall fid, wk m4 fid = match get_feeder (p_feeders p) fid with
                           | Some f => if inactive f b then wk m fid
                                       else match rd m fid with Some _ => if leftb f b =? 0 then None else wk m fid | None => wk m fid end
                           | None => wk m fid end).
Proof.
  intros ND Hb. unfold prepare, rd, wk. destruct (b <? 1) eqn:E; [apply Z.ltb_lt in E; lia|].
  destruct (prepare_rounds (p_maxnonce p) b (p_feeders p) (m_rounds m) (m_workers m)) as [[rs' ws'] nw] eqn:Ep. simpl.
  destruct (prepare_rounds_lookup _ _ _ _ _ _ _ _ ND Ep) as [S L].
  pose proof (prepare_rounds_wk _ _ _ _ _ _ _ _ ND Ep) as W.
  destruct m; simpl in *. repeat split; try reflexivity; assumption.
Qed.

Definition VR (st : state) : Prop := m_vupd (st_mem st) = false \/ m_rounds (st_mem st) = [].

Lemma deliver_VR p st t : VR st -> VR (fst (deliver p st t)).
Proof.
  intro H. unfold deliver. destruct (nonce_check _ _ _ _ _) as [ns'|]; [|exact H].
  destruct (check_msg (st_mem st) (t_feeder t) (t_val t) (t_based t) (t_prices t)) eqn:Ek; [|exact H].
  destruct H as [H|H].
  - pose proof (fill_price_frame p (st_mem st) (t_feeder t) (t_val t) (t_nonce t) (t_prices t)) as [_ [_ [F3 _]]].
    destruct (fill_price p (st_mem st) (t_feeder t) (t_val t) (t_nonce t) (t_prices t)) as [m1 res]. simpl in F3.
    left. destruct res; simpl; destruct m1; simpl in *; congruence.
  - exfalso. destruct (check_msg_open _ _ _ _ _ Ek) as [r0 [Hr _]]. rewrite H in Hr. discriminate.
Qed.


Lemma ksorted_filter {A} (g : Z * A -> bool) (l : list (Z * A)) : ksorted l -> ksorted (filter g l).
Proof.
  unfold ksorted. induction l as [|[k v] r IH]; simpl; intro S; [constructor|].
  inversion S as [|? ? S' F]; subst. destruct (g (k, v)); simpl; [|apply IH; exact S'].
  constructor; [apply IH; exact S'|]. apply Forall_forall. intros x Hx. rewrite Forall_forall in F. apply F.
  unfold keys in *. rewrite in_map_iff in *. destruct Hx as [e [He Hin]]. exists e. split; [exact He|]. apply filter_In in Hin. tauto.
Qed.

Lemma ksorted_snoc {A} (l : list (Z * A)) k v : ksorted l -> (forall e, In e l -> fst e < k) -> ksorted (l ++ [(k, v)]).
Proof.
  unfold ksorted. induction l as [|[k' v'] r IH]; simpl; intros S H; [constructor; constructor|].
  inversion S as [|? ? S' F]; subst. constructor.
  - apply IH; [exact S' | intros e He; apply H; right; exact He].
  - unfold keys. rewrite map_app. apply Forall_app. split; [exact F|]. constructor; [|constructor].
    specialize (H (k', v') (or_introl eq_refl)). exact H.
Qed.

Lemma commit_msgs_ok p h its w :
  ksorted w -> (forall x l, In (x, l) w -> x < h /\ msgs_ok p x l) -> msgs_ok p h its ->
  ksorted (commit_msgs (p_maxnonce p) h its w) /\
  (forall x l, In (x, l) (commit_msgs (p_maxnonce p) h its w) -> x < h + 1 /\ msgs_ok p x l).
Proof.
  intros S Hw Hi. unfold commit_msgs. destruct its as [|i0 ir].
  - split; [exact S|]. intros x l Hin. destruct (Hw _ _ Hin). split; [lia | assumption].
  - split.
    + apply ksorted_snoc; [apply ksorted_filter; exact S|]. intros [x l] Hin. apply filter_In in Hin. destruct Hin as [Hin _].
      simpl. apply (Hw _ _ Hin).
    + intros x l Hin. apply in_app_or in Hin. destruct Hin as [Hin|[Hin|[]]].
      * apply filter_In in Hin. destruct Hin as [Hin _]. destruct (Hw _ _ Hin). split; [lia | assumption].
      * inversion Hin; subst. split; [lia | exact Hi].
Qed.

Lemma itemsF_commit p f B h its w :
  h - p_maxnonce p <= B -> B < h ->
  itemsF f B (commit_msgs (p_maxnonce p) h its w) = itemsF f B w ++ filter (isf f) its.
Proof.
  intros H1 H2. unfold commit_msgs. destruct its as [|i0 ir]; [simpl; rewrite app_nil_r; reflexivity|].
  rewrite itemsF_app, itemsF_filter_keep by exact H1. f_equal. simpl.
  destruct (B <? h) eqn:E; [rewrite app_nil_r; reflexivity | apply Z.ltb_ge in E; lia].
Qed.

Lemma itemsF_commit_new p f h its w :
  (forall x l, In (x, l) w -> x < h) -> itemsF f h (commit_msgs (p_maxnonce p) h its w) = [].
Proof.
  intro Hw. apply itemsF_above. intros [x l] Hin. simpl. unfold commit_msgs in Hin. destruct its as [|i0 ir].
  - specialize (Hw _ _ Hin). lia.
  - apply in_app_or in Hin. destruct Hin as [Hin|[Hin|[]]].
    + apply filter_In in Hin. destruct Hin as [Hin _]. specialize (Hw _ _ Hin). lia.
    + inversion Hin; subst. lia.
Qed.

Lemma end_block_LIVE p st vu : params_ok p -> LIVE p st -> VR st -> LIVE p (end_block p st vu).
Proof.
  intros Hok [HJ [HS [HM [HL [HO HC]]]]] HVR. pose proof Hok as [ND [Hmn [NE HI]]].
  destruct (end_block_J p st vu Hok HJ) as [HJ' _]. split; [exact HJ'|]. clear HJ'.
  pose proof HJ as [Hh [[Srs [Hsound Hcompl]] [Hsw [Hwo [Hp [Hv Hc]]]]]].
  destruct HS as [Sm [Hmsgs Hvub]].
  unfold end_block.
  set (m := st_mem st) in *. set (s := st_store st) in *. set (h := st_h st) in *.
  set (m1 := match vu with
             | Some vs => mkMem vs (m_rounds m) (m_workers m) (m_msgs m) vs
                            (m_vupd m || negb (list_eqb (fun a b => (fst a =? fst b) && (snd a =? snd b)) vs (m_cvals m))) (m_panic m)
             | None => m end).
  set (force := match vu with Some _ => true | None => false end).
  set (s0 := match vu with Some vs => mkStore (s_next s) (s_nonce s) (s_msgs s) (s_vub s) vs | None => s end).
  replace (match vu with
           | Some vs => (mkMem vs (m_rounds m) (m_workers m) (m_msgs m) vs
                          (m_vupd m || negb (list_eqb (fun a b => (fst a =? fst b) && (snd a =? snd b)) vs (m_cvals m))) (m_panic m),
                        true, mkStore (s_next s) (s_nonce s) (s_msgs s) (s_vub s) vs)
           | None => (m, false, s) end) with (m1, force, s0) by (unfold m1, force, s0; destruct vu; reflexivity).
  assert (E1 : m_rounds m1 = m_rounds m /\ m_workers m1 = m_workers m /\ m_msgs m1 = m_msgs m) by (unfold m1; destruct vu; repeat split; reflexivity).
  destruct E1 as [E1r [E1w E1m]].
  assert (E0 : s_msgs s0 = s_msgs s /\ s_vub s0 = s_vub s) by (unfold s0; destruct vu; split; reflexivity).
  destruct E0 as [E0m E0v].
  (* either the validator set (and so every power) is unchanged, or the block is recorded as validator update block *)
  assert (Evals : m_vupd m1 = false -> m_vals m1 = m_vals m).
  { unfold m1. destruct vu as [vs|]; [|reflexivity]. simpl. intro Hf. apply orb_false_iff in Hf. destruct Hf as [_ Hf].
    apply negb_false_iff in Hf. rewrite Hv, <- Hc. eapply list_eqb_eq; [|exact Hf].
    intros [a1 a2] [b1 b2] E. simpl in E. apply andb_prop in E. destruct E as [Ea Eb]. apply Z.eqb_eq in Ea, Eb. congruence. }
  assert (Evupd : m_vupd m1 = false -> m_vupd m = false) by (unfold m1; destruct vu; simpl; [intro Hf; apply orb_false_iff in Hf; tauto | auto]).
  assert (S1 : ksorted (m_rounds m1)) by (rewrite E1r; exact Srs).
  pose proof (seal_mem_at p h force m1 NE S1) as HS2.
  destruct (seal p h force m1) as [[m2 failed] sealed]. simpl in HS2.
  destruct HS2 as [A1 [A2 [A3 [A4 [A5 [A6 [A7 A8]]]]]]].
  set (m3 := mkMem (m_vals m2) (m_rounds m2) (m_workers m2) [] (m_cvals m2) false (m_panic m2)).
  pose proof (prepare_mem_at p h m3 ND Hh) as HP4.
  destruct (prepare p h m3) as [m4 nw]. simpl in HP4. destruct HP4 as [B1 [B2 [B3 [B4 [B5 [B6 [B7 B8]]]]]]].
  simpl.
  set (msgs1 := commit_msgs (p_maxnonce p) h (m_msgs m2) (s_msgs s0)).
  set (vub1 := if m_vupd m2 then Some h else s_vub s0).
  destruct (commit_msgs_ok p h (m_msgs m2) (s_msgs s0)) as [Sm1 Hmsgs1];
    [rewrite E0m; exact Sm | rewrite E0m; exact Hmsgs | rewrite A3, E1m; exact HM|]. fold msgs1 in Sm1, Hmsgs1.
  assert (Hvub1 : match vub1 with Some v => v <= h | None => True end).
  { unfold vub1. destruct (m_vupd m2); [lia|]. rewrite E0v. destruct (s_vub s); [lia | exact I]. }
  (* per-feeder chain of lookups *)
  assert (R3 : forall g, rd m3 g = rd m2 g) by reflexivity.
  assert (W3 : forall g, wk m3 g = wk m2 g) by reflexivity.
  assert (R1 : forall g, rd m1 g = rd m g) by (intro g; unfold rd; rewrite E1r; reflexivity).
  assert (W1 : forall g, wk m1 g = wk m g) by (intro g; unfold wk; rewrite E1w; reflexivity).
  split; [|split; [|split; [|split]]].
  - (* store_ok *) split; [exact Sm1|]. split; [exact Hmsgs1|]. simpl. unfold vub1 in *. destruct (m_vupd m2); [lia|].
    rewrite E0v. destruct (s_vub s); [lia | exact I].
  - (* cache is empty *) rewrite B3. intros it [].
  - (* link *)
    intros fid r Hr Hwin Hvle. simpl in Hr, Hwin, Hvle. unfold ITf. simpl s_msgs. rewrite B3, B1. simpl. rewrite app_nil_r.
    remember (r_based r) as B eqn:EB.
    rewrite B7 in Hr. destruct (get_feeder (p_feeders p) fid) as [f|] eqn:Ef.
    2:{ rewrite R3, A7, R1 in Hr. destruct (rd m fid) as [r0|] eqn:Er0; [|discriminate].
        destruct (Hsound _ _ Er0) as [f [Hf _]]. congruence. }
    destruct (get_feeder_some _ _ _ Ef) as [Hin Hid]. destruct (HI _ Hin) as [HI1 HS1].
    rewrite (inactive_ok p f h Hok Hin) in Hr. destruct (h <? f_start f) eqn:Ea.
    { apply Z.ltb_lt in Ea. rewrite R3, A7, R1 in Hr. destruct (rd m fid) as [r0|] eqn:Er0; [|discriminate].
      destruct (Hsound _ _ Er0) as [f' [Hf' [Hst _]]]. rewrite Ef in Hf'. inversion Hf'; subst f'. lia. }
    apply Z.ltb_ge in Ea. inversion Hr; subst r. clear Hr.
    rewrite R3, A7, R1 in EB |- *. unfold prep_one in EB |- *.
    destruct (rd m fid) as [r0|] eqn:Er0; simpl in EB |- *.
    + destruct (leftb f h =? 0) eqn:E0.
      * (* a new round starts at h *)
        assert (HBh : basedb f h = h) by (unfold basedb; apply Z.eqb_eq in E0; lia).
        simpl in EB |- *. rewrite HBh in EB. subst B. unfold msgs1.
        rewrite (itemsF_commit_new p fid h (m_msgs m2) (s_msgs s0)) by (intros x l Hin'; rewrite E0m in Hin'; apply (Hmsgs _ _ Hin')).
        exists (core0 (m_vals m2)). split; [reflexivity|]. split; [intro u; simpl; lia|]. intros _. rewrite B8, Ef, (inactive_ok p f h Hok Hin).
        destruct (h <? f_start f) eqn:Ea'; [apply Z.ltb_lt in Ea'; lia|]. rewrite R3, A7, R1, Er0. simpl. rewrite E0. reflexivity.
      * (* the round of h-1 goes on *)
        apply Z.eqb_neq in E0.
        set (r2 := seal_one p h force fid r0) in *.
        assert (Hb2 : r_based r2 = r_based r0 /\ r_next r2 = r_next r0 /\ (r_open r2 = true -> r_open r0 = true /\ closing p h force r0 = false)).
        { unfold r2, seal_one, closing. rewrite Ef. destruct (r_open r0 && ((p_maxnonce p <=? h - r_based r0) || force)) eqn:Ec; simpl.
          - split; [reflexivity|]. split; [reflexivity|]. discriminate.
          - split; [reflexivity|]. split; [reflexivity|]. intro Hop. split; [exact Hop | reflexivity]. }
        destruct Hb2 as [Hb2 [Hn2 Ho2]].
        assert (HB : r_based (if r_open r2 && (p_maxnonce p <=? leftb f h) then mkRound (r_based r2) (r_next r2) false else r2) = r_based r0)
          by (destruct (r_open r2 && _); simpl; exact Hb2).
        rewrite HB in EB. subst B.
        destruct (Hsound _ _ Er0) as [f' [Hf' [Hst [Hb [Hn Hol]]]]]. rewrite Ef in Hf'. inversion Hf'; subst f'.
        destruct (left_step f h HI1 Ea E0) as [L1 [L2 [L3 L4]]].
        assert (HBlt : r_based r0 < h) by (rewrite Hb; unfold basedb; pose proof (left_bounds f (h - 1) HI1); lia).
        (* the block is not a recorded validator-update block, so powers and flag are unchanged *)
        assert (Hnv : m_vupd m2 = false).
        { destruct (m_vupd m2) eqn:Eu; [|reflexivity]. unfold vub_le in Hvle. simpl in Hvle. unfold vub1 in Hvle. try rewrite Eu in Hvle. simpl in Hvle. lia. }
        rewrite A4 in Hnv. pose proof (Evals Hnv) as Ev1. pose proof (Evupd Hnv) as Ev0.
        assert (Hvle0 : vub_le s (r_based r0)).
        { unfold vub_le in *. simpl in Hvle. unfold vub1 in Hvle. rewrite A4, Hnv, E0v in Hvle. exact Hvle. }
        destruct (HL fid r0 Er0 ltac:(lia) Hvle0) as [c [Hrun [Hbnd Hcl]]].
        unfold msgs1. rewrite (itemsF_commit p fid (r_based r0) h (m_msgs m2) (s_msgs s0)) by lia.
        rewrite A3, E1m, E0m, A1, Ev1. exists c. split; [exact Hrun|]. split; [exact Hbnd|].
        intro Hop4.
        assert (Hop2 : r_open r2 = true) by (destruct (r_open r2 && (p_maxnonce p <=? leftb f h)); [discriminate | exact Hop4]).
        destruct (Ho2 Hop2) as [Hop0 Hncl]. specialize (Hcl Hop0).
        rewrite B8, Ef, (inactive_ok p f h Hok Hin). destruct (h <? f_start f) eqn:Ea'; [apply Z.ltb_lt in Ea'; lia|].
        rewrite R3, A7, R1, Er0. simpl. destruct (leftb f h =? 0) eqn:E0'; [apply Z.eqb_eq in E0'; contradiction|].
        rewrite W3, A8, R1, Er0, Ef, Hncl, W1. unfold ITf in Hcl.
        destruct (wk m fid) as [w|]; [destruct Hcl as [C1 [C2 [C3 C4]]]; rewrite C1; auto | exact Hcl].
    + (* the feeder starts at h *)
      assert (Hst : f_start f = h).
      { destruct (Z.eq_dec (f_start f) h); [assumption|]. exfalso. apply (Hcompl f Hin); [lia|]. rewrite Hid. exact Er0. }
      assert (E0 : leftb f h = 0) by (unfold leftb; rewrite Hst, Z.sub_diag; apply Z.mod_0_l; lia).
      assert (HB : basedb f h = h) by (unfold basedb; rewrite E0; lia).
      rewrite HB in EB. subst B. unfold msgs1. rewrite (itemsF_commit_new p fid h (m_msgs m2) (s_msgs s0)) by (intros x l Hin'; rewrite E0m in Hin'; apply (Hmsgs _ _ Hin')).
      exists (core0 (m_vals m2)). split; [reflexivity|]. split; [intro u; simpl; lia|]. intros _. rewrite B8, Ef, (inactive_ok p f h Hok Hin).
      destruct (h <? f_start f) eqn:Ea'; [apply Z.ltb_lt in Ea'; lia|]. rewrite R3, A7, R1, Er0. simpl.
      rewrite W3, A8, R1, Er0, W1.
      destruct (wk m fid) as [w|] eqn:Ew; [|reflexivity]. exfalso.
      destruct (Hwo _ _ Ew) as [r [Hr _]]. unfold rd in Er0. congruence.
  - (* open rounds are younger than the last validator update *)
    intros fid r Hr Hop. unfold vub_le. simpl. rewrite B7 in Hr.
    destruct (get_feeder (p_feeders p) fid) as [f|] eqn:Ef.
    2:{ rewrite R3, A7, R1 in Hr. destruct (rd m fid) as [r0|] eqn:Er0; [|discriminate].
        destruct (Hsound _ _ Er0) as [f [Hf _]]. congruence. }
    destruct (get_feeder_some _ _ _ Ef) as [Hin Hid]. destruct (HI _ Hin) as [HI1 HS1].
    rewrite (inactive_ok p f h Hok Hin) in Hr. destruct (h <? f_start f) eqn:Ea.
    { apply Z.ltb_lt in Ea. rewrite R3, A7, R1 in Hr. destruct (rd m fid) as [r0|] eqn:Er0; [|discriminate].
      destruct (Hsound _ _ Er0) as [f' [Hf' [Hst _]]]. rewrite Ef in Hf'. inversion Hf'; subst f'. lia. }
    apply Z.ltb_ge in Ea. inversion Hr; subst r. clear Hr. rewrite R3, A7, R1 in Hop |- *. unfold prep_one in *.
    destruct (rd m fid) as [r0|] eqn:Er0; simpl in *.
    + destruct (leftb f h =? 0) eqn:E0.
      * simpl. unfold basedb. apply Z.eqb_eq in E0. rewrite E0. destruct vub1; [lia | exact I].
      * set (r2 := seal_one p h force fid r0) in *.
        assert (Hop2 : r_open r2 = true) by (destruct (r_open r2 && (p_maxnonce p <=? leftb f h)); [discriminate | exact Hop]).
        assert (Hb2 : r_based (if r_open r2 && (p_maxnonce p <=? leftb f h) then mkRound (r_based r2) (r_next r2) false else r2) = r_based r0).
        { destruct (r_open r2 && _); simpl; unfold r2, seal_one; rewrite Ef; destruct (r_open r0 && _); reflexivity. }
        rewrite Hb2. unfold r2, seal_one in Hop2. rewrite Ef in Hop2.
        destruct (r_open r0 && ((p_maxnonce p <=? h - r_based r0) || force)) eqn:Ec; [discriminate|].
        rewrite Hop2 in Ec. simpl in Ec. apply orb_false_iff in Ec. destruct Ec as [_ Ef0].
        assert (vu = None) by (unfold force in Ef0; destruct vu; [discriminate | reflexivity]). subst vu.
        assert (Hu : m_vupd m = false).
        { destruct HVR as [Hu|Hu]; [exact Hu|]. unfold rd in Er0. fold m in Hu. rewrite Hu in Er0. discriminate. }
        unfold vub1. rewrite A4. change (m_vupd m1) with (m_vupd m). rewrite Hu. rewrite E0v.
        apply (HO fid r0 Er0 Hop2).
    + simpl. assert (Hst : f_start f = h).
      { destruct (Z.eq_dec (f_start f) h); [assumption|]. exfalso. apply (Hcompl f Hin); [lia|]. rewrite Hid. exact Er0. }
      unfold basedb, leftb. rewrite Hst, Z.sub_diag, Z.mod_0_l by lia. destruct vub1; [lia | exact I].
  - (* capacity *)
    intros fid w u Hw. rewrite B8 in Hw.
    assert (Hw2 : wk m2 fid = Some w).
    { destruct (get_feeder (p_feeders p) fid) as [f|]; [|exact Hw]. destruct (inactive f h); [exact Hw|].
      rewrite R3 in Hw. destruct (rd m2 fid); [destruct (leftb f h =? 0); [discriminate | exact Hw] | exact Hw]. }
    rewrite A8, R1, W1 in Hw2.
    assert (Hw0 : wk m fid = Some w).
    { destruct (rd m fid); [|exact Hw2]. destruct (get_feeder (p_feeders p) fid); [|exact Hw2].
      destruct (closing p h force r); [discriminate|]. destruct (wk m fid) as [w'|]; [|discriminate].
      destruct (w_sealed w'); [discriminate | exact Hw2]. }
    eapply HC; exact Hw0.
Qed.

Lemma init_LIVE p vals next0 : params_ok p -> LIVE p (init_state vals next0) /\ VR (init_state vals next0).
Proof.
  intro Hok. split; [|right; reflexivity].
  split; [apply init_J; exact Hok|]. split.
  - split; [apply ksorted_nil|]. split; [intros x its []| exact I].
  - split; [intros it []|]. split; [intros fid r Hr; unfold rd in Hr; simpl in Hr; discriminate|].
    split; [intros fid r Hr; unfold rd in Hr; simpl in Hr; discriminate|].
    intros fid w v Hw. unfold wk in Hw. simpl in Hw. discriminate.
Qed.

Lemma run_LIVE p : params_ok p -> forall ops st c, forallb plain ops = true -> LIVE p st -> VR st ->
  LIVE p (fst (fold_left (step p) ops (st, c))) /\ VR (fst (fold_left (step p) ops (st, c))).
Proof.
  intros Hok. induction ops as [|o ops IH]; intros st c Hp HL HV; simpl; [split; assumption|].
  simpl in Hp. apply andb_prop in Hp. destruct Hp as [Ho Hp].
  destruct o as [t|vu|]; simpl in *; [| |discriminate].
  - pose proof (deliver_LIVE p st t Hok HL) as HL'. pose proof (deliver_VR p st t HV) as HV'.
    destruct (deliver p st t) as [st' cc]. simpl in HL', HV'. apply IH; assumption.
  - apply IH; [assumption | apply end_block_LIVE; assumption|].
    left. destruct HL as [HJ _]. destruct (end_block_J p st vu Hok HJ) as [_ [_ [Hu _]]]. exact Hu.
Qed.

(* ---- items of one feeder round, block by block -------------------------------------------------------------- *)
Definition lookupB (msgs : list (Z * list item)) (x : Z) : list item := match aget x msgs with Some l => l | None => [] end.
Definition accF (f B x : Z) (l : list (Z * list item)) : list item := itemsF f B (filter (fun e => fst e <=? x) l).

Lemma accF_nil_above f B x l : (forall e, In e l -> x < fst e) -> accF f B x l = [].
Proof.
  intro H. unfold accF. replace (filter (fun e => fst e <=? x) l) with (@nil (Z * list item)); [reflexivity|].
  symmetry. induction l as [|e r IH]; simpl; [reflexivity|].
  pose proof (H e (or_introl eq_refl)) as He. destruct (fst e <=? x) eqn:E; [apply Z.leb_le in E; lia|].
  apply IH. intros e' He'. apply H. right. exact He'.
Qed.

Lemma ksorted_tail_gt {A} k (v : A) r : ksorted ((k, v) :: r) -> ksorted r /\ forall e, In e r -> k < fst e.
Proof.
  intro S. inversion S as [|? ? S' F]; subst. split; [exact S'|]. intros e He. rewrite Forall_forall in F. apply F.
  unfold keys. apply in_map. exact He.
Qed.

Lemma accF_step f B x l : ksorted l -> B < x -> accF f B x l = accF f B (x - 1) l ++ filter (isf f) (lookupB l x).
Proof.
  intros S Hx. induction l as [|[k its] r IH].
  - reflexivity.
  - destruct (ksorted_tail_gt _ _ _ S) as [S' Hgt]. specialize (IH S').
    unfold accF, lookupB in *. simpl.
    destruct (Z.lt_trichotomy k x) as [L|[L|L]].
    + destruct (k <=? x) eqn:E1; [|apply Z.leb_gt in E1; lia]. destruct (k <=? x - 1) eqn:E2; [|apply Z.leb_gt in E2; lia].
      destruct (x =? k) eqn:E3; [apply Z.eqb_eq in E3; lia|]. simpl. rewrite IH, app_assoc. reflexivity.
    + subst k. rewrite Z.leb_refl. destruct (x <=? x - 1) eqn:E2; [apply Z.leb_le in E2; lia|]. rewrite Z.eqb_refl. simpl.
      fold (accF f B x r). fold (accF f B (x - 1) r).
      rewrite (accF_nil_above f B x r) by (intros e He; apply Hgt; exact He).
      rewrite (accF_nil_above f B (x - 1) r) by (intros e He; specialize (Hgt e He); lia).
      destruct (B <? x) eqn:E; [rewrite app_nil_r; reflexivity | apply Z.ltb_ge in E; lia].
    + destruct (k <=? x) eqn:E1; [apply Z.leb_le in E1; lia|]. destruct (k <=? x - 1) eqn:E2; [apply Z.leb_le in E2; lia|].
      destruct (x =? k) eqn:E3; [apply Z.eqb_eq in E3; lia|].
      fold (accF f B x r). fold (accF f B (x - 1) r).
      rewrite (accF_nil_above f B x r) by (intros e He; specialize (Hgt e He); lia).
      rewrite (accF_nil_above f B (x - 1) r) by (intros e He; specialize (Hgt e He); lia).
      rewrite (ksorted_lt_none x r); [reflexivity|]. apply Forall_forall. intros y Hy. unfold keys in Hy. rewrite in_map_iff in Hy.
      destruct Hy as [e [<- He]]. specialize (Hgt e He). lia.
Qed.

Lemma accF_base f B l : accF f B B l = [].
Proof.
  unfold accF. apply itemsF_above. intros e He. apply filter_In in He. destruct He as [_ He]. apply Z.leb_le in He. exact He.
Qed.

Lemma accF_full f B x l : (forall e, In e l -> fst e <= x) -> accF f B x l = itemsF f B l.
Proof.
  intro H. unfold accF. f_equal. induction l as [|e r IH]; simpl; [reflexivity|].
  pose proof (H e (or_introl eq_refl)) as He. destruct (fst e <=? x) eqn:E; [|apply Z.leb_gt in E; lia].
  f_equal. apply IH. intros e' He'. apply H. right. exact He'.
Qed.

Lemma accF_prefix f B x l : ksorted l -> exists rest, itemsF f B l = accF f B x l ++ rest.
Proof.
  intro S. induction l as [|[k its] r IH].
  - exists []. reflexivity.
  - destruct (ksorted_tail_gt _ _ _ S) as [S' Hgt]. destruct (IH S') as [rest Hr]. unfold accF in *. simpl.
    destruct (k <=? x) eqn:E; simpl.
    + exists rest. rewrite Hr, app_assoc. reflexivity.
    + apply Z.leb_gt in E. fold (accF f B x r).
      rewrite (accF_nil_above f B x r) by (intros e He; specialize (Hgt e He); lia). eexists. reflexivity.
Qed.

(* ---- shape of FillPrice, unconditional (the replay does not check the message) ---------------------------- *)
Lemma fill_price_shape p m fid v nonce ps r :
  rd m fid = Some r ->
  let m1 := fst (fill_price p m fid v nonce ps) in
  (m_rounds m1 = m_rounds m \/ m_rounds m1 = aset fid (mkRound (r_based r) (r_next r) false) (m_rounds m)) /\
  (ksorted (m_workers m) -> ksorted (m_workers m1)) /\
  (forall g w u k, wk m1 g = Some w -> In k (nl w u) -> k = nonce \/ exists w', wk m g = Some w' /\ In k (nl w' u)).
Proof.
  unfold rd, wk, fill_price. intro Hr.
  set (w0 := match aget fid (m_workers m) with Some w => w | None => new_worker (m_vals m) end).
  assert (Hw0 : forall u k, In k (nl w0 u) -> exists w', aget fid (m_workers m) = Some w' /\ In k (nl w' u)).
  { unfold w0. destruct (aget fid (m_workers m)) as [w|]; [eauto|]. intros u k Hin. unfold nl in Hin. simpl in Hin. destruct Hin. }
  assert (Hput : forall W ws, (forall u k, In k (nl W u) -> k = nonce \/ exists w', aget fid (m_workers m) = Some w' /\ In k (nl w' u)) ->
            (forall g w u k, aget g ws = Some w -> In k (nl w u) -> k = nonce \/ exists w', aget g (m_workers m) = Some w' /\ In k (nl w' u)) ->
            forall g w u k, aget g (aset fid W ws) = Some w -> In k (nl w u) -> k = nonce \/ exists w', aget g (m_workers m) = Some w' /\ In k (nl w' u)).
  { intros W ws HW Hws g w u k Hg Hin. destruct (Z.eq_dec g fid) as [->|N].
    - rewrite aget_aset_eq in Hg. inversion Hg; subst. apply HW. exact Hin.
    - rewrite aget_aset_neq in Hg by exact N. eapply Hws; eassumption. }
  assert (Hid : forall g w u k, aget g (m_workers m) = Some w -> In k (nl w u) -> k = nonce \/ exists w', aget g (m_workers m) = Some w' /\ In k (nl w' u))
    by (intros; right; eauto).
  destruct (w_sealed w0).
  - destruct m; simpl in *. split; [left; reflexivity|]. split; [apply ksorted_aset|].
    apply Hput; [|exact Hid]. intros u k Hin. right. apply Hw0. exact Hin.
  - pose proof (nl_worker_do (p_maxnonce p) w0 v nonce (match aget v (m_vals m) with Some x => x | None => 0 end) ps) as Hnl.
    destruct (worker_do (p_maxnonce p) w0 v nonce _ ps) as [[w1 kept] fin]. simpl in Hnl.
    assert (HW1 : forall u k, In k (nl w1 u) -> k = nonce \/ exists w', aget fid (m_workers m) = Some w' /\ In k (nl w' u)).
    { intros u k Hin. rewrite Hnl in Hin. destruct (u =? v) eqn:E.
      - apply Z.eqb_eq in E. subst u. destruct (set_add_cases (p_maxnonce p) nonce (nl w0 v)) as [Ec|Ec]; rewrite Ec in Hin.
        + right. apply Hw0. exact Hin.
        + apply in_app_or in Hin. destruct Hin as [Hin|[<-|[]]]; [right; apply Hw0; exact Hin | left; reflexivity].
      - right. apply Hw0. exact Hin. }
    assert (HS : forall u k, In k (nl sealed_worker u) -> k = nonce \/ exists w', aget fid (m_workers m) = Some w' /\ In k (nl w' u))
      by (intros u k Hin; unfold nl in Hin; simpl in Hin; destruct Hin).
    destruct kept as [kl|]; [destruct fin as [price|]|].
    + replace (m_rounds (set_workers m (aset fid w1 (m_workers m)))) with (m_rounds m) by (destruct m; reflexivity).
      rewrite Hr. destruct m; simpl in *. split; [right; reflexivity|]. split; [intro S; apply ksorted_aset; apply ksorted_aset; exact S|].
      apply Hput; [exact HS|]. apply Hput; [exact HW1 | exact Hid].
    + destruct m; simpl in *. split; [left; reflexivity|]. split; [apply ksorted_aset|]. apply Hput; [exact HW1 | exact Hid].
    + destruct m; simpl in *. split; [left; reflexivity|]. split; [apply ksorted_aset|]. apply Hput; [exact HW1 | exact Hid].
Qed.

(* ---- the replay: global invariant and the tracked feeder ---------------------------------------------------- *)
Definition GR (vals : list (Z * Z)) (m : mem) (n : Z) : Prop :=
  ksorted (m_workers m) /\ m_vals m = vals /\ m_cvals m = vals /\ m_msgs m = [] /\ m_vupd m = false /\ m_panic m = false /\
  n <= 0 /\ (forall g w u k, wk m g = Some w -> In k (nl w u) -> n <= k < 0).

Definition Topen (vals : list (Z * Z)) (fid B nx : Z) (m : mem) (acc : list item) : Prop :=
  rd m fid = Some (mkRound B nx true) /\
  match wk m fid with
  | None => acc = []
  | Some w => w_sealed w = false /\ run_items vals (core0 vals) acc = Some (w_core w) /\ (forall u, zlen (nl w u) = cnt u acc) /\ acc <> []
  end.

Definition istep (p : params) (a : mem * Z) (it : item) : mem * Z :=
  (fst (fill_price p (fst a) (i_feeder it) (i_val it) (snd a - 1) (i_prices it)), snd a - 1).

Lemma istep_inv p vals y m n it :
  RT p y (m_rounds m) -> GR vals m n -> rd m (i_feeder it) <> None ->
  RT p y (m_rounds (fst (istep p (m, n) it))) /\ GR vals (fst (istep p (m, n) it)) (snd (istep p (m, n) it)).
Proof.
  intros HRT [G1 [G2 [G3 [G4 [G5 [G6 [G7 G8]]]]]]] Hrd. unfold istep. simpl.
  destruct (rd m (i_feeder it)) as [rg|] eqn:Er; [|congruence].
  pose proof (fill_price_frame p m (i_feeder it) (i_val it) (n - 1) (i_prices it)) as [F1 [F2 [F3 [F4 [F5 F6]]]]].
  pose proof (fill_price_shape p m (i_feeder it) (i_val it) (n - 1) (i_prices it) rg Er) as [S1 [S2 S3]].
  set (m1 := fst (fill_price p m (i_feeder it) (i_val it) (n - 1) (i_prices it))) in *.
  split.
  - destruct S1 as [E|E]; rewrite E; [exact HRT | apply RT_close; [exact HRT | exact Er]].
  - split; [apply S2; exact G1|]. split; [congruence|]. split; [congruence|]. split; [congruence|]. split; [congruence|].
    split; [rewrite F6; [exact G6 | rewrite Er; discriminate]|]. split; [lia|].
    intros g w u k Hw Hin. destruct (S3 g w u k Hw Hin) as [->|[w' [Hw' Hin']]]; [lia|].
    specialize (G8 g w' u k Hw' Hin'). lia.
Qed.

Lemma istep_other p vals fid B nx m n it acc :
  i_feeder it <> fid ->
  (Topen vals fid B nx m acc -> Topen vals fid B nx (fst (istep p (m, n) it)) acc) /\
  (wk m fid = None -> wk (fst (istep p (m, n) it)) fid = None) /\
  rd (fst (istep p (m, n) it)) fid = rd m fid.
Proof.
  intro N. unfold istep. simpl.
  pose proof (fill_price_frame p m (i_feeder it) (i_val it) (n - 1) (i_prices it)) as [_ [_ [_ [_ [F5 _]]]]].
  destruct (F5 fid ltac:(congruence)) as [Ea Eb]. unfold Topen. rewrite Ea, Eb. tauto.
Qed.

Lemma istep_own p vals fid B nx m n it acc c' :
  p_maxnonce p <> 0 -> GR vals m n -> i_feeder it = fid ->
  Topen vals fid B nx m acc ->
  run_items vals (core0 vals) (acc ++ [it]) = Some c' ->
  (forall u, cnt u (acc ++ [it]) <= p_maxnonce p) ->
  Topen vals fid B nx (fst (istep p (m, n) it)) (acc ++ [it]).
Proof.
  intros Hmn [G1 [G2 [G3 [G4 [G5 [G6 [G7 G8]]]]]]] Hf [Hr Hw] Hrun Hb. unfold istep. simpl. rewrite Hf.
  pose proof (fill_price_cases p m fid (i_val it) (n - 1) (i_prices it) _ Hr) as Hc. rewrite G2 in Hc.
  set (v := i_val it) in *.
  set (w0 := match wk m fid with Some w => w | None => new_worker vals end) in *.
  assert (H0 : w_sealed w0 = false /\ run_items vals (core0 vals) acc = Some (w_core w0) /\ (forall u, zlen (nl w0 u) = cnt u acc) /\
               (forall u k, In k (nl w0 u) -> n <= k)).
  { unfold w0. destruct (wk m fid) as [w|] eqn:Ew.
    - destruct Hw as [Ha [Hb' [Hc' _]]]. repeat split; try assumption. intros u k Hin. apply (G8 fid w u k Ew Hin).
    - subst acc. repeat split; try reflexivity. intros u k Hin. unfold nl in Hin. simpl in Hin. destruct Hin. }
  destruct H0 as [Hs0 [Hrun0 [Hz0 Hn0]]].
  rewrite run_items_app, Hrun0 in Hrun. simpl in Hrun. fold v in Hrun.
  destruct (core_do (w_core w0) v (pw vals v) (i_prices it)) as [[c1 k1] f1] eqn:Ecd.
  destruct k1 as [kl|]; [|discriminate]. destruct f1; [discriminate|]. inversion Hrun; subst c'.
  assert (Hok : add_ok (p_maxnonce p) (n - 1) (nl w0 v)).
  { split.
    - specialize (Hb v). rewrite cnt_app in Hb. simpl in Hb. fold v in Hb. rewrite Z.eqb_refl in Hb. rewrite Hz0. lia.
    - apply zmem_false_notin. intro Hin. specialize (Hn0 v _ Hin). lia. }
  destruct Hc as [[Hsl _]|[_ [w1 [kept [fin [Hwd Hres]]]]]]; [congruence|].
  rewrite (worker_do_ok_intro (p_maxnonce p) w0 v (n - 1) (pw vals v) (i_prices it) _ _ _ Hok Ecd) in Hwd.
  inversion Hwd; subst w1 kept fin. destruct Hres as [_ [Hrd1 Hwk1]].
  unfold Topen. rewrite Hrd1, Hwk1. split; [reflexivity|]. split.
  { pose proof (core_do_sealed (w_core w0) v (pw vals v) (i_prices it)) as Hsl. rewrite Ecd in Hsl. simpl in Hsl.
    unfold w_sealed in *. simpl. rewrite Hsl. exact Hs0. }
  split; [rewrite run_items_app, Hrun0; simpl; fold v; rewrite Ecd; reflexivity|].
  split; [|intro Hx; destruct acc; discriminate].
  intro u. rewrite cnt_app. simpl. fold v. destruct (Z.eq_dec u v) as [->|N].
  - rewrite nl_aset_eq, zlen_app, Hz0, Z.eqb_refl. lia.
  - rewrite nl_aset_neq by exact N. rewrite Hz0. destruct (v =? u) eqn:E; [apply Z.eqb_eq in E; congruence | lia].
Qed.

Lemma cnt_prefix_le u l1 l2 : cnt u l1 <= cnt u (l1 ++ l2).
Proof. rewrite cnt_app. pose proof (cnt_nonneg u l2). lia. Qed.

Lemma ifold p vals y fid B nx : params_ok p -> forall its m n acc,
  RT p y (m_rounds m) -> GR vals m n ->
  (forall it, In it its -> exists f', get_feeder (p_feeders p) (i_feeder it) = Some f' /\ f_start f' <= y) ->
  RT p y (m_rounds (fst (fold_left (istep p) its (m, n)))) /\
  GR vals (fst (fold_left (istep p) its (m, n))) (snd (fold_left (istep p) its (m, n))) /\
  (Topen vals fid B nx m acc ->
   (exists c, run_items vals (core0 vals) (acc ++ filter (isf fid) its) = Some c) ->
   (forall u, cnt u (acc ++ filter (isf fid) its) <= p_maxnonce p) ->
   Topen vals fid B nx (fst (fold_left (istep p) its (m, n))) (acc ++ filter (isf fid) its)) /\
  (wk m fid = None -> filter (isf fid) its = [] -> wk (fst (fold_left (istep p) its (m, n))) fid = None) /\
  (filter (isf fid) its = [] -> rd (fst (fold_left (istep p) its (m, n))) fid = rd m fid).
Proof.
  intros Hok. pose proof Hok as [_ [Hmn _]].
  induction its as [|it r IH]; intros m n acc HRT HG Hits.
  - simpl. rewrite !app_nil_r. split; [exact HRT|]. split; [exact HG|]. split; [intros HT _ _; exact HT|]. split; [intros Hn _; exact Hn | reflexivity].
  - simpl fold_left.
    assert (Hrd : rd m (i_feeder it) <> None).
    { destruct (Hits it (or_introl eq_refl)) as [f' [Hf' Hst]]. destruct (get_feeder_some _ _ _ Hf') as [Hin Hid].
      destruct HRT as [_ [_ Hc]]. unfold rd. rewrite <- Hid. apply Hc; assumption. }
    destruct (istep_inv p vals y m n it HRT HG Hrd) as [HRT1 HG1].
    destruct (istep p (m, n) it) as [m1 n1] eqn:Ei. simpl in HRT1, HG1.
    specialize (IH m1 n1).
    assert (Hits' : forall it0, In it0 r -> exists f', get_feeder (p_feeders p) (i_feeder it0) = Some f' /\ f_start f' <= y)
      by (intros it0 Hin; apply Hits; right; exact Hin).
    simpl filter. destruct (isf fid it) eqn:Ef; unfold isf in Ef.
    + apply Z.eqb_eq in Ef.
      destruct (IH (acc ++ [it]) HRT1 HG1 Hits') as [I1 [I2 [I3 [I4 I5]]]].
      split; [exact I1|]. split; [exact I2|]. split; [|split; [intros _ Hnil; discriminate | intro Hnil; discriminate]].
      * intros HT [c Hrun] Hb. replace (acc ++ it :: filter (isf fid) r) with ((acc ++ [it]) ++ filter (isf fid) r) in * by (rewrite <- app_assoc; reflexivity).
        destruct (run_items_prefix _ _ _ _ _ Hrun) as [c1 Hc1].
        apply I3; [|eauto|exact Hb].
        replace m1 with (fst (istep p (m, n) it)) by (rewrite Ei; reflexivity).
        eapply istep_own; try eassumption; [lia|]. intro u. specialize (Hb u). pose proof (cnt_prefix_le u (acc ++ [it]) (filter (isf fid) r)). lia.
    + apply Z.eqb_neq in Ef.
      destruct (IH acc HRT1 HG1 Hits') as [I1 [I2 [I3 [I4 I5]]]].
      destruct (istep_other p vals fid B nx m n it acc Ef) as [O1 [O2 O3]]. rewrite Ei in O1, O2, O3. simpl in O1, O2, O3.
      split; [exact I1|]. split; [exact I2|]. split; [|split].
      * intros HT Hrun Hb. apply I3; [apply O1; exact HT | exact Hrun | exact Hb].
      * intros Hn Hnil. apply I4; [apply O2; exact Hn | exact Hnil].
      * intro Hnil. rewrite (I5 Hnil). exact O3.
Qed.

(* ---- one replayed block ------------------------------------------------------------------------------------ *)
Lemma prepare_GR p vals b m n : params_ok p -> GR vals m n -> GR vals (fst (prepare p b m)) n /\
  (forall g w, wk (fst (prepare p b m)) g = Some w -> wk m g = Some w).
Proof.
  intros [ND _] HG. unfold prepare. destruct (b <? 1); [split; [exact HG | auto]|].
  destruct (prepare_rounds (p_maxnonce p) b (p_feeders p) (m_rounds m) (m_workers m)) as [[rs' ws'] nw] eqn:E. simpl.
  destruct (prepare_rounds_ws _ _ _ _ _ _ _ _ ND E) as [S _]. pose proof (prepare_rounds_sub _ _ _ _ _ _ _ _ E) as Hsub.
  destruct HG as [G1 [G2 [G3 [G4 [G5 [G6 [G7 G8]]]]]]].
  assert (Hs : forall g w, wk (set_workers (set_rounds m rs') ws') g = Some w -> wk m g = Some w).
  { intros g w Hw. unfold wk in *. destruct m; simpl in *. apply Hsub. exact Hw. }
  split; [|exact Hs].
  unfold GR. destruct m; simpl in *. split; [apply S; exact G1|]. do 6 (split; [assumption|]).
  intros g w u k Hw Hin. eapply G8; [apply (Hs g w Hw) | exact Hin].
Qed.

Lemma seal_GR p vals h force m n : GR vals m n -> GR vals (fst (fst (seal p h force m))) n /\
  (forall g w, wk (fst (fst (seal p h force m))) g = Some w -> wk m g = Some w).
Proof.
  intros HG. unfold seal.
  destruct (seal_rounds p h force (m_rounds m) (m_workers m)) as [[[rs' ws'] fl] sl] eqn:E. simpl.
  pose proof (seal_rounds_spec _ _ _ _ _ _ _ _ _ E) as Hsub.
  destruct HG as [G1 [G2 [G3 [G4 [G5 [G6 [G7 G8]]]]]]].
  pose proof (seal_rounds_ws_sorted _ _ _ _ _ _ _ _ _ E G1) as S.
  assert (Hs : forall g w, wk (set_workers (set_rounds m rs') ws') g = Some w -> wk m g = Some w).
  { intros g w Hw. unfold wk in *. destruct m; simpl in *. apply Hsub. exact Hw. }
  split; [|exact Hs].
  unfold GR. destruct m; simpl in *. split; [exact S|]. do 6 (split; [assumption|]).
  intros g w u k Hw Hin. eapply G8; [apply (Hs g w Hw) | exact Hin].
Qed.

Lemma based_range f b y : 1 <= f_interval f -> f_start f <= b -> basedb f b <= y <= b ->
  basedb f y = basedb f b /\ nextb f y = nextb f b /\ leftb f y = y - basedb f b /\ f_start f <= y.
Proof.
  unfold basedb, nextb, leftb. intros HI Hs Hy.
  set (d := b - f_start f) in *. set (I := f_interval f) in *.
  pose proof (Z.div_mod d I ltac:(lia)) as E. pose proof (Z.mod_pos_bound d I ltac:(lia)) as Bd.
  assert (Hd : 0 <= d) by (unfold d; lia).
  assert (Hq : 0 <= d / I) by (apply Z.div_pos; lia).
  set (l := y - (b - d mod I)).
  assert (Hl : 0 <= l <= d mod I) by (unfold l; lia).
  assert (Ey : y - f_start f = I * (d / I) + l) by (unfold l, d in *; lia).
  assert (U : (y - f_start f) / I = d / I /\ (y - f_start f) mod I = l).
  { pose proof (Z.div_mod (y - f_start f) I ltac:(lia)) as E3. pose proof (Z.mod_pos_bound (y - f_start f) I ltac:(lia)) as B3.
    apply (Z.div_mod_unique I); [left; lia | left; lia | lia]. }
  destruct U as [U1 U2]. rewrite U1, U2. unfold l. repeat split; try lia.
Qed.

Lemma prepare_RT_mem p b m : params_ok p -> RTmid p b (m_rounds m) -> RT p b (m_rounds (fst (prepare p b m))).
Proof.
  intros Hok Hmid. destruct (Z_lt_dec b 1) as [L|L].
  - unfold prepare. destruct (b <? 1) eqn:E; [|apply Z.ltb_ge in E; lia]. simpl. apply RTmid_to_RT_early; assumption.
  - pose proof Hok as [ND _]. pose proof (prepare_mem_at p b m ND ltac:(lia)) as [_ [_ [_ [_ [_ [B6 [B7 _]]]]]]].
    destruct Hmid as [S Hm]. apply (prepare_RT p b (m_rounds m)); [exact Hok | split; assumption | exact B7 | apply B6; exact S].
Qed.

Lemma seal_RT_mem p x force m : params_ok p -> RT p (x - 1) (m_rounds m) -> RTmid p x (m_rounds (fst (fst (seal p x force m)))).
Proof.
  intros [_ [_ [NE _]]] [S [Hs _]]. pose proof (seal_mem_at p x force m NE S) as [_ [_ [_ [_ [_ [A6 _]]]]]].
  rewrite A6. apply seal_RT; assumption.
Qed.

Definition BS (p : params) (vals : list (Z * Z)) (x : Z) (a : mem * Z) : Prop := RTmid p x (m_rounds (fst a)) /\ GR vals (fst a) (snd a).

Definition items_started (p : params) (msgs : list (Z * list item)) : Prop :=
  forall x it, In it (lookupB msgs x) -> exists f', get_feeder (p_feeders p) (i_feeder it) = Some f' /\ f_start f' <= x - 1.

Definition isforced (forced : option Z) (x : Z) : bool := match forced with Some v => x =? v | None => false end.
Definition bitems (msgs : list (Z * list item)) (forced : option Z) (x : Z) : list item :=
  if isforced forced x then [] else lookupB msgs x.

Lemma replay_block_unfold p msgs forced m n x :
  replay_block p msgs forced (m, n) x =
  (fst (fst (seal p x (isforced forced x) (fst (fold_left (istep p) (bitems msgs forced x) (fst (prepare p (x - 1) m), n))))),
   snd (fold_left (istep p) (bitems msgs forced x) (fst (prepare p (x - 1) m), n))).
Proof.
  unfold replay_block, bitems, isforced. unfold lookupB. destruct (prepare p (x - 1) m) as [m1 nw]. simpl.
  change (fun (a : mem * Z) (it : item) => (fst (fill_price p (fst a) (i_feeder it) (i_val it) (snd a - 1) (i_prices it)), snd a - 1)) with (istep p).
  set (fb := match forced with Some v => x =? v | None => false end).
  destruct (fold_left (istep p) (if fb then [] else match aget x msgs with Some l => l | None => [] end) (m1, n)) as [m2 n2]. simpl.
  destruct (seal p x fb m2) as [[m3 fl] sl]. reflexivity.
Qed.

Lemma bitems_started p msgs forced x : items_started p msgs -> forall it, In it (bitems msgs forced x) ->
  exists f', get_feeder (p_feeders p) (i_feeder it) = Some f' /\ f_start f' <= x - 1.
Proof. intros H it Hin. unfold bitems in Hin. destruct (isforced forced x); [destruct Hin | apply (H x it Hin)]. Qed.

Lemma bitems_filter_nil msgs forced x fid : filter (isf fid) (lookupB msgs x) = [] -> filter (isf fid) (bitems msgs forced x) = [].
Proof. unfold bitems. destruct (isforced forced x); [reflexivity | auto]. Qed.

Lemma block_BS p vals msgs forced x a : params_ok p -> items_started p msgs -> BS p vals (x - 1) a -> BS p vals x (replay_block p msgs forced a x).
Proof.
  intros Hok Hits [HR HG]. destruct a as [m n]. simpl in HR, HG. rewrite replay_block_unfold.
  pose proof (prepare_RT_mem p (x - 1) m Hok HR) as HR1. destruct (prepare_GR p vals (x - 1) m n Hok HG) as [HG1 _].
  destruct (ifold p vals (x - 1) 0 0 0 Hok (bitems msgs forced x) (fst (prepare p (x - 1) m)) n [] HR1 HG1 (bitems_started p msgs forced x Hits)) as [HR2 [HG2 _]].
  destruct (fold_left (istep p) (bitems msgs forced x) (fst (prepare p (x - 1) m), n)) as [m2 n2]. simpl in HR2, HG2.
  split; simpl; [apply seal_RT_mem; assumption | apply seal_GR; assumption].
Qed.

(* ---- a feeder without items in the block keeps having no worker ---------------------------------------------- *)
Lemma block_none p vals msgs forced x a fid : params_ok p -> items_started p msgs -> BS p vals (x - 1) a ->
  wk (fst a) fid = None -> filter (isf fid) (bitems msgs forced x) = [] -> wk (fst (replay_block p msgs forced a x)) fid = None.
Proof.
  intros Hok Hits [HR HG] Hn Hnil. destruct a as [m n]. rewrite replay_block_unfold. simpl in *.
  pose proof (prepare_RT_mem p (x - 1) m Hok HR) as HR1. destruct (prepare_GR p vals (x - 1) m n Hok HG) as [HG1 Hsub1].
  assert (Hn1 : wk (fst (prepare p (x - 1) m)) fid = None).
  { destruct (wk (fst (prepare p (x - 1) m)) fid) as [w|] eqn:E; [|reflexivity]. rewrite (Hsub1 _ _ E) in Hn. discriminate. }
  destruct (ifold p vals (x - 1) fid 0 0 Hok (bitems msgs forced x) (fst (prepare p (x - 1) m)) n [] HR1 HG1 (bitems_started p msgs forced x Hits)) as [_ [HG2 [_ [I4 _]]]].
  specialize (I4 Hn1 Hnil).
  destruct (fold_left (istep p) (bitems msgs forced x) (fst (prepare p (x - 1) m), n)) as [m2 n2]. simpl in *.
  destruct (seal_GR p vals x (isforced forced x) m2 n2 HG2) as [_ Hsub3].
  destruct (wk (fst (fst (seal p x (isforced forced x) m2))) fid) as [w|] eqn:E; [|reflexivity]. rewrite (Hsub3 _ _ E) in I4. discriminate.
Qed.

(* ---- the tracked (in-window) feeder through one block ------------------------------------------------------------ *)
Lemma prepare_open p vals f fid B nx b y m acc :
  params_ok p -> get_feeder (p_feeders p) fid = Some f -> f_start f <= b -> basedb f b = B -> nextb f b = nx -> b - B < p_maxnonce p ->
  B <= y <= b -> 1 <= y ->
  ((y = B /\ wk m fid = None /\ acc = []) \/ (B < y /\ Topen vals fid B nx m acc)) ->
  Topen vals fid B nx (fst (prepare p y m)) acc.
Proof.
  intros Hok Hf Hst HB Hnx Hwin Hy Hy1 Hpre. pose proof Hok as [ND [Hmn [NE HI]]].
  destruct (get_feeder_some _ _ _ Hf) as [Hin Hid]. destruct (HI _ Hin) as [HI1 HS1].
  destruct (based_range f b y HI1 Hst ltac:(lia)) as [R1 [R2 [R3 R4]]]. rewrite HB in R1, R3. rewrite Hnx in R2.
  pose proof (prepare_mem_at p y m ND Hy1) as [_ [_ [_ [_ [_ [_ [B7 B8]]]]]]].
  unfold Topen. rewrite B7, B8, Hf, (inactive_ok p f y Hok Hin).
  destruct (y <? f_start f) eqn:Ea; [apply Z.ltb_lt in Ea; lia|].
  destruct Hpre as [[Ey [Hn Hacc]]|[Hlt [Hr Hw]]].
  - subst y acc. assert (E0 : leftb f B = 0) by lia. unfold prep_one. rewrite R1, R2, E0.
    destruct (rd m fid) as [r|]; simpl.
    + split; [reflexivity | reflexivity].
    + rewrite Hn. destruct (p_maxnonce p <=? 0) eqn:E; [apply Z.leb_le in E; lia|]. split; reflexivity.
  - rewrite Hr. unfold prep_one. simpl.
    destruct (leftb f y =? 0) eqn:E0; [apply Z.eqb_eq in E0; lia|].
    destruct (p_maxnonce p <=? leftb f y) eqn:E1; [apply Z.leb_le in E1; lia|]. simpl. split; [reflexivity | exact Hw].
Qed.

Lemma seal_open p vals f fid B nx x m acc :
  params_ok p -> get_feeder (p_feeders p) fid = Some f -> ksorted (m_rounds m) -> x - B < p_maxnonce p ->
  Topen vals fid B nx m acc -> Topen vals fid B nx (fst (fst (seal p x false m))) acc.
Proof.
  intros [_ [_ [NE _]]] Hf S Hx [Hr Hw]. pose proof (seal_mem_at p x false m NE S) as [_ [_ [_ [_ [_ [_ [A7 A8]]]]]]].
  unfold Topen. rewrite A7, A8, Hr, Hf. simpl. unfold seal_one, closing. rewrite Hf. simpl.
  destruct (p_maxnonce p <=? x - B) eqn:E; [apply Z.leb_le in E; lia|]. simpl. split; [reflexivity|].
  destruct (wk m fid) as [w|]; [|exact Hw]. destruct Hw as [Hs Hrest]. rewrite Hs. split; [exact Hs | exact Hrest].
Qed.

Lemma block_open p vals msgs forced f fid B nx b x a :
  isforced forced x = false ->
  params_ok p -> items_started p msgs -> ksorted msgs ->
  get_feeder (p_feeders p) fid = Some f -> f_start f <= b -> basedb f b = B -> nextb f b = nx -> b - B < p_maxnonce p ->
  B < x <= b -> 1 <= x - 1 ->
  BS p vals (x - 1) a ->
  (exists c, run_items vals (core0 vals) (accF fid B x msgs) = Some c) -> (forall u, cnt u (accF fid B x msgs) <= p_maxnonce p) ->
  ((x - 1 = B /\ wk (fst a) fid = None) \/ (B < x - 1 /\ Topen vals fid B nx (fst a) (accF fid B (x - 1) msgs))) ->
  Topen vals fid B nx (fst (replay_block p msgs forced a x)) (accF fid B x msgs).
Proof.
  intros Hnf Hok Hits Sm Hf Hst HB Hnx Hwin Hx Hx1 [HR HG] Hrun Hbnd Hpre. destruct a as [m n]. rewrite replay_block_unfold.
  unfold bitems. rewrite Hnf. simpl in *.
  pose proof (prepare_RT_mem p (x - 1) m Hok HR) as HR1. destruct (prepare_GR p vals (x - 1) m n Hok HG) as [HG1 _].
  assert (HT1 : Topen vals fid B nx (fst (prepare p (x - 1) m)) (accF fid B (x - 1) msgs)).
  { apply (prepare_open p vals f fid B nx b (x - 1) m); try assumption; try lia.
    destruct Hpre as [[E Hn]|[L HT]]; [left; repeat split; try assumption; rewrite E; apply accF_base | right; split; assumption]. }
  destruct (ifold p vals (x - 1) fid B nx Hok (lookupB msgs x) (fst (prepare p (x - 1) m)) n (accF fid B (x - 1) msgs) HR1 HG1 (Hits x))
    as [HR2 [HG2 [I3 _]]].
  rewrite <- (accF_step fid B x msgs Sm ltac:(lia)) in I3. specialize (I3 HT1 Hrun Hbnd).
  destruct (fold_left (istep p) (lookupB msgs x) (fst (prepare p (x - 1) m), n)) as [m2 n2]. simpl in *.
  apply (seal_open p vals f fid B nx x m2); try assumption; [destruct HR2 as [S _]; exact S | lia].
Qed.

(* ---- the whole replay ------------------------------------------------------------------------------------------ *)
Lemma replay_all_BS p vals msgs forced : params_ok p -> items_started p msgs -> forall n from a,
  BS p vals (from - 1) a -> BS p vals (from + Z.of_nat n - 1) (fold_left (replay_block p msgs forced) (zrange from n) a).
Proof.
  intros Hok Hits. induction n as [|n IH]; intros from a HB.
  - simpl. replace (from + 0 - 1) with (from - 1) by lia. exact HB.
  - simpl zrange. simpl fold_left. replace (from + Z.of_nat (S n) - 1) with ((from + 1) + Z.of_nat n - 1) by lia.
    apply IH. replace (from + 1 - 1) with from by lia. apply block_BS; assumption.
Qed.

Lemma replay_all_none p vals msgs forced fid : params_ok p -> items_started p msgs -> forall n from a,
  BS p vals (from - 1) a -> wk (fst a) fid = None ->
  (forall x, from <= x < from + Z.of_nat n -> filter (isf fid) (bitems msgs forced x) = []) ->
  wk (fst (fold_left (replay_block p msgs forced) (zrange from n) a)) fid = None.
Proof.
  intros Hok Hits. induction n as [|n IH]; intros from a HB Hn Hni.
  - simpl. exact Hn.
  - simpl zrange. simpl fold_left. apply IH.
    + replace (from + 1 - 1) with from by lia. apply block_BS; assumption.
    + apply (block_none p vals msgs forced from a fid); try assumption. apply Hni. lia.
    + intros x Hx. apply Hni. lia.
Qed.

Definition TR (vals : list (Z * Z)) (msgs : list (Z * list item)) (fid B nx x : Z) (a : mem * Z) : Prop :=
  (x <= B -> wk (fst a) fid = None) /\ (B < x -> Topen vals fid B nx (fst a) (accF fid B x msgs)).

Lemma replay_all_track p vals msgs forced f fid B nx b L :
  params_ok p -> items_started p msgs -> ksorted msgs ->
  get_feeder (p_feeders p) fid = Some f -> f_start f <= b -> basedb f b = B -> nextb f b = nx -> b - B < p_maxnonce p -> 1 <= B ->
  match forced with Some v => v <= B | None => True end ->
  (forall x, L <= x <= B -> filter (isf fid) (bitems msgs forced x) = []) ->
  (forall x, exists c, run_items vals (core0 vals) (accF fid B x msgs) = Some c) ->
  (forall x u, cnt u (accF fid B x msgs) <= p_maxnonce p) ->
  forall n from a, L <= from -> from + Z.of_nat n - 1 <= b ->
  BS p vals (from - 1) a -> TR vals msgs fid B nx (from - 1) a ->
  TR vals msgs fid B nx (from + Z.of_nat n - 1) (fold_left (replay_block p msgs forced) (zrange from n) a).
Proof.
  intros Hok Hits Sm Hf Hst HB Hnx Hwin HB1 Hfv Hni Hrun Hbnd.
  induction n as [|n IH]; intros from a HL Hend HBS HT.
  - simpl. replace (from + 0 - 1) with (from - 1) by lia. exact HT.
  - simpl zrange. simpl fold_left. replace (from + Z.of_nat (S n) - 1) with ((from + 1) + Z.of_nat n - 1) by lia.
    apply IH; [lia | lia | replace (from + 1 - 1) with from by lia; apply block_BS; assumption|].
    replace (from + 1 - 1) with from by lia. destruct HT as [T1 T2]. split.
    + intro Hle. apply (block_none p vals msgs forced from a fid); try assumption; [apply T1; lia | apply Hni; lia].
    + intro Hlt. apply (block_open p vals msgs forced f fid B nx b from a); try assumption; try lia; [|apply Hrun | apply Hbnd|].
      * unfold isforced. destruct forced as [v|]; [|reflexivity]. apply Z.eqb_neq. lia.
      * destruct (Z.eq_dec (from - 1) B) as [E|N]; [left; split; [exact E | apply T1; lia] | right; split; [lia | apply T2; lia]].
Qed.

Lemma based_prev f b y : 1 <= f_interval f -> f_start f <= y -> y < basedb f b -> f_start f <= b ->
  basedb f y <= basedb f b - f_interval f.
Proof.
  unfold basedb, leftb. intros HI Hy Hlt Hb.
  set (I := f_interval f) in *. set (s0 := f_start f) in *.
  pose proof (Z.div_mod (b - s0) I ltac:(lia)) as E1. pose proof (Z.mod_pos_bound (b - s0) I ltac:(lia)) as B1.
  pose proof (Z.div_mod (y - s0) I ltac:(lia)) as E2. pose proof (Z.mod_pos_bound (y - s0) I ltac:(lia)) as B2.
  assert ((y - s0) / I < (b - s0) / I) by nia. nia.
Qed.

(* ---- a round that was force-sealed by the validator update inside the window: rebuilt closed, without worker ---------- *)
Definition Tclosed (fid B nx : Z) (m : mem) : Prop := rd m fid = Some (mkRound B nx false) /\ wk m fid = None.

Lemma prepare_closed p f fid B nx b y m :
  params_ok p -> get_feeder (p_feeders p) fid = Some f -> f_start f <= b -> basedb f b = B -> nextb f b = nx ->
  B < y <= b -> 1 <= y -> Tclosed fid B nx m -> Tclosed fid B nx (fst (prepare p y m)).
Proof.
  intros Hok Hf Hst HB Hnx Hy Hy1 [Hr Hw]. pose proof Hok as [ND [Hmn [NE HI]]].
  destruct (get_feeder_some _ _ _ Hf) as [Hin Hid]. destruct (HI _ Hin) as [HI1 HS1].
  destruct (based_range f b y HI1 Hst ltac:(lia)) as [R1 [R2 [R3 R4]]]. rewrite HB in R1, R3.
  pose proof (prepare_mem_at p y m ND Hy1) as [_ [_ [_ [_ [_ [_ [B7 B8]]]]]]].
  unfold Tclosed. rewrite B7, B8, Hf, (inactive_ok p f y Hok Hin).
  destruct (y <? f_start f) eqn:Ea; [apply Z.ltb_lt in Ea; lia|]. rewrite Hr. unfold prep_one. simpl.
  destruct (leftb f y =? 0) eqn:E0; [apply Z.eqb_eq in E0; lia|]. split; [reflexivity | exact Hw].
Qed.

Lemma block_forced_closes p vals msgs forced f fid B nx b x a :
  isforced forced x = true -> params_ok p -> items_started p msgs ->
  get_feeder (p_feeders p) fid = Some f -> f_start f <= b -> basedb f b = B -> nextb f b = nx -> B <= x - 1 <= b -> 1 <= x - 1 ->
  BS p vals (x - 1) a -> rd (fst a) fid = None -> wk (fst a) fid = None ->
  Tclosed fid B nx (fst (replay_block p msgs forced a x)).
Proof.
  intros Hfo Hok Hits Hf Hst HB Hnx Hx Hx1 [HR HG] Hrn Hwn. destruct a as [m n]. rewrite replay_block_unfold.
  unfold bitems. rewrite Hfo. simpl in *. pose proof Hok as [ND [Hmn [NE HI]]].
  destruct (get_feeder_some _ _ _ Hf) as [Hin Hid]. destruct (HI _ Hin) as [HI1 HS1].
  destruct (based_range f b (x - 1) HI1 Hst ltac:(lia)) as [R1 [R2 [R3 R4]]]. rewrite HB in R1, R3. rewrite Hnx in R2.
  pose proof (prepare_RT_mem p (x - 1) m Hok HR) as [S1 _].
  pose proof (prepare_mem_at p (x - 1) m ND Hx1) as [_ [_ [_ [_ [_ [_ [B7 B8]]]]]]].
  set (m1 := fst (prepare p (x - 1) m)) in *.
  pose proof (seal_mem_at p x true m1 NE S1) as [_ [_ [_ [_ [_ [_ [A7 A8]]]]]]].
  unfold Tclosed. rewrite A7, A8, B7, B8, Hf, (inactive_ok p f (x - 1) Hok Hin).
  destruct (x - 1 <? f_start f) eqn:Ea; [apply Z.ltb_lt in Ea; lia|]. rewrite Hrn, Hwn. simpl.
  unfold seal_one, closing. rewrite Hf. simpl. rewrite R1, R2.
  destruct (negb (p_maxnonce p <=? leftb f (x - 1))); simpl; rewrite ?orb_true_r; split; reflexivity.
Qed.

Lemma block_closed_stays p vals msgs forced f fid B nx b x a :
  isforced forced x = false -> params_ok p -> items_started p msgs ->
  get_feeder (p_feeders p) fid = Some f -> f_start f <= b -> basedb f b = B -> nextb f b = nx -> B < x - 1 <= b -> 1 <= x - 1 ->
  BS p vals (x - 1) a -> filter (isf fid) (lookupB msgs x) = [] ->
  Tclosed fid B nx (fst a) -> Tclosed fid B nx (fst (replay_block p msgs forced a x)).
Proof.
  intros Hfo Hok Hits Hf Hst HB Hnx Hx Hx1 [HR HG] Hnil HT. destruct a as [m n]. rewrite replay_block_unfold.
  unfold bitems. rewrite Hfo. simpl in *. pose proof Hok as [ND [Hmn [NE HI]]].
  pose proof (prepare_closed p f fid B nx b (x - 1) m Hok Hf Hst HB Hnx ltac:(lia) Hx1 HT) as [Hr1 Hw1].
  pose proof (prepare_RT_mem p (x - 1) m Hok HR) as HR1. destruct (prepare_GR p vals (x - 1) m n Hok HG) as [HG1 _].
  destruct (ifold p vals (x - 1) fid 0 0 Hok (lookupB msgs x) (fst (prepare p (x - 1) m)) n [] HR1 HG1 (Hits x)) as [HR2 [_ [_ [I4 I5]]]].
  specialize (I4 Hw1 Hnil). specialize (I5 Hnil). rewrite Hr1 in I5.
  destruct (fold_left (istep p) (lookupB msgs x) (fst (prepare p (x - 1) m), n)) as [m2 n2]. simpl in *.
  destruct HR2 as [S2 _]. pose proof (seal_mem_at p x false m2 NE S2) as [_ [_ [_ [_ [_ [_ [A7 A8]]]]]]].
  unfold Tclosed. rewrite A7, A8, I5, I4, Hf. simpl. unfold seal_one, closing. rewrite Hf. simpl. split; reflexivity.
Qed.

Lemma replay_all_closed p vals msgs forced f fid B nx b :
  params_ok p -> items_started p msgs ->
  get_feeder (p_feeders p) fid = Some f -> f_start f <= b -> basedb f b = B -> nextb f b = nx -> 1 <= B ->
  forall L, (forall x, L <= x -> filter (isf fid) (lookupB msgs x) = []) ->
  forall n from a, L <= from -> B < from - 1 -> from + Z.of_nat n - 1 <= b ->
  (forall x, from <= x -> isforced forced x = false) ->
  BS p vals (from - 1) a -> Tclosed fid B nx (fst a) ->
  Tclosed fid B nx (fst (fold_left (replay_block p msgs forced) (zrange from n) a)).
Proof.
  intros Hok Hits Hf Hst HB Hnx HB1 L Hni.
  induction n as [|n IH]; intros from a HL Hfrom Hend Hnf HBS HT.
  - simpl. exact HT.
  - simpl zrange. simpl fold_left. apply IH; [lia | lia | lia | intros x Hx; apply Hnf; lia | replace (from + 1 - 1) with from by lia; apply block_BS; assumption|].
    apply (block_closed_stays p vals msgs forced f fid B nx b from a); try assumption; try lia; [apply Hnf; lia | apply Hni; lia].
Qed.

(* ---- a feeder that has left its window (the "band"): a suffix of its items is replayed ------------------------------ *)
Definition STA (fid B mn x : Z) (m : mem) : Prop :=
  wk m fid = None /\ forall r, rd m fid = Some r -> x - B < mn -> r_open r = true.
Definition STB (fid : Z) (m : mem) : Prop :=
  match wk m fid with None => True | Some w => w_sealed w = false /\ exists r, rd m fid = Some r /\ r_open r = true end.
Definition QS (fid : Z) (m : mem) : Prop :=
  exists r, rd m fid = Some r /\
    match wk m fid with None => r_open r = true | Some w => w_sealed w = true \/ (w_sealed w = false /\ r_open r = true) end.

Lemma istep_QS p fid m n it : QS fid m -> QS fid (fst (istep p (m, n) it)).
Proof.
  intros [r [Hr Hw]]. unfold istep. simpl. destruct (Z.eq_dec (i_feeder it) fid) as [E|N].
  - rewrite E. pose proof (fill_price_cases p m fid (i_val it) (n - 1) (i_prices it) r Hr) as Hc.
    set (w0 := match wk m fid with Some w => w | None => new_worker (m_vals m) end) in *.
    assert (H0 : w_sealed w0 = true \/ (w_sealed w0 = false /\ r_open r = true)).
    { unfold w0. destruct (wk m fid) as [w|]; [exact Hw | right; split; [reflexivity | exact Hw]]. }
    destruct Hc as [[Hs [_ [Hr1 Hw1]]]|[Hs [w1 [kept [fin [Hwd Hres]]]]]].
    + exists r. split; [exact Hr1|]. rewrite Hw1. left. exact Hs.
    + destruct H0 as [H0|[_ Ho]]; [congruence|].
      pose proof (worker_do_sealed (p_maxnonce p) w0 (i_val it) (n - 1) (pw (m_vals m) (i_val it)) (i_prices it)) as Hsl.
      rewrite Hwd in Hsl. simpl in Hsl.
      destruct kept as [kl|]; [destruct fin as [price|]|].
      * destruct Hres as [_ [Hr1 Hw1]]. eexists. split; [exact Hr1|]. rewrite Hw1. left. reflexivity.
      * destruct Hres as [_ [Hr1 Hw1]]. exists r. split; [exact Hr1|]. rewrite Hw1. right. split; [congruence | exact Ho].
      * destruct Hres as [_ [Hr1 Hw1]]. exists r. split; [exact Hr1|]. rewrite Hw1. right. split; [congruence | exact Ho].
  - pose proof (fill_price_frame p m (i_feeder it) (i_val it) (n - 1) (i_prices it)) as [_ [_ [_ [_ [F5 _]]]]].
    destruct (F5 fid ltac:(congruence)) as [Ea Eb]. exists r. rewrite Ea, Eb. split; assumption.
Qed.

Lemma ifold_QS p fid : forall its m n, QS fid m -> QS fid (fst (fold_left (istep p) its (m, n))).
Proof.
  induction its as [|it r IH]; intros m n HQ; [exact HQ|]. simpl fold_left.
  pose proof (istep_QS p fid m n it HQ) as H1. destruct (istep p (m, n) it) as [m1 n1]. apply IH. exact H1.
Qed.

Lemma ifold_frame p fid : forall its m n, filter (isf fid) its = [] ->
  rd (fst (fold_left (istep p) its (m, n))) fid = rd m fid /\ wk (fst (fold_left (istep p) its (m, n))) fid = wk m fid.
Proof.
  induction its as [|it r IH]; intros m n Hnil; [split; reflexivity|]. simpl fold_left. simpl in Hnil.
  destruct (isf fid it) eqn:Ef; [discriminate|]. unfold isf in Ef. apply Z.eqb_neq in Ef.
  destruct (istep_other p [] fid 0 0 m n it [] Ef) as [_ [_ O3]].
  assert (O4 : wk (fst (istep p (m, n) it)) fid = wk m fid).
  { unfold istep. simpl. pose proof (fill_price_frame p m (i_feeder it) (i_val it) (n - 1) (i_prices it)) as [_ [_ [_ [_ [F5 _]]]]].
    apply (F5 fid). congruence. }
  destruct (istep p (m, n) it) as [m1 n1]. simpl in O3, O4. destruct (IH m1 n1 Hnil) as [I1 I2]. rewrite I1, I2. split; assumption.
Qed.

Lemma block_band p vals msgs forced f fid B b x a :
  isforced forced x = false -> params_ok p -> items_started p msgs ->
  get_feeder (p_feeders p) fid = Some f -> f_start f <= b -> basedb f b = B -> B < x - 1 <= b -> 1 <= x - 1 ->
  BS p vals (x - 1) a ->
  let m' := fst (replay_block p msgs forced a x) in
  (filter (isf fid) (bitems msgs forced x) = [] -> STA fid B (p_maxnonce p) (x - 1) (fst a) -> STA fid B (p_maxnonce p) x m') /\
  (x - 1 - B < p_maxnonce p -> STA fid B (p_maxnonce p) (x - 1) (fst a) -> STB fid m') /\
  (filter (isf fid) (bitems msgs forced x) = [] -> STB fid (fst a) -> STB fid m').
Proof.
  intros Hfo Hok Hits Hf Hst HB Hx Hx1 [HR HG]. destruct a as [m n]. simpl in HR, HG. intro m'. unfold m'. rewrite replay_block_unfold. simpl fst.
  pose proof Hok as [ND [Hmn [NE HI]]]. destruct (get_feeder_some _ _ _ Hf) as [Hin Hid]. destruct (HI _ Hin) as [HI1 HS1].
  destruct (based_range f b (x - 1) HI1 Hst ltac:(lia)) as [R1 [R2 [R3 R4]]]. rewrite HB in R1, R3.
  pose proof (prepare_RT_mem p (x - 1) m Hok HR) as HR1. destruct (prepare_GR p vals (x - 1) m n Hok HG) as [HG1 _].
  pose proof (prepare_mem_at p (x - 1) m ND Hx1) as [_ [_ [_ [_ [_ [_ [B7 B8]]]]]]].
  specialize (B7 fid). specialize (B8 fid). rewrite Hf, (inactive_ok p f (x - 1) Hok Hin) in B7, B8.
  destruct (x - 1 <? f_start f) eqn:Ea; [apply Z.ltb_lt in Ea; lia|].
  assert (E0 : (leftb f (x - 1) =? 0) = false) by (apply Z.eqb_neq; lia). rewrite E0 in B8.
  assert (B8' : wk (fst (prepare p (x - 1) m)) fid = wk m fid) by (rewrite B8; destruct (rd m fid); reflexivity).
  set (m1 := fst (prepare p (x - 1) m)) in *.
  set (r1 := prep_one (p_maxnonce p) (x - 1) f (rd m fid)) in *.
  assert (Hb1 : r_based r1 = B).
  { destruct HR1 as [_ [Hsound _]]. destruct (Hsound fid r1 B7) as [f' [Hf' [_ [Hb _]]]]. rewrite Hf in Hf'. inversion Hf'; subst f'. rewrite Hb. exact R1. }
  assert (Ho1 : x - 1 - B < p_maxnonce p -> STA fid B (p_maxnonce p) (x - 1) m -> r_open r1 = true).
  { intros Hw [_ Hop]. unfold r1, prep_one. destruct (rd m fid) as [r|].
    - rewrite E0. specialize (Hop r eq_refl Hw). rewrite Hop. destruct (p_maxnonce p <=? leftb f (x - 1)) eqn:E; [apply Z.leb_le in E; lia|]. simpl. exact Hop.
    - simpl. destruct (p_maxnonce p <=? leftb f (x - 1)) eqn:E; [apply Z.leb_le in E; lia | reflexivity]. }
  assert (Ho2 : forall r, rd m fid = Some r -> r_open r = true -> r1 = r).
  { intros r Hr Hop. destruct HR as [_ Hmid]. destruct (Hmid fid r Hr) as [f' [Hf' [Hs' [Hb [_ Hol]]]]]. rewrite Hf in Hf'. inversion Hf'; subst f'.
    specialize (Hol Hop). destruct (based_range f b (x - 1 - 1) HI1 Hst ltac:(lia)) as [R1' _]. rewrite HB in R1'. rewrite R1' in Hb. rewrite Hb in Hol.
    unfold r1, prep_one. rewrite Hr, E0, Hop. destruct (p_maxnonce p <=? leftb f (x - 1)) eqn:E; [apply Z.leb_le in E; lia | reflexivity]. }
  destruct (ifold p vals (x - 1) fid 0 0 Hok (bitems msgs forced x) m1 n [] HR1 HG1 (bitems_started p msgs forced x Hits)) as [HR2 _].
  pose proof (ifold_frame p fid (bitems msgs forced x) m1 n) as Hfr.
  pose proof (ifold_QS p fid (bitems msgs forced x) m1 n) as HQ.
  destruct (fold_left (istep p) (bitems msgs forced x) (m1, n)) as [m2 n2]. simpl in HR2, Hfr, HQ.
  destruct HR2 as [S2 _]. pose proof (seal_mem_at p x (isforced forced x) m2 NE S2) as [_ [_ [_ [_ [_ [_ [A7 A8]]]]]]].
  specialize (A7 fid). specialize (A8 fid). rewrite Hfo in *. simpl.
  set (m3 := fst (fst (seal p x false m2))) in *.
  assert (Hcl : forall r, r_based r = B -> closing p x false r = false -> r_open r = true -> seal_one p x false fid r = r).
  { intros r Hb Hc Hop. unfold seal_one. rewrite Hf. unfold closing in Hc. rewrite Hc. reflexivity. }
  split; [|split].
  - intros Hnil HA. destruct (Hfr Hnil) as [F1 F2]. rewrite F1, B7 in A7, A8. rewrite F2, B8' in A8. rewrite Hf in A8.
    destruct HA as [Hwn Hop]. split.
    + rewrite A8, Hwn. destruct (closing p x false r1); reflexivity.
    + intros r Hr Hw. rewrite A7 in Hr. simpl in Hr. inversion Hr; subst r.
      assert (Hop1 : r_open r1 = true) by (apply Ho1; [lia | split; assumption]).
      rewrite Hcl; try assumption. unfold closing. rewrite Hb1, Hop1. simpl. rewrite orb_false_r. apply Z.leb_gt. lia.
  - intros Hw HA. assert (Hop1 : r_open r1 = true) by (apply Ho1; assumption).
    assert (HQ1 : QS fid m1) by (exists r1; split; [exact B7|]; rewrite B8'; destruct HA as [Hwn _]; rewrite Hwn; exact Hop1).
    destruct (HQ HQ1) as [r2 [Hr2 Hw2]]. rewrite Hr2 in A7, A8. rewrite Hf in A8. unfold STB. rewrite A8.
    destruct (closing p x false r2) eqn:Ec; [exact I|].
    destruct (wk m2 fid) as [w|]; [|exact I]. destruct (w_sealed w) eqn:Es; [exact I|].
    destruct Hw2 as [Hw2|[_ Hop2]]; [discriminate|]. split; [exact Es|]. exists r2. split; [|exact Hop2].
    rewrite A7. simpl. unfold seal_one. rewrite Hf. unfold closing in Ec. rewrite Ec. reflexivity.
  - intros Hnil HBm. destruct (Hfr Hnil) as [F1 F2]. rewrite F1, B7 in A7, A8. rewrite F2, B8' in A8. rewrite Hf in A8.
    unfold STB in *. rewrite A8. destruct (closing p x false r1) eqn:Ec; [exact I|].
    destruct (wk m fid) as [w|]; [|exact I]. destruct HBm as [Hs [r [Hr Hop]]]. rewrite Hs. split; [exact Hs|].
    pose proof (Ho2 r Hr Hop) as E1. exists r. split; [|exact Hop]. rewrite A7. simpl. rewrite E1.
    unfold seal_one. rewrite Hf. unfold closing in Ec. rewrite E1 in Ec. rewrite Ec. reflexivity.
Qed.

(* the whole replay for a band feeder whose replayed items all lie in one block x1 *)
Lemma replay_all_band p vals msgs forced f fid B b x1 :
  params_ok p -> items_started p msgs ->
  get_feeder (p_feeders p) fid = Some f -> f_start f <= b -> basedb f b = B ->
  (forall x, isforced forced x = false) ->
  (filter (isf fid) (bitems msgs forced x1) <> [] -> x1 - 1 - B < p_maxnonce p) ->
  forall n from a, B < from - 1 -> 1 <= from - 1 -> from + Z.of_nat n - 1 <= b ->
  (forall x, from <= x -> x <> x1 -> filter (isf fid) (bitems msgs forced x) = []) ->
  BS p vals (from - 1) a ->
  (if from <=? x1 then STA fid B (p_maxnonce p) (from - 1) (fst a) else STB fid (fst a)) ->
  let e := from + Z.of_nat n in
  (if e <=? x1 then STA fid B (p_maxnonce p) (e - 1) (fst (fold_left (replay_block p msgs forced) (zrange from n) a))
   else STB fid (fst (fold_left (replay_block p msgs forced) (zrange from n) a))).
Proof.
  intros Hok Hits Hf Hst HB Hnf Hx1.
  induction n as [|n IH]; intros from a HfromB Hfrom1 Hend Hni HBS HST.
  - simpl. replace (from + 0) with from by lia. exact HST.
  - simpl zrange. simpl fold_left. replace (from + Z.of_nat (S n)) with ((from + 1) + Z.of_nat n) by lia.
    assert (HBS' : BS p vals (from + 1 - 1) (replay_block p msgs forced a from)) by (replace (from + 1 - 1) with from by lia; apply block_BS; assumption).
    apply IH; try lia; try assumption; [intros x Hx Hne; apply Hni; [lia | exact Hne]|].
    destruct (block_band p vals msgs forced f fid B b from a (Hnf from) Hok Hits Hf Hst HB ltac:(lia) Hfrom1 HBS) as [K1 [K2 K3]].
    replace (from + 1 - 1) with from by lia.
    destruct (from <=? x1) eqn:E1; [apply Z.leb_le in E1 | apply Z.leb_gt in E1].
    + destruct (from + 1 <=? x1) eqn:E2; [apply Z.leb_le in E2 | apply Z.leb_gt in E2].
      * apply K1; [apply Hni; lia | exact HST].
      * assert (from = x1) by lia. subst x1.
        destruct (filter (isf fid) (bitems msgs forced from)) as [|it r] eqn:Efi.
        -- destruct (K1 eq_refl HST) as [Hwn _]. unfold STB. rewrite Hwn. exact I.
        -- apply K2; [apply Hx1; discriminate | exact HST].
    + destruct (from + 1 <=? x1) eqn:E2; [apply Z.leb_le in E2; lia|].
      apply K3; [apply Hni; lia | exact HST].
Qed.

(* ---- ... or a suffix whose reporters do not carry enough power to finalize before the last item block --------------- *)
Definition pwp (vals : list (Z * Z)) (v : Z) : Z := Z.max 0 (pw vals v).
Fixpoint psum (vals : list (Z * Z)) (its : list item) : Z :=
  match its with [] => 0 | it :: r => pwp vals (i_val it) + psum vals r end.
Definition Tot (vals : list (Z * Z)) : Z := c_total (core0 vals).

Lemma psum_nonneg vals its : 0 <= psum vals its.
Proof. induction its as [|it r IH]; simpl; [lia|]. unfold pwp. lia. Qed.

Lemma exceeds_mono a b T : a <= b -> exceeds a T = true -> exceeds b T = true.
Proof. unfold exceeds, thr_a, thr_b. intros L Ha. apply Z.ltb_lt in Ha. apply Z.ltb_lt. lia. Qed.
Lemma exceeds_anti a b T : a <= b -> exceeds b T = false -> exceeds a T = false.
Proof. intros L Hb. destruct (exceeds a T) eqn:E; [|reflexivity]. rewrite (exceeds_mono a b T L E) in Hb. discriminate. Qed.

Lemma core_do_power c v power ps :
  c_total (fst (fst (core_do c v power ps))) = c_total c /\
  c_rpower (fst (fst (core_do c v power ps))) <= c_rpower c + Z.max 0 power /\
  (snd (core_do c v power ps) <> None -> exceeds (c_rpower (fst (fst (core_do c v power ps)))) (c_total c) = true).
Proof.
  unfold core_do. destruct (add_psource _ ps) as [sn1 kept]. destruct kept as [|k0 kr]; [simpl; repeat split; [lia | congruence]|].
  match goal with |- context [agg_fill ?c1 v power] => set (c2 := agg_fill c1 v power) end.
  assert (H2 : c_total c2 = c_total c /\ c_rpower c2 <= c_rpower c + Z.max 0 power).
  { unfold c2, agg_fill. simpl. destruct (has_report _ _); simpl; split; try reflexivity; lia. }
  destruct H2 as [H2 H3].
  match goal with |- context [let '(cs, conf) := ?X in _] => destruct X as [cs conf] end.
  destruct conf as [[d pr]|]; simpl.
  - unfold confirm_ds; simpl. destruct (c_ds c2); simpl.
    + split; [exact H2|]. split; [exact H3|]. rewrite H2. destruct (exceeds (c_rpower c2) (c_total c)); [reflexivity | congruence].
    + split; [exact H2|]. split; [exact H3|]. rewrite H2. destruct (exceeds (c_rpower c2) (c_total c)); [reflexivity | congruence].
  - split; [exact H2|]. split; [exact H3|]. rewrite H2. destruct (exceeds (c_rpower c2) (c_total c)); [reflexivity | congruence].
Qed.

Lemma worker_do_power mn w v nonce power ps w1 kept fin :
  worker_do mn w v nonce power ps = (w1, kept, fin) ->
  c_total (w_core w1) = c_total (w_core w) /\ c_rpower (w_core w1) <= c_rpower (w_core w) + Z.max 0 power /\
  (fin <> None -> exceeds (c_rpower (w_core w1)) (c_total (w_core w)) = true).
Proof.
  unfold worker_do. destruct (set_add mn nonce _) as [ns1 ok]. destruct ok.
  - pose proof (core_do_power (w_core w) v power ps) as H.
    destruct (core_do (w_core w) v power ps) as [[c1 k] f]. simpl in H. intro E. inversion E; subst. simpl. exact H.
  - intro E. inversion E; subst. simpl. split; [reflexivity|]. split; [lia | congruence].
Qed.

Definition QP (vals : list (Z * Z)) (fid bound : Z) (m : mem) : Prop :=
  0 <= bound /\ exists r, rd m fid = Some r /\ r_open r = true /\
    match wk m fid with
    | None => True
    | Some w => w_sealed w = false /\ c_total (w_core w) = Tot vals /\ c_rpower (w_core w) <= bound
    end.

Lemma istep_QP p vals fid bound m n it : m_vals m = vals ->
  exceeds (bound + (if isf fid it then pwp vals (i_val it) else 0)) (Tot vals) = false ->
  QP vals fid bound m -> QP vals fid (bound + (if isf fid it then pwp vals (i_val it) else 0)) (fst (istep p (m, n) it)).
Proof.
  intros Hv Hex [Hb0 [r [Hr [Ho Hw]]]]. unfold istep. simpl. unfold isf in *. destruct (Z.eq_dec (i_feeder it) fid) as [E|N].
  - rewrite E in *. rewrite Z.eqb_refl in *. pose proof (fill_price_cases p m fid (i_val it) (n - 1) (i_prices it) r Hr) as Hc. rewrite Hv in Hc.
    set (w0 := match wk m fid with Some w => w | None => new_worker vals end) in *.
    assert (H0 : w_sealed w0 = false /\ c_total (w_core w0) = Tot vals /\ c_rpower (w_core w0) <= bound).
    { unfold w0. destruct (wk m fid) as [w|]; [exact Hw|]. repeat split; simpl; lia. }
    destruct H0 as [Hs0 [Ht0 Hp0]].
    assert (Hb1 : 0 <= bound + pwp vals (i_val it)) by (unfold pwp; lia).
    destruct Hc as [[Hs _]|[_ [w1 [kept [fin [Hwd Hres]]]]]]; [congruence|].
    pose proof (worker_do_sealed (p_maxnonce p) w0 (i_val it) (n - 1) (pw vals (i_val it)) (i_prices it)) as Hsl. rewrite Hwd in Hsl. simpl in Hsl.
    destruct (worker_do_power _ _ _ _ _ _ _ _ _ Hwd) as [P1 [P2 P3]]. fold (pwp vals (i_val it)) in P2.
    assert (Hnf : fin = None).
    { destruct fin as [pr|]; [|reflexivity]. exfalso. specialize (P3 ltac:(discriminate)). rewrite Ht0 in P3.
      assert (Hle : c_rpower (w_core w1) <= bound + pwp vals (i_val it)) by (unfold pwp in *; lia).
      rewrite (exceeds_mono _ _ _ Hle P3) in Hex. discriminate. }
    subst fin. split; [exact Hb1|]. exists r.
    destruct kept as [kl|]; destruct Hres as [_ [Hr1 Hw1]]; (split; [exact Hr1|]; split; [exact Ho|]; rewrite Hw1; split; [congruence|]; split; [congruence | lia]).
  - assert (Ef : (i_feeder it =? fid) = false) by (apply Z.eqb_neq; congruence). rewrite Ef in *. rewrite Z.add_0_r.
    pose proof (fill_price_frame p m (i_feeder it) (i_val it) (n - 1) (i_prices it)) as [_ [_ [_ [_ [F5 _]]]]].
    destruct (F5 fid ltac:(congruence)) as [Ea Eb]. split; [exact Hb0|]. exists r. rewrite Ea, Eb. repeat split; assumption.
Qed.

Lemma ifold_QP p vals fid : forall its m n bound, m_vals m = vals ->
  exceeds (bound + psum vals (filter (isf fid) its)) (Tot vals) = false ->
  QP vals fid bound m -> QP vals fid (bound + psum vals (filter (isf fid) its)) (fst (fold_left (istep p) its (m, n))).
Proof.
  induction its as [|it r IH]; intros m n bound Hv Hex HQ.
  - simpl. rewrite Z.add_0_r. exact HQ.
  - simpl fold_left. simpl filter in *.
    assert (Hsplit : bound + psum vals (if isf fid it then it :: filter (isf fid) r else filter (isf fid) r) =
                     (bound + (if isf fid it then pwp vals (i_val it) else 0)) + psum vals (filter (isf fid) r))
      by (destruct (isf fid it); simpl; lia).
    rewrite Hsplit in *.
    pose proof (psum_nonneg vals (filter (isf fid) r)) as Hnn.
    assert (Hex1 : exceeds (bound + (if isf fid it then pwp vals (i_val it) else 0)) (Tot vals) = false)
      by (apply (exceeds_anti _ (bound + (if isf fid it then pwp vals (i_val it) else 0) + psum vals (filter (isf fid) r))); [lia | exact Hex]).
    pose proof (istep_QP p vals fid bound m n it Hv Hex1 HQ) as H1.
    assert (Hv1 : m_vals (fst (istep p (m, n) it)) = vals).
    { unfold istep. simpl. pose proof (fill_price_frame p m (i_feeder it) (i_val it) (n - 1) (i_prices it)) as [F1 _]. congruence. }
    destruct (istep p (m, n) it) as [m1 n1]. simpl in H1, Hv1. apply IH; assumption.
Qed.

Definition STP (vals : list (Z * Z)) (fid B mn x bound : Z) (m : mem) : Prop :=
  (wk m fid = None /\ forall r, rd m fid = Some r -> x - B < mn -> r_open r = true) \/
  (exists w r, wk m fid = Some w /\ w_sealed w = false /\ c_total (w_core w) = Tot vals /\ c_rpower (w_core w) <= bound /\
               rd m fid = Some r /\ r_open r = true).

Lemma block_band2 p vals msgs forced f fid B b x a bd :
  isforced forced x = false -> params_ok p -> items_started p msgs ->
  get_feeder (p_feeders p) fid = Some f -> f_start f <= b -> basedb f b = B -> B < x - 1 <= b -> 1 <= x - 1 ->
  BS p vals (x - 1) a -> 0 <= bd ->
  let m' := fst (replay_block p msgs forced a x) in
  let ps := psum vals (filter (isf fid) (bitems msgs forced x)) in
  ((filter (isf fid) (bitems msgs forced x) <> [] -> x - 1 - B < p_maxnonce p) -> exceeds (bd + ps) (Tot vals) = false ->
   STP vals fid B (p_maxnonce p) (x - 1) bd (fst a) -> STP vals fid B (p_maxnonce p) x (bd + ps) m') /\
  (x - 1 - B < p_maxnonce p -> STP vals fid B (p_maxnonce p) (x - 1) bd (fst a) -> STB fid m').
Proof.
  intros Hfo Hok Hits Hf Hst HB Hx Hx1 [HR HG] Hbd0. destruct a as [m n]. simpl in HR, HG. intros m' ps. unfold m'. rewrite replay_block_unfold. simpl fst.
  pose proof Hok as [ND [Hmn [NE HI]]]. destruct (get_feeder_some _ _ _ Hf) as [Hin Hid]. destruct (HI _ Hin) as [HI1 HS1].
  destruct (based_range f b (x - 1) HI1 Hst ltac:(lia)) as [R1 [R2 [R3 R4]]]. rewrite HB in R1, R3.
  pose proof (prepare_RT_mem p (x - 1) m Hok HR) as HR1. destruct (prepare_GR p vals (x - 1) m n Hok HG) as [HG1 _].
  pose proof (prepare_mem_at p (x - 1) m ND Hx1) as [_ [_ [_ [_ [_ [_ [B7 B8]]]]]]].
  specialize (B7 fid). specialize (B8 fid). rewrite Hf, (inactive_ok p f (x - 1) Hok Hin) in B7, B8.
  destruct (x - 1 <? f_start f) eqn:Ea; [apply Z.ltb_lt in Ea; lia|].
  assert (E0 : (leftb f (x - 1) =? 0) = false) by (apply Z.eqb_neq; lia). rewrite E0 in B8.
  assert (B8' : wk (fst (prepare p (x - 1) m)) fid = wk m fid) by (rewrite B8; destruct (rd m fid); reflexivity).
  set (m1 := fst (prepare p (x - 1) m)) in *.
  set (r1 := prep_one (p_maxnonce p) (x - 1) f (rd m fid)) in *.
  assert (Hv1 : m_vals m1 = vals) by (destruct HG1 as [_ [G2 _]]; exact G2).
  assert (Ho1 : x - 1 - B < p_maxnonce p -> (forall r, rd m fid = Some r -> x - 1 - B < p_maxnonce p -> r_open r = true) -> r_open r1 = true).
  { intros Hw Hop. unfold r1, prep_one. destruct (rd m fid) as [r|].
    - rewrite E0. specialize (Hop r eq_refl Hw). rewrite Hop. destruct (p_maxnonce p <=? leftb f (x - 1)) eqn:E; [apply Z.leb_le in E; lia|]. simpl. exact Hop.
    - simpl. destruct (p_maxnonce p <=? leftb f (x - 1)) eqn:E; [apply Z.leb_le in E; lia | reflexivity]. }
  assert (Ho2 : forall r, rd m fid = Some r -> r_open r = true -> r1 = r).
  { intros r Hr Hop. destruct HR as [_ Hmid]. destruct (Hmid fid r Hr) as [f' [Hf' [Hs' [Hb [_ Hol]]]]]. rewrite Hf in Hf'. inversion Hf'; subst f'.
    specialize (Hol Hop). destruct (based_range f b (x - 1 - 1) HI1 Hst ltac:(lia)) as [R1' _]. rewrite HB in R1'. rewrite R1' in Hb. rewrite Hb in Hol.
    unfold r1, prep_one. rewrite Hr, E0, Hop. destruct (p_maxnonce p <=? leftb f (x - 1)) eqn:E; [apply Z.leb_le in E; lia | reflexivity]. }
  destruct (ifold p vals (x - 1) fid 0 0 Hok (bitems msgs forced x) m1 n [] HR1 HG1 (bitems_started p msgs forced x Hits)) as [HR2 _].
  pose proof (ifold_frame p fid (bitems msgs forced x) m1 n) as Hfr.
  pose proof (ifold_QS p fid (bitems msgs forced x) m1 n) as HQ.
  pose proof (ifold_QP p vals fid (bitems msgs forced x) m1 n bd Hv1) as HP. fold ps in HP.
  destruct (fold_left (istep p) (bitems msgs forced x) (m1, n)) as [m2 n2]. simpl in HR2, Hfr, HQ, HP.
  destruct HR2 as [S2 [Hsound2 _]].
  assert (Hb2 : forall r2, rd m2 fid = Some r2 -> r_based r2 = B).
  { intros r2 Hr2. destruct (Hsound2 fid r2 Hr2) as [f' [Hf' [_ [Hb _]]]]. rewrite Hf in Hf'. inversion Hf'; subst f'. rewrite Hb. exact R1. }
  pose proof (seal_mem_at p x (isforced forced x) m2 NE S2) as [_ [_ [_ [_ [_ [_ [A7 A8]]]]]]].
  specialize (A7 fid). specialize (A8 fid). rewrite Hfo in *. simpl.
  set (m3 := fst (fst (seal p x false m2))) in *.
  (* what the seal of block x does to feeder fid, given its round r2 and worker after the items *)
  assert (Hseal : forall r2 bd', rd m2 fid = Some r2 -> r_open r2 = true ->
            match wk m2 fid with None => True | Some w => w_sealed w = false /\ c_total (w_core w) = Tot vals /\ c_rpower (w_core w) <= bd' end ->
            STP vals fid B (p_maxnonce p) x bd' m3).
  { intros r2 bd' Hr2 Hop2 Hw2. rewrite Hr2 in A7, A8. rewrite Hf in A8. simpl in A7.
    pose proof (Hb2 r2 Hr2) as Hbb.
    destruct (closing p x false r2) eqn:Ec.
    - left. split; [exact A8|]. intros r Hr Hw. exfalso. unfold closing in Ec. rewrite Hop2, Hbb, orb_false_r in Ec. simpl in Ec. apply Z.leb_le in Ec. lia.
    - assert (Es : seal_one p x false fid r2 = r2) by (unfold seal_one; rewrite Hf; unfold closing in Ec; rewrite Ec; reflexivity).
      rewrite Es in A7. destruct (wk m2 fid) as [w|].
      + destruct Hw2 as [W1 [W2 W3]]. rewrite W1 in A8. right. exists w, r2. repeat split; assumption.
      + left. split; [exact A8|]. intros r Hr _. rewrite A7 in Hr. inversion Hr; subst r. exact Hop2. }
  split.
  - intros Hwin Hex HST.
    destruct (filter (isf fid) (bitems msgs forced x)) as [|i0 ir] eqn:Efi.
    + assert (Eps : ps = 0) by (unfold ps; try rewrite Efi; reflexivity). rewrite Eps, Z.add_0_r.
      destruct (Hfr eq_refl) as [F1 F2]. rewrite B7 in F1. rewrite B8' in F2.
      destruct HST as [[Hwn Hop]|[w [r [Hw [Hs [Ht [Hp [Hr Hopr]]]]]]]].
      * rewrite F1 in A7, A8. rewrite F2, Hwn, Hf in A8. simpl in A7. left. split.
        -- rewrite A8. destruct (closing p x false r1); reflexivity.
        -- intros r Hr Hw. rewrite A7 in Hr. inversion Hr; subst r.
           assert (Hop1 : r_open r1 = true) by (apply Ho1; [lia | intros r' Hr' _; apply Hop; [exact Hr' | lia]]).
           assert (Ec : closing p x false r1 = false).
           { unfold closing. rewrite (Hb2 r1 F1), Hop1. simpl. rewrite orb_false_r. apply Z.leb_gt. lia. }
           unfold seal_one. rewrite Hf. unfold closing in Ec. rewrite Ec. exact Hop1.
      * pose proof (Ho2 r Hr Hopr) as E1. apply (Hseal r bd); [rewrite F1, E1; reflexivity | exact Hopr|].
        rewrite F2, Hw. repeat split; assumption.
    + assert (Hw : x - 1 - B < p_maxnonce p) by (apply Hwin; discriminate).
      assert (HQP1 : QP vals fid bd m1).
      { split; [exact Hbd0|]. exists r1. split; [exact B7|]. rewrite B8'.
        destruct HST as [[Hwn Hop]|[w [r [Hww [Hs [Ht [Hp [Hr Hopr]]]]]]]].
        - split; [apply Ho1; [exact Hw | intros r' Hr' _; apply Hop; [exact Hr' | lia]]|]. rewrite Hwn. exact I.
        - rewrite (Ho2 r Hr Hopr). split; [exact Hopr|]. rewrite Hww. repeat split; assumption. }
      destruct (HP Hex HQP1) as [_ [r2 [Hr2 [Hop2 Hw2]]]]. apply (Hseal r2 (bd + ps) Hr2 Hop2 Hw2).
  - intros Hw HST.
    assert (HQ1 : QS fid m1).
    { exists r1. split; [exact B7|]. rewrite B8'.
      destruct HST as [[Hwn Hop]|[w [r [Hww [Hs [Ht [Hp [Hr Hopr]]]]]]]].
      - rewrite Hwn. apply Ho1; [exact Hw | intros r' Hr' _; apply Hop; [exact Hr' | lia]].
      - rewrite Hww. right. split; [exact Hs|]. rewrite (Ho2 r Hr Hopr). exact Hopr. }
    destruct (HQ HQ1) as [r2 [Hr2 Hw2]]. rewrite Hr2 in A7, A8. rewrite Hf in A8. unfold STB. rewrite A8.
    destruct (closing p x false r2) eqn:Ec; [exact I|].
    destruct (wk m2 fid) as [w|]; [|exact I]. destruct (w_sealed w) eqn:Es; [exact I|].
    destruct Hw2 as [Hw2|[_ Hop2]]; [discriminate|]. split; [exact Es|]. exists r2. split; [|exact Hop2].
    rewrite A7. simpl. unfold seal_one. rewrite Hf. unfold closing in Ec. rewrite Ec. reflexivity.
Qed.

Fixpoint wsum (vals : list (Z * Z)) (msgs : list (Z * list item)) (fid x1 from : Z) (n : nat) : Z :=
  match n with
  | O => 0
  | S k => (if from <? x1 then psum vals (filter (isf fid) (lookupB msgs from)) else 0) + wsum vals msgs fid x1 (from + 1) k
  end.

Lemma wsum_nonneg vals msgs fid x1 : forall n from, 0 <= wsum vals msgs fid x1 from n.
Proof.
  induction n as [|n IH]; intro from; simpl; [lia|]. specialize (IH (from + 1)).
  pose proof (psum_nonneg vals (filter (isf fid) (lookupB msgs from))). destruct (from <? x1); lia.
Qed.

Lemma STP_STB vals fid B mn x bd m : STP vals fid B mn x bd m -> STB fid m.
Proof.
  unfold STB. intros [[Hn _]|[w [r [Hw [Hs [_ [_ [Hr Ho]]]]]]]]; [rewrite Hn; exact I|]. rewrite Hw. split; [exact Hs|]. exists r. split; assumption.
Qed.

Lemma replay_all_band2 p vals msgs f fid B b x1 :
  params_ok p -> items_started p msgs ->
  get_feeder (p_feeders p) fid = Some f -> f_start f <= b -> basedb f b = B ->
  (forall x, filter (isf fid) (lookupB msgs x) <> [] -> B < x - 1 <= b -> x - 1 - B < p_maxnonce p) ->
  forall n from a bd, B < from - 1 -> 1 <= from - 1 -> from + Z.of_nat n - 1 <= b -> 0 <= bd ->
  (forall x, x1 < x -> from <= x -> filter (isf fid) (lookupB msgs x) = []) ->
  (from <= x1 -> exceeds (bd + wsum vals msgs fid x1 from n) (Tot vals) = false) ->
  BS p vals (from - 1) a ->
  (if from <=? x1 then STP vals fid B (p_maxnonce p) (from - 1) bd (fst a) else STB fid (fst a)) ->
  STB fid (fst (fold_left (replay_block p msgs None) (zrange from n) a)).
Proof.
  intros Hok Hits Hf Hst HB Hwin.
  induction n as [|n IH]; intros from a bd HfromB Hfrom1 Hend Hbd Hni Hex HBS HST.
  - simpl. destruct (from <=? x1); [eapply STP_STB; exact HST | exact HST].
  - simpl zrange. simpl fold_left. simpl wsum in Hex.
    assert (HBS' : BS p vals (from + 1 - 1) (replay_block p msgs None a from)) by (replace (from + 1 - 1) with from by lia; apply block_BS; assumption).
    destruct (block_band p vals msgs None f fid B b from a eq_refl Hok Hits Hf Hst HB ltac:(lia) Hfrom1 HBS) as [_ [_ K3]].
    destruct (block_band2 p vals msgs None f fid B b from a bd eq_refl Hok Hits Hf Hst HB ltac:(lia) Hfrom1 HBS Hbd) as [K1 K2].
    change (bitems msgs None from) with (lookupB msgs from) in K1, K2, K3.
    pose proof (wsum_nonneg vals msgs fid x1 n (from + 1)) as Hwn.
    pose proof (psum_nonneg vals (filter (isf fid) (lookupB msgs from))) as Hpn.
    assert (Hw1 : filter (isf fid) (lookupB msgs from) <> [] -> from - 1 - B < p_maxnonce p) by (intro Hne; apply Hwin; [exact Hne | lia]).
    destruct (from <=? x1) eqn:E1; [apply Z.leb_le in E1 | apply Z.leb_gt in E1].
    + destruct (from <? x1) eqn:E2; [apply Z.ltb_lt in E2 | apply Z.ltb_ge in E2].
      * apply (IH (from + 1) _ (bd + psum vals (filter (isf fid) (lookupB msgs from)))); try lia; try assumption.
        -- intros x Hx Hx'. apply Hni; lia.
        -- intros _. rewrite <- Z.add_assoc. apply Hex. lia.
        -- replace (from + 1 - 1) with from by lia.
           destruct (from + 1 <=? x1) eqn:E3; [|apply Z.leb_gt in E3; lia].
           apply K1; [exact Hw1 | (eapply exceeds_anti; [|apply Hex; lia]; lia) | exact HST].
      * assert (from = x1) by lia. subst x1.
        apply (IH (from + 1) _ 0); try lia; try assumption.
        -- intros x Hx Hx'. apply Hni; lia.
        -- destruct (from + 1 <=? from) eqn:E3; [apply Z.leb_le in E3; lia|].
           destruct (filter (isf fid) (lookupB msgs from)) as [|i0 ir] eqn:Efi.
           ++ eapply STP_STB. apply K1; [intro Hne; congruence | (eapply exceeds_anti; [|apply Hex; lia]; simpl; lia) | exact HST].
           ++ apply K2; [apply Hw1; discriminate | exact HST].
    + apply (IH (from + 1) _ 0); try lia; try assumption.
      * intros x Hx Hx'. apply Hni; lia.
      * destruct (from + 1 <=? x1) eqn:E3; [apply Z.leb_le in E3; lia|].
        apply K3; [apply Hni; lia | exact HST].
Qed.

(* ---- (c) what recache builds, feeder by feeder ----------------------------------------------------------------- *)
Definition params_ok2 (p : params) : Prop := params_ok p /\ forall f, In f (p_feeders p) -> 2 * p_maxnonce p <= f_interval f.
Definition vub_old (p : params) (s : store) (H : Z) : Prop :=
  match s_vub s with Some v => v < H - p_maxnonce p + 1 | None => True end.

Lemma store_items_started p H s : store_ok p H s -> items_started p (s_msgs s).
Proof.
  intros [_ [Hm _]] x it Hin. unfold lookupB in Hin. destruct (aget x (s_msgs s)) as [l|] eqn:E; [|destruct Hin].
  apply aget_In in E. destruct (Hm _ _ E) as [_ Hok]. destruct (Hok it Hin) as [f' [A [B _]]]. exists f'. split; assumption.
Qed.

Definition vubrel (s : store) (f : feeder) (x : Z) : Prop :=
  match s_vub s with Some v => v <= basedb f (x - 1) \/ x <= v | None => True end.
(* no item was accepted for a round after a validator update force-sealed it *)
Definition IVs (p : params) (s : store) : Prop :=
  forall x its it f, In (x, its) (s_msgs s) -> In it its -> get_feeder (p_feeders p) (i_feeder it) = Some f -> vubrel s f x.

Lemma recache_window p s H :
  params_ok2 p -> store_ok p H s -> IVs p s ->
  let vals := s_vals s in let mr := recache p s H in let msgs := s_msgs s in
  (RT p (H - 1) (m_rounds mr) /\ ksorted (m_workers mr) /\ m_vals mr = vals /\ m_cvals mr = vals /\ m_msgs mr = [] /\
   m_vupd mr = false /\ m_panic mr = false /\ (forall g w u k, wk mr g = Some w -> In k (nl w u) -> k < 0)) /\
  (forall fid, (forall x, H - p_maxnonce p + 1 <= x -> filter (isf fid) (lookupB msgs x) = []) -> wk mr fid = None) /\
  (forall f fid, get_feeder (p_feeders p) fid = Some f -> f_start f <= H - 1 -> leftb f (H - 1) < p_maxnonce p ->
     vub_le s (basedb f (H - 1)) ->
     (exists c, run_items vals (core0 vals) (itemsF fid (basedb f (H - 1)) msgs) = Some c) ->
     (forall u, cnt u (itemsF fid (basedb f (H - 1)) msgs) <= p_maxnonce p) ->
     Topen vals fid (basedb f (H - 1)) (nextb f (H - 1)) mr (itemsF fid (basedb f (H - 1)) msgs)) /\
  (forall f fid v, get_feeder (p_feeders p) fid = Some f -> f_start f <= H - 1 -> leftb f (H - 1) < p_maxnonce p ->
     s_vub s = Some v -> basedb f (H - 1) < v ->
     Tclosed fid (basedb f (H - 1)) (nextb f (H - 1)) mr) /\
  (forall f fid, get_feeder (p_feeders p) fid = Some f -> f_start f <= H - 1 -> p_maxnonce p <= leftb f (H - 1) ->
     ((exists v, s_vub s = Some v /\ H - p_maxnonce p + 1 <= v) \/
      (exists x1, forall x, H - p_maxnonce p + 1 <= x -> x <> x1 -> filter (isf fid) (lookupB msgs x) = []) \/
      (exists x1, (forall x, x1 < x -> H - p_maxnonce p + 1 <= x -> filter (isf fid) (lookupB msgs x) = []) /\
                  exceeds (wsum vals msgs fid x1 (H - p_maxnonce p + 1) (Z.to_nat (p_maxnonce p - 1))) (Tot vals) = false)) ->
     wk mr fid = None).
Proof.
  intros [Hok Hint] HS HIV vals mr msgs. pose proof Hok as [ND [Hmn [NE HI]]].
  pose proof (store_items_started p H s HS) as Hits. destruct HS as [Sm [Hm Hvlt]]. fold msgs in Sm, Hm, Hits.
  set (mn := p_maxnonce p) in *. set (from0 := H - mn + 1).
  set (from := match s_vub s with Some v => if from0 <=? v then v else from0 | None => from0 end).
  set (forced := match s_vub s with Some v => if from0 <=? v then Some v else None | None => None end).
  assert (Hfrom : from0 <= from < H).
  { unfold from. destruct (s_vub s) as [v|]; [|unfold from0; lia]. destruct (from0 <=? v) eqn:E; [apply Z.leb_le in E; lia | unfold from0; lia]. }
  assert (Hforced : forall v, forced = Some v -> s_vub s = Some v /\ from = v /\ from0 <= v).
  { unfold forced, from. intros v Hv. destruct (s_vub s) as [v'|]; [|discriminate]. destruct (from0 <=? v') eqn:E; [|discriminate].
    inversion Hv; subst. apply Z.leb_le in E. repeat split; try reflexivity. exact E. }
  assert (Hunforced : forced = None -> match s_vub s with Some v => v < from0 | None => True end).
  { unfold forced. destruct (s_vub s) as [v|]; [|auto]. destruct (from0 <=? v) eqn:E; [discriminate|]. apply Z.leb_gt in E. auto. }
  assert (Emr : mr = fst (prepare p (H - 1) (fst (fold_left (replay_block p msgs forced) (zrange from (Z.to_nat (H - from))) (empty_mem vals, 0))))).
  { unfold mr, recache. fold mn. fold from0.
    assert (Ef : (match s_vub s with Some v => if from0 <=? v then (v, Some v) else (from0, None) | None => (from0, None) end) = (from, forced)).
    { unfold from, forced. destruct (s_vub s) as [v|]; [|reflexivity]. destruct (from0 <=? v); reflexivity. }
    rewrite Ef. destruct (H <=? from) eqn:E; [apply Z.leb_le in E; lia | reflexivity]. }
  set (n := Z.to_nat (H - from)) in *.
  assert (En : from + Z.of_nat n - 1 = H - 1) by (unfold n; lia).
  set (a0 := (empty_mem vals, 0)) in *.
  assert (HB0 : BS p vals (from - 1) a0).
  { split; simpl.
    - split; [apply ksorted_nil|]. intros fid r Hr. simpl in Hr. discriminate.
    - unfold GR. simpl. split; [apply ksorted_nil|]. do 5 (split; [reflexivity|]). split; [lia|].
      intros g w u k Hw. unfold wk in Hw. simpl in Hw. discriminate. }
  pose proof (replay_all_BS p vals msgs forced Hok Hits n from a0 HB0) as HBe. rewrite En in HBe.
  set (ae := fold_left (replay_block p msgs forced) (zrange from n) a0) in *.
  destruct HBe as [HRe HGe].
  destruct (prepare_GR p vals (H - 1) (fst ae) (snd ae) Hok HGe) as [HGr Hsubr]. rewrite <- Emr in HGr, Hsubr.
  assert (Hkeys : forall e, In e msgs -> fst e <= H - 1) by (intros [x l] He; destruct (Hm _ _ He); simpl; lia).
  (* items of feeder f in a block x of the window belong to the round that covers x-1 *)
  assert (Hitem : forall f fid x it, get_feeder (p_feeders p) fid = Some f -> In it (filter (isf fid) (lookupB msgs x)) ->
             exists l, In (x, l) msgs /\ In it l /\ i_feeder it = fid /\ f_start f <= x - 1 /\ leftb f (x - 1) < mn).
  { intros f fid x it Hf Hin'. apply filter_In in Hin'. destruct Hin' as [Hin' Hisf]. unfold isf in Hisf. apply Z.eqb_eq in Hisf.
    unfold lookupB in Hin'. destruct (aget x msgs) as [l|] eqn:El; [|destruct Hin']. apply aget_In in El.
    destruct (Hm _ _ El) as [_ Hmo]. destruct (Hmo it Hin') as [f' [Hf' [Hs' Hl']]]. rewrite Hisf, Hf in Hf'. inversion Hf'; subst f'.
    exists l. repeat split; assumption. }
  split; [|split; [|split; [|split]]].
  - pose proof (prepare_RT_mem p (H - 1) (fst ae) Hok HRe) as HRr. rewrite <- Emr in HRr.
    destruct HGr as [G1 [G2 [G3 [G4 [G5 [G6 [G7 G8]]]]]]]. repeat split; try assumption; try (apply HRr).
    intros g w u k Hw Hin. apply (G8 g w u k Hw Hin).
  - intros fid Hni. destruct (wk mr fid) as [w|] eqn:E; [|reflexivity]. apply Hsubr in E.
    assert (Hnone : wk (fst ae) fid = None).
    { apply (replay_all_none p vals msgs forced fid Hok Hits n from a0 HB0); [reflexivity|]. intros x Hx. apply bitems_filter_nil. apply Hni. fold mn from0. lia. }
    rewrite Hnone in E. discriminate.
  - intros f fid Hf Hst Hwin Hvle Hrun Hbnd.
    destruct (get_feeder_some _ _ _ Hf) as [Hin Hid]. destruct (HI _ Hin) as [HI1 HS1]. specialize (Hint _ Hin). fold mn in Hint.
    set (B := basedb f (H - 1)) in *. set (nx := nextb f (H - 1)) in *.
    assert (HBw : H - 1 - B < mn) by (unfold B, basedb; lia).
    assert (HBle : B <= H - 1) by (unfold B, basedb; pose proof (left_bounds f (H - 1) HI1); lia).
    destruct (based_range f (H - 1) B HI1 Hst ltac:(lia)) as [_ [_ [_ HstB]]].
    assert (Hni : forall x, from <= x <= B -> filter (isf fid) (bitems msgs forced x) = []).
    { intros x Hx. apply bitems_filter_nil. destruct (filter (isf fid) (lookupB msgs x)) as [|it r] eqn:E; [reflexivity|]. exfalso.
      destruct (Hitem f fid x it Hf ltac:(rewrite E; left; reflexivity)) as [l [_ [_ [_ [Hs' Hl']]]]].
      pose proof (based_prev f (H - 1) (x - 1) HI1 Hs' ltac:(fold B; lia) Hst) as Hp. fold B in Hp.
      unfold basedb in Hp. unfold from0 in Hfrom. lia. }
    assert (Hrunx : forall x, exists c, run_items vals (core0 vals) (accF fid B x msgs) = Some c).
    { intro x. destruct Hrun as [c Hc]. destruct (accF_prefix fid B x msgs Sm) as [rest Hr]. rewrite Hr in Hc. eapply run_items_prefix; exact Hc. }
    assert (Hbndx : forall x u, cnt u (accF fid B x msgs) <= mn).
    { intros x u. destruct (accF_prefix fid B x msgs Sm) as [rest Hr]. specialize (Hbnd u). rewrite Hr in Hbnd.
      pose proof (cnt_prefix_le u (accF fid B x msgs) rest). lia. }
    assert (Hfv : match forced with Some v => v <= B | None => True end).
    { destruct forced as [v|] eqn:Efo; [|exact I]. destruct (Hforced v eq_refl) as [Ev _]. unfold vub_le in Hvle. rewrite Ev in Hvle. exact Hvle. }
    assert (HfromB : from - 1 <= B).
    { destruct forced as [v|] eqn:Efo; [destruct (Hforced v eq_refl) as [_ [Ev _]]; lia|].
      assert (from = from0) by (unfold from, forced in *; destruct (s_vub s) as [v'|]; [destruct (from0 <=? v'); [discriminate | reflexivity] | reflexivity]).
      unfold from0 in *. lia. }
    assert (HT0 : TR vals msgs fid B nx (from - 1) a0) by (split; [intros _; reflexivity | intro L; lia]).
    pose proof (replay_all_track p vals msgs forced f fid B nx (H - 1) from Hok Hits Sm Hf Hst eq_refl eq_refl HBw ltac:(lia) Hfv Hni Hrunx Hbndx
                  n from a0 ltac:(lia) ltac:(lia) HB0 HT0) as HTe. rewrite En in HTe. fold ae in HTe.
    rewrite Emr. apply (prepare_open p vals f fid B nx (H - 1) (H - 1) (fst ae)); try assumption; try reflexivity; try lia.
    destruct HTe as [T1 T2]. destruct (Z.eq_dec B (H - 1)) as [E|N].
    + left. split; [symmetry; exact E|]. split; [apply T1; lia|]. apply itemsF_above. intros e He. specialize (Hkeys e He). lia.
    + right. split; [lia|]. rewrite <- (accF_full fid B (H - 1) msgs Hkeys). apply T2. lia.
  - intros f fid v Hf Hst Hwin Hv HBv.
    destruct (get_feeder_some _ _ _ Hf) as [Hin Hid]. destruct (HI _ Hin) as [HI1 HS1].
    set (B := basedb f (H - 1)) in *. set (nx := nextb f (H - 1)) in *.
    assert (HBw : H - 1 - B < mn) by (unfold B, basedb; lia).
    destruct (based_range f (H - 1) B HI1 Hst ltac:(unfold B, basedb; pose proof (left_bounds f (H - 1) HI1); lia)) as [_ [_ [_ HstB]]].
    rewrite Hv in Hvlt.
    assert (Efo : forced = Some v /\ from = v).
    { unfold forced, from. rewrite Hv. destruct (from0 <=? v) eqn:E; [split; reflexivity|]. apply Z.leb_gt in E. unfold from0 in E. lia. }
    destruct Efo as [Efo Efr].
    assert (Hn1 : (1 <= n)%nat) by (unfold n; lia).
    destruct n as [|n']; [lia|]. unfold ae. simpl zrange. simpl fold_left.
    assert (Hfx : isforced forced from = true) by (rewrite Efo, Efr; simpl; apply Z.eqb_refl).
    assert (HT1 : Tclosed fid B nx (fst (replay_block p msgs forced a0 from))).
    { apply (block_forced_closes p vals msgs forced f fid B nx (H - 1) from a0); try assumption; try reflexivity; try lia. }
    assert (HB1 : BS p vals from (replay_block p msgs forced a0 from)) by (apply block_BS; assumption).
    assert (Hlater : forall x, from + 1 <= x -> filter (isf fid) (lookupB msgs x) = []).
    { intros x Hx. destruct (filter (isf fid) (lookupB msgs x)) as [|it r] eqn:E; [reflexivity|]. exfalso.
      destruct (Hitem f fid x it Hf ltac:(rewrite E; left; reflexivity)) as [l [Hl [Hil [Hfe [Hs' Hl']]]]].
      pose proof (HIV x l it f Hl Hil ltac:(rewrite Hfe; exact Hf)) as Hrel. unfold vubrel in Hrel. rewrite Hv in Hrel.
      specialize (Hkeys _ Hl). simpl in Hkeys.
      destruct (based_range f (H - 1) (x - 1) HI1 Hst ltac:(fold B; lia)) as [Rb _]. fold B in Rb. lia. }
    assert (HTe : Tclosed fid B nx (fst (fold_left (replay_block p msgs forced) (zrange (from + 1) n') (replay_block p msgs forced a0 from)))).
    { apply (replay_all_closed p vals msgs forced f fid B nx (H - 1) Hok Hits Hf Hst eq_refl eq_refl ltac:(lia) (from + 1) Hlater n' (from + 1));
        try assumption; try lia.
      - intros x Hx. rewrite Efo. simpl. apply Z.eqb_neq. lia.
      - replace (from + 1 - 1) with from by lia. exact HB1. }
    rewrite Emr. unfold ae. simpl zrange. simpl fold_left.
    apply (prepare_closed p f fid B nx (H - 1) (H - 1)); try assumption; try reflexivity; lia.
  - intros f fid Hf Hst Hidle Hcond. fold mn from0 in Hcond. fold mn in Hidle.
    destruct (get_feeder_some _ _ _ Hf) as [Hin Hid]. destruct (HI _ Hin) as [HI1 HS1]. specialize (Hint _ Hin). fold mn in Hint.
    set (B := basedb f (H - 1)) in *.
    assert (HBi : mn <= H - 1 - B) by (unfold B, basedb; lia).
    destruct (based_range f (H - 1) B HI1 Hst ltac:(lia)) as [_ [_ [_ HstB]]].
    assert (Hwinx : forall x it, from0 <= x -> In it (filter (isf fid) (lookupB msgs x)) ->
              x - 1 - B < mn /\ x <= H - 1 /\ basedb f (x - 1) = B).
    { intros x it Hx Hin'. destruct (Hitem f fid x it Hf Hin') as [l [Hl [_ [_ [Hs' Hl']]]]]. specialize (Hkeys _ Hl). simpl in Hkeys.
      assert (HBx : B <= x - 1).
      { destruct (Z_le_dec B (x - 1)) as [L|L]; [exact L|]. exfalso.
        pose proof (based_prev f (H - 1) (x - 1) HI1 Hs' ltac:(fold B; lia) Hst) as Hp. fold B in Hp. unfold basedb in Hp. unfold from0 in Hx. lia. }
      destruct (based_range f (H - 1) (x - 1) HI1 Hst ltac:(fold B; lia)) as [Rb [_ [Rl _]]]. fold B in Rb, Rl. repeat split; lia. }
    destruct (wk mr fid) as [w|] eqn:E; [|reflexivity]. apply Hsubr in E.
    assert (Hnone : wk (fst ae) fid = None); [|rewrite Hnone in E; discriminate].
    destruct forced as [v|] eqn:Efo.
    + destruct (Hforced v eq_refl) as [Ev [Efr Hv0]].
      apply (replay_all_none p vals msgs (Some v) fid Hok Hits n from a0 HB0); [reflexivity|]. intros x Hx.
      unfold bitems. destruct (isforced (Some v) x) eqn:Ei; [reflexivity|]. simpl in Ei. apply Z.eqb_neq in Ei.
      destruct (filter (isf fid) (lookupB msgs x)) as [|it r] eqn:E'; [reflexivity|]. exfalso.
      assert (Hit : In it (filter (isf fid) (lookupB msgs x))) by (rewrite E'; left; reflexivity).
      destruct (Hwinx x it ltac:(lia) Hit) as [W1 [W2 W3]].
      destruct (Hitem f fid x it Hf Hit) as [l [Hl [Hil [Hfe _]]]].
      pose proof (HIV x l it f Hl Hil ltac:(rewrite Hfe; exact Hf)) as Hrel. unfold vubrel in Hrel. rewrite Ev, W3 in Hrel.
      unfold from0 in *. lia.
    + assert (Efr : from = from0) by (unfold from; destruct (s_vub s) as [v'|]; [specialize (Hunforced eq_refl); simpl in Hunforced; destruct (from0 <=? v') eqn:E'; [apply Z.leb_le in E'; lia | reflexivity] | reflexivity]).
      destruct Hcond as [[v [Hv Hv0]]|[[x1 Hx1]|[x1 [Hx1a Hx1b]]]].
      * exfalso. specialize (Hunforced eq_refl). rewrite Hv in Hunforced. unfold from0 in *. lia.
      * destruct (Z_lt_dec x1 from0) as [Lx|Lx].
        { apply (replay_all_none p vals msgs None fid Hok Hits n from a0 HB0); [reflexivity|]. intros x Hx.
          apply bitems_filter_nil. apply Hx1; [unfold from0 in *; lia | lia]. }
        assert (Hw : filter (isf fid) (bitems msgs None x1) <> [] -> x1 - 1 - B < mn).
        { unfold bitems. simpl. intro Hne. destruct (filter (isf fid) (lookupB msgs x1)) as [|it r] eqn:E'; [congruence|].
          destruct (Hwinx x1 it ltac:(lia) ltac:(rewrite E'; left; reflexivity)) as [W1 _]. exact W1. }
        pose proof (replay_all_band p vals msgs None f fid B (H - 1) x1 Hok Hits Hf Hst eq_refl (fun _ => eq_refl) Hw n from a0
                      ltac:(unfold from0 in *; lia) ltac:(unfold from0 in *; lia) ltac:(lia)) as Hband.
        assert (Hni : forall x, from <= x -> x <> x1 -> filter (isf fid) (bitems msgs None x) = []).
        { intros x Hx Hne. apply bitems_filter_nil. apply Hx1; [unfold from0 in *; lia | exact Hne]. }
        assert (HST0 : if from <=? x1 then STA fid B mn (from - 1) (fst a0) else STB fid (fst a0)).
        { destruct (from <=? x1); [split; [reflexivity | intros r Hr; discriminate] | exact I]. }
        specialize (Hband Hni HB0 HST0). simpl in Hband. fold ae in Hband.
        destruct (from + Z.of_nat n <=? x1); [destruct Hband as [Hn _]; exact Hn|].
        unfold STB in Hband. destruct (wk (fst ae) fid) as [w'|]; [|reflexivity]. exfalso.
        destruct Hband as [_ [r [Hr Hop]]]. destruct HRe as [_ Hmid]. destruct (Hmid fid r Hr) as [f' [Hf' [_ [Hb [_ Hol]]]]].
        rewrite Hf in Hf'. inversion Hf'; subst f'. specialize (Hol Hop).
        destruct (based_range f (H - 1) (H - 1 - 1) HI1 Hst ltac:(fold B; lia)) as [Rb _]. fold B in Rb. rewrite Rb in Hb. lia.
      * assert (Hwin2 : forall x, filter (isf fid) (lookupB msgs x) <> [] -> B < x - 1 <= H - 1 -> x - 1 - B < mn).
        { intros x Hne Hx. destruct (filter (isf fid) (lookupB msgs x)) as [|it r] eqn:E'; [congruence|].
          destruct (Hitem f fid x it Hf ltac:(rewrite E'; left; reflexivity)) as [l [_ [_ [_ [_ Hl']]]]].
          destruct (based_range f (H - 1) (x - 1) HI1 Hst ltac:(fold B; lia)) as [_ [_ [Rl _]]]. fold B in Rl. lia. }
        assert (Hni : forall x, x1 < x -> from <= x -> filter (isf fid) (lookupB msgs x) = []).
        { intros x Hx Hx'. apply Hx1a; [exact Hx | unfold from0 in *; lia]. }
        assert (Hex : from <= x1 -> exceeds (0 + wsum vals msgs fid x1 from n) (Tot vals) = false).
        { intros _. simpl. unfold n. rewrite Efr. replace (H - from0) with (mn - 1) by (unfold from0; lia). exact Hx1b. }
        assert (HST0 : if from <=? x1 then STP vals fid B mn (from - 1) 0 (fst a0) else STB fid (fst a0)).
        { destruct (from <=? x1); [left; split; [reflexivity | intros r Hr; discriminate] | exact I]. }
        pose proof (replay_all_band2 p vals msgs f fid B (H - 1) x1 Hok Hits Hf Hst eq_refl Hwin2 n from a0 0
                      ltac:(unfold from0 in *; lia) ltac:(unfold from0 in *; lia) ltac:(lia) ltac:(lia) Hni Hex HB0 HST0) as Hband.
        fold ae in Hband. unfold STB in Hband. destruct (wk (fst ae) fid) as [w'|]; [|reflexivity]. exfalso.
        destruct Hband as [_ [r [Hr Hop]]]. destruct HRe as [_ Hmid]. destruct (Hmid fid r Hr) as [f' [Hf' [_ [Hb [_ Hol]]]]].
        rewrite Hf in Hf'. inversion Hf'; subst f'. specialize (Hol Hop).
        destruct (based_range f (H - 1) (H - 1 - 1) HI1 Hst ltac:(fold B; lia)) as [Rb _]. fold B in Rb. rewrite Rb in Hb. lia.
Qed.

(* ---- the invariant IVs over histories --------------------------------------------------------------------------- *)
Definition IVst (p : params) (st : state) : Prop :=
  IVs p (st_store st) /\
  (forall it f, In it (m_msgs (st_mem st)) -> get_feeder (p_feeders p) (i_feeder it) = Some f -> vubrel (st_store st) f (st_h st)).

Lemma deliver_IV p st t : params_ok p -> LIVE p st -> IVst p st -> IVst p (fst (deliver p st t)).
Proof.
  intros Hok [HJ [HS [HM [HL [HO HC]]]]] [HI1 HI2]. unfold deliver.
  destruct (nonce_check _ _ _ _ _) as [ns'|]; [|split; assumption].
  assert (Hst : forall sX, s_msgs sX = s_msgs (st_store st) -> s_vub sX = s_vub (st_store st) ->
            forall mX, (forall it, In it (m_msgs mX) -> In it (m_msgs (st_mem st)) \/
                          exists r0, rd (st_mem st) (i_feeder it) = Some r0 /\ r_open r0 = true) ->
            IVst p (mkState (st_h st) sX mX)).
  { intros sX E1 E2 mX Hm. split.
    - unfold IVs, vubrel in *. simpl. rewrite E1, E2. exact HI1.
    - intros it f Hin Hf. simpl in *. unfold vubrel in *. rewrite E2. destruct (Hm it Hin) as [Hold|[r0 [Hr0 Ho0]]]; [apply (HI2 it f); assumption|].
      pose proof (HO _ _ Hr0 Ho0) as Hv. unfold vub_le in Hv. destruct (s_vub (st_store st)) as [v|]; [|exact I]. left.
      destruct HJ as [_ [[_ [Hsound _]] _]]. destruct (Hsound _ _ Hr0) as [f' [Hf' [_ [Hb _]]]]. rewrite Hf in Hf'. inversion Hf'; subst f'.
      rewrite <- Hb. exact Hv. }
  destruct (check_msg (st_mem st) (t_feeder t) (t_val t) (t_based t) (t_prices t)) eqn:Ek.
  2:{ simpl. apply Hst; try (destruct (st_store st); reflexivity). intros it Hin. left. exact Hin. }
  destruct (check_msg_open _ _ _ _ _ Ek) as [r0 [Hr0 Ho0]].
  pose proof (fill_price_frame p (st_mem st) (t_feeder t) (t_val t) (t_nonce t) (t_prices t)) as [_ [_ [_ [F4 _]]]].
  pose proof (fill_price_cases p (st_mem st) (t_feeder t) (t_val t) (t_nonce t) (t_prices t) r0 Hr0) as Hc.
  destruct (fill_price p (st_mem st) (t_feeder t) (t_val t) (t_nonce t) (t_prices t)) as [m1 res]. simpl in F4, Hc.
  destruct res as [|it0|price rid it0]; simpl.
  - apply Hst; try (destruct (st_store st); reflexivity). intros it Hin. left. rewrite F4 in Hin. exact Hin.
  - apply Hst; try (destruct (st_store st); reflexivity). intros it Hin. destruct m1; simpl in *. rewrite F4 in Hin.
    apply in_app_or in Hin. destruct Hin as [Hin|[<-|[]]]; [left; exact Hin|]. right.
    destruct Hc as [[_ [Hres _]]|[_ [w1 [kept [fin [_ Hres]]]]]]; [discriminate|].
    destruct kept as [kl|]; [destruct fin|]; destruct Hres as [Hres _]; inversion Hres; subst. simpl. eauto.
  - apply Hst; try (destruct (st_store st); reflexivity). intros it Hin. left. destruct m1; simpl in *. apply filter_In in Hin. rewrite <- F4. tauto.
Qed.

Lemma end_block_IV p st vu : params_ok p -> LIVE p st -> IVst p st -> IVst p (end_block p st vu).
Proof.
  intros Hok [HJ [HS [HM [HL [HO HC]]]]] [HI1 HI2]. destruct HS as [Sm [Hmsgs Hvub]].
  pose proof Hok as [ND [Hmn [NE HI]]]. destruct HJ as [Hh [[Srs _] _]].
  unfold end_block.
  set (m := st_mem st) in *. set (s := st_store st) in *. set (h := st_h st) in *.
  set (m1 := match vu with
             | Some vs => mkMem vs (m_rounds m) (m_workers m) (m_msgs m) vs
                            (m_vupd m || negb (list_eqb (fun a b => (fst a =? fst b) && (snd a =? snd b)) vs (m_cvals m))) (m_panic m)
             | None => m end).
  set (force := match vu with Some _ => true | None => false end).
  set (s0 := match vu with Some vs => mkStore (s_next s) (s_nonce s) (s_msgs s) (s_vub s) vs | None => s end).
  replace (match vu with
           | Some vs => (mkMem vs (m_rounds m) (m_workers m) (m_msgs m) vs
                          (m_vupd m || negb (list_eqb (fun a b => (fst a =? fst b) && (snd a =? snd b)) vs (m_cvals m))) (m_panic m),
                        true, mkStore (s_next s) (s_nonce s) (s_msgs s) (s_vub s) vs)
           | None => (m, false, s) end) with (m1, force, s0) by (unfold m1, force, s0; destruct vu; reflexivity).
  assert (E1 : m_rounds m1 = m_rounds m /\ m_msgs m1 = m_msgs m) by (unfold m1; destruct vu; split; reflexivity). destruct E1 as [E1r E1m].
  assert (E0 : s_msgs s0 = s_msgs s /\ s_vub s0 = s_vub s) by (unfold s0; destruct vu; split; reflexivity). destruct E0 as [E0m E0v].
  pose proof (seal_mem_at p h force m1 NE ltac:(rewrite E1r; exact Srs)) as [_ [_ [A3 _]]].
  destruct (seal p h force m1) as [[m2 failed] sealed]. simpl in A3.
  pose proof (prepare_mem_at p h (mkMem (m_vals m2) (m_rounds m2) (m_workers m2) [] (m_cvals m2) false (m_panic m2)) ND Hh) as [_ [_ [B3 _]]].
  destruct (prepare p h _) as [m4 nw]. simpl in B3. simpl.
  set (vub1 := if m_vupd m2 then Some h else s_vub s0).
  assert (Hrel : forall f x, x <= h -> vubrel s f x -> match vub1 with Some v => v <= basedb f (x - 1) \/ x <= v | None => True end).
  { intros f x Hx Hr. unfold vub1. destruct (m_vupd m2); [right; exact Hx|]. rewrite E0v. exact Hr. }
  split.
  - intros x its it f Hin Hit Hf. unfold vubrel. simpl in *. unfold commit_msgs in Hin. rewrite A3, E1m, E0m in Hin.
    destruct (m_msgs m) as [|i0 ir] eqn:Em.
    + destruct (Hmsgs _ _ Hin) as [Hx _]. apply Hrel; [lia|]. eapply HI1; eassumption.
    + apply in_app_or in Hin. destruct Hin as [Hin|[Hin|[]]].
      * apply filter_In in Hin. destruct Hin as [Hin _]. destruct (Hmsgs _ _ Hin) as [Hx _]. apply Hrel; [lia|]. eapply HI1; eassumption.
      * inversion Hin; subst. apply Hrel; [lia|]. apply (HI2 it f); [first [exact Hit | rewrite Em; exact Hit] | exact Hf].
  - intros it f Hin. simpl in Hin. rewrite B3 in Hin. destruct Hin.
Qed.

Lemma run_IV p : params_ok p -> forall ops st c, forallb plain ops = true -> LIVE p st -> VR st -> IVst p st ->
  IVst p (fst (fold_left (step p) ops (st, c))).
Proof.
  intros Hok. induction ops as [|o ops IH]; intros st c Hp HL HV HI; simpl; [exact HI|].
  simpl in Hp. apply andb_prop in Hp. destruct Hp as [Ho Hp].
  destruct o as [t|vu|]; simpl in *; [| |discriminate].
  - pose proof (deliver_LIVE p st t Hok HL) as HL'. pose proof (deliver_VR p st t HV) as HV'. pose proof (deliver_IV p st t Hok HL HI) as HI'.
    destruct (deliver p st t) as [st' cc]. simpl in *. apply IH; assumption.
  - apply IH; [assumption | apply end_block_LIVE; assumption | | apply end_block_IV; assumption].
    left. destruct HL as [HJ _]. destruct (end_block_J p st vu Hok HJ) as [_ [_ [Hu _]]]. exact Hu.
Qed.

Lemma init_IV p vals next0 : IVst p (init_state vals next0).
Proof. split; [intros x its it f []| intros it f []]. Qed.

(* ---- assembly: which block boundaries are restart-safe ------------------------------------------------------------ *)
Definition band_clear (p : params) (st : state) : Prop :=
  forall f, In f (p_feeders p) -> f_start f <= st_h st - 1 -> p_maxnonce p <= leftb f (st_h st - 1) ->
    forall x, st_h st - p_maxnonce p + 1 <= x -> filter (isf (f_id f)) (lookupB (s_msgs (st_store st)) x) = [].

(* weaker than [band_clear]: a feeder that has just left its window may have items inside the replay window as long as they all
   lie in ONE block, or the replay starts at a validator-set change (then none of them is replayed at all) *)
Definition band_single (p : params) (st : state) : Prop :=
  forall f, In f (p_feeders p) -> f_start f <= st_h st - 1 -> p_maxnonce p <= leftb f (st_h st - 1) ->
    (exists v, s_vub (st_store st) = Some v /\ st_h st - p_maxnonce p + 1 <= v) \/
    exists x1, forall x, st_h st - p_maxnonce p + 1 <= x -> x <> x1 -> filter (isf (f_id f)) (lookupB (s_msgs (st_store st)) x) = [].

Lemma band_clear_single p st : band_clear p st -> band_single p st.
Proof. intros Hb f Hin Hst Hl. right. exists 0. intros x Hx _. apply (Hb f Hin Hst Hl x Hx). Qed.

(* weaker still: ... or the feeder's items inside the replay window that lie BEFORE its last item block come from validators
   whose (non-negative parts of the) voting powers, summed per item, do not exceed the 2/3 threshold - then the replayed suffix
   cannot finalize before that last block, whatever the calculator does *)
Definition band_weak (p : params) (st : state) : Prop :=
  forall f, In f (p_feeders p) -> f_start f <= st_h st - 1 -> p_maxnonce p <= leftb f (st_h st - 1) ->
    (exists v, s_vub (st_store st) = Some v /\ st_h st - p_maxnonce p + 1 <= v) \/
    (exists x1, forall x, st_h st - p_maxnonce p + 1 <= x -> x <> x1 -> filter (isf (f_id f)) (lookupB (s_msgs (st_store st)) x) = []) \/
    (exists x1, (forall x, x1 < x -> st_h st - p_maxnonce p + 1 <= x -> filter (isf (f_id f)) (lookupB (s_msgs (st_store st)) x) = []) /\
                exceeds (wsum (s_vals (st_store st)) (s_msgs (st_store st)) (f_id f) x1 (st_h st - p_maxnonce p + 1) (Z.to_nat (p_maxnonce p - 1)))
                        (Tot (s_vals (st_store st))) = false).

Lemma band_single_weak p st : band_single p st -> band_weak p st.
Proof. intros Hb f Hin Hst Hl. destruct (Hb f Hin Hst Hl) as [A|A]; [left; exact A | right; left; exact A]. Qed.

(* every round that is still inside its submission window is open in the live memory (= none was finalized by a tx, none
   was force-sealed without the validator update being recorded) *)
(* every round that is still inside its submission window is open in the live memory, or was force-sealed by the last
   validator-set change (a closed round in its window that is younger than that change was finalized by a transaction) *)
Definition window_open (p : params) (st : state) : Prop :=
  forall f r, In f (p_feeders p) -> f_start f <= st_h st - 1 -> leftb f (st_h st - 1) < p_maxnonce p ->
    rd (st_mem st) (f_id f) = Some r -> r_open r = true \/ exists v, s_vub (st_store st) = Some v /\ r_based r < v.

Lemma RT_status_unique p b rs1 rs2 :
  RT p b rs1 -> RT p b rs2 ->
  (forall fid r1 r2, aget fid rs1 = Some r1 -> aget fid rs2 = Some r2 -> r_open r1 = r_open r2) -> rs1 = rs2.
Proof.
  intros [S1 [Hs1 Hc1]] [S2 [Hs2 Hc2]] Hst. apply ksorted_ext; try assumption.
  assert (Hhalf : forall ra rb, rt_sound p b ra -> rt_sound p b rb -> rt_complete p b rb ->
            (forall fid r1 r2, aget fid ra = Some r1 -> aget fid rb = Some r2 -> r_open r1 = r_open r2) ->
            forall k r, aget k ra = Some r -> aget k rb = Some r).
  { intros ra rb Hsa Hsb Hcb Ho k r Hr. destruct (Hsa _ _ Hr) as [f [Hf [Hstt [Hb [Hn _]]]]].
    destruct (get_feeder_some _ _ _ Hf) as [Hin Hid]. subst k.
    destruct (aget (f_id f) rb) as [r2|] eqn:E2; [|exfalso; eapply Hcb; eauto].
    destruct (Hsb _ _ E2) as [f' [Hf' [_ [Hb' [Hn' _]]]]]. rewrite Hf in Hf'. inversion Hf'; subst f'.
    pose proof (Ho _ _ _ Hr E2) as Hoo. destruct r, r2; simpl in *. congruence. }
  intro k. destruct (aget k rs1) as [r1|] eqn:E1.
  - symmetry. eapply Hhalf; [exact Hs1 | exact Hs2 | exact Hc2 | exact Hst | exact E1].
  - destruct (aget k rs2) as [r2|] eqn:E2; [|reflexivity].
    rewrite (Hhalf rs2 rs1 Hs2 Hs1 Hc1 (fun fid r1 r2 A B => eq_sym (Hst fid r2 r1 B A)) k r2 E2) in E1. discriminate.
Qed.

Lemma ksorted_erase_ws ws : ksorted ws -> ksorted (erase_ws ws).
Proof. unfold ksorted, keys, erase_ws. rewrite map_map. simpl. auto. Qed.

Lemma erase_ext a b : m_vals a = m_vals b -> m_rounds a = m_rounds b -> erase_ws (m_workers a) = erase_ws (m_workers b) ->
  m_msgs a = m_msgs b -> m_cvals a = m_cvals b -> m_vupd a = m_vupd b -> m_panic a = m_panic b -> erase a = erase b.
Proof. destruct a, b. unfold erase, set_workers. simpl. intros. congruence. Qed.

Theorem synced_iff_window_open_weak p st :
  params_ok2 p -> LIVE p st -> Jbound p st -> safe (st_store st) (st_mem st) -> IVst p st -> band_weak p st ->
  (synced p st <-> window_open p st).
Proof.
  intros Hok2 HL HJb Hsafe [HIV _] Hband. pose proof Hok2 as [Hok Hint]. pose proof Hok as [ND [Hmn [NE HI]]].
  destruct HL as [HJ [HS [HM [HLk [HO HC]]]]].
  destruct HJb as [_ [Hmsg0 [Hvupd0 Hbw]]].
  destruct HJ as [Hh [HRT [Hsw [Hwo [Hp [Hv Hc]]]]]].
  set (s := st_store st) in *. set (m := st_mem st) in *. set (H := st_h st) in *.
  destruct (recache_window p s H Hok2 HS HIV) as [[RRT [RS [RV [RC [RM [RU [RP RN]]]]]]] [Rnone [Rtrack [Rclosed Rband]]]].
  set (mr := recache p s H) in *.
  assert (Hwin : forall f, In f (p_feeders p) -> f_start f <= H - 1 -> leftb f (H - 1) < p_maxnonce p ->
            exists r, rd m (f_id f) = Some r /\ r_based r = basedb f (H - 1) /\ r_next r = nextb f (H - 1) /\
             ((vub_le s (basedb f (H - 1)) /\
              Topen (s_vals s) (f_id f) (basedb f (H - 1)) (nextb f (H - 1)) mr (itemsF (f_id f) (basedb f (H - 1)) (s_msgs s)) /\
              (r_open r = true ->
                 match wk m (f_id f) with
                 | None => itemsF (f_id f) (basedb f (H - 1)) (s_msgs s) = []
                 | Some w => w_sealed w = false /\ run_items (s_vals s) (core0 (s_vals s)) (itemsF (f_id f) (basedb f (H - 1)) (s_msgs s)) = Some (w_core w) /\
                             (forall v, cnt v (itemsF (f_id f) (basedb f (H - 1)) (s_msgs s)) <= zlen (nl w v)) /\
                             itemsF (f_id f) (basedb f (H - 1)) (s_msgs s) <> []
                 end)) \/
              (exists v, s_vub s = Some v /\ basedb f (H - 1) < v /\ Tclosed (f_id f) (basedb f (H - 1)) (nextb f (H - 1)) mr /\
                         r_open r = false /\ wk m (f_id f) = None))).
  { intros f Hin Hst Hl. destruct HRT as [_ [Hsound Hcompl]].
    destruct (rd m (f_id f)) as [r|] eqn:Er; [|exfalso; apply (Hcompl f Hin Hst); exact Er].
    destruct (Hsound _ _ Er) as [f' [Hf' [_ [Hb [Hn _]]]]]. rewrite (get_feeder_in _ ND f Hin) in Hf'. inversion Hf'; subst f'.
    exists r. split; [reflexivity|]. split; [exact Hb|]. split; [exact Hn|].
    assert (Hdec : vub_le s (basedb f (H - 1)) \/ exists v, s_vub s = Some v /\ basedb f (H - 1) < v).
    { unfold vub_le. destruct (s_vub s) as [v|]; [|left; exact I]. destruct (Z_le_dec v (basedb f (H - 1))); [left; assumption | right; exists v; split; [reflexivity | lia]]. }
    destruct Hdec as [Hvle|[v [Hv' Hlt]]].
    - left. split; [exact Hvle|].
      destruct (HLk _ _ Er ltac:(rewrite Hb; unfold basedb; lia) ltac:(rewrite Hb; exact Hvle)) as [c [Hrun [Hbnd Hcl]]].
      unfold ITf in Hrun, Hbnd, Hcl. rewrite Hmsg0 in Hrun, Hbnd, Hcl. simpl in Hrun, Hbnd, Hcl.
      rewrite app_nil_r in Hrun, Hbnd, Hcl. rewrite Hv, Hb in Hrun. rewrite Hb in Hbnd, Hcl.
      split.
      + apply (Rtrack f (f_id f) (get_feeder_in _ ND f Hin) Hst Hl Hvle); [eauto | exact Hbnd].
      + intro Hop. specialize (Hcl Hop). destruct (wk m (f_id f)) as [w|]; [|exact Hcl].
        destruct Hcl as [C1 [C2 [C3 C4]]]. split; [exact C1|]. split; [rewrite C2; exact Hrun|]. split; [exact C3 | exact C4].
    - right. exists v. split; [exact Hv'|]. split; [exact Hlt|]. split; [apply (Rclosed f (f_id f) v (get_feeder_in _ ND f Hin) Hst Hl Hv' Hlt)|].
      assert (Hcl : r_open r = false).
      { destruct (r_open r) eqn:Eo; [|reflexivity]. pose proof (HO _ _ Er Eo) as Hx. unfold vub_le in Hx. rewrite Hv' in Hx. lia. }
      split; [exact Hcl|]. destruct (wk m (f_id f)) as [w|] eqn:Ew; [|reflexivity]. destruct (Hbw _ _ Ew) as [r' [Hr' Ho']].
      unfold rd in Er. rewrite Er in Hr'. inversion Hr'; subst r'. congruence. }
  assert (Hout : forall fid, (forall f, get_feeder (p_feeders p) fid = Some f -> ~ (f_start f <= H - 1 /\ leftb f (H - 1) < p_maxnonce p)) ->
            wk m fid = None /\ wk mr fid = None).
  { intros fid Hno. split.
    - destruct (wk m fid) as [w|] eqn:Ew; [|reflexivity]. exfalso. destruct (Hbw _ _ Ew) as [r [Hr Hop]].
      destruct HRT as [_ [Hsound _]]. destruct (Hsound _ _ Hr) as [f [Hf [Hst [_ [_ Hol]]]]]. apply (Hno f Hf). split; [exact Hst | apply Hol; exact Hop].
    - destruct (get_feeder (p_feeders p) fid) as [fb|] eqn:Efb.
      { destruct (Z_le_dec (f_start fb) (H - 1)) as [Hsb|Hsb]; [destruct (Z_le_dec (p_maxnonce p) (leftb fb (H - 1))) as [Lb|Lb]|].
        - destruct (get_feeder_some _ _ _ Efb) as [Hinb Hidb].
          apply (Rband fb fid Efb Hsb Lb). pose proof (Hband fb Hinb Hsb Lb) as Hb. fold s H in Hb. rewrite Hidb in Hb. exact Hb.
        - exfalso. apply (Hno fb eq_refl). split; lia.
        - apply Rnone. intros x Hx. destruct (filter (isf fid) (lookupB (s_msgs s) x)) as [|it r] eqn:E; [reflexivity|]. exfalso.
          assert (Hin' : In it (filter (isf fid) (lookupB (s_msgs s) x))) by (rewrite E; left; reflexivity).
          apply filter_In in Hin'. destruct Hin' as [Hin' Hisf]. unfold isf in Hisf. apply Z.eqb_eq in Hisf.
          unfold lookupB in Hin'. destruct (aget x (s_msgs s)) as [l|] eqn:El; [|destruct Hin']. apply aget_In in El.
          destruct HS as [_ [Hm _]]. destruct (Hm _ _ El) as [Hxl Hmo]. destruct (Hmo it Hin') as [f [Hf [Hs' Hl']]]. rewrite Hisf in Hf.
          rewrite Efb in Hf. inversion Hf; subst f. lia. }
      apply Rnone. intros x Hx. destruct (filter (isf fid) (lookupB (s_msgs s) x)) as [|it r] eqn:E; [reflexivity|]. exfalso.
      assert (Hin' : In it (filter (isf fid) (lookupB (s_msgs s) x))) by (rewrite E; left; reflexivity).
      apply filter_In in Hin'. destruct Hin' as [Hin' Hisf]. unfold isf in Hisf. apply Z.eqb_eq in Hisf.
      unfold lookupB in Hin'. destruct (aget x (s_msgs s)) as [l|] eqn:El; [|destruct Hin']. apply aget_In in El.
      destruct HS as [_ [Hm _]]. destruct (Hm _ _ El) as [Hxl Hmo]. destruct (Hmo it Hin') as [f [Hf [Hs' Hl']]]. rewrite Hisf in Hf.
      rewrite Efb in Hf. discriminate. }
  split.
  - intros [_ [_ [He _]]] f r Hin Hst Hl Hr. simpl in He. fold s H mr in He.
    destruct (erase_eq_fields _ _ He) as [_ [Er _]]. fold m in Er.
    destruct (Hwin f Hin Hst Hl) as [r' [Hr' [Hb' [_ Hcase]]]]. fold m in Hr. rewrite Hr in Hr'. inversion Hr'; subst r'.
    destruct Hcase as [[_ [[HT _] _]]|[v [Hv' [Hlt _]]]].
    + left. unfold rd in Hr, HT. rewrite Er in Hr. rewrite Hr in HT. inversion HT. reflexivity.
    + right. exists v. fold s. split; [exact Hv' | rewrite Hb'; exact Hlt].
  - intro Hwo'. unfold synced, twin_rel, restart. simpl. fold s m H mr.
    split; [reflexivity|]. split; [reflexivity|].
    assert (Hopen : forall f r, In f (p_feeders p) -> f_start f <= H - 1 -> leftb f (H - 1) < p_maxnonce p -> rd m (f_id f) = Some r ->
              vub_le s (basedb f (H - 1)) -> r_based r = basedb f (H - 1) -> r_open r = true).
    { intros f r Hin Hst Hl Hr Hvle Hb. destruct (Hwo' f r Hin Hst Hl Hr) as [Ho|[v [Hv' Hlt]]]; [exact Ho|].
      fold s in Hv'. unfold vub_le in Hvle. rewrite Hv' in Hvle. lia. }
    assert (Erounds : m_rounds m = m_rounds mr).
    { apply (RT_status_unique p (H - 1)); [exact HRT | exact RRT|]. intros fid r1 r2 H1 H2.
      destruct HRT as [_ [Hsound _]]. destruct RRT as [_ [Rsound _]].
      destruct (Hsound _ _ H1) as [f [Hf [Hst [_ [_ Ho1]]]]]. destruct (Rsound _ _ H2) as [f' [Hf' [_ [_ [_ Ho2]]]]].
      rewrite Hf in Hf'. inversion Hf'; subst f'. destruct (get_feeder_some _ _ _ Hf) as [Hin Hid]. subst fid.
      destruct (Z_lt_dec (leftb f (H - 1)) (p_maxnonce p)) as [Lw|Lw].
      - destruct (Hwin f Hin Hst Lw) as [r [Hr [Hb' [_ Hcase]]]]. unfold rd in *. rewrite H1 in Hr. inversion Hr; subst r.
        destruct Hcase as [[Hvle [[HT _] _]]|[v [_ [_ [[HT _] [Hcl _]]]]]].
        + unfold rd in HT. rewrite H2 in HT. inversion HT; subst r2. simpl. apply (Hopen f r1 Hin Hst Lw H1 Hvle Hb').
        + unfold rd in HT. rewrite H2 in HT. inversion HT; subst r2. simpl. exact Hcl.
      - destruct (r_open r1) eqn:E1; [specialize (Ho1 eq_refl); lia|]. destruct (r_open r2) eqn:E2; [specialize (Ho2 eq_refl); lia | reflexivity]. }
    assert (Hwk : forall fid, option_map erase_w (wk m fid) = option_map erase_w (wk mr fid) /\
                   (forall w', wk mr fid = Some w' -> rd mr fid <> None /\ worker_safe (s_nonce s) fid w')).
    { intro fid. destruct (get_feeder (p_feeders p) fid) as [f|] eqn:Ef.
      2:{ destruct (Hout fid ltac:(intros f Hf; congruence)) as [A B']. rewrite A, B'. split; [reflexivity | intros w' Hw'; discriminate]. }
      destruct (get_feeder_some _ _ _ Ef) as [Hin Hid].
      destruct (Z_le_dec (f_start f) (H - 1)) as [Hst|Hst];
        [destruct (Z_lt_dec (leftb f (H - 1)) (p_maxnonce p)) as [Lw|Lw]|].
      - destruct (Hwin f Hin Hst Lw) as [r [Hr [Hb' [_ Hcase]]]]. rewrite Hid in *.
        destruct Hcase as [[Hvle [[HTr HTw] Hcl]]|[v [_ [_ [[_ HTw] [_ Hwn]]]]]].
        2:{ rewrite Hwn, HTw. split; [reflexivity | intros w' Hw'; discriminate]. }
        specialize (Hcl (Hopen f r Hin Hst Lw ltac:(rewrite Hid; exact Hr) Hvle Hb')).
        destruct (wk mr fid) as [w'|] eqn:Ew'.
        + destruct HTw as [T1 [T2 [T3 T4]]]. destruct (wk m fid) as [w|] eqn:Ew; [|congruence].
          destruct Hcl as [C1 [C2 [C3 C4]]]. split.
          * simpl. f_equal. unfold erase_w. f_equal. rewrite C2 in T2. inversion T2. reflexivity.
          * intros w'' Hw''. inversion Hw''; subst w''. split; [rewrite HTr; discriminate|].
            intros u l x Hl Hx. destruct Hsafe as [_ [Hns Hnn]]. pose proof (Hnn _ _ _ Hx) as Hx0.
            assert (Hnl : nl w' u = l) by (unfold nl; rewrite Hl; reflexivity).
            split.
            -- intros k Hk. rewrite <- Hnl in Hk. specialize (RN fid w' u k Ew' Hk). lia.
            -- rewrite <- Hnl, T3. specialize (C3 u).
               destruct (aget u (w_nonces w)) as [lw|] eqn:Elw.
               ++ destruct (Hns fid w Ew u lw x Elw Hx) as [_ Hz]. unfold nl in C3. rewrite Elw in C3. lia.
               ++ unfold nl in C3. rewrite Elw in C3. unfold zlen in C3. simpl in C3. lia.
        + destruct (wk m fid) as [w|] eqn:Ew; [|split; [reflexivity | intros w' Hw'; discriminate]].
          exfalso. destruct Hcl as [_ [_ [_ C4]]]. apply C4. exact HTw.
      - destruct (Hout fid ltac:(intros f' Hf'; rewrite Ef in Hf'; inversion Hf'; subst f'; lia)) as [A B']. rewrite A, B'.
        split; [reflexivity | intros w' Hw'; discriminate].
      - destruct (Hout fid ltac:(intros f' Hf'; rewrite Ef in Hf'; inversion Hf'; subst f'; lia)) as [A B']. rewrite A, B'.
        split; [reflexivity | intros w' Hw'; discriminate]. }
    split.
    + apply erase_ext; try congruence.
      apply ksorted_ext; [apply ksorted_erase_ws; exact Hsw | apply ksorted_erase_ws; exact RS|].
      intro k. rewrite !aget_erase_ws. apply (Hwk k).
    + split; [exact Hsafe|]. destruct Hsafe as [_ [_ Hnn]]. split; [|split; [|exact Hnn]].
      * intros fid w Hw. destruct (Hwk fid) as [_ Hx]. apply (Hx w Hw).
      * intros fid w Hw. destruct (Hwk fid) as [_ Hx]. apply (Hx w Hw).
Qed.

Theorem synced_iff_window_open_single p st :
  params_ok2 p -> LIVE p st -> Jbound p st -> safe (st_store st) (st_mem st) -> IVst p st -> band_single p st ->
  (synced p st <-> window_open p st).
Proof. intros. apply synced_iff_window_open_weak; try assumption. apply band_single_weak. assumption. Qed.

Theorem synced_iff_window_open p st :
  params_ok2 p -> LIVE p st -> Jbound p st -> safe (st_store st) (st_mem st) -> IVst p st -> band_clear p st ->
  (synced p st <-> window_open p st).
Proof. intros. apply synced_iff_window_open_single; try assumption. apply band_clear_single. assumption. Qed.

(* ---- decidable versions of the hypotheses (for examples and for the [thm] correspondence check) ------------------ *)
Definition band_clear_b (p : params) (st : state) : bool :=
  forallb (fun f => (st_h st - 1 <? f_start f) || (leftb f (st_h st - 1) <? p_maxnonce p) ||
                    forallb (fun e => (fst e <? st_h st - p_maxnonce p + 1) ||
                                      match filter (isf (f_id f)) (snd e) with [] => true | _ => false end)
                            (s_msgs (st_store st))) (p_feeders p).
Definition window_open_b (p : params) (st : state) : bool :=
  forallb (fun f => (st_h st - 1 <? f_start f) || (p_maxnonce p <=? leftb f (st_h st - 1)) ||
                    match rd (st_mem st) (f_id f) with
                    | Some r => r_open r || match s_vub (st_store st) with Some v => r_based r <? v | None => false end
                    | None => true end) (p_feeders p).

Lemma band_clear_b_sound p st : band_clear_b p st = true -> band_clear p st.
Proof.
  unfold band_clear_b, band_clear. intros Hb f Hin Hst Hl x Hx. rewrite forallb_forall in Hb. specialize (Hb f Hin).
  apply orb_prop in Hb. destruct Hb as [Hb|Hb].
  - apply orb_prop in Hb. destruct Hb as [Hb|Hb]; [apply Z.ltb_lt in Hb; lia | apply Z.ltb_lt in Hb; lia].
  - unfold lookupB. destruct (aget x (s_msgs (st_store st))) as [l|] eqn:E; [|reflexivity].
    apply aget_In in E. rewrite forallb_forall in Hb. specialize (Hb _ E). simpl in Hb.
    apply orb_prop in Hb. destruct Hb as [Hb|Hb]; [apply Z.ltb_lt in Hb; lia|].
    destruct (filter (isf (f_id f)) l); [reflexivity | discriminate].
Qed.

Definition band_blocks (p : params) (st : state) (fid : Z) : list (Z * list item) :=
  filter (fun e => (st_h st - p_maxnonce p + 1 <=? fst e) && match filter (isf fid) (snd e) with [] => false | _ => true end)
         (s_msgs (st_store st)).
Definition band_single_b (p : params) (st : state) : bool :=
  forallb (fun f => (st_h st - 1 <? f_start f) || (leftb f (st_h st - 1) <? p_maxnonce p) ||
                    match s_vub (st_store st) with Some v => st_h st - p_maxnonce p + 1 <=? v | None => false end ||
                    match band_blocks p st (f_id f) with [] => true | [_] => true | _ => false end) (p_feeders p).

Lemma band_blocks_mem p st fid x :
  st_h st - p_maxnonce p + 1 <= x -> filter (isf fid) (lookupB (s_msgs (st_store st)) x) <> [] ->
  exists l, In (x, l) (band_blocks p st fid).
Proof.
  intros Hx Hne. unfold lookupB in Hne. destruct (aget x (s_msgs (st_store st))) as [l|] eqn:E; [|exfalso; apply Hne; reflexivity].
  apply aget_In in E. exists l. unfold band_blocks. apply filter_In. split; [exact E|]. simpl.
  apply andb_true_intro. split; [apply Z.leb_le; exact Hx|]. destruct (filter (isf fid) l) as [|i0 r0]; [exfalso; apply Hne; reflexivity | reflexivity].
Qed.

Lemma band_single_b_sound p st : band_single_b p st = true -> band_single p st.
Proof.
  unfold band_single_b, band_single. intros Hb f Hin Hst Hl. rewrite forallb_forall in Hb. specialize (Hb f Hin).
  apply orb_prop in Hb. destruct Hb as [Hb|Hb]; [apply orb_prop in Hb; destruct Hb as [Hb|Hb]|].
  - apply orb_prop in Hb. destruct Hb as [Hb|Hb]; [apply Z.ltb_lt in Hb; lia | apply Z.ltb_lt in Hb; lia].
  - left. destruct (s_vub (st_store st)) as [v|]; [|discriminate]. exists v. split; [reflexivity | apply Z.leb_le; exact Hb].
  - right. pose proof (band_blocks_mem p st (f_id f)) as Hmem.
    destruct (band_blocks p st (f_id f)) as [|e1 [|e2 r]]; [| |discriminate].
    + exists 0. intros x Hx _. destruct (filter (isf (f_id f)) (lookupB (s_msgs (st_store st)) x)) as [|i0 r0] eqn:E; [reflexivity|].
      destruct (Hmem x Hx ltac:(rewrite E; discriminate)) as [l0 []].
    + exists (fst e1). intros x Hx Hne. destruct (filter (isf (f_id f)) (lookupB (s_msgs (st_store st)) x)) as [|i0 r0] eqn:E; [reflexivity|].
      destruct (Hmem x Hx ltac:(rewrite E; discriminate)) as [l0 [Hl0|[]]]. subst e1. simpl in Hne. congruence.
Qed.

Definition band_last (p : params) (st : state) (fid : Z) : Z := fold_right Z.max 0 (map fst (band_blocks p st fid)).
Definition band_weak_b (p : params) (st : state) : bool :=
  forallb (fun f => (st_h st - 1 <? f_start f) || (leftb f (st_h st - 1) <? p_maxnonce p) ||
                    match s_vub (st_store st) with Some v => st_h st - p_maxnonce p + 1 <=? v | None => false end ||
                    match band_blocks p st (f_id f) with [] => true | [_] => true | _ => false end ||
                    negb (exceeds (wsum (s_vals (st_store st)) (s_msgs (st_store st)) (f_id f) (band_last p st (f_id f))
                                        (st_h st - p_maxnonce p + 1) (Z.to_nat (p_maxnonce p - 1))) (Tot (s_vals (st_store st)))))
          (p_feeders p).

Lemma max_key_ge (l : list (Z * list item)) e : In e l -> fst e <= fold_right Z.max 0 (map fst l).
Proof. induction l as [|a r IH]; intros Hin; [destruct Hin|]. simpl. destruct Hin as [->|Hin]; [lia | specialize (IH Hin); lia]. Qed.

Lemma band_weak_b_sound p st : band_weak_b p st = true -> band_weak p st.
Proof.
  unfold band_weak_b. intros Hb f Hin Hst Hl. rewrite forallb_forall in Hb. specialize (Hb f Hin).
  apply orb_prop in Hb. destruct Hb as [Hb|Hb].
  - apply orb_prop in Hb. destruct Hb as [Hb|Hb]; [apply orb_prop in Hb; destruct Hb as [Hb|Hb]|].
    + apply orb_prop in Hb. destruct Hb as [Hb|Hb]; [apply Z.ltb_lt in Hb; lia | apply Z.ltb_lt in Hb; lia].
    + left. destruct (s_vub (st_store st)) as [v|]; [|discriminate]. exists v. split; [reflexivity | apply Z.leb_le; exact Hb].
    + right. left. pose proof (band_blocks_mem p st (f_id f)) as Hmem.
      destruct (band_blocks p st (f_id f)) as [|e1 [|e2 r]]; [| |discriminate].
      * exists 0. intros x Hx _. destruct (filter (isf (f_id f)) (lookupB (s_msgs (st_store st)) x)) as [|i0 r0] eqn:E; [reflexivity|].
        destruct (Hmem x Hx ltac:(rewrite E; discriminate)) as [l0 []].
      * exists (fst e1). intros x Hx Hne. destruct (filter (isf (f_id f)) (lookupB (s_msgs (st_store st)) x)) as [|i0 r0] eqn:E; [reflexivity|].
        destruct (Hmem x Hx ltac:(rewrite E; discriminate)) as [l0 [Hl0|[]]]. subst e1. simpl in Hne. congruence.
  - right. right. exists (band_last p st (f_id f)). split.
    + intros x Hx Hx'. destruct (filter (isf (f_id f)) (lookupB (s_msgs (st_store st)) x)) as [|i0 r0] eqn:E; [reflexivity|]. exfalso.
      destruct (band_blocks_mem p st (f_id f) x Hx' ltac:(rewrite E; discriminate)) as [l0 Hl0].
      pose proof (max_key_ge _ _ Hl0) as Hm. simpl in Hm. unfold band_last in Hx. lia.
    + apply negb_true_iff in Hb. exact Hb.
Qed.

Lemma window_open_b_iff p st : window_open_b p st = true <-> window_open p st.
Proof.
  unfold window_open_b, window_open. rewrite forallb_forall. split.
  - intros Hb f r Hin Hst Hl Hr. specialize (Hb f Hin). rewrite Hr in Hb.
    apply orb_prop in Hb. destruct Hb as [Hb|Hb].
    + apply orb_prop in Hb. destruct Hb as [Hb|Hb]; [apply Z.ltb_lt in Hb; lia | apply Z.leb_le in Hb; lia].
    + apply orb_prop in Hb. destruct Hb as [Hb|Hb]; [left; exact Hb|]. right.
      destruct (s_vub (st_store st)) as [v|]; [|discriminate]. exists v. split; [reflexivity | apply Z.ltb_lt; exact Hb].
  - intros Hw f Hin. destruct (st_h st - 1 <? f_start f) eqn:E1; [reflexivity|]. apply Z.ltb_ge in E1.
    destruct (p_maxnonce p <=? leftb f (st_h st - 1)) eqn:E2; [reflexivity|]. apply Z.leb_gt in E2. simpl.
    destruct (rd (st_mem st) (f_id f)) as [r|] eqn:Er; [|reflexivity].
    destruct (Hw f r Hin E1 E2 Er) as [Ho|[v [Hv Hlt]]]; [rewrite Ho; reflexivity|]. rewrite Hv. apply orb_true_iff. right. apply Z.ltb_lt. exact Hlt.
Qed.

(* the booleans evaluated by the [thm] check (Model.v) are exactly these *)
Lemma thm_hyps_b_eq p st : thm_hyps_b p st = band_clear_b p st.
Proof. reflexivity. Qed.
Lemma thm_open_b_eq p st : thm_open_b p st = window_open_b p st.
Proof. reflexivity. Qed.
