(* C14/Props.v — property theorems only (statements + exact lemma), witnesses and non-vacuity examples. *)
From Coq Require Import List Bool ZArith Lia.
From Exo Require Import Base.Util C14.Model C14.Proofs C14.Proofs_idle C14.Proofs_window.
Import ListNotations.
Local Open Scope Z_scope.

(* The full statement of DESIGN §3 C14: a restart at any block boundary of any history is unobservable. *)
Definition at_boundary (ops : list op) : bool :=
  match rev ops with [] => true | OEnd _ :: _ => true | _ => false end.
Definition C14_restart_full : Prop :=
  forall p vals next0 ops1 ops2,
    1 <= p_maxnonce p -> forallb plain ops1 = true -> forallb plain ops2 = true -> at_boundary ops1 = true ->
    observe (run p (init_state vals next0) (ops1 ++ ORestart :: ops2)) =
    observe (run p (init_state vals next0) (ops1 ++ ops2)).

(* ---- regression scenarios: the four refutation witnesses of the unrepaired code ------------------------------ *)
(* With the repairs repo_patches/fix-c14-{replay-window-stored-maxnonce, prune-window-underflow, replay-distinct-nonces,
   replay-forced-seal} modelled, the former witnesses K1 (second message of a validator), K3 (validator-set change inside
   the window) and K6 (MaxNonce 4) are restart-safe; K2 (round finalized before the restart) still refutes the full
   statement (C14_restart_refuted_final below). *)
Definition wp := mkParams [mkFeeder 1 1 1 6 2 0; mkFeeder 2 2 1 10 2 0] 3.
Definition wv := [(0, 101); (1, 100)].
Definition wn := [(1, (2, Some 1)); (2, (2, Some 1))].
Definition ends (n : nat) := repeat (OEnd None) n.
Definition same_obs (p : params) (ops1 ops2 : list op) : bool :=
  let a := observe (run p (init_state wv wn) (ops1 ++ ORestart :: ops2)) in
  let b := observe (run p (init_state wv wn) (ops1 ++ ops2)) in
  zl_eqb (fst a) (fst b) && sproj_eqb (proj_store (snd a)) (proj_store (snd b)).

Definition w1a := ends 7 ++ [OTx (mkTx 0 1 1 7 [(1, 100)]); OTx (mkTx 0 1 2 7 [(2, 101)]); OEnd None].
Definition w1b := [OTx (mkTx 1 1 1 7 [(2, 101)]); OEnd None; OEnd None; OEnd None].
Example C14_regression_nonce0 :
  synced_b wp (fst (run wp (init_state wv wn) w1a)) = true /\ same_obs wp w1a w1b = true /\
  aget 1 (s_next (snd (observe (run wp (init_state wv wn) (w1a ++ ORestart :: w1b))))) = Some (4, Some 101).
Proof. vm_compute. repeat split; reflexivity. Qed.

Definition w2a := ends 7 ++ [OTx (mkTx 0 1 1 7 [(1, 100)]); OTx (mkTx 1 1 1 7 [(1, 100)]); OEnd None].
Definition w2b := [OEnd None; OEnd None; OEnd None].

Definition w3a := ends 7 ++ [OEnd (Some [(0, 150); (1, 100)])].
Definition w3b := [OEnd None; OEnd None; OEnd None].
Example C14_regression_valset :
  synced_b wp (fst (run wp (init_state wv wn) w3a)) = true /\ same_obs wp w3a w3b = true.
Proof. vm_compute. split; reflexivity. Qed.

Definition wp4 := mkParams [mkFeeder 1 1 1 8 2 0; mkFeeder 2 2 1 10 2 0] 4.
Definition w6a := ends 9 ++ [OTx (mkTx 0 1 1 9 [(1, 100)]); OEnd None; OEnd None; OEnd None].
Definition w6b := [OTx (mkTx 1 1 1 9 [(1, 100)]); OEnd None; OEnd None].
Example C14_regression_maxnonce4 :
  synced_b wp4 (fst (run wp4 (init_state wv wn) w6a)) = true /\ same_obs wp4 w6a w6b = true.
Proof. vm_compute. split; reflexivity. Qed.

(* ---- still refuted: C14-final-reopen (the repair that persists the finalizing message was not accepted) ------ *)
Definition refutes_p (p : params) (ops1 ops2 : list op) : bool :=
  (1 <=? p_maxnonce p) && forallb plain ops1 && forallb plain ops2 && at_boundary ops1 && negb (same_obs p ops1 ops2).

Lemma refutes_p_sound p ops1 ops2 : refutes_p p ops1 ops2 = true -> ~ C14_restart_full.
Proof.
  unfold refutes_p, same_obs. intros H F. apply andb_prop in H. destruct H as [H Hn]. apply andb_prop in H. destruct H as [H Hb].
  apply andb_prop in H. destruct H as [H H2]. apply andb_prop in H. destruct H as [Hmn H1]. apply Z.leb_le in Hmn.
  specialize (F p wv wn ops1 ops2 Hmn H1 H2 Hb).
  rewrite F in Hn. cbv zeta in Hn. apply negb_true_iff in Hn.
  assert (T : forall o : list Z * store, zl_eqb (fst o) (fst o) && sproj_eqb (proj_store (snd o)) (proj_store (snd o)) = true).
  { intros [c s]. simpl. apply andb_true_intro. split.
    - apply list_eqb_refl. apply Z.eqb_refl.
    - unfold sproj_eqb. repeat (apply andb_true_intro; split).
      + apply list_eqb_refl. intros [k [n o]]. simpl. rewrite !Z.eqb_refl. destruct o; simpl; [apply Z.eqb_refl | reflexivity].
      + apply list_eqb_refl. intros [k l]. simpl. rewrite Z.eqb_refl. apply list_eqb_refl. intros [x y]. unfold zz_eqb. simpl. rewrite !Z.eqb_refl. reflexivity.
      + apply list_eqb_refl. apply Z.eqb_refl.
      + destruct (sp_vub (proj_store s)); simpl; [apply Z.eqb_refl | reflexivity]. }
  rewrite T in Hn. discriminate.
Qed.

(* K2: both validators agree in block 8, the round is final and the finalizing block's messages are dropped from the
   cache; restarted after block 8 the round is open again and is fail-sealed at window end: GrowRoundID appends a second
   round id (known finding C14-final-reopen, replayed on the real code by the directed history kf-final). *)
Theorem C14_restart_refuted_final : ~ C14_restart_full.
Proof. apply (refutes_p_sound wp w2a w2b). vm_compute. reflexivity. Qed.
Print Assumptions C14_restart_refuted_final.
Example C14_not_synced_final : synced_b wp (fst (run wp (init_state wv wn) w2a)) = false.
Proof. vm_compute. reflexivity. Qed.

(* ---- what IS true, for all histories -------------------------------------------------------------- *)

(* The rebuilt memory is a function of the committed store and the height only. *)
Theorem C14_rebuild_from_store_only : forall p a b,
  st_h a = st_h b -> st_store a = st_store b -> restart p a = restart p b.
Proof. exact restart_eq. Qed.
Print Assumptions C14_rebuild_from_store_only.

(* Invariant of every never-stopped history: every nonce remembered by a worker's filter is covered by the stored
   nonce row the ante handler checks, workers only exist for existing rounds, stored nonces are non-negative. *)
Theorem C14_invariant_reachable : forall p vals next0 ops,
  forallb plain ops = true ->
  safe (st_store (fst (run p (init_state vals next0) ops))) (st_mem (fst (run p (init_state vals next0) ops))).
Proof. intros p vals next0 ops H. apply run_safe; [assumption | apply init_safe]. Qed.
Print Assumptions C14_invariant_reachable.

(* Simulation => observational equality, any number of restarts: if at every restart point of the history the memory
   rebuilt from the store equals the live one up to the filter's nonce sets (and satisfies the invariant), then the
   history with its restarts is indistinguishable - result codes and committed store - from the never-stopped one,
   for ALL continuations. In particular the nonce sets (all a recached node gets wrong when nothing else is) are unobservable. *)
Theorem C14_restarts_at_synced_points : forall p vals next0 ops,
  p_maxnonce p <> 0 ->
  (forall pre post, ops = pre ++ ORestart :: post ->
     synced p (fst (run p (init_state vals next0) (filter plain pre)))) ->
  observe (run p (init_state vals next0) ops) = observe (run p (init_state vals next0) (filter plain ops)).
Proof. intros p vals next0 ops Hmn H. apply restarts_at_synced; [assumption | apply init_safe | assumption]. Qed.
Print Assumptions C14_restarts_at_synced_points.

(* Single restart, decidable hypothesis: [synced_b] is computed by the correspondence check at the restart point of
   every generated case (check [pred]) and, whenever it is true, the implementation's twins must agree. *)
Theorem C14_restart_partial : forall p vals next0 ops1 ops2,
  p_maxnonce p <> 0 -> forallb plain ops1 = true -> forallb plain ops2 = true ->
  synced_b p (fst (run p (init_state vals next0) ops1)) = true ->
  observe (run p (init_state vals next0) (ops1 ++ ORestart :: ops2)) =
  observe (run p (init_state vals next0) (ops1 ++ ops2)).
Proof.
  intros p vals next0 ops1 ops2 Hmn H1 H2 Hb.
  apply single_restart; [assumption | apply init_safe | assumption | assumption | apply synced_b_sound; exact Hb].
Qed.
Print Assumptions C14_restart_partial.

(* The restarted twin and the never-stopped node stay in lockstep forever once related. *)
Theorem C14_lockstep : forall p a b c ops,
  p_maxnonce p <> 0 -> twin_rel a b -> forallb plain ops = true ->
  observe (fold_left (step p) ops (a, c)) = observe (fold_left (step p) ops (b, c)).
Proof.
  intros p a b c ops Hmn Hr Hp.
  destruct (run_twin p ops a b c Hmn Hr) as [Hc [_ [Hst _]]].
  - intros pre post E. exfalso. rewrite E in Hp. clear - Hp.
    induction pre as [|x y IH]; simpl in Hp; [discriminate|]. apply andb_prop in Hp. destruct Hp. auto.
  - rewrite filter_plain_id in Hc, Hst by assumption. unfold observe. rewrite Hc, Hst. reflexivity.
Qed.
Print Assumptions C14_lockstep.

(* For ALL never-stopped histories over valid params (distinct feeder ids, MaxNonce >= 2, no feeder end block,
   interval >= 1, start block >= 1): a restart at a block boundary where every started feeder is outside its submission
   window (left >= MaxNonce), the recent-message store holds no block >= h-MaxNonce+1 and the last validator-set change is
   older than that, is unobservable for ALL continuations. (Restarts inside a window: regression examples above, checks [pred]/[conj], and C14_round_replay_faithful.) *)
Theorem C14_restart_when_quiet : forall p vals next0 ops1 vu ops2,
  params_ok p -> forallb plain ops1 = true -> forallb plain ops2 = true ->
  quiet p (fst (run p (init_state vals next0) (ops1 ++ [OEnd vu]))) ->
  observe (run p (init_state vals next0) ((ops1 ++ [OEnd vu]) ++ ORestart :: ops2)) =
  observe (run p (init_state vals next0) ((ops1 ++ [OEnd vu]) ++ ops2)).
Proof. exact restart_when_quiet. Qed.
Print Assumptions C14_restart_when_quiet.

(* Closed form of the live round table, for all never-stopped histories over valid params: after EndBlock h the table
   is key-sorted, has exactly the started feeders, with basedBlock = h - (h-start) mod interval, nextRoundID = startRound +
   (h-start)/interval, and a round can be open only while (h-start) mod interval < MaxNonce; workers exist only for open rounds. *)
Theorem C14_round_table_closed_form : forall p vals next0 ops vu,
  params_ok p -> forallb plain ops = true ->
  Jbound p (fst (run p (init_state vals next0) (ops ++ [OEnd vu]))).
Proof.
  intros p vals next0 ops vu Hok Hp. unfold run. rewrite fold_left_app. simpl.
  destruct (fold_left (step p) ops (init_state vals next0, [])) as [st1 c1] eqn:E. simpl.
  apply end_block_J; [assumption|].
  pose proof (run_J p Hok ops (init_state vals next0) [] Hp (init_J p vals next0 Hok)) as HJ. rewrite E in HJ. exact HJ.
Qed.
Print Assumptions C14_round_table_closed_form.

(* What the replay does preserve: feeding the persisted (filtered) price list of a counted message, with Nonce 0, to a
   worker that has not yet seen a message of that validator reproduces exactly the same aggregation state, the same
   persisted item and the same final price, whatever nonce the replay uses. *)
Theorem C14_replay_item_faithful : forall mn w v nonce power ps w1 kept fin,
  mn <> 0 -> aget v (w_nonces w) = None ->
  worker_do mn w v nonce power ps = (w1, Some kept, fin) ->
  forall rn, exists w2, worker_do mn w v rn power kept = (w2, Some kept, fin) /\ w_core w2 = w_core w1.
Proof. exact worker_do_replay. Qed.
Print Assumptions C14_replay_item_faithful.

(* A whole round at worker level, any number of validators: if every validator contributed at most one message, every
   message was counted and none finalized, then replaying the persisted items (with whatever nonces) on a fresh worker rebuilds exactly
   the live worker's aggregation state (filter det-id sets, calculator, aggregator). This is the per-round core of the
   in-window case; its lift to whole histories (interleaved feeders, blocks, pruning) is not proved - see design/C14.md. *)
Theorem C14_round_replay_faithful : forall mn rn vals msgs w2 its,
  mn <> 0 -> NoDup (map (fun m : wmsg => fst (fst (fst m))) msgs) ->
  live_round mn (new_worker vals) msgs = Some (w2, its) ->
  w_core (replay_round mn rn 0 (new_worker vals) its) = w_core w2.
Proof.
  intros mn rn vals msgs w2 its Hmn ND H.
  apply (replay_round_faithful mn rn Hmn msgs 0%nat (new_worker vals) (new_worker vals) w2 its ND); [|reflexivity|exact H].
  intros m _. split; reflexivity.
Qed.
Print Assumptions C14_round_replay_faithful.

(* The same without the one-message-per-validator restriction: ANY sequence of counted, non-finalizing messages (validators
   may send several, with the distinct nonces the ante handler enforces) is rebuilt exactly by replaying the persisted items
   with pairwise distinct replay nonces - this is why fix-c14-replay-distinct-nonces repairs K1 (with a constant replay nonce
   the statement is false: C14_regression_nonce0 was the counterexample). Worker level; not lifted to whole histories. *)
Theorem C14_round_replay_general : forall mn rn vals msgs w2 its,
  mn <> 0 -> (forall i j : nat, rn i = rn j -> i = j) ->
  live_round mn (new_worker vals) msgs = Some (w2, its) ->
  w_core (replay_round mn rn 0 (new_worker vals) its) = w_core w2.
Proof.
  intros mn rn vals msgs w2 its Hmn Hinj H.
  apply (replay_round_general mn rn Hmn Hinj msgs 0%nat (new_worker vals) (new_worker vals) w2 its); [|exact H].
  split; [reflexivity|]. split; [reflexivity|]. intros v n Hin. simpl in Hin. destruct Hin.
Qed.
Print Assumptions C14_round_replay_general.

(* ---- the characterisation of the restart-safe block boundaries (the former tested conjecture [conj]) ---------------- *)
(* For ALL never-stopped histories over valid params (params_ok + Interval >= 2*MaxNonce, as Params.Validate demands), at a block
   boundary where no feeder that has just left its window still has items inside the replay window ([band_clear], see
   design/C14.md for why this band is excluded):

     the memory rebuilt from the store equals the live one up to the filter's nonce sets (and satisfies the invariant)
       <->  every round that is still inside its submission window is open in the live memory, or older than the last
            validator-set change (then it was force-sealed, and the replay re-applies the forced seal),

   i.e. the ONLY way such a boundary is not restart-safe is a round that was closed inside its window without a recorded
   validator-set change after its start: finalized by a transaction (known finding C14-final-reopen, C14_restart_refuted_final)
   or force-sealed by a validator update that did not change the set. Validator-set changes inside the replay window are
   covered (fix-c14-replay-forced-seal). Proof: invariants [LIVE] (every live worker's aggregation state = replay of the items
   persisted/cached for its round) and [IVst] (no item is accepted for a force-sealed round), kept through DeliverTx and
   EndBlock; projection of recache onto one feeder ([recache_window]); canonical key-sorted tables. *)
Theorem C14_restart_safe_iff : forall p vals next0 ops vu,
  params_ok2 p -> forallb plain ops = true ->
  let st := fst (run p (init_state vals next0) (ops ++ [OEnd vu])) in
  band_clear p st ->
  (synced p st <-> window_open p st).
Proof.
  intros p vals next0 ops vu Hok2 Hp st Hband. pose proof Hok2 as [Hok _].
  assert (Hp1 : forallb plain (ops ++ [OEnd vu]) = true) by (rewrite forallb_app, Hp; reflexivity).
  destruct (init_LIVE p vals next0 Hok) as [HL0 HV0].
  destruct (run_LIVE p Hok (ops ++ [OEnd vu]) (init_state vals next0) [] Hp1 HL0 HV0) as [HL _].
  apply synced_iff_window_open; try assumption.
  - apply C14_round_table_closed_form; assumption.
  - apply run_safe; [assumption | apply init_safe].
  - apply run_IV; try assumption. apply init_IV.
Qed.
Print Assumptions C14_restart_safe_iff.

(* ... and therefore, observationally: a restart at such a boundary is invisible - result codes and committed store - for ALL
   continuations. *)
Theorem C14_restart_safe : forall p vals next0 ops1 vu ops2,
  params_ok2 p -> forallb plain ops1 = true -> forallb plain ops2 = true ->
  let st := fst (run p (init_state vals next0) (ops1 ++ [OEnd vu])) in
  band_clear p st -> window_open p st ->
  observe (run p (init_state vals next0) ((ops1 ++ [OEnd vu]) ++ ORestart :: ops2)) =
  observe (run p (init_state vals next0) ((ops1 ++ [OEnd vu]) ++ ops2)).
Proof.
  intros p vals next0 ops1 vu ops2 Hok2 H1 H2 st Hband Hwo. pose proof Hok2 as [[_ [Hmn _]] _].
  assert (Hp1 : forallb plain (ops1 ++ [OEnd vu]) = true) by (rewrite forallb_app, H1; reflexivity).
  apply single_restart; try assumption; [lia | apply init_safe|].
  apply (C14_restart_safe_iff p vals next0 ops1 vu Hok2 H1 Hband). exact Hwo.
Qed.
Print Assumptions C14_restart_safe.

(* ---- the same two theorems under the weaker side condition [band_weak] ---------------------------------------------------
   [band_clear] demands that a feeder that has just left its submission window (MaxNonce <= left <= 2*MaxNonce-2) has NO item
   inside the replay window. [band_weak] (implied by it: band_clear_single, band_single_weak) only demands, for such a feeder,
   one of
     (a) the replay starts at a recorded validator-set change (then none of its items is replayed: the forced block is replayed
         without messages and no item was accepted for the force-sealed round afterwards), or
     (b) its items inside the replay window all lie in ONE block ([band_single]), or
     (c) its items inside the replay window that lie before its last item block carry, summed per item, no more than the 2/3
         threshold of voting power ([wsum], [exceeds]).
   The replay then sees a suffix of the round's items on a fresh worker. Under (b)/(c) that suffix cannot finalize before the last
   item block (c: the aggregator's reported power is bounded by the sum, whatever the calculator does), and whatever the last item
   block does (even finalize), the worker is dropped by the seal of that block or by the seal that closes the round, so the
   rebuilt memory has no worker for the feeder, like the live one ([block_band], [block_band2], [replay_all_band],
   [replay_all_band2], last clause of [recache_window]). What remains outside: items of the band feeder in at least two replayed
   blocks AND more than the threshold power already reported before the last of them (the live node did not finalize on them
   only because its calculator had not confirmed a price) - see design/C14.md 5b. *)
Theorem C14_restart_safe_iff_weak : forall p vals next0 ops vu,
  params_ok2 p -> forallb plain ops = true ->
  let st := fst (run p (init_state vals next0) (ops ++ [OEnd vu])) in
  band_weak p st ->
  (synced p st <-> window_open p st).
Proof.
  intros p vals next0 ops vu Hok2 Hp st Hband. pose proof Hok2 as [Hok _].
  assert (Hp1 : forallb plain (ops ++ [OEnd vu]) = true) by (rewrite forallb_app, Hp; reflexivity).
  destruct (init_LIVE p vals next0 Hok) as [HL0 HV0].
  destruct (run_LIVE p Hok (ops ++ [OEnd vu]) (init_state vals next0) [] Hp1 HL0 HV0) as [HL _].
  apply synced_iff_window_open_weak; try assumption.
  - apply C14_round_table_closed_form; assumption.
  - apply run_safe; [assumption | apply init_safe].
  - apply run_IV; try assumption. apply init_IV.
Qed.
Print Assumptions C14_restart_safe_iff_weak.

Theorem C14_restart_safe_weak : forall p vals next0 ops1 vu ops2,
  params_ok2 p -> forallb plain ops1 = true -> forallb plain ops2 = true ->
  let st := fst (run p (init_state vals next0) (ops1 ++ [OEnd vu])) in
  band_weak p st -> window_open p st ->
  observe (run p (init_state vals next0) ((ops1 ++ [OEnd vu]) ++ ORestart :: ops2)) =
  observe (run p (init_state vals next0) ((ops1 ++ [OEnd vu]) ++ ops2)).
Proof.
  intros p vals next0 ops1 vu ops2 Hok2 H1 H2 st Hband Hwo. pose proof Hok2 as [[_ [Hmn _]] _].
  assert (Hp1 : forallb plain (ops1 ++ [OEnd vu]) = true) by (rewrite forallb_app, H1; reflexivity).
  apply single_restart; try assumption; [lia | apply init_safe|].
  apply (C14_restart_safe_iff_weak p vals next0 ops1 vu Hok2 H1 Hband). exact Hwo.
Qed.
Print Assumptions C14_restart_safe_weak.

(* ---- non-vacuity ----------------------------------------------------------------------------------- *)
(* a restart in the MIDDLE of a submission window, with a partial aggregation in memory, that is restart-safe:
   one message per validator so far, nothing finalized, no validator-set change in the window *)
Definition e1a := ends 7 ++ [OTx (mkTx 0 1 1 7 [(1, 100); (2, 101)]); OEnd None].
Definition e1b := [OTx (mkTx 1 1 1 7 [(2, 101)]); OEnd None; OEnd None; OEnd None].
Example C14_synced_mid_window : synced_b wp (fst (run wp (init_state wv wn) e1a)) = true.
Proof. vm_compute. reflexivity. Qed.
Example C14_synced_mid_window_has_worker :
  map fst (m_workers (st_mem (fst (run wp (init_state wv wn) e1a)))) = [1].
Proof. vm_compute. reflexivity. Qed.
Example C14_partial_applies :
  observe (run wp (init_state wv wn) (e1a ++ ORestart :: e1b)) = observe (run wp (init_state wv wn) (e1a ++ e1b)).
Proof. apply C14_restart_partial; [discriminate | reflexivity | reflexivity | exact C14_synced_mid_window]. Qed.
(* ... and the continuation e1b really finalizes a price (round 3 of token 1 gets 101) *)
Example C14_partial_finalizes :
  aget 1 (s_next (snd (observe (run wp (init_state wv wn) (e1a ++ ORestart :: e1b))))) = Some (4, Some 101).
Proof. vm_compute. reflexivity. Qed.
(* C14_restart_when_quiet is not vacuous: wp is valid; after 16 blocks (a round finalized in block 8, messages persisted)
   both feeders are outside their windows: the state is quiet, and it is indeed synced *)
Example C14_wp_ok : params_ok wp.
Proof.
  split; [repeat constructor; simpl; intuition discriminate|]. split; [simpl; discriminate|]. split.
  - intros f [<-|[<-|[]]]; reflexivity.
  - intros f [<-|[<-|[]]]; simpl; split; discriminate.
Qed.
Definition q1 := ends 7 ++ [OTx (mkTx 0 1 1 7 [(1, 100)]); OTx (mkTx 1 1 1 7 [(1, 100)])] ++ ends 8.
Example C14_quiet_reachable : quiet_b wp (fst (run wp (init_state wv wn) (q1 ++ [OEnd None]))) = true.
Proof. vm_compute. reflexivity. Qed.
Example C14_quiet_price_written :
  aget 1 (s_next (st_store (fst (run wp (init_state wv wn) (q1 ++ [OEnd None]))))) = Some (5, Some 100).
Proof. vm_compute. reflexivity. Qed.
Example C14_quiet_is_synced : synced_b wp (fst (run wp (init_state wv wn) (q1 ++ [OEnd None]))) = true.
Proof. vm_compute. reflexivity. Qed.

(* C14_round_replay_faithful is not vacuous: three validators (powers 101/100/100, none alone or in pair above 2/3 with
   disagreeing det-ids), duplicate det-ids inside a message are filtered *)
Example C14_live_round_some :
  exists w2 its, live_round 3 (new_worker [(0, 101); (1, 100); (2, 100)])
    [(0, 1, 101, [(1, 100); (1, 100); (2, 101)]); (1, 2, 100, [(3, 99)]); (2, 1, 100, [(4, 98)])] = Some (w2, its) /\
    length its = 3%nat.
Proof. eexists. eexists. split; [vm_compute; reflexivity | reflexivity]. Qed.

(* C14_round_replay_general is not vacuous: validator 0 sends two counted messages (nonces 1 and 2) *)
Example C14_live_round_repeated :
  exists w2 its, live_round 3 (new_worker [(0, 101); (1, 100); (2, 100)])
    [(0, 1, 101, [(1, 100)]); (0, 2, 101, [(2, 101)]); (1, 1, 100, [(3, 99)])] = Some (w2, its) /\ length its = 3%nat.
Proof. eexists. eexists. split; [vm_compute; reflexivity | reflexivity]. Qed.

(* C14_restart_safe_iff / C14_restart_safe are not vacuous: wp satisfies params_ok2; the mid-window state e1a (one message
   persisted, worker with a partial aggregation) satisfies the hypotheses and has every in-window round open; the finalized
   state w2a satisfies the hypotheses but has a closed in-window round - exactly the refutation point *)
Example C14_wp_ok2 : params_ok2 wp.
Proof. split; [exact C14_wp_ok|]. intros f [<-|[<-|[]]]; simpl; discriminate. Qed.
Example C14_iff_hyps_mid_window :
  thm_hyps_b wp (fst (run wp (init_state wv wn) e1a)) = true /\ thm_open_b wp (fst (run wp (init_state wv wn) e1a)) = true.
Proof. vm_compute. split; reflexivity. Qed.
Example C14_iff_hyps_final :
  thm_hyps_b wp (fst (run wp (init_state wv wn) w2a)) = true /\ thm_open_b wp (fst (run wp (init_state wv wn) w2a)) = false.
Proof. vm_compute. split; reflexivity. Qed.
(* [band_single] / [band_weak] are strictly weaker than [band_clear] on reachable states: feeder 1 (interval 6, MaxNonce 3) has left
   the window of its round 7 (left = 3 resp. 4) and the single block with an item of that round is still replayed (b1a, b2a): not
   [band_clear], but [band_single], every in-window round open, and indeed synced; b3a: items in BOTH replayed blocks, from the
   validator with power 100 of 201: not [band_single], but [band_weak], and synced *)
Definition b1a := ends 8 ++ [OTx (mkTx 0 1 1 7 [(1, 100)]); OEnd None; OEnd None].
Definition b2a := ends 9 ++ [OTx (mkTx 0 1 1 7 [(1, 100)]); OEnd None; OEnd None].
Definition b3a := ends 8 ++ [OTx (mkTx 1 1 1 7 [(1, 100)]); OEnd None; OTx (mkTx 1 1 2 7 [(2, 101)]); OEnd None].
Example C14_iff_hyps_band_single :
  band_clear_b wp (fst (run wp (init_state wv wn) b1a)) = false /\ band_single_b wp (fst (run wp (init_state wv wn) b1a)) = true /\
  window_open_b wp (fst (run wp (init_state wv wn) b1a)) = true /\ synced_b wp (fst (run wp (init_state wv wn) b1a)) = true /\
  band_clear_b wp (fst (run wp (init_state wv wn) b2a)) = false /\ band_single_b wp (fst (run wp (init_state wv wn) b2a)) = true /\
  window_open_b wp (fst (run wp (init_state wv wn) b2a)) = true /\ synced_b wp (fst (run wp (init_state wv wn) b2a)) = true.
Proof. vm_compute. repeat split; reflexivity. Qed.
Example C14_iff_hyps_band_weak :
  band_single_b wp (fst (run wp (init_state wv wn) b3a)) = false /\ band_weak_b wp (fst (run wp (init_state wv wn) b3a)) = true /\
  window_open_b wp (fst (run wp (init_state wv wn) b3a)) = true /\ synced_b wp (fst (run wp (init_state wv wn) b3a)) = true /\
  map (fun e => (fst e, length (snd e))) (s_msgs (st_store (fst (run wp (init_state wv wn) b3a)))) = [(9, 1%nat); (10, 1%nat)].
Proof. vm_compute. repeat split; reflexivity. Qed.
(* a validator-set change inside the window (w3a): hypotheses hold, the force-sealed round counts as fine, and it is synced *)
Example C14_iff_hyps_valset :
  thm_hyps_b wp (fst (run wp (init_state wv wn) w3a)) = true /\ thm_open_b wp (fst (run wp (init_state wv wn) w3a)) = true /\
  synced_b wp (fst (run wp (init_state wv wn) w3a)) = true.
Proof. vm_compute. repeat split; reflexivity. Qed.
