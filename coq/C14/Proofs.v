(* C14/Proofs.v — lemmas. *)
From Coq Require Import List Bool ZArith Lia.
From Exo Require Import Base.Util C14.Model.
Import ListNotations.
Local Open Scope Z_scope.

(* ---- association lists ---------------------------------------------------------------------------- *)
Lemma aget_aset_eq {A} k (v : A) l : aget k (aset k v l) = Some v.
Proof.
  induction l as [|[k' v'] r IH]; simpl.
  - rewrite Z.eqb_refl. reflexivity.
  - destruct (k =? k') eqn:E; simpl.
    + rewrite Z.eqb_refl. reflexivity.
    + destruct (k <? k'); simpl.
      * rewrite Z.eqb_refl. reflexivity.
      * rewrite E. exact IH.
Qed.

Lemma aget_aset_neq {A} k j (v : A) l : j <> k -> aget j (aset k v l) = aget j l.
Proof.
  intro N. induction l as [|[k' v'] r IH]; simpl.
  - destruct (j =? k) eqn:E; [apply Z.eqb_eq in E; contradiction | reflexivity].
  - destruct (k =? k') eqn:E; simpl.
    + apply Z.eqb_eq in E. subst k'. destruct (j =? k) eqn:E2; [apply Z.eqb_eq in E2; contradiction | reflexivity].
    + destruct (k <? k'); simpl.
      * destruct (j =? k) eqn:E2; [apply Z.eqb_eq in E2; contradiction | reflexivity].
      * destruct (j =? k'); [reflexivity | exact IH].
Qed.

Lemma aget_adel_eq {A} k (l : list (Z * A)) : aget k (adel k l) = None.
Proof.
  unfold adel. induction l as [|[k' v'] r IH]; simpl; [reflexivity|].
  destruct (k =? k') eqn:E; simpl; [exact IH | rewrite E; exact IH].
Qed.

Lemma aget_adel_neq {A} k j (l : list (Z * A)) : j <> k -> aget j (adel k l) = aget j l.
Proof.
  intro N. unfold adel. induction l as [|[k' v'] r IH]; simpl; [reflexivity|].
  destruct (k =? k') eqn:E; simpl.
  - apply Z.eqb_eq in E. subst k'. destruct (j =? k) eqn:E2; [apply Z.eqb_eq in E2; contradiction | exact IH].
  - destruct (j =? k'); [reflexivity | exact IH].
Qed.

Lemma aget_adel_some {A} k j (l : list (Z * A)) w : aget j (adel k l) = Some w -> aget j l = Some w /\ j <> k.
Proof.
  intro H. destruct (Z.eq_dec j k) as [->|N].
  - rewrite aget_adel_eq in H. discriminate.
  - rewrite aget_adel_neq in H by assumption. split; assumption.
Qed.

Section MapVals.
  Context {A B : Type} (f : A -> B).
  Definition mapv (l : list (Z * A)) : list (Z * B) := map (fun e => (fst e, f (snd e))) l.
  Lemma aget_mapv k l : aget k (mapv l) = option_map f (aget k l).
  Proof. induction l as [|[k' v'] r IH]; simpl; [reflexivity|]. destruct (k =? k'); [reflexivity | exact IH]. Qed.
  Lemma mapv_aset k v l : mapv (aset k v l) = aset k (f v) (mapv l).
  Proof.
    induction l as [|[k' v'] r IH]; simpl; [reflexivity|].
    destruct (k =? k'); simpl; [reflexivity|]. destruct (k <? k'); simpl; [reflexivity|]. rewrite IH. reflexivity.
  Qed.
  Lemma mapv_adel k l : mapv (adel k l) = adel k (mapv l).
  Proof.
    unfold adel. induction l as [|[k' v'] r IH]; simpl; [reflexivity|].
    destruct (k =? k'); simpl; [exact IH | rewrite IH; reflexivity].
  Qed.
End MapVals.

Lemma erase_ws_mapv ws : erase_ws ws = mapv erase_w ws.
Proof. reflexivity. Qed.

Lemma erase_w_idem w : erase_w (erase_w w) = erase_w w.
Proof. reflexivity. Qed.

Lemma erase_ws_idem ws : erase_ws (erase_ws ws) = erase_ws ws.
Proof. unfold erase_ws. rewrite map_map. apply map_ext. intros [k w]. reflexivity. Qed.

Lemma erase_idem m : erase (erase m) = erase m.
Proof. destruct m. unfold erase, set_workers. simpl. rewrite erase_ws_idem. reflexivity. Qed.

Lemma erase_ws_adel k ws : erase_ws (adel k ws) = adel k (erase_ws ws).
Proof. exact (mapv_adel erase_w k ws). Qed.
Lemma erase_ws_aset k w ws : erase_ws (aset k w ws) = aset k (erase_w w) (erase_ws ws).
Proof. exact (mapv_aset erase_w k w ws). Qed.

Lemma aget_erase_ws k ws : aget k (erase_ws ws) = option_map erase_w (aget k ws).
Proof. apply aget_mapv. Qed.

(* ---- SealRound / PrepareRoundEndBlock never read the nonce sets ------------------------------------ *)
Lemma seal_rounds_erase p h force rs ws :
  seal_rounds p h force rs (erase_ws ws) =
  let '(rs', ws', f, s) := seal_rounds p h force rs ws in (rs', erase_ws ws', f, s).
Proof.
  induction rs as [|[fid r] rest IH]; simpl; [reflexivity|].
  rewrite IH. destruct (seal_rounds p h force rest ws) as [[[rs' ws1] failed] sealed].
  destruct (get_feeder (p_feeders p) fid) as [f|]; [|reflexivity].
  destruct (r_open r && (((0 <? f_end f) && (f_end f <=? h)) || (p_maxnonce p <=? h - r_based r) || force)).
  - rewrite erase_ws_adel. reflexivity.
  - rewrite aget_erase_ws. destruct (aget fid ws1) as [w|]; simpl; [|reflexivity].
    unfold w_sealed. simpl. destruct (c_sealed (w_core w)); [|reflexivity].
    rewrite erase_ws_adel. reflexivity.
Qed.

Lemma prepare_rounds_erase mn b fs : forall rs ws,
  prepare_rounds mn b fs rs (erase_ws ws) =
  let '(rs', ws', nw) := prepare_rounds mn b fs rs ws in (rs', erase_ws ws', nw).
Proof.
  induction fs as [|f rest IH]; intros rs ws; simpl; [reflexivity|].
  destruct (((0 <? f_end f) && (f_end f <=? b)) || (b <? f_start f) || (f_interval f <=? 0)); [apply IH|].
  destruct (aget (f_id f) rs) as [r|].
  - destruct ((b - f_start f) mod f_interval f =? 0).
    + rewrite <- erase_ws_adel, IH.
      destruct (prepare_rounds mn b rest _ _) as [[a1 a2] a3]. reflexivity.
    + destruct (r_open r && (mn <=? (b - f_start f) mod f_interval f)); rewrite IH;
        destruct (prepare_rounds mn b rest _ _) as [[a1 a2] a3]; reflexivity.
  - destruct (mn <=? (b - f_start f) mod f_interval f); rewrite IH;
      destruct (prepare_rounds mn b rest _ _) as [[a1 a2] a3]; reflexivity.
Qed.

Lemma seal_erase p h force m :
  seal p h force (erase m) = let '(m', f, s) := seal p h force m in (erase m', f, s).
Proof.
  unfold seal. destruct m as [vals rs ws msgs cv vu pn]. simpl.
  rewrite seal_rounds_erase. destruct (seal_rounds p h force rs ws) as [[[rs' ws'] f] s]. reflexivity.
Qed.

Lemma prepare_erase p b m :
  prepare p b (erase m) = let '(m', nw) := prepare p b m in (erase m', nw).
Proof.
  unfold prepare. destruct (b <? 1); [reflexivity|].
  destruct m as [vals rs ws msgs cv vu pn]. simpl.
  rewrite prepare_rounds_erase. destruct (prepare_rounds (p_maxnonce p) b (p_feeders p) rs ws) as [[rs' ws'] nw]. reflexivity.
Qed.

Lemma end_block_erase p h s m vu :
  end_block p (mkState h s (erase m)) vu =
  mkState (st_h (end_block p (mkState h s m) vu)) (st_store (end_block p (mkState h s m) vu))
          (erase (st_mem (end_block p (mkState h s m) vu))).
Proof.
  unfold end_block. simpl st_h. simpl st_store. simpl st_mem.
  destruct vu as [vs|].
  - change (mkMem vs (m_rounds (erase m)) (m_workers (erase m)) (m_msgs (erase m)) vs
              (m_vupd (erase m) || negb (list_eqb (fun a b => (fst a =? fst b) && (snd a =? snd b)) vs (m_cvals (erase m)))) (m_panic (erase m)))
      with (erase (mkMem vs (m_rounds m) (m_workers m) (m_msgs m) vs
              (m_vupd m || negb (list_eqb (fun a b => (fst a =? fst b) && (snd a =? snd b)) vs (m_cvals m))) (m_panic m))).
    rewrite seal_erase.
    destruct (seal p h true _) as [[m2 failed] sealed].
    change (mkMem (m_vals (erase m2)) (m_rounds (erase m2)) (m_workers (erase m2)) [] (m_cvals (erase m2)) false (m_panic (erase m2)))
      with (erase (mkMem (m_vals m2) (m_rounds m2) (m_workers m2) [] (m_cvals m2) false (m_panic m2))).
    rewrite prepare_erase. destruct (prepare p h _) as [m4 nw]. reflexivity.
  - rewrite seal_erase.
    destruct (seal p h false m) as [[m2 failed] sealed].
    change (mkMem (m_vals (erase m2)) (m_rounds (erase m2)) (m_workers (erase m2)) [] (m_cvals (erase m2)) false (m_panic (erase m2)))
      with (erase (mkMem (m_vals m2) (m_rounds m2) (m_workers m2) [] (m_cvals m2) false (m_panic m2))).
    rewrite prepare_erase. destruct (prepare p h _) as [m4 nw]. reflexivity.
Qed.

(* ---- FillPrice: the nonce sets matter only through Set.Add's verdict -------------------------------- *)
Lemma erase_set_workers m ws : erase (set_workers m ws) = set_workers m (erase_ws ws).
Proof. destruct m; reflexivity. Qed.
Lemma set_workers_erase m ws : set_workers (erase m) ws = set_workers m ws.
Proof. destruct m; reflexivity. Qed.
Lemma erase_set_rounds m rs : erase (set_rounds m rs) = set_rounds (erase m) rs.
Proof. destruct m; reflexivity. Qed.
Lemma erase_set_msgs m x : erase (set_msgs m x) = set_msgs (erase m) x.
Proof. destruct m; reflexivity. Qed.
Lemma erase_set_panic m : erase (set_panic m) = set_panic (erase m).
Proof. destruct m; reflexivity. Qed.

Definition add_ok (mn nonce : Z) (ns : list Z) : Prop := zlen ns <> mn /\ zmem nonce ns = false.

Lemma set_add_ok mn nonce ns : add_ok mn nonce ns -> set_add mn nonce ns = (ns ++ [nonce], true).
Proof.
  intros [H1 H2]. unfold set_add. rewrite H2.
  destruct (zlen ns =? mn) eqn:E; [apply Z.eqb_eq in E; contradiction | reflexivity].
Qed.

Lemma worker_do_erase mn w v nonce power ps :
  mn <> 0 ->
  (forall ns, aget v (w_nonces w) = Some ns -> add_ok mn nonce ns) ->
  erase_w (fst (fst (worker_do mn (erase_w w) v nonce power ps))) = erase_w (fst (fst (worker_do mn w v nonce power ps))) /\
  snd (fst (worker_do mn (erase_w w) v nonce power ps)) = snd (fst (worker_do mn w v nonce power ps)) /\
  snd (worker_do mn (erase_w w) v nonce power ps) = snd (worker_do mn w v nonce power ps).
Proof.
  intros Hmn Hok. unfold worker_do.
  change (w_nonces (erase_w w)) with (@nil (Z * list Z)).
  change (w_core (erase_w w)) with (w_core w).
  change (match aget v (@nil (Z * list Z)) with Some l => l | None => [] end) with (@nil Z).
  rewrite (set_add_ok mn nonce []).
  2:{ split; [unfold zlen; simpl; intro E; apply Hmn; symmetry; exact E | reflexivity]. }
  assert (Hreal : set_add mn nonce (match aget v (w_nonces w) with Some l => l | None => [] end) =
                  ((match aget v (w_nonces w) with Some l => l | None => [] end) ++ [nonce], true)).
  { apply set_add_ok. destruct (aget v (w_nonces w)) as [ns|] eqn:E.
    - apply Hok. reflexivity.
    - split; [unfold zlen; simpl; intro E2; apply Hmn; symmetry; exact E2 | reflexivity]. }
  rewrite Hreal. simpl.
  destruct (core_do (w_core w) v power ps) as [[c1 kept] fin]. simpl. repeat split; reflexivity.
Qed.

Definition fill_ok (mn : Z) (m : mem) (fid v nonce : Z) : Prop :=
  forall w ns, aget fid (m_workers m) = Some w -> aget v (w_nonces w) = Some ns -> add_ok mn nonce ns.

Lemma fill_price_erase p m fid v nonce ps :
  p_maxnonce p <> 0 -> fill_ok (p_maxnonce p) m fid v nonce ->
  erase (fst (fill_price p (erase m) fid v nonce ps)) = erase (fst (fill_price p m fid v nonce ps)) /\
  snd (fill_price p (erase m) fid v nonce ps) = snd (fill_price p m fid v nonce ps).
Proof.
  intros Hmn Hok. unfold fill_price.
  replace (m_workers (erase m)) with (erase_ws (m_workers m)) by (destruct m; reflexivity).
  replace (m_vals (erase m)) with (m_vals m) by (destruct m; reflexivity).
  rewrite aget_erase_ws.
  set (wr := match aget fid (m_workers m) with Some w => w | None => new_worker (m_vals m) end).
  assert (Hw : match option_map erase_w (aget fid (m_workers m)) with Some w => w | None => new_worker (m_vals m) end = erase_w wr).
  { unfold wr. destruct (aget fid (m_workers m)); reflexivity. }
  rewrite Hw. clear Hw.
  assert (Hwok : forall ns, aget v (w_nonces wr) = Some ns -> add_ok (p_maxnonce p) nonce ns).
  { unfold wr. destruct (aget fid (m_workers m)) as [w|] eqn:E.
    - intros ns Hns. eapply Hok; eauto.
    - simpl. intros ns Hns. discriminate. }
  change (w_sealed (erase_w wr)) with (w_sealed wr).
  destruct (w_sealed wr).
  - simpl. rewrite set_workers_erase, !erase_set_workers, !erase_ws_aset, erase_ws_idem. split; reflexivity.
  - destruct (worker_do_erase (p_maxnonce p) wr v nonce (match aget v (m_vals m) with Some x => x | None => 0 end) ps Hmn Hwok) as [H1 [H2 H3]].
    destruct (worker_do (p_maxnonce p) (erase_w wr) v nonce _ ps) as [[w1 kept1] fin1].
    destruct (worker_do (p_maxnonce p) wr v nonce _ ps) as [[w1' kept1'] fin1'].
    simpl in H1, H2, H3. subst kept1' fin1'.
    rewrite set_workers_erase.
    destruct kept1 as [kl|].
    + destruct fin1 as [price|].
      * replace (m_rounds (set_workers m (aset fid w1 (erase_ws (m_workers m))))) with (m_rounds m) by (destruct m; reflexivity).
        replace (m_rounds (set_workers m (aset fid w1' (m_workers m)))) with (m_rounds m) by (destruct m; reflexivity).
        destruct (aget fid (m_rounds m)) as [r|].
        -- simpl. split; [|reflexivity].
           destruct m; simpl. unfold erase, set_workers, set_rounds; simpl.
           rewrite !erase_ws_aset, erase_ws_idem, H1. reflexivity.
        -- simpl. split; [|reflexivity].
           rewrite !erase_set_panic, !erase_set_workers, !erase_ws_aset, erase_ws_idem, H1. reflexivity.
      * simpl. split; [|reflexivity].
        rewrite !erase_set_workers, !erase_ws_aset, erase_ws_idem, H1. reflexivity.
    + simpl. split; [|reflexivity].
      rewrite !erase_set_workers, !erase_ws_aset, erase_ws_idem, H1. reflexivity.
Qed.

Lemma erase_eq_fields a b : erase a = erase b ->
  m_vals a = m_vals b /\ m_rounds a = m_rounds b /\ m_msgs a = m_msgs b /\ m_cvals a = m_cvals b /\
  m_vupd a = m_vupd b /\ m_panic a = m_panic b.
Proof.
  intro H. destruct a, b. unfold erase, set_workers in H. simpl in H. inversion H. subst. repeat split; reflexivity.
Qed.

Lemma check_msg_erase m fid v based ps : check_msg (erase m) fid v based ps = check_msg m fid v based ps.
Proof. destruct m; reflexivity. Qed.

Lemma deliver_erase p h s m t :
  p_maxnonce p <> 0 ->
  (forall ns', nonce_check (p_maxnonce p) (t_val t) (t_feeder t) (t_nonce t) (s_nonce s) = Some ns' ->
       fill_ok (p_maxnonce p) m (t_feeder t) (t_val t) (t_nonce t)) ->
  snd (deliver p (mkState h s (erase m)) t) = snd (deliver p (mkState h s m) t) /\
  st_store (fst (deliver p (mkState h s (erase m)) t)) = st_store (fst (deliver p (mkState h s m) t)) /\
  st_h (fst (deliver p (mkState h s (erase m)) t)) = st_h (fst (deliver p (mkState h s m) t)) /\
  erase (st_mem (fst (deliver p (mkState h s (erase m)) t))) = erase (st_mem (fst (deliver p (mkState h s m) t))).
Proof.
  intros Hmn Hok. unfold deliver. simpl st_store. simpl st_mem. simpl st_h.
  destruct (nonce_check (p_maxnonce p) (t_val t) (t_feeder t) (t_nonce t) (s_nonce s)) as [ns'|] eqn:En.
  2:{ simpl. rewrite erase_idem. repeat split; reflexivity. }
  rewrite check_msg_erase.
  destruct (check_msg m (t_feeder t) (t_val t) (t_based t) (t_prices t)); simpl.
  2:{ rewrite erase_idem. repeat split; reflexivity. }
  destruct (fill_price_erase p m (t_feeder t) (t_val t) (t_nonce t) (t_prices t) Hmn (Hok ns' eq_refl)) as [H1 H2].
  destruct (fill_price p (erase m) (t_feeder t) (t_val t) (t_nonce t) (t_prices t)) as [m1 res1].
  destruct (fill_price p m (t_feeder t) (t_val t) (t_nonce t) (t_prices t)) as [m1' res1'].
  simpl in H1, H2. subst res1'.
  destruct (erase_eq_fields _ _ H1) as [Hv [Hr [Hm [Hc [Hu Hp]]]]].
  destruct res1 as [|it|price rid it]; simpl.
  - repeat split; try reflexivity. exact H1.
  - repeat split; try reflexivity. rewrite !erase_set_msgs, H1, Hm. reflexivity.
  - rewrite Hv, Hm. repeat split; try reflexivity. rewrite !erase_set_msgs, H1. reflexivity.
Qed.

(* ---- the stored nonce rows ---------------------------------------------------------------------- *)
Lemma row_check_inv fid nonce : forall row row',
  row_check fid nonce row = Some row' ->
  row_get fid row = Some (nonce - 1) /\ row_get fid row' = Some nonce /\
  forall f, f <> fid -> row_get f row' = row_get f row.
Proof.
  induction row as [|[f0 x0] r IH]; intros row' H; simpl in H; [discriminate|].
  destruct (f0 =? fid) eqn:E.
  - destruct (x0 + 1 =? nonce) eqn:E2; [|discriminate]. inversion H; subst. apply Z.eqb_eq in E2.
    simpl. rewrite E. repeat split; try (f_equal; lia).
    intros f N. apply Z.eqb_eq in E. subst f0. destruct (fid =? f) eqn:E3; [apply Z.eqb_eq in E3; congruence | reflexivity].
  - destruct (row_check fid nonce r) as [r'|] eqn:E2; [|discriminate]. inversion H; subst.
    destruct (IH r' eq_refl) as [A [B C]]. simpl. rewrite E. repeat split; try assumption.
    intros f N. destruct (f0 =? f); [reflexivity | apply C; assumption].
Qed.

Lemma nonce_check_inv mn v fid nonce ns ns' :
  nonce_check mn v fid nonce ns = Some ns' ->
  nonce <= mn /\ nonce_row ns v fid = Some (nonce - 1) /\ nonce_row ns' v fid = Some nonce /\
  forall v' f', (v' <> v \/ f' <> fid) -> nonce_row ns' v' f' = nonce_row ns v' f'.
Proof.
  unfold nonce_check, nonce_row. intro H.
  destruct (mn <? nonce) eqn:E; [discriminate|]. apply Z.ltb_ge in E.
  destruct (aget v ns) as [row|] eqn:Er; [|discriminate].
  destruct (row_check fid nonce row) as [row'|] eqn:Ec; [|discriminate]. inversion H; subst.
  destruct (row_check_inv _ _ _ _ Ec) as [A [B C]].
  split; [assumption|]. split; [assumption|]. split.
  - rewrite aget_aset_eq. assumption.
  - intros v' f' N. destruct (Z.eq_dec v' v) as [->|Nv].
    + rewrite aget_aset_eq, Er. apply C. destruct N; congruence.
    + rewrite aget_aset_neq by assumption. reflexivity.
Qed.

Lemma row_get_row_del fid f row x : row_get f (row_del fid row) = Some x -> row_get f row = Some x.
Proof.
  unfold row_del. induction row as [|[f0 x0] r IH]; simpl; [discriminate|].
  destruct (f0 =? fid) eqn:E; simpl.
  - intro H. destruct (f0 =? f) eqn:E2.
    + apply Z.eqb_eq in E. apply Z.eqb_eq in E2. subst. exfalso.
      clear IH. induction r as [|[f1 x1] r IH]; simpl in H; [discriminate|].
      destruct (f1 =? f) eqn:E3; simpl in H; [auto|]. rewrite E3 in H. auto.
    + auto.
  - destruct (f0 =? f); [auto | exact IH].
Qed.

Definition rows_le (ns ns' : list (Z * list (Z * Z))) : Prop :=
  forall v f x', nonce_row ns' v f = Some x' -> exists x, nonce_row ns v f = Some x /\ x <= x'.

Lemma rows_le_refl ns : rows_le ns ns.
Proof. intros v f x H. exists x. split; [assumption | lia]. Qed.

Lemma rows_le_trans a b c : rows_le a b -> rows_le b c -> rows_le a c.
Proof.
  intros H1 H2 v f x Hc. destruct (H2 _ _ _ Hc) as [y [Hy Ly]]. destruct (H1 _ _ _ Hy) as [z [Hz Lz]].
  exists z. split; [assumption | lia].
Qed.

Lemma nonce_remove_step_le fid ns v0 :
  rows_le ns (match aget v0 ns with
              | Some row => match row_del fid row with [] => adel v0 ns | row' => aset v0 row' ns end
              | None => ns end).
Proof.
  intros v f x H. exists x. split; [|lia]. unfold nonce_row in *.
  destruct (aget v0 ns) as [row|] eqn:Er; [|exact H].
  destruct (Z.eq_dec v v0) as [->|N].
  - rewrite Er. destruct (row_del fid row) as [|e r'] eqn:Ed.
    + rewrite aget_adel_eq in H. discriminate.
    + rewrite aget_aset_eq in H. rewrite <- Ed in H. eapply row_get_row_del; eassumption.
  - destruct (row_del fid row); [rewrite aget_adel_neq in H by assumption | rewrite aget_aset_neq in H by assumption]; exact H.
Qed.

Lemma nonce_remove_le fid vals : forall ns, rows_le ns (nonce_remove fid vals ns).
Proof.
  unfold nonce_remove. induction vals as [|v0 r IH]; intro ns; simpl; [apply rows_le_refl|].
  eapply rows_le_trans; [apply (nonce_remove_step_le fid ns (fst v0)) | apply IH].
Qed.

Lemma nonce_check_le mn v fid nonce ns ns' : nonce_check mn v fid nonce ns = Some ns' -> rows_le ns ns'.
Proof.
  intro H. destruct (nonce_check_inv _ _ _ _ _ _ H) as [A [B [C D]]].
  intros v' f' x' Hx. destruct (Z.eq_dec v' v) as [->|Nv].
  - destruct (Z.eq_dec f' fid) as [->|Nf].
    + rewrite C in Hx. inversion Hx; subst. exists (x' - 1). split; [assumption | lia].
    + rewrite D in Hx by (right; assumption). exists x'. split; [assumption | lia].
  - rewrite D in Hx by (left; assumption). exists x'. split; [assumption | lia].
Qed.

(* add_zero only creates rows of the given feeder *)
Lemma row_get_app_other row fid f : f <> fid -> row_get f (row ++ [(fid, 0)]) = row_get f row.
Proof.
  intro N. induction row as [|[f0 x0] r IH]; simpl.
  - destruct (fid =? f) eqn:E; [apply Z.eqb_eq in E; congruence | reflexivity].
  - destruct (f0 =? f); [reflexivity | exact IH].
Qed.

Lemma nonce_add_zero_other fid vals : forall ns v f, f <> fid ->
  nonce_row (nonce_add_zero fid vals ns) v f = nonce_row ns v f.
Proof.
  unfold nonce_add_zero. induction vals as [|v0 r IH]; intros ns v f N; simpl; [reflexivity|].
  rewrite IH by assumption. unfold nonce_row.
  destruct (aget (fst v0) ns) as [row|] eqn:Er.
  - destruct (row_has fid row); [reflexivity|].
    destruct (Z.eq_dec v (fst v0)) as [->|Nv].
    + rewrite aget_aset_eq, Er. apply row_get_app_other. assumption.
    + rewrite aget_aset_neq by assumption. reflexivity.
  - destruct (Z.eq_dec v (fst v0)) as [->|Nv].
    + rewrite aget_aset_eq, Er. simpl. destruct (fid =? f) eqn:E; [apply Z.eqb_eq in E; congruence | reflexivity].
    + rewrite aget_aset_neq by assumption. reflexivity.
Qed.

(* ---- the invariant that makes the nonce sets unobservable ----------------------------------------- *)
Definition wf (m : mem) : Prop :=
  forall fid w, aget fid (m_workers m) = Some w -> aget fid (m_rounds m) <> None.

Definition bounded (l : list Z) (x : Z) : Prop := (forall n, In n l -> n <= x) /\ zlen l <= x.

Definition worker_safe (ns : list (Z * list (Z * Z))) (fid : Z) (w : worker) : Prop :=
  forall v l x, aget v (w_nonces w) = Some l -> nonce_row ns v fid = Some x -> bounded l x.

Definition nonce_safe (ns : list (Z * list (Z * Z))) (m : mem) : Prop :=
  forall fid w, aget fid (m_workers m) = Some w -> worker_safe ns fid w.

Lemma bounded_mono l x y : bounded l x -> x <= y -> bounded l y.
Proof. intros [A B] L. split; [intros n Hn; specialize (A n Hn); lia | lia]. Qed.

Lemma nonce_safe_mono ns ns' m : rows_le ns ns' -> nonce_safe ns m -> nonce_safe ns' m.
Proof.
  intros Hle Hs fid w Hw v l x' Hl Hx. destruct (Hle _ _ _ Hx) as [x [Hx0 L]].
  eapply bounded_mono; [eapply Hs; eassumption | assumption].
Qed.

Lemma zlen_app {A} (l : list A) x : zlen (l ++ [x]) = zlen l + 1.
Proof. unfold zlen. rewrite app_length. simpl. lia. Qed.

Lemma set_add_cases mn x l : fst (set_add mn x l) = l \/ fst (set_add mn x l) = l ++ [x].
Proof. unfold set_add. destruct ((zlen l =? mn) || zmem x l); simpl; auto. Qed.

Lemma worker_do_nonces mn w v nonce power ps :
  w_nonces (fst (fst (worker_do mn w v nonce power ps))) =
  aset v (fst (set_add mn nonce (match aget v (w_nonces w) with Some l => l | None => [] end))) (w_nonces w).
Proof.
  unfold worker_do. destruct (set_add mn nonce _) as [ns1 ok]. simpl.
  destruct ok; [destruct (core_do (w_core w) v power ps) as [[c1 k] f]|]; reflexivity.
Qed.

(* replacing the worker of feeder fid by one whose nonce sets are covered keeps the invariant *)
Lemma safe_put ns m m1 fid W :
  wf m -> nonce_safe ns m ->
  aget fid (m_workers m1) = Some W ->
  (forall f, f <> fid -> aget f (m_workers m1) = aget f (m_workers m)) ->
  (forall f, aget f (m_rounds m) <> None -> aget f (m_rounds m1) <> None) ->
  aget fid (m_rounds m1) <> None ->
  worker_safe ns fid W ->
  wf m1 /\ nonce_safe ns m1.
Proof.
  intros Hwf Hs HW1 Hws Hr Hrf HW. split.
  - intros f w Hw. destruct (Z.eq_dec f fid) as [->|N]; [assumption|].
    rewrite Hws in Hw by assumption. apply Hr. eapply Hwf; eassumption.
  - intros f w Hw. destruct (Z.eq_dec f fid) as [->|N].
    + rewrite HW1 in Hw. inversion Hw; subst. assumption.
    + rewrite Hws in Hw by assumption. eapply Hs; eassumption.
Qed.

Lemma aget_aset_not_none {A} k j (v : A) l : aget j l <> None -> aget j (aset k v l) <> None.
Proof.
  intro H. destruct (Z.eq_dec j k) as [->|N]; [rewrite aget_aset_eq; discriminate | rewrite aget_aset_neq by assumption; assumption].
Qed.

Lemma fill_price_safe p ns m fid v nonce ps :
  wf m -> nonce_safe ns m -> aget fid (m_rounds m) <> None ->
  nonce_row ns v fid = Some nonce -> 1 <= nonce ->
  (forall w l, aget fid (m_workers m) = Some w -> aget v (w_nonces w) = Some l -> bounded l (nonce - 1)) ->
  wf (fst (fill_price p m fid v nonce ps)) /\ nonce_safe ns (fst (fill_price p m fid v nonce ps)).
Proof.
  intros Hwf Hs Hr Hrow Hpos Hold. unfold fill_price.
  set (w0 := match aget fid (m_workers m) with Some w => w | None => new_worker (m_vals m) end).
  assert (Hw0 : worker_safe ns fid w0).
  { unfold w0. destruct (aget fid (m_workers m)) as [w|] eqn:E; [eapply Hs; eassumption|].
    intros v' l x Hl. simpl in Hl. discriminate. }
  assert (Hw0v : bounded (match aget v (w_nonces w0) with Some l => l | None => [] end) (nonce - 1)).
  { unfold w0. destruct (aget fid (m_workers m)) as [w|] eqn:E.
    - destruct (aget v (w_nonces w)) as [l|] eqn:El; [eapply Hold; eauto|].
      split; [intros n []|]. unfold zlen. simpl. lia.
    - simpl. split; [intros n []|]. unfold zlen. simpl. lia. }
  destruct (w_sealed w0).
  - simpl. apply (safe_put ns m _ fid w0); auto; destruct m; simpl; auto.
    + apply aget_aset_eq.
    + intros f N. apply aget_aset_neq. assumption.
  - pose proof (worker_do_nonces (p_maxnonce p) w0 v nonce (match aget v (m_vals m) with Some x => x | None => 0 end) ps) as Hn.
    destruct (worker_do (p_maxnonce p) w0 v nonce _ ps) as [[w1 kept] fin]. simpl in Hn.
    assert (Hw1 : worker_safe ns fid w1).
    { intros v' l x Hl Hx. rewrite Hn in Hl. destruct (Z.eq_dec v' v) as [->|N].
      - rewrite aget_aset_eq in Hl. inversion Hl; subst l. rewrite Hrow in Hx. inversion Hx; subst x.
        destruct Hw0v as [A B].
        destruct (set_add_cases (p_maxnonce p) nonce (match aget v (w_nonces w0) with Some l => l | None => [] end)) as [E|E]; rewrite E.
        + split; [intros n Hn'; specialize (A n Hn'); lia | lia].
        + split.
          * intros n Hn'. apply in_app_or in Hn'. destruct Hn' as [Hn'|[<-|[]]]; [specialize (A n Hn'); lia | lia].
          * rewrite zlen_app. lia.
      - rewrite aget_aset_neq in Hl by assumption. eapply Hw0; eassumption. }
    assert (Hsealed : worker_safe ns fid sealed_worker).
    { intros v' l x Hl. simpl in Hl. discriminate. }
    assert (Hput1 : wf (set_workers m (aset fid w1 (m_workers m))) /\ nonce_safe ns (set_workers m (aset fid w1 (m_workers m)))).
    { apply (safe_put ns m _ fid w1); auto; destruct m; simpl; auto.
      - apply aget_aset_eq.
      - intros f N. apply aget_aset_neq. assumption. }
    destruct kept as [kl|]; [|exact Hput1].
    destruct fin as [price|]; [|exact Hput1].
    replace (m_rounds (set_workers m (aset fid w1 (m_workers m)))) with (m_rounds m) by (destruct m; reflexivity).
    destruct (aget fid (m_rounds m)) as [r|] eqn:Er; [|congruence].
    simpl. apply (safe_put ns m _ fid sealed_worker); auto; destruct m; simpl in *.
    + apply aget_aset_eq.
    + intros f N. rewrite !aget_aset_neq by assumption. reflexivity.
    + intros f Hf. apply aget_aset_not_none. assumption.
    + rewrite aget_aset_eq. discriminate.
Qed.

Definition rows_nonneg (ns : list (Z * list (Z * Z))) : Prop := forall v f x, nonce_row ns v f = Some x -> 0 <= x.

Definition safe (s : store) (m : mem) : Prop := wf m /\ nonce_safe (s_nonce s) m /\ rows_nonneg (s_nonce s).

Lemma rows_nonneg_le ns ns' : rows_le ns ns' -> rows_nonneg ns -> rows_nonneg ns'.
Proof. intros Hle Hn v f x Hx. destruct (Hle _ _ _ Hx) as [y [Hy L]]. specialize (Hn _ _ _ Hy). lia. Qed.

Lemma check_msg_round m fid v based ps : check_msg m fid v based ps = true -> aget fid (m_rounds m) <> None.
Proof.
  unfold check_msg. destruct (aget v (m_vals m)); [|discriminate].
  destruct (aget fid (m_rounds m)); [discriminate|]. rewrite andb_false_r. discriminate.
Qed.

Lemma zmem_false_of_bound nonce l : (forall n, In n l -> n <= nonce - 1) -> zmem nonce l = false.
Proof.
  induction l as [|a r IH]; intro H; simpl; [reflexivity|].
  destruct (nonce =? a) eqn:E.
  - apply Z.eqb_eq in E. specialize (H a (or_introl eq_refl)). lia.
  - simpl. apply IH. intros n Hn. apply H. right. assumption.
Qed.

(* under the invariant, a message let through by the ante nonce check is never refused by the filter's nonce set *)
Lemma safe_fill_ok p s m t ns' :
  safe s m -> nonce_check (p_maxnonce p) (t_val t) (t_feeder t) (t_nonce t) (s_nonce s) = Some ns' ->
  fill_ok (p_maxnonce p) m (t_feeder t) (t_val t) (t_nonce t).
Proof.
  intros [Hwf [Hs Hn]] Hc w l Hw Hl.
  destruct (nonce_check_inv _ _ _ _ _ _ Hc) as [A [B [C D]]].
  destruct (Hs _ _ Hw _ _ _ Hl B) as [E F]. split.
  - lia.
  - apply zmem_false_of_bound. assumption.
Qed.

Lemma deliver_safe p st t :
  safe (st_store st) (st_mem st) -> safe (st_store (fst (deliver p st t))) (st_mem (fst (deliver p st t))).
Proof.
  intros Hsafe. pose proof Hsafe as [Hwf [Hs Hn]]. unfold deliver.
  destruct (nonce_check (p_maxnonce p) (t_val t) (t_feeder t) (t_nonce t) (s_nonce (st_store st))) as [ns'|] eqn:Ec; [|exact Hsafe].
  destruct (nonce_check_inv _ _ _ _ _ _ Ec) as [A [B [C D]]].
  pose proof (nonce_check_le _ _ _ _ _ _ Ec) as Hle.
  pose proof (nonce_safe_mono _ _ _ Hle Hs) as Hs'.
  pose proof (rows_nonneg_le _ _ Hle Hn) as Hn'.
  destruct (check_msg (st_mem st) (t_feeder t) (t_val t) (t_based t) (t_prices t)) eqn:Ek; simpl.
  2:{ split; [assumption|]. split; destruct (st_store st); simpl; assumption. }
  assert (Hfp : wf (fst (fill_price p (st_mem st) (t_feeder t) (t_val t) (t_nonce t) (t_prices t))) /\
                nonce_safe ns' (fst (fill_price p (st_mem st) (t_feeder t) (t_val t) (t_nonce t) (t_prices t)))).
  { apply fill_price_safe; auto.
    - eapply check_msg_round; eassumption.
    - specialize (Hn _ _ _ B). lia.
    - intros w l Hw Hl. eapply Hs; eassumption. }
  destruct (fill_price p (st_mem st) (t_feeder t) (t_val t) (t_nonce t) (t_prices t)) as [m1 res]. simpl in Hfp.
  destruct Hfp as [Hwf1 Hs1].
  destruct res as [|it|price rid it]; simpl.
  - split; [assumption|]. split; destruct (st_store st); simpl; assumption.
  - split; [destruct m1; exact Hwf1|]. split; destruct (st_store st); simpl; [destruct m1; exact Hs1 | assumption].
  - pose proof (nonce_remove_le (t_feeder t) (m_vals m1) ns') as Hle2.
    split; [destruct m1; exact Hwf1|]. split; destruct (st_store st); simpl.
    + apply (nonce_safe_mono ns'); [assumption | destruct m1; exact Hs1].
    + eapply rows_nonneg_le; eassumption.
Qed.

(* ---- EndBlock keeps the invariant ------------------------------------------------------------------ *)
Lemma seal_rounds_spec p h force : forall rs ws rs' ws' f s,
  seal_rounds p h force rs ws = (rs', ws', f, s) ->
  forall fid w, aget fid ws' = Some w -> aget fid ws = Some w /\ (aget fid rs <> None -> aget fid rs' <> None).
Proof.
  induction rs as [|[f0 r0] rest IH]; intros ws rs' ws' f s H fid w Hw; simpl in H.
  - inversion H; subst. split; [assumption | auto].
  - destruct (seal_rounds p h force rest ws) as [[[rs1 ws1] failed] sealed] eqn:E.
    specialize (IH ws rs1 ws1 failed sealed E).
    assert (Hkeep : forall rsx, aget fid ws1 = Some w -> rsx = (f0, r0) :: rs1 \/ (fid <> f0 /\ (rsx = rs1 \/ exists r1, rsx = (f0, r1) :: rs1)) ->
                    aget fid ws = Some w /\ (aget fid ((f0, r0) :: rest) <> None -> aget fid rsx <> None)).
    { intros rsx Hw1 Hx. destruct (IH fid w Hw1) as [A B]. split; [assumption|]. simpl.
      destruct Hx as [->|[N [->|[r1 ->]]]]; simpl.
      - destruct (fid =? f0); [intros _; discriminate | exact B].
      - destruct (fid =? f0) eqn:E2; [apply Z.eqb_eq in E2; contradiction | exact B].
      - destruct (fid =? f0) eqn:E2; [apply Z.eqb_eq in E2; contradiction | exact B]. }
    destruct (get_feeder (p_feeders p) f0) as [fd|].
    + destruct (r_open r0 && (((0 <? f_end fd) && (f_end fd <=? h)) || (p_maxnonce p <=? h - r_based r0) || force)).
      * inversion H; subst. apply aget_adel_some in Hw. destruct Hw as [Hw N].
        apply Hkeep; [assumption|]. right. split; [assumption|].
        destruct ((0 <? f_end fd) && (f_end fd <=? h)); [left; reflexivity | right; eexists; reflexivity].
      * destruct (aget f0 ws1) as [w0|] eqn:E0.
        -- destruct (w_sealed w0).
           ++ inversion H; subst. apply aget_adel_some in Hw. destruct Hw as [Hw N]. apply Hkeep; [assumption | left; reflexivity].
           ++ inversion H; subst. apply Hkeep; [assumption | left; reflexivity].
        -- inversion H; subst. apply Hkeep; [assumption | left; reflexivity].
    + inversion H; subst. apply Hkeep; [assumption | left; reflexivity].
Qed.

Lemma prepare_rounds_spec mn b fs : forall rs ws rs' ws' nw,
  prepare_rounds mn b fs rs ws = (rs', ws', nw) ->
  (forall fid, aget fid ws <> None -> aget fid rs <> None) ->
  (forall fid, aget fid rs <> None -> aget fid rs' <> None) /\
  (forall fid w, aget fid ws' = Some w -> aget fid ws = Some w /\ ~ In fid nw).
Proof.
  induction fs as [|f rest IH]; intros rs ws rs' ws' nw H Hwf; simpl in H.
  - inversion H; subst. split; [auto|]. intros fid w Hw. split; [assumption | intros []].
  - destruct (((0 <? f_end f) && (f_end f <=? b)) || (b <? f_start f) || (f_interval f <=? 0)); [eapply IH; eassumption|].
    set (left := (b - f_start f) mod f_interval f) in *.
    set (based := b - left) in *. set (nextid := f_startround f + (b - f_start f) / f_interval f) in *.
    (* one step: (rs1, ws1, nw1) *)
    assert (Hstep : exists rs1 ws1 nw1,
      (match aget (f_id f) rs with
       | None => if mn <=? left then (aset (f_id f) (mkRound based nextid false) rs, ws, [])
                 else (aset (f_id f) (mkRound based nextid true) rs, ws, if left =? 0 then [f_id f] else [])
       | Some r => if left =? 0 then (aset (f_id f) (mkRound based nextid true) rs, adel (f_id f) ws, [f_id f])
                   else if r_open r && (mn <=? left) then (aset (f_id f) (mkRound (r_based r) (r_next r) false) rs, ws, [])
                   else (rs, ws, [])
       end) = (rs1, ws1, nw1) /\
      (forall fid, aget fid rs <> None -> aget fid rs1 <> None) /\
      (forall fid w, aget fid ws1 = Some w -> aget fid ws = Some w /\ ~ In fid nw1)).
    { destruct (aget (f_id f) rs) as [r|] eqn:Er.
      - destruct (left =? 0).
        + do 3 eexists. split; [reflexivity|]. split; [intros fid Hf; apply aget_aset_not_none; assumption|].
          intros fid w Hw. apply aget_adel_some in Hw. destruct Hw as [Hw N]. split; [assumption|]. intros [E|[]]. congruence.
        + destruct (r_open r && (mn <=? left)).
          * do 3 eexists. split; [reflexivity|]. split; [intros fid Hf; apply aget_aset_not_none; assumption|].
            intros fid w Hw. split; [assumption | intros []].
          * do 3 eexists. split; [reflexivity|]. split; [auto|]. intros fid w Hw. split; [assumption | intros []].
      - assert (Hno : forall fid w, aget fid ws = Some w -> fid <> f_id f).
        { intros fid w Hw E. subst fid. apply (Hwf (f_id f)); [rewrite Hw; discriminate | assumption]. }
        destruct (mn <=? left).
        + do 3 eexists. split; [reflexivity|]. split; [intros fid Hf; apply aget_aset_not_none; assumption|].
          intros fid w Hw. split; [assumption | intros []].
        + do 3 eexists. split; [reflexivity|]. split; [intros fid Hf; apply aget_aset_not_none; assumption|].
          intros fid w Hw. split; [assumption|]. destruct (left =? 0); [|intros []]. intros [E|[]]. eapply Hno; eauto. }
    destruct Hstep as [rs1 [ws1 [nw1 [E1 [Hr1 Hw1]]]]]. rewrite E1 in H.
    destruct (prepare_rounds mn b rest rs1 ws1) as [[rs2 ws2] nw2] eqn:E2. inversion H; subst.
    assert (Hwf1 : forall fid, aget fid ws1 <> None -> aget fid rs1 <> None).
    { intros fid Hf. destruct (aget fid ws1) as [w|] eqn:Ew; [|congruence].
      destruct (Hw1 _ _ Ew) as [A _]. apply Hr1. apply Hwf. rewrite A. discriminate. }
    destruct (IH rs1 ws1 rs' ws' nw2 E2 Hwf1) as [Hr2 Hw2]. split.
    + intros fid Hf. apply Hr2. apply Hr1. assumption.
    + intros fid w Hw. destruct (Hw2 _ _ Hw) as [A B]. destruct (Hw1 _ _ A) as [C D]. split; [assumption|].
      intro Hin. apply in_app_or in Hin. tauto.
Qed.

Lemma fold_nonce_remove_le (vf : list (Z * list (Z * Z)) -> list (Z * Z)) sealed : forall ns,
  rows_le ns (fold_left (fun acc fid => nonce_remove fid (vf acc) acc) sealed ns).
Proof.
  induction sealed as [|f r IH]; intro ns; simpl; [apply rows_le_refl|].
  eapply rows_le_trans; [apply nonce_remove_le | apply IH].
Qed.

Lemma fold_add_zero_other vals nw : forall ns v f, ~ In f nw ->
  nonce_row (fold_left (fun acc fid => nonce_add_zero fid vals acc) nw ns) v f = nonce_row ns v f.
Proof.
  induction nw as [|f0 r IH]; intros ns v f N; simpl; [reflexivity|].
  rewrite IH by (intro; apply N; right; assumption).
  apply nonce_add_zero_other. intro E. apply N. left. congruence.
Qed.

Lemma row_get_app_val row fid f x : row_get f (row ++ [(fid, 0)]) = Some x -> row_get f row = Some x \/ x = 0.
Proof.
  induction row as [|[f0 x0] r IH]; simpl.
  - destruct (fid =? f); intro H; inversion H; auto.
  - destruct (f0 =? f); [auto | exact IH].
Qed.

Lemma nonce_add_zero_val fid vals : forall ns v f x,
  nonce_row (nonce_add_zero fid vals ns) v f = Some x -> nonce_row ns v f = Some x \/ x = 0.
Proof.
  unfold nonce_add_zero. induction vals as [|v0 r IH]; intros ns v f x H; simpl in H; [auto|].
  destruct (IH _ _ _ _ H) as [H1|H1]; [|auto]. unfold nonce_row in *.
  destruct (aget (fst v0) ns) as [row|] eqn:Er.
  - destruct (row_has fid row); [auto|].
    destruct (Z.eq_dec v (fst v0)) as [->|Nv].
    + rewrite aget_aset_eq in H1. rewrite Er. apply row_get_app_val in H1. exact H1.
    + rewrite aget_aset_neq in H1 by assumption. auto.
  - destruct (Z.eq_dec v (fst v0)) as [->|Nv].
    + rewrite aget_aset_eq in H1. simpl in H1. destruct (fid =? f); inversion H1; auto.
    + rewrite aget_aset_neq in H1 by assumption. auto.
Qed.

Lemma fold_add_zero_nonneg vals nw : forall ns, rows_nonneg ns ->
  rows_nonneg (fold_left (fun acc fid => nonce_add_zero fid vals acc) nw ns).
Proof.
  induction nw as [|f0 r IH]; intros ns Hn; simpl; [assumption|].
  apply IH. intros v f x H. destruct (nonce_add_zero_val _ _ _ _ _ _ H) as [H1|H1]; [eapply Hn; eassumption | lia].
Qed.

Lemma seal_safe p h force ns m :
  wf m -> nonce_safe ns m ->
  wf (fst (fst (seal p h force m))) /\ nonce_safe ns (fst (fst (seal p h force m))).
Proof.
  intros Hwf Hs. unfold seal.
  destruct (seal_rounds p h force (m_rounds m) (m_workers m)) as [[[rs2 ws2] failed] sealed] eqn:E.
  pose proof (seal_rounds_spec _ _ _ _ _ _ _ _ _ E) as Hseal. simpl.
  split.
  - intros fid w Hw. destruct m; simpl in *. destruct (Hseal _ _ Hw) as [A B]. apply B. eapply Hwf. eassumption.
  - intros fid w Hw. destruct m; simpl in *. destruct (Hseal _ _ Hw) as [A B]. eapply Hs. eassumption.
Qed.

Lemma prepare_safe p b ns m :
  wf m -> nonce_safe ns m ->
  wf (fst (prepare p b m)) /\ nonce_safe ns (fst (prepare p b m)) /\
  (forall fid w, aget fid (m_workers (fst (prepare p b m))) = Some w -> ~ In fid (snd (prepare p b m))).
Proof.
  intros Hwf Hs. unfold prepare. destruct (b <? 1); simpl.
  - split; [assumption|]. split; [assumption|]. intros fid w _ [].
  - destruct (prepare_rounds (p_maxnonce p) b (p_feeders p) (m_rounds m) (m_workers m)) as [[rs4 ws4] nw] eqn:E.
    assert (Hwf0 : forall fid, aget fid (m_workers m) <> None -> aget fid (m_rounds m) <> None).
    { intros fid Hf. destruct (aget fid (m_workers m)) as [w|] eqn:Ew; [|congruence]. eapply Hwf. eassumption. }
    destruct (prepare_rounds_spec _ _ _ _ _ _ _ _ E Hwf0) as [Hr4 Hw4]. simpl.
    split; [|split].
    + intros fid w Hw. destruct m; simpl in *. destruct (Hw4 _ _ Hw) as [A B]. apply Hr4. eapply Hwf. eassumption.
    + intros fid w Hw. destruct m; simpl in *. destruct (Hw4 _ _ Hw) as [A B]. eapply Hs. eassumption.
    + intros fid w Hw. destruct m; simpl in *. destruct (Hw4 _ _ Hw) as [A B]. assumption.
Qed.

Lemma end_block_safe p st vu :
  safe (st_store st) (st_mem st) -> safe (st_store (end_block p st vu)) (st_mem (end_block p st vu)).
Proof.
  intros [Hwf [Hs Hn]]. unfold end_block.
  set (m1 := match vu with
             | Some vs => mkMem vs (m_rounds (st_mem st)) (m_workers (st_mem st)) (m_msgs (st_mem st)) vs
                            (m_vupd (st_mem st) || negb (list_eqb (fun a b => (fst a =? fst b) && (snd a =? snd b)) vs (m_cvals (st_mem st)))) (m_panic (st_mem st))
             | None => st_mem st end).
  set (force := match vu with Some _ => true | None => false end).
  set (s0 := match vu with Some vs => mkStore (s_next (st_store st)) (s_nonce (st_store st)) (s_msgs (st_store st)) (s_vub (st_store st)) vs | None => st_store st end).
  replace (match vu with
           | Some vs => (mkMem vs (m_rounds (st_mem st)) (m_workers (st_mem st)) (m_msgs (st_mem st)) vs
                          (m_vupd (st_mem st) || negb (list_eqb (fun a b => (fst a =? fst b) && (snd a =? snd b)) vs (m_cvals (st_mem st)))) (m_panic (st_mem st)),
                        true, mkStore (s_next (st_store st)) (s_nonce (st_store st)) (s_msgs (st_store st)) (s_vub (st_store st)) vs)
           | None => (st_mem st, false, st_store st) end) with (m1, force, s0) by (unfold m1, force, s0; destruct vu; reflexivity).
  assert (Hwf1 : wf m1) by (unfold m1; destruct vu; [intros fid w Hw; simpl in *; eapply Hwf; eassumption | assumption]).
  assert (Hs1 : nonce_safe (s_nonce s0) m1).
  { unfold m1, s0; destruct vu; [intros fid w Hw; simpl in *; eapply Hs; eassumption | assumption]. }
  assert (Hn0 : rows_nonneg (s_nonce s0)) by (unfold s0; destruct vu; assumption).
  destruct (seal_safe p (st_h st) force (s_nonce s0) m1 Hwf1 Hs1) as [Hwf2 Hs2].
  destruct (seal p (st_h st) force m1) as [[m2 failed] sealed]. simpl in Hwf2, Hs2.
  set (ns1 := fold_left (fun acc fid => nonce_remove fid (map (fun e => (fst e, 0)) acc) acc) sealed (s_nonce s0)).
  pose proof (fold_nonce_remove_le (fun acc => map (fun e : Z * list (Z * Z) => (fst e, 0)) acc) sealed (s_nonce s0)) as Hle. fold ns1 in Hle.
  set (m3 := mkMem (m_vals m2) (m_rounds m2) (m_workers m2) [] (m_cvals m2) false (m_panic m2)).
  assert (Hwf3 : wf m3) by (intros fid w Hw; simpl in *; eapply Hwf2; eassumption).
  assert (Hs3 : nonce_safe ns1 m3).
  { apply (nonce_safe_mono (s_nonce s0)); [assumption|]. intros fid w Hw; simpl in *; eapply Hs2; eassumption. }
  destruct (prepare_safe p (st_h st) ns1 m3 Hwf3 Hs3) as [Hwf4 [Hs4 Hnw]].
  destruct (prepare p (st_h st) m3) as [m4 nw]. simpl in Hwf4, Hs4, Hnw. simpl.
  split; [assumption|]. split.
  - intros fid w Hw v l x Hl Hx. simpl s_nonce in Hx. rewrite fold_add_zero_other in Hx by (eapply Hnw; eassumption).
    eapply Hs4; eassumption.
  - simpl s_nonce. apply fold_add_zero_nonneg. eapply rows_nonneg_le; eassumption.
Qed.

(* ---- lockstep: equal stores + memories equal up to nonce sets + invariant => equal behaviour forever ---- *)
Definition twin_rel (a b : state) : Prop :=
  st_h a = st_h b /\ st_store a = st_store b /\ erase (st_mem a) = erase (st_mem b) /\
  safe (st_store a) (st_mem a) /\ safe (st_store b) (st_mem b).

Definition plain (o : op) : bool := match o with ORestart => false | _ => true end.

Lemma deliver_twin p a b t :
  p_maxnonce p <> 0 -> twin_rel a b ->
  snd (deliver p a t) = snd (deliver p b t) /\ twin_rel (fst (deliver p a t)) (fst (deliver p b t)).
Proof.
  intros Hmn [Hh [Hst [He [Sa Sb]]]].
  pose proof (deliver_safe p a t Sa) as Sa'. pose proof (deliver_safe p b t Sb) as Sb'.
  destruct a as [h s ma]. destruct b as [h' s' mb]. simpl in Hh, Hst, He. subst h' s'. simpl in Sa, Sb.
  destruct (deliver_erase p h s ma t Hmn (fun ns' H => safe_fill_ok p s ma t ns' Sa H)) as [A1 [A2 [A3 A4]]].
  destruct (deliver_erase p h s mb t Hmn (fun ns' H => safe_fill_ok p s mb t ns' Sb H)) as [B1 [B2 [B3 B4]]].
  rewrite He in A1, A2, A3, A4.
  split; [congruence|]. split; [congruence|]. split; [congruence|]. split; [congruence|]. split; assumption.
Qed.

Lemma end_block_twin p a b vu : twin_rel a b -> twin_rel (end_block p a vu) (end_block p b vu).
Proof.
  intros [Hh [Hst [He [Sa Sb]]]].
  pose proof (end_block_safe p a vu Sa) as Sa'. pose proof (end_block_safe p b vu Sb) as Sb'.
  destruct a as [h s ma]. destruct b as [h' s' mb]. simpl in Hh, Hst, He. subst h' s'.
  pose proof (end_block_erase p h s ma vu) as A. pose proof (end_block_erase p h s mb vu) as B.
  rewrite He in A. rewrite A in B.
  pose proof (f_equal st_h B) as B1. pose proof (f_equal st_store B) as B2. pose proof (f_equal st_mem B) as B3.
  simpl in B1, B2, B3.
  split; [exact B1|]. split; [exact B2|]. split; [exact B3|]. split; assumption.
Qed.

Lemma restart_eq p a b : st_h a = st_h b -> st_store a = st_store b -> restart p a = restart p b.
Proof. intros H1 H2. unfold restart. rewrite H1, H2. reflexivity. Qed.

Definition synced (p : params) (st : state) : Prop := twin_rel st (restart p st).

(* b runs the history with its restarts, a runs the same history never stopping *)
Lemma run_twin p : forall ops a b c,
  p_maxnonce p <> 0 -> twin_rel a b ->
  (forall pre post, ops = pre ++ ORestart :: post -> synced p (fst (fold_left (step p) (filter plain pre) (a, c)))) ->
  snd (fold_left (step p) ops (b, c)) = snd (fold_left (step p) (filter plain ops) (a, c)) /\
  twin_rel (fst (fold_left (step p) (filter plain ops) (a, c))) (fst (fold_left (step p) ops (b, c))).
Proof.
  induction ops as [|o ops IH]; intros a b c Hmn Hrel Hsync; simpl.
  - split; [reflexivity | assumption].
  - destruct o as [t|vu|]; simpl.
    + destruct (deliver_twin p a b t Hmn Hrel) as [Hc Hr].
      destruct (deliver p a t) as [a' ca] eqn:Ea. destruct (deliver p b t) as [b' cb] eqn:Eb. simpl in Hc, Hr. subst cb.
      apply (IH a' b' (c ++ [ca]) Hmn Hr).
      intros pre post E. specialize (Hsync (OTx t :: pre) post). simpl in Hsync. rewrite Ea in Hsync. apply Hsync. rewrite E. reflexivity.
    + apply (IH _ _ c Hmn (end_block_twin p a b vu Hrel)).
      intros pre post E. specialize (Hsync (OEnd vu :: pre) post). simpl in Hsync. apply Hsync. rewrite E. reflexivity.
    + assert (Hr : twin_rel a (restart p b)).
      { specialize (Hsync [] ops eq_refl). simpl in Hsync. unfold synced in Hsync.
        destruct Hrel as [Hh [Hst _]]. rewrite <- (restart_eq p a b Hh Hst). exact Hsync. }
      apply (IH a (restart p b) c Hmn Hr).
      intros pre post E. specialize (Hsync (ORestart :: pre) post). simpl in Hsync. apply Hsync. rewrite E. reflexivity.
Qed.

Lemma twin_rel_refl st : safe (st_store st) (st_mem st) -> twin_rel st st.
Proof. intro H. split; [reflexivity|]. split; [reflexivity|]. split; [reflexivity|]. split; exact H. Qed.

Lemma init_safe vals next0 : safe (st_store (init_state vals next0)) (st_mem (init_state vals next0)).
Proof.
  split; [|split].
  - intros fid w H. simpl in H. discriminate.
  - intros fid w H. simpl in H. discriminate.
  - intros v f x H. simpl in H. discriminate.
Qed.

Lemma restarts_at_synced p init ops :
  p_maxnonce p <> 0 -> safe (st_store init) (st_mem init) ->
  (forall pre post, ops = pre ++ ORestart :: post -> synced p (fst (run p init (filter plain pre)))) ->
  observe (run p init ops) = observe (run p init (filter plain ops)).
Proof.
  intros Hmn Hs Hsync. unfold run, observe.
  destruct (run_twin p ops init init [] Hmn (twin_rel_refl init Hs) Hsync) as [Hc [_ [Hst _]]].
  rewrite Hc, Hst. reflexivity.
Qed.

(* ---- soundness of the boolean restart-point check -------------------------------------------------- *)
Ltac band H := repeat (apply andb_prop in H; let H' := fresh H in destruct H as [H H']).

Lemma zz_eqb_eq a b : zz_eqb a b = true -> a = b.
Proof. destruct a, b. unfold zz_eqb. simpl. intro H. band H. apply Z.eqb_eq in H, H0. congruence. Qed.
Lemma oz_eqb_eq a b : oz_eqb a b = true -> a = b.
Proof. destruct a, b; simpl; intro H; try discriminate; [apply Z.eqb_eq in H; congruence | reflexivity]. Qed.
Lemma zl_eqb_eq a b : zl_eqb a b = true -> a = b.
Proof. apply list_eqb_eq. intros x y H. apply Z.eqb_eq. exact H. Qed.
Lemma zzl_eqb_eq a b : zzl_eqb a b = true -> a = b.
Proof. apply list_eqb_eq. exact zz_eqb_eq. Qed.
Lemma zl_assoc_eqb_eq a b : zl_assoc_eqb a b = true -> a = b.
Proof.
  apply list_eqb_eq. intros [k l] [k' l'] H. simpl in H. band H. apply Z.eqb_eq in H. apply zl_eqb_eq in H0. congruence.
Qed.
Lemma cr_eqb_eq a b : cr_eqb a b = true -> a = b.
Proof.
  destruct a, b. unfold cr_eqb. simpl. intro H. band H.
  apply Z.eqb_eq in H. apply zzl_eqb_eq in H1. apply oz_eqb_eq in H0. congruence.
Qed.
Lemma rep_eqb_eq a b : rep_eqb a b = true -> a = b.
Proof.
  destruct a, b. unfold rep_eqb. simpl. intro H. band H.
  apply Z.eqb_eq in H, H1. apply oz_eqb_eq in H0. congruence.
Qed.
Lemma core_eqb_eq a b : core_eqb a b = true -> a = b.
Proof.
  destruct a, b. unfold core_eqb. simpl. intro H. band H.
  apply Bool.eqb_prop in H. apply zl_assoc_eqb_eq in H6. apply (list_eqb_eq _ cr_eqb_eq) in H5.
  apply (list_eqb_eq _ rep_eqb_eq) in H4. apply Z.eqb_eq in H3, H1, H0. apply oz_eqb_eq in H2. congruence.
Qed.
Lemma worker_eqb_eq a b : worker_eqb a b = true -> a = b.
Proof.
  destruct a, b. unfold worker_eqb. simpl. intro H. band H. apply zl_assoc_eqb_eq in H. apply core_eqb_eq in H0. congruence.
Qed.
Lemma round_eqb_eq a b : round_eqb a b = true -> a = b.
Proof.
  destruct a, b. unfold round_eqb. simpl. intro H. band H. apply Z.eqb_eq in H, H1. apply Bool.eqb_prop in H0. congruence.
Qed.
Lemma item_eqb_eq a b : item_eqb a b = true -> a = b.
Proof.
  destruct a, b. unfold item_eqb. simpl. intro H. band H. apply Z.eqb_eq in H, H1. apply zzl_eqb_eq in H0. congruence.
Qed.
Lemma mem_eqb_eq a b : mem_eqb a b = true -> a = b.
Proof.
  destruct a, b. unfold mem_eqb. simpl. intro H. band H.
  apply zzl_eqb_eq in H. apply zzl_eqb_eq in H2. apply Bool.eqb_prop in H1, H0.
  apply (list_eqb_eq _ item_eqb_eq) in H3.
  assert (E1 : m_rounds = m_rounds0).
  { revert H5. apply list_eqb_eq. intros [k r] [k' r'] E. simpl in E. band E. apply Z.eqb_eq in E. apply round_eqb_eq in E0. congruence. }
  assert (E2 : m_workers = m_workers0).
  { revert H4. apply list_eqb_eq. intros [k r] [k' r'] E. simpl in E. band E. apply Z.eqb_eq in E. apply worker_eqb_eq in E0. congruence. }
  congruence.
Qed.

Lemma aget_In {A} k (l : list (Z * A)) v : aget k l = Some v -> In (k, v) l.
Proof.
  induction l as [|[k' v'] r IH]; simpl; [discriminate|].
  destruct (k =? k') eqn:E; [apply Z.eqb_eq in E; intro H; inversion H; subst; left; reflexivity | intro H; right; apply IH; exact H].
Qed.
Lemma row_get_In f row x : row_get f row = Some x -> In (f, x) row.
Proof.
  induction row as [|[f' x'] r IH]; simpl; [discriminate|].
  destruct (f' =? f) eqn:E; [apply Z.eqb_eq in E; intro H; inversion H; subst; left; reflexivity | intro H; right; apply IH; exact H].
Qed.

Lemma rows_nonneg_b_sound ns : rows_nonneg_b ns = true -> rows_nonneg ns.
Proof.
  unfold rows_nonneg_b, rows_nonneg, nonce_row. intros H v f x Hx.
  destruct (aget v ns) as [row|] eqn:E; [|discriminate].
  apply aget_In in E. apply row_get_In in Hx.
  rewrite forallb_forall in H. specialize (H _ E). simpl in H. rewrite forallb_forall in H. specialize (H _ Hx). simpl in H.
  apply Z.leb_le. exact H.
Qed.

Lemma safe_b_sound s m : safe_b s m = true -> safe s m.
Proof.
  unfold safe_b. intro H. apply andb_prop in H. destruct H as [H1 H2].
  unfold nonce_safe_b in H1. rewrite forallb_forall in H1.
  split; [|split].
  - intros fid w Hw. apply aget_In in Hw. specialize (H1 _ Hw). simpl in H1. apply andb_prop in H1. destruct H1 as [A _].
    destruct (aget fid (m_rounds m)); [discriminate | discriminate].
  - intros fid w Hw v l x Hl Hx. apply aget_In in Hw. specialize (H1 _ Hw). simpl in H1. apply andb_prop in H1. destruct H1 as [_ B].
    rewrite forallb_forall in B. apply aget_In in Hl. specialize (B _ Hl). simpl in B. rewrite Hx in B.
    apply andb_prop in B. destruct B as [B1 B2]. split.
    + intros n Hn. rewrite forallb_forall in B1. specialize (B1 _ Hn). apply Z.leb_le. exact B1.
    + apply Z.leb_le. exact B2.
  - apply rows_nonneg_b_sound. exact H2.
Qed.

Lemma synced_b_sound p st : synced_b p st = true -> synced p st.
Proof.
  unfold synced_b, synced, twin_rel, restart. intro H.
  apply andb_prop in H. destruct H as [H H2]. apply andb_prop in H. destruct H as [H H1]. simpl.
  split; [reflexivity|]. split; [reflexivity|]. split; [apply mem_eqb_eq; exact H|].
  split; apply safe_b_sound; assumption.
Qed.

Lemma run_safe p : forall ops st c, forallb plain ops = true ->
  safe (st_store st) (st_mem st) ->
  safe (st_store (fst (fold_left (step p) ops (st, c)))) (st_mem (fst (fold_left (step p) ops (st, c)))).
Proof.
  induction ops as [|o ops IH]; intros st c Hp Hs; simpl; [assumption|].
  simpl in Hp. apply andb_prop in Hp. destruct Hp as [Ho Hp].
  destruct o as [t|vu|]; simpl in *; [| |discriminate].
  - pose proof (deliver_safe p st t Hs) as Hs'. destruct (deliver p st t) as [st' cc]. simpl in Hs'. apply IH; assumption.
  - apply IH; [assumption | apply end_block_safe; assumption].
Qed.

Lemma filter_plain_id ops : forallb plain ops = true -> filter plain ops = ops.
Proof.
  induction ops as [|o r IH]; simpl; [reflexivity|]. intro H. apply andb_prop in H. destruct H as [H1 H2].
  rewrite H1, IH by assumption. reflexivity.
Qed.

Lemma filter_plain_app a b : filter plain (a ++ ORestart :: b) = filter plain a ++ filter plain b.
Proof. rewrite filter_app. reflexivity. Qed.

Lemma single_restart p init ops1 ops2 :
  p_maxnonce p <> 0 -> safe (st_store init) (st_mem init) ->
  forallb plain ops1 = true -> forallb plain ops2 = true ->
  synced p (fst (run p init ops1)) ->
  observe (run p init (ops1 ++ ORestart :: ops2)) = observe (run p init (ops1 ++ ops2)).
Proof.
  intros Hmn Hs H1 H2 Hsync.
  rewrite (restarts_at_synced p init (ops1 ++ ORestart :: ops2) Hmn Hs).
  - rewrite filter_plain_app, !filter_plain_id by assumption. reflexivity.
  - intros pre post E.
    assert (pre = ops1).
    { clear - E H1 H2. revert pre E. induction ops1 as [|o r IH]; intros pre E.
      - destruct pre as [|o' pre']; [reflexivity|]. simpl in E. inversion E; subst.
        exfalso. clear - H2. induction pre' as [|x y IHp]; simpl in H2; [discriminate|].
        apply andb_prop in H2. destruct H2. auto.
      - simpl in H1. apply andb_prop in H1. destruct H1 as [Ho Hr].
        destruct pre as [|o' pre']; simpl in E; inversion E; subst; [discriminate|].
        f_equal. apply IH; assumption. }
    subst pre. rewrite filter_plain_id by assumption. exact Hsync.
Qed.

(* ---- replaying the persisted (filtered) form of a message ------------------------------------------------- *)
Lemma add_psource_idem : forall ps s s' kept, add_psource s ps = (s', kept) -> add_psource s kept = (s', kept).
Proof.
  induction ps as [|[d pr] r IH]; intros s s' kept H; simpl in H.
  - inversion H; subst. reflexivity.
  - destruct (set_add max_det_id d s) as [s1 ok] eqn:Ea. destruct (add_psource s1 r) as [s2 k2] eqn:Er.
    inversion H; subst. destruct ok.
    + simpl. rewrite Ea, (IH _ _ _ Er). reflexivity.
    + assert (s1 = s).
      { unfold set_add in Ea. destruct ((zlen s =? max_det_id) || zmem d s); inversion Ea; reflexivity. }
      subst s1. apply IH. exact Er.
Qed.

Lemma core_do_replay c v power ps c' kept fin :
  core_do c v power ps = (c', Some kept, fin) -> core_do c v power kept = (c', Some kept, fin).
Proof.
  unfold core_do. destruct (add_psource _ ps) as [sn1 k1] eqn:E. destruct k1 as [|k0 kr]; [discriminate|].
  intro H. assert (kept = k0 :: kr).
  { revert H. match goal with |- context [let '(cs, conf) := ?X in _] => destruct X as [cs conf] end. intro H. inversion H; reflexivity. }
  subst kept. rewrite (add_psource_idem _ _ _ _ E). exact H.
Qed.

Lemma worker_do_replay mn w v nonce power ps w1 kept fin :
  mn <> 0 -> aget v (w_nonces w) = None ->
  worker_do mn w v nonce power ps = (w1, Some kept, fin) ->
  forall rn, exists w2, worker_do mn w v rn power kept = (w2, Some kept, fin) /\ w_core w2 = w_core w1.
Proof.
  intros Hmn Hn H rn. revert H. unfold worker_do. rewrite Hn.
  assert (Hadd : forall x, set_add mn x [] = ([x], true)).
  { intro x. apply (set_add_ok mn x []). split; [unfold zlen; simpl; congruence | reflexivity]. }
  rewrite !Hadd. destruct (core_do (w_core w) v power ps) as [[c1 k1] f1] eqn:E. intro H. inversion H; subst.
  rewrite (core_do_replay _ _ _ _ _ _ _ E). eexists. split; reflexivity.
Qed.

(* ---- a whole round at worker level: one counted message per validator, nothing final ---------------------- *)
Definition wmsg := (Z * Z * Z * list (Z * Z))%type.            (* validator, nonce, power, prices *)
Definition witem := (Z * Z * list (Z * Z))%type.               (* validator, power, persisted (filtered) prices *)

(* the live worker: every message must be counted and none may finalize; returns the worker and the persisted items *)
Fixpoint live_round (mn : Z) (w : worker) (msgs : list wmsg) : option (worker * list witem) :=
  match msgs with
  | [] => Some (w, [])
  | (v, nonce, power, ps) :: r =>
      match worker_do mn w v nonce power ps with
      | (w1, Some kept, None) =>
          match live_round mn w1 r with
          | Some (w2, its) => Some (w2, (v, power, kept) :: its)
          | None => None
          end
      | _ => None
      end
  end.

(* the replay gives each item some nonce of its own: [rn] maps the position of the item to that nonce *)
Fixpoint replay_round (mn : Z) (rn : nat -> Z) (k : nat) (w : worker) (its : list witem) : worker :=
  match its with
  | [] => w
  | (v, power, kept) :: r => replay_round mn rn (S k) (fst (fst (worker_do mn w v (rn k) power kept))) r
  end.

Lemma worker_do_core_congr mn w w' v n n' power ps :
  mn <> 0 -> w_core w = w_core w' -> aget v (w_nonces w) = None -> aget v (w_nonces w') = None ->
  w_core (fst (fst (worker_do mn w v n power ps))) = w_core (fst (fst (worker_do mn w' v n' power ps))) /\
  snd (fst (worker_do mn w v n power ps)) = snd (fst (worker_do mn w' v n' power ps)) /\
  snd (worker_do mn w v n power ps) = snd (worker_do mn w' v n' power ps).
Proof.
  intros Hmn Hc H1 H2. unfold worker_do. rewrite H1, H2, Hc.
  assert (Hadd : forall x, set_add mn x [] = ([x], true)).
  { intro x. apply (set_add_ok mn x []). split; [unfold zlen; simpl; congruence | reflexivity]. }
  rewrite !Hadd. destruct (core_do (w_core w') v power ps) as [[c1 k1] f1]. simpl. repeat split; reflexivity.
Qed.

Lemma worker_do_other_nonces mn w v n power ps u :
  u <> v -> aget u (w_nonces (fst (fst (worker_do mn w v n power ps)))) = aget u (w_nonces w).
Proof. intro N. rewrite worker_do_nonces. apply aget_aset_neq. exact N. Qed.

Lemma replay_round_faithful mn rn : mn <> 0 -> forall msgs k w w' w2 its,
  NoDup (map (fun m : wmsg => fst (fst (fst m))) msgs) ->
  (forall m, In m msgs -> aget (fst (fst (fst m))) (w_nonces w) = None /\ aget (fst (fst (fst m))) (w_nonces w') = None) ->
  w_core w' = w_core w ->
  live_round mn w msgs = Some (w2, its) ->
  w_core (replay_round mn rn k w' its) = w_core w2.
Proof.
  intros Hmn. induction msgs as [|[[[v nonce] power] ps] r IH]; intros k w w' w2 its ND Hnone Hc H; simpl in H.
  - inversion H; subst. simpl. exact Hc.
  - destruct (worker_do mn w v nonce power ps) as [[w1 k1] f1] eqn:E.
    destruct k1 as [kept|]; [|discriminate]. destruct f1; [discriminate|].
    destruct (live_round mn w1 r) as [[w3 its3]|] eqn:El; [|discriminate]. inversion H; subst. simpl.
    inversion ND as [|? ? Hnin ND']; subst.
    destruct (Hnone _ (or_introl eq_refl)) as [Hn1 Hn2]. simpl in Hn1, Hn2.
    destruct (worker_do_replay mn w v nonce power ps w1 kept None Hmn Hn1 E (rn k)) as [wr [Er Ecr]].
    destruct (worker_do_core_congr mn w' w v (rn k) (rn k) power kept Hmn Hc Hn2 Hn1) as [C1 [C2 C3]].
    rewrite Er in C1, C2, C3. simpl in C1, C2, C3.
    apply (IH (S k) w1 (fst (fst (worker_do mn w' v (rn k) power kept))) w2 its3 ND').
    + intros m Hm. assert (Nv : fst (fst (fst m)) <> v).
      { intro Ev. apply Hnin. rewrite <- Ev. apply (in_map (fun m : wmsg => fst (fst (fst m)))). exact Hm. }
      destruct (Hnone _ (or_intror Hm)) as [A B]. split.
      * replace w1 with (fst (fst (worker_do mn w v nonce power ps))) by (rewrite E; reflexivity).
        rewrite worker_do_other_nonces by exact Nv. exact A.
      * rewrite worker_do_other_nonces by exact Nv. exact B.
    + rewrite C1. exact Ecr.
    + exact El.
Qed.

(* ---- a whole round at worker level, repeated validators: why distinct replay nonces repair the replay -------- *)
Definition nl (w : worker) (v : Z) : list Z := match aget v (w_nonces w) with Some l => l | None => [] end.

Lemma worker_do_ok_inv mn w v n power ps w1 kept fin :
  worker_do mn w v n power ps = (w1, Some kept, fin) ->
  set_add mn n (nl w v) = (nl w v ++ [n], true) /\ core_do (w_core w) v power ps = (w_core w1, Some kept, fin) /\
  w_nonces w1 = aset v (nl w v ++ [n]) (w_nonces w).
Proof.
  unfold worker_do, nl. destruct (set_add mn n _) as [ns1 ok] eqn:E. destruct ok.
  - destruct (core_do (w_core w) v power ps) as [[c1 k1] f1] eqn:Ec. intro H. inversion H; subst. simpl.
    assert (ns1 = match aget v (w_nonces w) with Some l => l | None => [] end ++ [n]).
    { unfold set_add in E. destruct ((zlen _ =? mn) || zmem n _); inversion E; reflexivity. }
    subst ns1. repeat split; reflexivity.
  - intro H. inversion H.
Qed.

Lemma worker_do_ok_intro mn w v n power ps c1 kept fin :
  add_ok mn n (nl w v) -> core_do (w_core w) v power ps = (c1, kept, fin) ->
  worker_do mn w v n power ps = (mkW (aset v (nl w v ++ [n]) (w_nonces w)) c1, kept, fin).
Proof.
  intros Hok Hc. unfold worker_do. fold (nl w v). rewrite (set_add_ok _ _ _ Hok), Hc. reflexivity.
Qed.

Lemma nl_aset_eq w v l c : nl (mkW (aset v l (w_nonces w)) c) v = l.
Proof. unfold nl. simpl. rewrite aget_aset_eq. reflexivity. Qed.
Lemma nl_aset_neq w v u l c : u <> v -> nl (mkW (aset v l (w_nonces w)) c) u = nl w u.
Proof. intro N. unfold nl. simpl. rewrite aget_aset_neq by exact N. reflexivity. Qed.

(* the replayed worker w' mirrors the live worker w: same core, same number of remembered nonces per validator, and all
   its nonces were handed out by rn at positions < k *)
Definition mirrors (rn : nat -> Z) (k : nat) (w w' : worker) : Prop :=
  w_core w' = w_core w /\ (forall v, zlen (nl w' v) = zlen (nl w v)) /\
  (forall v n, In n (nl w' v) -> exists j, (j < k)%nat /\ rn j = n).

Lemma zmem_false_notin n l : ~ In n l -> zmem n l = false.
Proof.
  induction l as [|a r IH]; intro H; simpl; [reflexivity|].
  destruct (n =? a) eqn:E; [apply Z.eqb_eq in E; subst; exfalso; apply H; left; reflexivity|].
  simpl. apply IH. intro Hin. apply H. right. exact Hin.
Qed.

Lemma replay_round_general mn rn : mn <> 0 -> (forall i j, rn i = rn j -> i = j) -> forall msgs k w w' w2 its,
  mirrors rn k w w' ->
  live_round mn w msgs = Some (w2, its) ->
  w_core (replay_round mn rn k w' its) = w_core w2.
Proof.
  intros Hmn Hinj. induction msgs as [|[[[v nonce] power] ps] r IH]; intros k w w' w2 its [Hc [Hlen Hfrom]] H; simpl in H.
  - inversion H; subst. simpl. exact Hc.
  - destruct (worker_do mn w v nonce power ps) as [[w1 k1] f1] eqn:E.
    destruct k1 as [kept|]; [|discriminate]. destruct f1; [discriminate|].
    destruct (live_round mn w1 r) as [[w3 its3]|] eqn:El; [|discriminate]. inversion H; subst. simpl.
    destruct (worker_do_ok_inv _ _ _ _ _ _ _ _ _ E) as [Hadd [Hcore Hn1]].
    assert (Hok' : add_ok mn (rn k) (nl w' v)).
    { split.
      - rewrite Hlen. unfold set_add in Hadd. destruct (zlen (nl w v) =? mn) eqn:Ez; [simpl in Hadd; inversion Hadd|].
        apply Z.eqb_neq in Ez. exact Ez.
      - apply zmem_false_notin. intro Hin. destruct (Hfrom _ _ Hin) as [j [Hj Ej]]. apply Hinj in Ej. lia. }
    pose proof (core_do_replay _ _ _ _ _ _ _ Hcore) as Hrep. rewrite <- Hc in Hrep.
    rewrite (worker_do_ok_intro mn w' v (rn k) power kept _ _ _ Hok' Hrep). simpl.
    apply (IH (S k) w1 _ w2 its3); [|exact El].
    split; [reflexivity|]. split.
    + intro u. destruct w1 as [n1 c1]. simpl in Hn1. subst n1. destruct (Z.eq_dec u v) as [->|N].
      * rewrite !nl_aset_eq, !zlen_app, Hlen. reflexivity.
      * rewrite !nl_aset_neq by exact N. apply Hlen.
    + intros u n Hin. destruct (Z.eq_dec u v) as [->|N].
      * rewrite nl_aset_eq in Hin. apply in_app_or in Hin. destruct Hin as [Hin|[<-|[]]].
        -- destruct (Hfrom _ _ Hin) as [j [Hj Ej]]. exists j. split; [lia | exact Ej].
        -- exists k. split; [lia | reflexivity].
      * rewrite nl_aset_neq in Hin by exact N. destruct (Hfrom _ _ Hin) as [j [Hj Ej]]. exists j. split; [lia | exact Ej].
Qed.
