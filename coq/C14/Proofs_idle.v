(* C14/Proofs_idle.v — restart points at which every feeder is outside its submission window are restart-safe, for all histories. *)
From Coq Require Import List Bool ZArith Lia Sorting.Sorted.
From Exo Require Import Base.Util C14.Model C14.Proofs.
Import ListNotations.
Local Open Scope Z_scope.

(* ---- strictly key-sorted association lists are canonical ------------------------------------------- *)
Definition keys {A} (l : list (Z * A)) : list Z := map fst l.
Definition ksorted {A} (l : list (Z * A)) : Prop := StronglySorted Z.lt (keys l).

Lemma ksorted_nil {A} : ksorted (@nil (Z * A)).
Proof. constructor. Qed.

Lemma ksorted_lt_none {A} k (l : list (Z * A)) : Forall (Z.lt k) (keys l) -> aget k l = None.
Proof.
  induction l as [|[k' v] r IH]; simpl; intro H; [reflexivity|].
  inversion H; subst. destruct (k =? k') eqn:E; [apply Z.eqb_eq in E; lia | apply IH; assumption].
Qed.

Lemma ksorted_ext {A} : forall (l1 l2 : list (Z * A)),
  ksorted l1 -> ksorted l2 -> (forall k, aget k l1 = aget k l2) -> l1 = l2.
Proof.
  induction l1 as [|[k1 v1] r1 IH]; intros l2 S1 S2 E.
  - destruct l2 as [|[k2 v2] r2]; [reflexivity|]. specialize (E k2). simpl in E. rewrite Z.eqb_refl in E. discriminate.
  - destruct l2 as [|[k2 v2] r2]; [specialize (E k1); simpl in E; rewrite Z.eqb_refl in E; discriminate|].
    inversion S1 as [|? ? S1' F1]; subst. inversion S2 as [|? ? S2' F2]; subst.
    assert (k1 = k2).
    { destruct (Z.lt_trichotomy k1 k2) as [L|[L|L]]; [|assumption|].
      - specialize (E k1). simpl in E. rewrite Z.eqb_refl in E.
        destruct (k1 =? k2) eqn:E2; [apply Z.eqb_eq in E2; lia|].
        rewrite ksorted_lt_none in E; [discriminate|].
        eapply Forall_impl; [|exact F2]. intros a Ha. lia.
      - specialize (E k2). simpl in E. rewrite Z.eqb_refl in E.
        destruct (k2 =? k1) eqn:E2; [apply Z.eqb_eq in E2; lia|].
        rewrite ksorted_lt_none in E; [discriminate|].
        eapply Forall_impl; [|exact F1]. intros a Ha. lia. }
    subst k2. pose proof (E k1) as E1. simpl in E1. rewrite Z.eqb_refl in E1. inversion E1; subst v2.
    f_equal. apply IH; try assumption.
    intro k. specialize (E k). simpl in E. destruct (k =? k1) eqn:E2; [|exact E].
    apply Z.eqb_eq in E2. subst k. rewrite !ksorted_lt_none by assumption. reflexivity.
Qed.

Lemma keys_aset_in {A} k (v : A) l x : In x (keys (aset k v l)) -> x = k \/ In x (keys l).
Proof.
  induction l as [|[k' v'] r IH]; simpl; [intros [H|[]]; auto|].
  destruct (k =? k') eqn:E; simpl.
  - apply Z.eqb_eq in E. subst. intros [H|H]; auto.
  - destruct (k <? k'); simpl; [intros [H|[H|H]]; auto|].
    intros [H|H]; [auto|]. destruct (IH H); auto.
Qed.

Lemma ksorted_aset {A} k (v : A) l : ksorted l -> ksorted (aset k v l).
Proof.
  unfold ksorted. induction l as [|[k' v'] r IH]; simpl; intro S.
  - constructor; constructor.
  - inversion S as [|? ? S' F]; subst. destruct (k =? k') eqn:E; simpl.
    + apply Z.eqb_eq in E. subst. constructor; assumption.
    + destruct (k <? k') eqn:L; simpl.
      * apply Z.ltb_lt in L. constructor; [assumption|]. constructor; [assumption|].
        eapply Forall_impl; [|exact F]. intros a Ha. lia.
      * apply Z.ltb_ge in L. apply Z.eqb_neq in E. constructor; [apply IH; assumption|].
        apply Forall_forall. intros x Hx. apply keys_aset_in in Hx. destruct Hx as [->|Hx]; [lia|].
        rewrite Forall_forall in F. apply F. assumption.
Qed.

Lemma ksorted_adel {A} k (l : list (Z * A)) : ksorted l -> ksorted (adel k l).
Proof.
  unfold ksorted, adel. induction l as [|[k' v'] r IH]; simpl; intro S; [constructor|].
  inversion S as [|? ? S' F]; subst. destruct (k =? k'); simpl; [apply IH; assumption|].
  constructor; [apply IH; assumption|]. apply Forall_forall. intros x Hx.
  rewrite Forall_forall in F. apply F. unfold keys in *. rewrite in_map_iff in *. destruct Hx as [e [He Hin]].
  exists e. split; [assumption|]. apply filter_In in Hin. tauto.
Qed.

Lemma all_none_nil {A} (l : list (Z * A)) : (forall k, aget k l = None) -> l = [].
Proof. destruct l as [|[k v] r]; [reflexivity|]. intro H. specialize (H k). simpl in H. rewrite Z.eqb_refl in H. discriminate. Qed.

(* ---- feeder arithmetic ------------------------------------------------------------------------------ *)
Definition leftb (f : feeder) (b : Z) : Z := (b - f_start f) mod f_interval f.
Definition basedb (f : feeder) (b : Z) : Z := b - leftb f b.
Definition nextb (f : feeder) (b : Z) : Z := f_startround f + (b - f_start f) / f_interval f.

Lemma left_step f b : 1 <= f_interval f -> f_start f <= b -> leftb f b <> 0 ->
  f_start f <= b - 1 /\ leftb f (b - 1) = leftb f b - 1 /\ basedb f (b - 1) = basedb f b /\ nextb f (b - 1) = nextb f b.
Proof.
  unfold basedb, nextb, leftb. intros HI Hs Hl.
  set (d := b - f_start f) in *. set (I := f_interval f) in *.
  assert (Hd : 0 <= d) by (unfold d; lia).
  pose proof (Z.div_mod d I ltac:(lia)) as E. pose proof (Z.mod_pos_bound d I ltac:(lia)) as B.
  assert (d <> 0) by (intro; subst d; replace (b - f_start f) with 0 in Hl by lia; rewrite Z.mod_0_l in Hl by lia; lia).
  replace (b - 1 - f_start f) with (d - 1) by (unfold d; lia).
  assert (Hq : (d - 1) / I = d / I /\ (d - 1) mod I = d mod I - 1).
  { assert (E2 : d - 1 = I * (d / I) + (d mod I - 1)) by lia.
    pose proof (Z.div_mod_unique I ((d - 1) / I) (d / I) ((d - 1) mod I) (d mod I - 1)) as U.
    pose proof (Z.div_mod (d - 1) I ltac:(lia)) as E3. pose proof (Z.mod_pos_bound (d - 1) I ltac:(lia)) as B3.
    apply U; [left; lia | left; lia | lia]. }
  destruct Hq as [Q1 Q2]. rewrite Q1, Q2. unfold d in *. repeat split; lia.
Qed.

Lemma left_bounds f b : 1 <= f_interval f -> 0 <= leftb f b < f_interval f.
Proof. intro H. unfold leftb. apply Z.mod_pos_bound. lia. Qed.

(* ---- feeders ------------------------------------------------------------------------------------------ *)
Lemma get_feeder_some fs : forall fid f, get_feeder fs fid = Some f -> In f fs /\ f_id f = fid.
Proof.
  induction fs as [|g r IH]; intros fid f H; simpl in H; [discriminate|].
  destruct (f_id g =? fid) eqn:E.
  - inversion H; subst. apply Z.eqb_eq in E. split; [left; reflexivity | assumption].
  - destruct (IH _ _ H). split; [right; assumption | assumption].
Qed.

Lemma get_feeder_none fs fid : ~ In fid (map f_id fs) -> get_feeder fs fid = None.
Proof.
  induction fs as [|g r IH]; simpl; intro H; [reflexivity|].
  destruct (f_id g =? fid) eqn:E; [apply Z.eqb_eq in E; tauto | apply IH; tauto].
Qed.

Lemma get_feeder_in fs : NoDup (map f_id fs) -> forall f, In f fs -> get_feeder fs (f_id f) = Some f.
Proof.
  induction fs as [|g r IH]; intros ND f Hin; [destruct Hin|]. simpl in *. inversion ND as [|? ? Hn ND']; subst.
  destruct Hin as [->|Hin]; [rewrite Z.eqb_refl; reflexivity|].
  destruct (f_id g =? f_id f) eqn:E; [|apply IH; assumption].
  apply Z.eqb_eq in E. exfalso. apply Hn. rewrite E. apply in_map. assumption.
Qed.

(* one feeder's step of PrepareRoundEndBlock *)
Definition inactive (f : feeder) (b : Z) : bool :=
  ((0 <? f_end f) && (f_end f <=? b)) || (b <? f_start f) || (f_interval f <=? 0).

Definition prep_one (mn b : Z) (f : feeder) (o : option round) : round :=
  match o with
  | None => mkRound (basedb f b) (nextb f b) (negb (mn <=? leftb f b))
  | Some r => if leftb f b =? 0 then mkRound (basedb f b) (nextb f b) true
              else if r_open r && (mn <=? leftb f b) then mkRound (r_based r) (r_next r) false else r
  end.

Lemma prepare_rounds_lookup mn b : forall fs rs ws rs' ws' nw,
  NoDup (map f_id fs) -> prepare_rounds mn b fs rs ws = (rs', ws', nw) ->
  (ksorted rs -> ksorted rs') /\
  forall fid, aget fid rs' = match get_feeder fs fid with
                             | Some f => if inactive f b then aget fid rs else Some (prep_one mn b f (aget fid rs))
                             | None => aget fid rs end.
Proof.
  induction fs as [|f rest IH]; intros rs ws rs' ws' nw ND H; simpl in H.
  - inversion H; subst. split; [auto | reflexivity].
  - inversion ND as [|? ? Hn ND']; subst.
    fold (inactive f b) in H. destruct (inactive f b) eqn:Ei.
    + destruct (IH _ _ _ _ _ ND' H) as [S L]. split; [assumption|]. intro fid. rewrite L. simpl.
      destruct (f_id f =? fid) eqn:E; [|reflexivity]. apply Z.eqb_eq in E. subst fid.
      rewrite get_feeder_none by assumption. rewrite Ei. reflexivity.
    + fold (leftb f b) in H. fold (basedb f b) in H. fold (nextb f b) in H.
      assert (Hone : exists ws1 nw1,
        (match aget (f_id f) rs with
         | None => if mn <=? leftb f b then (aset (f_id f) (mkRound (basedb f b) (nextb f b) false) rs, ws, [])
                   else (aset (f_id f) (mkRound (basedb f b) (nextb f b) true) rs, ws, if leftb f b =? 0 then [f_id f] else [])
         | Some r => if leftb f b =? 0 then (aset (f_id f) (mkRound (basedb f b) (nextb f b) true) rs, adel (f_id f) ws, [f_id f])
                     else if r_open r && (mn <=? leftb f b) then (aset (f_id f) (mkRound (r_based r) (r_next r) false) rs, ws, [])
                     else (rs, ws, [])
         end) = (aset (f_id f) (prep_one mn b f (aget (f_id f) rs)) rs, ws1, nw1) \/
        (aget (f_id f) rs = Some (prep_one mn b f (aget (f_id f) rs)) /\
         (match aget (f_id f) rs with
         | None => if mn <=? leftb f b then (aset (f_id f) (mkRound (basedb f b) (nextb f b) false) rs, ws, [])
                   else (aset (f_id f) (mkRound (basedb f b) (nextb f b) true) rs, ws, if leftb f b =? 0 then [f_id f] else [])
         | Some r => if leftb f b =? 0 then (aset (f_id f) (mkRound (basedb f b) (nextb f b) true) rs, adel (f_id f) ws, [f_id f])
                     else if r_open r && (mn <=? leftb f b) then (aset (f_id f) (mkRound (r_based r) (r_next r) false) rs, ws, [])
                     else (rs, ws, [])
         end) = (rs, ws1, nw1))).
      { unfold prep_one. destruct (aget (f_id f) rs) as [r|] eqn:Er.
        - destruct (leftb f b =? 0); [do 2 eexists; left; reflexivity|].
          destruct (r_open r && (mn <=? leftb f b)); [do 2 eexists; left; reflexivity|].
          do 2 eexists. right. split; reflexivity.
        - destruct (mn <=? leftb f b); simpl; do 2 eexists; left; reflexivity. }
      destruct Hone as [ws1 [nw1 [E1|[Esame E1]]]]; rewrite E1 in H;
        destruct (prepare_rounds mn b rest _ ws1) as [[rs2 ws2] nw2] eqn:E2; inversion H; subst;
        destruct (IH _ _ _ _ _ ND' E2) as [S L].
      * split; [intro Hs; apply S; apply ksorted_aset; assumption|].
        intro fid. rewrite L. simpl. destruct (f_id f =? fid) eqn:E.
        -- apply Z.eqb_eq in E. subst fid. rewrite get_feeder_none by assumption. rewrite Ei, aget_aset_eq. reflexivity.
        -- apply Z.eqb_neq in E. rewrite aget_aset_neq by congruence. reflexivity.
      * split; [assumption|].
        intro fid. rewrite L. simpl. destruct (f_id f =? fid) eqn:E; [|reflexivity].
        apply Z.eqb_eq in E. subst fid. rewrite get_feeder_none by assumption. rewrite Ei. exact Esame.
Qed.

(* ---- SealRound without feeder expiry -------------------------------------------------------------------- *)
Definition no_expiry (p : params) : Prop := forall f, In f (p_feeders p) -> f_end f = 0.

Definition seal_one (p : params) (h : Z) (force : bool) (fid : Z) (r : round) : round :=
  match get_feeder (p_feeders p) fid with
  | None => r
  | Some f => if r_open r && ((p_maxnonce p <=? h - r_based r) || force) then mkRound (r_based r) (r_next r) false else r
  end.

Lemma seal_rounds_map p h force : no_expiry p -> forall rs ws rs' ws' fl sl,
  seal_rounds p h force rs ws = (rs', ws', fl, sl) ->
  rs' = map (fun e => (fst e, seal_one p h force (fst e) (snd e))) rs.
Proof.
  intros NE. induction rs as [|[fid r] rest IH]; intros ws rs' ws' fl sl H; simpl in H.
  - inversion H; reflexivity.
  - destruct (seal_rounds p h force rest ws) as [[[rs1 ws1] f1] s1] eqn:E. specialize (IH _ _ _ _ _ E). subst rs1.
    simpl. unfold seal_one at 1. simpl.
    destruct (get_feeder (p_feeders p) fid) as [f|] eqn:Ef.
    + destruct (get_feeder_some _ _ _ Ef) as [Hin _]. rewrite (NE _ Hin) in H. simpl in H.
      destruct (r_open r && ((p_maxnonce p <=? h - r_based r) || force)).
      * inversion H; reflexivity.
      * destruct (aget fid ws1) as [w|]; [destruct (w_sealed w)|]; inversion H; reflexivity.
    + inversion H; reflexivity.
Qed.

Lemma aget_map_keyed {A B} (g : Z -> A -> B) k (l : list (Z * A)) :
  aget k (map (fun e => (fst e, g (fst e) (snd e))) l) = option_map (g k) (aget k l).
Proof.
  induction l as [|[k' v] r IH]; simpl; [reflexivity|].
  destruct (k =? k') eqn:E; [apply Z.eqb_eq in E; subst; reflexivity | exact IH].
Qed.

Lemma keys_map_keyed {A B} (g : Z -> A -> B) (l : list (Z * A)) :
  keys (map (fun e => (fst e, g (fst e) (snd e))) l) = keys l.
Proof. unfold keys. rewrite map_map. reflexivity. Qed.

(* workers surviving SealRound belong to rounds that stay open and are not sealed *)
Lemma seal_rounds_workers p h force : no_expiry p -> forall rs ws rs' ws' fl sl,
  seal_rounds p h force rs ws = (rs', ws', fl, sl) ->
  forall fid r w, In (fid, r) rs -> get_feeder (p_feeders p) fid <> None -> aget fid ws' = Some w ->
    (r_open r && ((p_maxnonce p <=? h - r_based r) || force)) = false /\ w_sealed w = false.
Proof.
  intros NE. induction rs as [|[f0 r0] rest IH]; intros ws rs' ws' fl sl H fid r w Hin Hf Hw; [destruct Hin|].
  simpl in H. destruct (seal_rounds p h force rest ws) as [[[rs1 ws1] f1] s1] eqn:E.
  pose proof (seal_rounds_spec _ _ _ _ _ _ _ _ _ E) as Hsub.
  assert (Hrest : In (fid, r) rest -> aget fid ws1 = Some w ->
                  (r_open r && ((p_maxnonce p <=? h - r_based r) || force)) = false /\ w_sealed w = false).
  { intros Hi Hw1. eapply IH; eauto. }
  destruct (get_feeder (p_feeders p) f0) as [f|] eqn:Ef.
  - destruct (get_feeder_some _ _ _ Ef) as [Hinf _]. rewrite (NE _ Hinf) in H. simpl in H.
    destruct (r_open r0 && ((p_maxnonce p <=? h - r_based r0) || force)) eqn:Ec.
    + inversion H; subst. apply aget_adel_some in Hw. destruct Hw as [Hw N].
      destruct Hin as [Hi|Hi]; [inversion Hi; congruence | apply Hrest; assumption].
    + destruct (aget f0 ws1) as [w0|] eqn:E0.
      * destruct (w_sealed w0) eqn:Es.
        -- inversion H; subst. apply aget_adel_some in Hw. destruct Hw as [Hw N].
           destruct Hin as [Hi|Hi]; [inversion Hi; congruence | apply Hrest; assumption].
        -- inversion H; subst. destruct Hin as [Hi|Hi]; [|apply Hrest; assumption].
           inversion Hi; subst. rewrite E0 in Hw. inversion Hw; subst. split; assumption.
      * inversion H; subst. destruct Hin as [Hi|Hi]; [|apply Hrest; assumption].
        inversion Hi; subst. rewrite E0 in Hw. discriminate.
  - inversion H; subst. destruct Hin as [Hi|Hi]; [|apply Hrest; assumption].
    inversion Hi; subst. congruence.
Qed.

(* ---- the round table is determined by params and height, up to "closed early" -------------------------- *)
Definition params_ok (p : params) : Prop :=
  NoDup (map f_id (p_feeders p)) /\ 2 <= p_maxnonce p /\ no_expiry p /\
  forall f, In f (p_feeders p) -> 1 <= f_interval f /\ 1 <= f_start f.

Definition rt_sound (p : params) (b : Z) (rs : list (Z * round)) : Prop :=
  forall fid r, aget fid rs = Some r -> exists f, get_feeder (p_feeders p) fid = Some f /\ f_start f <= b /\
     r_based r = basedb f b /\ r_next r = nextb f b /\ (r_open r = true -> leftb f b < p_maxnonce p).
Definition rt_complete (p : params) (b : Z) (rs : list (Z * round)) : Prop :=
  forall f, In f (p_feeders p) -> f_start f <= b -> aget (f_id f) rs <> None.
Definition RT (p : params) (b : Z) (rs : list (Z * round)) : Prop := ksorted rs /\ rt_sound p b rs /\ rt_complete p b rs.

Definition RTmid (p : params) (b : Z) (rs : list (Z * round)) : Prop :=
  ksorted rs /\ forall fid r, aget fid rs = Some r -> exists f, get_feeder (p_feeders p) fid = Some f /\ f_start f <= b - 1 /\
     r_based r = basedb f (b - 1) /\ r_next r = nextb f (b - 1) /\ (r_open r = true -> b - r_based r < p_maxnonce p).

Lemma seal_RT p b force rs :
  ksorted rs -> rt_sound p (b - 1) rs ->
  RTmid p b (map (fun e => (fst e, seal_one p b force (fst e) (snd e))) rs).
Proof.
  intros S Hs. split.
  - unfold ksorted. rewrite keys_map_keyed. exact S.
  - intros fid r' H. rewrite aget_map_keyed in H. destruct (aget fid rs) as [r|] eqn:Er; [|discriminate].
    simpl in H. inversion H; subst r'. destruct (Hs _ _ Er) as [f [Hf [Hst [Hb [Hn Ho]]]]].
    exists f. unfold seal_one. rewrite Hf.
    destruct (r_open r && ((p_maxnonce p <=? b - r_based r) || force)) eqn:Ec; simpl.
    + repeat split; try assumption. discriminate.
    + repeat split; try assumption. intro Hop. rewrite Hop in Ec. simpl in Ec. apply orb_false_iff in Ec.
      destruct Ec as [Ec _]. apply Z.leb_gt in Ec. exact Ec.
Qed.

Lemma inactive_ok p f b : params_ok p -> In f (p_feeders p) -> inactive f b = (b <? f_start f).
Proof.
  intros [_ [_ [NE HI]]] Hin. unfold inactive. rewrite (NE _ Hin). destruct (HI _ Hin) as [H1 _]. simpl.
  destruct (f_interval f <=? 0) eqn:E; [apply Z.leb_le in E; lia|]. rewrite orb_false_r. reflexivity.
Qed.

Lemma prepare_RT p b rs rs' :
  params_ok p -> RTmid p b rs ->
  (forall fid, aget fid rs' = match get_feeder (p_feeders p) fid with
                              | Some f => if inactive f b then aget fid rs else Some (prep_one (p_maxnonce p) b f (aget fid rs))
                              | None => aget fid rs end) ->
  ksorted rs' -> RT p b rs'.
Proof.
  intros Hok [S Hm] L S'. pose proof Hok as [ND [Hmn [NE HI]]]. split; [assumption|]. split.
  - intros fid r' H. rewrite L in H. destruct (get_feeder (p_feeders p) fid) as [f|] eqn:Ef.
    + destruct (get_feeder_some _ _ _ Ef) as [Hin Hid]. rewrite (inactive_ok p f b Hok Hin) in H.
      destruct (b <? f_start f) eqn:Ea.
      * apply Z.ltb_lt in Ea. destruct (Hm _ _ H) as [f' [Hf' [Hst _]]]. rewrite Ef in Hf'. inversion Hf'; subst f'. lia.
      * apply Z.ltb_ge in Ea. inversion H; subst r'. exists f. split; [reflexivity|]. split; [assumption|].
        destruct (HI _ Hin) as [HI1 HS1]. pose proof (left_bounds f b HI1) as LB.
        unfold prep_one. destruct (aget fid rs) as [r|] eqn:Er.
        -- destruct (Hm _ _ Er) as [f' [Hf' [Hst [Hb [Hn Ho]]]]]. rewrite Ef in Hf'. inversion Hf'; subst f'.
           destruct (leftb f b =? 0) eqn:E0.
           ++ apply Z.eqb_eq in E0. simpl. repeat split; try reflexivity. intros _. lia.
           ++ apply Z.eqb_neq in E0. destruct (left_step f b HI1 Ea E0) as [A1 [A2 [A3 A4]]].
              destruct (r_open r && (p_maxnonce p <=? leftb f b)) eqn:Ec; simpl.
              ** repeat split; try congruence; try discriminate.
              ** repeat split; try congruence. intro Hop. rewrite Hop in Ec. simpl in Ec. apply Z.leb_gt in Ec. exact Ec.
        -- simpl. repeat split; try reflexivity. intro Hop. apply negb_true_iff in Hop. apply Z.leb_gt in Hop. exact Hop.
    + destruct (Hm _ _ H) as [f' [Hf' _]]. congruence.
  - intros f Hin Hst. rewrite L. rewrite (get_feeder_in _ ND f Hin). rewrite (inactive_ok p f b Hok Hin).
    destruct (b <? f_start f) eqn:Ea; [apply Z.ltb_lt in Ea; lia | discriminate].
Qed.

(* ---- live invariant ------------------------------------------------------------------------------------- *)
Lemma core_do_sealed c v power ps : c_sealed (fst (fst (core_do c v power ps))) = c_sealed c.
Proof.
  unfold core_do. destruct (add_psource _ ps) as [sn1 kept]. destruct kept as [|k0 kr]; [reflexivity|].
  match goal with |- context [agg_fill ?c1 v power] => set (c2 := agg_fill c1 v power) end.
  assert (H2 : c_sealed c2 = c_sealed c).
  { unfold c2, agg_fill. simpl. destruct (has_report _ _); reflexivity. }
  match goal with |- context [let '(cs, conf) := ?X in _] => destruct X as [cs conf] end.
  destruct conf as [[d pr]|]; simpl; [unfold confirm_ds; simpl; destruct (c_ds c2); simpl|]; exact H2.
Qed.

Lemma worker_do_sealed mn w v nonce power ps : w_sealed (fst (fst (worker_do mn w v nonce power ps))) = w_sealed w.
Proof.
  unfold worker_do. destruct (set_add mn nonce _) as [ns1 ok]. destruct ok; [|reflexivity].
  pose proof (core_do_sealed (w_core w) v power ps) as H.
  destruct (core_do (w_core w) v power ps) as [[c1 k] f]. simpl in *. unfold w_sealed. simpl. exact H.
Qed.

Definition workers_ok (m : mem) : Prop :=
  forall fid w, aget fid (m_workers m) = Some w ->
    exists r, aget fid (m_rounds m) = Some r /\ (r_open r = true \/ w_sealed w = true).

Lemma fill_price_fields p m fid v nonce ps r0 :
  aget fid (m_rounds m) = Some r0 -> r_open r0 = true ->
  let m1 := fst (fill_price p m fid v nonce ps) in
  m_vals m1 = m_vals m /\ m_cvals m1 = m_cvals m /\ m_vupd m1 = m_vupd m /\ m_msgs m1 = m_msgs m /\ m_panic m1 = m_panic m /\
  (ksorted (m_workers m) -> ksorted (m_workers m1)) /\
  (forall f', f' <> fid -> aget f' (m_workers m1) = aget f' (m_workers m)) /\
  ((m_rounds m1 = m_rounds m /\ exists w1, aget fid (m_workers m1) = Some w1) \/
   (m_rounds m1 = aset fid (mkRound (r_based r0) (r_next r0) false) (m_rounds m) /\ aget fid (m_workers m1) = Some sealed_worker)).
Proof.
  intros Hr Ho. unfold fill_price.
  set (w0 := match aget fid (m_workers m) with Some w => w | None => new_worker (m_vals m) end).
  destruct (w_sealed w0).
  - simpl. destruct m; simpl in *. repeat split; try reflexivity.
    + intro S. apply ksorted_aset. exact S.
    + intros f' N. apply aget_aset_neq. exact N.
    + left. split; [reflexivity|]. eexists. apply aget_aset_eq.
  - destruct (worker_do (p_maxnonce p) w0 v nonce _ ps) as [[w1 kept] fin].
    assert (Hbase : forall mm, mm = set_workers m (aset fid w1 (m_workers m)) ->
              m_vals mm = m_vals m /\ m_cvals mm = m_cvals m /\ m_vupd mm = m_vupd m /\ m_msgs mm = m_msgs m /\ m_panic mm = m_panic m /\
              (ksorted (m_workers m) -> ksorted (m_workers mm)) /\
              (forall f', f' <> fid -> aget f' (m_workers mm) = aget f' (m_workers m)) /\
              ((m_rounds mm = m_rounds m /\ exists w1, aget fid (m_workers mm) = Some w1) \/
               (m_rounds mm = aset fid (mkRound (r_based r0) (r_next r0) false) (m_rounds m) /\ aget fid (m_workers mm) = Some sealed_worker))).
    { intros mm ->. destruct m; simpl in *. repeat split; try reflexivity.
      - intro S. apply ksorted_aset. exact S.
      - intros f' N. apply aget_aset_neq. exact N.
      - left. split; [reflexivity|]. eexists. apply aget_aset_eq. }
    destruct kept as [kl|]; [|apply Hbase; reflexivity].
    destruct fin as [price|]; [|apply Hbase; reflexivity].
    replace (m_rounds (set_workers m (aset fid w1 (m_workers m)))) with (m_rounds m) by (destruct m; reflexivity).
    rewrite Hr. simpl. destruct m; simpl in *. repeat split; try reflexivity.
    + intro S. apply ksorted_aset. apply ksorted_aset. exact S.
    + intros f' N. rewrite !aget_aset_neq by exact N. reflexivity.
    + right. split; [reflexivity | apply aget_aset_eq].
Qed.

Definition Jcore (p : params) (h : Z) (svals : list (Z * Z)) (m : mem) : Prop :=
  1 <= h /\ RT p (h - 1) (m_rounds m) /\ ksorted (m_workers m) /\ workers_ok m /\ m_panic m = false /\
  m_vals m = svals /\ m_cvals m = svals.

Definition Jmid (p : params) (st : state) : Prop := Jcore p (st_h st) (s_vals (st_store st)) (st_mem st).

Lemma Jcore_same p h sv m m' :
  m_rounds m' = m_rounds m -> m_workers m' = m_workers m -> m_panic m' = m_panic m -> m_vals m' = m_vals m ->
  m_cvals m' = m_cvals m -> Jcore p h sv m -> Jcore p h sv m'.
Proof.
  intros E1 E2 E3 E4 E5 [A [B [C [D [E [F G]]]]]]. unfold Jcore, workers_ok in *. rewrite E1, E2, E3, E4, E5.
  split; [exact A|]. split; [exact B|]. split; [exact C|]. split; [exact D|]. split; [exact E|]. split; [exact F | exact G].
Qed.

Lemma RT_close p b rs fid r0 :
  RT p b rs -> aget fid rs = Some r0 -> RT p b (aset fid (mkRound (r_based r0) (r_next r0) false) rs).
Proof.
  intros [S [Hs Hc]] Hr. split; [apply ksorted_aset; assumption|]. split.
  - intros f' r' H. destruct (Z.eq_dec f' fid) as [->|N].
    + rewrite aget_aset_eq in H. inversion H; subst r'. destruct (Hs _ _ Hr) as [f [A1 [A2 [A3 [A4 A5]]]]].
      exists f. simpl. repeat split; try assumption. discriminate.
    + rewrite aget_aset_neq in H by assumption. apply Hs. assumption.
  - intros f Hin Hst. apply aget_aset_not_none. apply Hc; assumption.
Qed.

Lemma check_msg_open m fid v based ps : check_msg m fid v based ps = true ->
  exists r0, aget fid (m_rounds m) = Some r0 /\ r_open r0 = true.
Proof.
  unfold check_msg. destruct (aget v (m_vals m)); [|discriminate].
  destruct (aget fid (m_rounds m)) as [r|]; [|rewrite andb_false_r; discriminate].
  intro H. apply andb_prop in H. destruct H as [_ H]. apply andb_prop in H. destruct H as [H _]. exists r. split; [reflexivity | assumption].
Qed.

Lemma fill_price_J p h sv m fid v nonce ps r0 :
  aget fid (m_rounds m) = Some r0 -> r_open r0 = true -> Jcore p h sv m ->
  Jcore p h sv (fst (fill_price p m fid v nonce ps)).
Proof.
  intros Hr Ho [Hh [HRT [Hsw [Hwo [Hp [Hv Hc]]]]]].
  destruct (fill_price_fields p m fid v nonce ps r0 Hr Ho) as [F1 [F2 [F3 [F4 [F5 [F6 [F7 F8]]]]]]].
  set (m1 := fst (fill_price p m fid v nonce ps)) in *.
  split; [assumption|].
  assert (HRT1 : RT p (h - 1) (m_rounds m1)).
  { destruct F8 as [[E _]|[E _]]; rewrite E; [assumption | apply RT_close; assumption]. }
  split; [assumption|]. split; [apply F6; assumption|]. split; [|rewrite F5, F1, F2; auto].
  intros f' w Hw. destruct (Z.eq_dec f' fid) as [->|N].
  - destruct F8 as [[E _]|[E Es]].
    + rewrite E. exists r0. split; [assumption | left; assumption].
    + rewrite E, aget_aset_eq. eexists. split; [reflexivity|]. right. rewrite Es in Hw. inversion Hw. reflexivity.
  - rewrite F7 in Hw by assumption. destruct (Hwo _ _ Hw) as [r [Hr' Hd]].
    destruct F8 as [[E _]|[E _]]; rewrite E; [exists r; auto|].
    rewrite aget_aset_neq by assumption. exists r; auto.
Qed.

Lemma deliver_J p st t : Jmid p st -> Jmid p (fst (deliver p st t)).
Proof.
  intro HJ. unfold deliver.
  destruct (nonce_check _ _ _ _ _) as [ns'|]; [|exact HJ].
  destruct (check_msg (st_mem st) (t_feeder t) (t_val t) (t_based t) (t_prices t)) eqn:Ek; simpl.
  2:{ unfold Jmid in *. destruct (st_store st); simpl in *. exact HJ. }
  destruct (check_msg_open _ _ _ _ _ Ek) as [r0 [Hr Ho]].
  assert (HJ1 : Jcore p (st_h st) (s_vals (st_store st)) (fst (fill_price p (st_mem st) (t_feeder t) (t_val t) (t_nonce t) (t_prices t)))).
  { apply (fill_price_J p _ _ _ _ _ _ _ r0); assumption. }
  destruct (fill_price p (st_mem st) (t_feeder t) (t_val t) (t_nonce t) (t_prices t)) as [m1 res]. simpl in HJ1.
  destruct res as [|it|price rid it]; unfold Jmid; simpl.
  - destruct (st_store st); simpl in *. exact HJ1.
  - destruct (st_store st); simpl in *. eapply Jcore_same; [| | | | |exact HJ1]; destruct m1; reflexivity.
  - destruct (st_store st); simpl in *. eapply Jcore_same; [| | | | |exact HJ1]; destruct m1; reflexivity.
Qed.

Lemma seal_rounds_ws_sorted p h force : forall rs ws rs' ws' fl sl,
  seal_rounds p h force rs ws = (rs', ws', fl, sl) -> ksorted ws -> ksorted ws'.
Proof.
  induction rs as [|[fid r] rest IH]; intros ws rs' ws' fl sl H S; simpl in H.
  - inversion H; subst. exact S.
  - destruct (seal_rounds p h force rest ws) as [[[rs1 ws1] f1] s1] eqn:E. pose proof (IH _ _ _ _ _ E S) as S1.
    destruct (get_feeder (p_feeders p) fid) as [f|].
    + destruct (r_open r && _).
      * inversion H; subst. apply ksorted_adel. exact S1.
      * destruct (aget fid ws1) as [w|]; [destruct (w_sealed w)|]; inversion H; subst; [apply ksorted_adel|..]; exact S1.
    + inversion H; subst. exact S1.
Qed.

Lemma prepare_rounds_ws mn b : forall fs rs ws rs' ws' nw,
  NoDup (map f_id fs) -> prepare_rounds mn b fs rs ws = (rs', ws', nw) ->
  (ksorted ws -> ksorted ws') /\
  forall fid w f, aget fid ws' = Some w -> get_feeder fs fid = Some f -> inactive f b = false ->
    aget fid rs <> None -> leftb f b <> 0.
Proof.
  induction fs as [|f0 rest IH]; intros rs ws rs' ws' nw ND H; simpl in H.
  - inversion H; subst. split; [auto|]. intros fid w f _ Hf. discriminate.
  - inversion ND as [|? ? Hn ND']; subst. fold (inactive f0 b) in H.
    destruct (inactive f0 b) eqn:Ei.
    + destruct (IH _ _ _ _ _ ND' H) as [S L]. split; [assumption|].
      intros fid w f Hw Hf Ha Hr. simpl in Hf. destruct (f_id f0 =? fid) eqn:E.
      * inversion Hf; subst. congruence.
      * eapply L; eauto.
    + fold (leftb f0 b) in H. fold (basedb f0 b) in H. fold (nextb f0 b) in H.
      destruct (aget (f_id f0) rs) as [r|] eqn:Er.
      * destruct (leftb f0 b =? 0) eqn:E0.
        -- destruct (prepare_rounds mn b rest _ (adel (f_id f0) ws)) as [[rs2 ws2] nw2] eqn:E2. inversion H; subst.
           destruct (IH _ _ _ _ _ ND' E2) as [S L]. pose proof (prepare_rounds_spec _ _ _ _ _ _ _ _ E2) as Hsp.
           split; [intro Hs; apply S; apply ksorted_adel; exact Hs|].
           intros fid w f Hw Hf Ha Hr. simpl in Hf. destruct (f_id f0 =? fid) eqn:E.
           ++ apply Z.eqb_eq in E. subst fid. exfalso.
              (* the worker of f0 was deleted before the rest ran, and the rest never adds workers *)
              clear - Hw E2.
              assert (Hsub : forall rest rs ws rs' ws' nw, prepare_rounds mn b rest rs ws = (rs', ws', nw) ->
                             forall k w, aget k ws' = Some w -> aget k ws = Some w).
              { clear. induction rest as [|g r IH]; intros rs ws rs' ws' nw H k w Hw; simpl in H; [inversion H; subst; exact Hw|].
                destruct (_ || _ || _); [eapply IH; eauto|].
                destruct (aget (f_id g) rs) as [rr|].
                - destruct (_ =? 0).
                  + destruct (prepare_rounds mn b r _ (adel (f_id g) ws)) as [[a1 a2] a3] eqn:E. inversion H; subst.
                    pose proof (IH _ _ _ _ _ E k w Hw) as H1. apply aget_adel_some in H1. tauto.
                  + destruct (r_open rr && _); destruct (prepare_rounds mn b r _ ws) as [[a1 a2] a3] eqn:E; inversion H; subst; eapply IH; eauto.
                - destruct (mn <=? _); destruct (prepare_rounds mn b r _ ws) as [[a1 a2] a3] eqn:E; inversion H; subst; eapply IH; eauto. }
              pose proof (Hsub _ _ _ _ _ _ E2 (f_id f0) w Hw) as H1. rewrite aget_adel_eq in H1. discriminate.
           ++ apply Z.eqb_neq in E. eapply L; eauto. rewrite aget_aset_neq by congruence. exact Hr.
        -- assert (Hx : exists rs1, (if r_open r && (mn <=? leftb f0 b)
                          then (aset (f_id f0) (mkRound (r_based r) (r_next r) false) rs, ws, @nil Z) else (rs, ws, [])) = (rs1, ws, []) /\
                          forall k, k <> f_id f0 -> aget k rs1 = aget k rs).
           { destruct (r_open r && (mn <=? leftb f0 b)); eexists; (split; [reflexivity|]); intros k N; [apply aget_aset_neq; exact N | reflexivity]. }
           destruct Hx as [rs1 [Ex Hk]]. rewrite Ex in H.
           destruct (prepare_rounds mn b rest rs1 ws) as [[rs2 ws2] nw2] eqn:E2. inversion H; subst.
           destruct (IH _ _ _ _ _ ND' E2) as [S L]. split; [assumption|].
           intros fid w f Hw Hf Ha Hr. simpl in Hf. destruct (f_id f0 =? fid) eqn:E.
           ++ inversion Hf; subst. apply Z.eqb_neq. exact E0.
           ++ apply Z.eqb_neq in E. eapply L; eauto. rewrite Hk by congruence. exact Hr.
      * assert (Hx : exists rs1 nw1, (if mn <=? leftb f0 b then (aset (f_id f0) (mkRound (basedb f0 b) (nextb f0 b) false) rs, ws, @nil Z)
                          else (aset (f_id f0) (mkRound (basedb f0 b) (nextb f0 b) true) rs, ws, if leftb f0 b =? 0 then [f_id f0] else [])) = (rs1, ws, nw1) /\
                          forall k, k <> f_id f0 -> aget k rs1 = aget k rs).
        { destruct (mn <=? leftb f0 b); do 2 eexists; (split; [reflexivity|]); intros k N; apply aget_aset_neq; exact N. }
        destruct Hx as [rs1 [nw1 [Ex Hk]]]. rewrite Ex in H.
        destruct (prepare_rounds mn b rest rs1 ws) as [[rs2 ws2] nw2] eqn:E2. inversion H; subst.
        destruct (IH _ _ _ _ _ ND' E2) as [S L]. split; [assumption|].
        intros fid w f Hw Hf Ha Hr. simpl in Hf. destruct (f_id f0 =? fid) eqn:E.
        -- apply Z.eqb_eq in E. subst fid. congruence.
        -- apply Z.eqb_neq in E. eapply L; eauto. rewrite Hk by congruence. exact Hr.
Qed.

Lemma prepare_rounds_sub mn b : forall rest rs ws rs' ws' nw, prepare_rounds mn b rest rs ws = (rs', ws', nw) ->
  forall k w, aget k ws' = Some w -> aget k ws = Some w.
Proof.
  induction rest as [|g r IH]; intros rs ws rs' ws' nw H k w Hw; simpl in H; [inversion H; subst; exact Hw|].
  destruct (_ || _ || _); [eapply IH; eauto|].
  destruct (aget (f_id g) rs) as [rr|].
  - destruct (_ =? 0).
    + destruct (prepare_rounds mn b r _ (adel (f_id g) ws)) as [[a1 a2] a3] eqn:E. inversion H; subst.
      pose proof (IH _ _ _ _ _ E k w Hw) as H1. apply aget_adel_some in H1. tauto.
    + destruct (r_open rr && _); destruct (prepare_rounds mn b r _ ws) as [[a1 a2] a3] eqn:E; inversion H; subst; eapply IH; eauto.
  - destruct (mn <=? _); destruct (prepare_rounds mn b r _ ws) as [[a1 a2] a3] eqn:E; inversion H; subst; eapply IH; eauto.
Qed.

Definition Jbound (p : params) (st : state) : Prop :=
  Jmid p st /\ m_msgs (st_mem st) = [] /\ m_vupd (st_mem st) = false /\
  forall fid w, aget fid (m_workers (st_mem st)) = Some w -> exists r, aget fid (m_rounds (st_mem st)) = Some r /\ r_open r = true.

Lemma end_block_J p st vu : params_ok p -> Jmid p st -> Jbound p (end_block p st vu).
Proof.
  intros Hok [Hh [HRT [Hsw [Hwo [Hp [Hv Hc]]]]]]. pose proof Hok as [ND [Hmn [NE HI]]].
  destruct HRT as [Srs [Hsound Hcompl]].
  unfold end_block.
  set (m := st_mem st) in *. set (s := st_store st) in *. set (h := st_h st) in *.
  set (m1 := match vu with
             | Some vs => mkMem vs (m_rounds m) (m_workers m) (m_msgs m) vs
                            (m_vupd m || negb (list_eqb (fun a b => (fst a =? fst b) && (snd a =? snd b)) vs (m_cvals m))) (m_panic m)
             | None => m end).
  set (force := match vu with Some _ => true | None => false end).
  set (s0 := match vu with Some vs => mkStore (s_next s) (s_nonce s) (s_msgs s) (s_vub s) vs | None => s end).
  replace (match vu with
           | Some vs => (mkMem vs (m_rounds m) (m_workers m) (m_msgs m) vs
                          (m_vupd m || negb (list_eqb (fun a b => (fst a =? fst b) && (snd a =? snd b)) vs (m_cvals m))) (m_panic m),
                        true, mkStore (s_next s) (s_nonce s) (s_msgs s) (s_vub s) vs)
           | None => (m, false, s) end) with (m1, force, s0) by (unfold m1, force, s0; destruct vu; reflexivity).
  assert (E1 : m_rounds m1 = m_rounds m /\ m_workers m1 = m_workers m /\ m_panic m1 = m_panic m) by (unfold m1; destruct vu; repeat split; reflexivity).
  destruct E1 as [E1r [E1w E1p]].
  assert (E1v : m_vals m1 = s_vals s0 /\ m_cvals m1 = s_vals s0) by (unfold m1, s0; destruct vu; simpl; split; auto).
  destruct E1v as [E1v E1c].
  unfold seal. rewrite E1r, E1w.
  destruct (seal_rounds p h force (m_rounds m) (m_workers m)) as [[[rs2 ws2] failed] sealed] eqn:Es.
  pose proof (seal_rounds_map p h force NE _ _ _ _ _ _ Es) as Ers2.
  pose proof (seal_rounds_ws_sorted _ _ _ _ _ _ _ _ _ Es Hsw) as Sws2.
  pose proof (seal_rounds_spec _ _ _ _ _ _ _ _ _ Es) as Hsub2.
  pose proof (seal_rounds_workers p h force NE _ _ _ _ _ _ Es) as Hw2.
  assert (Hmid : RTmid p h rs2) by (rewrite Ers2; apply seal_RT; assumption).
  unfold prepare. simpl m_vals. simpl m_rounds. simpl m_workers. simpl m_msgs. simpl m_cvals. simpl m_vupd. simpl m_panic.
  destruct (h <? 1) eqn:Eh; [apply Z.ltb_lt in Eh; lia|].
  destruct (prepare_rounds (p_maxnonce p) h (p_feeders p) rs2 ws2) as [[rs4 ws4] nw] eqn:Ep.
  destruct (prepare_rounds_lookup _ _ _ _ _ _ _ _ ND Ep) as [Srs4 L4].
  destruct (prepare_rounds_ws _ _ _ _ _ _ _ _ ND Ep) as [Sws4 Hleft].
  pose proof (prepare_rounds_sub _ _ _ _ _ _ _ _ Ep) as Hsub4.
  destruct Hmid as [Srs2 Hmid2].
  assert (HRT4 : RT p h rs4) by (apply (prepare_RT p h rs2 rs4 Hok (conj Srs2 Hmid2) L4); apply Srs4; exact Srs2).
  assert (Hbw : forall fid w, aget fid ws4 = Some w -> exists r, aget fid rs4 = Some r /\ r_open r = true).
  { intros fid w Hw4. pose proof (Hsub4 _ _ Hw4) as Hw2'. destruct (Hsub2 _ _ Hw2') as [Hw0 _].
    destruct (Hwo _ _ Hw0) as [r [Hr Hd]]. destruct (Hsound _ _ Hr) as [f [Hf [Hst [Hb [Hn Ho]]]]].
    destruct (Hw2 fid r w (aget_In _ _ _ Hr) ltac:(congruence) Hw2') as [Hnc Hns].
    assert (Hop : r_open r = true) by (destruct Hd as [Hd|Hd]; [exact Hd | congruence]).
    assert (Hr2 : aget fid rs2 = Some r).
    { rewrite Ers2, aget_map_keyed, Hr. simpl. unfold seal_one. rewrite Hf, Hnc. reflexivity. }
    destruct (get_feeder_some _ _ _ Hf) as [Hin Hid]. destruct (HI _ Hin) as [HI1 HS1].
    assert (Hact : inactive f h = false) by (rewrite (inactive_ok p f h Hok Hin); apply Z.ltb_ge; lia).
    assert (Hl0 : leftb f h <> 0) by (eapply Hleft; eauto; congruence).
    destruct (left_step f h HI1 ltac:(lia) Hl0) as [A1 [A2 [A3 A4]]].
    destruct (Hmid2 _ _ Hr2) as [f' [Hf' [_ [Hb' [_ Ho']]]]]. rewrite Hf in Hf'. inversion Hf'; subst f'.
    exists r. split; [|exact Hop].
    rewrite L4, Hf, Hact, Hr2. unfold prep_one. destruct (leftb f h =? 0) eqn:E0; [apply Z.eqb_eq in E0; contradiction|].
    specialize (Ho' Hop). assert (leftb f h < p_maxnonce p) by (unfold basedb in *; lia).
    destruct (p_maxnonce p <=? leftb f h) eqn:E3; [apply Z.leb_le in E3; lia|]. rewrite Hop. reflexivity. }
  split; [|split; [reflexivity | split; [reflexivity | exact Hbw]]].
  unfold Jmid, Jcore. simpl. replace (h + 1 - 1) with h by lia.
  split; [lia|]. split; [exact HRT4|]. split; [apply Sws4; exact Sws2|]. split.
  - intros fid w Hw. destruct (Hbw _ _ Hw) as [r [Hr Ho]]. exists r. split; [exact Hr | left; exact Ho].
  - rewrite E1p. split; [exact Hp|]. split; [exact E1v | exact E1c].
Qed.

(* ---- the replay when the window holds no persisted message ------------------------------------------------ *)
Definition Rst (p : params) (vals : list (Z * Z)) (b : Z) (m : mem) : Prop :=
  RTmid p b (m_rounds m) /\ m_workers m = [] /\ m_vals m = vals /\ m_cvals m = vals /\ m_msgs m = [] /\
  m_vupd m = false /\ m_panic m = false.

Lemma RTmid_to_RT_early p b rs : params_ok p -> b < 1 -> RTmid p b rs -> RT p b rs.
Proof.
  intros [ND [Hmn [NE HI]]] Hb [S Hm]. split; [exact S|]. split.
  - intros fid r H. destruct (Hm _ _ H) as [f [Hf [Hst _]]]. destruct (get_feeder_some _ _ _ Hf) as [Hin _].
    destruct (HI _ Hin). lia.
  - intros f Hin Hst. destruct (HI _ Hin). lia.
Qed.

Lemma prepare_mem_RT p vals b m : params_ok p -> Rst p vals b m ->
  let m' := fst (prepare p b m) in
  RT p b (m_rounds m') /\ m_workers m' = [] /\ m_vals m' = vals /\ m_cvals m' = vals /\ m_msgs m' = [] /\
  m_vupd m' = false /\ m_panic m' = false.
Proof.
  intros Hok [Hmid [Hw [Hv [Hc [Hm [Hu Hp]]]]]]. pose proof Hok as [ND _]. unfold prepare.
  destruct (b <? 1) eqn:Eb; simpl.
  - apply Z.ltb_lt in Eb. split; [apply RTmid_to_RT_early; assumption|]. repeat split; assumption.
  - destruct (prepare_rounds (p_maxnonce p) b (p_feeders p) (m_rounds m) (m_workers m)) as [[rs' ws'] nw] eqn:E.
    destruct (prepare_rounds_lookup _ _ _ _ _ _ _ _ ND E) as [S L]. pose proof (prepare_rounds_sub _ _ _ _ _ _ _ _ E) as Hsub.
    destruct m; simpl in *. subst. split.
    + destruct Hmid as [S0 Hm0]. apply (prepare_RT p b m_rounds rs' Hok (conj S0 Hm0) L). apply S. exact S0.
    + split; [|repeat split; reflexivity]. apply all_none_nil. intro k. destruct (aget k ws') as [w|] eqn:Ew; [|reflexivity].
      specialize (Hsub _ _ Ew). simpl in Hsub. discriminate.
Qed.

Lemma seal_mem_RTmid p vals b m : params_ok p ->
  RT p (b - 1) (m_rounds m) -> m_workers m = [] -> m_vals m = vals -> m_cvals m = vals -> m_msgs m = [] -> m_vupd m = false -> m_panic m = false ->
  Rst p vals b (fst (fst (seal p b false m))).
Proof.
  intros [ND [Hmn [NE HI]]] [S [Hs Hc]] Hw Hv Hcv Hm Hu Hp. unfold seal.
  destruct (seal_rounds p b false (m_rounds m) (m_workers m)) as [[[rs' ws'] fl] sl] eqn:E. simpl.
  pose proof (seal_rounds_map p b false NE _ _ _ _ _ _ E) as Ers. pose proof (seal_rounds_spec _ _ _ _ _ _ _ _ _ E) as Hsub.
  destruct m; simpl in *. subst. split; [apply seal_RT; assumption|].
  split; [|repeat split; reflexivity]. simpl. apply all_none_nil. intro k. destruct (aget k ws') as [w|] eqn:Ew; [|reflexivity].
  destruct (Hsub _ _ Ew) as [A _]. simpl in A. discriminate.
Qed.

Lemma replay_block_inv p vals msgs b m n : params_ok p -> aget b msgs = None ->
  Rst p vals (b - 1) m -> Rst p vals b (fst (replay_block p msgs None (m, n) b)).
Proof.
  intros Hok Hn HR. unfold replay_block. rewrite Hn.
  destruct (prepare_mem_RT p vals (b - 1) m Hok HR) as [A1 [A2 [A3 [A4 [A5 [A6 A7]]]]]].
  destruct (prepare p (b - 1) m) as [m1 nw]. simpl in *.
  pose proof (seal_mem_RTmid p vals b m1 Hok A1 A2 A3 A4 A5 A6 A7) as HS.
  destruct (seal p b false m1) as [[m3 fl] sl]. simpl in HS. exact HS.
Qed.

Lemma replay_fold_inv p vals msgs : params_ok p -> forall n from m k,
  (forall b, from <= b -> aget b msgs = None) ->
  Rst p vals (from - 1) m ->
  Rst p vals (from + Z.of_nat n - 1) (fst (fold_left (replay_block p msgs None) (zrange from n) (m, k))).
Proof.
  intros Hok. induction n as [|n IH]; intros from m k Hn HR.
  - simpl. replace (from + 0 - 1) with (from - 1) by lia. exact HR.
  - replace (from + Z.of_nat (S n) - 1) with ((from + 1) + Z.of_nat n - 1) by lia.
    pose proof (replay_block_inv p vals msgs from m k Hok (Hn from ltac:(lia))) as Hb.
    change (fold_left (replay_block p msgs None) (zrange from (S n)) (m, k))
      with (fold_left (replay_block p msgs None) (zrange (from + 1) n) (replay_block p msgs None (m, k) from)).
    destruct (replay_block p msgs None (m, k) from) as [m' k']. simpl fst in Hb.
    apply (IH (from + 1) m' k'); [intros b Hb'; apply Hn; lia|].
    replace (from + 1 - 1) with from by lia. apply Hb. exact HR.
Qed.

(* ---- idle restart points are synced ------------------------------------------------------------------------- *)
Definition idle (p : params) (b : Z) : Prop :=
  forall f, In f (p_feeders p) -> f_start f <= b -> p_maxnonce p <= leftb f b.

Lemma RT_idle_unique p b rs1 rs2 : idle p b -> RT p b rs1 -> RT p b rs2 -> rs1 = rs2.
Proof.
  intros Hidle [S1 [Hs1 Hc1]] [S2 [Hs2 Hc2]]. apply ksorted_ext; try assumption.
  assert (Hhalf : forall ra rb, rt_sound p b ra -> rt_sound p b rb -> rt_complete p b rb ->
            forall k r, aget k ra = Some r -> aget k rb = Some r).
  { intros ra rb Hsa Hsb Hcb k r Hr. destruct (Hsa _ _ Hr) as [f [Hf [Hst [Hb [Hn Ho]]]]].
    destruct (get_feeder_some _ _ _ Hf) as [Hin Hid]. subst k.
    destruct (aget (f_id f) rb) as [r2|] eqn:E2; [|exfalso; eapply Hcb; eauto].
    destruct (Hsb _ _ E2) as [f' [Hf' [_ [Hb' [Hn' Ho']]]]]. rewrite Hf in Hf'. inversion Hf'; subst f'.
    specialize (Hidle f Hin Hst).
    assert (r_open r = false) by (destruct (r_open r); [specialize (Ho eq_refl); lia | reflexivity]).
    assert (r_open r2 = false) by (destruct (r_open r2); [specialize (Ho' eq_refl); lia | reflexivity]).
    destruct r, r2; simpl in *. congruence. }
  intro k. destruct (aget k rs1) as [r1|] eqn:E1.
  - symmetry. eapply Hhalf; [exact Hs1 | exact Hs2 | exact Hc2 | exact E1].
  - destruct (aget k rs2) as [r2|] eqn:E2; [|reflexivity].
    rewrite (Hhalf rs2 rs1 Hs2 Hs1 Hc1 k r2 E2) in E1. discriminate.
Qed.

Lemma run_J p : params_ok p -> forall ops st c, forallb plain ops = true -> Jmid p st ->
  Jmid p (fst (fold_left (step p) ops (st, c))).
Proof.
  intros Hok. induction ops as [|o ops IH]; intros st c Hp HJ; simpl; [exact HJ|].
  simpl in Hp. apply andb_prop in Hp. destruct Hp as [Ho Hp].
  destruct o as [t|vu|]; simpl in *; [| |discriminate].
  - pose proof (deliver_J p st t HJ) as HJ'. destruct (deliver p st t) as [st' cc]. simpl in HJ'. apply IH; assumption.
  - apply IH; [assumption|]. destruct (end_block_J p st vu Hok HJ) as [HJ' _]. exact HJ'.
Qed.

Lemma init_J p vals next0 : params_ok p -> Jmid p (init_state vals next0).
Proof.
  intros [ND [Hmn [NE HI]]]. unfold Jmid, Jcore. simpl. split; [lia|]. split.
  - split; [apply ksorted_nil|]. split.
    + intros fid r H. simpl in H. discriminate.
    + intros f Hin Hst. destruct (HI _ Hin). lia.
  - split; [apply ksorted_nil|]. split; [intros fid w H; simpl in H; discriminate|]. repeat split; reflexivity.
Qed.

(* the restart-point conditions, all on the committed store / params / height *)
Definition quiet (p : params) (st : state) : Prop :=
  idle p (st_h st - 1) /\
  (forall b, st_h st - p_maxnonce p + 1 <= b -> aget b (s_msgs (st_store st)) = None) /\
  match s_vub (st_store st) with Some v => v < st_h st - p_maxnonce p + 1 | None => True end.

Lemma quiet_synced p st :
  params_ok p -> Jbound p st -> safe (st_store st) (st_mem st) -> quiet p st -> synced p st.
Proof.
  intros Hok [[Hh [HRT [Hsw [Hwo [Hp [Hv Hc]]]]]] [Hm [Hu Hbw]]] Hsafe [Hidle [Hnm Hvub]].
  pose proof Hok as [ND [Hmn [NE HI]]].
  set (H := st_h st) in *. set (s := st_store st) in *. set (mn := p_maxnonce p) in *.
  (* the recached memory *)
  assert (Hfrom : (match s_vub s with Some v => if H - mn + 1 <=? v then (v, Some v) else (H - mn + 1, None) | None => (H - mn + 1, None) end) = (H - mn + 1, @None Z)).
  { destruct (s_vub s) as [v|]; [|reflexivity]. destruct (H - mn + 1 <=? v) eqn:E; [apply Z.leb_le in E; lia | reflexivity]. }
  assert (Hrec : exists mr, recache p s H = mr /\ RT p (H - 1) (m_rounds mr) /\ m_workers mr = [] /\ m_vals mr = s_vals s /\
                 m_cvals mr = s_vals s /\ m_msgs mr = [] /\ m_vupd mr = false /\ m_panic mr = false).
  { unfold recache. fold mn. rewrite Hfrom.
    destruct (H <=? H - mn + 1) eqn:E; [apply Z.leb_le in E; lia|].
    set (from := H - mn + 1).
    assert (HR0 : Rst p (s_vals s) (from - 1) (empty_mem (s_vals s))).
    { unfold Rst, empty_mem. simpl. split; [|repeat split; reflexivity]. split; [apply ksorted_nil|]. intros fid r Hr. simpl in Hr. discriminate. }
    pose proof (replay_fold_inv p (s_vals s) (s_msgs s) Hok (Z.to_nat (H - from)) from (empty_mem (s_vals s)) 0
                  (fun b Hb => Hnm b Hb) HR0) as HR1.
    replace (from + Z.of_nat (Z.to_nat (H - from)) - 1) with (H - 1) in HR1 by (unfold from; lia).
    pose proof (prepare_mem_RT p (s_vals s) (H - 1) _ Hok HR1) as HP.
    eexists. split; [reflexivity|]. exact HP. }
  destruct Hrec as [mr [Er [RTr [Wr [Vr [Cr [Mr [Ur Pr]]]]]]]].
  (* the live memory at an idle height *)
  assert (Wl : m_workers (st_mem st) = []).
  { apply all_none_nil. intro k. destruct (aget k (m_workers (st_mem st))) as [w|] eqn:Ew; [|reflexivity].
    destruct (Hbw _ _ Ew) as [r [Hr Ho]]. destruct HRT as [_ [Hs _]].
    destruct (Hs _ _ Hr) as [f [Hf [Hst [_ [_ Hol]]]]]. destruct (get_feeder_some _ _ _ Hf) as [Hin _].
    specialize (Hidle f Hin Hst). specialize (Hol Ho). fold mn in Hidle, Hol. lia. }
  assert (Rl : m_rounds (st_mem st) = m_rounds mr) by (eapply RT_idle_unique; eassumption).
  assert (Emem : st_mem st = mr).
  { destruct (st_mem st), mr; simpl in *. congruence. }
  unfold synced, twin_rel, restart. simpl. fold H s. rewrite Er.
  split; [reflexivity|]. split; [reflexivity|]. split; [rewrite Emem; reflexivity|]. split; [exact Hsafe|].
  rewrite <- Emem. exact Hsafe.
Qed.

(* ---- decidable versions for examples ------------------------------------------------------------------------- *)
Definition quiet_b (p : params) (st : state) : bool :=
  forallb (fun f => (st_h st - 1 <? f_start f) || (p_maxnonce p <=? leftb f (st_h st - 1))) (p_feeders p) &&
  forallb (fun e => fst e <? st_h st - p_maxnonce p + 1) (s_msgs (st_store st)) &&
  match s_vub (st_store st) with Some v => v <? st_h st - p_maxnonce p + 1 | None => true end.

Lemma quiet_b_sound p st : quiet_b p st = true -> quiet p st.
Proof.
  unfold quiet_b, quiet. intro H. apply andb_prop in H. destruct H as [H H3]. apply andb_prop in H. destruct H as [H1 H2].
  split; [|split].
  - intros f Hin Hst. rewrite forallb_forall in H1. specialize (H1 _ Hin). apply orb_prop in H1.
    destruct H1 as [H1|H1]; [apply Z.ltb_lt in H1; lia | apply Z.leb_le in H1; exact H1].
  - intros b Hb. destruct (aget b (s_msgs (st_store st))) as [l|] eqn:E; [|reflexivity].
    apply aget_In in E. rewrite forallb_forall in H2. specialize (H2 _ E). simpl in H2. apply Z.ltb_lt in H2. lia.
  - destruct (s_vub (st_store st)); [apply Z.ltb_lt in H3; exact H3 | exact I].
Qed.

Lemma restart_when_quiet p vals next0 ops1 vu ops2 :
  params_ok p -> forallb plain ops1 = true -> forallb plain ops2 = true ->
  quiet p (fst (run p (init_state vals next0) (ops1 ++ [OEnd vu]))) ->
  observe (run p (init_state vals next0) ((ops1 ++ [OEnd vu]) ++ ORestart :: ops2)) =
  observe (run p (init_state vals next0) ((ops1 ++ [OEnd vu]) ++ ops2)).
Proof.
  intros Hok H1 H2 Hq. pose proof Hok as [_ [Hmn _]].
  assert (Hp1 : forallb plain (ops1 ++ [OEnd vu]) = true) by (rewrite forallb_app, H1; reflexivity).
  apply single_restart; try assumption; [lia | apply init_safe|].
  apply quiet_synced; try assumption.
  - unfold run in *. rewrite fold_left_app. simpl.
    destruct (fold_left (step p) ops1 (init_state vals next0, [])) as [st1 c1] eqn:E. simpl.
    apply end_block_J; [assumption|].
    pose proof (run_J p Hok ops1 (init_state vals next0) [] H1 (init_J p vals next0 Hok)) as HJ. rewrite E in HJ. exact HJ.
  - apply run_safe; [assumption | apply init_safe].
Qed.
