(* C07/Proofs.v — lemmas for the C07 theorems (on top of the shared invariant of Dogfood/Proofs.v). *)
From Coq Require Import List Bool ZArith Lia.
From Exo Require Import Base.Util Dogfood.Model Dogfood.Proofs C07.Model.
Import ListNotations.
Local Open Scope Z_scope.

Lemma set_key_removing s o k : k_rm s o = true -> set_key s o k = (s, RErr).
Proof. intro H. unfold set_key. rewrite H. reflexivity. Qed.

Lemma no_set_while_removing s o k :
  k_rm s o = true ->
  step s (SetKey o k) = (s, RErr) /\ step s (OptInKey o k) = (s, RErr) /\ step s (OptIn o) = (s, RErr) /\
  step s (SetKeyK o k) = (s, RErr).
Proof.
  intro H. repeat split; simpl; [| | |apply set_key_removing; assumption].
  - destruct (negb (active s o)); [reflexivity | apply set_key_removing; assumption].
  - unfold opt_in. destruct (opted s o); [reflexivity|]. rewrite H. reflexivity.
  - unfold opt_in. destruct (opted s o); [reflexivity|]. rewrite H. reflexivity.
Qed.

Lemma indexes_agree s0 h : Inv s0 ->
  let s := hrun s0 h in
  (forall o, k_op s o = k_ch s o) /\ (forall o k, k_op s o = Some k -> k_rev s k = Some o).
Proof. intro I. pose proof (i_core _ (inv_hrun h s0 I)) as C. split; [apply (i_agree _ C) | apply (i_fwd _ C)]. Qed.

Lemma injective s0 h : Inv s0 ->
  let s := hrun s0 h in
  (forall o1 o2 k, k_op s o1 = Some k -> k_op s o2 = Some k -> o1 = o2) /\
  (forall c, In c (map snd (q_prune s) ++ p_prune s) -> (exists o, k_rev s c = Some o) /\ forall o, k_op s o <> Some c) /\
  NoDup (map snd (q_prune s) ++ p_prune s).
Proof.
  intro I. pose proof (i_core _ (inv_hrun h s0 I)) as C. repeat split.
  - intros o1 o2 k. apply fwd_inj. assumption.
  - destruct (i_prune _ C c H) as [H1 _]. destruct (k_rev (hrun s0 h) c) as [o|]; [exists o; reflexivity | congruence].
  - apply (i_prune _ C c H).
  - apply (i_nodup _ C).
Qed.

Lemma active_resolvable s0 h : Inv s0 ->
  let s := hrun s0 h in forall c, vs s c = true -> exists o, k_rev s c = Some o.
Proof.
  intros I s c H. pose proof (i_vs _ (inv_hrun h s0 I) c H) as Hn. fold s in Hn.
  destruct (k_rev s c) as [o|]; [exists o; reflexivity | congruence].
Qed.

Lemma removal_scheduled s0 h : Inv s0 ->
  let s := hrun s0 h in
  forall o, k_rm s o = true ->
    opted s o = false /\ k_op s o <> None /\
    (In o (p_opt s) \/ exists f, fin s o = Some f /\ cur s <= f /\ In (f, o) (q_opt s)).
Proof.
  intros I s o H. pose proof (inv_hrun h s0 I) as I'. fold s in I'. pose proof (i_core s I') as C.
  destruct (i_rm s C o H) as (H1 & H2 & H3). split; [assumption|]. split; [assumption|].
  destruct H3 as [H3|[f H3]]; [left; assumption|]. right. exists f. split; [assumption|].
  pose proof (i_fin s C o f H3) as Hin. split; [apply (i_str_opt s C (f, o) Hin) | assumption].
Qed.

(* replacing a key (first replacement of the epoch) — validating or not — schedules it for pruning at cur+unb and keeps
   its reverse lookup *)
Lemma replaced_key_scheduled s o c k : Inv s ->
  active s o = true -> k_op s o = Some c -> k_prev s o = None -> k_rev s k = None ->
  let s' := fst (step s (SetKey o k)) in
  snd (step s (SetKey o k)) = ROk /\ In (cur s + unb s, c) (q_prune s') /\ k_rev s' c = Some o /\
  k_op s' o = Some k /\ k_rev s' k = Some o /\ k_prev s' o = Some c.
Proof.
  intros I Hact Hop Hprev Hrev. pose proof (i_core s I) as C.
  assert (Hopt : opted s o = true) by (unfold active in Hact; apply andb_true_iff in Hact; tauto).
  assert (Hrm : k_rm s o = false).
  { destruct (k_rm s o) eqn:H; [|reflexivity]. destruct (i_rm s C o H) as [H1 _]. congruence. }
  assert (Hck : c <> k). { intro E. subst. rewrite (i_fwd s C o k Hop) in Hrev. discriminate. }
  simpl. rewrite Hact. cbn [negb]. unfold set_key. rewrite Hrm, Hrev, Hop. cbn [is_some].
  destruct (Z.eqb_spec c k) as [E|_]; [contradiction|]. rewrite Hprev. cbn [is_some fst snd].
  unfold hook_replaced. simp. unfold completion_epoch, mset. simp. rewrite !Z.eqb_refl.
  split; [reflexivity|]. split; [apply In_qappend; right; reflexivity|].
  destruct (Z.eqb_spec c k) as [E|_]; [contradiction|]. rewrite (i_fwd s C o c Hop). tauto.
Qed.

(* opting out with a key — validating or not — schedules the completion at cur+unb; nothing is deleted *)
Lemma optout_scheduled s o c : Inv s ->
  active s o = true -> k_op s o = Some c ->
  let s' := fst (step s (OptOut o)) in
  snd (step s (OptOut o)) = ROk /\ In (cur s + unb s, o) (q_opt s') /\ fin s' o = Some (cur s + unb s) /\
  k_rm s' o = true /\ k_rev s' = k_rev s /\ k_op s' = k_op s.
Proof.
  intros I Hact Hop. simpl. unfold opt_out. rewrite Hact, Hop. cbn [negb fst snd]. simp.
  unfold completion_epoch, mset, bset. simp. rewrite !Z.eqb_refl.
  repeat split; try reflexivity. apply In_qappend. right. reflexivity.
Qed.

(* ---- slashable until matured: a reverse lookup waiting in the prune queue for epoch f keeps pointing to the same
   operator on every history as long as epoch f has not been closed ---- *)
Lemma rev_stable_step s h c o : Inv s ->
  k_rev s c = Some o -> In c (map snd (q_prune (hstep s h))) -> In c (map snd (q_prune s)) ->
  k_rev (hstep s h) c = Some o.
Proof.
  intros I Hrev Hin' Hin. pose proof (hstep_inv s h I) as I'. pose proof (i_core _ I') as C'.
  assert (Hsome : k_rev (hstep s h) c <> None).
  { apply (i_prune _ C' c). apply in_app_iff. left. assumption. }
  destruct (k_rev (hstep s h) c) as [o'|] eqn:E; [|congruence]. clear Hsome. f_equal.
  (* whoever owns c afterwards owned it before *)
  pose proof (i_core s I) as C.
  assert (Hq : In c (map snd (q_prune s) ++ p_prune s)) by (apply in_app_iff; left; assumption).
  destruct (i_prune s C c Hq) as [_ Hnk].
  destruct h as [a|sel tick]; simpl in E.
  - destruct (is_tx a) eqn:Ht; [|congruence].
    assert (Hsk : forall t o0 k, k_rev t = k_rev s -> k_op t = k_op s ->
                  k_rev (fst (set_key t o0 k)) c = Some o' -> k_rev s c = Some o').
    { intros t o0 k R1 R2 E0. unfold set_key in E0. destruct (k_rm t o0); simpl in E0; [congruence|].
      destruct (k_rev t k) eqn:Hk; cbn [is_some] in E0; simpl in E0; [congruence|].
      assert (Hck : c <> k) by (intro; subst; rewrite R1 in Hk; congruence).
      destruct (k_op t o0) as [pk|].
      - destruct (pk =? k); simpl in E0; [congruence|].
        destruct (is_some (k_prev t o0)); simpl in E0; unfold hook_replaced in E0; simp; unfold mset in E0;
          (destruct (Z.eqb_spec c k); [contradiction | congruence]).
      - simpl in E0. unfold mset in E0. destruct (Z.eqb_spec c k); [contradiction | congruence]. }
    destruct a; simpl in Ht; try discriminate; simpl in E.
    + (* OptInKey *)
      destruct (opt_in s o0) as [s1 r1] eqn:E1. destruct r1; simpl in E; try congruence.
      assert (Hs1 : k_rev s1 = k_rev s /\ k_op s1 = k_op s).
      { unfold opt_in in E1. destruct (opted s o0); [inversion E1; subst; tauto|].
        destruct (k_rm s o0); inversion E1; subst; simp; tauto. }
      destruct Hs1 as (R1 & R2).
      destruct (set_key s1 o0 k) as [s2 r2] eqn:E2. destruct r2; simpl in E; try congruence.
      assert (E3 : k_rev (fst (set_key s1 o0 k)) c = Some o') by (rewrite E2; exact E).
      rewrite (Hsk s1 o0 k R1 R2 E3) in Hrev. congruence.
    + (* OptIn *)
      unfold opt_in in E. destruct (opted s o0); simpl in E; [congruence|]. destruct (k_rm s o0); simpl in E; congruence.
    + (* SetKey *)
      destruct (negb (active s o0)); simpl in E; [congruence|].
      rewrite (Hsk s o0 k eq_refl eq_refl E) in Hrev. congruence.
    + (* OptOut *)
      unfold opt_out in E. destruct (negb (active s o0)); simpl in E; [congruence|].
      destruct (k_op s o0); simpl in E; congruence.
    + (* Undelegate *)
      unfold undelegate in E. destruct (k_rm s o0); [destruct (fin s o0)|destruct (validating s o0)]; simpl in E; congruence.
    + (* SetUnb *)
      destruct (0 <? n); simpl in E; congruence.
    + (* SetKeyK *)
      rewrite (Hsk s o0 k eq_refl eq_refl E) in Hrev. congruence.
    + (* Jail *)
      unfold set_jailed in E. destruct (k_rev s c0) as [o1|]; [destruct (info s o1)|]; simpl in E; congruence.
    + (* Unjail *)
      unfold set_jailed in E. destruct (k_rev s c0) as [o1|]; [destruct (info s o1)|]; simpl in E; congruence.
    + congruence.
    + (* SetClock *)
      destruct (nothing_scheduled s); simpl in E; congruence.
  - pose proof (end_block_effect s sel I) as H. cbv zeta in H.
    destruct H as (_ & _ & _ & _ & _ & _ & _ & _ & H1 & H2).
    assert (E' : k_rev (fst (end_block s sel)) c = Some o') by (destruct tick; exact E). clear E. rename E' into E.
    destruct (ep_end s) eqn:He.
    + destruct (H2 eq_refl) as (_ & _ & _ & _ & _ & _ & Hm). apply Hm in E. congruence.
    + rewrite (H1 eq_refl) in E. congruence.
Qed.

Lemma slashable_until_matured l : forall s c o f, Inv s ->
  In (f, c) (q_prune s) -> k_rev s c = Some o ->
  all_states (fun t => cur t <= f) s l ->
  let s' := hrun s l in k_rev s' c = Some o /\ In (f, c) (q_prune s').
Proof.
  induction l as [|h l IH]; intros s c o f I Hin Hrev Hall; simpl; [tauto|].
  simpl in Hall. destruct Hall as [_ Hall]. pose proof (all_states_head _ _ _ Hall) as Hc. simpl in Hc.
  pose proof (hstep_inv s h I) as I1. destruct (hstep_keeps s h I) as (_ & B2 & _).
  destruct (B2 (f, c) Hin) as [Hin1|Hlt]; [|simpl in Hlt; lia].
  apply IH; try assumption.
  apply rev_stable_step; try assumption; apply in_map_iff; exists (f, c); tauto.
Qed.

(* the same, for the address of an operator that is opting out: the key indexes are untouched until the completion *)
Lemma optout_resolvable_until_matured l : forall s o c f, Inv s ->
  In (f, o) (q_opt s) -> k_op s o = Some c ->
  all_states (fun t => cur t <= f) s l ->
  let s' := hrun s l in k_op s' o = Some c /\ k_rev s' c = Some o /\ In (f, o) (q_opt s').
Proof.
  induction l as [|h l IH]; intros s o c f I Hin Hop Hall; simpl.
  { split; [assumption|]. split; [apply (i_fwd s (i_core s I)); assumption | assumption]. }
  simpl in Hall. destruct Hall as [_ Hall]. pose proof (all_states_head _ _ _ Hall) as Hc. simpl in Hc.
  pose proof (hstep_inv s h I) as I1. destruct (hstep_keeps s h I) as (B1 & _ & _).
  destruct (B1 (f, o) Hin) as [Hin1|Hlt]; [|simpl in Hlt; lia].
  apply IH; try assumption.
  (* the operator is removing (marker set) in s and after the step, so nothing can touch its forward index *)
  pose proof (i_core s I) as C. destruct (i_qopt s C f o Hin) as [Hrm _].
  destruct h as [a|sel tick]; simpl.
  - destruct (is_tx a) eqn:Ht; [|assumption].
    destruct a; simpl in Ht; try discriminate; simpl.
    + unfold opt_in. destruct (Z.eq_dec o0 o) as [->|Ne].
      * destruct (opted s o); [assumption|]. rewrite Hrm. assumption.
      * destruct (opted s o0); [assumption|]. destruct (k_rm s o0); [assumption|]. simpl.
        destruct (set_key _ o0 k) as [s2 r2] eqn:E2. destruct r2; simpl; try assumption.
        assert (E3 : k_op (fst (set_key (with_jail (with_opted s (bset (opted s) o0 true)) (bset (jailed s) o0 false) (bset (info s) o0 true)) o0 k)) o = Some c).
        { apply set_key_other; [assumption | exact Hop]. }
        rewrite E2 in E3. exact E3.
    + unfold opt_in. destruct (opted s o0); [assumption|]. destruct (k_rm s o0); simpl; assumption.
    + destruct (negb (active s o0)); [assumption|]. destruct (Z.eq_dec o0 o) as [->|Ne].
      * rewrite set_key_removing; assumption.
      * apply set_key_other; assumption.
    + unfold opt_out. destruct (negb (active s o0)); [assumption|]. destruct (k_op s o0); simpl; assumption.
    + unfold undelegate. destruct (k_rm s o0); [destruct (fin s o0)|destruct (validating s o0)]; simpl; assumption.
    + destruct (0 <? n); simpl; assumption.
    + destruct (Z.eq_dec o0 o) as [->|Ne].
      * rewrite set_key_removing; assumption.
      * apply set_key_other; assumption.
    + unfold set_jailed. destruct (k_rev s c0) as [o1|]; [destruct (info s o1)|]; simpl; assumption.
    + unfold set_jailed. destruct (k_rev s c0) as [o1|]; [destruct (info s o1)|]; simpl; assumption.
    + assumption.
    + destruct (nothing_scheduled s); simpl; assumption.
  - (* block boundary: o is still queued afterwards, hence still removing, hence still has its key: the same key *)
    set (t := hstep s (NextBlock sel tick)) in *.
    pose proof (i_core t I1) as C1.
    destruct (i_qopt t C1 f o Hin1) as [Hrm1 _]. destruct (i_rm t C1 o Hrm1) as (_ & Hk & _).
    destruct (k_op t o) as [c'|] eqn:Hop'; [|congruence].
    assert (Hop0 : k_op (fst (end_block s sel)) o = Some c') by (subst t; simpl in Hop'; destruct tick; exact Hop').
    apply end_block_op_mono in Hop0. change (k_op t o = Some c). rewrite Hop'. congruence.
Qed.

(* ... is moved to the pending list by the block that closes epoch f and pruned by that block's EndBlock *)
Lemma pruned_then s sel c : Inv s -> ep_end s = true -> In c (p_prune s) ->
  k_rev (fst (step s (EndBlock sel))) c = None.
Proof.
  intros I He Hin. simpl. pose proof (end_block_effect s sel I) as H. cbv zeta in H.
  destruct H as (_ & _ & _ & _ & _ & _ & _ & _ & _ & H2). destruct (H2 He) as (_ & _ & _ & _ & _ & Hp & _). apply Hp. assumption.
Qed.

(* ---- slash / jail by consensus address ---- *)
Lemma jail_by_address s c o (v : bool) : k_rev s c = Some o ->
  slash_target s c = Some o /\
  (let s' := fst (step s (if v then Jail c else Unjail c)) in
   jailed s' o = (if info s o then v else jailed s o) /\ (forall o', o' <> o -> jailed s' o' = jailed s o') /\
   k_rev s' = k_rev s /\ k_op s' = k_op s /\ k_ch s' = k_ch s /\ k_prev s' = k_prev s /\ k_rm s' = k_rm s /\
   opted s' = opted s /\ vs s' = vs s /\ q_opt s' = q_opt s /\ q_prune s' = q_prune s /\ q_und s' = q_und s /\
   holds s' = holds s).
Proof.
  intro H. split; [exact H|]. destruct v; simpl; unfold set_jailed; rewrite H; destruct (info s o); simp; unfold bset;
    rewrite ?Z.eqb_refl; repeat split; try reflexivity; intros o' Ne; destruct (Z.eqb_spec o' o); congruence.
Qed.

Lemma jail_unresolved s c : k_rev s c = None ->
  slash_target s c = None /\ step s (Jail c) = (s, ROk) /\ step s (Unjail c) = (s, ROk) /\ jail_probe s c = false.
Proof. intro H. unfold slash_target, jail_probe. simpl. unfold set_jailed. rewrite H. tauto. Qed.

(* a jailed operator cannot leave: neither opt out nor (through the message) replace its key *)
Lemma jailed_cannot_leave s o k : jailed s o = true ->
  step s (OptOut o) = (s, RErr) /\ step s (SetKey o k) = (s, RErr).
Proof.
  intro H. simpl. unfold opt_out, active. rewrite H, andb_false_r. tauto.
Qed.

(* whatever the selection by vote power: the set stored when an epoch closes contains only current keys of operators
   that are opted in and not jailed, each resolving to that operator *)
Lemma jailed_not_selected s sel : Inv s -> ep_end s = true ->
  let s' := fst (step s (EndBlock sel)) in
  forall c, vs s' c = true ->
    exists o, In o sel /\ opted s' o = true /\ jailed s' o = false /\ k_op s' o = Some c /\ k_rev s' c = Some o /\
              jailed s' = jailed s.
Proof. intros I He. simpl. apply end_block_vs; assumption. Qed.

(* the key replaced during this epoch, while it is still validating, resolves to the operator that replaced it *)
Lemma previous_key_resolvable s0 h : Inv s0 ->
  let s := hrun s0 h in forall o pk, k_prev s o = Some pk -> vs s pk = true -> k_rev s pk = Some o.
Proof. intros I s. apply (i_prev _ (inv_hrun h s0 I)). Qed.

(* the monitor's state predicates hold of the model on every history *)
Lemma monitor_state_sound U s : Inv s ->
  b_agree U s = true /\ b_inj U s = true /\ b_queued_resolvable s = true /\ b_removal_scheduled U s = true /\
  b_vs_resolvable U s = true.
Proof.
  intro I. pose proof (i_core s I) as C. repeat split.
  - unfold b_agree. apply forallb_forall. intros o _. apply andb_true_iff. split.
    + rewrite (i_agree s C o). unfold oz_eqb, option_eqb. destruct (k_ch s o); [apply Z.eqb_refl | reflexivity].
    + destruct (k_op s o) as [k|] eqn:E; [|reflexivity]. rewrite (i_fwd s C o k E). unfold oz_eqb. simpl. apply Z.eqb_refl.
  - unfold b_inj. apply forallb_forall. intros o1 _. apply forallb_forall. intros o2 _.
    destruct (k_op s o1) as [a|] eqn:E1; [|reflexivity]. destruct (k_op s o2) as [b|] eqn:E2; [|reflexivity].
    destruct (Z.eqb_spec a b); [|reflexivity]. subst. simpl. apply Z.eqb_eq. eapply fwd_inj; eauto.
  - unfold b_queued_resolvable. apply andb_true_iff. split; apply forallb_forall.
    + intros p Hp. assert (Hin : In (snd p) (map snd (q_prune s) ++ p_prune s)) by (apply in_app_iff; left; apply in_map; assumption).
      destruct (i_prune s C _ Hin) as [H _]. destruct (k_rev s (snd p)); [reflexivity | congruence].
    + intros c Hc. assert (Hin : In c (map snd (q_prune s) ++ p_prune s)) by (apply in_app_iff; right; assumption).
      destruct (i_prune s C _ Hin) as [H _]. destruct (k_rev s c); [reflexivity | congruence].
  - unfold b_removal_scheduled. apply forallb_forall. intros o _. destruct (k_rm s o) eqn:Hrm; [|reflexivity]. cbn [negb orb].
    destruct (i_rm s C o Hrm) as (H1 & H2 & H3). rewrite H1. destruct (k_op s o); [|congruence]. cbn [is_some negb andb].
    destruct H3 as [H3|[f H3]].
    + apply zmem_In in H3. rewrite H3. reflexivity.
    + rewrite H3. pose proof (i_fin s C o f H3) as Hin. pose proof (i_str_opt s C (f, o) Hin) as Hle. simpl in Hle.
      apply orb_true_iff. right. apply andb_true_iff. split; [apply Z.leb_le; assumption|]. apply zmem_In, In_qget. assumption.
  - unfold b_vs_resolvable. apply andb_true_iff. split; apply forallb_forall.
    + intros c _. destruct (vs s c) eqn:Hv; [|reflexivity]. cbn [negb orb].
      pose proof (i_vs s I c Hv). destruct (k_rev s c); [reflexivity | congruence].
    + intros o _. destruct (k_prev s o) as [pk|] eqn:Hp; [|reflexivity]. destruct (vs s pk) eqn:Hv; [|reflexivity].
      cbn [negb orb]. rewrite (i_prev s I o pk Hp Hv). unfold oz_eqb. simpl. apply Z.eqb_refl.
Qed.
