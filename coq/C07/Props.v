(* C07/Props.v — property theorems only.  Model: Dogfood/Model.v (repaired code); invariant: Dogfood/Proofs.v.
   Histories ([hrun]) are arbitrary sequences of transactions (opt-in with key, opt-in, key replacement — any number per
   epoch, to any key incl. earlier ones and other operators' current / previous / not-yet-pruned keys —, opt-out,
   undelegation, change of EpochsUntilUnbonded) and block boundaries NextBlock sel tick with ANY validator selection. *)
From Coq Require Import List Bool ZArith.
From Exo Require Import Base.Util Dogfood.Model Dogfood.Proofs C07.Model C07.Proofs C07.ProofsPrev.
Import ListNotations.
Local Open Scope Z_scope.

(* the three key indexes agree on every history *)
Theorem C07_indexes_agree : forall s0 h, Inv s0 ->
  let s := hrun s0 h in
  (forall o, k_op s o = k_ch s o) /\ (forall o k, k_op s o = Some k -> k_rev s k = Some o).
Proof. exact indexes_agree. Qed.
Print Assumptions C07_indexes_agree.

(* a key is the current key of at most one operator; a replaced key that has not matured yet still resolves to an
   operator, is nobody's current key (so nobody can have acquired it), and is scheduled exactly once *)
Theorem C07_injective : forall s0 h, Inv s0 ->
  let s := hrun s0 h in
  (forall o1 o2 k, k_op s o1 = Some k -> k_op s o2 = Some k -> o1 = o2) /\
  (forall c, In c (map snd (q_prune s) ++ p_prune s) -> (exists o, k_rev s c = Some o) /\ forall o, k_op s o <> Some c) /\
  NoDup (map snd (q_prune s) ++ p_prune s).
Proof. exact injective. Qed.
Print Assumptions C07_injective.

(* every address of the stored validator set resolves to an operator (can be slashed / jailed) on every history *)
Theorem C07_active_resolvable : forall s0 h, Inv s0 ->
  let s := hrun s0 h in forall c, vs s c = true -> exists o, k_rev s c = Some o.
Proof. exact active_resolvable. Qed.
Print Assumptions C07_active_resolvable.

(* this epoch's previous key, while it is still in the stored validator set, resolves to the operator that replaced it *)
Theorem C07_previous_key_resolvable : forall s0 h, Inv s0 ->
  let s := hrun s0 h in forall o pk, k_prev s o = Some pk -> vs s pk = true -> k_rev s pk = Some o.
Proof. exact previous_key_resolvable. Qed.
Print Assumptions C07_previous_key_resolvable.

(* an operator that is removing its key cannot set a new one (nor opt in again); nothing changes *)
Theorem C07_no_set_while_removing : forall s o k,
  k_rm s o = true ->
  step s (SetKey o k) = (s, RErr) /\ step s (OptInKey o k) = (s, RErr) /\ step s (OptIn o) = (s, RErr) /\
  step s (SetKeyK o k) = (s, RErr).
Proof. exact no_set_while_removing. Qed.
Print Assumptions C07_no_set_while_removing.

(* a removal marker never stays behind: it is always scheduled for completion at an epoch >= the current one, or
   is being completed by the current block; the operator keeps its key until then and is not opted in *)
Theorem C07_removal_scheduled : forall s0 h, Inv s0 ->
  let s := hrun s0 h in
  forall o, k_rm s o = true ->
    opted s o = false /\ k_op s o <> None /\
    (In o (p_opt s) \/ exists f, fin s o = Some f /\ cur s <= f /\ In (f, o) (q_opt s)).
Proof. exact removal_scheduled. Qed.
Print Assumptions C07_removal_scheduled.

(* slashable: replacing a key (validating now or not — it may have validated until the last epoch end) while epoch e is
   current with unbonding n schedules its pruning for e+n ... *)
Theorem C07_replaced_key_scheduled : forall s o c k, Inv s ->
  active s o = true -> k_op s o = Some c -> k_prev s o = None -> k_rev s k = None ->
  let s' := fst (step s (SetKey o k)) in
  snd (step s (SetKey o k)) = ROk /\ In (cur s + unb s, c) (q_prune s') /\ k_rev s' c = Some o /\
  k_op s' o = Some k /\ k_rev s' k = Some o /\ k_prev s' o = Some c.
Proof. exact replaced_key_scheduled. Qed.
Print Assumptions C07_replaced_key_scheduled.

(* ... opting out with a key schedules the completion for e+n and deletes nothing ... *)
Theorem C07_optout_scheduled : forall s o c, Inv s ->
  active s o = true -> k_op s o = Some c ->
  let s' := fst (step s (OptOut o)) in
  snd (step s (OptOut o)) = ROk /\ In (cur s + unb s, o) (q_opt s') /\ fin s' o = Some (cur s + unb s) /\
  k_rm s' o = true /\ k_rev s' = k_rev s /\ k_op s' = k_op s.
Proof. exact optout_scheduled. Qed.
Print Assumptions C07_optout_scheduled.

(* ... on every continuation during which epoch f is not closed ([all_states]: the dogfood epoch clock may be exchanged
   by a parameter change, so "cur <= f" is required of every state passed) the scheduled address keeps resolving to
   the SAME operator ... *)
Theorem C07_slashable_until_matured : forall l s c o f, Inv s ->
  In (f, c) (q_prune s) -> k_rev s c = Some o ->
  all_states (fun t => cur t <= f) s l ->
  let s' := hrun s l in k_rev s' c = Some o /\ In (f, c) (q_prune s').
Proof. exact slashable_until_matured. Qed.
Print Assumptions C07_slashable_until_matured.

(* ... and so does the key of an operator that is opting out, whose key indexes are untouched until the completion ... *)
Theorem C07_optout_resolvable_until_matured : forall l s o c f, Inv s ->
  In (f, o) (q_opt s) -> k_op s o = Some c ->
  all_states (fun t => cur t <= f) s l ->
  let s' := hrun s l in k_op s' o = Some c /\ k_rev s' c = Some o /\ In (f, o) (q_opt s').
Proof. exact optout_resolvable_until_matured. Qed.
Print Assumptions C07_optout_resolvable_until_matured.

(* ... lifted to the entry points of the slashing / evidence modules: while the registry resolves the address, slashing
   by consensus address reaches exactly that operator and Jail / Unjail set exactly its flag and nothing else;
   once it does not, all three do nothing *)
Theorem C07_slash_jail_by_address : forall s c o (v : bool), k_rev s c = Some o ->
  slash_target s c = Some o /\
  (let s' := fst (step s (if v then Jail c else Unjail c)) in
   jailed s' o = (if info s o then v else jailed s o) /\ (forall o', o' <> o -> jailed s' o' = jailed s o') /\
   k_rev s' = k_rev s /\ k_op s' = k_op s /\ k_ch s' = k_ch s /\ k_prev s' = k_prev s /\ k_rm s' = k_rm s /\
   opted s' = opted s /\ vs s' = vs s /\ q_opt s' = q_opt s /\ q_prune s' = q_prune s /\ q_und s' = q_und s /\
   holds s' = holds s).
Proof. exact jail_by_address. Qed.
Print Assumptions C07_slash_jail_by_address.

Theorem C07_slash_jail_unresolved : forall s c, k_rev s c = None ->
  slash_target s c = None /\ step s (Jail c) = (s, ROk) /\ step s (Unjail c) = (s, ROk) /\ jail_probe s c = false.
Proof. exact jail_unresolved. Qed.
Print Assumptions C07_slash_jail_unresolved.

(* jailing and the selection input: whatever [sel] is, the set stored when an epoch closes contains only current keys of
   operators that are opted in and NOT jailed, each resolving to that operator; and a jailed operator cannot opt out or
   replace its key through the message, so it stays resolvable *)
Theorem C07_jailed_not_selected : forall s sel, Inv s -> ep_end s = true ->
  let s' := fst (step s (EndBlock sel)) in
  forall c, vs s' c = true ->
    exists o, In o sel /\ opted s' o = true /\ jailed s' o = false /\ k_op s' o = Some c /\ k_rev s' c = Some o /\
              jailed s' = jailed s.
Proof. exact jailed_not_selected. Qed.
Print Assumptions C07_jailed_not_selected.

Theorem C07_jailed_cannot_leave : forall s o k, jailed s o = true ->
  step s (OptOut o) = (s, RErr) /\ step s (SetKey o k) = (s, RErr).
Proof. exact jailed_cannot_leave. Qed.
Print Assumptions C07_jailed_cannot_leave.

(* ... and is pruned by the EndBlock of the block that closed it (C16_tick_moves_due puts it on the pending list) *)
Theorem C07_pruned_then : forall s sel c, Inv s -> ep_end s = true -> In c (p_prune s) ->
  k_rev (fst (step s (EndBlock sel))) c = None.
Proof. exact pruned_then. Qed.
Print Assumptions C07_pruned_then.

(* the state predicates the monitor evaluates on the implementation hold of the model on every history *)
Theorem C07_monitor_state_sound : forall U s0 h, Inv s0 ->
  let s := hrun s0 h in
  b_agree U s = true /\ b_inj U s = true /\ b_queued_resolvable s = true /\ b_removal_scheduled U s = true /\
  b_vs_resolvable U s = true.
Proof. intros U s0 h I. apply monitor_state_sound. apply inv_hrun. exact I. Qed.
Print Assumptions C07_monitor_state_sound.

(* (was C07_ever_active_refuted before repo_patches/fix-dogfood-keep-replaced-keys-for-unbonding.patch) a key that left the
   validator set at the last epoch end because its operator was deselected is kept on replacement like any other *)
Example C07_deselected_key_kept :
  let s := hrun ex_state [NextBlock [0; 1] true; NextBlock [0] false; Tx (SetKey 1 12)] in
  (vs ex_state 11, vs s 11, cur s, k_rev s 11, q_prune s) = (true, false, 6, Some 1, [(8, 11)]).
Proof. vm_compute. reflexivity. Qed.

(* The previous key is recorded once per epoch: the first accepted replacement A -> B of an epoch records A, and A is
   still the recorded previous key after ANY later history without an EndBlock — further replacements B -> C -> ...
   included — so [validating] (the test that decides whether an undelegation is held) keeps looking at the key that is
   still in the active set. (An EndBlock that does not follow an epoch end changes nothing: [end_block_mid_epoch].) *)
Theorem C07_prev_key_once_per_epoch : forall s o k pk ops,
  k_rm s o = false -> k_rev s k = None -> k_op s o = Some pk -> pk <> k -> k_prev s o = None ->
  Forall not_end_block ops ->
  k_prev (fst (set_key s o k)) o = Some pk /\ k_op (fst (set_key s o k)) o = Some k /\
  snd (set_key s o k) = ROk /\
  k_prev (run (fst (set_key s o k)) ops) o = Some pk.
Proof.
  intros s o k pk ops R V K NE P F.
  destruct (first_replacement_records_thm s o k pk R V K NE P) as (A & B & C).
  repeat split; try assumption. exact (prev_key_once_per_epoch_thm s o k pk ops R V K NE P F).
Qed.
Print Assumptions C07_prev_key_once_per_epoch.

(* ---- non-vacuity ---- *)
Example C07_inv_satisfiable : Inv ex_state.
Proof. exact ex_state_inv. Qed.

Definition ex_history : list hop :=
  [Tx (SetKey 0 12); Tx (SetKey 0 13); Tx (SetKey 1 12); Tx (SetKey 1 10);   (* A->B->C by op 0; op 1 tries B and A *)
   Tx (OptOut 1); Tx (SetKey 1 14);
   NextBlock [0; 1] true; NextBlock [0] true].

Example ex_run :
  let s := hrun ex_state ex_history in
  (cur s, k_op s 0, k_rev s 10, k_rev s 12, k_op s 1, k_rm s 1, q_prune s, q_opt s) =
  (7, Some 13, Some 0, Some 0, Some 11, true, [(7, 10)], [(7, 1)]).
Proof. vm_compute. reflexivity. Qed.

(* C07_prev_key_once_per_epoch on the example state: operator 0 holds key 10 (active); 10 -> 12 -> 13 in one epoch *)
Example ex_prev_once :
  (k_rm ex_state 0, k_rev ex_state 12, k_op ex_state 0, k_prev ex_state 0) = (false, None, Some 10, None) /\
  k_prev (run (fst (set_key ex_state 0 12)) [SetKey 0 13; Undelegate 0 77; SetKey 0 14]) 0 = Some 10.
Proof. vm_compute. auto. Qed.
