(* C07/Model.v — the statement of C07 as boolean predicates, evaluated on the IMPLEMENTATION's observed
   states (abs of the harness dump); the transition function of the model is not used here.
   The shared executable model (step, check_case) lives in Dogfood/Model.v. *)
From Coq Require Import List Bool ZArith Lia.
From Exo Require Import Base.Util Dogfood.Model.
Import ListNotations.
Local Open Scope Z_scope.
Local Open Scope list_scope.

Definition case_type := case.
Definition c07_check_case := check_case.

(* ---- state predicates (U = finite universe of the case) ---- *)

(* the three key indexes agree, and the reverse lookup contains every operator's current key *)
Definition b_agree (U : univ) (s : st) : bool :=
  forallb (fun o => oz_eqb (k_op s o) (k_ch s o) &&
                    match k_op s o with Some k => oz_eqb (k_rev s k) (Some o) | None => true end) (u_ops U).

(* a key is the current key of at most one operator *)
Definition b_inj (U : univ) (s : st) : bool :=
  forallb (fun o1 => forallb (fun o2 =>
     match k_op s o1, k_op s o2 with
     | Some a, Some b => negb (a =? b) || (o1 =? o2)
     | _, _ => true
     end) (u_ops U)) (u_ops U).

(* every address of the stored validator set resolves to an operator; a validating previous key resolves
   to the operator that replaced it *)
Definition b_vs_resolvable (U : univ) (s : st) : bool :=
  forallb (fun c => negb (vs s c) || is_some (k_rev s c)) (u_keys U) &&
  forallb (fun o => match k_prev s o with
                    | Some pk => negb (vs s pk) || oz_eqb (k_rev s pk) (Some o)
                    | None => true
                    end) (u_ops U).

(* every address waiting to be pruned is still resolvable *)
Definition b_queued_resolvable (s : st) : bool :=
  forallb (fun p => is_some (k_rev s (snd p))) (q_prune s) && forallb (fun c => is_some (k_rev s c)) (p_prune s).

(* a removal marker is always scheduled for completion (or being completed in this block), the operator
   still has its key and is not opted in *)
Definition b_removal_scheduled (U : univ) (s : st) : bool :=
  forallb (fun o => negb (k_rm s o) ||
     (is_some (k_op s o) && negb (opted s o) &&
      (zmem o (p_opt s) ||
       match fin s o with Some f => (cur s <=? f) && zmem o (qget (q_opt s) f) | None => false end))) (u_ops U).

Definition c07_state_ok (U : univ) (s : st) : bool :=
  b_agree U s && b_inj U s && b_vs_resolvable U s && b_queued_resolvable s && b_removal_scheduled U s.

(* ---- step predicates on (observed before, op, result, observed after) ---- *)

Definition keys_same (U : univ) (a b : st) : bool :=
  forallb (fun o => oz_eqb (k_op a o) (k_op b o) && oz_eqb (k_ch a o) (k_ch b o) && oz_eqb (k_prev a o) (k_prev b o) &&
                    Bool.eqb (k_rm a o) (k_rm b o)) (u_ops U) &&
  forallb (fun c => oz_eqb (k_rev a c) (k_rev b c)) (u_keys U).

(* an operator that is removing its key cannot set a new one *)
Definition b_no_set_while_removing (U : univ) (a : st) (x : op) (r : res) (b : st) : bool :=
  match x with
  | SetKey o _ | SetKeyK o _ | OptInKey o _ | OptIn o => negb (k_rm a o) || (negb (res_eqb r ROk) && keys_same U a b)
  | _ => true
  end.

(* a transaction never touches the reverse lookup of an address of the stored validator set, and the block
   boundary code removes a reverse lookup only when it was pending *)
Definition b_active_rev_kept (U : univ) (a : st) (x : op) (b : st) : bool :=
  match x with
  | EndBlock _ =>
      forallb (fun c => negb (is_some (k_rev a c)) || is_some (k_rev b c) || zmem c (p_prune a) ||
                        existsb (fun o => k_rm a o && oz_eqb (k_op a o) (Some c)) (p_opt a)) (u_keys U)
  | BeginBlock _ => forallb (fun c => oz_eqb (k_rev a c) (k_rev b c)) (u_keys U)
  | _ => forallb (fun c => negb (vs a c) || oz_eqb (k_rev a c) (k_rev b c)) (u_keys U)
  end.

(* ---- end-to-end ghost monitor: an address of the stored validator set that is replaced / whose operator
   opts out while epoch e is current with unbonding n stays resolvable to that operator up to and including the
   block that closes epoch e+n, and is pruned by the EndBlock of that block ---- *)
Record oblig := mkOb { ob_c : Z; ob_o : Z; ob_deadline : Z }.

(* (repaired code) EVERY key that is replaced by the first replacement of an epoch, and the key of EVERY operator that
   opts out, must stay resolvable for the unbonding period — whether or not it is in the stored validator set right now
   (it may have been until the last epoch end: operator deselected by vote power, validator limit or jailing) *)
Definition new_obligs (U : univ) (a : st) (x : op) (r : res) : list oblig :=
  if negb (res_eqb r ROk) then [] else
  match x with
  | SetKey o k | SetKeyK o k | OptInKey o k =>
      match k_op a o with
      | Some c => if negb (c =? k) && negb (is_some (k_prev a o)) then [mkOb c o (cur a + unb a)] else []
      | None => []
      end
  | OptOut o =>
      match k_op a o with
      | Some c => [mkOb c o (cur a + unb a)]
      | None => []
      end
  | _ => []
  end.

(* Jail / Unjail by consensus address set the flag of exactly the operator the registry resolves the address to (if
   it has an opted-info record) and touch nothing else; slashing by consensus address reaches exactly that operator *)
Definition b_jail_slash (U : univ) (a : st) (x : op) (slashed : list Z) (b : st) : bool :=
  let flags_as (c : Z) (v : bool) :=
    forallb (fun o => Bool.eqb (jailed b o)
                        (if oz_eqb (k_rev a c) (Some o) && info a o then v else jailed a o)) (u_ops U) && keys_same U a b in
  match x with
  | Jail c => flags_as c true
  | Unjail c => flags_as c false
  | SlashBy c => lz_eqb slashed (match k_rev a c with Some o => [o] | None => [] end) && keys_same U a b &&
                 forallb (fun o => Bool.eqb (jailed b o) (jailed a o)) (u_ops U)
  | OptIn _ | OptInKey _ _ => match slashed with [] => true | _ => false end
  | _ => forallb (fun o => Bool.eqb (jailed b o) (jailed a o)) (u_ops U) && match slashed with [] => true | _ => false end
  end.

(* jailing and the selection: after the EndBlock that closes an epoch no address of the stored validator set belongs
   to a jailed or opted-out operator, whatever the selection by vote power was; a jailed operator cannot leave *)
Definition b_jail_selection (U : univ) (a : st) (x : op) (r : res) (b : st) : bool :=
  match x with
  | EndBlock _ =>
      negb (ep_end a) ||
      forallb (fun c => negb (vs b c) ||
                        match k_rev b c with Some o => opted b o && negb (jailed b o) | None => false end) (u_keys U)
  | OptOut o | SetKey o _ => negb (jailed a o) || (negb (res_eqb r ROk) && keys_same U a b)
  | _ => true
  end.

(* obligations checked on the state after the step; returns the obligations that remain *)
Definition check_obligs (x : op) (b : st) (l : list oblig) : option (list oblig) :=
  let due ob := match x with EndBlock _ => cur b =? ob_deadline ob + 1 | _ => false end in
  let late ob := (ob_deadline ob + 1 <? cur b) in
  if forallb (fun ob => if due ob then negb (is_some (k_rev b (ob_c ob)))
                        else if late ob then false
                        else oz_eqb (k_rev b (ob_c ob)) (Some (ob_o ob))) l
  then Some (filter (fun ob => negb (due ob)) l) else None.

(* "remains resolvable ... so that it can still be slashed and jailed": whatever state the operator is in (opted out
   and unbonding, jailed, pools of assets the chain does not accept, ...), every address the registry resolves to an
   operator that still has a key must also be resolved by ValidatorByConsAddr — the staking interface through which
   x/slashing and x/evidence find the validator before they slash and jail (observed: [o_probe]) *)
Definition b_sdk_resolvable (b : st) (probes : list (Z * bool)) : bool :=
  forallb (fun p => negb (match k_rev b (fst p) with Some o => is_some (k_op b o) | None => false end) || snd p) probes.

Fixpoint monitor_steps (U : univ) (a : st) (obl : list oblig) (l : list stepobs) (i : nat) : option nat :=
  match l with
  | [] => None
  | x :: rest =>
      let b := abs (so_obs x) in
      if c07_state_ok U b && b_no_set_while_removing U a (so_op x) (so_res x) b && b_active_rev_kept U a (so_op x) b &&
         b_jail_slash U a (so_op x) (o_slashed (so_obs x)) b && b_jail_selection U a (so_op x) (so_res x) b &&
         b_sdk_resolvable b (o_probe (so_obs x))
      then match check_obligs (so_op x) b (obl ++ new_obligs U a (so_op x) (so_res x)) with
           | Some obl' => monitor_steps U b obl' rest (S i)
           | None => Some i
           end
      else Some i
  end.

Definition monitor_case (c : case) : option nat :=
  if negb (c07_state_ok (c_univ c) (abs (c_init c)) && b_sdk_resolvable (abs (c_init c)) (o_probe (c_init c))) then Some 0%nat
  else monitor_steps (c_univ c) (abs (c_init c)) [] (c_steps c) 1.
