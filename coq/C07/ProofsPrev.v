(* C07/ProofsPrev.v — "the previous key is recorded once per epoch": the key an operator held when it
   first replaced its key in an epoch stays the recorded previous key through every later operation —
   further replacements included — until the EndBlock that follows the epoch end clears the records.
   This is what keeps [validating] (and with it the hold on undelegations) tied to the key that is still
   in the active set. *)
From Coq Require Import List Bool ZArith Lia.
From Exo Require Import Base.Util Dogfood.Model.
Import ListNotations.
Local Open Scope Z_scope.

(* operations that cannot clear the previous-key records: everything except an EndBlock *)
Definition not_end_block (a : op) : Prop := match a with EndBlock _ => False | _ => True end.

Lemma set_key_prev_kept s o k o1 pk :
  k_prev s o1 = Some pk -> k_prev (fst (set_key s o k)) o1 = Some pk.
Proof.
  intro H. unfold set_key.
  destruct (k_rm s o); [exact H|].
  destruct (is_some (k_rev s k)); [exact H|].
  destruct (k_op s o) as [p|]; [|exact H].
  destruct (p =? k); [exact H|].
  destruct (is_some (k_prev s o)) eqn:E; [exact H|].
  cbn. unfold mset. destruct (o1 =? o) eqn:Eo; [|exact H].
  apply Z.eqb_eq in Eo. subst o1. rewrite H in E. discriminate.
Qed.

Lemma opt_in_prev s o : k_prev (fst (opt_in s o)) = k_prev s.
Proof. unfold opt_in. destruct (opted s o); [reflexivity|]. destruct (k_rm s o); reflexivity. Qed.

Lemma opt_out_prev s o : k_prev (fst (opt_out s o)) = k_prev s.
Proof.
  unfold opt_out. destruct (negb (active s o)); [reflexivity|].
  destruct (k_op s o); reflexivity.
Qed.

Lemma undelegate_prev s o r : k_prev (fst (undelegate s o r)) = k_prev s.
Proof.
  unfold undelegate. destruct (k_rm s o).
  - destruct (fin s o); reflexivity.
  - destruct (validating s o); reflexivity.
Qed.

Lemma set_jailed_prev s c v : k_prev (set_jailed s c v) = k_prev s.
Proof. unfold set_jailed. destruct (k_rev s c) as [o|]; [|reflexivity]. destruct (info s o); reflexivity. Qed.

(* one step *)
Lemma step_prev_kept s a o pk :
  not_end_block a -> k_prev s o = Some pk -> k_prev (fst (step s a)) o = Some pk.
Proof.
  intros NE H. destruct a as [o0 k|o0|o0 k|o0|o0 r|n|tick|sel|o0 k|c|c|c|c]; cbn [step].
  - destruct (opt_in s o0) as [s1 r1] eqn:E1. destruct r1; try exact H.
    destruct (set_key s1 o0 k) as [s2 r2] eqn:E2. destruct r2; try exact H.
    cbn [fst]. change s2 with (fst (s2, ROk)). rewrite <- E2.
    apply set_key_prev_kept. change s1 with (fst (s1, ROk)). rewrite <- E1, opt_in_prev. exact H.
  - rewrite opt_in_prev. exact H.
  - destruct (negb (active s o0)); [exact H|]. apply set_key_prev_kept. exact H.
  - rewrite opt_out_prev. exact H.
  - rewrite undelegate_prev. exact H.
  - destruct (0 <? n); exact H.
  - destruct tick; exact H.
  - destruct NE.
  - apply set_key_prev_kept. exact H.
  - cbn [fst]. rewrite set_jailed_prev. exact H.
  - cbn [fst]. rewrite set_jailed_prev. exact H.
  - exact H.
  - destruct (nothing_scheduled s); exact H.
Qed.

(* every history without an EndBlock *)
Theorem prev_key_kept_thm : forall ops s o pk,
  Forall not_end_block ops -> k_prev s o = Some pk -> k_prev (run s ops) o = Some pk.
Proof.
  induction ops as [|a r IH]; intros s o pk F H; [exact H|].
  inversion F as [|? ? Fa Fr]; subst. unfold run. cbn [fold_left].
  apply (IH (fst (step s a)) o pk Fr). apply step_prev_kept; assumption.
Qed.

(* an EndBlock that does not follow an epoch end clears nothing either *)
Lemma end_block_mid_epoch s sel : ep_end s = false -> fst (end_block s sel) = s.
Proof. intro E. unfold end_block. rewrite E. reflexivity. Qed.

(* the first accepted replacement of an epoch records exactly the key held before it ... *)
Theorem first_replacement_records_thm : forall s o k pk,
  k_rm s o = false -> k_rev s k = None -> k_op s o = Some pk -> pk <> k -> k_prev s o = None ->
  k_prev (fst (set_key s o k)) o = Some pk /\ k_op (fst (set_key s o k)) o = Some k /\
  snd (set_key s o k) = ROk.
Proof.
  intros s o k pk R V K NE P. unfold set_key. rewrite R, V, K, P. cbn [is_some].
  assert (pk =? k = false) as -> by (apply Z.eqb_neq; exact NE).
  cbn. unfold mset. rewrite Z.eqb_refl. repeat split; reflexivity.
Qed.

(* ... and it is still the recorded previous key after any later history of the same epoch, whatever
   further replacements (A -> B -> C -> ...) that history contains *)
Theorem prev_key_once_per_epoch_thm : forall s o k pk ops,
  k_rm s o = false -> k_rev s k = None -> k_op s o = Some pk -> pk <> k -> k_prev s o = None ->
  Forall not_end_block ops ->
  k_prev (run (fst (set_key s o k)) ops) o = Some pk.
Proof.
  intros s o k pk ops R V K NE P F.
  apply prev_key_kept_thm; [exact F|].
  apply (first_replacement_records_thm s o k pk R V K NE P).
Qed.
