(* C01/Model.v — ledger conservation. The executable ledger model is Ledger/Ledger.v (shared with C03); this file
   holds the C01 property monitors, evaluated on the IMPLEMENTATION's observed raw stores and on the ghost
   events the harness derived from the implementation's own results (accepted deposit/withdraw amounts, the slash
   execution info) — independent of the model's step function. No proofs here. *)
From Coq Require Import List String Ascii Bool ZArith Lia.
From Exo Require Import Base.Store Base.IntDec Base.Util Ledger.Ledger.
Import ListNotations.
Local Open Scope string_scope.
Local Open Scope Z_scope.

Definition case := Ledger.case.
Definition check_case := Ledger.check_case.

Definition assets_of (d : dump) : list string := map fst (d_tot d).

(* conservation relative to the dump [d0] before the first op ([g] = ghost events since then):
   value = value0 + deposits - withdrawals - slashed, and the published staking total = total0 + deposits - withdrawals *)
Definition conserved_d (d0 : dump) (g : list gev) (d : dump) : bool :=
  forallb (fun a => (value_d a d =? value_d a d0 + net a g) &&
                    (tot_of a (d_tot d) =? tot_of a (d_tot d0) + stake a g)) (assets_of d0 ++ assets_of d)%list.

Definition is_deposit_of (a : string) (o : op) : bool :=
  match o with
  | Deposit _ b _ => String.eqb a b
  | GenesisLoad r => String.eqb a (ur_asset r)
  | NstBalance _ b x => String.eqb a b && (0 <? x)     (* positive native-restaking adjustment *)
  | _ => false
  end.

(* value may also flow in when the native token is delegated: bank account -> escrow *)
Definition is_inflow_of (a : string) (o : op) : bool :=
  is_deposit_of a o ||
  match o with Delegate _ b _ _ => String.eqb a b && is_native b | _ => false end.

(* [f log_before before obs log_after after] *)
Fixpoint mon_walk (f : dump -> obs -> list gev -> dump -> bool) (g : list gev) (d : dump) (l : list obs) (i : nat) : option nat :=
  match l with
  | [] => None
  | o :: r =>
      let d' := fold_left apply_chg (o_chg o) d in
      let g' := (o_gev o ++ g)%list in
      if f d o g' d' then mon_walk f g' d' r (S i) else Some i
  end.

(* conservation + published staking total, after every op *)
Definition mon_conservation (c : case) : option nat :=
  mon_walk (fun _ _ g' d' => conserved_d (c_init c) g' d') [] (c_init c) (c_steps c) 1.

(* only a deposit increases the value; a rejected op changes nothing *)
Definition mon_only_deposit (c : case) : option nat :=
  mon_walk (fun d o _ d' =>
              forallb (fun a => (value_d a d' <=? value_d a d) || (is_inflow_of a (o_op o) && res_eqb (o_res o) ROk)) (assets_of d) &&
              (match o_res o, o_op o with
               | ROk, _ | _, EndBlock => true
               | _, _ => dump_eqb d d'
               end))
           [] (c_init c) (c_steps c) 1.

(* T.4: after every op the escrow account holds at least the native pools plus what native pending undelegations still owe *)
Definition mon_escrow (c : case) : option nat :=
  if escrow_ok_d (c_init c) then mon_walk (fun _ _ _ d' => escrow_ok_d d') [] (c_init c) (c_steps c) 1 else Some 0%nat.

(* no figure is ever negative *)
Definition mon_nonneg (c : case) : option nat :=
  if nonneg_d (c_init c) then mon_walk (fun _ _ _ d' => nonneg_d d') [] (c_init c) (c_steps c) 1 else Some 0%nat.
