(* C01/Proofs.v — ledger conservation: per-operation lemmas and the induction over histories. *)
From Coq Require Import List String Ascii Bool ZArith Lia.
From Exo Require Import Base.Store Base.IntDec Base.Util Ledger.Ledger Ledger.Strings Ledger.LedgerLemmas Ledger.IndexInv C01.Model.
Import ListNotations.
Local Open Scope string_scope.
Local Open Scope Z_scope.

(* the two conserved quantities *)
Definition cons (a : string) (s : st) : Z := value a s - net a (glog s).
Definition stk (a : string) (s : st) : Z := tot_of a (tot s) - stake a (glog s).

Lemma upd_val_nonneg v d v' : 0 <= v -> upd_val v d = Some v' -> 0 <= v' /\ v' = v + d.
Proof. intros Hv H. apply upd_val_spec in H. intuition. Qed.

Ltac unf := unfold cons, stk, value, value_d, net, stake in *; simpl in *.

Lemma deposit_cons_lst a s st a0 x s' : no_slash st = true -> deposit_lst s st a0 x = Some s' ->
  cons a s' = cons a s /\ stk a s' = stk a s.
Proof.
  intros W H. unfold deposit_lst in H. dmatch H. inversion H; subst; clear H.
  apply upd_sa_spec in Heqo0. destruct Heqo0 as (r' & -> & _ & Hw & _).
  apply upd_tot_spec in Heqo1. destruct Heqo1 as (t & t' & G & -> & _ & ->).
  simpl in G. unf. rewrite value_wd_sset, Hw. unfold sa_key. rewrite if_asset_join by assumption.
  rewrite (tot_of_sset a _ _ t) by assumption.
  unfold if_eq. destruct (String.eqb a0 a); lia.
Qed.
Lemma deposit_cons a s st a0 x s' : no_slash st = true -> deposit s st a0 x = Some s' ->
  cons a s' = cons a s /\ stk a s' = stk a s.
Proof.
  intros W H. apply deposit_shape in H. destruct H as [(_ & ->)|(_ & H)]; [auto|]. eapply deposit_cons_lst; eauto.
Qed.

Lemma withdraw_cons_lst a s st a0 x s' : no_slash st = true -> withdraw_lst s st a0 x = Some s' ->
  cons a s' = cons a s /\ stk a s' = stk a s.
Proof.
  intros W H. unfold withdraw_lst in H. dmatch H. inversion H; subst; clear H.
  apply upd_sa_spec in Heqo0. destruct Heqo0 as (r' & -> & _ & Hw & _).
  apply upd_tot_spec in Heqo1. destruct Heqo1 as (t & t' & G & -> & _ & ->).
  simpl in G. unf. rewrite value_wd_sset, Hw. unfold sa_key. rewrite if_asset_join by assumption.
  rewrite (tot_of_sset a _ _ t) by assumption.
  unfold if_eq. destruct (String.eqb a0 a); lia.
Qed.
Lemma withdraw_cons a s st a0 x s' : no_slash st = true -> withdraw s st a0 x = Some s' ->
  cons a s' = cons a s /\ stk a s' = stk a s.
Proof.
  intros W H. apply withdraw_shape in H. destruct H as [(_ & ->)|(_ & H)]; [auto|]. eapply withdraw_cons_lst; eauto.
Qed.

Lemma cons_ext a s1 s2 : sa s1 = sa s2 -> oa s1 = oa s2 -> ur s1 = ur s2 -> glog s1 = glog s2 -> cons a s1 = cons a s2.
Proof. intros A B C D. unfold cons, value, value_d, dump_of. simpl. rewrite A, B, C, D. reflexivity. Qed.
Lemma stk_ext a s1 s2 : tot s1 = tot s2 -> glog s1 = glog s2 -> stk a s1 = stk a s2.
Proof. intros A B. unfold stk. rewrite A, B. reflexivity. Qed.

Lemma append_staker_cons a s k x : cons a (append_staker s k x) = cons a s /\ stk a (append_staker s k x) = stk a s.
Proof. unfold append_staker. destruct (mem x _); split; try reflexivity. Qed.

(* effect of the three native / non-native difference points on the conserved quantities *)
Lemma take_cons a s st a0 x s1 : no_slash st = true -> take_from_staker s st a0 x = Some s1 ->
  cons a s1 = cons a s - if_eq a0 a x /\ stk a s1 = stk a s /\ oa s1 = oa s /\ ur s1 = ur s.
Proof.
  intros W H. pose proof (take_same _ _ _ _ _ H) as (U & _ & _ & _ & _ & O & _ & T & _).
  apply take_spec in H. destruct H as [(N & s0 & B & ->)|(N & E)].
  - apply bank_send_same in B. destruct B as ((U0 & _ & _ & _ & _ & O0 & _ & T0 & _) & S0 & L0).
    unfold cons, stk, value, value_d, dump_of, log_ev. simpl. rewrite U0, O0, S0, T0, L0.
    unfold net, stake. simpl. repeat split; lia.
  - apply upd_sa_spec in E. destruct E as (r1 & -> & _ & Hw & _).
    unfold cons, stk, value, value_d, dump_of. simpl. rewrite value_wd_sset, Hw. unfold sa_key.
    rewrite if_asset_join by assumption. unfold if_eq. destruct (String.eqb a0 a); repeat split; lia.
Qed.

Lemma book_cons a s st a0 x s1 : book_pending s st a0 x = Some s1 ->
  cons a s1 = cons a s /\ stk a s1 = stk a s /\ oa s1 = oa s /\ ur s1 = ur s.
Proof.
  intros H. apply book_spec in H. destruct H as [(_ & ->)|(_ & E)]; [auto|].
  apply upd_sa_spec in E. destruct E as (r1 & -> & _ & Hw & _).
  unfold cons, stk, value, value_d, dump_of. simpl. rewrite value_wd_sset, Hw.
  unfold if_asset. destruct (String.eqb _ a); repeat split; lia.
Qed.

Lemma pay_cons a s r s1 : no_slash (ur_staker r) = true -> pay_staker s r = Some s1 ->
  cons a s1 = cons a s + if_eq (ur_asset r) a (ur_act r) /\ stk a s1 = stk a s /\ oa s1 = oa s /\ ur s1 = ur s.
Proof.
  intros W H. apply pay_spec in H. destruct H as [(N & s0 & B & ->)|(N & E)].
  - apply bank_send_same in B. destruct B as ((U0 & _ & _ & _ & _ & O0 & _ & T0 & _) & S0 & L0).
    unfold cons, stk, value, value_d, dump_of, log_ev. simpl. rewrite U0, O0, S0, T0, L0.
    unfold net, stake. simpl. repeat split; lia.
  - apply upd_sa_spec in E. destruct E as (r1 & -> & _ & Hw & _).
    unfold cons, stk, value, value_d, dump_of. simpl. rewrite value_wd_sset, Hw. unfold sa_key.
    rewrite if_asset_join by assumption. unfold if_eq. destruct (String.eqb (ur_asset r) a); repeat split; lia.
Qed.

Lemma delegate_cons a s st a0 op x s' : no_slash st = true -> no_slash op = true -> delegate s st a0 op x = Some s' ->
  cons a s' = cons a s /\ stk a s' = stk a s.
Proof.
  intros W1 W2 H. unfold delegate in H.
  destruct (x <=? 0); [discriminate|]. destruct (negb (mem op (operators s))); [discriminate|].
  destruct (take_from_staker s st a0 x) as [s1|] eqn:E1; [|discriminate].
  match type of H with match ?e with _ => _ end = _ => destruct e as [sh|]; [|discriminate] end.
  destruct (upd_oa s1 (oa_key op a0) x 0 sh 0) as [s2|] eqn:E2; [|discriminate].
  destruct (upd_dg s2 (dg_key st a0 op) sh 0) as [[s3 z]|] eqn:E3; [|discriminate].
  inversion H; subst; clear H.
  destruct (append_staker_cons a s3 (oa_key op a0) st) as [-> ->].
  destruct (take_cons a _ _ _ _ _ W1 E1) as (C1 & S1 & O1 & U1).
  apply upd_oa_spec in E2. destruct E2 as (r2 & -> & Ha & _).
  apply upd_dg_spec in E3. destruct E3 as (r3 & -> & _).
  rewrite <- S1. unfold cons in C1. unfold cons, stk, value, value_d, dump_of in *. simpl in *.
  rewrite value_pool_sset, Ha. unfold oa_key. rewrite !if_asset_join by assumption.
  unfold if_eq in *. destruct (String.eqb a0 a); split; lia.
Qed.

Lemma set_record_cons a s r s' : set_record s r = Some s' ->
  cons a s' = cons a s + if_eq (ur_asset r) a (ur_act r) /\ stk a s' = stk a s.
Proof.
  unfold set_record. destruct (ur_cn r <? height s); [discriminate|]. intro H. inversion H; subst; clear H.
  unfold cons, stk, value, value_d, dump_of.
  destruct (sget (ur s) (rkey r)) as [old|] eqn:E; simpl; rewrite value_rec_sset, E; unfold net, stake; simpl; split; lia.
Qed.

Lemma del_record_cons a s r :
  cons a (del_record s r) = cons a s - match sget (ur s) (rkey r) with Some o => if_eq (ur_asset o) a (ur_act o) | None => 0 end
  /\ stk a (del_record s r) = stk a s.
Proof.
  unfold del_record, cons, stk, value, value_d, dump_of. simpl. rewrite value_rec_sdel. split; lia.
Qed.

Lemma hold_inc_cons a s rk : cons a (fst (hold_inc s rk)) = cons a s /\ stk a (fst (hold_inc s rk)) = stk a s.
Proof. unfold hold_inc. destruct (_ =? _); simpl; split; reflexivity. Qed.
Lemma hold_dec_cons a s rk : cons a (fst (hold_dec s rk)) = cons a s /\ stk a (fst (hold_dec s rk)) = stk a s.
Proof. unfold hold_dec. destruct (_ =? _); simpl; split; reflexivity. Qed.

Lemma delete_staker_cons a s k x s' : delete_staker s k x = Some s' -> cons a s' = cons a s /\ stk a s' = stk a s.
Proof. unfold delete_staker. destruct (sget (sl s) k); [|discriminate]. intro H; inversion H; subst. split; reflexivity. Qed.

Lemma undelegate_cons a s st a0 op x n tx s' r : no_slash st = true -> no_slash op = true ->
  undelegate s st a0 op x n tx = Some (s', r) -> cons a s' = cons a s /\ stk a s' = stk a s.
Proof.
  intros W1 W2 H. unfold undelegate in H.
  destruct (x <=? 0); [discriminate|]. destruct (negb (mem op (operators s))); [discriminate|].
  destruct (sget (dg s) (dg_key st a0 op)) as [d|]; [|discriminate].
  destruct (sget (oa s) (oa_key op a0)) as [o|] eqn:Eo; [|discriminate].
  destruct (shares_from_tokens (oa_tsh o) x (oa_amt o)) as [sh0|]; [|discriminate].
  match type of H with (if ?c then _ else _) = _ => destruct c; [discriminate|] end.
  destruct (shares_from_tokens (oa_tsh o) 1 (oa_amt o)) as [tol|]; [|discriminate].
  set (sh := if sh0 >? dg_sh d then dg_sh d else if dg_sh d - sh0 <? tol then dg_sh d else sh0) in *.
  destruct (sh <=? 0); [discriminate|]. destruct (sh >? oa_tsh o); [discriminate|].
  match type of H with match ?e with _ => _ end = _ => destruct e as [tok|]; [|discriminate] end.
  destruct (upd_oa s (oa_key op a0) (- tok) tok (- sh) 0) as [s1|] eqn:E1; [|discriminate].
  destruct (book_pending s1 st a0 tok) as [s2|] eqn:E2; [|discriminate].
  destruct (upd_dg s2 (dg_key st a0 op) (- sh) tok) as [[s3 z]|] eqn:E3; [|discriminate].
  match type of H with match ?e with _ => _ end = _ => destruct e as [s4|] eqn:E4; [|discriminate] end.
  match type of H with match set_record s4 ?rr with _ => _ end = _ => set (r0 := rr) in *;
    destruct (set_record s4 r0) as [s5|] eqn:E5; [|discriminate] end.
  assert (cons a s5 = cons a s /\ stk a s5 = stk a s) as [C5 S5].
  { apply (set_record_cons a) in E5. destruct E5 as [C5 S5]. rewrite C5, S5.
    assert (cons a s4 = cons a s3 /\ stk a s4 = stk a s3) as [-> ->].
    { destruct z; [eapply delete_staker_cons; eauto | inversion E4; subst; auto]. }
    apply upd_dg_spec in E3. destruct E3 as (r3 & -> & _).
    destruct (book_cons a _ _ _ _ _ E2) as (C2 & S2 & O2 & U2).
    apply upd_oa_spec in E1. destruct E1 as (r1 & -> & Ha & _).
    unfold cons in C2. unfold cons, stk, value, value_d, dump_of in *. simpl in *.
    rewrite value_pool_sset, Ha in C2. unfold oa_key in C2. rewrite !if_asset_join in C2 by assumption.
    unfold if_eq in *. destruct (String.eqb a0 a); split; lia. }
  destruct (mem op (validators s)).
  - pose proof (hold_inc_cons a s5 (rkey r0)) as [Ch Sh].
    destruct (hold_inc s5 (rkey r0)) as [s6 [| |]]; try discriminate. inversion H; subst. simpl in *. split; congruence.
  - inversion H; subst. auto.
Qed.

Lemma genesis_load_cons a s r : no_slash (ur_staker r) = true -> no_slash (ur_op r) = true ->
  cons a (fst (genesis_load s r)) = cons a s /\ stk a (fst (genesis_load s r)) = stk a s.
Proof.
  intros W1 W2. unfold genesis_load.
  destruct (ur_amt r <=? 0); [simpl; auto|]. destruct (ur_act r =? ur_amt r) eqn:EA; [|simpl; auto]. simpl.
  apply Z.eqb_eq in EA.
  destruct (deposit s (ur_staker r) (ur_asset r) (ur_amt r)) as [s1|] eqn:E0; [|simpl; auto].
  destruct (upd_sa s1 _ 0 (- ur_amt r) (ur_amt r)) as [s2|] eqn:E1; [|simpl; auto].
  destruct (upd_oa s2 _ 0 (ur_amt r) 0 0) as [s3|] eqn:E2; [|simpl; auto].
  destruct (upd_dg s3 _ 0 (ur_amt r)) as [[s4 z]|] eqn:E3; [|simpl; auto].
  destruct (set_record s4 r) as [s5|] eqn:E4; [|simpl; auto]. simpl.
  apply (set_record_cons a) in E4. destruct E4 as [-> ->].
  apply (deposit_cons a) in E0; [|assumption]. destruct E0 as [C0 S0]. rewrite <- C0, <- S0.
  apply upd_sa_spec in E1. destruct E1 as (r1 & -> & _ & Hw & _).
  apply upd_oa_spec in E2. destruct E2 as (r2 & -> & Ha & _).
  apply upd_dg_spec in E3. destruct E3 as (r3 & -> & _).
  unfold cons, stk, value, value_d, dump_of. simpl. simpl in Ha.
  rewrite value_wd_sset, value_pool_sset, Hw, Ha.
  unfold sa_key, oa_key. rewrite !if_asset_join by assumption.
  unfold if_eq. destruct (String.eqb (ur_asset r) a); split; lia.
Qed.

Lemma net_app a l1 l2 : net a (l1 ++ l2)%list = net a l1 + net a l2.
Proof. unfold net. rewrite map_app, zsum_app. reflexivity. Qed.
Lemma stake_app a l1 l2 : stake a (l1 ++ l2)%list = stake a l1 + stake a l2.
Proof. unfold stake. rewrite map_app, zsum_app. reflexivity. Qed.

Lemma slash_record_cons a prop r r' ev : slash_record prop r = (r', ev) ->
  if_eq (ur_asset r') a (ur_act r') = if_eq (ur_asset r) a (ur_act r) + net a ev /\ stake a ev = 0.
Proof.
  unfold slash_record. destruct (ur_act r =? 0); intro H; inversion H; subst; clear H.
  - unfold net, stake; simpl. split; lia.
  - simpl. unfold net, stake; simpl. unfold if_eq.
    destruct (dec_trunc_int (dec_mul_int prop (ur_amt r)) >=? ur_act r); destruct (String.eqb (ur_asset r) a); split; lia.
Qed.

Lemma slash_records_cons a op eh prop u u' ev : slash_records op eh prop u = (u', ev) ->
  value_rec a u' = value_rec a u + net a ev /\ stake a ev = 0.
Proof.
  revert u' ev. induction u as [|[k r] rest IH]; simpl; intros u' ev H.
  - inversion H; subst. unfold net, stake; simpl. split; reflexivity.
  - destruct (slash_records op eh prop rest) as [rest' ev'] eqn:E. specialize (IH _ _ eq_refl). destruct IH as [IH1 IH2].
    destruct (is_prefix op k && negb (ur_bn r <? eh)).
    + destruct (slash_record prop r) as [r' ev0] eqn:E0. inversion H; subst; clear H.
      apply (slash_record_cons a) in E0. destruct E0 as [A B].
      rewrite net_app, stake_app. unfold value_rec, ssumk in *. simpl. rewrite A. split; lia.
    + inversion H; subst; clear H. unfold value_rec, ssumk in *. simpl. split; lia.
Qed.

Lemma slash_pools_cons a op prop pools d l o' d' l' ev : slash_pools op prop pools d l = (o', d', l', ev) ->
  value_pool a o' = value_pool a pools + net a ev /\ stake a ev = 0.
Proof.
  revert d l o' d' l' ev. induction pools as [|[k o] rest IH]; simpl; intros d l o' d' l' ev H.
  - inversion H; subst. unfold net, stake; simpl. split; reflexivity.
  - destruct (is_prefix op k).
    + destruct (slash_pool op prop k o d l) as [[[o1 d1] l1] x] eqn:E1.
      destruct (slash_pools op prop rest d1 l1) as [[[rest' d2] l2] ev2] eqn:E2.
      specialize (IH _ _ _ _ _ _ E2). destruct IH as [IH1 IH2].
      inversion H; subst; clear H.
      assert (oa_amt o1 = oa_amt o - x) as A.
      { unfold slash_pool in E1.
        destruct (if oa_amt o - dec_trunc_int (dec_mul_int prop (oa_amt o)) =? 0 then sget l (oa_key op (key_asset k)) else None);
          inversion E1; subst; reflexivity. }
      unfold value_pool, ssumk, net, stake in *. simpl. rewrite A. unfold if_asset, if_eq in *.
      destruct (String.eqb (key_asset k) a); split; lia.
    + destruct (slash_pools op prop rest d l) as [[[rest' d2] l2] ev2] eqn:E2.
      specialize (IH _ _ _ _ _ _ E2). destruct IH as [IH1 IH2].
      inversion H; subst; clear H. unfold value_pool, ssumk in *. simpl. split; lia.
Qed.

Lemma slash_cons a s op eh prop s' : slash s op eh prop = Some s' -> cons a s' = cons a s /\ stk a s' = stk a s.
Proof.
  unfold slash. destruct ((prop <? 0) || (prop >? P)); [discriminate|].
  destruct (if eh <=? height s then slash_records op eh prop (ur s) else (ur s, [])) as [u' ev1] eqn:E1.
  destruct (slash_pools op prop (oa s) (dg s) (sl s)) as [[[o' d'] l'] ev2] eqn:E2.
  intro H. inversion H; subst; clear H.
  assert (value_rec a u' = value_rec a (ur s) + net a ev1 /\ stake a ev1 = 0) as [A1 A2].
  { destruct (eh <=? height s); [eapply slash_records_cons; eauto|].
    inversion E1; subst. unfold net, stake; simpl. split; lia. }
  apply (slash_pools_cons a) in E2. destruct E2 as [B1 B2].
  unfold cons, stk, value, value_d, dump_of. simpl. rewrite !net_app, !stake_app. split; lia.
Qed.


Lemma process_cons a s r : idx_inv s -> sget (ur s) (rkey r) = Some r ->
  cons a (process s r) = cons a s /\ stk a (process s r) = stk a s.
Proof.
  intros I G. pose proof I as (Su & Sp & K & Ip & W & Hh).
  assert (rec_wf r = true) as Wr by (eapply allv_sget; eauto).
  unfold rec_wf in Wr. rewrite !andb_true_iff in Wr. destruct Wr as [[[W1 W2] _] _].
  unfold process. destruct (0 <? hold_count s (rkey r)).
  - set (r' := mkUR _ _ _ _ _ (height s + 1) _ _ _).
    destruct (set_record (del_record s r) r') as [s2|] eqn:E; [|auto].
    apply (set_record_cons a) in E. destruct E as [-> ->].
    destruct (del_record_cons a s r) as [-> ->]. rewrite G. simpl. split; lia.
  - destruct (upd_dg s _ 0 (- ur_amt r)) as [[s1 z]|] eqn:E1; [|auto].
    destruct (pay_staker s1 r) as [s2|] eqn:E2; [|auto].
    destruct (upd_oa s2 _ 0 (- ur_amt r) 0 0) as [s3|] eqn:E3; [|auto].
    destruct (del_record_cons a s3 r) as [-> ->].
    pose proof E1 as F1. pose proof E2 as F2. pose proof E3 as F3.
    apply upd_dg_frame in F1. apply pay_frame in F2. apply upd_oa_frame in F3.
    destruct F1 as (U1 & _), F2 as (U2 & _), F3 as (U3 & _).
    replace (ur s3) with (ur s) by congruence. rewrite G.
    destruct (pay_cons a _ _ _ W1 E2) as (C2 & S2 & O2 & _).
    apply upd_dg_spec in E1. destruct E1 as (r1 & -> & _).
    apply upd_oa_spec in E3. destruct E3 as (r3 & -> & Ha & _).
    unfold cons in C2. unfold cons, stk, value, value_d, dump_of in *. simpl in *.
    rewrite value_pool_sset, Ha. unfold oa_key. rewrite !if_asset_join by assumption.
    unfold if_eq in *. destruct (String.eqb (ur_asset r) a); split; lia.
Qed.

(* ---------- UpdateNSTBalance: conservation with the ghost terms GNstP / GNstM ---------- *)
Lemma record_step_cons a s sk pend rk s2 p' : nst_record_step s sk pend rk = Some (s2, p') ->
  cons a s2 = cons a s /\ stk a s2 = stk a s.
Proof.
  intro H. apply record_step_shape in H. destruct H as (r & s1 & G & _ & H). simpl in H. destruct H as (U & ->).
  pose proof U as F. apply upd_sa_frame in F. destruct F as (u & _).
  apply upd_sa_spec in U. destruct U as (r1 & -> & _ & Hw & _).
  unfold cons, stk, value, value_d, dump_of, log_ev. simpl. simpl in u.
  rewrite value_wd_sset, Hw, value_rec_sset, G. unfold net, stake, with_act. simpl.
  unfold if_asset, if_eq. destruct (String.eqb (key_asset sk) a); destruct (String.eqb (ur_asset r) a); split; lia.
Qed.

Lemma share_step_cons a s st a0 prop k row s' : nst_share_step s st a0 prop k row = Some s' ->
  cons a s' = cons a s /\ stk a s' = stk a s.
Proof.
  intro H. apply share_step_shape in H. destruct H as (o & sh & tok & s1 & s2 & z & s3 & s4 & H). simpl in H.
  destruct H as (_ & _ & _ & _ & U1 & U2 & U3 & U4 & ->).
  apply upd_oa_spec in U1. destruct U1 as (r1 & -> & Ha & _).
  apply upd_dg_spec in U2. destruct U2 as (r2 & -> & _).
  assert (cons a s3 = cons a (w_dg (sset (dg (w_oa (sset (oa s) (oa_key (key_operator k) a0) r1) s)) (dg_key st a0 (key_operator k)) r2)
                                  (w_oa (sset (oa s) (oa_key (key_operator k) a0) r1) s)) /\
          stk a s3 = stk a (w_dg (sset (dg (w_oa (sset (oa s) (oa_key (key_operator k) a0) r1) s)) (dg_key st a0 (key_operator k)) r2)
                                  (w_oa (sset (oa s) (oa_key (key_operator k) a0) r1) s))) as [C3 S3].
  { destruct z; [eapply delete_staker_cons; eauto | inversion U3; subst; auto]. }
  apply upd_sa_spec in U4. destruct U4 as (r4 & -> & _ & Hw & _).
  unfold cons, stk, value, value_d, dump_of, log_ev in *. simpl in *.
  rewrite value_wd_sset, Hw. rewrite value_pool_sset, Ha in C3. unfold net, stake in *. simpl.
  unfold if_asset, if_eq in *. destruct (String.eqb (key_asset (sa_key st a0)) a);
    destruct (String.eqb (key_asset (oa_key (key_operator k) a0)) a); split; lia.
Qed.

Lemma nst_balance_cons a s st a0 x s' : no_slash st = true -> nst_balance s st a0 x = Some s' ->
  cons a s' = cons a s /\ stk a s' = stk a s.
Proof.
  intros W H. apply (nst_balance_P (fun s0 => cons a s0 = cons a s /\ stk a s0 = stk a s) s st a0 x s' (conj eq_refl eq_refl)); try exact H.
  - intros s1 _ U. apply upd_sa_spec in U. destruct U as (r1 & -> & _ & Hw & _).
    unfold cons, stk, value, value_d, dump_of, log_ev. simpl. rewrite value_wd_sset, Hw. unfold sa_key.
    rewrite if_asset_join by assumption. unfold net, stake. simpl. unfold if_eq. destruct (String.eqb a0 a); split; lia.
  - intros info f s1 _ _ _ U. apply upd_sa_spec in U. destruct U as (r1 & -> & _ & Hw & _).
    unfold cons, stk, value, value_d, dump_of, log_ev. simpl. rewrite value_wd_sset, Hw. unfold sa_key.
    rewrite if_asset_join by assumption. unfold net, stake. simpl. unfold if_eq. destruct (String.eqb a0 a); split; lia.
  - intros s0 pend rk s2 p' _ [C S] E. destruct (record_step_cons a _ _ _ _ _ _ E) as [-> ->]. auto.
  - intros prop s0 k row s2 [C S] E. destruct (share_step_cons a _ _ _ _ _ _ _ E) as [-> ->]. auto.
Qed.

Lemma step_cons a s o : idx_inv s -> wf_op o = true ->
  cons a (fst (step s o)) = cons a s /\ stk a (fst (step s o)) = stk a s.
Proof.
  intros I Wf. destruct o; simpl in *.
  - destruct (deposit s staker asset x) as [s'|] eqn:E; simpl; [|auto]. exact (deposit_cons a s staker asset x s' Wf E).
  - destruct (withdraw s staker asset x) as [s'|] eqn:E; simpl; [|auto]. exact (withdraw_cons a s staker asset x s' Wf E).
  - apply andb_prop in Wf. destruct Wf as [W1 W2].
    destruct (delegate s staker asset operator x) as [s'|] eqn:E; simpl; [|auto]. exact (delegate_cons a s staker asset operator x s' W1 W2 E).
  - rewrite !andb_true_iff in Wf. destruct Wf as [[W1 W2] _].
    destruct (undelegate s staker asset operator x nonce tx) as [[s' r]|] eqn:E; simpl; [|auto].
    exact (undelegate_cons a s staker asset operator x nonce tx s' r W1 W2 E).
  - unfold rec_wf in Wf. rewrite !andb_true_iff in Wf. destruct Wf as [[[[W1 W2] _] _] _]. apply genesis_load_cons; assumption.
  - destruct prop as [p|]; simpl; [|auto].
    destruct (slash s operator eh p) as [s'|] eqn:E; simpl; [|auto]. exact (slash_cons a s operator eh p s' E).
  - apply hold_inc_cons.
  - apply hold_dec_cons.
  - destruct (end_block_idx (fun s' => cons a s' = cons a s /\ stk a s' = stk a s)) with (s := s) as (_ & Q & _); auto.
    intros s0 r I0 G [C S]. destruct (process_cons a s0 r I0 G) as [-> ->]. auto.
  - apply andb_prop in Wf. destruct Wf as [W1 _].
    destruct (nst_balance s staker asset x) as [s'|] eqn:E; simpl; [|auto]. exact (nst_balance_cons a s staker asset x s' W1 E).
  - auto.
Qed.

(* induction over histories *)
Lemma run_cons a ops : forall s, idx_inv s -> hist_ok s ops = true ->
  idx_inv (run ops s) /\ cons a (run ops s) = cons a s /\ stk a (run ops s) = stk a s.
Proof.
  induction ops as [|o r IH]; intros s I H; simpl.
  - auto.
  - simpl in H. rewrite !andb_true_iff in H. destruct H as [[Wf Fr] Hr].
    destruct (IH (fst (step s o)) (step_idx s o I Wf Fr) Hr) as (I' & C & S).
    destruct (step_cons a s o I Wf) as [C1 S1]. unfold run in *. simpl. split; [assumption|]. split; congruence.
Qed.

Lemma conservation_all : forall ops s0 a, idx_inv s0 -> hist_ok s0 ops = true ->
  value a (run ops s0) = value a s0 + (net a (glog (run ops s0)) - net a (glog s0)).
Proof. intros ops s0 a I H. destruct (run_cons a ops s0 I H) as (_ & C & _). unfold cons in C. lia. Qed.

Lemma staking_total_all : forall ops s0 a, idx_inv s0 -> hist_ok s0 ops = true ->
  tot_of a (tot (run ops s0)) = tot_of a (tot s0) + (stake a (glog (run ops s0)) - stake a (glog s0)).
Proof. intros ops s0 a I H. destruct (run_cons a ops s0 I H) as (_ & _ & S). unfold stk in S. lia. Qed.

Lemma empty_idx_inv h o v assets : 0 <= h -> idx_inv (empty_st h o v assets).
Proof.
  intro Hh. unfold idx_inv, empty_st. simpl.
  repeat split; try apply sorted_nil; try assumption; intros k r G; discriminate.
Qed.

Lemma conservation_from_genesis : forall ops h operators validators assets a, 0 <= h ->
  let s0 := empty_st h operators validators assets in
  hist_ok s0 ops = true -> value a (run ops s0) = net a (glog (run ops s0)).
Proof.
  intros ops h o v assets a Hh s0 H.
  rewrite (conservation_all ops s0 a (empty_idx_inv h o v assets Hh) H).
  unfold s0, empty_st, value, value_d, value_wd, value_pool, value_rec, ssumk, net. simpl. lia.
Qed.
