(* C01/Proofs_nn.v — T.2: only a deposit increases the value (uses the non-negativity invariant of Ledger/NonNeg.v). *)
From Coq Require Import List String Ascii Bool ZArith Lia.
From Exo Require Import Base.Store Base.IntDec Base.Util Ledger.Ledger Ledger.Strings Ledger.LedgerLemmas Ledger.IndexInv Ledger.NonNeg C01.Model C01.Proofs.
Import ListNotations.
Local Open Scope string_scope.
Local Open Scope Z_scope.

(* ---- T.2: only a deposit increases the value ---- *)
Lemma net_app_nn a l1 l2 : net a (l1 ++ l2)%list = net a l1 + net a l2.
Proof. unfold net. rewrite map_app, zsum_app. reflexivity. Qed.

Lemma set_record_net a s r s' : nn s -> set_record s r = Some s' -> net a (glog s') <= net a (glog s).
Proof.
  intros (_ & _ & _ & _ & E & _) H. unfold set_record in H. destruct (ur_cn r <? height s); [discriminate|].
  inversion H; subst; clear H. destruct (sget (ur s) (rkey r)) as [old|] eqn:G; simpl; [|lia].
  pose proof (allv_sget _ _ _ _ E G) as No. unfold ur_nn in No. rewrite andb_true_iff, !Z.leb_le in No.
  unfold net. simpl. unfold if_eq. destruct (String.eqb (ur_asset old) a); lia.
Qed.

Lemma upd_sa_log s k a b c s' : upd_sa s k a b c = Some s' -> glog s' = glog s.
Proof. intro H. apply upd_sa_spec in H. destruct H as (r & -> & _). reflexivity. Qed.
Lemma upd_oa_log s k a b c d s' : upd_oa s k a b c d = Some s' -> glog s' = glog s.
Proof. intro H. apply upd_oa_spec in H. destruct H as (r & -> & _). reflexivity. Qed.
Lemma upd_dg_log s k a b s' z : upd_dg s k a b = Some (s', z) -> glog s' = glog s.
Proof. intro H. apply upd_dg_spec in H. destruct H as (r & -> & _). reflexivity. Qed.
Lemma upd_tot_log s a d s' : upd_tot s a d = Some s' -> glog s' = glog s.
Proof. intro H. apply upd_tot_spec in H. destruct H as (t & t' & _ & _ & _ & ->). reflexivity. Qed.

Lemma process_net a c s r : nn s /\ net a (glog s) <= c -> sget (ur s) (rkey r) = Some r ->
  nn (process s r) /\ net a (glog (process s r)) <= c.
Proof.
  intros [N L] G. split; [apply process_nn; assumption|].
  unfold process. destruct (0 <? hold_count s (rkey r)).
  - set (r' := mkUR _ _ _ _ _ (height s + 1) _ _ _).
    destruct (set_record (del_record s r) r') as [s2|] eqn:E2; [|assumption].
    pose proof (set_record_net a _ _ _ (del_record_nn s r N) E2) as L2. unfold del_record in L2. simpl in L2. lia.
  - destruct (upd_dg s _ 0 (- ur_amt r)) as [[s1 z]|] eqn:E1; [|assumption].
    destruct (pay_staker s1 r) as [s2|] eqn:E2; [|assumption].
    destruct (upd_oa s2 _ 0 (- ur_amt r) 0 0) as [s3|] eqn:E3; [|assumption].
    apply upd_dg_log in E1. apply upd_oa_log in E3.
    assert (net a (glog s2) <= net a (glog s1)) as L2.
    { apply pay_spec in E2. destruct E2 as [(Nat & s0 & B & ->)|(_ & U)].
      - apply bank_send_same in B. destruct B as (_ & _ & L0). unfold log_ev. simpl. rewrite L0.
        destruct N as (_ & _ & _ & _ & Nu & _). pose proof (allv_sget _ _ _ _ Nu G) as Nr.
        unfold ur_nn in Nr. rewrite andb_true_iff, !Z.leb_le in Nr.
        unfold net. simpl. unfold if_eq. destruct (String.eqb (ur_asset r) a); lia.
      - apply upd_sa_log in U. rewrite U. lia. }
    unfold del_record. simpl. rewrite E3. rewrite E1 in L2. lia.
Qed.

Lemma slash_records_net a op eh prop u u' ev : 0 <= prop -> allv ur_nn u = true ->
  slash_records op eh prop u = (u', ev) -> net a ev <= 0.
Proof.
  intros Hp. revert u' ev. induction u as [|[k r] rest IH]; simpl; intros u' ev N H.
  - inversion H; subst. unfold net; simpl; lia.
  - unfold allv in N. simpl in N. apply andb_prop in N. destruct N as [Nr Nrest]. fold (allv ur_nn rest) in Nrest.
    destruct (slash_records op eh prop rest) as [rest' ev'] eqn:E. specialize (IH _ _ Nrest eq_refl).
    destruct (is_prefix op k && negb (ur_bn r <? eh)).
    + destruct (slash_record prop r) as [r' ev0] eqn:E0. inversion H; subst; clear H.
      rewrite net_app_nn. assert (net a ev0 <= 0); [|lia].
      unfold slash_record in E0. unfold ur_nn in Nr. rewrite andb_true_iff, !Z.leb_le in Nr.
      destruct (ur_act r =? 0); inversion E0; subst; unfold net; simpl; [lia|].
      assert (0 <= dec_trunc_int (dec_mul_int prop (ur_amt r))).
      { unfold dec_trunc_int, dec_mul_int. pose proof P_pos. rewrite quot_nonneg_div by nia. apply Z.div_pos; nia. }
      unfold if_eq. destruct (String.eqb (ur_asset r) a); destruct (_ >=? _); lia.
    + inversion H; subst; assumption.
Qed.

Lemma slash_pools_net a op prop pools d l o' d' l' ev : 0 <= prop <= P -> allv oa_nn pools = true -> allv dg_nn d = true ->
  slash_pools op prop pools d l = (o', d', l', ev) -> net a ev <= 0.
Proof.
  intros Hp. revert d l o' d' l' ev. induction pools as [|[k o] rest IH]; simpl; intros d l o' d' l' ev Np Nd H.
  - inversion H; subst. unfold net; simpl; lia.
  - unfold allv in Np. simpl in Np. apply andb_prop in Np. destruct Np as [No Nr]. fold (allv oa_nn rest) in Nr.
    destruct (is_prefix op k).
    + destruct (slash_pool op prop k o d l) as [[[o1 d1] l1] x] eqn:E1.
      destruct (slash_pools op prop rest d1 l1) as [[[rest' d2] l2] ev2] eqn:E2.
      destruct (slash_pool_nn _ _ _ _ _ _ _ _ _ _ Hp No Nd E1) as (A & B & Hx).
      pose proof (IH _ _ _ _ _ _ Nr B E2) as L. inversion H; subst; clear H.
      unfold net in *. simpl. unfold if_eq. destruct (String.eqb (key_asset k) a); lia.
    + destruct (slash_pools op prop rest d l) as [[[rest' d2] l2] ev2] eqn:E2.
      pose proof (IH _ _ _ _ _ _ Nr Nd E2) as L. inversion H; subst; assumption.
Qed.

(* UpdateNSTBalance: apart from a positive adjustment of asset a itself, the net ghost flow of a does not grow *)
Lemma record_step_net a c s sk pend rk s2 p' : 0 < pend -> nn s /\ net a (glog s) <= c ->
  nst_record_step s sk pend rk = Some (s2, p') -> nn s2 /\ net a (glog s2) <= c.
Proof.
  intros Hp [N L] H. split; [eapply record_step_nn; eauto|].
  apply record_step_shape in H. destruct H as (r & s1 & G & _ & H). simpl in H. destruct H as (U & ->).
  pose proof N as (_ & _ & _ & _ & Nu & _). pose proof (allv_sget _ _ _ _ Nu G) as Nr.
  unfold ur_nn in Nr. rewrite andb_true_iff, !Z.leb_le in Nr. destruct Nr as [_ Nb].
  apply upd_sa_log in U. unfold log_ev. simpl. rewrite U. unfold net in *. simpl. unfold if_eq.
  destruct (0 <? pend - ur_act r); destruct (String.eqb (ur_asset r) a); lia.
Qed.

Lemma share_step_net a c s st a0 prop k row s' : nn s /\ net a (glog s) <= c ->
  nst_share_step s st a0 prop k row = Some s' -> nn s' /\ net a (glog s') <= c.
Proof.
  intros [N L] H. split; [eapply share_step_nn; eauto|].
  apply share_step_shape in H. destruct H as (o & sh & tok & s1 & s2 & z & s3 & s4 & H). simpl in H.
  destruct H as (Go & Hs & Hle & Ht & U1 & U2 & U3 & U4 & ->).
  pose proof N as (_ & No & _). pose proof (allv_sget _ _ _ _ No Go) as Nr.
  unfold oa_nn in Nr. rewrite !andb_true_iff, !Z.leb_le in Nr.
  assert (0 <= tok) as Htok.
  { destruct (oa_tsh o =? sh); [inversion Ht; lia|]. eapply tokens_from_shares_nn; [| | |exact Ht]; lia. }
  apply upd_oa_log in U1. apply upd_dg_log in U2. apply upd_sa_log in U4.
  assert (glog s3 = glog s2) as L3.
  { destruct z; [|inversion U3; subst; reflexivity]. unfold delete_staker in U3.
    destruct (sget (sl s2) _); [|discriminate]. inversion U3; subst. reflexivity. }
  unfold log_ev. simpl. rewrite U4, L3, U2, U1. unfold net in *. simpl. unfold if_eq.
  destruct (String.eqb _ a); lia.
Qed.

Lemma step_net a s o : idx_inv s -> nn s -> wf_op o = true ->
  net a (glog (fst (step s o))) <= net a (glog s) \/ is_inflow_of a o = true.
Proof.
  intros I N Wf. destruct o; simpl.
  - (* Deposit *) destruct (String.eqb a asset) eqn:Ea; [right; unfold is_inflow_of; simpl; rewrite Ea; reflexivity|left].
    destruct (deposit s staker asset x) as [s'|] eqn:E; simpl; [|lia].
    apply deposit_shape in E. destruct E as [(_ & ->)|(_ & E)]; [lia|].
    unfold deposit_lst in E. dmatch E. inversion E; subst; clear E. simpl.
    apply upd_sa_log in Heqo0. apply upd_tot_log in Heqo1. rewrite Heqo1, Heqo0.
    unfold net. simpl. unfold if_eq. rewrite String.eqb_sym, Ea. lia.
  - left. destruct (withdraw s staker asset x) as [s'|] eqn:E; simpl; [|lia].
    apply withdraw_shape in E. destruct E as [(_ & ->)|(_ & E)]; [lia|].
    unfold withdraw_lst in E. destruct (x <? 0) eqn:Ex; [discriminate|]. apply Z.ltb_ge in Ex.
    dmatch E. inversion E; subst; clear E. simpl.
    apply upd_sa_log in Heqo0. apply upd_tot_log in Heqo1. rewrite Heqo1, Heqo0.
    unfold net. simpl. unfold if_eq. destruct (String.eqb asset a); lia.
  - destruct (String.eqb a asset && is_native asset) eqn:Ein;
      [right; unfold is_inflow_of; simpl; rewrite Ein; reflexivity|left].
    destruct (delegate s staker asset operator x) as [s'|] eqn:E; simpl; [|lia].
    unfold delegate in E.
    destruct (x <=? 0); [discriminate|]. destruct (negb (mem operator (operators s))); [discriminate|].
    destruct (take_from_staker s staker asset x) as [s1|] eqn:E1; [|discriminate].
    match type of E with match ?e with _ => _ end = _ => destruct e as [sh|]; [|discriminate] end.
    destruct (upd_oa s1 (oa_key operator asset) x 0 sh 0) as [s2|] eqn:E2; [|discriminate].
    destruct (upd_dg s2 (dg_key staker asset operator) sh 0) as [[s3 z]|] eqn:E3; [|discriminate].
    inversion E; subst; clear E.
    assert (net a (glog s1) <= net a (glog s)) as L1.
    { apply take_spec in E1. destruct E1 as [(Nat & s0 & B & ->)|(_ & U)].
      - apply bank_send_same in B. destruct B as (_ & _ & L0). unfold log_ev. simpl. rewrite L0.
        rewrite Nat, andb_true_r in Ein. unfold net. simpl. unfold if_eq. rewrite String.eqb_sym, Ein. lia.
      - apply upd_sa_log in U. rewrite U. lia. }
    apply upd_oa_log in E2. apply upd_dg_log in E3.
    unfold append_staker. destruct (mem staker _); simpl; rewrite E3, E2; lia.
  - left. destruct (undelegate s staker asset operator x nonce tx) as [[s' r]|] eqn:E; simpl; [|lia].
    unfold undelegate in E.
    destruct (x <=? 0); [discriminate|]. destruct (negb (mem operator (operators s))); [discriminate|].
    destruct (sget (dg s) (dg_key staker asset operator)) as [d|] eqn:Ed; [|discriminate].
    destruct (sget (oa s) (oa_key operator asset)) as [o|] eqn:Eo; [|discriminate].
    destruct (shares_from_tokens (oa_tsh o) x (oa_amt o)) as [sh0|]; [|discriminate].
    match type of E with (if ?c then _ else _) = _ => destruct c; [discriminate|] end.
    destruct (shares_from_tokens (oa_tsh o) 1 (oa_amt o)) as [tol|]; [|discriminate].
    set (sh := if sh0 >? dg_sh d then dg_sh d else if dg_sh d - sh0 <? tol then dg_sh d else sh0) in *.
    destruct (sh <=? 0) eqn:Esh; [discriminate|]. destruct (sh >? oa_tsh o); [discriminate|].
    match type of E with match ?e with _ => _ end = _ => destruct e as [tok|] eqn:Et; [|discriminate] end.
    destruct (upd_oa s (oa_key operator asset) (- tok) tok (- sh) 0) as [s1|] eqn:E1; [|discriminate].
    destruct (book_pending s1 staker asset tok) as [s2|] eqn:E2; [|discriminate].
    destruct (upd_dg s2 (dg_key staker asset operator) (- sh) tok) as [[s3 z]|] eqn:E3; [|discriminate].
    match type of E with match ?e with _ => _ end = _ => destruct e as [s4|] eqn:E4; [|discriminate] end.
    match type of E with match set_record s4 ?rr with _ => _ end = _ => set (r0 := rr) in *;
      destruct (set_record s4 r0) as [s5|] eqn:E5; [|discriminate] end.
    assert (nn s3) as N3.
    { eapply upd_dg_nn; [|eassumption]. eapply book_nn; [|eassumption]. eapply upd_oa_nn; eassumption. }
    assert (nn s4 /\ glog s4 = glog s3) as [N4 L4].
    { destruct z; [|inversion E4; subst; auto]. split; [eapply delete_staker_nn; eauto|].
      unfold delete_staker in E4. destruct (sget (sl s3) _); [|discriminate]. inversion E4; subst. reflexivity. }
    pose proof (set_record_net a _ _ _ N4 E5) as L5.
    apply upd_oa_log in E1. apply upd_dg_log in E3.
    assert (glog s2 = glog s1) as E2' by (apply book_spec in E2; destruct E2 as [(_ & ->)|(_ & U)]; [reflexivity|apply upd_sa_log in U; exact U]).
    assert (net a (glog s5) <= net a (glog s)) as L by (rewrite L4, E3, E2', E1 in L5; exact L5).
    destruct (mem operator (validators s)).
    + unfold hold_inc in E. destruct (hold_count s5 (rkey r0) =? max_u64); [discriminate|]. inversion E; subst. simpl. exact L.
    + inversion E; subst. exact L.
  - (* GenesisLoad *) destruct (String.eqb a (ur_asset r)) eqn:Ea; [right; unfold is_inflow_of; simpl; rewrite Ea; reflexivity|left].
    unfold genesis_load.
    destruct ((ur_amt r <=? 0) || negb (ur_act r =? ur_amt r)); [simpl; lia|].
    destruct (deposit s (ur_staker r) (ur_asset r) (ur_amt r)) as [s1|] eqn:E0; [|simpl; lia].
    destruct (upd_sa s1 _ 0 (- ur_amt r) (ur_amt r)) as [s2|] eqn:E1; [|simpl; lia].
    destruct (upd_oa s2 _ 0 (ur_amt r) 0 0) as [s3|] eqn:E2; [|simpl; lia].
    destruct (upd_dg s3 _ 0 (ur_amt r)) as [[s4 z]|] eqn:E3; [|simpl; lia].
    destruct (set_record s4 r) as [s5|] eqn:E4; [|simpl; lia]. simpl.
    assert (nn s4) as N4.
    { eapply upd_dg_nn; [|eassumption]. eapply upd_oa_nn; [|eassumption]. eapply upd_sa_nn; [|eassumption].
      eapply deposit_nn; eassumption. }
    pose proof (set_record_net a _ _ _ N4 E4) as L5.
    apply upd_sa_log in E1. apply upd_oa_log in E2. apply upd_dg_log in E3.
    rewrite E3, E2, E1 in L5.
    apply deposit_shape in E0. destruct E0 as [(_ & ->)|(_ & E0)]; [lia|].
    unfold deposit_lst in E0. dmatch E0. inversion E0; subst; clear E0. simpl in L5.
    apply upd_sa_log in Heqo0. apply upd_tot_log in Heqo1. rewrite Heqo1, Heqo0 in L5.
    unfold net in *. simpl in L5. unfold if_eq in L5. rewrite String.eqb_sym, Ea in L5. lia.
  - left. destruct prop as [p|]; simpl; [|lia].
    destruct (slash s operator eh p) as [s'|] eqn:E; simpl; [|lia].
    pose proof N as (A & B & C & D & E0 & F).
    unfold slash in E. destruct ((p <? 0) || (p >? P)) eqn:Ep; [discriminate|].
    apply orb_false_elim in Ep. destruct Ep as [Ep1 Ep2]. apply Z.ltb_ge in Ep1. rewrite Z.gtb_ltb in Ep2. apply Z.ltb_ge in Ep2.
    destruct (if eh <=? height s then slash_records operator eh p (ur s) else (ur s, [])) as [u' ev1] eqn:E1.
    destruct (slash_pools operator p (oa s) (dg s) (sl s)) as [[[o' d'] l'] ev2] eqn:E2.
    inversion E; subst; clear E. simpl. rewrite !net_app_nn.
    assert (net a ev1 <= 0).
    { destruct (eh <=? height s); [eapply slash_records_net; eauto | inversion E1; subst; unfold net; simpl; lia]. }
    pose proof (slash_pools_net a _ _ _ _ _ _ _ _ _ (conj Ep1 Ep2) B D E2). lia.
  - left. unfold hold_inc. destruct (_ =? _); simpl; lia.
  - left. unfold hold_dec. destruct (_ =? _); simpl; lia.
  - left.
    destruct (end_block_idx (fun s' => nn s' /\ net a (glog s') <= net a (glog s))
                (fun s0 r _ G Q0 => process_net a _ s0 r Q0 G)
                (fun s0 h Q0 => conj (w_height_nn h s0 (proj1 Q0)) (proj2 Q0)) s I (conj N (Z.le_refl _))) as (_ & Q & _).
    exact (proj2 Q).
  - (* NstBalance *)
    destruct (String.eqb a asset && (0 <? x)) eqn:Ein; [right; unfold is_inflow_of; simpl; rewrite Ein; reflexivity|left].
    destruct (nst_balance s staker asset x) as [s'|] eqn:E; simpl; [|lia].
    refine (proj2 (nst_balance_P (fun s0 => nn s0 /\ net a (glog s0) <= net a (glog s)) s staker asset x s' (conj N (Z.le_refl _)) _ _ _ _ E)).
    + intros s1 Hx U. split; [apply log_ev_nn; eapply upd_sa_nn; eauto|].
      apply upd_sa_log in U. unfold log_ev. simpl. rewrite U.
      apply Z.ltb_lt in Hx. rewrite Hx, andb_true_r in Ein. unfold net. simpl. unfold if_eq. rewrite String.eqb_sym, Ein. lia.
    + intros info f s1 _ Gi Hf U. split; [apply log_ev_nn; eapply upd_sa_nn; eauto|].
      assert (0 <= f) as Hf0.
      { destruct Hf as [->|Hf]; [|lia]. destruct N as (Nsa & _). pose proof (allv_sget _ _ _ _ Nsa Gi) as Ni.
        unfold sa_nn in Ni. rewrite !andb_true_iff, !Z.leb_le in Ni. lia. }
      apply upd_sa_log in U. unfold log_ev. simpl. rewrite U. unfold net. simpl. unfold if_eq. destruct (String.eqb asset a); lia.
    + intros s0 pend rk s2 p' Hp Q0 E0. eapply record_step_net; eauto.
    + intros prop s0 k row s2 Q0 E0. eapply share_step_net; eauto.
  - left. lia.
Qed.


Lemma only_deposit_step : forall s o a, idx_inv s -> nn s -> wf_op o = true ->
  value a (fst (step s o)) <= value a s \/ is_inflow_of a o = true.
Proof.
  intros s o a I N Wf. destruct (step_cons a s o I Wf) as [C _]. unfold cons in C.
  destruct (step_net a s o I N Wf) as [L|D]; [left; lia | right; exact D].
Qed.

Lemma reachable_invariants : forall ops s0, idx_inv s0 -> nn s0 -> hist_ok s0 ops = true ->
  idx_inv (run ops s0) /\ nn (run ops s0).
Proof.
  intros ops s0 I N H. split; [|apply run_nn; assumption].
  destruct (run_cons EmptyString ops s0 I H) as (A & _). exact A.
Qed.

Lemma empty_nn h o v assets : nn (empty_st h o v assets).
Proof.
  unfold nn, empty_st. simpl. repeat split; try reflexivity.
  assert (forall (l : list (string * Z)) (acc : store Z), allv (fun t => 0 <=? t) acc = true ->
          forallb (fun kv => 0 <=? snd kv) l = true ->
          allv (fun t => 0 <=? t) (fold_left (fun s kv => sset s (fst kv) (snd kv)) l acc) = true) as G.
  { induction l as [|[k v0] r IH]; simpl; intros acc Ha Hl; [assumption|].
    apply andb_prop in Hl. destruct Hl as [H1 H2]. apply IH; [apply allv_sset; assumption | assumption]. }
  unfold of_list. apply G; [reflexivity|]. induction assets; simpl; auto.
Qed.
