(* C01/Props.v — property theorems only. *)
From Coq Require Import List String ZArith.
From Exo Require Import Base.Store Ledger.Ledger Ledger.IndexInv Ledger.NonNeg C01.Model C01.Proofs C01.Proofs_nn C01.Proofs_escrow.
Import ListNotations.
Local Open Scope string_scope.
Local Open Scope Z_scope.

(* T.1  Conservation, for every asset and EVERY history of well-formed operations (deposit, withdraw, delegate, undelegate,
   genesis load, slash, hold changes, block ends, native-restaking balance adjustments = UpdateNSTBalance, native-token
   delegation) with unique record keys, from any
   state satisfying the index invariant: the value held by the ledger (withdrawable balances + operator pools +
   amounts owed by pending undelegation records) moves exactly by deposits - withdrawals + positive native-restaking
   adjustments - amounts removed by negative ones - slashed - (amounts of overwritten records, none when keys are fresh)
   that happened during the history ([net] sums the ghost events GDep, GWdr, GNstP, GNstM, GSl, GLost, GEscIn, GEscOut;
   a GNstM event is booked to the asset of the row / record / pool it was taken from). *)
Theorem C01_conservation : forall ops s0 a, idx_inv s0 -> hist_ok s0 ops = true ->
  value a (run ops s0) = value a s0 + (net a (glog (run ops s0)) - net a (glog s0)).
Proof. exact conservation_all. Qed.
Print Assumptions C01_conservation.

(* T.3  The published staking total follows deposits - withdrawals only. *)
Theorem C01_staking_total : forall ops s0 a, idx_inv s0 -> hist_ok s0 ops = true ->
  tot_of a (tot (run ops s0)) = tot_of a (tot s0) + (stake a (glog (run ops s0)) - stake a (glog s0)).
Proof. exact staking_total_all. Qed.
Print Assumptions C01_staking_total.

(* from the empty ledger: value = net of the ghost history *)
Theorem C01_conservation_from_genesis : forall ops h operators validators assets a, 0 <= h ->
  let s0 := empty_st h operators validators assets in
  hist_ok s0 ops = true -> value a (run ops s0) = net a (glog (run ops s0)).
Proof. exact conservation_from_genesis. Qed.
Print Assumptions C01_conservation_from_genesis.

(* T.5  No figure is ever negative: every staker row, operator pool (amount, pending, shares), staking total, delegation
   row, record amount and hold count, after every history. [nn] is the conjunction of the per-store statements and
   implies the boolean [nonneg_d] that the monitor evaluates on the implementation's stores. *)
Theorem C01_nonneg : forall ops s0, idx_inv s0 -> nn s0 -> hist_ok s0 ops = true ->
  nonneg_d (dump_of (run ops s0)) = true.
Proof. exact nonneg_all. Qed.
Print Assumptions C01_nonneg.

(* the two state invariants hold in every reachable state ... *)
Theorem C01_reachable_invariants : forall ops s0, idx_inv s0 -> nn s0 -> hist_ok s0 ops = true ->
  idx_inv (run ops s0) /\ nn (run ops s0).
Proof. exact reachable_invariants. Qed.
Print Assumptions C01_reachable_invariants.

(* T.2  ... and in every such state, whatever well-formed operation comes next (accepted or rejected, any amounts), the
   value of asset a does not increase unless the operation is a deposit (or genesis-loaded deposit) of a or, for the native
   token, a delegation (bank account -> escrow). *)
Theorem C01_only_deposit_increases : forall s o a, idx_inv s -> nn s -> wf_op o = true ->
  value a (fst (step s o)) <= value a s \/ is_inflow_of a o = true.
Proof. exact only_deposit_step. Qed.
Print Assumptions C01_only_deposit_increases.

(* T.4  Escrow: along every history of well-formed operations (native-token delegations / undelegations / completions,
   slashes of native pools and of native pending undelegations, and everything on the other assets) the x/bank balance
   of the delegation escrow account is at least the native pools plus what the native pending undelegations still owe,
   provided it was so at the start (the empty ledger: 0 <= 0). Slashed native tokens are only written off the pool /
   the record; the coins stay in the escrow account, so a slash can only widen the gap. [escrow_ok_d] is the boolean
   the monitor evaluates on the implementation's stores. *)
Theorem C01_escrow : forall ops s0, idx_inv s0 -> nn s0 -> hist_ok s0 ops = true -> forallb esc_op ops = true ->
  value native_id s0 <= escrow s0 -> value native_id (run ops s0) <= escrow (run ops s0).
Proof. exact escrow_all. Qed.
Print Assumptions C01_escrow.

Theorem C01_escrow_monotone : forall s o, idx_inv s -> nn s -> wf_op o = true -> esc_op o = true ->
  escrow s - value native_id s <= escrow (fst (step s o)) - value native_id (fst (step s o)).
Proof. exact step_egap. Qed.
Print Assumptions C01_escrow_monotone.

(* UpdateAssetValue never produces a negative figure from a non-negative one, and applies exactly the delta *)
Theorem C01_update_guard : forall v d v', 0 <= v -> upd_val v d = Some v' -> 0 <= v' /\ v' = v + d.
Proof. exact upd_val_nonneg. Qed.
Print Assumptions C01_update_guard.

(* non-vacuity: a history with deposits, delegation, undelegation, slash, holds and block ends satisfies hist_ok *)
Definition ex_ops : list op :=
  [Deposit "s1" "a1" 1000; Deposit "s2" "a1" 500; Delegate "s1" "a1" "o1" 600; Delegate "s2" "a1" "o1" 300;
   Undelegate "s1" "a1" "o1" 250 7 "t1"; Slash "o1" 1 (Some 100000000000000000); EndBlock;
   GenesisLoad (mkUR "s2" "a1" "o1" "t2" 1 19 8 40 40); HoldDec "o1/0x1/0x7/t1"; EndBlock; EndBlock; EndBlock; EndBlock;
   EndBlock; EndBlock; EndBlock; EndBlock; EndBlock; EndBlock; Withdraw "s1" "a1" 100].
Example ex_hist_ok : hist_ok (empty_st 1 ["o1"] ["o1"] ["a1"]) ex_ops = true.
Proof. vm_compute. reflexivity. Qed.
(* ghost log of the example: [GWdr 100; GDep 40; GSl 65 (pool); GSl 25 (the undelegation started in the infraction block); GDep 500; GDep 1000] *)
Example ex_value : value "a1" (run ex_ops (empty_st 1 ["o1"] ["o1"] ["a1"])) = 1350.
Proof. vm_compute. reflexivity. Qed.
Example ex_empty_inv : idx_inv (empty_st 1 ["o1"] ["o1"] ["a1"]) /\ nn (empty_st 1 ["o1"] ["o1"] ["a1"]).
Proof. split; [apply empty_idx_inv; discriminate | apply empty_nn]. Qed.

(* non-vacuity of T.4: a native-token history (delegate from a bank account, undelegate, slash, complete) *)
Definition ex_native_s0 : st := w_bank [("acct", 1000)] (empty_st 1 ["o1"] [] []).
Definition ex_native_ops : list op :=
  [Delegate "acct" native_id "o1" 600; Undelegate "acct" native_id "o1" 200 3 "t1"; Slash "o1" 1 (Some 250000000000000000);
   EndBlock; EndBlock; EndBlock; EndBlock; EndBlock; EndBlock; EndBlock; EndBlock; EndBlock; EndBlock; EndBlock].
Example ex_native : let s := run ex_native_ops ex_native_s0 in
  hist_ok ex_native_s0 ex_native_ops = true /\ forallb esc_op ex_native_ops = true /\
  escrow s = 450 /\ value native_id s = 300 /\ bank_bal s "acct" = 550.
Proof. vm_compute. repeat split; reflexivity. Qed.

(* non-vacuity with a native-restaking balance decrease that ends INSIDE a pending undelegation: withdrawable 4000, first
   record 1000 eaten completely, 300 of the second record (700 -> 400), then an increase of 250 and completion *)
Definition ex_nst_ops : list op :=
  [Deposit "s1" "a1" 10000; Delegate "s1" "a1" "o1" 6000; Undelegate "s1" "a1" "o1" 1000 2 "t1";
   Undelegate "s1" "a1" "o1" 700 3 "t2"; NstBalance "s1" "a1" (-5300); NstBalance "s1" "a1" 250;
   EndBlock; EndBlock; EndBlock; EndBlock; EndBlock; EndBlock; EndBlock; EndBlock; EndBlock; EndBlock; EndBlock].
Example ex_nst :
  let s0 := empty_st 1 ["o1"] [] ["a1"] in
  let s5 := run (firstn 5 ex_nst_ops) s0 in let s := run ex_nst_ops s0 in
  hist_ok s0 ex_nst_ops = true /\
  option_map ur_act (sget (ur s5) "o1/0x1/0x2/t1") = Some 0 /\ option_map ur_act (sget (ur s5) "o1/0x1/0x3/t2") = Some 400 /\
  option_map sa_wd (sget (sa s5) "s1/a1") = Some 0 /\ value "a1" s5 = 10000 - 5300 /\
  value "a1" s = 10000 - 5300 + 250 /\ net "a1" (glog s) = 4950 /\ option_map sa_wd (sget (sa s) "s1/a1") = Some 650.
Proof. vm_compute. repeat split; reflexivity. Qed.
