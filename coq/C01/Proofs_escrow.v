(* C01/Proofs_escrow.v — T.4: the delegation escrow account (x/bank balance of delegated_tokens_pool) always holds at least
   the native-token pools plus what the native-token pending undelegations still owe. Slashing a native pool or a
   native pending undelegation lowers those figures but leaves the coins in the escrow account (nothing burns or
   moves them), so the inequality only gets slacker. *)
From Coq Require Import List String Ascii Bool ZArith Lia.
From Exo Require Import Base.Store Base.IntDec Base.Util Ledger.Ledger Ledger.Strings Ledger.LedgerLemmas Ledger.IndexInv Ledger.NonNeg
  C01.Model C01.Proofs C01.Proofs_nn.
Import ListNotations.
Local Open Scope string_scope.
Local Open Scope Z_scope.

Definition escrow (s : st) : Z := esc_of (bank s).
(* escrow minus the net ghost flow of the native token: never decreases *)
Definition dgap (s : st) : Z := escrow s - net native_id (glog s).

(* operations that could put native-token value on the books without going through the escrow are not part of the
   native path: a direct deposit of the native asset id (rejected by the real code: it is not a registered staking
   asset), and a delegation whose "staker account" is the escrow account itself *)
Definition esc_op (o : op) : bool :=
  match o with
  | Deposit _ a _ => negb (is_native a)
  | Delegate st _ _ _ => negb (String.eqb st pool_key)
  | _ => true
  end.

Lemma if_eq_refl a x : if_eq a a x = x.
Proof. unfold if_eq. rewrite String.eqb_refl. reflexivity. Qed.

Lemma bank_send_in s f x s0 : f <> pool_key -> bank_send s f pool_key x = Some s0 -> esc_of (bank s0) = esc_of (bank s) + x.
Proof.
  intros Ne H. apply bank_send_spec in H. destruct H as (b & B & G & _ & -> & ->). simpl. unfold esc_of.
  rewrite !ssumk_sset. unfold old_of. rewrite G. unfold if_eq. rewrite String.eqb_refl.
  destruct (String.eqb f pool_key) eqn:E; [apply String.eqb_eq in E; contradiction|].
  destruct (sget (sset (bank s) f (b - x)) pool_key); lia.
Qed.

Lemma bank_send_out s t x s0 : 0 <= x -> bank_send s pool_key t x = Some s0 -> esc_of (bank s) - x <= esc_of (bank s0).
Proof.
  intros Hx H. apply bank_send_spec in H. destruct H as (b & B & G & _ & -> & ->). simpl. unfold esc_of.
  rewrite !ssumk_sset. unfold old_of. rewrite G. unfold if_eq. rewrite String.eqb_refl.
  destruct (sget (sset (bank s) pool_key (b - x)) t) as [y|] eqn:Gy; destruct (String.eqb t pool_key); lia.
Qed.

(* bank frames *)
Lemma upd_sa_bank s k a b c s' : upd_sa s k a b c = Some s' -> bank s' = bank s.
Proof. intro H. apply upd_sa_spec in H. destruct H as (r & -> & _). reflexivity. Qed.
Lemma upd_oa_bank s k a b c d s' : upd_oa s k a b c d = Some s' -> bank s' = bank s.
Proof. intro H. apply upd_oa_spec in H. destruct H as (r & -> & _). reflexivity. Qed.
Lemma upd_dg_bank s k a b s' z : upd_dg s k a b = Some (s', z) -> bank s' = bank s.
Proof. intro H. apply upd_dg_spec in H. destruct H as (r & -> & _). reflexivity. Qed.
Lemma upd_tot_bank s a d s' : upd_tot s a d = Some s' -> bank s' = bank s.
Proof. intro H. apply upd_tot_spec in H. destruct H as (t & t' & _ & _ & _ & ->). reflexivity. Qed.
Lemma set_record_bank s r s' : set_record s r = Some s' -> bank s' = bank s.
Proof.
  unfold set_record. destruct (ur_cn r <? height s); [discriminate|]. intro H; inversion H; subst.
  destruct (sget (ur s) (rkey r)); reflexivity.
Qed.
Lemma book_bank s st a x s' : book_pending s st a x = Some s' -> bank s' = bank s.
Proof. intro H. apply book_spec in H. destruct H as [(_ & ->)|(_ & E)]; [reflexivity|eapply upd_sa_bank; eauto]. Qed.

Lemma inflow_deposit st a x : is_inflow_of native_id (Deposit st a x) = is_native a.
Proof. unfold is_inflow_of, is_deposit_of, is_native. rewrite orb_false_r. apply String.eqb_sym. Qed.
Lemma inflow_genesis r : is_inflow_of native_id (GenesisLoad r) = is_native (ur_asset r).
Proof. unfold is_inflow_of, is_deposit_of, is_native. rewrite orb_false_r. apply String.eqb_sym. Qed.

(* one step never lowers the gap, whatever it does *)
Lemma process_dgap c s r : nn s /\ c <= dgap s -> sget (ur s) (rkey r) = Some r -> nn (process s r) /\ c <= dgap (process s r).
Proof.
  intros [N L] G. split; [apply process_nn; assumption|].
  pose proof N as (_ & _ & _ & _ & Nu & _). pose proof (allv_sget _ _ _ _ Nu G) as Nr.
  unfold ur_nn in Nr. rewrite andb_true_iff, !Z.leb_le in Nr.
  unfold process. destruct (0 <? hold_count s (rkey r)).
  - set (r' := mkUR _ _ _ _ _ (height s + 1) _ _ _).
    destruct (set_record (del_record s r) r') as [s2|] eqn:E2; [|assumption].
    pose proof (set_record_net native_id _ _ _ (del_record_nn s r N) E2) as L2.
    apply set_record_bank in E2. unfold dgap, escrow in *. rewrite E2.
    change (glog (del_record s r)) with (glog s) in L2. change (bank (del_record s r)) with (bank s).
    eapply Z.le_trans; [exact L|]. apply Z.sub_le_mono_l. exact L2.
  - destruct (upd_dg s _ 0 (- ur_amt r)) as [[s1 z]|] eqn:E1; [|assumption].
    destruct (pay_staker s1 r) as [s2|] eqn:E2; [|assumption].
    destruct (upd_oa s2 _ 0 (- ur_amt r) 0 0) as [s3|] eqn:E3; [|assumption].
    pose proof (upd_dg_bank _ _ _ _ _ _ E1) as B1. apply upd_dg_log in E1.
    pose proof (upd_oa_bank _ _ _ _ _ _ _ E3) as B3. apply upd_oa_log in E3.
    unfold dgap, escrow, del_record in *. simpl. rewrite B3, E3.
    apply pay_spec in E2. destruct E2 as [(Nat & s0 & B & ->)|(_ & U)].
    + pose proof (bank_send_out _ _ _ _ (proj2 Nr) B) as Lo. apply bank_send_same in B. destruct B as (_ & _ & L0).
      unfold log_ev. simpl. rewrite L0, E1. rewrite B1 in Lo. unfold is_native in Nat. apply String.eqb_eq in Nat.
      rewrite Nat. unfold net. cbn [map zsum fold_right gev_net]. rewrite if_eq_refl. change (fold_right Z.add 0 (map (gev_net native_id) (glog s))) with (net native_id (glog s)). unfold net in *. lia.
    + pose proof (upd_sa_bank _ _ _ _ _ _ U) as B2. apply upd_sa_log in U. rewrite B2, U, B1, E1. exact L.
Qed.

Lemma step_dgap s o : idx_inv s -> nn s -> wf_op o = true -> esc_op o = true -> dgap s <= dgap (fst (step s o)).
Proof.
  intros I N Wf Eo.
  (* ops that are no native inflow: the ghost net does not grow and the bank is untouched *)
  assert (forall s', fst (step s o) = s' -> bank s' = bank s -> is_inflow_of native_id o = false -> dgap s <= dgap s') as Easy.
  { intros s' Es Bs Ni. destruct (step_net native_id s o I N Wf) as [Ln|Inf]; [|congruence].
    unfold dgap, escrow. rewrite <- Es in *. rewrite Bs. lia. }
  destruct o; simpl.
  - apply Easy; [reflexivity | | rewrite inflow_deposit; unfold esc_op in Eo; apply negb_true_iff; exact Eo].
    destruct (deposit s staker asset x) as [s'|] eqn:E; simpl; [|reflexivity].
    apply deposit_shape in E. destruct E as [(_ & ->)|(_ & E)]; [reflexivity|].
    unfold deposit_lst in E. dmatch E. inversion E; subst. simpl. apply upd_sa_bank in Heqo0. apply upd_tot_bank in Heqo1. congruence.
  - apply Easy; [reflexivity | | reflexivity].
    destruct (withdraw s staker asset x) as [s'|] eqn:E; simpl; [|reflexivity].
    apply withdraw_shape in E. destruct E as [(_ & ->)|(_ & E)]; [reflexivity|].
    unfold withdraw_lst in E. dmatch E. inversion E; subst. simpl. apply upd_sa_bank in Heqo0. apply upd_tot_bank in Heqo1. congruence.
  - (* Delegate *)
    destruct (delegate s staker asset operator x) as [s'|] eqn:E; simpl; [|lia].
    unfold delegate in E.
    destruct (x <=? 0); [discriminate|]. destruct (negb (mem operator (operators s))); [discriminate|].
    destruct (take_from_staker s staker asset x) as [s1|] eqn:E1; [|discriminate].
    match type of E with match ?e with _ => _ end = _ => destruct e as [sh|]; [|discriminate] end.
    destruct (upd_oa s1 (oa_key operator asset) x 0 sh 0) as [s2|] eqn:E2; [|discriminate].
    destruct (upd_dg s2 (dg_key staker asset operator) sh 0) as [[s3 z]|] eqn:E3; [|discriminate].
    inversion E; subst; clear E.
    assert (dgap s <= dgap s1) as L1.
    { apply take_spec in E1. destruct E1 as [(Nat & s0 & B & ->)|(_ & U)].
      - unfold esc_op in Eo. apply negb_true_iff in Eo. apply String.eqb_neq in Eo.
        pose proof (bank_send_in _ _ _ _ Eo B) as Bi. apply bank_send_same in B. destruct B as (_ & _ & L0).
        unfold dgap, escrow, log_ev. simpl. rewrite L0, Bi. unfold is_native in Nat. apply String.eqb_eq in Nat.
        rewrite Nat. unfold net. cbn [map zsum fold_right gev_net]. rewrite if_eq_refl. change (fold_right Z.add 0 (map (gev_net native_id) (glog s))) with (net native_id (glog s)). unfold net in *. lia.
      - pose proof (upd_sa_bank _ _ _ _ _ _ U) as B. apply upd_sa_log in U. unfold dgap, escrow. rewrite B, U. lia. }
    pose proof (upd_oa_bank _ _ _ _ _ _ _ E2) as B2. apply upd_oa_log in E2.
    pose proof (upd_dg_bank _ _ _ _ _ _ E3) as B3. apply upd_dg_log in E3.
    unfold dgap, escrow in *. unfold append_staker. destruct (mem staker _); simpl; rewrite B3, E3, B2, E2; exact L1.
  - apply Easy; [reflexivity | | reflexivity].
    destruct (undelegate s staker asset operator x nonce tx) as [[s' r]|] eqn:E; simpl; [|reflexivity].
    unfold undelegate in E.
    destruct (x <=? 0); [discriminate|]. destruct (negb (mem operator (operators s))); [discriminate|].
    destruct (sget (dg s) (dg_key staker asset operator)) as [d|]; [|discriminate].
    destruct (sget (oa s) (oa_key operator asset)) as [o|]; [|discriminate].
    destruct (shares_from_tokens (oa_tsh o) x (oa_amt o)) as [sh0|]; [|discriminate].
    match type of E with (if ?c then _ else _) = _ => destruct c; [discriminate|] end.
    destruct (shares_from_tokens (oa_tsh o) 1 (oa_amt o)) as [tol|]; [|discriminate].
    set (sh := if sh0 >? dg_sh d then dg_sh d else if dg_sh d - sh0 <? tol then dg_sh d else sh0) in *.
    destruct (sh <=? 0); [discriminate|]. destruct (sh >? oa_tsh o); [discriminate|].
    match type of E with match ?e with _ => _ end = _ => destruct e as [tok|]; [|discriminate] end.
    destruct (upd_oa s (oa_key operator asset) (- tok) tok (- sh) 0) as [s1|] eqn:E1; [|discriminate].
    destruct (book_pending s1 staker asset tok) as [s2|] eqn:E2; [|discriminate].
    destruct (upd_dg s2 (dg_key staker asset operator) (- sh) tok) as [[s3 z]|] eqn:E3; [|discriminate].
    match type of E with match ?e with _ => _ end = _ => destruct e as [s4|] eqn:E4; [|discriminate] end.
    match type of E with match set_record s4 ?rr with _ => _ end = _ => set (r0 := rr) in *;
      destruct (set_record s4 r0) as [s5|] eqn:E5; [|discriminate] end.
    apply upd_oa_bank in E1. apply book_bank in E2. apply upd_dg_bank in E3. apply set_record_bank in E5.
    assert (bank s4 = bank s3) as B4.
    { destruct z; [|inversion E4; subst; reflexivity]. unfold delete_staker in E4.
      destruct (sget (sl s3) _); [|discriminate]. inversion E4; subst. reflexivity. }
    destruct (mem operator (validators s)).
    + unfold hold_inc in E. destruct (hold_count s5 (rkey r0) =? max_u64); [discriminate|]. inversion E; subst. simpl. congruence.
    + inversion E; subst. congruence.
  - apply Easy; [reflexivity | | ].
    + unfold genesis_load.
      destruct ((ur_amt r <=? 0) || negb (ur_act r =? ur_amt r)); [reflexivity|].
      destruct (deposit s (ur_staker r) (ur_asset r) (ur_amt r)) as [s1|] eqn:E0; [|reflexivity].
      destruct (upd_sa s1 _ 0 (- ur_amt r) (ur_amt r)) as [s2|] eqn:E1; [|reflexivity].
      destruct (upd_oa s2 _ 0 (ur_amt r) 0 0) as [s3|] eqn:E2; [|reflexivity].
      destruct (upd_dg s3 _ 0 (ur_amt r)) as [[s4 z]|] eqn:E3; [|reflexivity].
      destruct (set_record s4 r) as [s5|] eqn:E4; [|reflexivity]. simpl.
      apply upd_sa_bank in E1. apply upd_oa_bank in E2. apply upd_dg_bank in E3. apply set_record_bank in E4.
      apply deposit_shape in E0. destruct E0 as [(_ & ->)|(_ & E0)]; [congruence|].
      unfold deposit_lst in E0. dmatch E0. inversion E0; subst. simpl in *. apply upd_sa_bank in Heqo0. apply upd_tot_bank in Heqo1. congruence.
    + simpl in Wf. apply andb_prop in Wf. destruct Wf as [_ Nn]. rewrite inflow_genesis. apply negb_true_iff; exact Nn.
  - apply Easy; [reflexivity | | reflexivity].
    destruct prop as [p|]; simpl; [|reflexivity].
    destruct (slash s operator eh p) as [s'|] eqn:E; simpl; [|reflexivity].
    unfold slash in E. destruct ((p <? 0) || (p >? P)); [discriminate|].
    destruct (if eh <=? height s then slash_records operator eh p (ur s) else (ur s, [])) as [u' ev1].
    destruct (slash_pools operator p (oa s) (dg s) (sl s)) as [[[o' d'] l'] ev2]. inversion E; subst. reflexivity.
  - apply Easy; [reflexivity | | reflexivity]. unfold hold_inc. destruct (_ =? _); reflexivity.
  - apply Easy; [reflexivity | | reflexivity]. unfold hold_dec. destruct (_ =? _); reflexivity.
  - (* EndBlock *)
    destruct (end_block_idx (fun s' => nn s' /\ dgap s <= dgap s')
                (fun s0 r _ G Q0 => process_dgap (dgap s) s0 r Q0 G)
                (fun s0 h Q0 => conj (w_height_nn h s0 (proj1 Q0)) (proj2 Q0)) s I (conj N (Z.le_refl _))) as (_ & Q & _).
    exact (proj2 Q).
  - (* NstBalance: the bank is untouched, and a non-native asset cannot be a native inflow *)
    apply andb_prop in Wf. destruct Wf as [_ Nn]. apply negb_true_iff in Nn.
    apply Easy; [reflexivity | | ].
    + destruct (nst_balance s staker asset x) as [s'|] eqn:E; simpl; [|reflexivity].
      refine (nst_balance_P (fun s0 => bank s0 = bank s) s staker asset x s' eq_refl _ _ _ _ E).
      * intros s1 _ U. apply upd_sa_bank in U. exact U.
      * intros info f s1 _ _ _ U. apply upd_sa_bank in U. exact U.
      * intros s0 pend rk s2 p' _ B0 E0. apply record_step_shape in E0. destruct E0 as (r & s1 & _ & _ & H0). simpl in H0.
        destruct H0 as (U & ->). apply upd_sa_bank in U. simpl. congruence.
      * intros prop s0 k row s2 B0 E0. apply share_step_frame in E0. destruct E0 as (_ & _ & _ & _ & _ & B & _). congruence.
    + unfold is_inflow_of, is_deposit_of. rewrite orb_false_r. unfold is_native in Nn. rewrite String.eqb_sym, Nn. reflexivity.
  - lia.
Qed.

(* the escrow inequality itself: escrow - value(native) never decreases *)
Definition egap (s : st) : Z := escrow s - value native_id s.

Lemma step_egap s o : idx_inv s -> nn s -> wf_op o = true -> esc_op o = true -> egap s <= egap (fst (step s o)).
Proof.
  intros I N Wf Eo. pose proof (step_dgap s o I N Wf Eo) as D.
  destruct (step_cons native_id s o I Wf) as [C _]. unfold cons in C. unfold egap, dgap in *. lia.
Qed.

Lemma run_egap ops : forall s, idx_inv s -> nn s -> hist_ok s ops = true -> forallb esc_op ops = true -> egap s <= egap (run ops s).
Proof.
  induction ops as [|o r IH]; intros s I N H F; simpl; [lia|].
  simpl in H, F. rewrite !andb_true_iff in H. destruct H as [[Wf Fr] Hr]. apply andb_prop in F. destruct F as [Eo Fr'].
  pose proof (step_egap s o I N Wf Eo) as L.
  specialize (IH (fst (step s o)) (step_idx s o I Wf Fr) (step_nn s o I N Wf) Hr Fr'). unfold run in *. simpl. lia.
Qed.

Lemma escrow_all : forall ops s0, idx_inv s0 -> nn s0 -> hist_ok s0 ops = true -> forallb esc_op ops = true ->
  value native_id s0 <= escrow s0 -> value native_id (run ops s0) <= escrow (run ops s0).
Proof. intros ops s0 I N H F L0. pose proof (run_egap ops s0 I N H F) as L. unfold egap in L. lia. Qed.

Lemma escrow_bool s : value native_id s <= escrow s -> escrow_ok_d (dump_of s) = true.
Proof. intro H. unfold escrow_ok_d, escrow_d, dump_of. simpl. apply Z.leb_le. exact H. Qed.
