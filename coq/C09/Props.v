(* C09/Props.v — property theorems only. *)
From Coq Require Import List String ZArith.
From Exo Require Import Base.Util C09.Model C09.Proofs.
Import ListNotations.
Local Open Scope Z_scope.

(* Cosmos message (baseapp cache-wraps the tx) / a method with its own cache context: atomic for EVERY script *)
Theorem C09_via_msg_atomic : forall (S : Type) (p : script S), atomic via_msg p.
Proof. intros S p. exact (via_msg_atomic p). Qed.
Print Assumptions C09_via_msg_atomic.

(* Precompile Run (no cache, error -> `false`, tx succeeds): a script SHAPE is atomic under every interpretation
   of its checks and writes over every store IF AND ONLY IF no Write precedes a Check *)
Theorem C09_precompile_characterisation : forall ks : list kind,
  checks_first ks = true <-> (forall (S : Type) (p : script S), kinds p = ks -> atomic via_precompile p).
Proof. exact precompile_characterisation. Qed.
Print Assumptions C09_precompile_characterisation.

(* semantic refinement used for the entry points whose later checks cannot fail: prefix of checks, then a suffix
   that is safe from every state satisfying J, J established by the prefix *)
Theorem C09_precompile_prefix_then_safe : forall (S : Type) (J : S -> Prop) (pre suf : script S) (s : S),
  Forall (fun a => kind_of a = KC) pre -> (passes pre s -> J s) -> Forall (instr_ok J) suf ->
  atomic_at via_precompile (pre ++ suf) s.
Proof. intros S J pre suf s H1 H2 H3. apply atomic_at_of_trace. apply (prefix_then_safe J); assumption. Qed.
Print Assumptions C09_precompile_prefix_then_safe.

(* block processing with a cache per item: a failing item is equivalent to the item being absent from the work
   list; all other items are processed identically (the whole final state is equal) *)
Theorem C09_endblock_items : forall (S : Type) (pre post : list (script S)) (p : script S) (s : S),
  failed (res_of (run p (process_cached pre s))) = true ->
  process_cached (pre ++ p :: post) s = process_cached (pre ++ post) s.
Proof. intros S pre post p s. exact (per_item_cache pre post p s). Qed.
Print Assumptions C09_endblock_items.

Theorem C09_endblock_items_all : forall (S : Type) (items : list (script S)) (s : S),
  process_cached items s = process_raw (surviving items s) s.
Proof. intros S items s. exact (per_item_cache_all items s). Qed.
Print Assumptions C09_endblock_items_all.

(* loops without a per-item cache do not have the property *)
Theorem C09_items_without_cache_refuted :
  (failed (res_of (run bad_item 0%nat)) = true /\
   process_raw [bad_item; good_item] 0%nat <> process_raw [good_item] 0%nat) /\
  (process_abort [good_item; bad_item; good_item] 0%nat = (11%nat, true) /\
   fst (process_abort [good_item; good_item] 0%nat) = 20%nat).
Proof. split; [exact process_raw_not_isolated | exact process_abort_not_isolated]. Qed.
Print Assumptions C09_items_without_cache_refuted.

(* every transcribed entry point, under the wrapper the (repaired) code gives it, in every state of the facts
   that satisfies the entry point's invariant (trivial except for delegate / undelegate) *)
Theorem C09_entry_points_atomic : forall (k : op_kind) (s : facts),
  inv_of k s = true -> atomic_at (exec (mode_of k)) (script_of k) s.
Proof. exact entry_points_atomic. Qed.
Print Assumptions C09_entry_points_atomic.

(* the invariant of delegateTo is established by the keeper's own computation from non-negative stored amounts
   and "pool amount is zero only if the pool's share is zero" *)
Theorem C09_delegate_prepared : forall s : facts,
  0 <= fget "amt" s ->
  nonneg ["oa.amt"; "oa.pend"; "oa.share"; "oa.opshare"; "dl.wait"; "dl.share"]%string s = true ->
  share_cond s = true -> inv_of Delegate (prepare Delegate s) = true.
Proof. exact prepare_delegate_inv. Qed.
Print Assumptions C09_delegate_prepared.

(* refutations: concrete failing paths *)
Theorem C09_delegate_without_share_invariant_refuted : ~ atomic_at via_precompile delegate delegate_bad_state.
Proof. exact delegate_not_atomic_without_inv. Qed.
Theorem C09_undelegate_without_invariant_refuted :
  ~ atomic_at via_precompile undelegate (prepare Undelegate undelegate_bad_state).
Proof. exact undelegate_not_atomic_without_inv. Qed.
Theorem C09_register_token_original_refuted :
  failed (res_of (via_precompile register_token_original register_token_bad_state)) = true /\
  tr_of (via_precompile register_token_original register_token_bad_state) = ["oracle/params"%string].
Proof. exact register_token_original_not_atomic. Qed.
Theorem C09_withdraw_nst_nocache_refuted :
  failed (res_of (via_precompile withdraw_nst withdraw_nst_bad_state)) = true /\
  tr_of (via_precompile withdraw_nst withdraw_nst_bad_state) = ["assets/staker_asset"; "assets/asset_total"]%string /\
  st_of (via_precompile withdraw_nst withdraw_nst_bad_state) <> withdraw_nst_bad_state.
Proof. exact withdraw_nst_nocache_not_atomic. Qed.
Theorem C09_slash_uncached_refuted :
  failed (res_of (run slash slash_dup_state)) = true /\
  tr_of (run slash slash_dup_state) = ["assets/operator_asset"; "delegation/undelegation"]%string.
Proof. exact slash_uncached_not_atomic. Qed.
Theorem C09_nst_balance_change_uncached_refuted :
  failed (res_of (run nst_balance_change nst_change_bad_state)) = true /\
  tr_of (run nst_balance_change nst_change_bad_state) = ["oracle/nst_staker"; "assets/staker_asset"]%string.
Proof. exact nst_balance_change_uncached_not_atomic. Qed.
(* transactions that also write process memory (oracle aggregator context): the store part of a failed tx is always
   reverted, the memory part behaves like the precompile wrapper - so the characterisation applies to it - and the
   real CreatePrice tx [counted message, failing message] is refuted; failing at the first message is atomic *)
Theorem C09_tx_store_reverted : forall (S : Type) (mem : string -> bool) (p : script S) (s : S),
  failed (res_of (via_tx_mem mem p s)) = true -> forallb mem (tr_of (via_tx_mem mem p s)) = true.
Proof. intros S mem p s. exact (via_tx_mem_only_memory mem p s). Qed.
Theorem C09_tx_memory_is_precompile_wrapper : forall (S : Type) (p : script S) (s : S),
  via_tx_mem (fun _ => true) p s = via_precompile p s.
Proof. intros S p s. exact (via_tx_mem_all_memory p s). Qed.
Theorem C09_oracle_tx_memory_refuted :
  failed (res_of (exec MTxMem oracle_tx oracle_tx_bad_state)) = true /\
  tr_of (exec MTxMem oracle_tx oracle_tx_bad_state) = ["oracle-mem"%string].
Proof. exact oracle_tx_memory_not_rolled_back. Qed.
Theorem C09_oracle_tx_ignored_message_refuted :
  failed (res_of (exec MTxMem oracle_tx oracle_tx_ignored_state)) = true /\
  tr_of (exec MTxMem oracle_tx oracle_tx_ignored_state) = ["oracle-mem"%string].
Proof. exact oracle_tx_ignored_message_leaves_trace. Qed.
Theorem C09_oracle_tx_first_message_atomic : forall s, fget "fail.idx" s <= 0 -> fget "fail.ignored" s = 0 ->
  failed (res_of (exec MTxMem oracle_tx s)) = true -> tr_of (exec MTxMem oracle_tx s) = [].
Proof. exact oracle_tx_first_message. Qed.
(* oracle MsgUpdateParams: the known variant (params pushed into the in-memory cache by an accepted message of a tx that
   fails later) is refuted; failing at the first message leaves no trace; and this entry point never writes the
   aggregator context's own params *)
Theorem C09_oracle_params_cache_refuted :
  failed (res_of (exec MTxMem oracle_params_tx oracle_params_bad_state)) = true /\
  tr_of (exec MTxMem oracle_params_tx oracle_params_bad_state) = ["oracle-mem/cache"%string].
Proof. exact oracle_params_cache_not_rolled_back. Qed.
Theorem C09_oracle_params_first_message_atomic : forall s, fget "fail.idx" s <= 0 ->
  failed (res_of (exec MTxMem oracle_params_tx s)) = true -> tr_of (exec MTxMem oracle_params_tx s) = [].
Proof. exact oracle_params_first_message. Qed.
Theorem C09_oracle_params_never_touches_agc_params : forall s,
  ~ In "oracle-mem/agc-params"%string (tr_of (run oracle_params_tx s)).
Proof. exact oracle_params_never_touches_agc_params. Qed.
Print Assumptions C09_withdraw_nst_nocache_refuted.

(* non-vacuity: states that satisfy the invariants and in which the calls fail / succeed *)
Example C09_ex_delegate_inv :
  inv_of Delegate (prepare Delegate
    [("gw", 1); ("chain", 1); ("alen", 1); ("slen", 1); ("opaddr", 1); ("amt", 5); ("op", 1); ("st.ex", 1);
     ("st.total", 10); ("st.wd", 3); ("oa.ex", 1); ("oa.share", 7 * P18); ("oa.amt", 7)]%string) = true.
Proof. reflexivity. Qed.
Example C09_ex_delegate_fails :
  failed (res_of (via_precompile delegate (prepare Delegate
    [("gw", 1); ("chain", 1); ("alen", 1); ("slen", 1); ("opaddr", 1); ("amt", 5); ("op", 1); ("st.ex", 1);
     ("st.total", 10); ("st.wd", 3); ("oa.ex", 1); ("oa.share", 7 * P18); ("oa.amt", 7)]%string))) = true.
Proof. reflexivity. Qed.
Example C09_ex_undelegate_ok :
  let s := prepare Undelegate
    [("gw", 1); ("chain", 1); ("alen", 1); ("slen", 1); ("opaddr", 1); ("amt", 5); ("txhash", 1); ("op", 1);
     ("dl.ex", 1); ("oa.ex", 1); ("oa.amt", 10); ("oa.share", 10 * P18); ("dl.share", 10 * P18);
     ("st.ex", 1); ("st.total", 10); ("complete.ok", 1)]%string in
  inv_of Undelegate s = true /\ failed (res_of (via_precompile undelegate s)) = false /\
  fget "tmp.token" s = 5.
Proof. repeat split; reflexivity. Qed.
Example C09_ex_shapes :
  checks_first (kinds associate) = true /\ checks_first (kinds delegate) = false /\
  checks_first (kinds register_token) = false /\ checks_first (kinds withdraw_lst) = false.
Proof. repeat split; reflexivity. Qed.
