(* C09/Model.v — failed operations are atomic.
   Keeper entry points are modelled at WRITE granularity as scripts  [Check c1; Write w1; Check c2; ...]
   over an abstract store S, together with the wrappers under which the real code runs them:
     via_msg         Cosmos message: baseapp runTx cache-wraps the tx, error => the cache is dropped
     via_precompile  EVM precompile Run (precompiles/{assets,delegation,avs}/*.go): the ctx is
                     stateDB.GetContext() with NO cache of its own; a keeper error is packed into the
                     output `false`, Run returns nil error, the EVM call and the tx SUCCEED, so every
                     store.Set executed before the failing check stays
     via_cached      a method that creates its own ctx.CacheContext() and only calls write() at the end
                     (Keeper.Slash after fix F2, UpdateVotingPower, msg-server multi-step operations,
                     precompile DepositOrWithdraw after fix-c09-nst-deposit-withdraw-cache)
     per-item        block processing: delegation EndBlock (cache per record, `continue` on error),
                     operator AfterEpochEnd (cache per AVS), versus a loop without cache that returns
                     at the first error (oracle UpdateNSTByBalanceChange)
   The second half instantiates S with a vector of named integer facts read from the REAL store by the
   harness just before each call, and transcribes the actual check/write order of each entry point.
   No proofs here. *)
From Coq Require Import List String Ascii Bool ZArith Lia.
From Exo Require Import Base.Util.
Import ListNotations.
Local Open Scope Z_scope.
Local Open Scope list_scope.

(* ------------------------------------------------------------------------------------------ *)
(* 1. generic scripts                                                                          *)
(* ------------------------------------------------------------------------------------------ *)
Section Generic.
  Context {S : Type}.

  (* Write cls g w : if g holds, the store key class [cls] is written with w (store.Set / Delete) *)
  Inductive instr :=
  | Check (c : S -> bool)
  | Write (cls : string) (g : S -> bool) (w : S -> S).
  Definition script := list instr.

  Inductive outcome := Done | FailedAt (i : nat).
  Definition failed (r : outcome) : bool := match r with Done => false | FailedAt _ => true end.

  (* raw execution on the live store: state reached, outcome, key classes written (in order) *)
  Fixpoint run_from (p : script) (s : S) (i : nat) (tr : list string) : S * outcome * list string :=
    match p with
    | [] => (s, Done, tr)
    | Check c :: r => if c s then run_from r s (Datatypes.S i) tr else (s, FailedAt i, tr)
    | Write cls g w :: r =>
        if g s then run_from r (w s) (Datatypes.S i) (tr ++ [cls]) else run_from r s (Datatypes.S i) tr
    end.
  Definition run (p : script) (s : S) : S * outcome * list string := run_from p s 0 [].

  Definition st_of (x : S * outcome * list string) : S := fst (fst x).
  Definition res_of (x : S * outcome * list string) : outcome := snd (fst x).
  Definition tr_of (x : S * outcome * list string) : list string := snd x.

  (* the three wrappers *)
  Definition via_precompile (p : script) (s : S) : S * outcome * list string := run p s.
  Definition via_msg (p : script) (s : S) : S * outcome * list string :=
    let x := run p s in
    if failed (res_of x) then (s, res_of x, []) else x.
  Definition via_cached := via_msg.

  (* a transaction whose messages also write process memory (the oracle's package-level aggregator context): baseapp
     drops the store cache of a failed tx, nothing restores the memory. [mem cls] says which write classes are memory. *)
  Definition via_tx_mem (mem : string -> bool) (p : script) (s : S) : S * outcome * list string :=
    let x := run p s in
    if failed (res_of x) then (st_of x, res_of x, filter mem (tr_of x)) else x.

  Definition atomic (exec : script -> S -> S * outcome * list string) (p : script) : Prop :=
    forall s, failed (res_of (exec p s)) = true -> st_of (exec p s) = s.
  Definition atomic_at (exec : script -> S -> S * outcome * list string) (p : script) (s : S) : Prop :=
    failed (res_of (exec p s)) = true -> st_of (exec p s) = s.

  (* block processing, one script per work item *)
  Definition step_cached (s : S) (p : script) : S := st_of (via_cached p s).
  Definition process_cached (items : list script) (s : S) : S := fold_left step_cached items s.
  (* a loop WITHOUT per-item cache that continues after a failed item *)
  Definition step_raw (s : S) (p : script) : S := st_of (run p s).
  Definition process_raw (items : list script) (s : S) : S := fold_left step_raw items s.
  (* a loop WITHOUT cache that returns at the first failing item (UpdateNSTByBalanceChange) *)
  Fixpoint process_abort (items : list script) (s : S) : S * bool :=
    match items with
    | [] => (s, false)
    | p :: r => let x := run p s in
                if failed (res_of x) then (st_of x, true) else process_abort r (st_of x)
    end.
End Generic.
Arguments instr : clear implicits.
Arguments script : clear implicits.

(* the SHAPE of a script: where its checks and writes are *)
Inductive kind := KC | KW.
Definition kind_of {S} (i : instr S) : kind := match i with Check _ => KC | Write _ _ _ => KW end.
Definition kinds {S} (p : script S) : list kind := map kind_of p.

(* no Check after a Write *)
Fixpoint checks_first (ks : list kind) : bool :=
  match ks with
  | [] => true
  | KC :: r => checks_first r
  | KW :: r => forallb (fun k => match k with KW => true | KC => false end) r
  end.

(* ------------------------------------------------------------------------------------------ *)
(* 2. instantiation: facts read from the real store, one script per entry point                *)
(* ------------------------------------------------------------------------------------------ *)
Definition facts := list (string * Z).
Fixpoint fget (k : string) (s : facts) : Z :=
  match s with
  | [] => 0
  | (k', v) :: r => if String.eqb k k' then v else fget k r
  end.
Definition fset (k : string) (v : Z) (s : facts) : facts := (k, v) :: s.
Definition fadd (k : string) (d : Z) (s : facts) : facts := fset k (fget k s + d) s.

Definition always : facts -> bool := fun _ => true.
Definition is1 (k : string) : instr facts := Check (fun s => fget k s =? 1).
Definition is0 (k : string) : instr facts := Check (fun s => fget k s =? 0).
Definition pos (k : string) : instr facts := Check (fun s => 0 <? fget k s).
Definition touch (cls : string) : instr facts := Write cls always (fun s => s).

Definition P18 : Z := 1000000000000000000.

(* fact names (all integers; shares are LegacyDec scaled by 10^18):
   gw chain alen slen amt asset st.ex st.total st.wd st.pend as.total op opaddr frozen oa.ex oa.amt oa.pend
   oa.share oa.opshare dl.ex dl.share dl.wait assoc.any assoc.same txhash staker.listed nst.inlist nst.bal dec
   tok.ex tok.decok tok.intok dec.ok namelen.ok meta.ok info.ok  (see harness/s_c09.go c09Facts) *)

(* UpdateStakerAssetState(total+=dt, wd+=dw, pend+=dp): three UpdateAssetValue checks, then one Set *)
Definition amt (s : facts) : Z := fget "amt" s.
Definition namt (s : facts) : Z := - fget "amt" s.
Definition zero (s : facts) : Z := 0.

(* a store.Set that writes back identical bytes is not observable in the digest: the write counts as a change only
   if the record did not exist or some delta is non-zero *)
Definition chg3 (ex : string) (a b c : facts -> Z) : facts -> bool :=
  fun s => (fget ex s =? 0) || negb ((a s =? 0) && (b s =? 0) && (c s =? 0)).
Definition chg4 (ex : string) (a b c d : facts -> Z) : facts -> bool :=
  fun s => (fget ex s =? 0) || negb ((a s =? 0) && (b s =? 0) && (c s =? 0) && (d s =? 0)).

Definition upd_staker (dt dw dp : facts -> Z) : script facts :=
  [ Check (fun s => 0 <=? fget "st.total" s + dt s);
    Check (fun s => 0 <=? fget "st.wd" s + dw s);
    Check (fun s => 0 <=? fget "st.pend" s + dp s);
    Write "assets/staker_asset" (chg3 "st.ex" dt dw dp)
      (fun s => fset "st.ex" 1 (fadd "st.pend" (dp s) (fadd "st.wd" (dw s) (fadd "st.total" (dt s) s)))) ].

(* UpdateStakingAssetTotalAmount *)
Definition upd_total (d : facts -> Z) : script facts :=
  [ is1 "asset";
    Check (fun s => 0 <=? fget "as.total" s + d s);
    Write "assets/asset_total" always (fun s => fadd "as.total" (d s) s) ].

(* UpdateOperatorAssetState *)
Definition upd_opasset (da dp dsh dop : facts -> Z) : script facts :=
  [ Check (fun s => 0 <=? fget "oa.amt" s + da s);
    Check (fun s => 0 <=? fget "oa.pend" s + dp s);
    Check (fun s => 0 <=? fget "oa.share" s + dsh s);
    Check (fun s => 0 <=? fget "oa.opshare" s + dop s);
    Write "assets/operator_asset" (chg4 "oa.ex" da dp dsh dop)
      (fun s => fset "oa.ex" 1 (fadd "oa.opshare" (dop s) (fadd "oa.share" (dsh s)
                (fadd "oa.pend" (dp s) (fadd "oa.amt" (da s) s))))) ].

(* UpdateDelegationState *)
Definition upd_deleg (dw dsh : facts -> Z) : script facts :=
  [ is1 "opaddr";
    Check (fun s => 0 <=? fget "dl.wait" s + dw s);
    Check (fun s => 0 <=? fget "dl.share" s + dsh s);
    Write "delegation/state" (chg3 "dl.ex" dw dsh zero)
      (fun s => fset "dl.ex" 1 (fadd "dl.share" (dsh s) (fadd "dl.wait" (dw s) s))) ].


(* precompiles/assets/types.go DepositWithdrawParams (LST: asset address and staker address; NST: pubkey) *)
Definition dw_params : script facts := [ is1 "gw"; is1 "chain"; is1 "alen"; is1 "slen"; pos "amt" ].

(* x/assets/keeper/bank.go PerformDepositOrWithdraw *)
Definition perform (sign : Z) : script facts :=
  [ Check (fun s => 0 <=? fget "amt" s); is1 "asset" ]
  ++ upd_staker (fun s => sign * amt s) (fun s => sign * amt s) zero
  ++ upd_total (fun s => sign * amt s).

Definition deposit_lst : script facts := dw_params ++ perform 1 ++ [ is1 "st.ex" ].
Definition withdraw_lst : script facts := dw_params ++ perform (-1) ++ [ is1 "st.ex" ].

(* x/oracle/keeper/native_token.go UpdateNSTValidatorListForStaker. Balance is kept in whole tokens:
   delta = 32 when amount >= 32*10^dec, else amount.Quo(10^dec) (big.Int Quo truncates towards zero). *)
Definition nst_delta (sign : Z) (s : facts) : Z :=
  let unit := 10 ^ fget "dec" s in
  let a := sign * fget "amt" s in
  if 32 * unit <=? a then 32 else Z.quot a unit.
Definition nst_newbal (sign : Z) (s : facts) : Z := fget "nst.bal" s + nst_delta sign s.

Definition nst_update (sign : Z) : script facts :=
  [ is1 "asset";                                                      (* getDecimal *)
    Write "oracle/nst_list" (fun s => (fget "nst.inlist" s =? 1) && (nst_newbal sign s <=? 0))
          (fun s => s);                                               (* staker removed from the list *)
    Check (fun s => (fget "nst.inlist" s =? 1) || (0 <? sign));      (* "remove unexist validator" *)
    Write "oracle/nst_list" (fun s => fget "nst.inlist" s =? 0) (fun s => fset "nst.inlist" 1 s);
    Write "oracle/nst_staker" (fun s => (0 <? nst_newbal sign s) || (fget "nst.info" s =? 1))
          (fun s => fset "nst.bal" (nst_newbal sign s) s) ].

Definition deposit_nst : script facts := dw_params ++ perform 1 ++ nst_update 1 ++ [ is1 "st.ex" ].
Definition withdraw_nst : script facts := dw_params ++ perform (-1) ++ nst_update (-1) ++ [ is1 "st.ex" ].

(* precompiles/delegation/types.go GetDelegationParamsFromInputs *)
Definition dl_params : script facts :=
  [ is1 "gw"; is1 "chain"; is1 "alen"; is1 "slen"; is1 "opaddr"; pos "amt" ].

(* SharesFromTokens(totalShare, amount, totalAmount): error iff totalAmount = 0 and totalShare <> 0 *)
Definition shares_ok (s : facts) : bool :=
  negb ((fget "oa.amt" s =? 0) && negb (fget "oa.share" s =? 0)).
Definition shares_from (a : Z) (s : facts) : Z :=
  if fget "oa.amt" s =? 0 then 0 else (fget "oa.share" s * a) / fget "oa.amt" s.
(* CalculateShare: first delegation (no record or total share zero) is 1:1 *)
Definition calc_share (s : facts) : Z :=
  if (fget "oa.ex" s =? 0) || (fget "oa.share" s =? 0) then fget "amt" s * P18
  else shares_from (fget "amt" s) s.

(* values the keeper computes ONCE from the pre-state and then uses in several writes; [prepare] stores them as
   derived facts tmp.* before the script runs (they are locals of the Go function, not store entries) *)
Definition tshare (s : facts) : Z := fget "tmp.share" s.
Definition ntshare (s : facts) : Z := - fget "tmp.share" s.
Definition ttoken (s : facts) : Z := fget "tmp.token" s.
Definition nttoken (s : facts) : Z := - fget "tmp.token" s.

(* x/delegation/keeper/delegation.go delegateTo (LST / NST branch; notGenesis = true); tmp.share = calc_share *)
Definition delegate : script facts :=
  dl_params ++
  [ pos "amt"; is1 "op"; is0 "frozen"; is1 "st.ex";
    Check (fun s => fget "amt" s <=? fget "st.wd" s) ]
  ++ upd_staker zero namt zero
  ++ [ Check (fun s => (fget "oa.ex" s =? 0) || (fget "oa.share" s =? 0) || shares_ok s) ]   (* CalculateShare *)
  ++ upd_opasset amt zero tshare (fun s => if fget "assoc.same" s =? 1 then tshare s else 0)
  ++ upd_deleg zero tshare
  ++ [ Write "delegation/stakers_by_operator" (fun s => fget "staker.listed" s =? 0)
         (fun s => fset "staker.listed" 1 s) ].

(* TokensFromShares = banker's Quo then TruncateInt (Base.IntDec-style arithmetic inline) *)
Definition chop_round (d : Z) : Z :=
  let q := d / P18 in let r := d mod P18 in
  if r =? 0 then q else if 2 * r <? P18 then q else if P18 <? 2 * r then q + 1
  else if Z.even q then q else q + 1.
Definition tokens_from (sh : Z) (s : facts) : Z :=
  if fget "oa.share" s =? 0 then 0
  else chop_round ((sh * fget "oa.amt" s * (P18 * P18)) / fget "oa.share" s) / P18.
(* ValidateUndelegationAmount (after fix 56b99a6): the shares computed for the amount may exceed the staker's shares by
   rounding dust; a request within the staker's reported position is then an undelegation of the whole position *)
Definition und_within (s : facts) : bool :=
  (shares_from (fget "amt" s) s <=? fget "dl.share" s) ||
  ((fget "dl.share" s <=? fget "oa.share" s) && (fget "amt" s <=? tokens_from (fget "dl.share" s) s)).
(* the share that will be removed *)
Definition und_share (s : facts) : Z :=
  let sh := shares_from (fget "amt" s) s in
  let tol := shares_from 1 s in
  if fget "dl.share" s <? sh then fget "dl.share" s
  else if fget "dl.share" s - sh <? tol then fget "dl.share" s else sh.
(* RemoveShareFromOperator: token amount removed (the last share takes everything; otherwise
   TokensFromShares = banker's Quo then TruncateInt — transcribed with Base.IntDec-style arithmetic inline) *)
Definition und_token (s : facts) : Z :=
  let sh := und_share s in
  if fget "oa.share" s =? sh then fget "oa.amt" s
  else if fget "oa.share" s =? 0 then 0
  else chop_round ((sh * fget "oa.amt" s * (P18 * P18)) / fget "oa.share" s) / P18.

(* x/delegation/keeper/delegation.go UndelegateFrom; tmp.share = und_share, tmp.token = und_token *)
Definition undelegate : script facts :=
  dl_params ++
  [ is1 "txhash"; pos "amt"; is1 "op";
    pos "amt"; is1 "dl.ex"; is1 "oa.ex";
    Check shares_ok;
    Check und_within;
    Check (fun s => tshare s <=? fget "dl.share" s);                    (* share after the dust adjustment *)
    Check (fun s => 0 <? tshare s);                                     (* RemoveShare: share positive *)
    Check (fun s => tshare s <=? fget "oa.share" s);
    Check (fun s => 0 <=? ttoken s) ]                                   (* TokensFromShares result *)
  ++ upd_opasset nttoken ttoken ntshare (fun s => if fget "assoc.same" s =? 1 then ntshare s else 0)
  ++ upd_staker zero zero ttoken
  ++ upd_deleg ttoken ntshare
  ++ [ Write "delegation/stakers_by_operator" (fun s => fget "dl.share" s =? 0) (fun s => s);
       is1 "complete.ok";                                               (* SetUndelegationRecords *)
       touch "delegation/undelegation";
       is0 "hold.max" ].                                                (* hook: IncrementUndelegationHoldCount *)

(* AssociateOperatorWithStaker / DissociateOperatorFromStaker (one delegation of the staker is tracked) *)
Definition associate : script facts :=
  [ is1 "gw"; is1 "chain"; is1 "slen"; is1 "opaddr"; is1 "chain"; is1 "op"; is0 "assoc.any" ]
  ++ [ Check (fun s => (fget "dl.ex" s =? 0) || (0 <=? fget "oa.opshare" s + fget "dl.share" s));
       Write "assets/operator_asset" (fun s => (fget "dl.ex" s =? 1) && negb (fget "dl.share" s =? 0))
             (fun s => fadd "oa.opshare" (fget "dl.share" s) s);
       Write "delegation/association" always (fun s => fset "assoc.any" 1 s) ].
Definition dissociate : script facts :=
  [ is1 "gw"; is1 "chain"; is1 "slen"; is1 "assoc.any" ]
  ++ [ Check (fun s => (fget "dl.ex" s =? 0) || (fget "assoc.same" s =? 0) ||
                       (0 <=? fget "oa.opshare" s - fget "dl.share" s));
       Write "assets/operator_asset" (fun s => (fget "dl.ex" s =? 1) && (fget "assoc.same" s =? 1) && negb (fget "dl.share" s =? 0))
             (fun s => fadd "oa.opshare" (- fget "dl.share" s) s);
       Write "delegation/association" always (fun s => fset "assoc.any" 0 s) ].

(* precompiles/assets/tx.go RegisterToken.
   ORIGINAL order: oracle registration (store + in-memory cache) BEFORE SetStakingAssetInfo validates
   decimals <= 18; REPAIRED order (fix-c09-register-token-order): validation first. *)
Definition register_token_params : script facts :=
  [ is1 "gw"; is1 "chain"; is1 "alen"; is1 "namelen.ok"; is1 "meta.ok"; is1 "info.ok"; is0 "asset" ].
Definition register_token_original : script facts :=
  register_token_params ++
  [ is0 "tok.ex"; is1 "tok.decok"; is1 "tok.intok";
    touch "oracle/params";
    is1 "dec.ok"; is0 "asset";
    Write "assets/asset_total" always (fun s => fset "asset" 1 s) ].
Definition register_token : script facts :=
  register_token_params ++
  [ is1 "dec.ok";
    is0 "tok.ex"; is1 "tok.decok"; is1 "tok.intok";
    touch "oracle/params";
    is1 "dec.ok"; is0 "asset";
    Write "assets/asset_total" always (fun s => fset "asset" 1 s) ].

Definition update_token : script facts :=
  [ is1 "gw"; is1 "chain"; is1 "alen"; is1 "meta.ok"; is1 "asset"; touch "assets/asset_total" ].

Definition register_client_chain : script facts :=
  [ is1 "gw"; is1 "cc.lenok"; is1 "namelen.ok"; is1 "meta.ok"; touch "assets/client_chain" ].

(* x/operator/keeper/slash.go Keeper.Slash after F2 (whole body in one cache; the duplicate-ID check follows
   the asset reduction but the cache is only committed at the end) *)
Definition slash : script facts :=
  [ is1 "prop.ok"; is1 "height.ok"; is1 "power.ok"; is1 "value.ok";
    Write "assets/operator_asset" (fun s => fget "slash.moves" s =? 1) (fun s => s);
    Write "delegation/undelegation" (fun s => fget "slash.moves" s =? 1) (fun s => s);
    is0 "slash.dup"; is1 "contract.ok"; is1 "prop.le1";     (* UpdateOperatorSlashInfo *)
    touch "operator/slash_info" ].

(* x/operator msg server *)
Definition register_operator : script facts :=
  [ is1 "opaddr"; is0 "op"; is1 "info.ok"; touch "operator/operator_info" ].
Definition opt_in : script facts :=
  [ is1 "op"; is1 "avs"; is0 "optedin"; is1 "selfdeleg.ok"; is0 "frozen";
    touch "operator/usd_value"; is1 "avs"; touch "operator/opted_info" ].
Definition opt_out : script facts :=
  [ is1 "op"; is1 "avs"; is1 "active"; is0 "frozen";
    touch "operator/usd_value"; touch "operator/opted_info" ].

(* delegation EndBlock, one matured record (x/delegation/keeper/abci.go, hold count 0) *)
Definition complete_undelegation : script facts :=
  [ is1 "opaddr";
    Check (fun s => 0 <=? fget "dl.wait" s - fget "rec.amount" s);
    Check (fun s => 0 <=? fget "dl.share" s);
    Write "delegation/state" always (fun s => fadd "dl.wait" (- fget "rec.amount" s) s) ]
  ++ upd_staker zero (fun s => fget "rec.actual" s) (fun s => - fget "rec.amount" s)
  ++ upd_opasset zero (fun s => - fget "rec.amount" s) zero zero
  ++ [ touch "delegation/undelegation" ].

(* x/delegation/keeper/update_native_restaking_balance.go UpdateNSTBalance, negative amount, one delegation:
   withdrawable is reduced first, then RemoveShare on the delegation may fail *)
Definition update_nst_balance_neg : script facts :=
  [ is1 "st.ex" ]
  ++ upd_staker (fun s => - Z.min (fget "amt" s) (fget "st.wd" s)) (fun s => - Z.min (fget "amt" s) (fget "st.wd" s)) zero
  ++ [ Check (fun s => (fget "amt" s <=? fget "st.wd" s) || (fget "dl.ex" s =? 0) || (0 <? fget "slash.share" s));
       Check (fun s => (fget "amt" s <=? fget "st.wd" s) || (fget "dl.ex" s =? 0) ||
                       (fget "slash.share" s <=? fget "oa.share" s));
       Write "assets/operator_asset" (fun s => negb (fget "amt" s <=? fget "st.wd" s) && (fget "dl.ex" s =? 1))
             (fun s => s) ].

(* precompiles/avs/tx.go + x/avs/keeper/keeper.go (the AVS is the calling contract; sender is an argument) *)
Definition avs_register : script facts :=
  [ is1 "args.ok"; is1 "owner.ok"; is1 "epoch.ok"; is0 "avs"; is0 "taskaddr.used"; is1 "assets.ok";
    touch "avs/info" ].
Definition avs_deregister : script facts :=
  [ is1 "args.ok"; is1 "avs"; is1 "owner.ok"; is1 "unbond.ok"; is1 "name.ok"; touch "avs/info" ].
(* registerOperatorToAVS -> OperatorOptAction -> operator keeper OptIn (no cache on this path) *)
Definition avs_opt_in : script facts :=
  [ is1 "args.ok"; is1 "op"; is1 "avs";
    is1 "op"; is1 "avs"; is0 "optedin"; is1 "selfdeleg.ok"; is0 "frozen";
    touch "operator/usd_value"; is1 "avs"; touch "operator/opted_info" ].
Definition avs_opt_out : script facts :=
  [ is1 "args.ok"; is1 "op"; is1 "avs";
    is1 "op"; is1 "avs"; is1 "active"; is0 "frozen";
    touch "operator/usd_value"; touch "operator/opted_info" ].
Definition avs_create_task : script facts :=
  [ is1 "args.ok"; is1 "task.avs"; is1 "owner.ok"; is1 "power.ok"; is1 "epoch.ok"; is0 "task.exists";
    touch "avs/task_num"; is1 "task.avs"; touch "avs/task" ].

(* x/oracle/keeper/native_token.go UpdateNSTByBalanceChange (reached from oracle EndBlock and from price messages):
   the stakers of the list are updated one after the other, the loop returns at the first staker whose new balance is
   out of range (or whose delegation update fails). After fix-c09-nst-balance-change-atomic the whole loop runs on
   one cache context. fail.idx = position of the first failing staker, fail.moved = 1 if a staker before it had a
   non-zero balance delta (assets / delegation state touched) *)
Definition nst_balance_change : script facts :=
  [ is1 "len.ok"; is1 "list.ok"; is1 "parse.ok";
    Write "oracle/nst_staker" (fun s => 0 <? fget "fail.idx" s) (fun s => s);
    Write "assets/staker_asset" (fun s => 0 <? fget "fail.moved" s) (fun s => s);
    is0 "fail.any";
    touch "oracle/nst_staker" ].

(* x/oracle CreatePrice transactions (1-3 messages) through the real DeliverTx: each counted message fills the
   in-memory aggregator context (FillPrice, caches). fail.idx = index of the message the tx failed at (-1 none), as
   reported by baseapp; n = number of messages. Class "oracle-mem" = the dump of the process memory. *)
Definition is_mem (cls : string) : bool := String.prefix "oracle-mem" cls.
(* fail.ignored = 1: the failing message was rejected with "price proposal ignored" - the filter stage has already
   recorded the message's nonce in memory when the aggregation stage refuses it *)
Definition oracle_msg (i : Z) : script facts :=
  [ Check (fun s => negb ((fget "fail.idx" s =? i) && (fget "fail.ignored" s =? 0)));
    Write "oracle-mem" (fun s => i <? fget "n" s) (fun s => s);
    Check (fun s => negb (fget "fail.idx" s =? i)) ].
Definition oracle_tx : script facts :=
  [ is1 "ante.ok" ] ++ oracle_msg 0 ++ oracle_msg 1 ++ oracle_msg 2.

(* x/oracle MsgUpdateParams transactions (1-2 messages): an accepted message stores the new params and pushes them into
   the in-memory cache (cs.AddCache(ItemP)); the aggregator context's own params are only replaced at EndBlock. The
   memory dump is reported in three classes: oracle-mem/agc-params, oracle-mem/agc, oracle-mem/cache. *)
Definition oracle_params_msg (i : Z) : script facts :=
  [ Check (fun s => negb (fget "fail.idx" s =? i));
    Write "oracle-mem/cache" (fun s => i <? fget "n" s) (fun s => s) ].
Definition oracle_params_tx : script facts :=
  [ is1 "ante.ok" ] ++ oracle_params_msg 0 ++ oracle_params_msg 1.

(* ---- entry points and how the code wraps them ---- *)
Inductive mode := MPrecompile | MCached | MMsg | MTxMem.
Inductive op_kind :=
| DepositLST | WithdrawLST | DepositNST | WithdrawNST | Delegate | Undelegate | Associate | Dissociate
| RegisterToken | UpdateToken | RegisterClientChain
| Slash | MsgRegisterOperator | MsgOptIn | MsgOptOut | EndBlockUndelegation | NSTBalanceChange
| AvsRegister | AvsDeregister | AvsOptIn | AvsOptOut | AvsCreateTask | OracleTx | OracleParamsTx.

Definition script_of (k : op_kind) : script facts :=
  match k with
  | DepositLST => deposit_lst | WithdrawLST => withdraw_lst
  | DepositNST => deposit_nst | WithdrawNST => withdraw_nst
  | Delegate => delegate | Undelegate => undelegate
  | Associate => associate | Dissociate => dissociate
  | RegisterToken => register_token | UpdateToken => update_token
  | RegisterClientChain => register_client_chain
  | Slash => slash
  | MsgRegisterOperator => register_operator | MsgOptIn => opt_in | MsgOptOut => opt_out
  | EndBlockUndelegation => complete_undelegation
  | NSTBalanceChange => nst_balance_change
  | AvsRegister => avs_register | AvsDeregister => avs_deregister
  | AvsOptIn => avs_opt_in | AvsOptOut => avs_opt_out | AvsCreateTask => avs_create_task
  | OracleTx => oracle_tx
  | OracleParamsTx => oracle_params_tx
  end.

(* the wrapper the (repaired) code puts around each entry point *)
Definition mode_of (k : op_kind) : mode :=
  match k with
  | DepositLST | WithdrawLST | DepositNST | WithdrawNST => MCached   (* fix-c09-nst-deposit-withdraw-cache *)
  | Delegate | Undelegate | Associate | Dissociate | RegisterToken | UpdateToken | RegisterClientChain => MPrecompile
  | Slash => MCached
  | MsgRegisterOperator | MsgOptIn | MsgOptOut => MMsg
  | EndBlockUndelegation => MCached
  | NSTBalanceChange => MCached                                       (* fix-c09-nst-balance-change-atomic *)
  | AvsRegister | AvsDeregister | AvsOptIn | AvsOptOut | AvsCreateTask => MPrecompile
  | OracleTx | OracleParamsTx => MTxMem                               (* store reverted, memory not *)
  end.

(* locals computed once from the pre-state *)
Definition prepare (k : op_kind) (s : facts) : facts :=
  match k with
  | Delegate => fset "tmp.share" (calc_share s) s
  | Undelegate => fset "tmp.token" (und_token s) (fset "tmp.share" (und_share s) s)
  | _ => s
  end.

Definition exec (m : mode) (p : script facts) (s : facts) : facts * outcome * list string :=
  match m with
  | MPrecompile => via_precompile p s
  | MCached => via_cached p s
  | MMsg => via_msg p s
  | MTxMem => via_tx_mem is_mem p s
  end.

(* ------------------------------------------------------------------------------------------ *)
(* 3. cases written by the harness                                                             *)
(* ------------------------------------------------------------------------------------------ *)
Inductive result := ROk | RFail | RPanic.
Definition result_eqb (a b : result) : bool :=
  match a, b with ROk, ROk | RFail, RFail | RPanic, RPanic => true | _, _ => false end.

(* one call: entry point, facts of the pre-state, what the implementation reported, and the key classes
   (module/prefix names) whose bytes differ between the store digests taken before and after the call *)
Record call := mkCall {
  c_kind : op_kind;
  c_facts : facts;
  c_result : result;
  c_changed : list string }.

(* block-processing observation: number of items, number of items made to fail (at arbitrary positions, at their
   first step or half-way), the key classes that differ between (run with all items) and (run with the failing items
   taken off the work list), after the failing items' own records have been removed from both; and whether the run
   reported a panic *)
Record items_obs := mkItems {
  i_n : nat; i_failing : nat; i_diff : list string; i_panic : bool }.

Inductive case :=
| CCall (c : call)
| CItems (o : items_obs).

Fixpoint mem_str (x : string) (l : list string) : bool :=
  match l with [] => false | y :: r => String.eqb x y || mem_str x r end.
Definition subset_str (a b : list string) : bool := forallb (fun x => mem_str x b) a.
Definition seteq_str (a b : list string) : bool := subset_str a b && subset_str b a.

(* correspondence: the model, run on the facts of the real pre-state, predicts (1) whether the call fails and
   (2) on failure exactly which key classes are left changed; on success the classes the script writes must be
   among those observed changed (hooks may touch more). *)
Definition check_call (c : call) : bool :=
  match c_result c with
  | RPanic => true
  | r =>
      let x := exec (mode_of (c_kind c)) (script_of (c_kind c)) (prepare (c_kind c) (c_facts c)) in
      if failed (res_of x) then result_eqb r RFail && seteq_str (tr_of x) (c_changed c)
      else result_eqb r ROk && subset_str (tr_of x) (c_changed c)
  end.

Definition check_case (c : case) : option nat :=
  match c with
  | CCall k => if check_call k then None else Some 0%nat
  | CItems o => if Nat.ltb 0 (i_failing o) && Nat.ltb (i_failing o) (i_n o) then None else Some 0%nat
  end.

(* the property itself, on observations only: a reported failure leaves no key changed; a failing item leaves
   the state equal to the one obtained without it *)
Definition monitor_case (c : case) : option nat :=
  match c with
  | CCall k =>
      match c_result k with
      | RFail => match c_changed k with [] => None | _ => Some 0%nat end
      | _ => None
      end
  | CItems o =>
      if i_panic o then Some 1%nat
      else match i_diff o with [] => None | _ => Some 0%nat end
  end.
