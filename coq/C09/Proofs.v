(* C09/Proofs.v — lemmas about the script model (generic part) and about the transcribed entry points. *)
From Coq Require Import List String Ascii Bool ZArith Lia.
From Exo Require Import Base.Util C09.Model.
Import ListNotations.
Local Open Scope Z_scope.
Local Open Scope list_scope.

(* ------------------------------------------------------------------------------------------ *)
(* generic                                                                                     *)
(* ------------------------------------------------------------------------------------------ *)
Section GenericProofs.
  Context {S : Type}.
  Notation script := (script S).

  Lemma via_msg_atomic (p : script) : atomic via_msg p.
  Proof.
    intros s H. unfold via_msg in *. destruct (failed (res_of (run p s))) eqn:E; [reflexivity|].
    rewrite E in H. discriminate.
  Qed.

  Lemma via_msg_trace_empty (p : script) s : failed (res_of (via_msg p s)) = true -> tr_of (via_msg p s) = [].
  Proof.
    unfold via_msg. destruct (failed (res_of (run p s))) eqn:E; [reflexivity|]. intro H. rewrite E in H. discriminate.
  Qed.

  Lemma via_msg_success (p : script) s : failed (res_of (run p s)) = false -> via_msg p s = run p s.
  Proof. intro H. unfold via_msg. rewrite H. reflexivity. Qed.

  Definition all_writes (ks : list kind) : bool := forallb (fun k => match k with KW => true | KC => false end) ks.

  Lemma all_writes_never_fail (p : script) : all_writes (kinds p) = true ->
    forall s i tr, failed (res_of (run_from p s i tr)) = false.
  Proof.
    induction p as [|a r IH]; intros H s i tr; simpl; [reflexivity|].
    destruct a as [c|cls g w]; simpl in H; [discriminate|].
    destruct (g s); apply IH; assumption.
  Qed.

  Lemma checks_first_unchanged (p : script) : checks_first (kinds p) = true ->
    forall s i tr, failed (res_of (run_from p s i tr)) = true -> st_of (run_from p s i tr) = s.
  Proof.
    induction p as [|a r IH]; intros H s i tr F; simpl in *; [reflexivity|].
    destruct a as [c|cls g w]; simpl in H.
    - destruct (c s); [apply IH; assumption | reflexivity].
    - exfalso. pose proof (all_writes_never_fail r H) as N.
      destruct (g s); rewrite N in F; discriminate.
  Qed.

  Lemma precompile_atomic_checks_first (p : script) : checks_first (kinds p) = true -> atomic via_precompile p.
  Proof. intros H s F. apply checks_first_unchanged; assumption. Qed.

  (* a run that executed no write left the store as it was *)
  Lemma trace_grows (p : script) : forall s i tr, exists t, tr_of (run_from p s i tr) = tr ++ t.
  Proof.
    induction p as [|a r IH]; intros s i tr; simpl.
    - exists []. rewrite app_nil_r. reflexivity.
    - destruct a as [c|cls g w].
      + destruct (c s); [apply IH|]. exists []. rewrite app_nil_r. reflexivity.
      + destruct (g s); [|apply IH].
        destruct (IH (w s) (Datatypes.S i) (tr ++ [cls])) as [t Ht]. exists (cls :: t).
        rewrite Ht, <- app_assoc. reflexivity.
  Qed.

  Lemma no_write_unchanged (p : script) : forall s i, tr_of (run_from p s i []) = [] -> st_of (run_from p s i []) = s.
  Proof.
    induction p as [|a r IH]; intros s i H; simpl in *; [reflexivity|].
    destruct a as [c|cls g w].
    - destruct (c s); [apply IH; assumption | reflexivity].
    - destruct (g s); [|apply IH; assumption].
      exfalso. destruct (trace_grows r (w s) (Datatypes.S i) [cls]) as [t Ht].
      rewrite Ht in H. simpl in H. discriminate.
  Qed.

  Lemma atomic_at_of_trace (p : script) s :
    (failed (res_of (run p s)) = true -> tr_of (run p s) = []) -> atomic_at via_precompile p s.
  Proof. intros H F. apply no_write_unchanged. apply H. exact F. Qed.

  (* per-item cache *)
  Lemma step_cached_failed (p : script) s : failed (res_of (run p s)) = true -> step_cached s p = s.
  Proof. intro F. unfold step_cached, via_cached, via_msg. rewrite F. reflexivity. Qed.

  Lemma step_cached_ok (p : script) s : failed (res_of (run p s)) = false -> step_cached s p = st_of (run p s).
  Proof. intro F. unfold step_cached, via_cached, via_msg. rewrite F. reflexivity. Qed.

  Lemma per_item_cache (pre post : list script) (p : script) s :
    failed (res_of (run p (process_cached pre s))) = true ->
    process_cached (pre ++ p :: post) s = process_cached (pre ++ post) s.
  Proof.
    intro F. unfold process_cached. rewrite !fold_left_app. simpl.
    fold (process_cached pre s). rewrite (step_cached_failed p _ F). reflexivity.
  Qed.

  (* all failing items at once: the result is the one of the list of items that succeed when their turn comes *)
  Fixpoint surviving (items : list script) (s : S) : list script :=
    match items with
    | [] => []
    | p :: r => if failed (res_of (run p s)) then surviving r s else p :: surviving r (st_of (run p s))
    end.

  Lemma per_item_cache_all (items : list script) : forall s,
    process_cached items s = process_raw (surviving items s) s.
  Proof.
    induction items as [|p r IH]; intro s; simpl; [reflexivity|].
    destruct (failed (res_of (run p s))) eqn:F.
    - unfold process_cached in *. simpl. rewrite (step_cached_failed p s F). apply IH.
    - unfold process_cached, process_raw in *. simpl. rewrite (step_cached_ok p s F). unfold step_raw at 2. apply IH.
  Qed.
End GenericProofs.

(* necessity of checks-first: the canonical interpretation over nat *)
Definition canon_instr (k : kind) : instr nat :=
  match k with
  | KC => Check (fun n => Nat.eqb n 0)
  | KW => Write "w" (fun _ => true) (fun _ => 1%nat)
  end.
Definition canon (ks : list kind) : script nat := map canon_instr ks.

Lemma canon_kinds ks : kinds (canon ks) = ks.
Proof. induction ks as [|k r IH]; simpl; [reflexivity|]. rewrite IH. destruct k; reflexivity. Qed.

Lemma canon_dirty ks : all_writes ks = false ->
  forall i tr, failed (res_of (run_from (canon ks) 1%nat i tr)) = true /\ st_of (run_from (canon ks) 1%nat i tr) = 1%nat.
Proof.
  induction ks as [|k r IH]; intros H i tr; simpl in *; [discriminate|].
  destruct k; simpl in *; [split; reflexivity|]. apply IH. assumption.
Qed.

Lemma canon_clean ks : checks_first ks = false ->
  forall i tr, failed (res_of (run_from (canon ks) 0%nat i tr)) = true /\ st_of (run_from (canon ks) 0%nat i tr) = 1%nat.
Proof.
  induction ks as [|k r IH]; intros H i tr; simpl in *; [discriminate|].
  destruct k; simpl in *; [apply IH; assumption|]. apply canon_dirty. assumption.
Qed.

Lemma checks_first_necessary ks : checks_first ks = false ->
  exists p : script nat, kinds p = ks /\ ~ atomic via_precompile p.
Proof.
  intro H. exists (canon ks). split; [apply canon_kinds|]. intro A.
  destruct (canon_clean ks H 0%nat []) as [F E]. specialize (A 0%nat F).
  unfold via_precompile, run in A. rewrite E in A. discriminate.
Qed.

Lemma precompile_characterisation ks :
  checks_first ks = true <-> (forall (S : Type) (p : script S), kinds p = ks -> atomic via_precompile p).
Proof.
  split.
  - intros H S p E. apply precompile_atomic_checks_first. rewrite E. exact H.
  - intro H. destruct (checks_first ks) eqn:E; [reflexivity|].
    destruct (checks_first_necessary ks E) as [p [K N]]. exfalso. apply N. apply H. exact K.
Qed.

(* loops without per-item cache are not atomic per item *)
Definition bad_item : script nat := [ Write "w" (fun _ => true) (fun n => Datatypes.S n); Check (fun _ => false) ].
Definition good_item : script nat := [ Write "w" (fun _ => true) (fun n => (n + 10)%nat) ].

Lemma process_raw_not_isolated :
  failed (res_of (run bad_item 0%nat)) = true /\
  process_raw [bad_item; good_item] 0%nat <> process_raw [good_item] 0%nat.
Proof. split; [reflexivity|]. vm_compute. discriminate. Qed.

Lemma process_abort_not_isolated :
  process_abort [good_item; bad_item; good_item] 0%nat = (11%nat, true) /\
  fst (process_abort [good_item; good_item] 0%nat) = 20%nat.
Proof. split; reflexivity. Qed.

(* ------------------------------------------------------------------------------------------ *)
(* Hoare-style reasoning: prefix of checks, then a suffix that cannot fail from J-states        *)
(* ------------------------------------------------------------------------------------------ *)
Section Hoare.
  Context {S : Type}.
  Notation script := (script S).

  Definition instr_ok (J : S -> Prop) (a : instr S) : Prop :=
    match a with
    | Check c => forall s, J s -> c s = true
    | Write _ g w => forall s, J s -> J (w s)
    end.

  Lemma safe_suffix (J : S -> Prop) (p : script) : Forall (instr_ok J) p ->
    forall s i tr, J s -> failed (res_of (run_from p s i tr)) = false.
  Proof.
    induction 1 as [|a r Ha Hr IH]; intros s i tr HJ; simpl; [reflexivity|].
    destruct a as [c|cls g w]; simpl in Ha.
    - rewrite (Ha s HJ). apply IH. exact HJ.
    - destruct (g s); apply IH; auto.
  Qed.

  Fixpoint passes (p : script) (s : S) : Prop :=
    match p with
    | [] => True
    | Check c :: r => c s = true /\ passes r s
    | Write _ _ _ :: r => False
    end.

  Lemma checks_prefix (pre suf : script) : Forall (fun a => kind_of a = KC) pre -> forall s i tr,
    (failed (res_of (run_from (pre ++ suf) s i tr)) = true /\ tr_of (run_from (pre ++ suf) s i tr) = tr) \/
    (passes pre s /\ run_from (pre ++ suf) s i tr = run_from suf s (i + List.length pre) tr).
  Proof.
    induction 1 as [|a r Ha Hr IH]; intros s i tr; simpl.
    - right. split; [exact I|]. rewrite Nat.add_0_r. reflexivity.
    - destruct a as [c|cls g w]; [|discriminate].
      destruct (c s) eqn:E.
      + destruct (IH s (Datatypes.S i) tr) as [H|[H1 H2]].
        * left. exact H.
        * right. split; [split; [reflexivity|assumption]|]. rewrite H2. f_equal. lia.
      + left. split; reflexivity.
  Qed.

  (* two phases: J1 during a, weakened to J2 for b *)
  Lemma safe_two (J1 J2 : S -> Prop) (a b : script) :
    Forall (instr_ok J1) a -> (forall s, J1 s -> J2 s) -> Forall (instr_ok J2) b ->
    forall s i tr, J1 s -> failed (res_of (run_from (a ++ b) s i tr)) = false.
  Proof.
    intros Ha Hw Hb. induction Ha as [|x r Hx Hr IH]; intros s i tr HJ; simpl.
    - apply (safe_suffix J2 b Hb). apply Hw. exact HJ.
    - destruct x as [c|cls g w]; simpl in Hx.
      + rewrite (Hx s HJ). apply IH. exact HJ.
      + destruct (g s); apply IH; auto.
  Qed.

  (* the statement used for the entry points: prefix of checks only, suffix safe under J *)
  Lemma prefix_then_safe' (J : S -> Prop) (pre suf : script) s :
    Forall (fun a => kind_of a = KC) pre ->
    (passes pre s -> J s) ->
    (forall s i tr, J s -> failed (res_of (run_from suf s i tr)) = false) ->
    failed (res_of (run (pre ++ suf) s)) = true -> tr_of (run (pre ++ suf) s) = [].
  Proof.
    intros HK HJ HS F. unfold run in *.
    destruct (checks_prefix pre suf HK s 0%nat []) as [[_ H]|[H1 H2]].
    - exact H.
    - exfalso. rewrite H2 in F. rewrite (HS s _ [] (HJ H1)) in F. discriminate.
  Qed.

  Lemma prefix_then_safe (J : S -> Prop) (pre suf : script) s :
    Forall (fun a => kind_of a = KC) pre ->
    (passes pre s -> J s) ->
    Forall (instr_ok J) suf ->
    failed (res_of (run (pre ++ suf) s)) = true -> tr_of (run (pre ++ suf) s) = [].
  Proof. intros HK HJ HS. apply (prefix_then_safe' J); auto. apply safe_suffix. exact HS. Qed.
End Hoare.

(* ------------------------------------------------------------------------------------------ *)
(* facts                                                                                       *)
(* ------------------------------------------------------------------------------------------ *)
Lemma fget_fset k k' v s : fget k (fset k' v s) = if String.eqb k k' then v else fget k s.
Proof. reflexivity. Qed.

Ltac bool_hyps :=
  repeat match goal with
  | H : _ && _ = true |- _ => apply andb_prop in H; destruct H
  | H : (_ <=? _) = true |- _ => apply Z.leb_le in H
  | H : (_ <? _) = true |- _ => apply Z.ltb_lt in H
  | H : (_ =? _) = true |- _ => apply Z.eqb_eq in H
  | H : (_ <=? _) = false |- _ => apply Z.leb_gt in H
  | H : (_ <? _) = false |- _ => apply Z.ltb_ge in H
  | H : (_ =? _) = false |- _ => apply Z.eqb_neq in H
  end.
Ltac bool_goal :=
  repeat match goal with
  | |- _ && _ = true => apply andb_true_intro; split
  | |- (_ <=? _) = true => apply Z.leb_le
  | |- (_ <? _) = true => apply Z.ltb_lt
  | |- (_ =? _) = true => apply Z.eqb_eq
  end.

Ltac fsimp :=
  unfold fadd, zero, namt, amt, tshare, ntshare, ttoken, nttoken, always in *;
  repeat rewrite fget_fset; cbn [String.eqb Ascii.eqb Bool.eqb andb].

Ltac fin :=
  unfold shares_ok in *; cbn [forallb]; fsimp;
  repeat match goal with
  | |- _ /\ _ => split
  | |- _ && _ = true => apply andb_true_intro; split
  | |- (_ <=? _) = true => apply Z.leb_le
  | |- (_ <? _) = true => apply Z.ltb_lt
  | |- (_ =? _) = true => apply Z.eqb_eq
  | |- context [if ?c then _ else _] => destruct c
  end; try assumption; try reflexivity; try lia.

Ltac all_kc := repeat first [apply Forall_nil | apply Forall_cons; [reflexivity|]].

Definition nonneg (ks : list string) (s : facts) : bool := forallb (fun k => 0 <=? fget k s) ks.

(* ------------------------------------------------------------------------------------------ *)
(* delegateTo                                                                                  *)
(* ------------------------------------------------------------------------------------------ *)
Definition share_cond (s : facts) : bool :=
  (fget "oa.ex" s =? 0) || (fget "oa.share" s =? 0) || shares_ok s.
Definition inv_delegate (s : facts) : bool :=
  nonneg ["tmp.share"; "oa.amt"; "oa.pend"; "oa.share"; "oa.opshare"; "dl.wait"; "dl.share"]%string s
  && share_cond s.

Definition delegate_pre : script facts :=
  dl_params ++
  [ pos "amt"; is1 "op"; is0 "frozen"; is1 "st.ex";
    Check (fun s => fget "amt" s <=? fget "st.wd" s);
    Check (fun s => 0 <=? fget "st.total" s + zero s);
    Check (fun s => 0 <=? fget "st.wd" s + namt s);
    Check (fun s => 0 <=? fget "st.pend" s + zero s) ].
Definition delegate_suf : script facts :=
  [ Write "assets/staker_asset" (chg3 "st.ex" zero namt zero)
      (fun s => fset "st.ex" 1 (fadd "st.pend" (zero s) (fadd "st.wd" (namt s) (fadd "st.total" (zero s) s)))) ]
  ++ [ Check (fun s => (fget "oa.ex" s =? 0) || (fget "oa.share" s =? 0) || shares_ok s) ]
  ++ upd_opasset amt zero tshare (fun s => if fget "assoc.same" s =? 1 then tshare s else 0)
  ++ upd_deleg zero tshare
  ++ [ Write "delegation/stakers_by_operator" (fun s => fget "staker.listed" s =? 0)
         (fun s => fset "staker.listed" 1 s) ].
Lemma delegate_split : delegate = delegate_pre ++ delegate_suf.
Proof. reflexivity. Qed.

Definition J_delegate (s : facts) : Prop :=
  0 < fget "amt" s /\ fget "opaddr" s = 1 /\ inv_delegate s = true.

Lemma delegate_suf_ok : Forall (instr_ok J_delegate) delegate_suf.
Proof.
  unfold delegate_suf, upd_opasset, upd_deleg, is1. cbn [app].
  repeat first [apply Forall_nil | apply Forall_cons]; cbn [instr_ok]; intros s (Ha & Ho & Hi);
    unfold J_delegate, inv_delegate, nonneg, share_cond in *; cbn [forallb] in Hi; bool_hyps.
  all: try (fsimp; bool_goal; lia).
  all: fin.
Qed.

Lemma delegate_atomic s : inv_delegate s = true -> atomic_at via_precompile delegate s.
Proof.
  intro I. apply atomic_at_of_trace. rewrite delegate_split.
  apply (prefix_then_safe J_delegate).
  - unfold delegate_pre, dl_params, is1, is0, pos. cbn [app]. all_kc.
  - unfold delegate_pre, dl_params, is1, is0, pos. cbn [app passes]. intros H.
    repeat match goal with H : _ /\ _ |- _ => destruct H end. bool_hyps.
    unfold J_delegate. repeat split; assumption.
  - exact delegate_suf_ok.
Qed.

(* the locals computed by the keeper satisfy the tmp part of the invariant *)
Lemma shares_from_nonneg a s : 0 <= a -> 0 <= fget "oa.share" s -> 0 <= fget "oa.amt" s -> 0 <= shares_from a s.
Proof.
  intros Ha Hs Hm. unfold shares_from. destruct (fget "oa.amt" s =? 0) eqn:E; [lia|].
  apply Z.eqb_neq in E. apply Z.div_pos; nia.
Qed.

Lemma prepare_delegate_inv s :
  0 <= fget "amt" s ->
  nonneg ["oa.amt"; "oa.pend"; "oa.share"; "oa.opshare"; "dl.wait"; "dl.share"]%string s = true ->
  share_cond s = true -> inv_delegate (prepare Delegate s) = true.
Proof.
  intros Ha Hn Hc. unfold nonneg in Hn. cbn [forallb] in Hn. bool_hyps.
  unfold inv_delegate, nonneg, share_cond, shares_ok, prepare in *. cbn [forallb]. fsimp.
  rewrite Hc. bool_goal; try lia.
  unfold calc_share. destruct ((fget "oa.ex" s =? 0) || (fget "oa.share" s =? 0)).
  - unfold P18. lia.
  - apply shares_from_nonneg; assumption.
Qed.

(* without the share invariant (pool emptied while shares remain) the decrement of the staker's withdrawable
   amount survives the failure of CalculateShare *)
Definition delegate_bad_state : facts :=
  [("gw", 1); ("chain", 1); ("alen", 1); ("slen", 1); ("opaddr", 1); ("amt", 5); ("op", 1); ("st.ex", 1);
   ("st.total", 10); ("st.wd", 10); ("oa.ex", 1); ("oa.share", 7); ("oa.amt", 0)]%string.
Lemma delegate_not_atomic_without_inv : ~ atomic_at via_precompile delegate delegate_bad_state.
Proof. intro A. specialize (A eq_refl). vm_compute in A. discriminate. Qed.

(* ------------------------------------------------------------------------------------------ *)
(* UndelegateFrom                                                                              *)
(* ------------------------------------------------------------------------------------------ *)
Definition inv_undelegate (s : facts) : bool :=
  nonneg ["st.total"; "st.wd"; "st.pend"; "dl.wait"]%string s
  && (fget "complete.ok" s =? 1) && (fget "hold.max" s =? 0).

Definition undelegate_pre : script facts :=
  dl_params ++
  [ is1 "txhash"; pos "amt"; is1 "op";
    pos "amt"; is1 "dl.ex"; is1 "oa.ex";
    Check shares_ok;
    Check und_within;
    Check (fun s => tshare s <=? fget "dl.share" s);
    Check (fun s => 0 <? tshare s);
    Check (fun s => tshare s <=? fget "oa.share" s);
    Check (fun s => 0 <=? ttoken s);
    Check (fun s => 0 <=? fget "oa.amt" s + nttoken s);
    Check (fun s => 0 <=? fget "oa.pend" s + ttoken s);
    Check (fun s => 0 <=? fget "oa.share" s + ntshare s);
    Check (fun s => 0 <=? fget "oa.opshare" s + (if fget "assoc.same" s =? 1 then ntshare s else 0)) ].
Definition undelegate_suf : script facts :=
  [ Write "assets/operator_asset" (chg4 "oa.ex" nttoken ttoken ntshare (fun s => if fget "assoc.same" s =? 1 then ntshare s else 0))
      (fun s => fset "oa.ex" 1 (fadd "oa.opshare" (if fget "assoc.same" s =? 1 then ntshare s else 0)
                (fadd "oa.share" (ntshare s) (fadd "oa.pend" (ttoken s) (fadd "oa.amt" (nttoken s) s))))) ]
  ++ upd_staker zero zero ttoken
  ++ upd_deleg ttoken ntshare
  ++ [ Write "delegation/stakers_by_operator" (fun s => fget "dl.share" s =? 0) (fun s => s);
       is1 "complete.ok";
       touch "delegation/undelegation";
       is0 "hold.max" ].
Lemma undelegate_split : undelegate = undelegate_pre ++ undelegate_suf.
Proof. reflexivity. Qed.

Definition J_undelegate2 (s : facts) : Prop :=
  fget "opaddr" s = 1 /\ 0 <= fget "tmp.token" s /\ 0 < fget "tmp.share" s /\ inv_undelegate s = true.
Definition J_undelegate1 (s : facts) : Prop :=
  J_undelegate2 s /\ fget "tmp.share" s <= fget "dl.share" s.

Definition undelegate_suf_a : script facts :=
  [ Write "assets/operator_asset" (chg4 "oa.ex" nttoken ttoken ntshare (fun s => if fget "assoc.same" s =? 1 then ntshare s else 0))
      (fun s => fset "oa.ex" 1 (fadd "oa.opshare" (if fget "assoc.same" s =? 1 then ntshare s else 0)
                (fadd "oa.share" (ntshare s) (fadd "oa.pend" (ttoken s) (fadd "oa.amt" (nttoken s) s))))) ]
  ++ upd_staker zero zero ttoken
  ++ [ is1 "opaddr";
       Check (fun s => 0 <=? fget "dl.wait" s + ttoken s);
       Check (fun s => 0 <=? fget "dl.share" s + ntshare s) ].
Definition undelegate_suf_b : script facts :=
  [ Write "delegation/state" (chg3 "dl.ex" ttoken ntshare zero)
      (fun s => fset "dl.ex" 1 (fadd "dl.share" (ntshare s) (fadd "dl.wait" (ttoken s) s)));
    Write "delegation/stakers_by_operator" (fun s => fget "dl.share" s =? 0) (fun s => s);
    is1 "complete.ok";
    touch "delegation/undelegation";
    is0 "hold.max" ].
Lemma undelegate_suf_split : undelegate_suf = undelegate_suf_a ++ undelegate_suf_b.
Proof. reflexivity. Qed.

Lemma undelegate_suf_a_ok : Forall (instr_ok J_undelegate1) undelegate_suf_a.
Proof.
  unfold undelegate_suf_a, upd_staker, is1. cbn [app].
  repeat first [apply Forall_nil | apply Forall_cons]; cbn [instr_ok]; intros s ((Ho & Ht & Hs & Hi) & Hd);
    unfold J_undelegate1, J_undelegate2, inv_undelegate, nonneg in *; cbn [forallb] in Hi; bool_hyps.
  all: try (fsimp; bool_goal; lia).
  all: fin.
Qed.

Lemma undelegate_suf_b_ok : Forall (instr_ok J_undelegate2) undelegate_suf_b.
Proof.
  unfold undelegate_suf_b, is1, is0, touch. cbn [app].
  repeat first [apply Forall_nil | apply Forall_cons]; cbn [instr_ok]; intros s (Ho & Ht & Hs & Hi);
    unfold J_undelegate2, inv_undelegate, nonneg in *; cbn [forallb] in Hi; bool_hyps.
  all: try (fsimp; bool_goal; lia).
  all: fin.
Qed.

Lemma undelegate_atomic s : inv_undelegate s = true -> atomic_at via_precompile undelegate s.
Proof.
  intro I. apply atomic_at_of_trace. rewrite undelegate_split.
  apply (prefix_then_safe' J_undelegate1).
  - unfold undelegate_pre, dl_params, is1, is0, pos. cbn [app]. all_kc.
  - unfold undelegate_pre, dl_params, is1, is0, pos. cbn [app passes]. intros H.
    repeat match goal with H : _ /\ _ |- _ => destruct H end. unfold tshare, ttoken in *. bool_hyps.
    unfold J_undelegate1, J_undelegate2. repeat split; assumption.
  - rewrite undelegate_suf_split. apply (safe_two J_undelegate1 J_undelegate2).
    + exact undelegate_suf_a_ok.
    + intros s0 [H _]. exact H.
    + exact undelegate_suf_b_ok.
Qed.

(* without "completion height not in the past": every asset/delegation write survives the failure *)
Definition undelegate_bad_state : facts :=
  [("gw", 1); ("chain", 1); ("alen", 1); ("slen", 1); ("opaddr", 1); ("amt", 5); ("txhash", 1); ("op", 1);
   ("dl.ex", 1); ("oa.ex", 1); ("oa.amt", 10); ("oa.share", 10 * P18); ("dl.share", 10 * P18);
   ("st.ex", 1); ("st.total", 10); ("complete.ok", 0)]%string.
Lemma undelegate_not_atomic_without_inv :
  ~ atomic_at via_precompile undelegate (prepare Undelegate undelegate_bad_state).
Proof. intro A. specialize (A eq_refl). vm_compute in A. discriminate. Qed.

(* ------------------------------------------------------------------------------------------ *)
(* the other precompile methods                                                                *)
(* ------------------------------------------------------------------------------------------ *)
Lemma associate_atomic : atomic via_precompile associate.
Proof. apply precompile_atomic_checks_first. reflexivity. Qed.
Lemma dissociate_atomic : atomic via_precompile dissociate.
Proof. apply precompile_atomic_checks_first. reflexivity. Qed.
Lemma update_token_atomic : atomic via_precompile update_token.
Proof. apply precompile_atomic_checks_first. reflexivity. Qed.
Lemma register_client_chain_atomic : atomic via_precompile register_client_chain.
Proof. apply precompile_atomic_checks_first. reflexivity. Qed.

(* RegisterToken, repaired order: the two checks that follow the oracle write repeat checks made before it *)
Lemma register_token_shape : checks_first (kinds register_token) = false.
Proof. reflexivity. Qed.

Ltac brk :=
  match goal with
  | |- context [if ?c then _ else _] =>
      lazymatch c with
      | context [if _ then _ else _] => fail
      | _ => let E := fresh "E" in destruct c eqn:E
      end
  end.

Lemma register_token_atomic : atomic via_precompile register_token.
Proof.
  intros s. apply atomic_at_of_trace.
  cbv [register_token register_token_params app is1 is0 touch run always].
  repeat (cbn [run_from res_of tr_of failed fst snd app]; try brk; try reflexivity; try discriminate).
Qed.

Lemma avs_register_atomic : atomic via_precompile avs_register.
Proof. apply precompile_atomic_checks_first. reflexivity. Qed.
Lemma avs_deregister_atomic : atomic via_precompile avs_deregister.
Proof. apply precompile_atomic_checks_first. reflexivity. Qed.
Lemma avs_opt_out_atomic : atomic via_precompile avs_opt_out.
Proof. apply precompile_atomic_checks_first. reflexivity. Qed.
(* opt-in and task creation repeat an earlier check after their first write *)
Lemma avs_opt_in_atomic : atomic via_precompile avs_opt_in.
Proof.
  intros s. apply atomic_at_of_trace.
  cbv [avs_opt_in app is1 is0 touch run always].
  repeat (cbn [run_from res_of tr_of failed fst snd app]; try brk; try reflexivity; try discriminate).
Qed.
Lemma avs_create_task_atomic : atomic via_precompile avs_create_task.
Proof.
  intros s. apply atomic_at_of_trace.
  cbv [avs_create_task app is1 is0 touch run always].
  repeat (cbn [run_from res_of tr_of failed fst snd app]; try brk; try reflexivity; try discriminate).
Qed.

(* original order: decimals 19..255 pass the oracle registration and fail in SetStakingAssetInfo *)
Definition register_token_bad_state : facts :=
  [("gw", 1); ("chain", 1); ("alen", 1); ("namelen.ok", 1); ("meta.ok", 1); ("info.ok", 1);
   ("tok.decok", 1); ("tok.intok", 1); ("dec.ok", 0)]%string.
Lemma register_token_original_not_atomic :
  failed (res_of (via_precompile register_token_original register_token_bad_state)) = true /\
  tr_of (via_precompile register_token_original register_token_bad_state) = ["oracle/params"%string].
Proof. split; reflexivity. Qed.

(* NST withdrawal without the cache context: the asset bookkeeping survives "remove unexist validator" *)
Definition withdraw_nst_bad_state : facts :=
  [("gw", 1); ("chain", 1); ("alen", 1); ("slen", 1); ("amt", 1000000000000000000); ("asset", 1); ("dec", 18);
   ("st.ex", 1); ("st.total", 1000000000000000000); ("st.wd", 1000000000000000000);
   ("as.total", 1000000000000000000); ("nst.inlist", 0)]%string.
Lemma withdraw_nst_nocache_not_atomic :
  failed (res_of (via_precompile withdraw_nst withdraw_nst_bad_state)) = true /\
  tr_of (via_precompile withdraw_nst withdraw_nst_bad_state) = ["assets/staker_asset"; "assets/asset_total"]%string /\
  st_of (via_precompile withdraw_nst withdraw_nst_bad_state) <> withdraw_nst_bad_state.
Proof. split; [reflexivity|]. split; [reflexivity|]. vm_compute. discriminate. Qed.

(* Keeper.Slash before F2 = the same script with the cache committed before the duplicate-ID check, i.e. raw *)
Definition slash_dup_state : facts :=
  [("prop.ok", 1); ("height.ok", 1); ("power.ok", 1); ("value.ok", 1); ("slash.moves", 1); ("slash.dup", 1)]%string.
Lemma slash_uncached_not_atomic :
  failed (res_of (run slash slash_dup_state)) = true /\
  tr_of (run slash slash_dup_state) = ["assets/operator_asset"; "delegation/undelegation"]%string.
Proof. split; reflexivity. Qed.

(* UpdateNSTByBalanceChange without the cache: the stakers before the failing one stay updated *)
Definition nst_change_bad_state : facts :=
  [("len.ok", 1); ("list.ok", 1); ("parse.ok", 1); ("fail.any", 1); ("fail.idx", 1); ("fail.moved", 1)]%string.
Lemma nst_balance_change_uncached_not_atomic :
  failed (res_of (run nst_balance_change nst_change_bad_state)) = true /\
  tr_of (run nst_balance_change nst_change_bad_state) = ["oracle/nst_staker"; "assets/staker_asset"]%string.
Proof. split; reflexivity. Qed.

(* ---- transactions that also write process memory ---- *)
Lemma via_tx_mem_only_memory {S} (mem : string -> bool) (p : script S) s :
  failed (res_of (via_tx_mem mem p s)) = true -> forallb mem (tr_of (via_tx_mem mem p s)) = true.
Proof.
  unfold via_tx_mem. destruct (failed (res_of (run p s))) eqn:F; [|intro H; rewrite F in H; discriminate].
  intros _. cbn [tr_of snd]. induction (tr_of (run p s)) as [|c r IH]; simpl; [reflexivity|].
  destruct (mem c) eqn:E; simpl; [rewrite E; exact IH|exact IH].
Qed.

(* when every write of the script is a memory write the wrapper IS the precompile wrapper: the characterisation
   theorem applies to the memory component of a transaction *)
Lemma via_tx_mem_all_memory {S} (p : script S) s :
  via_tx_mem (fun _ => true) p s = via_precompile p s.
Proof.
  unfold via_tx_mem, via_precompile. destruct (failed (res_of (run p s))); [|reflexivity].
  destruct (run p s) as [[st r] tr]. cbn. f_equal. induction tr as [|c l IH]; simpl; [reflexivity|]. rewrite IH. reflexivity.
Qed.

(* [counted message, then a failing message]: the tx fails, the store cache is dropped, the aggregator memory keeps
   the first message's report *)
Definition oracle_tx_bad_state : facts := [("ante.ok", 1); ("n", 2); ("fail.idx", 1)]%string.
Lemma oracle_tx_memory_not_rolled_back :
  failed (res_of (exec MTxMem oracle_tx oracle_tx_bad_state)) = true /\
  tr_of (exec MTxMem oracle_tx oracle_tx_bad_state) = ["oracle-mem"%string].
Proof. split; reflexivity. Qed.

(* a single message that is "ignored" has itself written the memory before it failed *)
Definition oracle_tx_ignored_state : facts := [("ante.ok", 1); ("n", 1); ("fail.idx", 0); ("fail.ignored", 1)]%string.
Lemma oracle_tx_ignored_message_leaves_trace :
  failed (res_of (exec MTxMem oracle_tx oracle_tx_ignored_state)) = true /\
  tr_of (exec MTxMem oracle_tx oracle_tx_ignored_state) = ["oracle-mem"%string].
Proof. split; reflexivity. Qed.

(* a tx rejected by the ante handler or failing at its FIRST message (not of the "ignored" kind) leaves the memory alone *)
Lemma oracle_tx_first_message s : fget "fail.idx" s <= 0 -> fget "fail.ignored" s = 0 ->
  failed (res_of (exec MTxMem oracle_tx s)) = true -> tr_of (exec MTxMem oracle_tx s) = [].
Proof.
  intros H Hi. cbv [exec via_tx_mem oracle_tx oracle_msg app is1 run].
  repeat (cbn [run_from res_of tr_of failed fst snd app filter]; try brk; try reflexivity; try discriminate).
  all: repeat match goal with
       | H : negb _ = true |- _ => apply negb_true_iff in H
       | H : negb _ = false |- _ => apply negb_false_iff in H
       | H : _ && _ = true |- _ => apply andb_prop in H; destruct H
       | H : _ && _ = false |- _ => apply andb_false_iff in H; destruct H
       | H : (_ =? _) = true |- _ => apply Z.eqb_eq in H
       | H : (_ =? _) = false |- _ => apply Z.eqb_neq in H
       | H : (_ <? _) = true |- _ => apply Z.ltb_lt in H
       | H : (_ <? _) = false |- _ => apply Z.ltb_ge in H
       end; try lia.
Qed.

(* [accepted MsgUpdateParams, rejected MsgUpdateParams]: the params pushed into the in-memory cache by the first message
   survive the failed tx; a tx failing at its first message leaves nothing - in particular the aggregator's own params
   (class oracle-mem/agc-params) are never written by this entry point *)
Definition oracle_params_bad_state : facts := [("ante.ok", 1); ("n", 2); ("fail.idx", 1)]%string.
Lemma oracle_params_cache_not_rolled_back :
  failed (res_of (exec MTxMem oracle_params_tx oracle_params_bad_state)) = true /\
  tr_of (exec MTxMem oracle_params_tx oracle_params_bad_state) = ["oracle-mem/cache"%string].
Proof. split; reflexivity. Qed.

Lemma oracle_params_first_message s : fget "fail.idx" s <= 0 ->
  failed (res_of (exec MTxMem oracle_params_tx s)) = true -> tr_of (exec MTxMem oracle_params_tx s) = [].
Proof.
  intros H. cbv [exec via_tx_mem oracle_params_tx oracle_params_msg app is1 run].
  repeat (cbn [run_from res_of tr_of failed fst snd app filter]; try brk; try reflexivity; try discriminate).
  all: repeat match goal with
       | H : negb _ = true |- _ => apply negb_true_iff in H
       | H : negb _ = false |- _ => apply negb_false_iff in H
       | H : (_ =? _) = true |- _ => apply Z.eqb_eq in H
       | H : (_ =? _) = false |- _ => apply Z.eqb_neq in H
       | H : (_ <? _) = true |- _ => apply Z.ltb_lt in H
       | H : (_ <? _) = false |- _ => apply Z.ltb_ge in H
       end; try lia.
Qed.

Lemma oracle_params_never_touches_agc_params s :
  ~ In "oracle-mem/agc-params"%string (tr_of (run oracle_params_tx s)).
Proof.
  cbv [oracle_params_tx oracle_params_msg app is1 run].
  repeat (cbn [run_from res_of tr_of failed fst snd app]; try brk); cbn; intuition discriminate.
Qed.

(* ------------------------------------------------------------------------------------------ *)
(* all entry points                                                                            *)
(* ------------------------------------------------------------------------------------------ *)
Definition inv_of (k : op_kind) : facts -> bool :=
  match k with
  | Delegate => inv_delegate
  | Undelegate => inv_undelegate
  | OracleTx => fun s => (fget "fail.idx" s <=? 0) && (fget "fail.ignored" s =? 0)
  | OracleParamsTx => fun s => fget "fail.idx" s <=? 0
  | _ => fun _ => true
  end.

Lemma entry_points_atomic k s : inv_of k s = true -> atomic_at (exec (mode_of k)) (script_of k) s.
Proof.
  intro I. destruct k; cbn [mode_of script_of exec inv_of] in *;
    try (intro F; apply (via_msg_atomic _ s F); fail).
  - apply delegate_atomic. exact I.
  - apply undelegate_atomic. exact I.
  - exact (associate_atomic s).
  - exact (dissociate_atomic s).
  - exact (register_token_atomic s).
  - exact (update_token_atomic s).
  - exact (register_client_chain_atomic s).
  - exact (avs_register_atomic s).
  - exact (avs_deregister_atomic s).
  - exact (avs_opt_in_atomic s).
  - exact (avs_opt_out_atomic s).
  - exact (avs_create_task_atomic s).
  - (* every write of oracle_tx is the identity on the facts: the facts never change; what matters is the trace *)
    unfold atomic_at. intros _. cbv [exec via_tx_mem oracle_tx oracle_msg app is1 run].
    repeat (cbn [run_from res_of tr_of st_of failed fst snd app filter]; try brk; try reflexivity).
  - unfold atomic_at. intros _. cbv [exec via_tx_mem oracle_params_tx oracle_params_msg app is1 run].
    repeat (cbn [run_from res_of tr_of st_of failed fst snd app filter]; try brk; try reflexivity).
Qed.

(* what check_case / monitor_case compare, proved of the model: a failing call leaves an empty write trace *)
Lemma entry_points_trace k s : inv_of k s = true ->
  failed (res_of (exec (mode_of k) (script_of k) s)) = true -> st_of (exec (mode_of k) (script_of k) s) = s.
Proof. intros I F. apply (entry_points_atomic k s I F). Qed.
