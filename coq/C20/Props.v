(* C20/Props.v — property theorems only (statements in full; proofs are one-liners to C20/Proofs.v). *)
From Coq Require Import List String Bool ZArith.
From Exo Require Import Base.Store Base.IntDec C20.Model C20.Keys C20.Proofs C20.ProofsStats.
Import ListNotations.
Local Open Scope Z_scope.

(* Histories: [ops : list op] folded with [step] from any start state satisfying the invariant (the empty state
   does: [reg_inv_empty], [empty_sorted]).  [op_wf] only asks that the AVS address string of a register / update
   is non-empty (the precompile passes contract.CallerAddress.String()). *)

(* An AVS address is registered to at most one AVS, after any history. *)
Theorem C20_unique_avs : forall e ops st, reg_inv (s_avs st) -> forallb op_wf ops = true ->
  forall k1 a1 k2 a2, In (k1, a1) (s_avs (run e st ops)) -> In (k2, a2) (s_avs (run e st ops)) ->
    a_addr a1 = a_addr a2 -> k1 = k2 /\ a1 = a2.
Proof. exact unique_avs. Qed.
Print Assumptions C20_unique_avs.

(* A (non-empty) task-contract address belongs to at most one AVS, over register AND update AND deregister. *)
Theorem C20_unique_task_addr : forall e ops st, reg_inv (s_avs st) -> forallb op_wf ops = true ->
  forall k1 a1 k2 a2, In (k1, a1) (s_avs (run e st ops)) -> In (k2, a2) (s_avs (run e st ops)) ->
    a_task a1 = a_task a2 -> a_task a1 <> ""%string -> k1 = k2 /\ a1 = a2.
Proof. exact unique_task_addr. Qed.
Print Assumptions C20_unique_task_addr.

(* An AVS registration is accepted only for an address that is not registered, with a task address no AVS uses, by a
   caller in the new owner list, with registered staking assets and an existing epoch identifier; it stores exactly
   the given parameters with StartingEpoch = current epoch + 1. *)
Theorem C20_register_requires : forall e st key addr caller cb p st',
  step e st (ORegister key addr caller cb p) = (st', ROk) ->
  sget (s_avs st) (addr_key addr) = None /\ by_task_addr (s_avs st) (p_task p) = ""%string /\
  mem cb (p_owners p) = true /\ assets_ok e (p_assets p) = true /\
  (exists cur, epoch_cur st (p_epoch p) = Some cur /\
     sget (s_avs st') (addr_key addr) =
       Some (mkAvs (p_name p) addr (p_min_stake p) (p_task p) (p_slash p) (p_reward p) (p_owners p) (p_assets p)
                   (p_unbond p) (p_min_self p) (p_epoch p) (nth_par (p_taskpar p) 0) (nth_par (p_taskpar p) 1) (cur + 1)
                   (dec_with_prec (nth_par (p_taskpar p) 2) 2) (dec_with_prec (nth_par (p_taskpar p) 3) 2))).
Proof. exact register_ok_requires. Qed.
Print Assumptions C20_register_requires.

(* Deregistration is accepted only from an owner, with the stored name, and while current epoch - starting epoch <=
   unbonding period; it removes exactly that AVS. *)
Theorem C20_deregister_requires : forall e st key addr caller cb name st',
  step e st (ODeregister key addr caller cb name) = (st', ROk) ->
  exists a cur, sget (s_avs st) (addr_key addr) = Some a /\ epoch_cur st (a_epoch a) = Some cur /\
    mem cb (a_owners a) = true /\ cur - a_start a <= a_unbond a /\ a_name a = name /\
    s_avs st' = sdel (s_avs st) (addr_key addr).
Proof. exact deregister_ok_requires. Qed.
Print Assumptions C20_deregister_requires.

(* Opt-in is accepted only by a registered AVS, for a registered operator whose self USD value meets the AVS's
   minimum self delegation (in every state, hence in every reachable one). *)
Theorem C20_optin_requires : forall e st key addr caller operator self frozen st',
  step e st (OOptIn key addr caller operator self frozen) = (st', ROk) ->
  exists a v, sget (s_avs st) (addr_key addr) = Some a /\ a_addr a = addr /\ is_operator e operator = true /\
              self = Some v /\ dec_of_int (a_min_self a) <= v /\ opted_active st operator addr = false.
Proof. exact optin_requires. Qed.
Print Assumptions C20_optin_requires.

(* The self USD value the opt-in compares with the minimum is the truncating closed form
   floor(amount * price * 10^18 / 10^(asset decimals + price decimals))   (CalculateUSDValue: QuoInt), which never
   over-states the exact value: if it reaches min (in 10^-18 USD) then amount * price / 10^d >= min exactly.  The monitor
   mon_optin evaluates the exact rational inequality on the observed pools / shares / prices / decimals, and check_case
   ties the value the code reports to [self_formula]. *)
Theorem C20_self_value_never_overstated : forall amount price d m, 0 <= amount -> 0 <= price -> 0 <= d ->
  m * P <= usd_trunc amount price d -> m * 10 ^ d <= amount * price.
Proof. exact usd_trunc_sound. Qed.
Print Assumptions C20_self_value_never_overstated.

Theorem C20_self_value_is_floor : forall amount price d, 0 <= amount -> 0 <= price -> 0 <= d ->
  usd_trunc amount price d * 10 ^ d <= amount * price * P < (usd_trunc amount price d + 1) * 10 ^ d.
Proof. exact usd_trunc_floor. Qed.
Print Assumptions C20_self_value_is_floor.

(* the seeded boundary: 100000000001 base units at price 99999999999e-13 is 999.9999999999999999999 USD: the closed
   form gives 999.999999999999999999, below a minimum of 1000, and the exact test agrees *)
Example C20_self_value_boundary :
  usd_trunc 100000000001 99999999999 19 = 999999999999999999999 /\
  exact_self_ge [mkPool 100000000001 (100000000001 * P) (100000000001 * P) 99999999999 6 13] 1000 = false /\
  exact_self_ge [mkPool 100000000001 (100000000001 * P) (100000000001 * P) 100000000000 6 13] 1000 = true.
Proof. vm_compute. repeat split; reflexivity. Qed.

(* The identifiers handed out to one task contract along any history are consecutive: n+1, n+2, ... where n is the
   contract's counter at the start (0 for a contract without tasks, so 1, 2, 3, ...); hence unique and strictly
   increasing; the counter ends at the last identifier. *)
Theorem C20_task_ids : forall e ops st k, st_sorted st ->
  let ids := map snd (filter (fun x => String.eqb (fst x) k) (id_trace e st ops)) in
  ids = zseq (num_at st k + 1) (List.length ids) /\
  num_at (run e st ops) k = num_at st k + Z.of_nat (List.length ids).
Proof. exact task_ids_consecutive. Qed.
Print Assumptions C20_task_ids.

(* ... and the task stored by an accepted createTask carries exactly that identifier and its contract address. *)
Theorem C20_task_id_stored : forall st task caller cb name hash resp chal thr stat au,
  match snd (create_task st task caller cb name hash resp chal thr stat au) with
  | ROk => s_nums (fst (create_task st task caller cb name hash resp chal thr stat au))
             = sset (s_nums st) (addr_key task) (next_task_id st task) /\
           exists t, sget (s_tasks (fst (create_task st task caller cb name hash resp chal thr stat au)))
                          (join2 task (dec_str (next_task_id st task))) = Some t /\
                     t_id t = next_task_id st task /\ t_addr t = task
  | _ => fst (create_task st task caller cb name hash resp chal thr stat au) = st
  end.
Proof. exact create_task_spec. Qed.
Print Assumptions C20_task_id_stored.

(* Phase one is accepted  <->  registered operator, registered (parsable) BLS key, task exists, first submission,
   signature present, no response/hash, current epoch <= start + response period  — [phase1_cond], the very
   boolean the monitor evaluates on the implementation; in every state reachable from a sorted one. *)
Theorem C20_phase1 : forall e st0 ops, st_sorted st0 ->
  forall from fv i pk bls, i_stage i = "1"%string ->
  (snd (step e (run e st0 ops) (OSubmit from fv (Some i) pk bls)) = ROk <->
   phase1_cond e (run e st0 ops) from fv i pk = true).
Proof. exact phase1_reachable. Qed.
Print Assumptions C20_phase1.

(* Phase two is accepted  <->  registered operator and key, stored phase-one result with the same signature,
   start + response < current epoch <= start + response + statistical, response parses and carries the same task
   id, BLS signature verifies  — [phase2_cond]. *)
Theorem C20_phase2 : forall e st0 ops, st_sorted st0 ->
  forall from fv i pk bls, i_stage i = "2"%string ->
  (snd (step e (run e st0 ops) (OSubmit from fv (Some i) pk bls)) = ROk <->
   phase2_cond e (run e st0 ops) from fv i pk bls = true).
Proof. exact phase2_reachable. Qed.
Print Assumptions C20_phase2.

Theorem C20_no_other_stage : forall e st from fv i pk bls, i_stage i <> "1"%string -> i_stage i <> "2"%string ->
  snd (step e st (OSubmit from fv (Some i) pk bls)) <> ROk.
Proof. exact no_other_stage. Qed.
Print Assumptions C20_no_other_stage.

(* A challenge is accepted  <->  task exists with that hash, stored result whose response hashes to the given hash,
   no earlier challenge for (operator, task), start+response+statistical < current epoch <= ... + challenge period
   (current epoch of the AVS owning the stored task's contract address) — [challenge_cond]. *)
Theorem C20_challenge : forall e st0 ops, st_sorted st0 ->
  forall task caller cb th id rh operator ov,
  (snd (step e (run e st0 ops) (OChallenge task caller cb th id rh operator ov)) = ROk <->
   challenge_cond (run e st0 ops) task caller th id rh operator ov = true).
Proof. exact challenge_reachable. Qed.
Print Assumptions C20_challenge.

(* "Accepted only ...": an operation that is not accepted (error, `false`, no output, panic) changes NOTHING —
   no AVS, task, counter, key, result, challenge or opted-in record, in every state. *)
Theorem C20_rejected_changes_nothing : forall e st o, snd (step e st o) <> ROk -> fst (step e st o) = st.
Proof. exact step_rejected_frame. Qed.
Print Assumptions C20_rejected_changes_nothing.

(* Phase one never accepts an absent or zero-length signature (repaired behaviour; the former refutation
   C20_statistics_empty_signature_refuted is now the regression Example below), and rejecting it changes nothing. *)
Theorem C20_empty_signature_rejected : forall e st from fv i pk bls,
  i_stage i = "1"%string -> sig_bytes (i_sig i) = ""%string ->
  snd (step e st (OSubmit from fv (Some i) pk bls)) <> ROk /\ fst (step e st (OSubmit from fv (Some i) pk bls)) = st.
Proof. exact empty_signature_rejected. Qed.
Print Assumptions C20_empty_signature_rejected.

(* Hence every stored task result carries a non-empty signature, in every state reachable from one where that holds. *)
Theorem C20_results_always_signed : forall e ops st, st_sorted st -> sigs_ok st -> sigs_ok (run e st ops).
Proof. exact run_sigs_ok. Qed.
Print Assumptions C20_results_always_signed.

(* The epoch hook has no panic path left: an epoch end is processed in every state. *)
Theorem C20_epoch_end_never_panics : forall e st ended au ou, snd (step e st (OEpochEnd ended au ou)) = ROk.
Proof. exact epoch_end_never_panics. Qed.
Print Assumptions C20_epoch_end_never_panics.

Example C20_empty_signature_regression :
  run_results w_env w_st0 w_ops_a = [ROk; ROk; ROk; ROk; ROk; ROk; RErr; ROk; ROk] /\
  s_res (run w_env w_st0 w_ops_a) = [].
Proof. exact regression_empty_signature. Qed.

(* The key encodings are injective: strconv.FormatUint (dec_str) on non-negative numbers, and
   GetJoinedStoreKey(address, decimal id) as soon as one of the two addresses has no '/'. *)
Theorem C20_key_encoding_injective : forall a b x y, no_slash b = true -> 0 <= x -> 0 <= y ->
  join2 a (dec_str x) = join2 b (dec_str y) -> a = b /\ x = y.
Proof. exact join2_dec_inj. Qed.
Print Assumptions C20_key_encoding_injective.

(* Over all histories (task-contract addresses of createTask without '/'): a task is stored under its own key, its id
   lies in 1..counter of its contract (so createTask never overwrites a task), *)
Theorem C20_tasks_keyed : forall e st0 ops, forallb op_wf2 ops = true -> big_inv st0 ->
  forall k t, In (k, t) (s_tasks (run e st0 ops)) ->
  k = join2 (t_addr t) (dec_str (t_id t)) /\ 1 <= t_id t <= num_at (run e st0 ops) (addr_key (t_addr t)).
Proof. exact tasks_keyed. Qed.
Print Assumptions C20_tasks_keyed.

(* ... and every stored (= accepted) result belongs to an existing task and to an operator of that task's opt-in
   snapshot (repaired behaviour: SetTaskResultInfo rejects operators outside TaskInfo.OptInOperators). *)
Theorem C20_results_in_snapshot : forall e st0 ops, forallb op_wf2 ops = true -> big_inv st0 ->
  forall k r, In (k, r) (s_res (run e st0 ops)) ->
  exists t, sget (s_tasks (run e st0 ops)) (join2 (r_task r) (dec_str (r_id r))) = Some t /\
            r_task r = t_addr t /\ r_id r = t_id t /\ In (r_op r) (t_optin t).
Proof. exact results_in_snapshot. Qed.
Print Assumptions C20_results_in_snapshot.

(* STATISTICS, FULL, for the whole epoch-end step (one ended epoch) in every reachable state: the step never panics, and
   for EVERY task of the store, afterwards the task
   - is untouched, and then either no stored result of this task has its statistical period ending now, or the AVS
     owning the task address has no USD value (the hook skips the group), or
   - keeps its address / id / opt-in snapshot and
       signers      = exactly the operators with a stored (accepted) result for this task whose period ends now,
       non-signers  = exactly the opt-in snapshot minus the signers. *)
Theorem C20_statistics : forall e st0 ops, forallb op_wf2 ops = true -> big_inv st0 -> sigs_ok st0 ->
  forall id num au ou K t, sget (s_tasks (run e st0 ops)) K = Some t ->
  snd (step e (run e st0 ops) (OEpochEnd [(id, num)] au ou)) = ROk /\
  exists t', sget (s_tasks (fst (step e (run e st0 ops) (OEpochEnd [(id, num)] au ou)))) K = Some t' /\
    ((t' = t /\
      ((forall k r, In (k, r) (s_res (run e st0 ops)) -> due (run e st0 ops) id num r = true ->
                    r_task r = t_addr t -> r_id r = t_id t -> False) \/
       assoc au (by_task_addr (s_avs (run e st0 ops)) (t_addr t)) = None)) \/
     (t_addr t' = t_addr t /\ t_id t' = t_id t /\ t_optin t' = t_optin t /\
      (forall o, In o (t_signed t') <->
         exists k r, In (k, r) (s_res (run e st0 ops)) /\ due (run e st0 ops) id num r = true /\
                     r_task r = t_addr t /\ r_id r = t_id t /\ r_op r = o) /\
      (forall o, In o (t_nosigned t') <-> In o (t_optin t) /\ ~ In o (t_signed t')))).
Proof. exact epoch_end_stats2. Qed.
Print Assumptions C20_statistics.

(* The same for one group as the hook forms it (this is the former Definition C20_statistics_full, now a theorem). *)
Theorem C20_statistics_full : forall st au ou h duel, big_inv st -> sigs_ok st ->
  (forall r, In r duel -> exists k, In (k, r) (s_res st)) ->
  stat_group st au ou (filter (same_group h) duel) = st \/
  exists t t', sget (s_tasks st) (join2 (r_task h) (dec_str (r_id h))) = Some t /\
    stat_group st au ou (filter (same_group h) duel)
      = with_tasks st (sset (s_tasks st) (join2 (r_task h) (dec_str (r_id h))) t') /\
    t_addr t' = t_addr t /\ t_id t' = t_id t /\ t_optin t' = t_optin t /\
    (forall o, In o (t_signed t') <-> In o (map r_op (filter (same_group h) duel))) /\
    (forall o, In o (t_nosigned t') <-> In o (t_optin t) /\ ~ In o (t_signed t')).
Proof. exact group_stats. Qed.
Print Assumptions C20_statistics_full.

(* What IS proved, for every group the hook processes: it is either skipped (state unchanged: no signed result, task
   info or AVS USD value unreadable) or signers = the group's results that carry a signature, in operator order;
   non-signers = SYMMETRIC difference of snapshot and signers; every power entry belongs to a signer and is >= 0;
   total power = the AVS's USD value; the snapshot itself is untouched. *)
Theorem C20_statistics_partial : forall st au ou ms,
  stat_group st au ou ms = st \/
  exists r0 t t', In r0 ms /\ has_sig r0 = true /\
    sget (s_tasks st) (join2 (r_task r0) (dec_str (r_id r0))) = Some t /\
    sget (s_tasks (stat_group st au ou ms)) (join2 (t_addr t) (dec_str (t_id t))) = Some t' /\
    t_signed t' = map r_op (filter has_sig (sort_by r_op ms)) /\
    t_nosigned t' = difference (t_optin t) (t_signed t') /\
    t_optin t' = t_optin t /\
    (exists pows, t_powers t' = Some pows /\ forall o p, In (o, p) pows -> In o (t_signed t') /\ 0 <= p) /\
    assoc au (by_task_addr (s_avs st) (r_task r0)) = Some (t_total t').
Proof. exact stat_group_spec. Qed.
Print Assumptions C20_statistics_partial.

(* When all results of the group carry a signature (every reachable state, C20_results_always_signed), the signer
   list above is exactly the operators with a stored, i.e. accepted, result in the group. *)
Theorem C20_statistics_signers : forall ms : list res_info, (forall r, In r ms -> sig_ok r = true) ->
  filter has_sig (sort_by r_op ms) = sort_by r_op ms /\
  forall o, In o (map r_op (filter has_sig (sort_by r_op ms))) <-> In o (map r_op ms).
Proof. exact signers_all. Qed.
Print Assumptions C20_statistics_signers.

Theorem C20_nonsigners_partial : forall optin signed x,
  (In x (difference optin signed) <-> (In x signed /\ ~ In x optin) \/ (In x optin /\ ~ In x signed)) /\
  ((forall s, In s signed -> In s optin) -> (In x (difference optin signed) <-> In x optin /\ ~ In x signed)).
Proof. exact nonsigners_spec. Qed.
Print Assumptions C20_nonsigners_partial.

(* Regression (former refutation C20_statistics_signer_not_opted_in_refuted): an operator outside the opt-in snapshot is
   rejected in phase one; after the statistics only the snapshot operator is a signer and nobody a non-signer. *)
Example C20_signer_not_opted_in_regression :
  run_results w_env w_st0 w_ops_b = [ROk; ROk; ROk; ROk; ROk; ROk; ROk; RErr; ROk; ROk] /\
  match sget (s_tasks (run w_env w_st0 w_ops_b)) "0xT/1" with
  | Some t => t_optin t = ["op1"%string] /\ t_signed t = ["op1"%string] /\ t_nosigned t = []
  | None => False
  end.
Proof. exact witness_b. Qed.

(* Non-vacuity: a history on which register, BLS registration, opt-in, two task creations (ids 1, 2), phase one,
   phase two and a challenge are all accepted, made of well-formed ops, from the empty state. *)
Example C20_nonvacuous :
  run_results w_env w_st0 w_ops_ok = [ROk; ROk; ROk; ROk; ROk; ROk; ROk; ROk; ROk; ROk; ROk; ROk; ROk] /\
  map snd (id_trace w_env w_st0 w_ops_ok) = [1; 2] /\ forallb op_wf w_ops_ok = true.
Proof. exact witness_ok. Qed.

Example C20_hyps_satisfiable : forall eps, st_sorted (empty_state eps) /\ reg_inv (s_avs (empty_state eps)).
Proof. exact hyps_satisfiable. Qed.

Example C20_big_inv_satisfiable : forall eps, big_inv (empty_state eps).
Proof. exact big_inv_empty. Qed.

Example C20_sigs_ok_satisfiable : forall eps, sigs_ok (empty_state eps).
Proof. exact sigs_ok_empty. Qed.

Example C20_statistics_nonvacuous :
  forallb op_wf2 w_ops_b = true /\ forallb op_wf w_ops_b = true /\
  match sget (s_tasks (run w_env w_st0 w_ops_b)) "0xT/1" with
  | Some t => t_signed t = ["op1"%string] /\ t_nosigned t = [] /\ t_optin t = ["op1"%string]
  | None => False
  end.
Proof. exact stats_nonvacuous. Qed.
