(* C20/Model.v — executable model of the AVS registry and task windows.
   Transcribed from x/avs/keeper/{keeper,avs,task,impl_epoch_hook,msg_server}.go, x/avs/types/types.go
   (Difference), precompiles/avs/{tx,types}.go (argument checks, owner checks) and x/operator/keeper/opt.go
   (OptIn / OptOut requirements).  Epoch numbers, periods and USD values are Z (USD values are raw LegacyDec
   integers, i.e. scaled by 10^18).  Addresses are the strings the code compares; the 20-byte store key of an
   AVS / task contract is its lowercase hex (string order = byte order).  BLS verification, bech32 validity
   and the self USD value of an operator are inputs of the operation (observed from the real libraries /
   keepers by the harness).  No proofs here. *)
From Coq Require Import List String Ascii Bool ZArith Lia.
From Exo Require Import Base.Store Base.Util Base.IntDec.
Import ListNotations.
Local Open Scope Z_scope.
Local Open Scope list_scope.

(* ---------- strings ---------- *)

Definition lower_ascii (c : ascii) : ascii :=
  let n := nat_of_ascii c in
  if (Nat.leb 65 n && Nat.leb n 90)%bool then ascii_of_nat (n + 32) else c.

Fixpoint lower (s : string) : string :=
  match s with EmptyString => EmptyString | String c r => String (lower_ascii c) (lower r) end.

(* common.HexToAddress(s).Bytes() as lowercase hex, for the well-formed "0x" + 40 hex digit strings the
   precompile produces (contract.CallerAddress.String()) *)
Definition addr_key (s : string) : string :=
  match s with String _ (String _ r) => lower r | _ => lower s end.

Definition zero_addr : string := "0x0000000000000000000000000000000000000000".

Fixpoint dec_digits (fuel : nat) (n : N) (acc : string) : string :=
  match fuel with
  | O => acc
  | S f =>
      let acc' := String (ascii_of_N (48 + N.modulo n 10)) acc in
      if N.eqb (N.div n 10) 0 then acc' else dec_digits f (N.div n 10) acc'
  end.

(* strconv.FormatUint(id, 10) *)
(* fuel: a number has at most log2 n + 1 decimal digits, so the digits never run out of fuel *)
Definition dec_str (z : Z) : string := dec_digits (S (N.to_nat (N.log2 (Z.to_N z)))) (Z.to_N z) "".

Definition join2 (a b : string) : string := (a ++ "/" ++ b)%string.
Definition join3 (a b c : string) : string := (a ++ "/" ++ b ++ "/" ++ c)%string.

Definition mem (x : string) (l : list string) : bool := existsb (String.eqb x) l.

(* ---------- records ---------- *)

Inductive result := ROk | RErr | RPanic | RNoop | RWeird.

Definition result_eqb (a b : result) : bool :=
  match a, b with
  | ROk, ROk | RErr, RErr | RPanic, RPanic | RNoop, RNoop | RWeird, RWeird => true
  | _, _ => false
  end.

Record avs_info := mkAvs {
  a_name : string; a_addr : string; a_min_stake : Z; a_task : string; a_slash : string; a_reward : string;
  a_owners : list string; a_assets : list string; a_unbond : Z; a_min_self : Z; a_epoch : string;
  a_min_optin : Z; a_min_total : Z; a_start : Z; a_avs_reward : Z; a_avs_slash : Z }.

Record params := mkParams {
  p_name : string; p_min_stake : Z; p_task : string; p_slash : string; p_reward : string;
  p_owners : list string; p_assets : list string; p_unbond : Z; p_min_self : Z; p_epoch : string;
  p_taskpar : list Z }.

Inductive resp := RNil | RJson (id sum : Z) | RBad (hex : string).

Record task_info := mkTask {
  t_addr : string; t_name : string; t_hash : string; t_id : Z; t_resp : Z; t_stat : Z; t_chal : Z; t_thr : Z;
  t_start : Z; t_actual : Z; t_optin : list string; t_signed : list string; t_nosigned : list string;
  t_errsigned : list string; t_total : Z; t_powers : option (list (string * Z)) }.

(* r_hash: 0 = empty, 1 = keccak of the stored response, 2 = anything else *)
Record res_info := mkRes {
  r_op : string; r_hash : nat; r_resp : resp; r_sig : option string; r_task : string; r_id : Z; r_stage : string }.

Record sub_info := mkInfo {
  i_op : string; i_hash : string; i_resp : resp; i_sig : option string; i_task : string; i_id : Z; i_stage : string }.

Inductive vres := VOk | VBad | VPanic.
Inductive hdesc := HAbi (id sum : Z) | HOther (hex : string).

Inductive op :=
| ORegister (key addr caller caller_b : string) (p : params)
| OUpdate (key addr caller caller_b : string) (p : params)
| ODeregister (key addr caller caller_b name : string)
| OOptIn (key addr caller operator : string) (self : option Z) (frozen : bool)
| OOptOut (key addr caller operator : string) (self : option Z) (frozen : bool)
| OCreateTask (task caller caller_b name hash : string) (resp chal thr stat : Z) (avs_usd : list (string * Z))
| ORegBLS (caller operator name pub : string) (v : vres)
| OSubmit (from : string) (from_valid : bool) (info : option sub_info) (pk_ok bls_ok : bool)
| OChallenge (task caller caller_b task_hash : string) (id : Z) (rh : hdesc) (operator : string) (op_valid : bool)
| OEpochEnd (ended : list (string * Z)) (avs_usd : list (string * Z)) (op_usd : list (string * Z)).

Record state := mkSt {
  s_avs : store avs_info; s_tasks : store task_info; s_nums : store Z; s_pubs : store string;
  s_res : store res_info; s_chals : store string; s_opted : store bool; s_epochs : list (string * Z) }.

(* static facts of a case: registered operators (x/operator, unchanged by the ops driven here) and the
   registered staking assets *)
Record env := mkEnv { e_operators : list string; e_assets : list string }.

Definition empty_state (eps : list (string * Z)) : state := mkSt [] [] [] [] [] [] [] eps.

(* ---------- helpers ---------- *)

Fixpoint assoc {A} (l : list (string * A)) (k : string) : option A :=
  match l with
  | [] => None
  | (k', v) :: r => if String.eqb k k' then Some v else assoc r k
  end.

Fixpoint assoc_set {A} (l : list (string * A)) (k : string) (v : A) : list (string * A) :=
  match l with
  | [] => [(k, v)]
  | (k', v') :: r => if String.eqb k k' then (k, v) :: r else (k', v') :: assoc_set r k v
  end.

(* epochsKeeper.GetEpochInfo(id).CurrentEpoch *)
Definition epoch_cur (st : state) (id : string) : option Z := assoc (s_epochs st) id.

(* GetAVSInfoByTaskAddress: first AVS in key order whose TaskAddr equals the (non-empty) argument *)
Definition find_by_task (avs : store avs_info) (t : string) : option avs_info :=
  if String.eqb t "" then None
  else match find (fun kv => String.eqb t (a_task (snd kv))) avs with
       | Some kv => Some (snd kv)
       | None => None
       end.

Definition by_task_addr (avs : store avs_info) (t : string) : string :=
  match find_by_task avs t with Some a => a_addr a | None => "" end.

Definition by_task_epoch (avs : store avs_info) (t : string) : string :=
  match find_by_task avs t with Some a => a_epoch a | None => "" end.

(* ValidateAssetIDs *)
Definition assets_ok (e : env) (l : list string) : bool := forallb (fun a => mem a (e_assets e)) l.

Definition is_operator (e : env) (o : string) : bool := mem o (e_operators e).

Definition with_avs (st : state) (x : store avs_info) : state :=
  mkSt x (s_tasks st) (s_nums st) (s_pubs st) (s_res st) (s_chals st) (s_opted st) (s_epochs st).
Definition with_tasks (st : state) (x : store task_info) : state :=
  mkSt (s_avs st) x (s_nums st) (s_pubs st) (s_res st) (s_chals st) (s_opted st) (s_epochs st).
Definition with_nums (st : state) (x : store Z) : state :=
  mkSt (s_avs st) (s_tasks st) x (s_pubs st) (s_res st) (s_chals st) (s_opted st) (s_epochs st).
Definition with_pubs (st : state) (x : store string) : state :=
  mkSt (s_avs st) (s_tasks st) (s_nums st) x (s_res st) (s_chals st) (s_opted st) (s_epochs st).
Definition with_res (st : state) (x : store res_info) : state :=
  mkSt (s_avs st) (s_tasks st) (s_nums st) (s_pubs st) x (s_chals st) (s_opted st) (s_epochs st).
Definition with_chals (st : state) (x : store string) : state :=
  mkSt (s_avs st) (s_tasks st) (s_nums st) (s_pubs st) (s_res st) x (s_opted st) (s_epochs st).
Definition with_opted (st : state) (x : store bool) : state :=
  mkSt (s_avs st) (s_tasks st) (s_nums st) (s_pubs st) (s_res st) (s_chals st) x (s_epochs st).
Definition with_epochs (st : state) (x : list (string * Z)) : state :=
  mkSt (s_avs st) (s_tasks st) (s_nums st) (s_pubs st) (s_res st) (s_chals st) (s_opted st) x.

Definition nth_par (l : list Z) (i : nat) : Z := match nth_error l i with Some z => z | None => 0 end.

(* ---------- UpdateAVSInfo (keeper) ---------- *)

Definition RegisterAction := 1.

(* the identifier whose epoch number is read at the top of UpdateAVSInfo *)
Definition avs_epoch_id (old : option avs_info) (p : params) : string :=
  match old with
  | Some a => if String.eqb (a_epoch a) "" then p_epoch p else a_epoch a
  | None => p_epoch p
  end.

Definition keeper_register (e : env) (st : state) (addr : string) (p : params) : state * result :=
  let key := addr_key addr in
  let old := sget (s_avs st) key in
  match epoch_cur st (avs_epoch_id old p) with
  | None => (st, RErr)
  | Some cur =>
      match old with
      | Some _ => (st, RErr)
      | None =>
          if negb (String.eqb (by_task_addr (s_avs st) (p_task p)) "") then (st, RErr)
          else if negb (assets_ok e (p_assets p)) then (st, RErr)
          else
            let a := mkAvs (p_name p) addr (p_min_stake p) (p_task p) (p_slash p) (p_reward p) (p_owners p)
                       (p_assets p) (p_unbond p) (p_min_self p) (avs_epoch_id old p) (nth_par (p_taskpar p) 0)
                       (nth_par (p_taskpar p) 1) (cur + 1)
                       (dec_with_prec (nth_par (p_taskpar p) 2) 2) (dec_with_prec (nth_par (p_taskpar p) 3) 2) in
            (with_avs st (sset (s_avs st) key a), ROk)
      end
  end.

Definition keeper_deregister (st : state) (addr caller_b name : string) : state * result :=
  let key := addr_key addr in
  let old := sget (s_avs st) key in
  match old with
  | None =>
      (* the epoch lookup comes first in the code; both failures are errors *)
      (st, RErr)
  | Some a =>
      match epoch_cur st (avs_epoch_id old (mkParams "" 0 "" "" "" [] [] 0 0 "" [])) with
      | None => (st, RErr)
      | Some cur =>
          if negb (mem caller_b (a_owners a)) then (st, RErr)
          else if cur - a_start a >? a_unbond a then (st, RErr)
          else if negb (String.eqb (a_name a) name) then (st, RErr)
          else (with_avs st (sdel (s_avs st) key), ROk)
      end
  end.

Definition keeper_update (e : env) (st : state) (addr : string) (p : params) : state * result :=
  let key := addr_key addr in
  let old := sget (s_avs st) key in
  match epoch_cur st (avs_epoch_id old p) with
  | None => (st, RErr)
  | Some cur =>
      match old with
      | None => (st, RErr)
      | Some a =>
          let other := by_task_addr (s_avs st) (p_task p) in
          if negb (String.eqb other "") && negb (String.eqb other (a_addr a)) then (st, RErr)
          else if negb (assets_ok e (p_assets p)) then (st, RErr)
          else if negb (String.eqb (p_epoch p) "") &&
                  match epoch_cur st (p_epoch p) with Some _ => false | None => true end then (st, RErr)
          else
            let a' := mkAvs
              (if String.eqb (p_name p) "" then a_name a else p_name p)
              addr
              (if p_min_stake p >? 0 then p_min_stake p else a_min_stake a)
              (if String.eqb (p_task p) "" then a_task a else p_task p)
              (if String.eqb (p_slash p) "" then a_slash a else p_slash p)
              (if String.eqb (p_reward p) "" then a_reward a else p_reward p)
              (p_owners p)         (* the precompile always passes a non-nil list *)
              (p_assets p)         (* idem *)
              (if p_unbond p >? 0 then p_unbond p else a_unbond a)
              (p_min_self p)
              (if String.eqb (p_epoch p) "" then a_epoch a else p_epoch p)
              (if nth_par (p_taskpar p) 0 >? 0 then nth_par (p_taskpar p) 0 else a_min_optin a)
              (if nth_par (p_taskpar p) 1 >? 0 then nth_par (p_taskpar p) 1 else a_min_total a)
              (cur + 1)
              (if nth_par (p_taskpar p) 2 >? 0 then dec_with_prec (nth_par (p_taskpar p) 2) 2 else a_avs_reward a)
              (if nth_par (p_taskpar p) 3 >? 0 then dec_with_prec (nth_par (p_taskpar p) 3) 2 else a_avs_slash a) in
            (with_avs st (sset (s_avs st) key a'), ROk)
      end
  end.

(* ---------- precompile entry points ---------- *)

Definition is_zero (a : string) : bool := String.eqb a zero_addr.

Definition pre_register (e : env) (st : state) (addr caller caller_b : string) (p : params) : state * result :=
  if is_zero caller || String.eqb (p_name p) "" || (p_min_stake p =? 0) || is_zero (p_task p) || is_zero (p_slash p)
     || is_zero (p_reward p) || Nat.eqb (List.length (p_assets p)) 0 || (p_unbond p =? 0) || String.eqb (p_epoch p) ""
     || negb (Nat.eqb (List.length (p_taskpar p)) 4)
  then (st, RErr)
  else if negb (mem caller_b (p_owners p)) then (st, RNoop)   (* errorsmod.Wrap(nil, ..) = nil: no error, no output *)
  else keeper_register e st addr p.

Definition pre_update (e : env) (st : state) (addr caller caller_b : string) (p : params) : state * result :=
  if is_zero caller || is_zero (p_task p) || negb (Nat.eqb (List.length (p_taskpar p)) 4) then (st, RErr)
  else match sget (s_avs st) (addr_key addr) with
       | None => (st, RErr)
       | Some a => if negb (mem caller_b (a_owners a)) then (st, RErr) else keeper_update e st addr p
       end.

Definition pre_deregister (st : state) (addr caller caller_b name : string) : state * result :=
  if is_zero caller || String.eqb name "" then (st, RErr) else keeper_deregister st addr caller_b name.

(* OperatorOptAction + operator keeper OptIn *)
Definition opted_active (st : state) (operator addr : string) : bool :=
  match sget (s_opted st) (join2 operator addr) with Some true => true | _ => false end.

Definition opt_in (e : env) (st : state) (addr caller operator : string) (self : option Z) (frozen : bool) : state * result :=
  if is_zero caller then (st, RErr)
  else if negb (is_operator e operator) then (st, RErr)
  else match sget (s_avs st) (addr_key addr) with
       | None => (st, RErr)
       | Some a =>
           (* IsAVS: only the spelling the AVS was registered with *)
           if negb (String.eqb (a_addr a) addr) then (st, RErr)
           else if opted_active st operator addr then (st, RErr)
           else match self with
                | None => (st, RErr)
                | Some v =>
                    if v <? dec_of_int (a_min_self a) then (st, RErr)
                    else if frozen then (st, RErr)
                    else (with_opted st (sset (s_opted st) (join2 operator addr) true), ROk)
                end
       end.

Definition opt_out (e : env) (st : state) (addr caller operator : string) (frozen : bool) : state * result :=
  if is_zero caller then (st, RErr)
  else if negb (is_operator e operator) then (st, RErr)
  else match sget (s_avs st) (addr_key addr) with
       | None => (st, RErr)
       | Some a =>
           if negb (String.eqb (a_addr a) addr) then (st, RErr)
           else if negb (opted_active st operator addr) then (st, RErr)
           else if frozen then (st, RErr)
           else (with_opted st (sset (s_opted st) (join2 operator addr) false), ROk)
       end.

(* GetOptedInOperatorListByAVS: every operator that has an opted-info record for the AVS (the record is kept
   with an opted-out height after OptOut), in key order *)
Fixpoint split_at_slash (s : string) (acc : string) : string * string :=
  match s with
  | EmptyString => (acc, EmptyString)
  | String c r => if Ascii.eqb c "/"%char then (acc, r) else split_at_slash r (acc ++ String c EmptyString)%string
  end.

Definition opted_list (st : state) (addr : string) : list string :=
  map (fun kv => fst (split_at_slash (fst kv) ""))
      (filter (fun kv => String.eqb (snd (split_at_slash (fst kv) "")) addr) (s_opted st)).

(* GetTaskID *)
Definition next_task_id (st : state) (task : string) : Z :=
  match sget (s_nums st) (addr_key task) with Some n => n + 1 | None => 1 end.

Definition create_task (st : state) (task caller caller_b name hash : string) (resp chal thr stat : Z)
           (avs_usd : list (string * Z)) : state * result :=
  if is_zero caller || String.eqb name "" then (st, RErr)
  else match find_by_task (s_avs st) task with
       | None => (st, RErr)
       | Some a =>
           if negb (mem caller_b (a_owners a)) then (st, RErr)
           else match assoc avs_usd (a_addr a) with
                | None => (st, RErr)
                | Some v =>
                    if v <=? 0 then (st, RErr)
                    else match epoch_cur st (a_epoch a) with
                         | None => (st, RErr)
                         | Some cur =>
                             match sget (s_tasks st) (join2 task "0") with
                             | Some _ => (st, RErr)
                             | None =>
                                 let id := next_task_id st task in
                                 let t := mkTask task name hash id resp stat chal thr (cur + 1) 0
                                            (opted_list st (a_addr a)) [] [] [] 0 None in
                                 (with_tasks (with_nums st (sset (s_nums st) (addr_key task) id))
                                             (sset (s_tasks st) (join2 task (dec_str id)) t), ROk)
                             end
                         end
                end
       end.

Definition reg_bls (st : state) (caller operator name pub : string) (v : vres) : state * result :=
  if is_zero caller || String.eqb name "" then (st, RErr)
  else match v with
       | VPanic => (st, RPanic)
       | VBad => (st, RErr)
       | VOk =>
           match sget (s_pubs st) operator with
           | Some _ => (st, RErr)
           | None => (with_pubs st (sset (s_pubs st) operator (name ++ "|" ++ pub)%string), ROk)
           end
       end.

(* ---------- SetTaskResultInfo ---------- *)

Definition sig_bytes (s : option string) : string := match s with Some x => x | None => "" end.
(* what a bytes field looks like after the store round trip: empty = absent *)
Definition sig_stored (s : option string) : option string :=
  match s with Some x => if String.eqb x "" then None else Some x | None => None end.
Definition resp_stored (r : resp) : resp :=
  match r with RBad x => if String.eqb x "" then RNil else r | _ => r end.
Definition resp_is_nil (r : resp) : bool := match r with RNil => true | _ => false end.

Definition res_key (operator task : string) (id : Z) : string := join3 operator task (dec_str id).

Definition submit (e : env) (st : state) (from : string) (from_valid : bool) (info : option sub_info)
           (pk_ok bls_ok : bool) : state * result :=
  if negb from_valid then (st, RErr)
  else match info with
  | None => (st, RPanic)
  | Some i =>
    if negb (String.eqb from (i_op i)) then (st, RErr)
    else if negb (is_operator e (i_op i)) then (st, RErr)
    else match sget (s_pubs st) (i_op i) with
    | None => (st, RErr)
    | Some _ =>
      if negb pk_ok then (st, RErr)
      else match sget (s_tasks st) (join2 (i_task i) (dec_str (i_id i))) with
      | None => (st, RErr)
      | Some t =>
        (* only operators of the task's opt-in snapshot take part in the task *)
        if negb (mem (i_op i) (t_optin t)) then (st, RErr) else
        match epoch_cur st (by_task_epoch (s_avs st) (i_task i)) with
        | None => (st, RErr)
        | Some cur =>
          let k := res_key (i_op i) (i_task i) (i_id i) in
          if String.eqb (i_stage i) "1" then
            match sget (s_res st) k with
            | Some _ => (st, RErr)
            | None =>
              (* len(info.BlsSignature) == 0: a nil AND an explicitly encoded empty signature are rejected *)
              if String.eqb (sig_bytes (i_sig i)) "" then (st, RErr)
              else if negb (String.eqb (i_hash i) "") || negb (resp_is_nil (i_resp i)) then (st, RErr)
              else if cur >? t_start t + t_resp t then (st, RErr)
              else (with_res st (sset (s_res st) k
                      (mkRes (i_op i) 0 RNil (sig_stored (i_sig i)) (i_task i) (i_id i) (i_stage i))), ROk)
            end
          else if String.eqb (i_stage i) "2" then
            if resp_is_nil (i_resp i) then (st, RErr)
            else match sget (s_res st) k with
            | None => (st, RErr)
            | Some r =>
              if negb (String.eqb (sig_bytes (r_sig r)) (sig_bytes (i_sig i))) then (st, RErr)
              else if cur <=? t_start t + t_resp t then (st, RErr)
              else if cur >? t_start t + t_resp t + t_stat t then (st, RErr)
              else match i_resp i with
                   | RJson id _ =>
                       if negb (id =? i_id i) then (st, RErr)
                       else if negb bls_ok then (st, RErr)
                       else (with_res st (sset (s_res st) k
                               (mkRes (i_op i) 1 (i_resp i) (sig_stored (i_sig i)) (i_task i) (i_id i) (i_stage i))), ROk)
                   | _ => (st, RErr)
                   end
            end
          else (st, RErr)
        end
      end
    end
  end.

(* ---------- RaiseAndResolveChallenge ---------- *)

Definition hash_matches (r : resp) (h : hdesc) : bool :=
  match r, h with
  | RJson id sum, HAbi id' sum' => (id =? id') && (sum =? sum')
  | _, _ => false
  end.

Definition challenge (st : state) (task caller caller_b task_hash : string) (id : Z) (rh : hdesc)
           (operator : string) (op_valid : bool) : state * result :=
  if is_zero caller || negb op_valid then (st, RErr)
  else match sget (s_tasks st) (join2 task (dec_str id)) with
  | None => (st, RErr)
  | Some t =>
    if negb (String.eqb (t_hash t) task_hash) then (st, RErr)
    else match sget (s_res st) (res_key operator task id) with
    | None => (st, RErr)
    | Some r =>
      match r_resp r with
      | RJson _ _ =>
        if negb (hash_matches (r_resp r) rh) then (st, RErr)
        else match sget (s_chals st) (res_key operator task id) with
        | Some _ => (st, RErr)
        | None =>
          match epoch_cur st (by_task_epoch (s_avs st) (t_addr t)) with
          | None => (st, RErr)
          | Some cur =>
            if cur <=? t_start t + t_resp t + t_stat t then (st, RErr)
            else if cur >? t_start t + t_resp t + t_stat t + t_chal t then (st, RErr)
            else (with_chals st (sset (s_chals st) (res_key operator task id) caller_b), ROk)
          end
        end
      | _ => (st, RErr)
      end
    end
  end.

(* ---------- AfterEpochEnd ---------- *)

Fixpoint insert_by {A} (key : A -> string) (x : A) (l : list A) : list A :=
  match l with
  | [] => [x]
  | y :: r => match scmp (key x) (key y) with Lt => x :: l | _ => y :: insert_by key x r end
  end.
Definition sort_by {A} (key : A -> string) (l : list A) : list A := fold_left (fun acc x => insert_by key x acc) l [].

(* types.Difference(a, b): elements of b not in a, then what is left of a, sorted — a symmetric difference *)
Definition difference (a b : list string) : list string :=
  sort_by (fun x => x) (filter (fun x => negb (mem x a)) b ++ filter (fun x => negb (mem x b)) a).

(* GetTaskStatisticalEpochEndAVSs *)
Definition due (st : state) (id : string) (num : Z) (r : res_info) : bool :=
  match sget (s_tasks st) (join2 (r_task r) (dec_str (r_id r))) with
  | None => false
  | Some t => String.eqb id (by_task_epoch (s_avs st) (r_task r)) && (num =? t_start t + t_resp t + t_stat t)
  end.

Definition same_group (a b : res_info) : bool := String.eqb (r_task a) (r_task b) && (r_id a =? r_id b).

Fixpoint group_heads (l : list res_info) (seen : list res_info) : list res_info :=
  match l with
  | [] => []
  | r :: rest => if existsb (same_group r) seen then group_heads rest seen else r :: group_heads rest (r :: seen)
  end.

Definition has_sig (r : res_info) : bool := match r_sig r with Some _ => true | None => false end.

(* GetOperatorOptedUSDValue(avs, operator).ActiveUSDValue: 0 when not opted in; None = the lookup returns an error *)
Definition active_power (st : state) (op_usd : list (string * Z)) (avs operator : string) : option Z :=
  if negb (opted_active st operator avs) then Some 0 else assoc op_usd (join2 avs operator).

(* a result whose power lookup fails (or is negative) is skipped AFTER its operator was appended to the signer list *)
Fixpoint powers_of (st : state) (op_usd : list (string * Z)) (avs : string) (l : list res_info) : list (string * Z) :=
  match l with
  | [] => []
  | r :: rest =>
      match active_power st op_usd avs (r_op r) with
      | Some p => if p <? 0 then powers_of st op_usd avs rest else (r_op r, p) :: powers_of st op_usd avs rest
      | None => powers_of st op_usd avs rest
      end
  end.

Definition uint64_of (z : Z) : Z := Z.abs z mod 2 ^ 64.

(* one group of the epoch hook.  A group whose task info or AVS USD value cannot be read is skipped (`continue`):
   the state is returned unchanged. *)
Definition stat_group (st : state) (avs_usd op_usd : list (string * Z)) (members : list res_info) : state :=
  let sorted := sort_by r_op members in
  let signed := filter has_sig sorted in
  match signed with
  | [] => st                                    (* GetTaskInfo("0", "") fails: group skipped *)
  | r0 :: _ =>
      let avs := by_task_addr (s_avs st) (r_task r0) in
      let pows := powers_of st op_usd avs signed in
      match sget (s_tasks st) (join2 (r_task r0) (dec_str (r_id r0))) with
      | None => st
      | Some t =>
          match assoc avs_usd avs with
          | None => st                          (* GetAVSUSDValue fails: group skipped *)
          | Some total =>
              let signed_ops := map r_op signed in
              let ptotal := zsum (map snd pows) in
              let actual :=
                if negb (total =? 0) && negb (ptotal =? 0)
                then uint64_of (dec_mul (dec_quo total ptotal) (dec_of_int 100)) else t_actual t in
              let t' := mkTask (t_addr t) (t_name t) (t_hash t) (t_id t) (t_resp t) (t_stat t) (t_chal t) (t_thr t)
                          (t_start t) actual (t_optin t) signed_ops (difference (t_optin t) signed_ops)
                          (t_errsigned t) total (Some pows) in
              with_tasks st (sset (s_tasks st) (join2 (t_addr t) (dec_str (t_id t))) t')
          end
      end
  end.

Fixpoint stat_groups (st : state) (avs_usd op_usd : list (string * Z)) (duel heads : list res_info) : state :=
  match heads with
  | [] => st
  | h :: rest => stat_groups (stat_group st avs_usd op_usd (filter (same_group h) duel)) avs_usd op_usd duel rest
  end.

Definition epoch_hook (st : state) (avs_usd op_usd : list (string * Z)) (id : string) (num : Z) : state :=
  let duel := filter (due st id num) (map snd (s_res st)) in
  stat_groups st avs_usd op_usd duel (group_heads duel []).

Fixpoint epoch_ends (st : state) (avs_usd op_usd : list (string * Z)) (ended : list (string * Z)) : state :=
  match ended with
  | [] => st
  | (id, num) :: rest =>
      let st' := epoch_hook st avs_usd op_usd id num in
      epoch_ends (with_epochs st' (assoc_set (s_epochs st') id (num + 1))) avs_usd op_usd rest
  end.

(* ---------- step ---------- *)

Definition step (e : env) (st : state) (o : op) : state * result :=
  match o with
  | ORegister _ addr caller caller_b p => pre_register e st addr caller caller_b p
  | OUpdate _ addr caller caller_b p => pre_update e st addr caller caller_b p
  | ODeregister _ addr caller caller_b name => pre_deregister st addr caller caller_b name
  | OOptIn _ addr caller operator self frozen => opt_in e st addr caller operator self frozen
  | OOptOut _ addr caller operator _ frozen => opt_out e st addr caller operator frozen
  | OCreateTask task caller caller_b name hash resp chal thr stat avs_usd =>
      create_task st task caller caller_b name hash resp chal thr stat avs_usd
  | ORegBLS caller operator name pub v => reg_bls st caller operator name pub v
  | OSubmit from from_valid info pk_ok bls_ok => submit e st from from_valid info pk_ok bls_ok
  | OChallenge task caller caller_b task_hash id rh operator op_valid =>
      challenge st task caller caller_b task_hash id rh operator op_valid
  | OEpochEnd ended avs_usd op_usd => (epoch_ends st avs_usd op_usd ended, ROk)   (* the hook has no panic path left *)
  end.

Definition run (e : env) (st : state) (ops : list op) : state := fold_left (fun s o => fst (step e s o)) ops st.

(* ---------- observations (written by the harness) ---------- *)

Record dump := mkDump {
  d_avs : option (list (string * avs_info)); d_tasks : option (list (string * task_info));
  d_nums : option (list (string * Z)); d_pubs : option (list (string * string));
  d_res : option (list (string * res_info)); d_chals : option (list (string * string));
  d_opted : option (list (string * bool)) }.

(* what the self USD value of an operator is made of, read from the stores right before an opt-in: for every asset of
   the AVS that the operator holds, the operator's pool (TotalAmount, OperatorShare, TotalShare as raw decimals), the
   oracle price (value, decimals) and the asset decimals *)
Record pool := mkPool { pl_amount : Z; pl_share : Z; pl_tshare : Z; pl_price : Z; pl_adec : Z; pl_pdec : Z }.

Record stepobs := mkStep { so_op : op; so_res : result; so_dump : dump; so_pools : option (list pool) }.

(* the code's formula: TokensFromShares (Quo with banker rounding, TruncateInt) and CalculateUSDValue
   (LegacyNewDecFromBigInt(amount * price).QuoInt(10^(asset decimals + price decimals)), truncating) *)
Definition pool_tokens (p : pool) : Z :=
  if pl_tshare p =? 0 then 0 else dec_trunc_int (dec_quo (pl_share p * pl_amount p) (pl_tshare p)).
Definition usd_trunc (amount price d : Z) : Z := Z.quot (amount * price * P) (10 ^ d).
Definition pool_usd (p : pool) : Z := usd_trunc (pool_tokens p) (pl_price p) (pl_adec p + pl_pdec p).
Definition self_formula (l : list pool) : Z := zsum (map pool_usd l).

(* the property's reading, in exact rational arithmetic (no rounding anywhere):
     sum_i share_i * amount_i * price_i / (tshare_i * 10^(adec_i + pdec_i))  >=  min
   evaluated by cross-multiplication over a common denominator *)
Definition pool_num (p : pool) : Z := pl_share p * pl_amount p * pl_price p.
Definition pool_den (p : pool) : Z := pl_tshare p * 10 ^ (pl_adec p + pl_pdec p).
Fixpoint rat_sum (l : list pool) : Z * Z :=
  match l with
  | [] => (0, 1)
  | p :: r =>
      let '(n, d) := rat_sum r in
      if pool_den p <=? 0 then (n, d) else (n * pool_den p + pool_num p * d, d * pool_den p)
  end.
Definition exact_self_ge (l : list pool) (min : Z) : bool :=
  let '(n, d) := rat_sum l in min * d <=? n.

Record case := mkCase {
  c_operators : list string; c_assets : list string; c_epochs : list (string * Z); c_init : dump;
  c_steps : list stepobs }.

Definition or_else {A} (o : option A) (d : A) : A := match o with Some x => x | None => d end.

(* the observed state after a step = previous observed state with the dumped sub-stores replaced *)
Definition apply_dump (st : state) (d : dump) : state :=
  mkSt (or_else (d_avs d) (s_avs st)) (or_else (d_tasks d) (s_tasks st)) (or_else (d_nums d) (s_nums st))
       (or_else (d_pubs d) (s_pubs st)) (or_else (d_res d) (s_res st)) (or_else (d_chals d) (s_chals st))
       (or_else (d_opted d) (s_opted st)) (s_epochs st).

(* ---------- equality tests ---------- *)

Definition lstr_eqb := list_eqb String.eqb.
Definition avs_eqb (a b : avs_info) : bool :=
  String.eqb (a_name a) (a_name b) && String.eqb (a_addr a) (a_addr b) && (a_min_stake a =? a_min_stake b) &&
  String.eqb (a_task a) (a_task b) && String.eqb (a_slash a) (a_slash b) && String.eqb (a_reward a) (a_reward b) &&
  lstr_eqb (a_owners a) (a_owners b) && lstr_eqb (a_assets a) (a_assets b) && (a_unbond a =? a_unbond b) &&
  (a_min_self a =? a_min_self b) && String.eqb (a_epoch a) (a_epoch b) && (a_min_optin a =? a_min_optin b) &&
  (a_min_total a =? a_min_total b) && (a_start a =? a_start b) && (a_avs_reward a =? a_avs_reward b) &&
  (a_avs_slash a =? a_avs_slash b).

Definition pow_eqb (a b : string * Z) : bool := String.eqb (fst a) (fst b) && (snd a =? snd b).

Definition task_eqb (a b : task_info) : bool :=
  String.eqb (t_addr a) (t_addr b) && String.eqb (t_name a) (t_name b) && String.eqb (t_hash a) (t_hash b) &&
  (t_id a =? t_id b) && (t_resp a =? t_resp b) && (t_stat a =? t_stat b) && (t_chal a =? t_chal b) &&
  (t_thr a =? t_thr b) && (t_start a =? t_start b) && (t_actual a =? t_actual b) && lstr_eqb (t_optin a) (t_optin b) &&
  lstr_eqb (t_signed a) (t_signed b) && lstr_eqb (t_nosigned a) (t_nosigned b) && lstr_eqb (t_errsigned a) (t_errsigned b) &&
  (t_total a =? t_total b) && option_eqb (list_eqb pow_eqb) (t_powers a) (t_powers b).

Definition resp_eqb (a b : resp) : bool :=
  match a, b with
  | RNil, RNil => true
  | RJson i s, RJson i' s' => (i =? i') && (s =? s')
  | RBad x, RBad y => String.eqb x y
  | _, _ => false
  end.

Definition res_eqb (a b : res_info) : bool :=
  String.eqb (r_op a) (r_op b) && Nat.eqb (r_hash a) (r_hash b) && resp_eqb (r_resp a) (r_resp b) &&
  option_eqb String.eqb (r_sig a) (r_sig b) && String.eqb (r_task a) (r_task b) && (r_id a =? r_id b) &&
  String.eqb (r_stage a) (r_stage b).

Definition kv_eqb {A} (f : A -> A -> bool) (a b : string * A) : bool := String.eqb (fst a) (fst b) && f (snd a) (snd b).
Definition store_eqb {A} (f : A -> A -> bool) (a b : store A) : bool := list_eqb (kv_eqb f) a b.

Definition stores_eqb (a b : state) : bool :=
  store_eqb avs_eqb (s_avs a) (s_avs b) && store_eqb task_eqb (s_tasks a) (s_tasks b) &&
  store_eqb Z.eqb (s_nums a) (s_nums b) && store_eqb String.eqb (s_pubs a) (s_pubs b) &&
  store_eqb res_eqb (s_res a) (s_res b) && store_eqb String.eqb (s_chals a) (s_chals b) &&
  store_eqb Bool.eqb (s_opted a) (s_opted b).

(* ---------- correspondence ---------- *)

Definition op_key_ok (o : op) : bool :=
  match o with
  | ORegister key addr _ _ _ | OUpdate key addr _ _ _ | ODeregister key addr _ _ _
  | OOptIn key addr _ _ _ _ | OOptOut key addr _ _ _ _ => String.eqb key (addr_key addr)
  | _ => true
  end.

(* model and implementation step by step: same result class, same stores afterwards.  The model continues
   from the OBSERVED state, so one disagreement does not mask later ones and the first bad step is exact. *)
Fixpoint check_steps (e : env) (obs : state) (l : list stepobs) (i : nat) : option nat :=
  match l with
  | [] => None
  | s :: rest =>
      let '(m, r) := step e obs (so_op s) in
      let obs' := with_epochs (apply_dump obs (so_dump s)) (s_epochs m) in
      let self_ok :=
        match so_op s, so_pools s with
        | OOptIn _ addr _ operator (Some v) _, Some l =>
            (* GetOrCalculateOperatorUSDValues recomputes the value only for an operator that is not opted in *)
            opted_active obs operator addr || (v =? self_formula l)
        | _, _ => true
        end in
      if op_key_ok (so_op s) && result_eqb r (so_res s) && stores_eqb m obs' && self_ok then check_steps e obs' rest (S i)
      else Some i
  end.

Definition init_state (c : case) : state := apply_dump (empty_state (c_epochs c)) (c_init c).

Definition check_case (c : case) : option nat :=
  check_steps (mkEnv (c_operators c) (c_assets c)) (init_state c) (c_steps c) 1.

(* =====================================================================================================
   Property monitors: the statement of C20 evaluated on the IMPLEMENTATION's observed behaviour only
   (observed state before, the operation with its inputs, observed result, observed state after).
   None of them calls [step]. *)

Record mstate := mkM { m_obs : state; m_acc1 : list (string * string * Z) }.

Definition keys_of {A} (s : store A) : list string := map fst s.

Fixpoint strictly_sorted (l : list string) : bool :=
  match l with
  | a :: ((b :: _) as r) => match scmp a b with Lt => strictly_sorted r | _ => false end
  | _ => true
  end.

Fixpoint pairwise {A} (f : A -> A -> bool) (l : list A) : bool :=
  match l with
  | [] => true
  | a :: r => forallb (f a) r && pairwise f r
  end.

(* --- registry: AVS address unique, task address belongs to at most one AVS, task ids 1..n per contract --- *)

Definition avs_registry_ok (avs : store avs_info) : bool :=
  strictly_sorted (keys_of avs) &&
  forallb (fun kv => String.eqb (addr_key (a_addr (snd kv))) (fst kv)) avs &&
  pairwise (fun x y => negb (String.eqb (a_addr (snd x)) (a_addr (snd y))) &&
                       (String.eqb (a_task (snd x)) "" || negb (String.eqb (a_task (snd x)) (a_task (snd y))))) avs.

Definition ids_of_contract (tasks : store task_info) (k : string) : list Z :=
  map (fun kv => t_id (snd kv)) (filter (fun kv => String.eqb (addr_key (t_addr (snd kv))) k) tasks).

Definition task_ids_ok (st : state) : bool :=
  strictly_sorted (keys_of (s_tasks st)) &&
  (* a task is stored under its own contract address and identifier (hypothesis of C20_challenge) *)
  forallb (fun kv => String.eqb (fst kv) (join2 (t_addr (snd kv)) (dec_str (t_id (snd kv))))) (s_tasks st) &&
  forallb (fun kv => match assoc (s_nums st) (addr_key (t_addr (snd kv))) with Some _ => true | None => false end) (s_tasks st) &&
  forallb (fun kn =>
             let ids := ids_of_contract (s_tasks st) (fst kn) in
             (0 <=? snd kn) && Nat.eqb (List.length ids) (Z.to_nat (snd kn)) &&
             forallb (fun i => existsb (Z.eqb (Z.of_nat i)) ids) (seq 1 (Z.to_nat (snd kn)))) (s_nums st).

Definition is_registry_op (o : op) : bool :=
  match o with ORegister _ _ _ _ _ | OUpdate _ _ _ _ _ | ODeregister _ _ _ _ _ => true | _ => false end.

Definition num_of (st : state) (k : string) : Z := match assoc (s_nums st) k with Some n => n | None => 0 end.

Definition mon_registry_step (e : env) (m : mstate) (s : stepobs) (after : state) : bool :=
  let before := m_obs m in
  let tasks_untouched := store_eqb Z.eqb (s_nums before) (s_nums after) &&
                         list_eqb String.eqb (keys_of (s_tasks before)) (keys_of (s_tasks after)) in
  avs_registry_ok (s_avs after) && task_ids_ok after &&
  (* the AVS store only changes through an accepted register / update / deregister *)
  (if is_registry_op (so_op s) && result_eqb (so_res s) ROk then true else store_eqb avs_eqb (s_avs before) (s_avs after)) &&
  match so_op s, so_res s with
  | ORegister key _ _ caller_b p, ROk =>
      (match assoc (s_avs before) key with None => true | Some _ => false end) &&
      (match assoc (s_avs after) key with None => false | Some a => String.eqb (a_task a) (p_task p) end) &&
      mem caller_b (p_owners p) && tasks_untouched &&
      forallb (fun kv => negb (String.eqb (a_task (snd kv)) (p_task p))) (s_avs before)
  | OUpdate key _ _ caller_b _, ROk =>
      (match assoc (s_avs before) key with Some a => mem caller_b (a_owners a) | None => false end) && tasks_untouched &&
      (match assoc (s_avs after) key with None => false | Some _ => true end)
  | ODeregister key _ _ caller_b name, ROk =>
      (* only an owner, with the stored name, while current epoch - starting epoch <= unbonding period *)
      (match assoc (s_avs before) key with
       | Some a => mem caller_b (a_owners a) && String.eqb (a_name a) name &&
                   match assoc (s_epochs before) (a_epoch a) with Some cur => cur - a_start a <=? a_unbond a | None => false end
       | None => false
       end) && tasks_untouched &&
      (match assoc (s_avs after) key with None => true | Some _ => false end)
  | OCreateTask task _ _ _ _ _ _ _ _ _, ROk =>
      (* exactly one new task, with the next identifier of that contract *)
      let k := addr_key task in
      (num_of after k =? num_of before k + 1) &&
      forallb (fun kn => String.eqb (fst kn) k || (num_of before (fst kn) =? snd kn)) (s_nums after) &&
      Nat.eqb (List.length (s_tasks after)) (S (List.length (s_tasks before))) &&
      (match assoc (s_tasks after) (join2 task (dec_str (num_of after k))) with
       | Some t => (t_id t =? num_of after k) && String.eqb (t_addr t) task
       | None => false
       end) &&
      forallb (fun kv => match assoc (s_tasks after) (fst kv) with Some t => task_eqb t (snd kv) | None => false end) (s_tasks before)
  | _, _ => tasks_untouched
  end.

(* --- opt-in: only registered AVSs accept opt-ins, from registered operators whose self value meets the minimum --- *)

Definition mon_optin_step (e : env) (m : mstate) (s : stepobs) (after : state) : bool :=
  let before := m_obs m in
  match so_op s, so_res s with
  | OOptIn key addr _ operator self _, ROk =>
      (match assoc (s_avs before) key with
       | None => false
       | Some a => String.eqb (a_addr a) addr &&
                   match self with Some v => dec_of_int (a_min_self a) <=? v | None => false end &&
                   (* the self-delegated value itself (pools, shares, prices, decimals; exact rationals), not the value
                      the code reports, meets the minimum *)
                   match so_pools s with Some l => exact_self_ge l (a_min_self a) | None => true end
       end) &&
      mem operator (e_operators e) &&
      (match assoc (s_opted before) (join2 operator addr) with Some true => false | _ => true end) &&
      (match assoc (s_opted after) (join2 operator addr) with Some true => true | _ => false end) &&
      forallb (fun kv => String.eqb (fst kv) (join2 operator addr) ||
                         match assoc (s_opted before) (fst kv) with Some b => Bool.eqb b (snd kv) | None => false end) (s_opted after)
  | OOptOut key addr _ operator _ _, ROk =>
      (match assoc (s_opted before) (join2 operator addr) with Some true => true | _ => false end) &&
      (match assoc (s_opted after) (join2 operator addr) with Some false => true | _ => false end)
  | _, _ => store_eqb Bool.eqb (s_opted before) (s_opted after)
  end.

(* --- acceptance rules of task results and challenges --- *)

Definition cur_of (st : state) (task : string) : option Z := assoc (s_epochs st) (by_task_epoch (s_avs st) task).

Definition common_cond (e : env) (st : state) (from : string) (from_valid : bool) (i : sub_info) (pk_ok : bool) : bool :=
  from_valid && String.eqb from (i_op i) && mem (i_op i) (e_operators e) &&
  (match assoc (s_pubs st) (i_op i) with Some _ => true | None => false end) && pk_ok.

Definition phase1_cond (e : env) (st : state) (from : string) (from_valid : bool) (i : sub_info) (pk_ok : bool) : bool :=
  common_cond e st from from_valid i pk_ok &&
  match assoc (s_tasks st) (join2 (i_task i) (dec_str (i_id i))), cur_of st (i_task i) with
  | Some t, Some cur =>
      mem (i_op i) (t_optin t) &&                                                         (* in the opt-in snapshot *)
      (match assoc (s_res st) (res_key (i_op i) (i_task i) (i_id i)) with None => true | Some _ => false end) &&  (* only once *)
      negb (String.eqb (sig_bytes (i_sig i)) "") &&                                      (* a non-empty signature *)
      String.eqb (i_hash i) "" && resp_is_nil (i_resp i) &&
      (cur <=? t_start t + t_resp t)                                                      (* until the response period ends *)
  | _, _ => false
  end.

Definition phase2_cond (e : env) (st : state) (from : string) (from_valid : bool) (i : sub_info) (pk_ok bls_ok : bool) : bool :=
  common_cond e st from from_valid i pk_ok &&
  match assoc (s_tasks st) (join2 (i_task i) (dec_str (i_id i))), cur_of st (i_task i) with
  | Some t, Some cur =>
      mem (i_op i) (t_optin t) &&
      (match assoc (s_res st) (res_key (i_op i) (i_task i) (i_id i)) with
       | Some r => String.eqb (sig_bytes (r_sig r)) (sig_bytes (i_sig i))                   (* the phase-one signature *)
       | None => false
       end) &&
      (t_start t + t_resp t <? cur) && (cur <=? t_start t + t_resp t + t_stat t) &&          (* statistical period *)
      (match i_resp i with RJson id _ => id =? i_id i | _ => false end) &&                (* same task id *)
      bls_ok                                                                              (* BLS verifies *)
  | _, _ => false
  end.

Definition challenge_cond (st : state) (task caller task_hash : string) (id : Z) (rh : hdesc) (operator : string) (op_valid : bool) : bool :=
  negb (is_zero caller) && op_valid &&
  match assoc (s_tasks st) (join2 task (dec_str id)) with
  | Some t =>
      match cur_of st (t_addr t) with
      | Some cur =>
          String.eqb (t_hash t) task_hash &&
          (match assoc (s_res st) (res_key operator task id) with Some r => hash_matches (r_resp r) rh | None => false end) &&
          (match assoc (s_chals st) (res_key operator task id) with None => true | Some _ => false end) &&   (* once *)
          (t_start t + t_resp t + t_stat t <? cur) && (cur <=? t_start t + t_resp t + t_stat t + t_chal t)  (* challenge period *)
      | None => false
      end
  | None => false
  end.

Definition others_same {A} (f : A -> A -> bool) (k : string) (before after : store A) : bool :=
  forallb (fun kv => String.eqb (fst kv) k || match assoc before (fst kv) with Some v => f v (snd kv) | None => false end) after &&
  forallb (fun kv => match assoc after (fst kv) with Some _ => true | None => false end) before.

Definition mon_accept_step (e : env) (m : mstate) (s : stepobs) (after : state) : bool :=
  let before := m_obs m in
  match so_op s with
  | OSubmit from from_valid (Some i) pk_ok bls_ok =>
      let k := res_key (i_op i) (i_task i) (i_id i) in
      let accepted := result_eqb (so_res s) ROk in
      store_eqb String.eqb (s_chals before) (s_chals after) &&
      (if String.eqb (i_stage i) "1" then Bool.eqb accepted (phase1_cond e before from from_valid i pk_ok)
       else if String.eqb (i_stage i) "2" then Bool.eqb accepted (phase2_cond e before from from_valid i pk_ok bls_ok)
       else negb accepted) &&
      (if accepted then
         others_same res_eqb k (s_res before) (s_res after) &&
         match assoc (s_res after) k with
         | Some r => String.eqb (r_op r) (i_op i) && String.eqb (r_task r) (i_task i) && (r_id r =? i_id i) &&
                     String.eqb (sig_bytes (r_sig r)) (sig_bytes (i_sig i)) && resp_eqb (r_resp r) (resp_stored (i_resp i))
         | None => false
         end
       else store_eqb res_eqb (s_res before) (s_res after))
  | OChallenge task caller caller_b task_hash id rh operator op_valid =>
      let k := res_key operator task id in
      let accepted := result_eqb (so_res s) ROk in
      store_eqb res_eqb (s_res before) (s_res after) &&
      Bool.eqb accepted (challenge_cond before task caller task_hash id rh operator op_valid) &&
      (if accepted then
         others_same String.eqb k (s_chals before) (s_chals after) &&
         match assoc (s_chals after) k with Some c => String.eqb c caller_b | None => false end
       else store_eqb String.eqb (s_chals before) (s_chals after))
  | _ =>
      (match so_op s, so_res s with OSubmit _ _ None _ _, ROk => false | _, _ => true end) &&
      store_eqb res_eqb (s_res before) (s_res after) && store_eqb String.eqb (s_chals before) (s_chals after)
  end.

(* --- statistics at the end of the statistical period --- *)

Definition accepted_ops (acc : list (string * string * Z)) (task : string) (id : Z) : list string :=
  sort_by (fun x => x)
    (map (fun x => fst (fst x)) (filter (fun x => String.eqb (snd (fst x)) task && (snd x =? id)) acc)).

Definition task_due (st : state) (ended : list (string * Z)) (t : task_info) : bool :=
  existsb (fun en => String.eqb (fst en) (by_task_epoch (s_avs st) (t_addr t)) &&
                     (snd en =? t_start t + t_resp t + t_stat t)) ended.

Definition spec_power (st : state) (op_usd : list (string * Z)) (avs operator : string) : Z :=
  match assoc (s_opted st) (join2 operator avs) with
  | Some true => match assoc op_usd (join2 avs operator) with Some v => v | None => 0 end
  | _ => 0
  end.

Definition mon_stats_step (e : env) (m : mstate) (s : stepobs) (after : state) : bool :=
  let before := m_obs m in
  match so_op s with
  | OEpochEnd ended avs_usd op_usd =>
      result_eqb (so_res s) ROk &&
      forallb (fun kv =>
        let t := snd kv in
        match assoc (s_tasks after) (fst kv) with
        | None => false
        | Some t' =>
            let signers := accepted_ops (m_acc1 m) (t_addr t) (t_id t) in
            if task_due before ended t && negb (Nat.eqb (List.length signers) 0) then
              let avs := by_task_addr (s_avs before) (t_addr t) in
              lstr_eqb (t_signed t') signers &&
              lstr_eqb (t_nosigned t') (sort_by (fun x => x) (filter (fun o => negb (mem o signers)) (t_optin t))) &&
              option_eqb (list_eqb pow_eqb) (t_powers t') (Some (map (fun o => (o, spec_power before op_usd avs o)) signers)) &&
              (match assoc avs_usd avs with Some v => t_total t' =? v | None => false end) &&
              lstr_eqb (t_optin t') (t_optin t) && (t_id t' =? t_id t) && String.eqb (t_addr t') (t_addr t)
            else task_eqb t t'
        end) (s_tasks before)
  | OCreateTask _ _ _ _ _ _ _ _ _ _ => true
  | _ => store_eqb task_eqb (s_tasks before) (s_tasks after)
  end.

(* --- driver --- *)

Definition m_next (m : mstate) (s : stepobs) (after : state) : mstate :=
  let acc := match so_op s, so_res s with
             | OSubmit _ _ (Some i) _ _, ROk =>
                 if String.eqb (i_stage i) "1" then (i_op i, i_task i, i_id i) :: m_acc1 m else m_acc1 m
             | _, _ => m_acc1 m
             end in
  let eps := match so_op s, so_res s with
             | OEpochEnd ended _ _, ROk => fold_left (fun l en => assoc_set l (fst en) (snd en + 1)) ended (s_epochs after)
             | _, _ => s_epochs after
             end in
  mkM (with_epochs after eps) acc.

Fixpoint mon_steps (chk : env -> mstate -> stepobs -> state -> bool) (e : env) (m : mstate) (l : list stepobs) (i : nat)
  : option nat :=
  match l with
  | [] => None
  | s :: rest =>
      let after := apply_dump (m_obs m) (so_dump s) in
      if chk e m s after then mon_steps chk e (m_next m s after) rest (S i) else Some i
  end.

Definition mon_case (chk : env -> mstate -> stepobs -> state -> bool) (c : case) : option nat :=
  let st0 := init_state c in
  if avs_registry_ok (s_avs st0) && task_ids_ok st0
  then mon_steps chk (mkEnv (c_operators c) (c_assets c)) (mkM st0 []) (c_steps c) 1
  else Some 0%nat.

Definition mon_registry (c : case) : option nat := mon_case mon_registry_step c.
Definition mon_optin (c : case) : option nat := mon_case mon_optin_step c.
Definition mon_accept (c : case) : option nat := mon_case mon_accept_step c.
Definition mon_stats (c : case) : option nat := mon_case mon_stats_step c.

Definition monitor_case (c : case) : option nat :=
  match mon_registry c with Some i => Some i | None =>
  match mon_optin c with Some i => Some i | None =>
  match mon_accept c with Some i => Some i | None => mon_stats c end end end.
