(* C20/ProofsStats.v — invariants that need the injectivity of the key encodings (C20/Keys.v): tasks are stored under
   their own key and never overwritten, every stored result belongs to an operator of its task's opt-in snapshot;
   the statistics of a whole AfterEpochEnd call; the non-signer half of the statistics statement. *)
From Coq Require Import List String Ascii Bool ZArith Lia.
From Exo Require Import Base.Store Base.Util Base.IntDec C20.Model C20.Keys C20.Proofs.
Import ListNotations.
Local Open Scope Z_scope.

Local Opaque dec_str.

Definition op_wf2 (o : op) : bool :=
  match o with
  | OCreateTask task _ _ _ _ _ _ _ _ _ => no_slash task
  | _ => true
  end.

Definition nums_nonneg (st : state) : Prop := forall k, 0 <= num_at st k.

Definition tasks_inv (st : state) : Prop := forall k t, In (k, t) (s_tasks st) ->
  k = join2 (t_addr t) (dec_str (t_id t)) /\ no_slash (t_addr t) = true /\
  1 <= t_id t <= num_at st (addr_key (t_addr t)).

Definition res_inv (st : state) : Prop := forall k r, In (k, r) (s_res st) ->
  exists t, sget (s_tasks st) (join2 (r_task r) (dec_str (r_id r))) = Some t /\
            r_task r = t_addr t /\ r_id r = t_id t /\ mem (r_op r) (t_optin t) = true.

Definition big_inv (st : state) : Prop := st_sorted st /\ nums_nonneg st /\ tasks_inv st /\ res_inv st.

Lemma dec_str_neg x : x < 0 -> dec_str x = dec_str 0.
Proof. intro H. Local Transparent dec_str. unfold dec_str. Local Opaque dec_str. replace (Z.to_N x) with (Z.to_N 0) by lia. reflexivity. Qed.

(* a successful task lookup returns the task with exactly that address and identifier *)
Lemma lookup_task_fields st a x t : sorted (s_tasks st) -> tasks_inv st ->
  sget (s_tasks st) (join2 a (dec_str x)) = Some t -> a = t_addr t /\ x = t_id t.
Proof.
  intros Hs Ht E. apply (sget_in _ _ _ Hs) in E. destruct (Ht _ _ E) as [Hk [Hns [Hlo _]]].
  destruct (Z_lt_le_dec x 0) as [Hneg|Hpos].
  - rewrite (dec_str_neg x Hneg) in Hk. apply join2_dec_inj in Hk; auto; lia.
  - apply join2_dec_inj in Hk; auto; lia.
Qed.

Lemma big_inv_with_epochs st x : big_inv st -> big_inv (with_epochs st x).
Proof. intro H. exact H. Qed.

(* ---- operations that touch neither tasks, counters nor results ---- *)
Definition same3 (st st' : state) : Prop :=
  s_tasks st' = s_tasks st /\ s_nums st' = s_nums st /\ s_res st' = s_res st.

Ltac head_same3 := repeat match goal with
  | |- same3 _ (fst (if ?c then _ else _)) => destruct c
  | |- same3 _ (fst (match ?c with _ => _ end)) => destruct c
  end; try (repeat split; reflexivity).

Lemma big_inv_same3 st st' : st_sorted st' -> same3 st st' -> big_inv st -> big_inv st'.
Proof.
  intros Hs' (E1&E2&E3) (Hs&Hn&Ht&Hr). split; [exact Hs'|].
  unfold nums_nonneg, tasks_inv, res_inv, num_at in *. rewrite E1, E2, E3. auto.
Qed.

(* ---- submit ---- *)
Lemma submit_cases e st from fv i pk bls :
  fst (submit e st from fv (Some i) pk bls) = st \/
  exists t r', sget (s_tasks st) (join2 (i_task i) (dec_str (i_id i))) = Some t /\ mem (i_op i) (t_optin t) = true /\
    fst (submit e st from fv (Some i) pk bls) = with_res st (sset (s_res st) (res_key (i_op i) (i_task i) (i_id i)) r') /\
    r_op r' = i_op i /\ r_task r' = i_task i /\ r_id r' = i_id i.
Proof.
  unfold submit.
  destruct (negb fv); [left; reflexivity|].
  destruct (negb (String.eqb from (i_op i))); [left; reflexivity|].
  destruct (negb (is_operator e (i_op i))); [left; reflexivity|].
  destruct (sget (s_pubs st) (i_op i)); [|left; reflexivity].
  destruct (negb pk); [left; reflexivity|].
  destruct (sget (s_tasks st) (join2 (i_task i) (dec_str (i_id i)))) as [t|]; [|left; reflexivity].
  destruct (mem (i_op i) (t_optin t)) eqn:Em; cbn [negb]; [|left; reflexivity].
  destruct (epoch_cur st _) as [cur|]; [|left; reflexivity].
  destruct (String.eqb (i_stage i) "1").
  - destruct (sget (s_res st) _); [left; reflexivity|].
    destruct (String.eqb (sig_bytes (i_sig i)) ""); [left; reflexivity|].
    destruct (_ || _); [left; reflexivity|].
    destruct (cur >? _); [left; reflexivity|].
    right. exists t. eexists. split; [reflexivity|]. split; [exact Em|]. repeat split; reflexivity.
  - destruct (String.eqb (i_stage i) "2"); [|left; reflexivity].
    destruct (resp_is_nil (i_resp i)); [left; reflexivity|].
    destruct (sget (s_res st) _) as [r|]; [|left; reflexivity].
    destruct (negb (String.eqb _ _)); [left; reflexivity|].
    destruct (cur <=? _); [left; reflexivity|].
    destruct (cur >? _); [left; reflexivity|].
    destruct (i_resp i) as [|rid rsum|x]; try (left; reflexivity).
    destruct (negb (rid =? i_id i)); [left; reflexivity|].
    destruct (negb bls); [left; reflexivity|].
    right. exists t. eexists. split; [reflexivity|]. split; [exact Em|]. repeat split; reflexivity.
Qed.

(* ---- createTask ---- *)
Lemma create_task_cases st task caller cb name hash resp chal thr stat au :
  fst (create_task st task caller cb name hash resp chal thr stat au) = st \/
  exists tn, fst (create_task st task caller cb name hash resp chal thr stat au) =
       with_tasks (with_nums st (sset (s_nums st) (addr_key task) (next_task_id st task)))
                  (sset (s_tasks st) (join2 task (dec_str (next_task_id st task))) tn) /\
     t_addr tn = task /\ t_id tn = next_task_id st task.
Proof.
  unfold create_task.
  destruct (is_zero caller || String.eqb name ""); [left; reflexivity|].
  destruct (find_by_task (s_avs st) task) as [a|]; [|left; reflexivity].
  destruct (negb (mem cb (a_owners a))); [left; reflexivity|].
  destruct (assoc au (a_addr a)) as [v|]; [|left; reflexivity].
  destruct (v <=? 0); [left; reflexivity|].
  destruct (epoch_cur st (a_epoch a)) as [cur|]; [|left; reflexivity].
  destruct (sget (s_tasks st) (join2 task "0")); [left; reflexivity|].
  right. eexists. repeat split; reflexivity.
Qed.

Lemma next_id_num st task : next_task_id st task = num_at st (addr_key task) + 1.
Proof. unfold next_task_id, num_at. destruct (sget (s_nums st) (addr_key task)); lia. Qed.

Lemma create_task_inv st task caller cb name hash resp chal thr stat au :
  no_slash task = true -> big_inv st ->
  big_inv (fst (create_task st task caller cb name hash resp chal thr stat au)).
Proof.
  intros Hns Hinv.
  pose proof (step_sorted (mkEnv [] []) st (OCreateTask task caller cb name hash resp chal thr stat au) (proj1 Hinv)) as Hs'.
  cbn [step] in Hs'.
  destruct (create_task_cases st task caller cb name hash resp chal thr stat au) as [E|[tn [E [Ha Hi]]]];
    [rewrite E; exact Hinv|].
  rewrite E in *. clear E.
  destruct Hinv as (Hs&Hn&Ht&Hr). pose proof Hs as (_&Hst&Hsn&_).
  set (id := next_task_id st task) in *. set (K := join2 task (dec_str id)) in *.
  assert (Hid : id = num_at st (addr_key task) + 1) by apply next_id_num.
  assert (Hnum : forall k', num_at (with_tasks (with_nums st (sset (s_nums st) (addr_key task) id)) (sset (s_tasks st) K tn)) k'
                 = if String.eqb k' (addr_key task) then id else num_at st k').
  { intro k'. apply (num_at_sset st _ (addr_key task) id k' Hsn). reflexivity. }
  (* the new key is fresh *)
  assert (Hfresh : sget (s_tasks st) K = None).
  { destruct (sget (s_tasks st) K) as [told|] eqn:Eo; auto. exfalso.
    pose proof (Hn (addr_key task)).
    destruct (lookup_task_fields st task id told Hst Ht Eo) as [Hta Hti].
    apply (sget_in _ _ _ Hst) in Eo. destruct (Ht _ _ Eo) as (_&_&_&Hhi). rewrite <- Hta, <- Hti in Hhi. lia. }
  split; [exact Hs'|]. split; [|split].
  - intro k'. rewrite Hnum. destruct (String.eqb k' (addr_key task)); [pose proof (Hn (addr_key task)); lia | apply Hn].
  - intros k t Hin. cbn [s_tasks with_tasks] in Hin. apply in_sset in Hin; auto.
    destruct Hin as [[-> ->]|[Hne Hin]].
    + rewrite Ha, Hi. split; [reflexivity|]. split; [exact Hns|]. rewrite Hnum, String.eqb_refl.
      pose proof (Hn (addr_key task)). lia.
    + destruct (Ht _ _ Hin) as (Hk&Hsl&Hlo&Hhi). split; [exact Hk|]. split; [exact Hsl|]. split; [exact Hlo|].
      rewrite Hnum. destruct (String.eqb (addr_key (t_addr t)) (addr_key task)) eqn:Ek; [|exact Hhi].
      apply String.eqb_eq in Ek. rewrite Ek in Hhi. lia.
  - intros k r Hin. cbn [s_res with_tasks with_nums] in Hin. destruct (Hr _ _ Hin) as [t (Hg&H1&H2&H3)].
    exists t. cbn [s_tasks with_tasks]. split; [|auto].
    rewrite sget_sset_other; auto. intro Heq. rewrite <- Heq in Hg. congruence.
Qed.

(* ---- one group of the epoch hook ---- *)
Lemma stat_group_cases st au ou ms :
  stat_group st au ou ms = st \/
  exists r0 t t', In r0 (filter has_sig (sort_by r_op ms)) /\
    sget (s_tasks st) (join2 (r_task r0) (dec_str (r_id r0))) = Some t /\
    stat_group st au ou ms = with_tasks st (sset (s_tasks st) (join2 (t_addr t) (dec_str (t_id t))) t') /\
    t_addr t' = t_addr t /\ t_id t' = t_id t /\ t_optin t' = t_optin t /\
    t_signed t' = map r_op (filter has_sig (sort_by r_op ms)) /\
    t_nosigned t' = difference (t_optin t) (t_signed t').
Proof.
  unfold stat_group.
  destruct (filter has_sig (sort_by r_op ms)) as [|r0 rest] eqn:Ef; [left; reflexivity|].
  destruct (sget (s_tasks st) _) as [t|] eqn:Et; [|left; reflexivity].
  destruct (assoc au _) as [total|]; [|left; reflexivity].
  right. exists r0, t. eexists. split; [left; reflexivity|]. split; [exact Et|]. repeat split; reflexivity.
Qed.

Lemma stat_group_inv st au ou ms : big_inv st -> big_inv (stat_group st au ou ms).
Proof.
  intro Hinv.
  destruct (stat_group_cases st au ou ms) as [E|[r0 [t [t' (Hr0&Hg&E&Ha&Hi&Ho&_)]]]]; [rewrite E; exact Hinv|].
  rewrite E. clear E. destruct Hinv as (Hs&Hn&Ht&Hr). pose proof Hs as (H1&Hst&H3&H4&H5&H6&H7).
  set (K := join2 (t_addr t) (dec_str (t_id t))).
  destruct (lookup_task_fields st _ _ t Hst Ht Hg) as [Hta Hti].
  assert (HgK : sget (s_tasks st) K = Some t) by (unfold K; rewrite <- Hta, <- Hti; exact Hg).
  split; [repeat split; auto; apply sset_sorted; auto|]. split; [exact Hn|]. split.
  - intros k x Hin. cbn [s_tasks with_tasks] in Hin. apply in_sset in Hin; auto.
    destruct Hin as [[-> ->]|[Hne Hin]]; [|exact (Ht _ _ Hin)].
    apply (sget_in _ _ _ Hst) in HgK. destruct (Ht _ _ HgK) as (Hk&Hsl&Hb).
    rewrite Ha, Hi. split; [reflexivity|]. split; [exact Hsl | exact Hb].
  - intros k r Hin. cbn [s_res with_tasks] in Hin. destruct (Hr _ _ Hin) as [tr (Hgr&R1&R2&R3)].
    cbn [s_tasks with_tasks].
    destruct (string_dec (join2 (r_task r) (dec_str (r_id r))) K) as [Heq|Hne].
    + rewrite Heq in *. rewrite sget_sset_same. assert (tr = t) by congruence. subst tr.
      exists t'. rewrite Ha, Hi, Ho. auto.
    + exists tr. rewrite sget_sset_other by auto. auto.
Qed.

Lemma stat_groups_inv au ou duel heads : forall st, big_inv st -> big_inv (stat_groups st au ou duel heads).
Proof. induction heads as [|h rest IH]; simpl; intros st H; auto. apply IH. apply stat_group_inv. exact H. Qed.

Lemma epoch_ends_inv au ou ended : forall st, big_inv st -> big_inv (epoch_ends st au ou ended).
Proof.
  induction ended as [|[id num] rest IH]; simpl; intros st H; auto.
  apply IH. apply big_inv_with_epochs. unfold epoch_hook. apply stat_groups_inv. exact H.
Qed.

Lemma step_big_inv e st o : op_wf2 o = true -> big_inv st -> big_inv (fst (step e st o)).
Proof.
  intros Hwf Hinv. pose proof (step_sorted e st o (proj1 Hinv)) as Hs'.
  destruct o; cbn [step] in *.
  - apply (big_inv_same3 st); auto. unfold pre_register, keeper_register. head_same3.
  - apply (big_inv_same3 st); auto. unfold pre_update, keeper_update. head_same3.
  - apply (big_inv_same3 st); auto. unfold pre_deregister, keeper_deregister. head_same3.
  - apply (big_inv_same3 st); auto. unfold opt_in. head_same3.
  - apply (big_inv_same3 st); auto. unfold opt_out. head_same3.
  - apply create_task_inv; auto.
  - apply (big_inv_same3 st); auto. unfold reg_bls. head_same3.
  - destruct info as [i|].
    2:{ apply (big_inv_same3 st); auto. unfold submit. head_same3. }
    destruct (submit_cases e st from from_valid i pk_ok bls_ok) as [E|[t [r' (Hg&Hm&E&R1&R2&R3)]]]; [rewrite E; exact Hinv|].
    rewrite E in *. clear E. destruct Hinv as (Hs&Hn&Ht&Hr). pose proof Hs as (H1&Hst&H3&H4&H5&H6&H7).
    split; [exact Hs'|]. split; [exact Hn|]. split; [exact Ht|].
    intros k r Hin. cbn [s_res with_res] in Hin. cbn [s_tasks with_res]. apply in_sset in Hin; auto.
    destruct Hin as [[_ ->]|[_ Hin]]; [|exact (Hr _ _ Hin)].
    destruct (lookup_task_fields st _ _ t Hst Ht Hg) as [Hta Hti].
    exists t. rewrite R1, R2, R3. auto.
  - apply (big_inv_same3 st); auto. unfold challenge. head_same3.
  - apply epoch_ends_inv. exact Hinv.
Qed.

Lemma run_big_inv e ops : forall st, forallb op_wf2 ops = true -> big_inv st -> big_inv (run e st ops).
Proof.
  unfold run. induction ops as [|o r IH]; simpl; intros st Hwf H; auto.
  apply andb_prop in Hwf. destruct Hwf. apply IH; auto. apply step_big_inv; auto.
Qed.

Lemma big_inv_empty eps : big_inv (empty_state eps).
Proof.
  split; [apply empty_sorted|]. split; [intro k; unfold num_at; simpl; lia|].
  split; intros k x Hin; simpl in Hin; contradiction.
Qed.

(* ---- the statistics of one group as the hook forms it, in a state satisfying the invariants ---- *)

Lemma same_group_fields h r : same_group h r = true -> r_task r = r_task h /\ r_id r = r_id h.
Proof.
  unfold same_group. intro H. apply andb_prop in H. destruct H as [H1 H2].
  apply String.eqb_eq in H1. apply Z.eqb_eq in H2. auto.
Qed.

Lemma group_stats st au ou h duel : big_inv st -> sigs_ok st ->
  (forall r, In r duel -> exists k, In (k, r) (s_res st)) ->
  stat_group st au ou (filter (same_group h) duel) = st \/
  exists t t', sget (s_tasks st) (join2 (r_task h) (dec_str (r_id h))) = Some t /\
    stat_group st au ou (filter (same_group h) duel)
      = with_tasks st (sset (s_tasks st) (join2 (r_task h) (dec_str (r_id h))) t') /\
    t_addr t' = t_addr t /\ t_id t' = t_id t /\ t_optin t' = t_optin t /\
    (forall o, In o (t_signed t') <-> In o (map r_op (filter (same_group h) duel))) /\
    (forall o, In o (t_nosigned t') <-> In o (t_optin t) /\ ~ In o (t_signed t')).
Proof.
  intros Hinv Hsig Hduel. set (ms := filter (same_group h) duel).
  destruct (stat_group_cases st au ou ms) as [E|[r0 [t [t' (Hr0&Hg&E&Ha&Hi&Ho&Hsg&Hns)]]]]; [left; exact E|].
  right. destruct Hinv as (Hs&Hn&Ht&Hr). pose proof Hs as (_&Hst&_).
  apply filter_In in Hr0. destruct Hr0 as [Hr0 _]. apply in_sort_by in Hr0.
  assert (Hms : forall r, In r ms -> same_group h r = true /\ exists k, In (k, r) (s_res st)).
  { intros r Hin. apply filter_In in Hin. destruct Hin; split; auto. }
  destruct (Hms _ Hr0) as [Hsame0 _]. destruct (same_group_fields _ _ Hsame0) as [F1 F2].
  rewrite F1, F2 in Hg.
  destruct (lookup_task_fields st _ _ t Hst Ht Hg) as [Hta Hti].
  exists t, t'. split; [exact Hg|]. split; [rewrite Hta, Hti; exact E|].
  split; [exact Ha|]. split; [exact Hi|]. split; [exact Ho|].
  assert (Hall : forall r, In r ms -> sig_ok r = true).
  { intros r Hin. destruct (Hms _ Hin) as [_ [k Hk]]. eapply Hsig; eauto. }
  destruct (signers_all ms Hall) as [_ Hiff].
  split; [intro o; rewrite Hsg; apply Hiff|].
  intro o. rewrite Hns. apply nosigned_when_signers_opted.
  intros s Hs0. rewrite Hsg in Hs0. apply Hiff in Hs0. apply in_map_iff in Hs0. destruct Hs0 as [r [Hop Hin]].
  destruct (Hms _ Hin) as [Hsame [k Hk]]. destruct (same_group_fields _ _ Hsame) as [G1 G2].
  destruct (Hr _ _ Hk) as [tr (Hgr&_&_&Hmem)]. rewrite G1, G2 in Hgr.
  assert (tr = t) by congruence. subst tr s. apply mem_in. exact Hmem.
Qed.

(* ---- the whole AfterEpochEnd call ---- *)

Definition gk (r : res_info) : string * Z := (r_task r, r_id r).

Lemma same_group_gk a b : same_group a b = true <-> gk a = gk b.
Proof.
  unfold same_group, gk. split.
  - intro H. apply andb_prop in H. destruct H as [H1 H2]. apply String.eqb_eq in H1. apply Z.eqb_eq in H2. congruence.
  - intro H. inversion H as [[H1 H2]]. rewrite String.eqb_refl, Z.eqb_refl. reflexivity.
Qed.

Lemma existsb_same_group r seen : existsb (same_group r) seen = true <-> In (gk r) (map gk seen).
Proof.
  rewrite existsb_exists, in_map_iff. split.
  - intros [x [Hx Hs]]. exists x. split; auto. symmetry. apply same_group_gk. exact Hs.
  - intros [x [Hs Hx]]. exists x. split; auto. apply same_group_gk. auto.
Qed.

Lemma group_heads_spec l : forall seen,
  NoDup (map gk (group_heads l seen)) /\
  (forall h, In h (group_heads l seen) -> In h l /\ ~ In (gk h) (map gk seen)) /\
  (forall r, In r l -> In (gk r) (map gk seen) \/ In (gk r) (map gk (group_heads l seen))).
Proof.
  induction l as [|r l IH]; intro seen; cbn [group_heads].
  - split; [constructor|]. split; [intros h []|intros r []].
  - destruct (existsb (same_group r) seen) eqn:E.
    + destruct (IH seen) as (N&A&C). split; [exact N|]. split.
      * intros h Hh. destruct (A h Hh). split; [right|]; auto.
      * intros x [->|Hx]; [left; apply existsb_same_group; exact E | apply C; exact Hx].
    + destruct (IH (r :: seen)) as (N&A&C).
      assert (Hr : ~ In (gk r) (map gk seen)).
      { intro H. apply existsb_same_group in H. congruence. }
      split; [|split].
      * cbn [map]. constructor; [|exact N]. intro H. apply in_map_iff in H. destruct H as [h [Hg Hh]].
        destruct (A h Hh) as [_ Hn]. apply Hn. cbn [map]. left. auto.
      * intros h [<-|Hh]; [split; [left; reflexivity|exact Hr]|].
        destruct (A h Hh) as [Hl Hn]. split; [right; exact Hl|]. intro H. apply Hn. cbn [map]. right. exact H.
      * intros x [<-|Hx]; [right; cbn [map]; left; reflexivity|].
        destruct (C x Hx) as [H|H]; [cbn [map] in H; destruct H as [H|H]; [right; cbn [map]; left; exact H | left; exact H]
                                    | right; cbn [map]; right; exact H].
Qed.

Definition tkey (r : res_info) : string := join2 (r_task r) (dec_str (r_id r)).

(* the per-task outcome of a processed group *)
Definition stats_of (duel : list res_info) (t t' : task_info) : Prop :=
  t_addr t' = t_addr t /\ t_id t' = t_id t /\ t_optin t' = t_optin t /\
  (forall o, In o (t_signed t') <-> exists r, In r duel /\ r_task r = t_addr t /\ r_id r = t_id t /\ r_op r = o) /\
  (forall o, In o (t_nosigned t') <-> In o (t_optin t) /\ ~ In o (t_signed t')).

Lemma res_key_fields st r k : big_inv st -> In (k, r) (s_res st) ->
  exists t, sget (s_tasks st) (tkey r) = Some t /\ r_task r = t_addr t /\ r_id r = t_id t /\
            no_slash (r_task r) = true /\ 1 <= r_id r.
Proof.
  intros (Hs&Hn&Ht&Hr) Hin. destruct (Hr _ _ Hin) as [t (Hg&R1&R2&_)]. exists t.
  pose proof Hs as (_&Hst&_). pose proof Hg as Hg'. apply (sget_in _ _ _ Hst) in Hg'.
  destruct (Ht _ _ Hg') as (_&Hsl&Hlo&_). rewrite R1, R2. repeat split; auto.
Qed.

Lemma stat_groups_spec au ou duel heads : forall st,
  big_inv st -> sigs_ok st -> (forall r, In r duel -> exists k, In (k, r) (s_res st)) ->
  NoDup (map gk heads) -> (forall h, In h heads -> In h duel) ->
  forall K t, sget (s_tasks st) K = Some t ->
  exists t', sget (s_tasks (stat_groups st au ou duel heads)) K = Some t' /\
    (t' = t \/ exists h, In h heads /\ K = tkey h /\ stats_of duel t t').
Proof.
  induction heads as [|h rest IH]; intros st Hinv Hsig Hduel Hnd Hsub K t HK; cbn [stat_groups].
  - exists t. split; auto.
  - inversion Hnd as [|? ? Hnotin Hnd']; subst.
    assert (Hsub' : forall x, In x rest -> In x duel) by (intros; apply Hsub; right; auto).
    pose proof (stat_group_inv st au ou (filter (same_group h) duel) Hinv) as Hinv1.
    pose proof (stat_group_frame st au ou (filter (same_group h) duel)) as (_&_&_&Fres&_).
    assert (Hsig1 : sigs_ok (stat_group st au ou (filter (same_group h) duel))).
    { intros k r Hin. rewrite Fres in Hin. eapply Hsig; eauto. }
    assert (Hduel1 : forall r, In r duel -> exists k, In (k, r) (s_res (stat_group st au ou (filter (same_group h) duel)))).
    { intros r Hin. rewrite Fres. auto. }
    destruct (group_stats st au ou h duel Hinv Hsig Hduel) as [E|[tg [tg' (Hg&E&Ga&Gi&Go&Gs&Gn)]]].
    + rewrite E in *. destruct (IH st Hinv Hsig Hduel Hnd' Hsub' K t HK) as [t' [H1 H2]].
      exists t'. split; auto. destruct H2 as [H2|[h2 (A&B&C)]]; [left; auto|right; exists h2; split; [right; exact A|]; split; [exact B|exact C]].
    + destruct (string_dec K (tkey h)) as [HeqK|HneK].
      * (* this group writes the task at K *)
        subst K. unfold tkey in HK. assert (tg = t) by congruence. subst tg.
        assert (HK1 : sget (s_tasks (stat_group st au ou (filter (same_group h) duel))) (tkey h) = Some tg').
        { rewrite E. cbn [s_tasks with_tasks]. apply sget_sset_same. }
        destruct (IH _ Hinv1 Hsig1 Hduel1 Hnd' Hsub' (tkey h) tg' HK1) as [t' [H1 H2]].
        exists t'. split; [exact H1|]. right. exists h. split; [left; reflexivity|]. split; [reflexivity|].
        assert (t' = tg').
        { destruct H2 as [H2|[h2 (A&B&_)]]; [exact H2|]. exfalso. apply Hnotin.
          destruct (Hduel _ (Hsub' _ A)) as [k2 Hk2]. destruct (Hduel _ (Hsub _ (or_introl eq_refl))) as [k1 Hk1].
          destruct (res_key_fields st _ _ Hinv Hk2) as [t2 (_&_&_&Hs2&Hp2)].
          destruct (res_key_fields st _ _ Hinv Hk1) as [t1 (_&_&_&Hs1&Hp1)].
          unfold tkey in B. apply join2_dec_inj in B; auto; try lia. destruct B as [B1 B2].
          apply in_map_iff. exists h2. split; auto. unfold gk. congruence. }
        subst t'. destruct (Hduel _ (Hsub _ (or_introl eq_refl))) as [k1 Hk1].
        destruct (res_key_fields st _ _ Hinv Hk1) as [t1 (Hg1&Ra&Ri&_)].
        unfold tkey in Hg1. assert (t1 = t) by congruence. subst t1.
        split; [exact Ga|]. split; [exact Gi|]. split; [exact Go|]. split; [|exact Gn].
        intro o. rewrite Gs, in_map_iff. split.
        -- intros [r [Ho Hr]]. apply filter_In in Hr. destruct Hr as [Hr Hsame]. apply same_group_fields in Hsame.
           destruct Hsame. exists r. repeat split; auto; congruence.
        -- intros [r (Hr&A&B&Ho)]. exists r. split; auto. apply filter_In. split; auto.
           apply same_group_gk. unfold gk. congruence.
      * (* another key: the task at K is untouched by this group *)
        assert (HK1 : sget (s_tasks (stat_group st au ou (filter (same_group h) duel))) K = Some t).
        { rewrite E. cbn [s_tasks with_tasks]. pose proof (proj1 Hinv) as (_&Hst&_).
          rewrite sget_sset_other; [exact HK | exact Hst | intro X; apply HneK; symmetry; exact X]. }
        destruct (IH _ Hinv1 Hsig1 Hduel1 Hnd' Hsub' K t HK1) as [t' [H1 H2]].
        exists t'. split; auto. destruct H2 as [H2|[h2 (A&B&C)]]; [left; auto|right; exists h2; split; [right; exact A|]; split; [exact B|exact C]].
Qed.

(* one AfterEpochEnd(id, num) call, for every task of the store *)
Lemma hook_stats st au ou id num : big_inv st -> sigs_ok st ->
  forall K t, sget (s_tasks st) K = Some t ->
  exists t', sget (s_tasks (epoch_hook st au ou id num)) K = Some t' /\
    (t' = t \/
     (t_addr t' = t_addr t /\ t_id t' = t_id t /\ t_optin t' = t_optin t /\
      (forall o, In o (t_signed t') <->
         exists k r, In (k, r) (s_res st) /\ due st id num r = true /\ r_task r = t_addr t /\ r_id r = t_id t /\ r_op r = o) /\
      (forall o, In o (t_nosigned t') <-> In o (t_optin t) /\ ~ In o (t_signed t')))).
Proof.
  intros Hinv Hsig K t HK. unfold epoch_hook.
  set (duel := filter (due st id num) (map snd (s_res st))).
  assert (Hduel : forall r, In r duel <-> due st id num r = true /\ exists k, In (k, r) (s_res st)).
  { intro r. unfold duel. rewrite filter_In, in_map_iff. split.
    - intros [[[k r'] [E Hin]] Hd]. simpl in E. subst. split; auto. exists k. auto.
    - intros [Hd [k Hin]]. split; auto. exists (k, r). auto. }
  destruct (group_heads_spec duel []) as (Hnd&Hh&_).
  destruct (stat_groups_spec au ou duel (group_heads duel []) st Hinv Hsig
              (fun r Hr => proj2 (proj1 (Hduel r) Hr)) Hnd (fun h Hin => proj1 (Hh h Hin)) K t HK) as [t' [H1 H2]].
  exists t'. split; [exact H1|]. destruct H2 as [H2|[h (_&_&(A&B&C&D&E))]]; [left; exact H2|right].
  split; [exact A|]. split; [exact B|]. split; [exact C|]. split; [|exact E].
  intro o. rewrite D. split.
  - intros [r (Hr&F1&F2&F3)]. apply Hduel in Hr. destruct Hr as [Hd [k Hin]]. exists k, r. auto.
  - intros [k [r (Hin&Hd&F1&F2&F3)]]. exists r. split; [apply Hduel; split; eauto|auto].
Qed.

(* the same for the OEpochEnd step of one ended epoch, in every state reachable from one satisfying the invariants *)
Lemma epoch_end_stats e st0 ops : forallb op_wf2 ops = true -> big_inv st0 -> sigs_ok st0 ->
  forall id num au ou K t, sget (s_tasks (run e st0 ops)) K = Some t ->
  snd (step e (run e st0 ops) (OEpochEnd [(id, num)] au ou)) = ROk /\
  exists t', sget (s_tasks (fst (step e (run e st0 ops) (OEpochEnd [(id, num)] au ou)))) K = Some t' /\
    (t' = t \/
     (t_addr t' = t_addr t /\ t_id t' = t_id t /\ t_optin t' = t_optin t /\
      (forall o, In o (t_signed t') <->
         exists k r, In (k, r) (s_res (run e st0 ops)) /\ due (run e st0 ops) id num r = true /\
                     r_task r = t_addr t /\ r_id r = t_id t /\ r_op r = o) /\
      (forall o, In o (t_nosigned t') <-> In o (t_optin t) /\ ~ In o (t_signed t')))).
Proof.
  intros Hwf Hinv Hsig id num au ou K t HK. split; [reflexivity|].
  assert (Hinv' : big_inv (run e st0 ops)) by (apply run_big_inv; auto).
  assert (Hsig' : sigs_ok (run e st0 ops)) by (apply run_sigs_ok; [exact (proj1 Hinv) | exact Hsig]).
  cbn [step fst epoch_ends s_tasks with_epochs].
  exact (hook_stats (run e st0 ops) au ou id num Hinv' Hsig' K t HK).
Qed.

(* every stored result belongs to an operator of its task's opt-in snapshot, in every reachable state *)
Lemma results_in_snapshot e st0 ops : forallb op_wf2 ops = true -> big_inv st0 ->
  forall k r, In (k, r) (s_res (run e st0 ops)) ->
  exists t, sget (s_tasks (run e st0 ops)) (join2 (r_task r) (dec_str (r_id r))) = Some t /\
            r_task r = t_addr t /\ r_id r = t_id t /\ In (r_op r) (t_optin t).
Proof.
  intros Hwf Hinv k r Hin. destruct (run_big_inv e ops st0 Hwf Hinv) as (_&_&_&Hr).
  destruct (Hr _ _ Hin) as [t (A&B&C&D)]. exists t. repeat split; auto. apply mem_in. exact D.
Qed.

(* tasks are stored under their own key and are never overwritten: ids of a contract never exceed its counter *)
Lemma tasks_keyed e st0 ops : forallb op_wf2 ops = true -> big_inv st0 ->
  forall k t, In (k, t) (s_tasks (run e st0 ops)) ->
  k = join2 (t_addr t) (dec_str (t_id t)) /\ 1 <= t_id t <= num_at (run e st0 ops) (addr_key (t_addr t)).
Proof.
  intros Hwf Hinv k t Hin. destruct (run_big_inv e ops st0 Hwf Hinv) as (_&_&Ht&_).
  destruct (Ht _ _ Hin) as (A&_&B). auto.
Qed.

Lemma sigs_ok_empty eps : sigs_ok (empty_state eps).
Proof. intros k r Hin. simpl in Hin. contradiction. Qed.

(* non-vacuity of the statistics theorem: on the regression history the hypotheses hold and the hook really writes
   statistics (signer op1, no non-signer) *)
Lemma stats_nonvacuous :
  forallb op_wf2 w_ops_b = true /\ forallb op_wf w_ops_b = true /\
  match sget (s_tasks (run w_env w_st0 w_ops_b)) "0xT/1" with
  | Some t => t_signed t = ["op1"%string] /\ t_nosigned t = [] /\ t_optin t = ["op1"%string]
  | None => False
  end.
Proof. vm_compute. repeat split; reflexivity. Qed.

(* ---- refinement: WHEN a task is left untouched ---- *)

Lemma stat_group_cases2 st au ou ms :
  (stat_group st au ou ms = st /\
   (filter has_sig (sort_by r_op ms) = [] \/
    exists r0, In r0 ms /\ (sget (s_tasks st) (tkey r0) = None \/ assoc au (by_task_addr (s_avs st) (r_task r0)) = None))) \/
  exists r0 t t', In r0 (filter has_sig (sort_by r_op ms)) /\
    sget (s_tasks st) (join2 (r_task r0) (dec_str (r_id r0))) = Some t /\
    stat_group st au ou ms = with_tasks st (sset (s_tasks st) (join2 (t_addr t) (dec_str (t_id t))) t') /\
    t_addr t' = t_addr t /\ t_id t' = t_id t /\ t_optin t' = t_optin t /\
    t_signed t' = map r_op (filter has_sig (sort_by r_op ms)) /\
    t_nosigned t' = difference (t_optin t) (t_signed t').
Proof.
  unfold stat_group, tkey.
  destruct (filter has_sig (sort_by r_op ms)) as [|r0 rest] eqn:Ef; [left; split; [reflexivity|left; reflexivity]|].
  assert (Hr0 : In r0 ms).
  { assert (In r0 (filter has_sig (sort_by r_op ms))) as H by (rewrite Ef; left; auto).
    apply filter_In in H. destruct H as [H _]. apply in_sort_by in H. exact H. }
  destruct (sget (s_tasks st) _) as [t|] eqn:Et; [|left; split; [reflexivity|right; exists r0; auto]].
  destruct (assoc au _) as [total|] eqn:Ea; [|left; split; [reflexivity|right; exists r0; auto]].
  right. exists r0, t. eexists. split; [left; reflexivity|]. split; [exact Et|]. repeat split; reflexivity.
Qed.

Lemma group_stats2 st au ou h duel : big_inv st -> sigs_ok st ->
  (forall r, In r duel -> exists k, In (k, r) (s_res st)) -> In h duel ->
  (stat_group st au ou (filter (same_group h) duel) = st /\ assoc au (by_task_addr (s_avs st) (r_task h)) = None) \/
  exists t t', sget (s_tasks st) (join2 (r_task h) (dec_str (r_id h))) = Some t /\
    stat_group st au ou (filter (same_group h) duel)
      = with_tasks st (sset (s_tasks st) (join2 (r_task h) (dec_str (r_id h))) t') /\
    t_addr t' = t_addr t /\ t_id t' = t_id t /\ t_optin t' = t_optin t /\
    (forall o, In o (t_signed t') <-> In o (map r_op (filter (same_group h) duel))) /\
    (forall o, In o (t_nosigned t') <-> In o (t_optin t) /\ ~ In o (t_signed t')).
Proof.
  intros Hinv Hsig Hduel Hh. set (ms := filter (same_group h) duel).
  assert (Hms : forall r, In r ms -> same_group h r = true /\ exists k, In (k, r) (s_res st)).
  { intros r Hin. apply filter_In in Hin. destruct Hin; split; auto. }
  assert (Hhm : In h ms) by (apply filter_In; split; auto; apply same_group_gk; reflexivity).
  assert (Hall : forall r, In r ms -> sig_ok r = true).
  { intros r Hin. destruct (Hms _ Hin) as [_ [k Hk]]. eapply Hsig; eauto. }
  destruct (signers_all ms Hall) as [Efil Hiff].
  destruct (stat_group_cases2 st au ou ms) as [[E [Hnil|[r0 [Hr0 [Hnone|Hnone]]]]]|[r0 [t [t' (Hr0&Hg&E&Ha&Hi&Ho&Hsg&Hns)]]]].
  - exfalso. rewrite Efil in Hnil.
    assert (In h (sort_by r_op ms)) as H by (apply in_sort_by; exact Hhm). rewrite Hnil in H. contradiction.
  - exfalso. destruct (Hms _ Hr0) as [_ [k Hk]]. destruct (res_key_fields st _ _ Hinv Hk) as [t (Hg&_)]. congruence.
  - left. split; [exact E|]. destruct (Hms _ Hr0) as [Hs _]. destruct (same_group_fields _ _ Hs) as [F _].
    rewrite <- F. exact Hnone.
  - right. destruct Hinv as (Hs&Hn&Ht&Hr). pose proof Hs as (_&Hst&_).
    apply filter_In in Hr0. destruct Hr0 as [Hr0 _]. apply in_sort_by in Hr0.
    destruct (Hms _ Hr0) as [Hsame0 _]. destruct (same_group_fields _ _ Hsame0) as [F1 F2].
    rewrite F1, F2 in Hg.
    destruct (lookup_task_fields st _ _ t Hst Ht Hg) as [Hta Hti].
    exists t, t'. split; [exact Hg|]. split; [rewrite Hta, Hti; exact E|].
    split; [exact Ha|]. split; [exact Hi|]. split; [exact Ho|].
    split; [intro o; rewrite Hsg; apply Hiff|].
    intro o. rewrite Hns. apply nosigned_when_signers_opted.
    intros s Hs0. rewrite Hsg in Hs0. apply Hiff in Hs0. apply in_map_iff in Hs0. destruct Hs0 as [r [Hop Hin]].
    destruct (Hms _ Hin) as [Hsame [k Hk]]. destruct (same_group_fields _ _ Hsame) as [G1 G2].
    destruct (Hr _ _ Hk) as [tr (Hgr&_&_&Hmem)]. rewrite G1, G2 in Hgr.
    assert (tr = t) by congruence. subst tr s. apply mem_in. exact Hmem.
Qed.

Lemma stat_groups_spec2 au ou duel heads : forall st,
  big_inv st -> sigs_ok st -> (forall r, In r duel -> exists k, In (k, r) (s_res st)) ->
  NoDup (map gk heads) -> (forall h, In h heads -> In h duel) ->
  forall K t, sget (s_tasks st) K = Some t ->
  exists t', sget (s_tasks (stat_groups st au ou duel heads)) K = Some t' /\
    ((t' = t /\ ((forall h, In h heads -> K <> tkey h) \/ assoc au (by_task_addr (s_avs st) (t_addr t)) = None)) \/
     exists h, In h heads /\ K = tkey h /\ stats_of duel t t').
Proof.
  induction heads as [|h rest IH]; intros st Hinv Hsig Hduel Hnd Hsub K t HK; cbn [stat_groups].
  - exists t. split; [exact HK|]. left. split; [reflexivity|]. left. intros h [].
  - inversion Hnd as [|? ? Hnotin Hnd']; subst.
    assert (Hsub' : forall x, In x rest -> In x duel) by (intros; apply Hsub; right; auto).
    assert (Hhd : In h duel) by (apply Hsub; left; reflexivity).
    pose proof (stat_group_inv st au ou (filter (same_group h) duel) Hinv) as Hinv1.
    pose proof (stat_group_frame st au ou (filter (same_group h) duel)) as (Favs&_&_&Fres&_).
    assert (Hsig1 : sigs_ok (stat_group st au ou (filter (same_group h) duel))).
    { intros k r Hin. rewrite Fres in Hin. eapply Hsig; eauto. }
    assert (Hduel1 : forall r, In r duel -> exists k, In (k, r) (s_res (stat_group st au ou (filter (same_group h) duel)))).
    { intros r Hin. rewrite Fres. auto. }
    pose proof (proj1 Hinv) as (_&Hst&_).
    destruct (Hduel _ Hhd) as [k1 Hk1]. destruct (res_key_fields st _ _ Hinv Hk1) as [t1 (Hg1&Ra&Ri&Hs1&Hp1)].
    destruct (group_stats2 st au ou h duel Hinv Hsig Hduel Hhd) as [[E Hnone]|[tg [tg' (Hg&E&Ga&Gi&Go&Gs&Gn)]]].
    + rewrite E in *. destruct (IH st Hinv Hsig Hduel Hnd' Hsub' K t HK) as [t' [H1 H2]].
      exists t'. split; auto. destruct H2 as [[H2 H3]|[h2 (A&B&C)]];
        [|right; exists h2; split; [right; exact A|]; split; [exact B|exact C]].
      left. split; auto.
      destruct (string_dec K (tkey h)) as [HeqK|HneK].
      * right. subst K. assert (t1 = t) by congruence. subst t1. rewrite <- Ra. exact Hnone.
      * destruct H3 as [H3|H3]; [left|right; exact H3]. intros h' [<-|Hh']; auto.
    + destruct (string_dec K (tkey h)) as [HeqK|HneK].
      * subst K. unfold tkey in HK. assert (tg = t) by congruence. subst tg.
        assert (HK1 : sget (s_tasks (stat_group st au ou (filter (same_group h) duel))) (tkey h) = Some tg').
        { rewrite E. cbn [s_tasks with_tasks]. apply sget_sset_same. }
        destruct (IH _ Hinv1 Hsig1 Hduel1 Hnd' Hsub' (tkey h) tg' HK1) as [t' [H1 H2]].
        exists t'. split; [exact H1|]. right. exists h. split; [left; reflexivity|]. split; [reflexivity|].
        assert (t' = tg').
        { destruct H2 as [[H2 _]|[h2 (A&B&_)]]; [exact H2|]. exfalso. apply Hnotin.
          destruct (Hduel _ (Hsub' _ A)) as [k2 Hk2].
          destruct (res_key_fields st _ _ Hinv Hk2) as [t2 (_&_&_&Hs2&Hp2)].
          unfold tkey in B. apply join2_dec_inj in B; auto; try lia. destruct B as [B1 B2].
          apply in_map_iff. exists h2. split; auto. unfold gk. congruence. }
        subst t'. unfold tkey in Hg1. assert (t1 = t) by congruence. subst t1.
        split; [exact Ga|]. split; [exact Gi|]. split; [exact Go|]. split; [|exact Gn].
        intro o. rewrite Gs, in_map_iff. split.
        -- intros [r [Ho Hr]]. apply filter_In in Hr. destruct Hr as [Hr Hsame]. apply same_group_fields in Hsame.
           destruct Hsame. exists r. repeat split; auto; congruence.
        -- intros [r (Hr&A&B&Ho)]. exists r. split; auto. apply filter_In. split; auto.
           apply same_group_gk. unfold gk. congruence.
      * assert (HK1 : sget (s_tasks (stat_group st au ou (filter (same_group h) duel))) K = Some t).
        { rewrite E. cbn [s_tasks with_tasks].
          rewrite sget_sset_other; [exact HK | exact Hst | intro X; apply HneK; symmetry; exact X]. }
        destruct (IH _ Hinv1 Hsig1 Hduel1 Hnd' Hsub' K t HK1) as [t' [H1 H2]].
        exists t'. split; auto. destruct H2 as [[H2 H3]|[h2 (A&B&C)]];
          [|right; exists h2; split; [right; exact A|]; split; [exact B|exact C]].
        left. split; auto. rewrite Favs in H3.
        destruct H3 as [H3|H3]; [left|right; exact H3]. intros h' [<-|Hh']; auto.
Qed.

(* one AfterEpochEnd(id, num) call, for every task of the store, with the exact condition for "untouched" *)
Lemma hook_stats2 st au ou id num : big_inv st -> sigs_ok st ->
  forall K t, sget (s_tasks st) K = Some t ->
  exists t', sget (s_tasks (epoch_hook st au ou id num)) K = Some t' /\
    ((t' = t /\
      ((forall k r, In (k, r) (s_res st) -> due st id num r = true -> r_task r = t_addr t -> r_id r = t_id t -> False) \/
       assoc au (by_task_addr (s_avs st) (t_addr t)) = None)) \/
     (t_addr t' = t_addr t /\ t_id t' = t_id t /\ t_optin t' = t_optin t /\
      (forall o, In o (t_signed t') <->
         exists k r, In (k, r) (s_res st) /\ due st id num r = true /\ r_task r = t_addr t /\ r_id r = t_id t /\ r_op r = o) /\
      (forall o, In o (t_nosigned t') <-> In o (t_optin t) /\ ~ In o (t_signed t')))).
Proof.
  intros Hinv Hsig K t HK. unfold epoch_hook.
  set (duel := filter (due st id num) (map snd (s_res st))).
  assert (Hduel : forall r, In r duel <-> due st id num r = true /\ exists k, In (k, r) (s_res st)).
  { intro r. unfold duel. rewrite filter_In, in_map_iff. split.
    - intros [[[k r'] [E Hin]] Hd]. simpl in E. subst. split; auto. exists k. auto.
    - intros [Hd [k Hin]]. split; auto. exists (k, r). auto. }
  destruct (group_heads_spec duel []) as (Hnd&Hh&Hcov).
  destruct (stat_groups_spec2 au ou duel (group_heads duel []) st Hinv Hsig
              (fun r Hr => proj2 (proj1 (Hduel r) Hr)) Hnd (fun h Hin => proj1 (Hh h Hin)) K t HK) as [t' [H1 H2]].
  exists t'. split; [exact H1|]. destruct H2 as [[H2 H3]|[h (_&_&(A&B&C&D&E))]].
  - left. split; [exact H2|]. destruct H3 as [H3|H3]; [left|right; exact H3].
    intros k r Hin Hd F1 F2.
    assert (Hr : In r duel) by (apply Hduel; split; eauto).
    destruct (Hcov r Hr) as [Hc|Hc]; [simpl in Hc; contradiction|].
    apply in_map_iff in Hc. destruct Hc as [h [Hg Hhin]]. apply (H3 h Hhin).
    pose proof (proj1 Hinv) as (_&Hst&_). destruct Hinv as (_&_&Ht&_).
    apply (sget_in _ _ _ Hst) in HK. destruct (Ht _ _ HK) as (Hk&_).
    unfold tkey. unfold gk in Hg. inversion Hg as [[G1 G2]]. rewrite Hk, G1, G2, F1, F2. reflexivity.
  - right. split; [exact A|]. split; [exact B|]. split; [exact C|]. split; [|exact E].
    intro o. rewrite D. split.
    + intros [r (Hr&F1&F2&F3)]. apply Hduel in Hr. destruct Hr as [Hd [k Hin]]. exists k, r. auto.
    + intros [k [r (Hin&Hd&F1&F2&F3)]]. exists r. split; [apply Hduel; split; eauto|auto].
Qed.

Lemma epoch_end_stats2 e st0 ops : forallb op_wf2 ops = true -> big_inv st0 -> sigs_ok st0 ->
  forall id num au ou K t, sget (s_tasks (run e st0 ops)) K = Some t ->
  snd (step e (run e st0 ops) (OEpochEnd [(id, num)] au ou)) = ROk /\
  exists t', sget (s_tasks (fst (step e (run e st0 ops) (OEpochEnd [(id, num)] au ou)))) K = Some t' /\
    ((t' = t /\
      ((forall k r, In (k, r) (s_res (run e st0 ops)) -> due (run e st0 ops) id num r = true ->
                    r_task r = t_addr t -> r_id r = t_id t -> False) \/
       assoc au (by_task_addr (s_avs (run e st0 ops)) (t_addr t)) = None)) \/
     (t_addr t' = t_addr t /\ t_id t' = t_id t /\ t_optin t' = t_optin t /\
      (forall o, In o (t_signed t') <->
         exists k r, In (k, r) (s_res (run e st0 ops)) /\ due (run e st0 ops) id num r = true /\
                     r_task r = t_addr t /\ r_id r = t_id t /\ r_op r = o) /\
      (forall o, In o (t_nosigned t') <-> In o (t_optin t) /\ ~ In o (t_signed t')))).
Proof.
  intros Hwf Hinv Hsig id num au ou K t HK. split; [reflexivity|].
  assert (Hinv' : big_inv (run e st0 ops)) by (apply run_big_inv; auto).
  assert (Hsig' : sigs_ok (run e st0 ops)) by (apply run_sigs_ok; [exact (proj1 Hinv) | exact Hsig]).
  cbn [step fst epoch_ends s_tasks with_epochs].
  exact (hook_stats2 (run e st0 ops) au ou id num Hinv' Hsig' K t HK).
Qed.

(* ---- the self USD value: the code's truncating closed form never over-states the exact rational value ---- *)
Lemma usd_trunc_sound amount price d m : 0 <= amount -> 0 <= price -> 0 <= d ->
  m * P <= usd_trunc amount price d -> m * 10 ^ d <= amount * price.
Proof.
  intros Ha Hp Hd H. unfold usd_trunc in H.
  assert (HT : 0 < 10 ^ d) by (apply Z.pow_pos_nonneg; lia).
  assert (HP : 0 < P) by apply P_pos.
  rewrite Z.quot_div_nonneg in H by nia.
  assert (H2 : 10 ^ d * (amount * price * P / 10 ^ d) <= amount * price * P) by (apply Z.mul_div_le; lia).
  nia.
Qed.

(* and it is within one unit of the 18th decimal of it: floor *)
Lemma usd_trunc_floor amount price d : 0 <= amount -> 0 <= price -> 0 <= d ->
  usd_trunc amount price d * 10 ^ d <= amount * price * P < (usd_trunc amount price d + 1) * 10 ^ d.
Proof.
  intros Ha Hp Hd. unfold usd_trunc.
  assert (HT : 0 < 10 ^ d) by (apply Z.pow_pos_nonneg; lia).
  assert (HP : 0 < P) by apply P_pos.
  rewrite Z.quot_div_nonneg by nia.
  pose proof (Z.div_mod (amount * price * P) (10 ^ d)) as E.
  pose proof (Z.mod_pos_bound (amount * price * P) (10 ^ d) HT). nia.
Qed.
