(* C20/Keys.v — the string encodings of store keys are injective: strconv.FormatUint as transcribed by [dec_str]
   (N -> decimal string), and GetJoinedStoreKey(addr, dec id) for slash-free addresses. *)
From Coq Require Import List String Ascii Bool ZArith NArith Lia.
From Exo Require Import Base.Store Base.Util C20.Model.
Import ListNotations.
Local Open Scope N_scope.

(* value of a decimal string, read left to right *)
Definition digit_val (c : ascii) : N := N_of_ascii c - 48.

Fixpoint str_val (s : string) (a : N) : N :=
  match s with
  | EmptyString => a
  | String c r => str_val r (10 * a + digit_val c)
  end.

Lemma digit_val_digit d : d < 10 -> digit_val (ascii_of_N (48 + d)) = d.
Proof. intro H. unfold digit_val. rewrite N_ascii_embedding by lia. lia. Qed.

Definition slash : ascii := "/"%char.

Fixpoint no_slash (s : string) : bool :=
  match s with
  | EmptyString => true
  | String c r => negb (Ascii.eqb c slash) && no_slash r
  end.

Lemma digit_not_slash d : d < 10 -> Ascii.eqb (ascii_of_N (48 + d)) slash = false.
Proof.
  intro H. destruct (Ascii.eqb (ascii_of_N (48 + d)) slash) eqn:E; auto.
  apply Ascii.eqb_eq in E. apply (f_equal N_of_ascii) in E. rewrite N_ascii_embedding in E by lia.
  change (N_of_ascii slash) with 47 in E. lia.
Qed.

Lemma dec_digits_spec f : forall n accs, n < 10 ^ N.of_nat f ->
  (exists L, forall a, str_val (dec_digits f n accs) a = str_val accs (a * 10 ^ L + n)) /\
  (no_slash accs = true -> no_slash (dec_digits f n accs) = true).
Proof.
  induction f as [|f IH]; intros n accs Hn.
  - simpl in Hn. assert (n = 0) by lia. subst. simpl. split; [exists 0; intro a; f_equal; lia | auto].
  - cbn [dec_digits].
    assert (Hd : n mod 10 < 10) by (apply N.mod_lt; lia).
    destruct (N.eqb (n / 10) 0) eqn:E.
    + apply N.eqb_eq in E. assert (n = n mod 10) by (pose proof (N.div_mod n 10); lia).
      split.
      * exists 1. intro a. cbn [str_val]. rewrite digit_val_digit by exact Hd. f_equal. lia.
      * intro Ha. cbn [no_slash]. rewrite digit_not_slash by exact Hd. exact Ha.
    + assert (Hq : n / 10 < 10 ^ N.of_nat f).
      { apply N.div_lt_upper_bound; [lia|]. rewrite Nat2N.inj_succ, N.pow_succ_r' in Hn. exact Hn. }
      destruct (IH (n / 10) (String (ascii_of_N (48 + n mod 10)) accs) Hq) as [[L HL] Hns].
      split.
      * exists (L + 1). intro a. rewrite HL. cbn [str_val]. rewrite digit_val_digit by exact Hd. f_equal.
        rewrite N.pow_add_r. pose proof (N.div_mod n 10). lia.
      * intro Ha. apply Hns. cbn [no_slash]. rewrite digit_not_slash by exact Hd. exact Ha.
Qed.

Lemma fuel_enough n : n < 10 ^ N.of_nat (S (N.to_nat (N.log2 n))).
Proof.
  rewrite Nat2N.inj_succ, N2Nat.id.
  destruct (N.eq_dec n 0) as [->|Hz]; [simpl; lia|].
  assert (0 < n) by lia.
  pose proof (N.log2_spec n H) as [_ Hlt].
  eapply N.lt_le_trans; [exact Hlt|].
  apply N.pow_le_mono_l. lia.
Qed.

Local Open Scope Z_scope.

Lemma dec_str_val z : str_val (dec_str z) 0%N = Z.to_N z.
Proof.
  unfold dec_str. destruct (dec_digits_spec _ (Z.to_N z) EmptyString (fuel_enough (Z.to_N z))) as [[L HL] _].
  rewrite HL. simpl. lia.
Qed.

Lemma dec_str_inj x y : 0 <= x -> 0 <= y -> dec_str x = dec_str y -> x = y.
Proof.
  intros Hx Hy E. apply (f_equal (fun s => str_val s 0%N)) in E. rewrite !dec_str_val in E.
  apply Z2N.inj; auto.
Qed.

Lemma dec_str_no_slash z : no_slash (dec_str z) = true.
Proof.
  unfold dec_str. destruct (dec_digits_spec _ (Z.to_N z) EmptyString (fuel_enough (Z.to_N z))) as [_ H].
  apply H. reflexivity.
Qed.

(* number of slashes *)
Fixpoint nsl (s : string) : nat :=
  match s with
  | EmptyString => O
  | String c r => (if Ascii.eqb c slash then 1 else 0) + nsl r
  end%nat.

Lemma nsl_app a b : nsl (a ++ b) = (nsl a + nsl b)%nat.
Proof. induction a as [|c r IH]; simpl; auto. rewrite IH. lia. Qed.

Lemma no_slash_nsl s : no_slash s = true <-> nsl s = O.
Proof.
  induction s as [|c r IH]; simpl; [tauto|].
  destruct (Ascii.eqb c slash); simpl; [split; [discriminate|lia]|exact IH].
Qed.

Lemma app_assoc_s (a b c : string) : ((a ++ b) ++ c = a ++ (b ++ c))%string.
Proof. induction a as [|x r IH]; simpl; auto. rewrite IH. reflexivity. Qed.

Lemma app_nil_r_s (a : string) : (a ++ "" = a)%string.
Proof. induction a as [|x r IH]; simpl; auto. rewrite IH. reflexivity. Qed.

Lemma split_join a r : forall acc, no_slash a = true ->
  split_at_slash (a ++ String slash r) acc = ((acc ++ a)%string, r).
Proof.
  induction a as [|c a IH]; intros acc Ha.
  - simpl. unfold slash. simpl. rewrite app_nil_r_s. reflexivity.
  - simpl in Ha. apply andb_prop in Ha. destruct Ha as [Hc Ha]. apply negb_true_iff in Hc.
    cbn [append split_at_slash]. unfold slash in Hc. rewrite Hc. rewrite IH by exact Ha.
    f_equal. rewrite app_assoc_s. reflexivity.
Qed.

(* GetJoinedStoreKey(addr, dec id): injective as soon as ONE of the two addresses is slash-free *)
Lemma join2_dec_inj a b x y : no_slash b = true -> 0 <= x -> 0 <= y ->
  join2 a (dec_str x) = join2 b (dec_str y) -> a = b /\ x = y.
Proof.
  intros Hb Hx Hy E. unfold join2 in E.
  assert (Ha : no_slash a = true).
  { apply no_slash_nsl. apply (f_equal nsl) in E. rewrite !nsl_app in E.
    pose proof (proj1 (no_slash_nsl _) (dec_str_no_slash x)). pose proof (proj1 (no_slash_nsl _) (dec_str_no_slash y)).
    pose proof (proj1 (no_slash_nsl _) Hb). simpl in E. lia. }
  change (a ++ "/" ++ dec_str x)%string with (a ++ String slash (dec_str x))%string in E.
  change (b ++ "/" ++ dec_str y)%string with (b ++ String slash (dec_str y))%string in E.
  apply (f_equal (fun s => split_at_slash s "")) in E.
  rewrite !split_join in E by assumption. simpl in E. inversion E. split; auto. apply dec_str_inj; auto.
Qed.
