(* C20/Proofs.v — lemmas about the model of C20/Model.v: store facts, the registry invariant over all histories,
   key-sortedness of every store, task-identifier sequences, the accept <-> condition characterisations of
   phase one / phase two / challenge, the epoch-hook statistics, and the computed refutation witnesses. *)
From Coq Require Import List String Ascii Bool ZArith Lia.
From Exo Require Import Base.Store Base.Util Base.IntDec C20.Model.
Import ListNotations.
Local Open Scope Z_scope.

Local Opaque dec_str.

(* ---------- generic store facts ---------- *)

Lemma in_sset {V} (s : store V) k v k' v' : sorted s ->
  In (k', v') (sset s k v) -> (k' = k /\ v' = v) \/ (k' <> k /\ In (k', v') s).
Proof.
  intros Hs Hin. pose proof (sset_sorted s k v Hs) as Hs'.
  apply (sget_in _ _ _ Hs') in Hin.
  destruct (string_dec k' k) as [->|Hne].
  - rewrite sget_sset_same in Hin. inversion Hin. auto.
  - right. split; auto. rewrite sget_sset_other in Hin by auto. apply (sget_in _ _ _ Hs). exact Hin.
Qed.

Lemma in_sset_new {V} (s : store V) k v : sorted s -> In (k, v) (sset s k v).
Proof. intro Hs. apply (sget_in _ _ _ (sset_sorted s k v Hs)). apply sget_sset_same. Qed.

Lemma in_sset_old {V} (s : store V) k v k' v' : sorted s -> k' <> k -> In (k', v') s -> In (k', v') (sset s k v).
Proof.
  intros Hs Hne Hin. apply (sget_in _ _ _ (sset_sorted s k v Hs)).
  rewrite sget_sset_other by auto. apply (sget_in _ _ _ Hs). exact Hin.
Qed.

Lemma in_sdel {V} (s : store V) k k' v' : sorted s -> In (k', v') (sdel s k) -> k' <> k /\ In (k', v') s.
Proof.
  intros Hs Hin. apply (sget_in _ _ _ (sdel_sorted s k Hs)) in Hin.
  destruct (string_dec k' k) as [->|Hne].
  - rewrite sget_sdel_same in Hin by auto. discriminate.
  - split; auto. rewrite sget_sdel_other in Hin by auto. apply (sget_in _ _ _ Hs). exact Hin.
Qed.

Lemma in_unique {V} (s : store V) k v v' : sorted s -> In (k, v) s -> In (k, v') s -> v = v'.
Proof. intros Hs H1 H2. apply (sget_in _ _ _ Hs) in H1. apply (sget_in _ _ _ Hs) in H2. congruence. Qed.

Lemma eqb_neq_false a b : a <> b -> String.eqb a b = false.
Proof. intro H. destruct (String.eqb a b) eqn:E; auto. apply String.eqb_eq in E. contradiction. Qed.

Lemma assoc_none_notin {A} (l : list (string * A)) k : (forall x, In x (map fst l) -> x <> k) -> assoc l k = None.
Proof.
  induction l as [|[k' v] r IH]; simpl; intro H; auto.
  rewrite eqb_neq_false. apply IH. intros x Hx. apply H. auto.
  intro E. apply (H k'); auto.
Qed.

(* on a sorted store the linear lookup used by the monitors is the store lookup *)
Lemma sget_assoc {V} (s : store V) k : sorted s -> sget s k = assoc s k.
Proof.
  induction s as [|[k' v] r IH]; simpl; intro Hs; auto.
  pose proof (sorted_head _ _ _ Hs) as Hf. rewrite Forall_forall in Hf.
  destruct (scmp k k') eqn:E.
  - apply scmp_eq in E. subst. rewrite String.eqb_refl. reflexivity.
  - apply scmp_lt in E. rewrite eqb_neq_false.
    + symmetry. apply assoc_none_notin. intros x Hx Heq. subst x.
      apply (slt_irrefl k). eapply slt_trans; [exact E|]. apply Hf. exact Hx.
    + intro Heq; subst. eapply slt_irrefl; eauto.
  - apply scmp_gt in E. rewrite eqb_neq_false.
    + apply IH. eapply sorted_tail; eauto.
    + intro Heq; subst. eapply slt_irrefl; eauto.
Qed.

(* ---------- registry invariant ---------- *)

Definition reg_inv (avs : store avs_info) : Prop :=
  sorted avs /\
  (forall k a, In (k, a) avs -> addr_key (a_addr a) = k /\ a_addr a <> ""%string) /\
  (forall k1 a1 k2 a2, In (k1, a1) avs -> In (k2, a2) avs -> a_task a1 = a_task a2 -> a_task a1 <> ""%string -> k1 = k2).

Definition op_wf (o : op) : bool :=
  match o with
  | ORegister _ addr _ _ _ | OUpdate _ addr _ _ _ => negb (String.eqb addr "")
  | _ => true
  end.

Lemma find_by_task_none avs t : t <> ""%string -> find_by_task avs t = None ->
  forall k a, In (k, a) avs -> a_task a <> t.
Proof.
  unfold find_by_task. intros Ht H k a Hin.
  rewrite (eqb_neq_false _ _ Ht) in H.
  destruct (find _ avs) as [kv|] eqn:E; [discriminate|].
  pose proof (find_none _ _ E (k, a) Hin) as Hf. simpl in Hf.
  intro Heq. subst t. rewrite String.eqb_refl in Hf. discriminate.
Qed.

Lemma find_by_task_some avs t b : find_by_task avs t = Some b ->
  t <> ""%string /\ a_task b = t /\ exists k, In (k, b) avs.
Proof.
  unfold find_by_task. intro H.
  destruct (String.eqb t "") eqn:Et; [discriminate|].
  destruct (find _ avs) as [[k b']|] eqn:E; [|discriminate].
  inversion H; subst. apply find_some in E. destruct E as [Hin Hf]. simpl in *.
  apply String.eqb_eq in Hf. split; [|split; [auto | exists k; auto]].
  intro Hz. rewrite Hz in Et. simpl in Et. discriminate.
Qed.

Lemma by_task_addr_empty avs t : reg_inv avs -> t <> ""%string -> by_task_addr avs t = ""%string ->
  forall k a, In (k, a) avs -> a_task a <> t.
Proof.
  intros [Hs [Hk Hu]] Ht H. unfold by_task_addr in H.
  destruct (find_by_task avs t) as [b|] eqn:E.
  - apply find_by_task_some in E. destruct E as [_ [_ [k Hin]]].
    destruct (Hk _ _ Hin) as [_ Hne]. contradiction.
  - apply find_by_task_none; auto.
Qed.

Lemma reg_inv_set_fresh avs key a :
  reg_inv avs -> addr_key (a_addr a) = key -> a_addr a <> ""%string ->
  (a_task a = ""%string \/ forall k b, In (k, b) avs -> k <> key -> a_task b <> a_task a) ->
  reg_inv (sset avs key a).
Proof.
  intros [Hs [Hk Hu]] Hkey Hne Hfresh. split; [apply sset_sorted; auto|]. split.
  - intros k b Hin. apply in_sset in Hin; auto. destruct Hin as [[-> ->]|[_ Hin]]; auto.
  - intros k1 a1 k2 a2 H1 H2 Heq Hnz.
    apply in_sset in H1; auto. apply in_sset in H2; auto.
    destruct H1 as [[-> ->]|[Hn1 H1]]; destruct H2 as [[-> ->]|[Hn2 H2]]; auto.
    + destruct Hfresh as [Hf|Hf]; [contradiction|]. exfalso. apply (Hf _ _ H2 Hn2). auto.
    + destruct Hfresh as [Hf|Hf]; [congruence|]. exfalso. apply (Hf _ _ H1 Hn1). auto.
    + eapply Hu; eauto.
Qed.

Lemma keeper_register_inv e st addr p :
  reg_inv (s_avs st) -> addr <> ""%string -> reg_inv (s_avs (fst (keeper_register e st addr p))).
Proof.
  intros Hinv Haddr. unfold keeper_register.
  destruct (epoch_cur st _); [|exact Hinv].
  destruct (sget (s_avs st) (addr_key addr)) eqn:Eold; [exact Hinv|].
  destruct (String.eqb (by_task_addr (s_avs st) (p_task p)) "") eqn:Et; simpl; [|exact Hinv].
  destruct (assets_ok e (p_assets p)); simpl; [|exact Hinv].
  apply reg_inv_set_fresh; auto.
  simpl. destruct (string_dec (p_task p) "") as [Hz|Hnz]; [left; auto|right].
  intros k b Hin _. apply String.eqb_eq in Et. eapply by_task_addr_empty; eauto.
Qed.

Lemma keeper_update_inv e st addr p :
  reg_inv (s_avs st) -> addr <> ""%string -> reg_inv (s_avs (fst (keeper_update e st addr p))).
Proof.
  intros Hinv Haddr. unfold keeper_update.
  destruct (epoch_cur st _); [|exact Hinv].
  destruct (sget (s_avs st) (addr_key addr)) as [a|] eqn:Eold; [|exact Hinv].
  destruct (negb (String.eqb (by_task_addr (s_avs st) (p_task p)) "") &&
            negb (String.eqb (by_task_addr (s_avs st) (p_task p)) (a_addr a))) eqn:Ec; [exact Hinv|].
  destruct (assets_ok e (p_assets p)); cbn [negb]; [|exact Hinv].
  destruct (negb (String.eqb (p_epoch p) "") && _); [exact Hinv|]. cbn [fst s_avs with_avs].
  pose proof Hinv as [Hs [Hk Hu]].
  assert (Ha : In (addr_key addr, a) (s_avs st)) by (apply (sget_in _ _ _ Hs); exact Eold).
  apply reg_inv_set_fresh; auto. simpl.
  destruct (String.eqb (p_task p) "") eqn:Ept.
  - (* task address unchanged *)
    destruct (string_dec (a_task a) "") as [Hz|Hnz]; [left; auto|right].
    intros k b Hin Hne Heq. apply Hne. eapply Hu; eauto. congruence.
  - right. intros k b Hin Hne Heq.
    assert (Hpt : p_task p <> ""%string) by (intro Hz; rewrite Hz in Ept; discriminate).
    apply andb_false_iff in Ec. destruct Ec as [Ec|Ec]; apply negb_false_iff in Ec; apply String.eqb_eq in Ec.
    + eapply by_task_addr_empty; eauto.
    + unfold by_task_addr in Ec. destruct (find_by_task (s_avs st) (p_task p)) as [c|] eqn:Ef.
      * apply find_by_task_some in Ef. destruct Ef as [_ [Hct [kc Hc]]].
        destruct (Hk _ _ Hc) as [Hkc _]. destruct (Hk _ _ Ha) as [Hka _].
        assert (kc = addr_key addr) by congruence. subst kc.
        apply Hne. eapply (Hu k b (addr_key addr) c); eauto; congruence.
      * destruct (Hk _ _ Ha) as [_ Hnz]. congruence.
Qed.

Lemma keeper_deregister_inv st addr cb name :
  reg_inv (s_avs st) -> reg_inv (s_avs (fst (keeper_deregister st addr cb name))).
Proof.
  intros Hinv. unfold keeper_deregister.
  destruct (sget (s_avs st) (addr_key addr)) as [a|]; [|exact Hinv].
  destruct (epoch_cur st _); [|exact Hinv].
  destruct (negb (mem cb (a_owners a))); [exact Hinv|].
  destruct (_ >? _); [exact Hinv|].
  destruct (negb (String.eqb (a_name a) name)); [exact Hinv|]. simpl.
  destruct Hinv as [Hs [Hk Hu]]. split; [apply sdel_sorted; auto|]. split.
  - intros k b Hin. apply in_sdel in Hin; auto. destruct Hin; auto.
  - intros k1 a1 k2 a2 H1 H2. apply in_sdel in H1; auto. apply in_sdel in H2; auto.
    destruct H1, H2. eapply Hu; eauto.
Qed.

(* every other operation leaves the AVS store alone *)
Lemma stat_group_avs st au ou ms : s_avs (stat_group st au ou ms) = s_avs st.
Proof.
  unfold stat_group.
  destruct (filter has_sig (sort_by r_op ms)) as [|r0 rest]; [reflexivity|].
  destruct (sget (s_tasks st) _); [|reflexivity].
  destruct (assoc au _); reflexivity.
Qed.

Lemma stat_groups_avs au ou duel heads : forall st, s_avs (stat_groups st au ou duel heads) = s_avs st.
Proof.
  induction heads as [|h rest IH]; simpl; intro st; [reflexivity|].
  rewrite IH. apply stat_group_avs.
Qed.

Lemma epoch_ends_avs au ou ended : forall st, s_avs (epoch_ends st au ou ended) = s_avs st.
Proof.
  induction ended as [|[id num] rest IH]; simpl; intro st; [reflexivity|].
  rewrite IH. cbn [s_avs with_epochs]. unfold epoch_hook. apply stat_groups_avs.
Qed.

Ltac same_avs Hinv := repeat match goal with
  | |- reg_inv (s_avs (fst (if ?c then _ else _))) => destruct c
  | |- reg_inv (s_avs (fst (match ?c with _ => _ end))) => destruct c
  end; exact Hinv.

Ltac head_if Hinv := repeat match goal with
  | |- reg_inv (s_avs (fst (if ?c then _ else _))) => destruct c; [exact Hinv|]
  | |- reg_inv (s_avs (fst (match ?c with Some _ => _ | None => _ end))) => destruct c; [|exact Hinv]
  end.

Lemma step_reg_inv e st o : reg_inv (s_avs st) -> op_wf o = true -> reg_inv (s_avs (fst (step e st o))).
Proof.
  intros Hinv Hwf. destruct o; cbn [step op_wf] in *.
  - assert (addr <> ""%string) by (intro; subst; discriminate).
    unfold pre_register. head_if Hinv. apply keeper_register_inv; auto.
  - assert (addr <> ""%string) by (intro; subst; discriminate).
    unfold pre_update. head_if Hinv. apply keeper_update_inv; auto.
  - unfold pre_deregister. head_if Hinv. apply keeper_deregister_inv; auto.
  - unfold opt_in. same_avs Hinv.
  - unfold opt_out. same_avs Hinv.
  - unfold create_task. same_avs Hinv.
  - unfold reg_bls. same_avs Hinv.
  - unfold submit. same_avs Hinv.
  - unfold challenge. same_avs Hinv.
  - cbn [fst]. rewrite epoch_ends_avs. exact Hinv.
Qed.

Lemma run_reg_inv e ops : forall st, reg_inv (s_avs st) -> forallb op_wf ops = true -> reg_inv (s_avs (run e st ops)).
Proof.
  unfold run. induction ops as [|o r IH]; simpl; intros st Hinv Hwf; auto.
  apply andb_prop in Hwf. destruct Hwf. apply IH; auto. apply step_reg_inv; auto.
Qed.

Lemma reg_inv_empty : reg_inv [].
Proof. split; [apply sorted_nil|]. split; intros; simpl in *; contradiction. Qed.

(* ---------- every store stays key-sorted ---------- *)

Definition st_sorted (st : state) : Prop :=
  sorted (s_avs st) /\ sorted (s_tasks st) /\ sorted (s_nums st) /\ sorted (s_pubs st) /\
  sorted (s_res st) /\ sorted (s_chals st) /\ sorted (s_opted st).

(* the epoch hook only writes task infos (and the driver the epoch table) *)
Definition frame (st st' : state) : Prop :=
  s_avs st' = s_avs st /\ s_nums st' = s_nums st /\ s_pubs st' = s_pubs st /\ s_res st' = s_res st /\
  s_chals st' = s_chals st /\ s_opted st' = s_opted st /\ (sorted (s_tasks st) -> sorted (s_tasks st')).

Lemma frame_refl st : frame st st.
Proof. repeat split; auto. Qed.

Lemma frame_trans a b c : frame a b -> frame b c -> frame a c.
Proof.
  intros (A1&A2&A3&A4&A5&A6&A7) (B1&B2&B3&B4&B5&B6&B7). repeat split; try congruence. auto.
Qed.

Lemma stat_group_frame st au ou ms : frame st (stat_group st au ou ms).
Proof.
  unfold stat_group.
  destruct (filter has_sig (sort_by r_op ms)) as [|r0 rest]; [apply frame_refl|].
  destruct (sget (s_tasks st) _); [|apply frame_refl].
  destruct (assoc au _); [|apply frame_refl].
  repeat split. intro Hs. apply sset_sorted. exact Hs.
Qed.

Lemma stat_groups_frame au ou duel heads : forall st, frame st (stat_groups st au ou duel heads).
Proof.
  induction heads as [|h rest IH]; simpl; intro st; [apply frame_refl|].
  eapply frame_trans; [apply stat_group_frame | apply IH].
Qed.

Lemma epoch_ends_frame au ou ended : forall st, frame st (epoch_ends st au ou ended).
Proof.
  induction ended as [|[id num] rest IH]; simpl; intro st; [apply frame_refl|].
  eapply frame_trans; [|apply IH].
  pose proof (stat_groups_frame au ou (filter (due st id num) (map snd (s_res st)))
                (group_heads (filter (due st id num) (map snd (s_res st))) []) st) as G.
  unfold epoch_hook. destruct G as (B1&B2&B3&B4&B5&B6&B7). repeat split; auto.
Qed.

Ltac head_sorted H := repeat match goal with
  | |- st_sorted (fst (if ?c then _ else _)) => destruct c
  | |- st_sorted (fst (match ?c with _ => _ end)) => destruct c
  | |- st_sorted (fst (let (_, _) := ?c in _)) => destruct c
  end; try exact H.

Lemma step_sorted e st o : st_sorted st -> st_sorted (fst (step e st o)).
Proof.
  intros H. pose proof H as (H1&H2&H3&H4&H5&H6&H7).
  destruct o; cbn [step].
  - unfold pre_register, keeper_register. head_sorted H. repeat split; auto. apply sset_sorted; auto.
  - unfold pre_update, keeper_update. head_sorted H. repeat split; auto. apply sset_sorted; auto.
  - unfold pre_deregister, keeper_deregister. head_sorted H. repeat split; auto. apply sdel_sorted; auto.
  - unfold opt_in. head_sorted H. repeat split; auto. apply sset_sorted; auto.
  - unfold opt_out. head_sorted H. repeat split; auto. apply sset_sorted; auto.
  - unfold create_task. head_sorted H. repeat split; auto; apply sset_sorted; auto.
  - unfold reg_bls. head_sorted H. repeat split; auto. apply sset_sorted; auto.
  - unfold submit. head_sorted H; repeat split; auto; apply sset_sorted; auto.
  - unfold challenge. head_sorted H; repeat split; auto; apply sset_sorted; auto.
  - pose proof (epoch_ends_frame avs_usd op_usd ended st) as G.
    destruct G as (B1&B2&B3&B4&B5&B6&B7). cbn [fst]. unfold st_sorted. rewrite B1, B2, B3, B4, B5, B6. repeat split; auto.
Qed.

Lemma run_sorted e ops : forall st, st_sorted st -> st_sorted (run e st ops).
Proof.
  unfold run. induction ops as [|o r IH]; simpl; intros st H; auto. apply IH. apply step_sorted; auto.
Qed.

Lemma empty_sorted eps : st_sorted (empty_state eps).
Proof. repeat split; apply sorted_nil. Qed.

(* ---------- task identifiers ---------- *)

Definition num_at (st : state) (k : string) : Z := match sget (s_nums st) k with Some n => n | None => 0 end.

(* the identifier an accepted createTask assigns *)
Definition created (e : env) (st : state) (o : op) : option (string * Z) :=
  match o with
  | OCreateTask task _ _ _ _ _ _ _ _ _ =>
      match snd (step e st o) with ROk => Some (addr_key task, next_task_id st task) | _ => None end
  | _ => None
  end.

Fixpoint id_trace (e : env) (st : state) (ops : list op) : list (string * Z) :=
  match ops with
  | [] => []
  | o :: r => (match created e st o with Some x => [x] | None => [] end) ++ id_trace e (fst (step e st o)) r
  end.

Fixpoint zseq (start : Z) (n : nat) : list Z :=
  match n with O => [] | S m => start :: zseq (start + 1) m end.

Lemma create_task_spec st task caller cb name hash resp chal thr stat au :
  match snd (create_task st task caller cb name hash resp chal thr stat au) with
  | ROk => s_nums (fst (create_task st task caller cb name hash resp chal thr stat au))
             = sset (s_nums st) (addr_key task) (next_task_id st task) /\
           exists t, sget (s_tasks (fst (create_task st task caller cb name hash resp chal thr stat au)))
                          (join2 task (dec_str (next_task_id st task))) = Some t /\
                     t_id t = next_task_id st task /\ t_addr t = task
  | _ => fst (create_task st task caller cb name hash resp chal thr stat au) = st
  end.
Proof.
  unfold create_task.
  destruct (is_zero caller || String.eqb name ""); [reflexivity|].
  destruct (find_by_task (s_avs st) task) as [a|]; [|reflexivity].
  destruct (negb (mem cb (a_owners a))); [reflexivity|].
  destruct (assoc au (a_addr a)) as [v|]; [|reflexivity].
  destruct (v <=? 0); [reflexivity|].
  destruct (epoch_cur st (a_epoch a)) as [cur|]; [|reflexivity].
  destruct (sget (s_tasks st) (join2 task "0")); [reflexivity|].
  cbn [snd fst]. split; [reflexivity|]. eexists. split; [apply sget_sset_same|]. split; reflexivity.
Qed.

Ltac head_nums := repeat match goal with
  | |- s_nums (fst (if ?c then _ else _)) = _ => destruct c
  | |- s_nums (fst (match ?c with _ => _ end)) = _ => destruct c
  end; try reflexivity.

Lemma step_nums e st o :
  match created e st o with
  | Some (k, id) => id = num_at st k + 1 /\ s_nums (fst (step e st o)) = sset (s_nums st) k id
  | None => s_nums (fst (step e st o)) = s_nums st
  end.
Proof.
  destruct o; cbn [created step].
  - unfold pre_register, keeper_register. head_nums.
  - unfold pre_update, keeper_update. head_nums.
  - unfold pre_deregister, keeper_deregister. head_nums.
  - unfold opt_in. head_nums.
  - unfold opt_out. head_nums.
  - pose proof (create_task_spec st task caller caller_b name hash resp chal thr stat avs_usd) as G.
    destruct (snd (create_task st task caller caller_b name hash resp chal thr stat avs_usd));
      try (rewrite G; reflexivity).
    destruct G as [G _]. split; [|exact G].
    unfold next_task_id, num_at. destruct (sget (s_nums st) (addr_key task)); lia.
  - unfold reg_bls. head_nums.
  - unfold submit. head_nums.
  - unfold challenge. head_nums.
  - pose proof (epoch_ends_frame avs_usd op_usd ended st) as G.
    destruct G as (B1&B2&_). exact B2.
Qed.

Lemma num_at_sset st st' k id k' : sorted (s_nums st) -> s_nums st' = sset (s_nums st) k id ->
  num_at st' k' = if String.eqb k' k then id else num_at st k'.
Proof.
  intros Hs E. unfold num_at. rewrite E. destruct (String.eqb k' k) eqn:Ek.
  - apply String.eqb_eq in Ek. subst. rewrite sget_sset_same. reflexivity.
  - rewrite sget_sset_other; auto. intro; subst. rewrite String.eqb_refl in Ek. discriminate.
Qed.

(* identifiers assigned to one task contract along ANY history are consecutive, starting right after the
   contract's counter (1 for a contract that never had a task) *)
Lemma task_ids_consecutive e ops : forall st k, st_sorted st ->
  let ids := map snd (filter (fun x => String.eqb (fst x) k) (id_trace e st ops)) in
  ids = zseq (num_at st k + 1) (List.length ids) /\
  num_at (run e st ops) k = num_at st k + Z.of_nat (List.length ids).
Proof.
  unfold run. induction ops as [|o r IH]; intros st k Hs; [simpl; split; [reflexivity|lia]|].
  cbn [id_trace fold_left].
  pose proof (step_nums e st o) as G.
  pose proof (step_sorted e st o Hs) as Hs'.
  specialize (IH (fst (step e st o)) k Hs'). cbv zeta in IH. destruct IH as [IH1 IH2].
  destruct (created e st o) as [[k0 id]|].
  - destruct G as [Gid Gn]. destruct Hs as (_&_&Hn&_).
    pose proof (num_at_sset st (fst (step e st o)) k0 id k Hn Gn) as Hk.
    cbn [app filter fst]. destruct (String.eqb k0 k) eqn:Ek.
    + apply String.eqb_eq in Ek. subst k0. rewrite String.eqb_refl in Hk.
      cbn [map snd List.length zseq]. rewrite Hk in IH1, IH2. split.
      * rewrite Gid at 1. f_equal. rewrite IH1 at 1. rewrite Gid. reflexivity.
      * rewrite IH2. rewrite Gid. lia.
    + assert (String.eqb k k0 = false) as Ek'.
      { destruct (String.eqb k k0) eqn:E; auto. apply String.eqb_eq in E. subst. rewrite String.eqb_refl in Ek. discriminate. }
      rewrite Ek' in Hk. rewrite Hk in IH1, IH2. split; assumption.
  - cbn [app]. unfold num_at in *. rewrite G in IH1, IH2. split; assumption.
Qed.

Lemma gtb_neg a b : (a >? b) = negb (a <=? b).
Proof. rewrite Z.gtb_ltb. apply Z.ltb_antisym. Qed.

Lemma ltb_neg a b : (a <? b) = negb (b <=? a).
Proof. apply Z.ltb_antisym. Qed.

Ltac bool_cases := repeat match goal with
  | |- context [if ?c then _ else _] => destruct c eqn:?
  | |- context [match ?c with _ => _ end] => destruct c eqn:?
  end.

(* phase one: the model accepts exactly when the property's conjunction holds *)
Lemma submit_phase1_iff e st from fv i pk bls : st_sorted st -> i_stage i = "1"%string ->
  (snd (submit e st from fv (Some i) pk bls) = ROk <-> phase1_cond e st from fv i pk = true).
Proof.
  intros (H1&H2&H3&H4&H5&H6&H7) Hst.
  unfold submit, phase1_cond, common_cond, cur_of, epoch_cur, is_operator.
  rewrite Hst. cbn [String.eqb Ascii.eqb Bool.eqb].
  rewrite (sget_assoc _ _ H4), (sget_assoc _ _ H2), (sget_assoc _ _ H5).
  destruct fv; cbn [negb andb]; [|split; discriminate].
  destruct (String.eqb from (i_op i)); cbn [negb andb]; [|split; discriminate].
  destruct (mem (i_op i) (e_operators e)); cbn [negb andb]; [|split; discriminate].
  destruct (assoc (s_pubs st) (i_op i)); cbn [negb andb]; [|split; discriminate].
  destruct pk; cbn [negb andb]; [|split; discriminate].
  destruct (assoc (s_tasks st) (join2 (i_task i) (dec_str (i_id i)))) as [t|]; [|split; discriminate].
  destruct (mem (i_op i) (t_optin t)); cbn [negb andb];
    [|destruct (assoc (s_epochs st) (by_task_epoch (s_avs st) (i_task i))); split; discriminate].
  destruct (assoc (s_epochs st) (by_task_epoch (s_avs st) (i_task i))) as [cur|]; [|split; discriminate].
  rewrite gtb_neg.
  destruct (assoc (s_res st) (res_key (i_op i) (i_task i) (i_id i))); cbn [andb]; [split; discriminate|].
  destruct (String.eqb (sig_bytes (i_sig i)) ""); cbn [negb andb]; [split; discriminate|].
  destruct (String.eqb (i_hash i) ""); cbn [negb orb andb]; [|split; discriminate].
  destruct (resp_is_nil (i_resp i)); cbn [negb orb andb]; [|split; discriminate].
  destruct (cur <=? t_start t + t_resp t); cbn [negb snd]; split; auto; discriminate.
Qed.

Lemma submit_phase2_iff e st from fv i pk bls : st_sorted st -> i_stage i = "2"%string ->
  (snd (submit e st from fv (Some i) pk bls) = ROk <-> phase2_cond e st from fv i pk bls = true).
Proof.
  intros (H1&H2&H3&H4&H5&H6&H7) Hst.
  unfold submit, phase2_cond, common_cond, cur_of, epoch_cur, is_operator.
  rewrite Hst. cbn [String.eqb Ascii.eqb Bool.eqb].
  rewrite (sget_assoc _ _ H4), (sget_assoc _ _ H2), (sget_assoc _ _ H5).
  destruct fv; cbn [negb andb]; [|split; discriminate].
  destruct (String.eqb from (i_op i)); cbn [negb andb]; [|split; discriminate].
  destruct (mem (i_op i) (e_operators e)); cbn [negb andb]; [|split; discriminate].
  destruct (assoc (s_pubs st) (i_op i)); cbn [negb andb]; [|split; discriminate].
  destruct pk; cbn [negb andb]; [|split; discriminate].
  destruct (assoc (s_tasks st) (join2 (i_task i) (dec_str (i_id i)))) as [t|]; [|split; discriminate].
  destruct (mem (i_op i) (t_optin t)); cbn [negb andb];
    [|destruct (assoc (s_epochs st) (by_task_epoch (s_avs st) (i_task i))); split; discriminate].
  destruct (assoc (s_epochs st) (by_task_epoch (s_avs st) (i_task i))) as [cur|]; [|split; discriminate].
  rewrite ltb_neg.
  destruct (i_resp i) as [|rid rsum|x] eqn:Er; cbn [resp_is_nil]; try rewrite gtb_neg.
  - destruct (assoc (s_res st) _) as [r|]; cbn [andb]; [|split; discriminate].
    rewrite !andb_false_r. split; discriminate.
  - destruct (assoc (s_res st) _) as [r|]; cbn [andb]; [|split; discriminate].
    destruct (String.eqb (sig_bytes (r_sig r)) (sig_bytes (i_sig i))); cbn [negb andb]; [|split; discriminate].
    destruct (cur <=? t_start t + t_resp t); cbn [negb andb]; [split; discriminate|].
    destruct (cur <=? t_start t + t_resp t + t_stat t); cbn [negb andb]; [|split; discriminate].
    destruct (rid =? i_id i); cbn [negb andb]; [|split; discriminate].
    destruct bls; cbn [negb snd]; split; auto; discriminate.
  - destruct (assoc (s_res st) _) as [r|]; cbn [andb]; [|split; discriminate].
    destruct (String.eqb (sig_bytes (r_sig r)) (sig_bytes (i_sig i))); cbn [negb andb]; [|split; discriminate].
    destruct (cur <=? t_start t + t_resp t); cbn [negb andb]; [split; discriminate|].
    destruct (cur <=? t_start t + t_resp t + t_stat t); cbn [negb andb snd]; split; discriminate.
Qed.

(* any other stage value is never accepted *)
Lemma submit_other_stage e st from fv i pk bls : i_stage i <> "1"%string -> i_stage i <> "2"%string ->
  snd (submit e st from fv (Some i) pk bls) <> ROk.
Proof.
  intros N1 N2. unfold submit.
  rewrite (eqb_neq_false _ _ N1), (eqb_neq_false _ _ N2).
  bool_cases; cbn [snd]; discriminate.
Qed.

Lemma challenge_iff st task caller cb th id rh operator ov : st_sorted st ->
  (snd (challenge st task caller cb th id rh operator ov) = ROk <->
   challenge_cond st task caller th id rh operator ov = true).
Proof.
  intros (H1&H2&H3&H4&H5&H6&H7).
  unfold challenge, challenge_cond, cur_of, epoch_cur.
  rewrite <- (sget_assoc _ _ H2).
  destruct (is_zero caller); cbn [negb orb andb]; [split; discriminate|].
  destruct ov; cbn [negb andb]; [|split; discriminate].
  destruct (sget (s_tasks st) (join2 task (dec_str id))) as [t|] eqn:Et; [|split; discriminate].
  rewrite (sget_assoc _ _ H5), (sget_assoc _ _ H6).
  destruct (assoc (s_epochs st) (by_task_epoch (s_avs st) (t_addr t))) as [cur|]; [rewrite gtb_neg, ltb_neg|].
  2:{ destruct (String.eqb (t_hash t) th); cbn [negb]; [|split; discriminate].
      destruct (assoc (s_res st) _) as [r|]; [|split; discriminate].
      destruct (r_resp r); try (split; discriminate).
      destruct (negb (hash_matches _ rh)); [split; discriminate|].
      destruct (assoc (s_chals st) _); split; discriminate. }
  destruct (String.eqb (t_hash t) th); cbn [negb andb]; [|split; discriminate].
  destruct (assoc (s_res st) (res_key operator task id)) as [r|]; cbn [andb]; [|split; discriminate].
  destruct (r_resp r) as [|rid rsum|x] eqn:Er; cbn [hash_matches andb]; try (split; discriminate).
  destruct rh as [hid hsum|hx]; cbn [negb andb]; [|split; discriminate].
  destruct ((rid =? hid) && (rsum =? hsum)); cbn [negb andb]; [|split; discriminate].
  destruct (assoc (s_chals st) (res_key operator task id)); cbn [andb]; [split; discriminate|].
  destruct (cur <=? t_start t + t_resp t + t_stat t); cbn [negb andb]; [split; discriminate|].
  destruct (cur <=? t_start t + t_resp t + t_stat t + t_chal t); cbn [negb snd]; split; auto; discriminate.
Qed.

(* ---------- statistics ---------- *)

Lemma in_insert_by {A} (key : A -> string) x y l : In y (insert_by key x l) <-> y = x \/ In y l.
Proof.
  induction l as [|z r IH]; simpl; [intuition|].
  destruct (scmp (key x) (key z)); simpl; rewrite ?IH; intuition.
Qed.

Lemma in_sort_by {A} (key : A -> string) l : forall y, In y (sort_by key l) <-> In y l.
Proof.
  unfold sort_by.
  assert (forall acc y, In y (fold_left (fun acc x => insert_by key x acc) l acc) <-> In y acc \/ In y l) as G.
  { induction l as [|x r IH]; simpl; intros acc y; [intuition|].
    rewrite IH, in_insert_by. intuition. }
  intro y. rewrite G. simpl. intuition.
Qed.

Lemma mem_in x l : mem x l = true <-> In x l.
Proof.
  unfold mem. rewrite existsb_exists. split.
  - intros [y [Hy E]]. apply String.eqb_eq in E. subst; auto.
  - intro H. exists x. split; auto. apply String.eqb_refl.
Qed.

(* types.Difference is the SYMMETRIC difference *)
Lemma difference_spec a b x :
  In x (difference a b) <-> (In x b /\ ~ In x a) \/ (In x a /\ ~ In x b).
Proof.
  unfold difference. rewrite in_sort_by, in_app_iff, !filter_In.
  rewrite !negb_true_iff. split.
  - intros [[H1 H2]|[H1 H2]]; [left|right]; split; auto; intro H; apply mem_in in H; congruence.
  - intros [[H1 H2]|[H1 H2]]; [left|right]; split; auto;
      destruct (mem x _) eqn:E; auto; apply mem_in in E; contradiction.
Qed.

Lemma powers_of_incl st ou avs l o p : In (o, p) (powers_of st ou avs l) -> In o (map r_op l) /\ 0 <= p.
Proof.
  induction l as [|r l IH]; simpl; [tauto|].
  destruct (active_power st ou avs (r_op r)) as [q|]; [|intro H; apply IH in H; tauto].
  destruct (q <? 0) eqn:E; [intro H; apply IH in H; tauto|].
  intros [H|H]; [inversion H; subst; split; auto; apply Z.ltb_ge; exact E | apply IH in H; tauto].
Qed.

(* what one group of the epoch hook writes: either nothing (group skipped) or exactly this *)
Lemma stat_group_spec st au ou ms :
  stat_group st au ou ms = st \/
  exists r0 t t', In r0 ms /\ has_sig r0 = true /\
    sget (s_tasks st) (join2 (r_task r0) (dec_str (r_id r0))) = Some t /\
    sget (s_tasks (stat_group st au ou ms)) (join2 (t_addr t) (dec_str (t_id t))) = Some t' /\
    t_signed t' = map r_op (filter has_sig (sort_by r_op ms)) /\
    t_nosigned t' = difference (t_optin t) (t_signed t') /\
    t_optin t' = t_optin t /\
    (exists pows, t_powers t' = Some pows /\ forall o p, In (o, p) pows -> In o (t_signed t') /\ 0 <= p) /\
    assoc au (by_task_addr (s_avs st) (r_task r0)) = Some (t_total t').
Proof.
  unfold stat_group.
  destruct (filter has_sig (sort_by r_op ms)) as [|r0 rest] eqn:Ef; [left; reflexivity|].
  assert (Hr0 : In r0 (filter has_sig (sort_by r_op ms))) by (rewrite Ef; left; auto).
  apply filter_In in Hr0. destruct Hr0 as [Hin Hsig]. apply in_sort_by in Hin.
  destruct (sget (s_tasks st) _) as [t|] eqn:Et; [|left; reflexivity].
  destruct (assoc au _) as [total|] eqn:Ea; [|left; reflexivity].
  right. exists r0, t. eexists. split; [exact Hin|]. split; [exact Hsig|]. split; [exact Et|].
  split; [cbn [s_tasks with_tasks]; apply sget_sset_same|].
  cbn [t_signed t_nosigned t_optin t_powers t_total].
  repeat split; auto.
  eexists. split; [reflexivity|]. intros o p Hop. eapply powers_of_incl. exact Hop.
Qed.

(* with the repaired phase one every stored result carries a non-empty signature, in every reachable state *)
Definition sig_ok (r : res_info) : bool :=
  match r_sig r with Some x => negb (String.eqb x "") | None => false end.
Definition sigs_ok (st : state) : Prop := forall k r, In (k, r) (s_res st) -> sig_ok r = true.

Lemma sig_ok_has_sig r : sig_ok r = true -> has_sig r = true.
Proof. unfold sig_ok, has_sig. destruct (r_sig r); auto. Qed.

Ltac head_sigs H := repeat match goal with
  | |- sigs_ok (fst (if ?c then _ else _)) => destruct c eqn:?
  | |- sigs_ok (fst (match ?c with _ => _ end)) => destruct c eqn:?
  end; try exact H.

Lemma sig_stored_nonempty s : String.eqb (sig_bytes s) "" = false ->
  match sig_stored s with Some x => negb (String.eqb x "") | None => false end = true.
Proof. destruct s as [x|]; simpl; [|discriminate]. intro E. rewrite E. simpl. rewrite E. reflexivity. Qed.

Lemma step_sigs_ok e st o : st_sorted st -> sigs_ok st -> sigs_ok (fst (step e st o)).
Proof.
  intros Hs H. pose proof Hs as (H1&H2&H3&H4&H5&H6&H7).
  destruct o; cbn [step].
  - unfold pre_register, keeper_register. head_sigs H.
  - unfold pre_update, keeper_update. head_sigs H.
  - unfold pre_deregister, keeper_deregister. head_sigs H.
  - unfold opt_in. head_sigs H.
  - unfold opt_out. head_sigs H.
  - unfold create_task. head_sigs H.
  - unfold reg_bls. head_sigs H.
  - unfold submit. head_sigs H.
    + (* phase one stores a non-empty signature *)
      intros kk rr Hin. cbn [fst s_res with_res] in Hin. apply in_sset in Hin; auto.
      destruct Hin as [[_ Hrr]|[_ Hin]]; [subst rr|eapply H; eauto].
      unfold sig_ok. cbn [r_sig]. apply sig_stored_nonempty. assumption.
    + (* phase two stores the signature it compared equal to the stored, non-empty one *)
      intros kk rr Hin. cbn [fst s_res with_res] in Hin. apply in_sset in Hin; auto.
      destruct Hin as [[_ Hrr]|[_ Hin]]; [subst rr|eapply H; eauto].
      unfold sig_ok. cbn [r_sig]. apply sig_stored_nonempty.
      match goal with
      | Hg : sget (s_res st) _ = Some ?r0, Hn : negb (String.eqb (sig_bytes (r_sig ?r0)) _) = false |- _ =>
          apply negb_false_iff in Hn; apply String.eqb_eq in Hn; rewrite <- Hn;
          apply (sget_in _ _ _ H5) in Hg; apply H in Hg; unfold sig_ok in Hg;
          destruct (r_sig r0) as [x|]; [|discriminate]; simpl; apply negb_true_iff in Hg; exact Hg
      end.
  - unfold challenge. head_sigs H.
  - pose proof (epoch_ends_frame avs_usd op_usd ended st) as G. destruct G as (_&_&_&B4&_).
    intros kk rr Hin. cbn [fst] in Hin. rewrite B4 in Hin. eapply H; eauto.
Qed.

Lemma run_sigs_ok e ops : forall st, st_sorted st -> sigs_ok st -> sigs_ok (run e st ops).
Proof.
  unfold run. induction ops as [|o r IH]; simpl; intros st Hs H; auto.
  apply IH; [apply step_sorted; auto | apply step_sigs_ok; auto].
Qed.

(* hence the signer list of a processed group is EXACTLY the operators that have a stored (= accepted) result in it *)
Lemma signers_all (ms : list res_info) : (forall r, In r ms -> sig_ok r = true) ->
  filter has_sig (sort_by r_op ms) = sort_by r_op ms /\
  forall o, In o (map r_op (filter has_sig (sort_by r_op ms))) <-> In o (map r_op ms).
Proof.
  intro H.
  assert (E : filter has_sig (sort_by r_op ms) = sort_by r_op ms).
  { assert (forall l : list res_info, (forall r, In r l -> has_sig r = true) -> filter has_sig l = l) as F.
    { induction l as [|a l IH]; simpl; intro Hl; auto. rewrite (Hl a) by auto. f_equal. apply IH. intros; apply Hl; auto. }
    apply F. intros r Hr. apply in_sort_by in Hr. apply sig_ok_has_sig. auto. }
  split; [exact E|]. intro o. rewrite E. rewrite !in_map_iff.
  split; intros [r [Ho Hr]]; exists r; split; auto; apply in_sort_by in Hr || apply in_sort_by; auto.
Qed.

(* if every signer was in the opt-in snapshot, the non-signer list is exactly snapshot minus signers *)
Lemma nosigned_when_signers_opted optin signed x :
  (forall s, In s signed -> In s optin) ->
  (In x (difference optin signed) <-> In x optin /\ ~ In x signed).
Proof. intro H. rewrite difference_spec. split; [intros [[A B]|AB]; [exfalso; auto|exact AB] | intro; right; auto]. Qed.

(* ---------- refutation witnesses ---------- *)

Fixpoint run_results (e : env) (st : state) (ops : list op) : list result :=
  match ops with
  | [] => []
  | o :: r => snd (step e st o) :: run_results e (fst (step e st o)) r
  end.

Definition w_env := mkEnv ["op1"; "op2"]%string ["asset"]%string.
Definition w_st0 := empty_state [("minute"%string, 1)].
Definition w_params := mkParams "avs" 1 "0xT" "0xS" "0xR" ["owner"]%string ["asset"]%string 2 0 "minute" [1; 1; 1; 1].
Definition w_usd : list (string * Z) := [("0xA"%string, 5)].
Definition w_opusd : list (string * Z) := [("0xA/op1"%string, 5)].
Definition w_prefix : list op :=
  [ ORegister "a" "0xA" "0xC" "owner" w_params;
    ORegBLS "0xC" "op1" "n" "pk1" VOk;
    ORegBLS "0xC" "op2" "n" "pk2" VOk;
    OOptIn "a" "0xA" "0xC" "op1" (Some 5) false;
    OEpochEnd [("minute"%string, 1)] w_usd w_opusd;
    OCreateTask "0xT" "0xC" "owner" "t" "h" 0 0 50 0 w_usd ]%string.

(* (a) REGRESSION (former refutation witness): phase one with an explicitly encoded empty signature is now rejected,
   nothing is stored, and the hook at the end of the statistical period runs through *)
Definition w_ops_a : list op :=
  w_prefix ++
  [ OSubmit "op1" true (Some (mkInfo "op1" "" RNil (Some "") "0xT" 1 "1")) true false;
    OEpochEnd [("minute"%string, 2)] w_usd w_opusd;
    OEpochEnd [("minute"%string, 3)] w_usd w_opusd ]%string.

Lemma witness_a :
  run_results w_env w_st0 w_ops_a = [ROk; ROk; ROk; ROk; ROk; ROk; RErr; ROk; ROk] /\
  s_res (run w_env w_st0 w_ops_a) = [].
Proof. vm_compute. split; reflexivity. Qed.

(* (b) REGRESSION (former refutation witness): op2 never opted in; its phase-one result is now rejected, and after the
   statistics only op1 is a signer and nobody is a non-signer *)
Definition w_ops_b : list op :=
  w_prefix ++
  [ OSubmit "op1" true (Some (mkInfo "op1" "" RNil (Some "s1") "0xT" 1 "1")) true false;
    OSubmit "op2" true (Some (mkInfo "op2" "" RNil (Some "s2") "0xT" 1 "1")) true false;
    OEpochEnd [("minute"%string, 2)] w_usd w_opusd;
    OEpochEnd [("minute"%string, 3)] w_usd w_opusd ]%string.

Lemma witness_b :
  run_results w_env w_st0 w_ops_b = [ROk; ROk; ROk; ROk; ROk; ROk; ROk; RErr; ROk; ROk] /\
  match sget (s_tasks (run w_env w_st0 w_ops_b)) "0xT/1" with
  | Some t => t_optin t = ["op1"%string] /\ t_signed t = ["op1"%string] /\ t_nosigned t = []
  | None => False
  end.
Proof. vm_compute. repeat split; reflexivity. Qed.

(* non-vacuity of the positive theorems: the witness prefix reaches a state with an AVS, keys, an opted-in
   operator and a task, and the happy path (phase one, phase two, challenge) is accepted *)
Definition w_ops_ok : list op :=
  [ ORegister "a" "0xA" "0xC" "owner" w_params;
    ORegBLS "0xC" "op1" "n" "pk1" VOk;
    OOptIn "a" "0xA" "0xC" "op1" (Some 5) false;
    OEpochEnd [("minute"%string, 1)] w_usd w_opusd;
    OCreateTask "0xT" "0xC" "owner" "t" "h" 1 1 50 1 w_usd;
    OCreateTask "0xT" "0xC" "owner" "t" "h" 1 1 50 1 w_usd;
    OSubmit "op1" true (Some (mkInfo "op1" "" RNil (Some "s1") "0xT" 1 "1")) true false;
    OEpochEnd [("minute"%string, 2)] w_usd w_opusd;
    OEpochEnd [("minute"%string, 3)] w_usd w_opusd;
    OEpochEnd [("minute"%string, 4)] w_usd w_opusd;
    OSubmit "op1" true (Some (mkInfo "op1" "" (RJson 1 100) (Some "s1") "0xT" 1 "2")) true true;
    OEpochEnd [("minute"%string, 5)] w_usd w_opusd;
    OChallenge "0xT" "0xC" "owner" "h" 1 (HAbi 1 100) "op1" true ]%string.

Lemma witness_ok :
  run_results w_env w_st0 w_ops_ok = [ROk; ROk; ROk; ROk; ROk; ROk; ROk; ROk; ROk; ROk; ROk; ROk; ROk] /\
  map snd (id_trace w_env w_st0 w_ops_ok) = [1; 2] /\
  forallb op_wf w_ops_ok = true.
Proof. vm_compute. repeat split; reflexivity. Qed.

(* ---------- statements of C20/Props.v ---------- *)

Lemma opt_in_ok_requires e st addr caller operator self frozen st' :
  opt_in e st addr caller operator self frozen = (st', ROk) ->
  exists a v, sget (s_avs st) (addr_key addr) = Some a /\ a_addr a = addr /\ is_operator e operator = true /\
              self = Some v /\ dec_of_int (a_min_self a) <= v /\ opted_active st operator addr = false.
Proof.
  unfold opt_in. intro H.
  destruct (is_zero caller); [inversion H|].
  destruct (is_operator e operator) eqn:Eo; simpl in H; [|inversion H].
  destruct (sget (s_avs st) (addr_key addr)) as [a|] eqn:Ea; [|inversion H].
  destruct (String.eqb (a_addr a) addr) eqn:Esp; cbn [negb] in H; [|inversion H].
  destruct (opted_active st operator addr) eqn:Eopt; [inversion H|].
  destruct self as [v|]; [|inversion H].
  destruct (v <? dec_of_int (a_min_self a)) eqn:Ev; [inversion H|].
  destruct frozen; [inversion H|].
  exists a, v. apply String.eqb_eq in Esp. repeat split; auto. apply Z.ltb_ge in Ev. exact Ev.
Qed.

Lemma unique_avs e ops st : reg_inv (s_avs st) -> forallb op_wf ops = true ->
  forall k1 a1 k2 a2, In (k1, a1) (s_avs (run e st ops)) -> In (k2, a2) (s_avs (run e st ops)) ->
    a_addr a1 = a_addr a2 -> k1 = k2 /\ a1 = a2.
Proof.
  intros Hinv Hwf k1 a1 k2 a2 H1 H2 Heq.
  destruct (run_reg_inv e ops st Hinv Hwf) as [Hs [Hk _]].
  destruct (Hk _ _ H1) as [K1 _]. destruct (Hk _ _ H2) as [K2 _].
  assert (E : k1 = k2) by congruence. split; [exact E|]. rewrite E in H1. exact (in_unique _ _ _ _ Hs H1 H2).
Qed.

Lemma unique_task_addr e ops st : reg_inv (s_avs st) -> forallb op_wf ops = true ->
  forall k1 a1 k2 a2, In (k1, a1) (s_avs (run e st ops)) -> In (k2, a2) (s_avs (run e st ops)) ->
    a_task a1 = a_task a2 -> a_task a1 <> ""%string -> k1 = k2 /\ a1 = a2.
Proof.
  intros Hinv Hwf k1 a1 k2 a2 H1 H2 Heq Hnz.
  destruct (run_reg_inv e ops st Hinv Hwf) as [Hs [_ Hu]].
  assert (E : k1 = k2) by (eapply Hu; eauto). split; [exact E|]. rewrite E in H1. exact (in_unique _ _ _ _ Hs H1 H2).
Qed.

Lemma optin_requires e st key addr caller operator self frozen st' :
  step e st (OOptIn key addr caller operator self frozen) = (st', ROk) ->
  exists a v, sget (s_avs st) (addr_key addr) = Some a /\ a_addr a = addr /\ is_operator e operator = true /\
              self = Some v /\ dec_of_int (a_min_self a) <= v /\ opted_active st operator addr = false.
Proof. exact (opt_in_ok_requires e st addr caller operator self frozen st'). Qed.

Lemma phase1_reachable e st0 ops : st_sorted st0 ->
  forall from fv i pk bls, i_stage i = "1"%string ->
  (snd (step e (run e st0 ops) (OSubmit from fv (Some i) pk bls)) = ROk <->
   phase1_cond e (run e st0 ops) from fv i pk = true).
Proof. intros Hs from fv i pk bls. apply submit_phase1_iff. apply run_sorted; auto. Qed.

Lemma phase2_reachable e st0 ops : st_sorted st0 ->
  forall from fv i pk bls, i_stage i = "2"%string ->
  (snd (step e (run e st0 ops) (OSubmit from fv (Some i) pk bls)) = ROk <->
   phase2_cond e (run e st0 ops) from fv i pk bls = true).
Proof. intros Hs from fv i pk bls. apply submit_phase2_iff. apply run_sorted; auto. Qed.

Lemma no_other_stage e st from fv i pk bls : i_stage i <> "1"%string -> i_stage i <> "2"%string ->
  snd (step e st (OSubmit from fv (Some i) pk bls)) <> ROk.
Proof. intros. apply submit_other_stage; auto. Qed.

Lemma challenge_reachable e st0 ops : st_sorted st0 ->
  forall task caller cb th id rh operator ov,
  (snd (step e (run e st0 ops) (OChallenge task caller cb th id rh operator ov)) = ROk <->
   challenge_cond (run e st0 ops) task caller th id rh operator ov = true).
Proof. intros Hs task caller cb th id rh operator ov. apply challenge_iff; auto. apply run_sorted; auto. Qed.

Lemma nonsigners_spec optin signed x :
  (In x (difference optin signed) <-> (In x signed /\ ~ In x optin) \/ (In x optin /\ ~ In x signed)) /\
  ((forall s, In s signed -> In s optin) -> (In x (difference optin signed) <-> In x optin /\ ~ In x signed)).
Proof. split; [apply difference_spec | apply nosigned_when_signers_opted]. Qed.

Lemma hyps_satisfiable eps : st_sorted (empty_state eps) /\ reg_inv (s_avs (empty_state eps)).
Proof. split; [apply empty_sorted | apply reg_inv_empty]. Qed.

(* register / deregister guards (every state) *)
Lemma register_ok_requires e st key addr caller cb p st' :
  step e st (ORegister key addr caller cb p) = (st', ROk) ->
  sget (s_avs st) (addr_key addr) = None /\ by_task_addr (s_avs st) (p_task p) = ""%string /\
  mem cb (p_owners p) = true /\ assets_ok e (p_assets p) = true /\
  (exists cur, epoch_cur st (p_epoch p) = Some cur /\
     sget (s_avs st') (addr_key addr) =
       Some (mkAvs (p_name p) addr (p_min_stake p) (p_task p) (p_slash p) (p_reward p) (p_owners p) (p_assets p)
                   (p_unbond p) (p_min_self p) (p_epoch p) (nth_par (p_taskpar p) 0) (nth_par (p_taskpar p) 1) (cur + 1)
                   (dec_with_prec (nth_par (p_taskpar p) 2) 2) (dec_with_prec (nth_par (p_taskpar p) 3) 2))).
Proof.
  cbn [step]. unfold pre_register, keeper_register. intro H.
  destruct (_ || _); [inversion H|].
  destruct (mem cb (p_owners p)) eqn:Em; cbn [negb] in H; [|inversion H].
  destruct (sget (s_avs st) (addr_key addr)) eqn:Eold.
  { destruct (epoch_cur st _); inversion H. }
  cbn [avs_epoch_id] in H.
  destruct (epoch_cur st (p_epoch p)) as [cur|] eqn:Ec; [|inversion H].
  destruct (String.eqb (by_task_addr (s_avs st) (p_task p)) "") eqn:Et; cbn [negb] in H; [|inversion H].
  destruct (assets_ok e (p_assets p)) eqn:Ea; cbn [negb] in H; [|inversion H].
  apply String.eqb_eq in Et. repeat split; auto.
  exists cur. split; auto. injection H as H. rewrite <- H. cbn [s_avs with_avs]. apply sget_sset_same.
Qed.

Lemma deregister_ok_requires e st key addr caller cb name st' :
  step e st (ODeregister key addr caller cb name) = (st', ROk) ->
  exists a cur, sget (s_avs st) (addr_key addr) = Some a /\ epoch_cur st (a_epoch a) = Some cur /\
    mem cb (a_owners a) = true /\ cur - a_start a <= a_unbond a /\ a_name a = name /\
    s_avs st' = sdel (s_avs st) (addr_key addr).
Proof.
  cbn [step]. unfold pre_deregister, keeper_deregister. intro H.
  destruct (_ || _); [inversion H|].
  destruct (sget (s_avs st) (addr_key addr)) as [a|] eqn:Eold; [|inversion H].
  cbn [avs_epoch_id p_epoch] in H.
  assert (Hid : (if String.eqb (a_epoch a) "" then ""%string else a_epoch a) = a_epoch a).
  { destruct (String.eqb (a_epoch a) "") eqn:E; auto. apply String.eqb_eq in E. auto. }
  rewrite Hid in H.
  destruct (epoch_cur st (a_epoch a)) as [cur|] eqn:Ec; [|inversion H].
  destruct (mem cb (a_owners a)) eqn:Em; cbn [negb] in H; [|inversion H].
  destruct (cur - a_start a >? a_unbond a) eqn:Eu; [inversion H|].
  destruct (String.eqb (a_name a) name) eqn:En; cbn [negb] in H; [|inversion H].
  exists a, cur. apply String.eqb_eq in En. rewrite gtb_neg in Eu. apply negb_false_iff in Eu. apply Z.leb_le in Eu.
  repeat split; auto. injection H as H. rewrite <- H. reflexivity.
Qed.

(* an operation that is not accepted (error, false, no-op, panic) leaves the whole state unchanged *)
Ltac rej_frame := repeat match goal with
  | |- snd (if ?c then _ else _) <> _ -> _ => destruct c
  | |- snd (match ?c with _ => _ end) <> _ -> _ => destruct c
  end; cbn [fst snd]; let H := fresh "Hrej" in (intro H; try reflexivity; try (exfalso; apply H; reflexivity)).

Lemma step_rejected_frame e st o : snd (step e st o) <> ROk -> fst (step e st o) = st.
Proof.
  destruct o; cbn [step].
  - unfold pre_register, keeper_register. rej_frame.
  - unfold pre_update, keeper_update. rej_frame.
  - unfold pre_deregister, keeper_deregister. rej_frame.
  - unfold opt_in. rej_frame.
  - unfold opt_out. rej_frame.
  - unfold create_task. rej_frame.
  - unfold reg_bls. rej_frame.
  - unfold submit. rej_frame.
  - unfold challenge. rej_frame.
  - rej_frame.
Qed.

(* an empty (absent or zero-length) signature is never accepted in phase one, in every state *)
Lemma empty_signature_rejected e st from fv i pk bls : i_stage i = "1"%string -> sig_bytes (i_sig i) = ""%string ->
  snd (step e st (OSubmit from fv (Some i) pk bls)) <> ROk /\ fst (step e st (OSubmit from fv (Some i) pk bls)) = st.
Proof.
  intros Hst Hsig.
  assert (G : snd (step e st (OSubmit from fv (Some i) pk bls)) <> ROk).
  { cbn [step]. unfold submit. rewrite Hst, Hsig. cbn [String.eqb Ascii.eqb Bool.eqb].
    repeat match goal with
    | |- snd (if ?c then _ else _) <> _ => destruct c
    | |- snd (match ?c with _ => _ end) <> _ => destruct c
    end; cbn [snd]; discriminate. }
  split; [exact G | apply step_rejected_frame; exact G].
Qed.

(* the epoch hook has no panic path: an epoch end is always processed *)
Lemma epoch_end_never_panics e st ended au ou : snd (step e st (OEpochEnd ended au ou)) = ROk.
Proof. reflexivity. Qed.

Lemma regression_empty_signature :
  run_results w_env w_st0 w_ops_a = [ROk; ROk; ROk; ROk; ROk; ROk; RErr; ROk; ROk] /\
  s_res (run w_env w_st0 w_ops_a) = [].
Proof. exact witness_a. Qed.

