(* C13/Props.v — property theorems only (oracle submissions: strict admission, bounded fee-less traffic). *)
From Coq Require Import List String Bool ZArith Lia.
From Exo Require Import Base.Util Oracle.Model Oracle.Lemmas C12.Proofs C13.Proofs C13.Bound C13.Budget C13.Final.
Import ListNotations.
Local Open Scope Z_scope.

(* --- a concrete world used by the non-vacuity examples and the refutation witnesses --- *)
Definition ex_params : params :=
  mkParams 3 2 3 5 100 [mkFeeder 1 1 20 10 1 0] [(1, 8)].
Definition ex_state0 : state :=
  mkState (mkStore [] []) (mkMem [(0, 100); (1, 100); (2, 100); (3, 100)] 400 [] []) 0.
(* EndBlock 20 opens the round with base block 20 and gives every validator a zero nonce row *)
Definition ex_state20 : state := end_block ex_params 20 [] ex_state0.
Definition ex_msg (creator nonce : Z) (det : string) (price : Z) : msg :=
  mkMsg creator 1 20 nonce [mkPS 1 [mkPI det price 8 100 true]].
Definition ex_now : Z := 200000000000.

(* admitted => size, public key, signature and the nonce clause (for every message of the tx: a nonce row
   exists and nonce = stored + 1 + number of earlier messages of the same tx for the same row <= MaxNonce) *)
Theorem C13_admit_partial : forall p now st t st' ok,
  deliver_tx p now st t = (st', true, ok) ->
  t_size t <= tx_size_limit /\ t_pk_ok t = true /\ t_sig_ok t = true /\
  nonce_part_ok p (s_nonces (st_store st)) [] (t_msgs t) = true.
Proof. exact C13_admit_partial_l. Qed.
Print Assumptions C13_admit_partial.

(* the full statement adds: the sender is a current validator and the feeder's round is open.
   The code enforces that only through the existence of the nonce row. With the repaired EndBlock (rows of a sealed
   round are removed for EVERY validator, also for one that the same block's update removes) a removed validator is
   no longer let in (regression example below); but the statement is still false of the faithful model because a
   failed tx can leave a round closed in memory while its nonce rows are still in the store: *)
Definition C13_admit_full : Prop := forall p now st t st' ok,
  deliver_tx p now st t = (st', true, ok) ->
  forall x, In x (t_msgs t) ->
    (exists pw, zget (m_vals (st_mem st)) (m_creator x) = Some pw) /\
    (exists r, zget (m_rounds (st_mem st)) (m_feeder x) = Some r /\ r_status r = 1).

Definition ex_state21 : state := end_block ex_params 21 [(3, 0)] ex_state20.   (* validator 3 leaves *)

(* regression example for the repaired stale-row defect: the validator removed while the round was open has lost its
   row and is not let in any more *)
Example ex_removed_validator_not_admitted :
  s_nonces (st_store ex_state21) = [] /\
  deliver_tx ex_params ex_now ex_state21 (mkTx [ex_msg 3 1 "1" 100] 300 true true) = (ex_state21, false, false).
Proof. vm_compute. split; reflexivity. Qed.

(* after [v0; v1; (v2: completing message + failing message)] the round is closed in memory, the rows are back *)
Definition ex_state_closed : state :=
  let s1 := fst (fst (deliver_tx ex_params ex_now ex_state20 (mkTx [ex_msg 0 1 "1" 100] 300 true true))) in
  let s2 := fst (fst (deliver_tx ex_params ex_now s1 (mkTx [ex_msg 1 1 "1" 100] 300 true true))) in
  fst (fst (deliver_tx ex_params ex_now s2 (mkTx [ex_msg 2 1 "1" 100; ex_msg 2 2 "2" 100] 400 true true))).

Theorem C13_admit_round_refuted :
  exists t st',
    deliver_tx ex_params ex_now ex_state_closed t = (st', true, false) /\
    (exists x r, In x (t_msgs t) /\ zget (m_rounds (st_mem ex_state_closed)) (m_feeder x) = Some r /\ r_status r = 2).
Proof.
  exists (mkTx [ex_msg 3 1 "1" 100] 300 true true). eexists. split; [vm_compute; reflexivity|].
  exists (ex_msg 3 1 "1" 100). eexists. split; [left; reflexivity|]. split; vm_compute; reflexivity.
Qed.
Print Assumptions C13_admit_round_refuted.

(* counted => time stamps, sender, open round, base block, rule (exactly the deterministic source),
   decimals, and at least one det-ID this validator has not reported in this round *)
Theorem C13_count : forall p now s m x s' m' r,
  create_price p now s m x = (s', m', r) -> r = MsgCounted \/ r = MsgFinal ->
  (forall ps it, In ps (m_prices x) -> In it (ps_prices ps) -> 0 <= pi_ts it /\ pi_ts it * 1000000000 <= now + five_s) /\
  (exists pw, zget (m_vals m) (m_creator x) = Some pw) /\
  (exists rd f ps,
     zget (m_rounds m) (m_feeder x) = Some rd /\ r_status rd = 1 /\ m_base x = r_base rd /\
     get_feeder p (m_feeder x) = Some f /\ m_prices x = [ps] /\ ps_id ps = 1 /\
     exists d, token_decimal p (f_token f) = Some d /\ Forall (fun it => pi_dec it = d) (ps_prices ps)) /\
  (exists it, In it (first_items x) /\ mem_s (pi_det it) (seen_dets m (m_feeder x) (m_creator x)) = false).
Proof. exact C13_count_l. Qed.
Print Assumptions C13_count.

(* counted => every price string of the message is a decimal number: a non-numeric price ("abc") is rejected by
   sanityCheck before the aggregator memory is touched (repaired behaviour; before the repair it was held in memory as a
   nil price and every later message of the round for that det-ID panicked inside DeliverTx) *)
Theorem C13_count_numeric : forall p now s m x s' m' r,
  create_price p now s m x = (s', m', r) -> r = MsgCounted \/ r = MsgFinal ->
  forall ps it, In ps (m_prices x) -> In it (ps_prices ps) -> pi_num it = true.
Proof. exact create_price_counted_numeric. Qed.
Print Assumptions C13_count_numeric.

Example ex_non_numeric_rejected :
  create_price ex_params ex_now (st_store ex_state20) (st_mem ex_state20) (mkMsg 0 1 20 1 [mkPS 1 [mkPI "1" 0 8 100 false]])
  = (st_store ex_state20, st_mem ex_state20, MsgErr).
Proof. vm_compute. reflexivity. Qed.

(* not admitted => nothing changes at all (store and memory), and the tx does not succeed *)
Theorem C13_not_admitted_no_change : forall p now st t st' ok,
  deliver_tx p now st t = (st', false, ok) -> st' = st /\ ok = false.
Proof. exact deliver_not_admitted. Qed.
Print Assumptions C13_not_admitted_no_change.

(* admitted but failed => in the STORE only nonce rows of the senders change *)
Theorem C13_admitted_not_counted_store : forall p now st t st',
  deliver_tx p now st t = (st', true, false) ->
  s_prices (st_store st') = s_prices (st_store st) /\
  forall v, (forall x, In x (t_msgs t) -> m_creator x <> v) ->
            zget (s_nonces (st_store st')) v = zget (s_nonces (st_store st)) v.
Proof. exact C13_admitted_not_counted_store_l. Qed.
Print Assumptions C13_admitted_not_counted_store.

(* a message that is rejected by the handler leaves validator powers, rounds and, per feeder, everything that
   counts towards a round (reports, calculator, sealed flag, price) untouched; only filter bookkeeping
   (the per-round nonce set, an empty worker object) may appear *)
Theorem C13_rejected_message_memory : forall p now s m x s' m',
  create_price p now s m x = (s', m', MsgErr) ->
  s' = s /\ m_vals m' = m_vals m /\ m_total m' = m_total m /\ m_rounds m' = m_rounds m /\
  forall fid, match zget (m_workers m') fid with
              | Some y => counted y = counted (worker_or_new m fid)
              | None => zget (m_workers m) fid = None
              end.
Proof. exact create_price_err. Qed.
Print Assumptions C13_rejected_message_memory.

(* but a tx is rolled back as a whole only in the store: with two messages, the first counted and the second
   rejected, the tx fails and the memory keeps the first message's report *)
Definition C13_admitted_not_counted_memory_full : Prop := forall p now st t st',
  deliver_tx p now st t = (st', true, false) ->
  m_rounds (st_mem st') = m_rounds (st_mem st) /\
  forall fid, match zget (m_workers (st_mem st')) fid with
              | Some y => counted y = counted (worker_or_new (st_mem st) fid)
              | None => zget (m_workers (st_mem st)) fid = None
              end.

Theorem C13_admitted_not_counted_memory_refuted :
  exists t st',
    deliver_tx ex_params ex_now ex_state20 t = (st', true, false) /\
    exists y, zget (m_workers (st_mem st')) 1 = Some y /\
              counted y <> counted (worker_or_new (st_mem ex_state20) 1).
Proof.
  exists (mkTx [ex_msg 0 1 "1" 100; ex_msg 0 2 "1" 100] 400 true true).
  eexists. split; [vm_compute; reflexivity|].
  eexists. split; [vm_compute; reflexivity|]. vm_compute. intro H. discriminate H.
Qed.
Print Assumptions C13_admitted_not_counted_memory_refuted.

(* fee-less traffic: every admitted message uses up one unit of the sender's allowance for that feeder;
   a sender without a row gets nothing admitted; the allowance never exceeds MaxNonce *)
Theorem C13_bound_tx : forall p now st t st' ok,
  deliver_tx p now st t = (st', true, ok) ->
  exists s1, ante p (st_store st) t = Some s1 /\
  forall v f,
    match rv (s_nonces (st_store st)) v f with
    | Some x => rv (s_nonces s1) v f = Some (x + count_prior (t_msgs t) v f) /\
                (0 < count_prior (t_msgs t) v f -> x + count_prior (t_msgs t) v f <= p_max_nonce p)
    | None => count_prior (t_msgs t) v f = 0 /\ rv (s_nonces s1) v f = None
    end.
Proof. exact C13_bound_tx_l. Qed.
Print Assumptions C13_bound_tx.

(* Over ALL histories (any txs, blocks, validator-set updates): every stored nonce stays in [0, MaxNonce] ... *)
Theorem C13_nonce_values_bounded : forall p ops st,
  0 <= p_max_nonce p -> bounded p (s_nonces (st_store st)) -> bounded p (s_nonces (st_store (run p st ops))).
Proof. intros p ops st H. exact (run_bounded p H ops st). Qed.
Print Assumptions C13_nonce_values_bounded.

(* ... message handling never creates or changes a nonce entry (it can only delete rows when a round completes) ... *)
Theorem C13_messages_create_no_rows : forall p now l s m s' m',
  run_msgs p now s m l = (Some s', m') -> forall v f y, entry (s_nonces s') v f y -> entry (s_nonces s) v f y.
Proof. exact run_msgs_entries. Qed.
Print Assumptions C13_messages_create_no_rows.

(* ... and EndBlock only deletes entries or creates entries with value 0 (a round opens). Together with
   C13_bound_tx (the ante handler is the only place a nonce grows: by one per admitted message, never above
   MaxNonce, and never for a sender without a row) this is the argument for "at most MaxNonce admitted messages
   per (validator, feeder) row life time"; the telescoping sum itself is not formalised (C13_bound_full). *)
Theorem C13_endblock_rows : forall p h u st v f x,
  entry (s_nonces (st_store (end_block p h u st))) v f x -> x = 0 \/ entry (s_nonces (st_store st)) v f x.
Proof. exact end_block_entries. Qed.
Print Assumptions C13_endblock_rows.

(* The bound over ALL histories: count, for a fixed (validator, feeder), the messages the ante handler admitted since
   that nonce row was last created (count_run: +k for every admitted tx carrying k such messages; on EndBlock the
   count restarts when the row was re-created with value 0). It never exceeds MaxNonce - for validators, former
   validators and outsiders alike (a sender without a row gets nothing admitted, C13_bound_tx). The state component
   of count_run is the model's run, so this is a statement about the model, not about a modified machine. *)
Theorem C13_bound : forall p v f st ops,
  0 <= p_max_nonce p -> tables_ok (s_nonces (st_store st)) -> bounded p (s_nonces (st_store st)) ->
  snd (count_run p v f st ops) <= p_max_nonce p /\ fst (count_run p v f st ops) = run p st ops.
Proof. exact C13_bound_l. Qed.
Print Assumptions C13_bound.

(* ... and across a parameter update: the same count over a run under p followed by a run under p' stays within the
   limit whenever the update keeps MaxNonce (new feeders, end blocks, new tokens / sources / rules, MaxSizePrices do) *)
Theorem C13_bound_across_update : forall p p' v f st ops1 ops2,
  0 <= p_max_nonce p -> p_max_nonce p' = p_max_nonce p ->
  tables_ok (s_nonces (st_store st)) -> bounded p (s_nonces (st_store st)) ->
  snd (fold_left (count_step p' v f) ops2 (fold_left (count_step p v f) ops1 (st, 0))) <= p_max_nonce p.
Proof. exact admitted_bounded_across_update. Qed.
Print Assumptions C13_bound_across_update.

(* the bound is reached: validator 0 gets exactly MaxNonce = 3 messages admitted in one round, the 4th is refused *)
Example ex_bound_reached :
  let tx (n : Z) (d : string) := OpTx ex_now (mkTx [ex_msg 0 n d 100] 300 true true) in
  snd (count_run ex_params 0 1 ex_state0 [OpEnd 20 []; tx 1 "1"%string; tx 2 "2"%string; tx 3 "3"%string; tx 4 "4"%string]) = 3 /\
  tables_ok (s_nonces (st_store ex_state0)) /\ bounded ex_params (s_nonces (st_store ex_state0)).
Proof.
  split; [vm_compute; reflexivity|]. split.
  - split; [exact I | intros v row []].
  - intros v f x [row [[] _]].
Qed.

(* --- non-vacuity --- *)
Example ex_admitted_and_counted :
  exists st', deliver_tx ex_params ex_now ex_state20 (mkTx [ex_msg 0 1 "1" 100] 300 true true) = (st', true, true).
Proof. eexists. vm_compute. reflexivity. Qed.

Example ex_final_price_written :
  let st1 := fst (fst (deliver_tx ex_params ex_now ex_state20 (mkTx [ex_msg 0 1 "1" 100] 300 true true))) in
  let st2 := fst (fst (deliver_tx ex_params ex_now st1 (mkTx [ex_msg 1 1 "1" 100] 300 true true))) in
  let st3 := fst (fst (deliver_tx ex_params ex_now st2 (mkTx [ex_msg 2 1 "1" 100] 300 true true))) in
  latest_price (get_tp (st_store st3) 1) = Some (mkPtr 1 (Some 100) 8 100) /\ s_nonces (st_store st3) = [].
Proof. vm_compute. split; reflexivity. Qed.

Example ex_rejected_forged_signature :
  deliver_tx ex_params ex_now ex_state20 (mkTx [ex_msg 0 1 "1" 100] 300 true false) = (ex_state20, false, false).
Proof. vm_compute. reflexivity. Qed.

Example ex_rejected_message :
  exists m', create_price ex_params ex_now (st_store ex_state20) (st_mem ex_state20) (mkMsg 0 1 19 1 [mkPS 1 [mkPI "1" 100 8 100 true]])
             = (st_store ex_state20, m', MsgErr).
Proof. eexists. vm_compute. reflexivity. Qed.
